import Mkdb.Proofs.ReplayInsert1
/-!
Replay of INSERT log records, part 2: one record.

* `replayOne_skip`, `replayOne_insert_same`, `replayOne_insert_moved`, `replayOne_insert_exists`:
  `replayOne` computed along its four successful paths for an INSERT record.
* `replay_insert_record`: **redo of a logged INSERT on the state before it** is `insertAppend` on the
  tree of the table plus, when the root moved, the re-pointing of its catalog row.
* `replay_skips_applied`, `replay_tolerates_present`: a record already on the page is skipped, a key
  already in the tree is tolerated; only the counters move.
-/
set_option autoImplicit false
namespace Mkdb.Store
open Mkdb.Page Mkdb.Tuple Mkdb.Generated Mkdb.Tree Mkdb.Engine

/-! ### `replayOne` along its paths -/

/-- the store `replayOne` starts from: `nextLSN` raised to at least the record's LSN -/
def raiseLSN (s : Store) (lsn : Nat) : Store :=
  { s with hdr := { s.hdr with nextLSN := max s.hdr.nextLSN lsn } }

/-- the store after a replayed insert: the row-id counter raised to at least the record's key -/
def raiseKey (s : Store) (key : Nat) : Store :=
  { s with hdr := { s.hdr with lastKey := max s.hdr.lastKey key } }

/-- the store `replayOne` really starts from: `nextLSN` raised to at least the record's LSN, and - for
an INSERT record, redone or skipped - the row-id counter raised to at least the record's key -/
def raiseRec (s : Store) (r : WalRec) : Store :=
  { s with hdr := { s.hdr with nextLSN := max s.hdr.nextLSN r.lsn,
                               lastKey := if r.op == c_OpInsert then max s.hdr.lastKey r.cell else s.hdr.lastKey } }

theorem view_raiseLSN (s : Store) (lsn : Nat) : view (raiseLSN s lsn) = view s := rfl
theorem view_raiseRec (s : Store) (r : WalRec) : view (raiseRec s r) = view s := rfl

/-- a record that is no INSERT, or an INSERT whose key the counter has passed: only `nextLSN` is raised -/
theorem raiseRec_of_le (s : Store) (r : WalRec) (hk : r.op = c_OpInsert → r.cell ≤ s.hdr.lastKey) :
    raiseRec s r = raiseLSN s r.lsn := by
  unfold raiseRec raiseLSN
  by_cases hop : r.op = c_OpInsert
  · have hop1 : (r.op == c_OpInsert) = true := by rw [hop]; decide
    simp only [hop1, if_true, Nat.max_eq_left (hk hop)]
  · have hop1 : (r.op == c_OpInsert) = false := by simpa using hop
    simp only [hop1, Bool.false_eq_true, if_false]

/-- an INSERT record: both counters are raised -/
theorem raiseRec_insert (s : Store) (r : WalRec) (hop : r.op = c_OpInsert) :
    (raiseRec s r).hdr = { s.hdr with nextLSN := max s.hdr.nextLSN r.lsn, lastKey := max s.hdr.lastKey r.cell } := by
  have hop1 : (r.op == c_OpInsert) = true := by rw [hop]; decide
  unfold raiseRec
  simp only [hop1, if_true]
theorem view_raiseKey (s : Store) (key : Nat) : view (raiseKey s key) = view s := rfl

/-- the record is already on the page: skipped (any kind of record) -/
theorem replayOne_skip (r : WalRec) (s s1 : Store) (n : Node)
    (hf : fetch r.page (raiseRec s r) = .ok n s1) (hl : r.lsn ≤ nodeLSN n) :
    replayOne r s = (s1, none, false) := by
  unfold raiseRec at hf
  unfold replayOne
  simp only []
  rw [hf]
  simp only [hl, if_true]

/-- an INSERT record, applied, the root stays -/
theorem replayOne_insert_same (r : WalRec) (s s1 s2 : Store) (n : Node) (bt : BT)
    (hop : r.op = c_OpInsert)
    (hf : fetch r.page (raiseRec s r) = .ok n s1) (hl : nodeLSN n < r.lsn)
    (hi : insertKey ⟨nodeOff n⟩ r.cell r.lsn r.val s1 = .ok bt s2) (hroot : bt.root = nodeOff n) :
    replayOne r s = (raiseKey s2 r.cell, none, false) := by
  unfold raiseRec at hf
  unfold replayOne
  simp only []
  rw [hf]
  have hop1 : (r.op == c_OpInsert) = true := by rw [hop]; decide
  have hl' : ¬ r.lsn ≤ nodeLSN n := by omega
  simp only [hl', if_false, hop1, if_true, hi, hroot, bne_self_eq_false, Bool.false_eq_true]
  rfl

/-- an INSERT record, applied, the root moved and the catalog row was re-pointed -/
theorem replayOne_insert_moved (r : WalRec) (s s1 s2 s4 : Store) (n : Node) (bt : BT)
    (hop : r.op = c_OpInsert)
    (hf : fetch r.page (raiseRec s r) = .ok n s1) (hl : nodeLSN n < r.lsn)
    (hi : insertKey ⟨nodeOff n⟩ r.cell r.lsn r.val s1 = .ok bt s2) (hroot : bt.root ≠ nodeOff n)
    (hr : repointPageTable (nodeOff n) bt.root r.lsn (raiseKey s2 r.cell) = .ok () s4) :
    replayOne r s = (s4, none, false) := by
  unfold raiseRec at hf
  unfold raiseKey at hr
  unfold replayOne
  simp only []
  rw [hf]
  have hop1 : (r.op == c_OpInsert) = true := by rw [hop]; decide
  have hl' : ¬ r.lsn ≤ nodeLSN n := by omega
  have hb : (bt.root != nodeOff n) = true := by simpa using hroot
  simp only [hl', if_false, hop1, if_true, hi, hb, hr]

/-- an INSERT record whose key is already there: tolerated -/
theorem replayOne_insert_exists (r : WalRec) (s s1 s2 : Store) (n : Node)
    (hop : r.op = c_OpInsert)
    (hf : fetch r.page (raiseRec s r) = .ok n s1) (hl : nodeLSN n < r.lsn)
    (hi : insertKey ⟨nodeOff n⟩ r.cell r.lsn r.val s1 = .err .keyExists s2) :
    replayOne r s = (raiseKey s2 r.cell, none, false) := by
  unfold raiseRec at hf
  unfold replayOne
  simp only []
  rw [hf]
  have hop1 : (r.op == c_OpInsert) = true := by rw [hop]; decide
  have hl' : ¬ r.lsn ≤ nodeLSN n := by omega
  simp only [hl', if_false, hop1, if_true, hi]
  rfl

/-! ### the page table's own row -/

/-- the row of `sys_pages` in the page table (if there is one) names a page OF THE PAGE TABLE.
(`CREATE DATABASE` writes that row once, naming the first page of the page table; nothing ever
rewrites it - the engine finds the page table through the header.  While the page table is one leaf the
row names its root; once that leaf has split the row is stale: it names the old root, which stays the
leftmost leaf of the page table.  Pages never leave a tree, so the predicate is kept by every statement;
and since no page belongs to two trees (`Cat.disj`), the row never names the root of a user table - all
the replay needs, `entry_of_root`.  Until W10 the predicate read `off = rootOff pt`, which excluded every
database whose page table had split.) -/
def PtSelf (pt : Levels) : Prop := ∀ off, (sysPages, off) ∈ ptEntries pt → off ∈ offs pt

theorem PtSelf.repoint {pt ptF : Levels} (h : PtSelf pt) {table : Bytes} {new : Nat}
    (hent : ptEntries ptF = (ptEntries pt).map (repoint table new)) (hne : table ≠ sysPages)
    (hoffs : offs ptF = offs pt) : PtSelf ptF := by
  intro off hm
  rw [hent] at hm
  obtain ⟨e, he, hre⟩ := List.mem_map.mp hm
  unfold Store.repoint at hre
  split at hre
  · simp only [Prod.mk.injEq] at hre
    exact absurd hre.1 hne
  · subst hre
    rw [hoffs]
    exact h off he

/-- under the catalog invariant, the only entry of the page table naming the root of the tree of
`table` is the entry of `table` -/
theorem entry_of_root {s : Store} {pt sch : Levels} {tbls : List (Bytes × Levels)} (h : Cat s pt sch tbls)
    (hself : PtSelf pt) {table : Bytes} {t : Levels} (ht : (table, t) ∈ tbls) :
    ∀ n, (n, rootOff t) ∈ ptEntries pt → n = table := by
  intro n hn
  obtain ⟨d1, d2, d3, d4⟩ := h.disj_parts
  obtain ⟨_, hIt, _, _, _⟩ := h.tree t (Cat.tb_mem ht)
  obtain ⟨_, hIpt, _, _, _⟩ := h.tree pt Cat.pt_mem
  obtain ⟨_, hIsch, _, _, _⟩ := h.tree sch Cat.sch_mem
  have hrt : rootOff t ∈ offs t := rootOff_mem_offs t _ hIt
  rcases h.only _ hn with h1 | h1 | h1
  · simp only at h1
    subst h1
    exact absurd hrt (d2 (table, t) ht _ (hself _ hn))
  · simp only at h1
    subst h1
    have := inj_of_nodup_map (·.1) _ h.names _ hn _ h.esch rfl
    simp only [Prod.mk.injEq, true_and] at this
    exact absurd hrt (this ▸ d3 (table, t) ht _ (rootOff_mem_offs sch _ hIsch))
  · simp only at h1
    obtain ⟨e, he, hen⟩ := List.mem_map.mp h1
    have := inj_of_nodup_map (·.1) _ h.names _ hn _ (h.etb e he) hen.symm
    simp only [Prod.mk.injEq] at this
    by_cases het : e.1 = table
    · rw [← hen, het]
    · exfalso
      have hdis := pairwise_mem_ne (fun (a b : Bytes × Levels) => ∀ o ∈ offs a.2, o ∉ offs b.2)
        (fun a b hab o hb ha => hab o ha hb) tbls d4 e he (table, t) ht (fun heq => het (by rw [heq]))
      have hre : rootOff e.2 ∈ offs e.2 := rootOff_mem_offs e.2 _ (h.tree e.2 (Cat.tb_mem he)).2.1
      rw [← this.2] at hre
      exact hdis _ hre hrt

/-! ### redo of one logged INSERT on the state before it -/

/-- **Replay of an INSERT record on the state before the statement.**  Under the catalog invariant,
for the record `⟨OpInsert, lsn, rootOff t, key, buf⟩` of a table `table` with tree `t`, where the levels
insert `insertAppend t key lsn buf` succeeds (so `key` is beyond every key of `t` and `buf` fits a
cell) and `lsn` is newer than the root page of `t` (so the record is not skipped): `replayOne` runs
without error, the store then holds `t'` in place of `t` and every other tree as before, the
allocation frontier is the one of the levels insert, the row-id and LSN counters are raised to the
record's, and - exactly when the root moved - the catalog row of `table` is rewritten to name the
new root, stamped with the record's LSN. -/
theorem replay_insert_record (s : Store) (pt sch : Levels) (tbls : List (Bytes × Levels))
    (h : Cat s pt sch tbls) (hself : PtSelf pt)
    (table : Bytes) (t : Levels) (ht : (table, t) ∈ tbls) (key lsn : Nat) (buf : Bytes)
    (hlsn : rootLSN t < lsn) (hpos : 0 < rootOff t)
    (t' : Levels) (nf' : Nat) (hins : insertAppend t key lsn buf s.hdr.nextFree = .ok (t', nf'))
    (hd' : t'.inner.length + 2 ≤ treeFuel) (hl' : t'.leaves.length ≤ scanFuel)
    (hbig : (nf' : Int) ≤ 9223372036854775807) :
    ∃ s' ptF, replayOne ⟨c_OpInsert, lsn, rootOff t, key, buf⟩ s = (s', none, false) ∧
      Cat s' ptF sch (setTable tbls table t') ∧ PtSelf ptF ∧
      s'.hdr.nextFree = nf' ∧ s'.hdr.lastKey = max s.hdr.lastKey key ∧
      s'.hdr.nextLSN = max s.hdr.nextLSN lsn ∧ s'.hdr.ptRoot = s.hdr.ptRoot ∧
      ptEntries ptF = (ptEntries pt).map (repoint table (rootOff t')) ∧
      ((rootOff t' = rootOff t ∧ ptF = pt) ∨
       (rootOff t' ≠ rootOff t ∧ ∃ a p, a ∈ live pt ∧ ptEntry a = some (table, rootOff t) ∧
          p ∈ pt.leaves ∧ a ∈ p.1.cells ∧ ptF = setVal pt a.key lsn (ptRow table (rootOff t')))) ∧
      (∀ off, off ∉ offs t' → off ∉ offs pt → view s' off = view s off) := by
  obtain ⟨d1, d2, d3, d4⟩ := h.disj_parts
  obtain ⟨hHt, hIt, hdt, _, hkt⟩ := h.tree t (Cat.tb_mem ht)
  obtain ⟨hHpt, hIpt, hdpt, hlpt, _⟩ := h.tree pt Cat.pt_mem
  -- the fetch of the root
  obtain ⟨n, d, hvn, hon, hln⟩ := root_held_lsn s t _ hHt hIt
  obtain ⟨s1, e1, v1, n1, _⟩ := fetch_spec (raiseRec s ⟨c_OpInsert, lsn, rootOff t, key, buf⟩) (rootOff t) n d hvn hon
  have hh1 : s1.hdr = (raiseRec s ⟨c_OpInsert, lsn, rootOff t, key, buf⟩).hdr := fetch_hdr e1
  have hH1 : Holds s1 t := fun e he => by rw [v1]; exact hHt e he
  have hI1 : Inv t s1.hdr.nextFree := by rw [n1]; exact hIt
  have hins1 : insertAppend t key lsn buf s1.hdr.nextFree = .ok (t', nf') := by rw [n1]; exact hins
  -- the tree insert
  obtain ⟨s2, e2, hH2, hn2, hfr2⟩ := insertKeyHeap_refines s1 t key lsn buf hH1 hI1 (by omega) t' nf' hins1
  have hik := insertKey_eq_insertKeyHeap s1 t key lsn buf hH1 hI1 hdt (.inl ⟨_, hins1⟩)
  rw [e2] at hik
  obtain ⟨k1, k2, k3⟩ := hrest_eq ((Keeps.insertKeyHeap _ _ _ _).ok e2)
  have hi : insertKey ⟨nodeOff n⟩ key lsn buf s1 = .ok ⟨rootOff t'⟩ s2 := by rw [hon]; exact hik
  have hlk2 : s2.hdr.lastKey = max s.hdr.lastKey key := by rw [k1, hh1]; rfl
  have hpr2 : s2.hdr.ptRoot = s.hdr.ptRoot := by rw [k2, hh1]; rfl
  have hlsn2 : s2.hdr.nextLSN = max s.hdr.nextLSN lsn := by rw [k3, hh1]; rfl
  have hfr02 : ∀ off, off ∉ offs t' → view s2 off = view s off := fun off ho => by
    rw [hfr2 off ho, v1]; rfl
  have hle : s.hdr.nextFree ≤ nf' := insertAppend_nextFree t t' _ _ _ nf' buf hins
  have hHpt2 : Holds s2 pt := holds_after_insert hins hfr02 hHpt hIpt (d2 (table, t) ht)
  have hln' : nodeLSN n < lsn := by rw [hln]; exact hlsn
  by_cases hmove : rootOff t' = rootOff t
  · -- the root did not move
    have hrun := replayOne_insert_same ⟨c_OpInsert, lsn, rootOff t, key, buf⟩ s s1 s2 n ⟨rootOff t'⟩ rfl
      e1 hln' hi (by rw [hon]; exact hmove)
    have hent : ptEntries pt = (ptEntries pt).map (repoint table (rootOff t')) := by
      rw [hmove]
      exact (repoint_id table (rootOff t) _ h.names (h.etb (table, t) ht)).symm
    refine ⟨raiseKey s2 key, pt, hrun, ?_, hself, hn2, ?_, hlsn2, hpr2, hent, .inl ⟨hmove, rfl⟩,
      fun off h1 _ => hfr02 off h1⟩
    · exact h.rebuild' ht hins pt (.inl rfl) hent h.dec hn2
        (by show s.hdr.lastKey ≤ max s2.hdr.lastKey key; rw [hlk2]; omega)
        (by show key ≤ max s2.hdr.lastKey key; exact Nat.le_max_right _ _)
        hpr2 hH2 hHpt2 (fun off h1 _ => hfr02 off h1) hd' hl'
    · show max s2.hdr.lastKey key = _; rw [hlk2]; omega
  · -- the root moved: the catalog row is re-pointed
    have hInv' : Inv t' nf' := insertAppend_inv t t' _ _ _ nf' buf hIt hins
    have hroot_lt : rootOff t' < nf' := hInv'.offs.2 _ (rootOff_mem_offs t' nf' hInv')
    obtain ⟨s4, a, p, e4, hal, hpa, hp, hap, hH4, hh4, hfr4⟩ :=
      repointPageTable_refines (raiseKey s2 key) pt table (rootOff t) (rootOff t') lsn
        hHpt2 (by show Inv pt s2.hdr.nextFree; rw [hn2]; exact Inv_mono pt _ _ hIpt hle)
        (by show rootOff pt = s2.hdr.ptRoot; rw [hpr2]; exact h.root) (by omega) hlpt h.dec
        (h.etb (table, t) ht) hpos (entry_of_root h hself ht) (h.tlen (table, t) ht)
    have hrun := replayOne_insert_moved ⟨c_OpInsert, lsn, rootOff t, key, buf⟩ s s1 s2 s4 n ⟨rootOff t'⟩ rfl
      e1 hln' hi (by rw [hon]; exact hmove) (by rw [hon]; exact e4)
    obtain ⟨hent, hdecF⟩ := ptEntries_setVal_row pt _ hIpt h.names a hal table (rootOff t) (rootOff t') lsn hpa
      (h.tlen (table, t) ht) (by omega)
    have hpoff : p.1.off ∈ offs pt := by
      rw [offs_eq]
      exact List.mem_append_left _ (List.mem_map.mpr ⟨p, hp, rfl⟩)
    have hpt_t' : ∀ o ∈ offs t', o ∉ offs pt := by
      intro o ho hop
      rcases insertAppend_offs_new t t' _ _ _ nf' buf hins o ho with h1 | h1
      · exact d2 (table, t) ht o hop h1
      · have := hIpt.offs.2 o hop; omega
    have hfr24 : ∀ off, off ∉ offs pt → view s4 off = view s2 off := fun off ho => by
      rw [hfr4 off (fun he => ho (he ▸ hpoff))]; rfl
    have hH4t : Holds s4 t' := by
      intro x hx
      rw [hfr24 x.1 (hpt_t' x.1 (List.mem_map.mpr ⟨x, hx, rfl⟩))]
      exact hH2 x hx
    have hne : table ≠ sysPages := fun he => h.tsys.1 (he ▸ List.mem_map.mpr ⟨(table, t), ht, rfl⟩)
    have hF : PtLike pt (setVal pt a.key lsn (ptRow table (rootOff t'))) := .inr ⟨_, _, _, rfl⟩
    have hframe : ∀ off, off ∉ offs t' → off ∉ offs pt → view s4 off = view s off :=
      fun off h1 h2 => by rw [hfr24 off h2, hfr02 off h1]
    have hh4' : s4.hdr = (raiseKey s2 key).hdr := hh4
    refine ⟨s4, setVal pt a.key lsn (ptRow table (rootOff t')), hrun, ?_,
      hself.repoint hent hne hF.facts.1, by rw [hh4']; exact hn2, ?_, by rw [hh4']; exact hlsn2,
      by rw [hh4']; exact hpr2, hent, .inr ⟨hmove, a, p, hal, hpa, hp, hap, rfl⟩, hframe⟩
    · exact h.rebuild' ht hins _ hF hent (hdecF h.dec) (by rw [hh4']; exact hn2)
        (by rw [hh4']; show s.hdr.lastKey ≤ max s2.hdr.lastKey key; rw [hlk2]; omega)
        (by rw [hh4']; show key ≤ max s2.hdr.lastKey key; exact Nat.le_max_right _ _)
        (by rw [hh4']; exact hpr2) hH4t hH4 hframe hd' hl'
    · rw [hh4']; show max s2.hdr.lastKey key = _; rw [hlk2]; omega

/-! ### records that are already applied -/

/-- the catalog invariant does not look at the LSN counter, and tolerates a higher row-id counter -/
theorem Cat.raise {s s' : Store} {pt sch : Levels} {tbls : List (Bytes × Levels)} (h : Cat s pt sch tbls)
    (hv : view s' = view s) (hnf : s'.hdr.nextFree = s.hdr.nextFree) (hpr : s'.hdr.ptRoot = s.hdr.ptRoot)
    (hlk : s.hdr.lastKey ≤ s'.hdr.lastKey) : Cat s' pt sch tbls where
  tree := fun x hx => by
    obtain ⟨a, b, c, d, e⟩ := h.tree x hx
    rw [hnf]
    exact ⟨fun y hy => by rw [hv]; exact a y hy, b, c, d, fun k hk => Nat.le_trans (e k hk) hlk⟩
  disj := h.disj
  root := by rw [hpr]; exact h.root
  dec := h.dec
  names := h.names
  esch := h.esch
  etb := h.etb
  only := h.only
  tnames := h.tnames
  tsys := h.tsys
  tlen := h.tlen

/-- **A record that is already on its page is skipped** (any kind of record): if the engine sees,
at the record's page, a node filed under that offset whose LSN is at least the record's, nothing
visible changes and of the header only the counters are raised: `nextLSN` to at least the record's
LSN and - when the record is an INSERT - the row-id counter to at least the record's key (the skipped
record still tells recovery that this row id was handed out; the header on file may not know).  In
particular every catalog description of the store stays true. -/
theorem replay_skips_applied (r : WalRec) (s : Store) (n : Node) (d : Bool)
    (hv : view s r.page = some (n, d)) (hoff : nodeOff n = r.page) (hl : r.lsn ≤ nodeLSN n) :
    ∃ s1, replayOne r s = (s1, none, false) ∧ view s1 = view s ∧
      s1.hdr = { s.hdr with nextLSN := max s.hdr.nextLSN r.lsn,
                            lastKey := if r.op == c_OpInsert then max s.hdr.lastKey r.cell else s.hdr.lastKey } ∧
      ∀ pt sch tbls, Cat s pt sch tbls → Cat s1 pt sch tbls := by
  obtain ⟨s1, e1, v1, n1, _⟩ := fetch_spec (raiseRec s r) r.page n d hv hoff
  have hh1 : s1.hdr = (raiseRec s r).hdr := fetch_hdr e1
  refine ⟨s1, replayOne_skip r s s1 n e1 hl, v1, hh1, fun pt sch tbls h => ?_⟩
  refine h.raise v1 (by rw [hh1]; rfl) (by rw [hh1]; rfl) ?_
  rw [hh1]
  show s.hdr.lastKey ≤ if r.op == c_OpInsert then max s.hdr.lastKey r.cell else s.hdr.lastKey
  split
  · exact Nat.le_max_left _ _
  · exact Nat.le_refl _

/-- the same for a record that is no INSERT, or an INSERT whose key the row-id counter has passed
(every logged insert key was handed out by the counter): of the header only `nextLSN` is raised -/
theorem replay_skips_applied_le (r : WalRec) (s : Store) (n : Node) (d : Bool)
    (hv : view s r.page = some (n, d)) (hoff : nodeOff n = r.page) (hl : r.lsn ≤ nodeLSN n)
    (hk : r.op = c_OpInsert → r.cell ≤ s.hdr.lastKey) :
    ∃ s1, replayOne r s = (s1, none, false) ∧ view s1 = view s ∧
      s1.hdr = { s.hdr with nextLSN := max s.hdr.nextLSN r.lsn } ∧
      ∀ pt sch tbls, Cat s pt sch tbls → Cat s1 pt sch tbls := by
  obtain ⟨s1, e, v, hh, hc⟩ := replay_skips_applied r s n d hv hoff hl
  refine ⟨s1, e, v, ?_, hc⟩
  rw [hh]
  exact congrArg Store.hdr (raiseRec_of_le s r hk)

/-- the special case of an INSERT record of a table of the catalog: the record's LSN is at most the
LSN of the root page of the tree -/
theorem replay_skips_applied_cat (s : Store) (pt sch : Levels) (tbls : List (Bytes × Levels))
    (h : Cat s pt sch tbls) (table : Bytes) (t : Levels) (ht : (table, t) ∈ tbls) (op key lsn : Nat)
    (buf : Bytes) (hl : lsn ≤ rootLSN t) :
    ∃ s1, replayOne ⟨op, lsn, rootOff t, key, buf⟩ s = (s1, none, false) ∧ view s1 = view s ∧
      s1.hdr = { s.hdr with nextLSN := max s.hdr.nextLSN lsn,
                            lastKey := if op == c_OpInsert then max s.hdr.lastKey key else s.hdr.lastKey } ∧
      Cat s1 pt sch tbls := by
  obtain ⟨hHt, hIt, _, _, _⟩ := h.tree t (Cat.tb_mem ht)
  obtain ⟨n, d, hvn, hon, hln⟩ := root_held_lsn s t _ hHt hIt
  obtain ⟨s1, e, v, hh, hc⟩ := replay_skips_applied ⟨op, lsn, rootOff t, key, buf⟩ s n d hvn hon
    (by rw [hln]; exact hl)
  exact ⟨s1, e, v, hh, hc _ _ _ h⟩

/-- **An INSERT record whose key is already in the tree is tolerated**: the tree refuses the key
(`keyExists`), the replay goes on; nothing visible changes, of the header only the counters
`nextLSN` and `lastKey` are raised. -/
theorem replay_tolerates_present (s : Store) (pt sch : Levels) (tbls : List (Bytes × Levels))
    (h : Cat s pt sch tbls) (table : Bytes) (t : Levels) (ht : (table, t) ∈ tbls) (key lsn : Nat)
    (buf : Bytes) (hk : key ∈ keys t) :
    ∃ s1, replayOne ⟨c_OpInsert, lsn, rootOff t, key, buf⟩ s = (s1, none, false) ∧ view s1 = view s ∧
      s1.hdr = { s.hdr with nextLSN := max s.hdr.nextLSN lsn, lastKey := max s.hdr.lastKey key } ∧
      Cat s1 pt sch tbls := by
  obtain ⟨hHt, hIt, hdt, _, hkt⟩ := h.tree t (Cat.tb_mem ht)
  by_cases hl : lsn ≤ rootLSN t
  · -- skipped before the tree is looked at
    obtain ⟨s1, e, v, hh, hc⟩ := replay_skips_applied_cat s pt sch tbls h table t ht c_OpInsert key lsn buf hl
    exact ⟨s1, e, v, hh, hc⟩
  · obtain ⟨n, d, hvn, hon, hln⟩ := root_held_lsn s t _ hHt hIt
    obtain ⟨s1, e1, v1, n1, _⟩ := fetch_spec (raiseRec s ⟨c_OpInsert, lsn, rootOff t, key, buf⟩) (rootOff t) n d hvn hon
    have hh1 : s1.hdr = (raiseRec s ⟨c_OpInsert, lsn, rootOff t, key, buf⟩).hdr := fetch_hdr e1
    have hH1 : Holds s1 t := fun e he => by rw [v1]; exact hHt e he
    have hI1 : Inv t s1.hdr.nextFree := by rw [n1]; exact hIt
    have hne : t.leaves ≠ [] := by
      intro h0
      have := linked_below_ne t.inner _ hIt.link
      rw [h0] at this
      exact this rfl
    have hins : insertAppend t key lsn buf s1.hdr.nextFree = .error .keyExists := by
      obtain ⟨c, hc, hck⟩ := List.mem_map.mp hk
      have hany : (cells t).any (fun c => c.key == key) = true :=
        List.any_eq_true.mpr ⟨c, hc, by simp [hck]⟩
      unfold insertAppend
      cases hlast : t.leaves.getLast? with
      | none => exact absurd (List.getLast?_eq_none_iff.mp hlast) hne
      | some x => simp only [hany, if_true]
    obtain ⟨s2, e2, hH2, hn2, hv2⟩ := insertKeyHeap_refines_keyExists s1 t key lsn buf hH1 hI1 (by omega) hins
    have hik := insertKey_eq_insertKeyHeap s1 t key lsn buf hH1 hI1 hdt (.inr (.inl hins))
    rw [e2] at hik
    obtain ⟨k1, k2, k3⟩ := hrest_eq ((Keeps.insertKeyHeap _ _ _ _).err e2)
    have hrun := replayOne_insert_exists ⟨c_OpInsert, lsn, rootOff t, key, buf⟩ s s1 s2 n rfl e1
      (by show nodeLSN n < lsn; rw [hln]; omega) (by rw [hon]; exact hik)
    have hv02 : view (raiseKey s2 key) = view s := by
      funext off
      show view s2 off = _
      rw [hv2 off, v1]; rfl
    have hhdr : (raiseKey s2 key).hdr =
        { s.hdr with nextLSN := max s.hdr.nextLSN lsn, lastKey := max s.hdr.lastKey key } := by
      have e : ∀ (a b : Header), a.lastKey = b.lastKey → a.ptRoot = b.ptRoot → a.nextFree = b.nextFree →
          a.nextLSN = b.nextLSN → a = b := by
        intro a b h1 h2 h3 h4
        cases a; cases b; simp only at h1 h2 h3 h4; subst h1 h2 h3 h4; rfl
      apply e
      · show max s2.hdr.lastKey key = max s.hdr.lastKey key; rw [k1, hh1]
        show max (max s.hdr.lastKey key) key = _; omega
      · show s2.hdr.ptRoot = s.hdr.ptRoot; rw [k2, hh1]; rfl
      · show s2.hdr.nextFree = s.hdr.nextFree; rw [hn2, n1]; rfl
      · show s2.hdr.nextLSN = max s.hdr.nextLSN lsn; rw [k3, hh1]; rfl
    refine ⟨raiseKey s2 key, hrun, hv02, hhdr, ?_⟩
    exact h.raise hv02 (by rw [hhdr]) (by rw [hhdr]) (by rw [hhdr]; exact Nat.le_max_left _ _)

end Mkdb.Store
