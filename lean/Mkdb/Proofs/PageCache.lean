import Mkdb.Model.PageCache
/-!
C16: the bounded page cache (`Mkdb/Model/PageCache.lean`) is observationally the cache-less reference,
for every capacity, on every workload it does not refuse; plus the tie of its recency / eviction
behaviour to the LRU model of C15 (`Mkdb/Model/LRU.lean`).
-/
namespace Mkdb.PageCache

variable {α : Type}

/-! ### the logical content over a bare recency list -/

/-- `view` over a bare list and a disk (`view s = lview s.items s.disk` by `rfl`) -/
def lview (l : List (Ent α)) (d : Nat → α) (k : Nat) : α :=
  match find? l k with
  | some e => e.val
  | none => d k

theorem view_eq (s : St α) (k : Nat) : view s k = lview s.items s.disk k := rfl

theorem find?_cons (e : Ent α) (l : List (Ent α)) (k : Nat) :
    find? (e :: l) k = if e.key = k then some e else find? l k := by
  by_cases h : e.key = k
  · simp [find?, h]
  · have : (e.key == k) = false := by simpa using h
    simp [find?, h, this]

theorem lview_cons (e : Ent α) (l : List (Ent α)) (d : Nat → α) (k : Nat) :
    lview (e :: l) d k = if e.key = k then e.val else lview l d k := by
  unfold lview
  rw [find?_cons]
  by_cases h : e.key = k <;> simp [h]

theorem find?_some {l : List (Ent α)} {k : Nat} {e : Ent α} (h : find? l k = some e) :
    e ∈ l ∧ e.key = k := by
  unfold find? at h
  exact ⟨List.mem_of_find?_eq_some h, by simpa using List.find?_some h⟩

theorem find?_none {l : List (Ent α)} {k : Nat} (h : find? l k = none) :
    ∀ e ∈ l, e.key ≠ k := by
  unfold find? at h
  intro e he
  simpa using List.find?_eq_none.mp h e he

theorem find?_none_of {l : List (Ent α)} {k : Nat} (h : ∀ e ∈ l, e.key ≠ k) :
    find? l k = none := by
  unfold find?
  apply List.find?_eq_none.mpr
  intro e he
  simpa using h e he

theorem find?_of_mem {l : List (Ent α)} (hnd : (l.map (·.key)).Nodup) {e : Ent α} (he : e ∈ l) :
    find? l e.key = some e := by
  induction l with
  | nil => cases he
  | cons x t ih =>
    simp only [List.map_cons, List.nodup_cons, List.mem_map, not_exists, not_and] at hnd
    rw [find?_cons]
    rcases List.mem_cons.mp he with rfl | he'
    · simp
    · have : x.key ≠ e.key := fun hx => hnd.1 e he' hx.symm
      simp only [this, ↓reduceIte]
      exact ih hnd.2 he'

/-! ### `evict` -/

theorem evict_none_iff {l : List (Ent α)} : evict l = none ↔ ∀ e ∈ l, e.dirty = true := by
  induction l with
  | nil => simp [evict]
  | cons a t ih =>
    simp only [evict, List.mem_cons, forall_eq_or_imp]
    cases ht : evict t with
    | some t' =>
      simp only [reduceCtorEq, false_iff, not_and]
      intro _ hall
      have := ih.mpr hall
      rw [ht] at this; cases this
    | none =>
      have hall := ih.mp ht
      cases hd : a.dirty with
      | false => simp
      | true => simpa using hall

/-- `evict` removes exactly one clean entry, below which everything is dirty -/
theorem evict_some {l l' : List (Ent α)} (h : evict l = some l') :
    ∃ pre v post, l = pre ++ v :: post ∧ l' = pre ++ post ∧ v.dirty = false ∧
      ∀ e ∈ post, e.dirty = true := by
  induction l generalizing l' with
  | nil => simp [evict] at h
  | cons e rest ih =>
    simp only [evict] at h
    cases hr : evict rest with
    | some rest' =>
      rw [hr] at h
      obtain ⟨pre, v, post, h1, h2, h3, h4⟩ := ih hr
      cases h
      exact ⟨e :: pre, v, post, by simp [h1], by simp [h2], h3, h4⟩
    | none =>
      rw [hr] at h
      cases hd : e.dirty with
      | true => simp [hd] at h
      | false =>
        simp only [hd, Bool.false_eq_true, ↓reduceIte, Option.some.injEq] at h
        subst h
        exact ⟨[], e, rest, by simp, by simp, hd, evict_none_iff.mp hr⟩

theorem evict_length {l l' : List (Ent α)} (h : evict l = some l') : l'.length + 1 = l.length := by
  obtain ⟨pre, v, post, h1, h2, _, _⟩ := evict_some h
  subst h1; subst h2; simp; omega

theorem evict_sublist {l l' : List (Ent α)} (h : evict l = some l') : l'.Sublist l := by
  obtain ⟨pre, v, post, h1, h2, _, _⟩ := evict_some h
  subst h1; subst h2
  exact List.Sublist.append_left (List.sublist_cons_self v post) pre

/-- the crux: a clean resident page equals its disk image, so evicting it does not change the contents -/
theorem lview_evict {l l' : List (Ent α)} {d : Nat → α} (hnd : (l.map (·.key)).Nodup)
    (hc : ∀ e ∈ l, e.dirty = false → d e.key = e.val) (h : evict l = some l') (k : Nat) :
    lview l' d k = lview l d k := by
  induction l generalizing l' with
  | nil => simp [evict] at h
  | cons e rest ih =>
    simp only [List.map_cons, List.nodup_cons, List.mem_map, not_exists, not_and] at hnd
    have hc' : ∀ e ∈ rest, e.dirty = false → d e.key = e.val :=
      fun x hx => hc x (List.mem_cons_of_mem _ hx)
    simp only [evict] at h
    cases hr : evict rest with
    | some rest' =>
      rw [hr] at h
      cases h
      rw [lview_cons, lview_cons, ih hnd.2 hc' hr]
    | none =>
      rw [hr] at h
      cases hd : e.dirty with
      | true => simp [hd] at h
      | false =>
        simp only [hd, Bool.false_eq_true, ↓reduceIte, Option.some.injEq] at h
        subst h
        rw [lview_cons]
        by_cases hk : e.key = k
        · simp only [hk, ↓reduceIte]
          have hn : find? rest k = none :=
            find?_none_of (fun x hx hxk => hnd.1 x hx (hxk.trans hk.symm))
          unfold lview
          rw [hn, ← hk]
          exact hc e List.mem_cons_self hd
        · simp only [hk, ↓reduceIte]

/-! ### `remove` -/

theorem remove_sublist (l : List (Ent α)) (k : Nat) : (remove l k).Sublist l :=
  List.filter_sublist

theorem keys_remove_not_mem (l : List (Ent α)) (k : Nat) : k ∉ (remove l k).map (·.key) := by
  simp only [remove, List.mem_map, List.mem_filter]
  rintro ⟨e, ⟨_, he⟩, rfl⟩
  simp at he

theorem remove_length_lt {l : List (Ent α)} {k : Nat} {e : Ent α} (h : find? l k = some e) :
    (remove l k).length + 1 ≤ l.length := by
  obtain ⟨hm, hk⟩ := find?_some h
  have hle := List.length_filter_le (fun e : Ent α => !(e.key == k)) l
  have hne : (List.filter (fun e : Ent α => !(e.key == k)) l).length ≠ l.length := by
    intro heq
    have := List.length_filter_eq_length_iff.mp heq e hm
    simp [hk] at this
  simp only [remove]
  omega

theorem find?_remove_ne (l : List (Ent α)) {k k' : Nat} (h : k ≠ k') :
    find? (remove l k') k = find? l k := by
  simp only [find?, remove, List.find?_filter]
  congr 1
  funext a
  by_cases hak : a.key = k
  · have : ¬ a.key = k' := fun h' => h (hak.symm.trans h')
    simp [hak, h]
  · simp [hak]

/-- moving the hit entry to the front does not change the contents -/
theorem lview_touch {l : List (Ent α)} {d : Nat → α} {k : Nat} {e : Ent α}
    (h : find? l k = some e) (k' : Nat) : lview (e :: remove l k) d k' = lview l d k' := by
  obtain ⟨_, hek⟩ := find?_some h
  rw [lview_cons]
  by_cases hk : e.key = k'
  · simp only [hk, ↓reduceIte]
    have : k = k' := hek.symm.trans hk
    subst this
    simp only [lview, h]
  · simp only [hk, ↓reduceIte]
    have hne : k' ≠ k := fun hh => hk (hek.trans hh.symm)
    simp only [lview, find?_remove_ne l hne]

/-! ### `insertNew`, `fetch` -/

theorem insertNew_some {s s1 : St α} {e : Ent α} (h : Inv s) (hi : insertNew s e = some s1) :
    ∃ items', s1 = { s with items := e :: items' } ∧ items'.Sublist s.items ∧
      items'.length + 1 ≤ s.cap ∧ ∀ k, lview items' s.disk k = lview s.items s.disk k := by
  obtain ⟨hnd, hlen, hc⟩ := h
  unfold insertNew at hi
  by_cases hfull : s.items.length = s.cap
  · simp only [hfull, beq_self_eq_true, ↓reduceIte] at hi
    cases he : evict s.items with
    | none => simp [he] at hi
    | some items' =>
      simp only [he, Option.some.injEq] at hi
      refine ⟨items', hi.symm, evict_sublist he, ?_, lview_evict hnd hc he⟩
      have := evict_length he
      omega
  · have hb : (s.items.length == s.cap) = false := by simpa using hfull
    simp only [hb, Bool.false_eq_true, ↓reduceIte, Option.some.injEq] at hi
    exact ⟨s.items, hi.symm, List.Sublist.refl _, by omega, fun _ => rfl⟩

/-- what a successful `fetch` does -/
theorem fetch_spec {s s1 : St α} {k : Nat} {v : α} (h : Inv s) (hf : fetch s k = some (s1, v)) :
    Inv s1 ∧ v = view s k ∧ (∀ k', view s1 k' = view s k') ∧ s1.disk = s.disk ∧ s1.cap = s.cap ∧
      ∃ e, find? s1.items k = some e := by
  have h0 := h
  obtain ⟨hnd, hlen, hc⟩ := h
  unfold fetch at hf
  cases hfk : find? s.items k with
  | some e =>
    simp only [hfk, Option.some.injEq, Prod.mk.injEq] at hf
    obtain ⟨rfl, rfl⟩ := hf
    obtain ⟨hm, hek⟩ := find?_some hfk
    refine ⟨⟨?_, ?_, ?_⟩, ?_, ?_, rfl, rfl, ?_⟩
    · simp only [List.map_cons, List.nodup_cons, hek]
      exact ⟨keys_remove_not_mem s.items k, (List.Sublist.map _ (remove_sublist s.items k)).nodup hnd⟩
    · have := remove_length_lt hfk
      simp only [List.length_cons]; omega
    · intro x hx
      rcases List.mem_cons.mp hx with rfl | hx'
      · exact hc x hm
      · exact hc x ((remove_sublist s.items k).subset hx')
    · simp only [view, hfk]
    · intro k'
      exact lview_touch hfk k'
    · exact ⟨e, by rw [find?_cons]; simp [hek]⟩
  | none =>
    simp only [hfk] at hf
    cases hi : insertNew s ⟨k, s.disk k, false⟩ with
    | none => simp [hi] at hf
    | some s2 =>
      simp only [hi, Option.some.injEq, Prod.mk.injEq] at hf
      obtain ⟨rfl, rfl⟩ := hf
      obtain ⟨items', rfl, hsub, hl', hv'⟩ := insertNew_some h0 hi
      have hnk := find?_none hfk
      refine ⟨⟨?_, ?_, ?_⟩, ?_, ?_, rfl, rfl, ?_⟩
      · simp only [List.map_cons, List.nodup_cons, List.mem_map, not_exists, not_and]
        exact ⟨fun x hx => hnk x (hsub.subset hx), (List.Sublist.map _ hsub).nodup hnd⟩
      · simp only [List.length_cons]; omega
      · intro x hx
        rcases List.mem_cons.mp hx with rfl | hx'
        · intro _; rfl
        · exact hc x (hsub.subset hx')
      · simp only [view, hfk]
      · intro k'
        show lview _ _ k' = lview _ _ k'
        rw [lview_cons, hv']
        by_cases hk : k = k'
        · subst hk
          simp only [↓reduceIte, lview, hfk]
        · simp only [hk, ↓reduceIte]
      · exact ⟨⟨k, s.disk k, false⟩, by rw [find?_cons]; simp⟩

/-! ### `write`, `flush` -/

/-- the in-place change of `write` -/
def upd (k : Nat) (f : α → α) (e : Ent α) : Ent α :=
  if e.key == k then { e with val := f e.val, dirty := true } else e

theorem upd_key (k : Nat) (f : α → α) (e : Ent α) : (upd k f e).key = e.key := by
  unfold upd; split <;> rfl

theorem find?_map_of_key {g : Ent α → Ent α} (hg : ∀ e, (g e).key = e.key) (l : List (Ent α))
    (k : Nat) : find? (l.map g) k = (find? l k).map g := by
  unfold find?
  rw [List.find?_map]
  congr 2
  funext e
  simp only [Function.comp, hg]

theorem keys_map_of_key {g : Ent α → Ent α} (hg : ∀ e, (g e).key = e.key) (l : List (Ent α)) :
    (l.map g).map (·.key) = l.map (·.key) := by
  rw [List.map_map]
  apply List.map_congr_left
  intro e _
  exact hg e

theorem write_spec {s s' : St α} {k : Nat} {f : α → α} (h : Inv s) (hw : write s k f = some s') :
    Inv s' ∧ ∀ k', view s' k' = if k' = k then f (view s k) else view s k' := by
  unfold write at hw
  cases hf : fetch s k with
  | none => simp [hf] at hw
  | some r =>
    obtain ⟨s1, v⟩ := r
    simp only [hf, Option.some.injEq] at hw
    obtain ⟨⟨hnd, hlen, hc⟩, _, hview, _, _, e0, he0⟩ := fetch_spec h hf
    subst hw
    refine ⟨⟨?_, ?_, ?_⟩, ?_⟩
    · show ((s1.items.map (upd k f)).map (·.key)).Nodup
      rw [keys_map_of_key (upd_key k f)]
      exact hnd
    · show (s1.items.map (upd k f)).length ≤ s1.cap
      rw [List.length_map]; exact hlen
    · intro x hx
      have hx : x ∈ s1.items.map (upd k f) := hx
      obtain ⟨e, he, rfl⟩ := List.mem_map.mp hx
      show (upd k f e).dirty = false → s1.disk (upd k f e).key = (upd k f e).val
      unfold upd
      split
      · intro hd; cases hd
      · exact hc e he
    · intro k'
      show lview (s1.items.map (upd k f)) s1.disk k' = _
      rw [← hview k, ← hview k']
      show _ = if k' = k then f (lview s1.items s1.disk k) else lview s1.items s1.disk k'
      unfold lview
      rw [find?_map_of_key (upd_key k f)]
      by_cases hk : k' = k
      · subst hk
        obtain ⟨_, hek⟩ := find?_some he0
        simp [he0, upd, hek]
      · simp only [hk, ↓reduceIte]
        cases hfk : find? s1.items k' with
        | none => rfl
        | some e =>
          obtain ⟨_, hek⟩ := find?_some hfk
          have : ¬ e.key = k := fun hh => hk (hek.symm.trans hh)
          simp [upd, this]

theorem flush_inv (s : St α) (h : Inv s) : Inv (flush s) := by
  obtain ⟨hnd, hlen, hc⟩ := h
  refine ⟨?_, ?_, ?_⟩
  · show ((s.items.map fun e => ({ e with dirty := false } : Ent α)).map (·.key)).Nodup
    rw [keys_map_of_key (g := fun e => ({ e with dirty := false } : Ent α)) (fun _ => rfl)]
    exact hnd
  · show (s.items.map _).length ≤ s.cap
    rw [List.length_map]; exact hlen
  · intro x hx
    have hx : x ∈ s.items.map fun e => ({ e with dirty := false } : Ent α) := hx
    obtain ⟨e, he, rfl⟩ := List.mem_map.mp hx
    intro _
    show (match find? s.items e.key with
      | some e' => if e'.dirty then e'.val else s.disk e.key
      | none => s.disk e.key) = e.val
    rw [find?_of_mem hnd he]
    cases hd : e.dirty with
    | true => simp [hd]
    | false => simpa [hd] using hc e he hd

theorem flush_view (s : St α) (k : Nat) : view (flush s) k = view s k := by
  show lview (s.items.map fun e => ({ e with dirty := false } : Ent α)) (flush s).disk k
    = lview s.items s.disk k
  unfold lview
  rw [find?_map_of_key (g := fun e => ({ e with dirty := false } : Ent α)) (fun _ => rfl)]
  cases hf : find? s.items k with
  | some e => rfl
  | none =>
    show (match find? s.items k with
      | some e' => if e'.dirty then e'.val else s.disk k
      | none => s.disk k) = s.disk k
    rw [hf]

/-- (4a) after a flush the data file holds the logical contents -/
theorem flush_disk (s : St α) (h : Inv s) : ∀ k, (flush s).disk k = view s k := by
  obtain ⟨_, _, hc⟩ := h
  intro k
  show (match find? s.items k with
      | some e' => if e'.dirty then e'.val else s.disk k
      | none => s.disk k) = lview s.items s.disk k
  unfold lview
  cases hf : find? s.items k with
  | none => rfl
  | some e =>
    obtain ⟨hm, hek⟩ := find?_some hf
    cases hd : e.dirty with
    | true => simp [hd]
    | false =>
      have := hc e hm hd
      rw [hek] at this
      simpa [hd] using this

/-! ### (1) one step, (2) a run, (3) capacity independence -/

theorem step_sim (s : St α) (op : Op α) (h : Inv s) (s' : St α) (o : Option α)
    (hs : step s op = some (s', o)) :
    Inv s' ∧ o = (refStep (view s) op).2 ∧ view s' = (refStep (view s) op).1 := by
  cases op with
  | fetch k =>
    simp only [step, Option.map_eq_some_iff, Prod.mk.injEq, Prod.exists] at hs
    obtain ⟨s1, v, hf, rfl, rfl⟩ := hs
    obtain ⟨hinv, hv, hview, _⟩ := fetch_spec h hf
    exact ⟨hinv, by simp only [refStep, hv], funext hview⟩
  | write k f =>
    simp only [step, Option.map_eq_some_iff, Prod.mk.injEq] at hs
    obtain ⟨s1, hw, rfl, rfl⟩ := hs
    obtain ⟨hinv, hview⟩ := write_spec h hw
    exact ⟨hinv, rfl, funext hview⟩
  | flush =>
    simp only [step, Option.some.injEq, Prod.mk.injEq] at hs
    obtain ⟨rfl, rfl⟩ := hs
    exact ⟨flush_inv s h, rfl, funext (flush_view s)⟩

theorem run_sim (s : St α) (ops : List (Op α)) (h : Inv s) (s' : St α) (outs : List (Option α))
    (hr : run s ops = some (s', outs)) :
    Inv s' ∧ outs = (refRun (view s) ops).2 ∧ ∀ k, view s' k = (refRun (view s) ops).1 k := by
  induction ops generalizing s outs with
  | nil =>
    simp only [run, Option.some.injEq, Prod.mk.injEq] at hr
    obtain ⟨rfl, rfl⟩ := hr
    exact ⟨h, rfl, fun _ => rfl⟩
  | cons op rest ih =>
    simp only [run] at hr
    cases hs : step s op with
    | none => simp [hs] at hr
    | some r =>
      obtain ⟨s1, o⟩ := r
      simp only [hs] at hr
      cases hr1 : run s1 rest with
      | none => simp [hr1] at hr
      | some r' =>
        obtain ⟨s2, os⟩ := r'
        simp only [hr1, Option.some.injEq, Prod.mk.injEq] at hr
        obtain ⟨rfl, rfl⟩ := hr
        obtain ⟨hinv1, ho, hv1⟩ := step_sim s op h s1 o hs
        obtain ⟨hinv2, hos, hv2⟩ := ih s1 hinv1 os hr1
        rw [hv1] at hos hv2
        refine ⟨hinv2, ?_, ?_⟩
        · simp only [refRun, ho, hos]
        · intro k
          simp only [refRun, hv2 k]

/-- (3) C16: two caches of any two capacities on the same logical contents are indistinguishable on
every workload neither refuses -/
theorem cap_independent (s1 s2 : St α) (ops : List (Op α)) (h1 : Inv s1) (h2 : Inv s2)
    (hv : ∀ k, view s1 k = view s2 k) (s1' s2' : St α) (o1 o2 : List (Option α))
    (r1 : run s1 ops = some (s1', o1)) (r2 : run s2 ops = some (s2', o2)) :
    o1 = o2 ∧ ∀ k, view s1' k = view s2' k := by
  obtain ⟨_, ho1, hv1⟩ := run_sim s1 ops h1 s1' o1 r1
  obtain ⟨_, ho2, hv2⟩ := run_sim s2 ops h2 s2' o2 r2
  have : view s1 = view s2 := funext hv
  rw [this] at ho1 hv1
  exact ⟨ho1.trans ho2.symm, fun k => (hv1 k).trans (hv2 k).symm⟩

/-- `refRun` only looks at the pointwise values of the contents -/
theorem refRun_congr (m1 m2 : Nat → α) (ops : List (Op α)) (hm : ∀ k, m1 k = m2 k) :
    (refRun m1 ops).2 = (refRun m2 ops).2 ∧ ∀ k, (refRun m1 ops).1 k = (refRun m2 ops).1 k := by
  have : m1 = m2 := funext hm
  subst this
  exact ⟨rfl, fun _ => rfl⟩

/-! ### (4b) refusal happens exactly when the cache is full of dirty pages -/

theorem insertNew_none_iff (s : St α) (e : Ent α) :
    insertNew s e = none ↔ (s.items.length = s.cap ∧ ∀ x ∈ s.items, x.dirty = true) := by
  unfold insertNew
  by_cases hfull : s.items.length = s.cap
  · simp only [hfull, beq_self_eq_true, ↓reduceIte, true_and]
    rw [← evict_none_iff]
    cases evict s.items <;> simp
  · have hb : (s.items.length == s.cap) = false := by simpa using hfull
    simp [hb, hfull]

theorem fetch_none_iff (s : St α) (k : Nat) :
    fetch s k = none ↔
      (find? s.items k = none ∧ s.items.length = s.cap ∧ ∀ e ∈ s.items, e.dirty = true) := by
  unfold fetch
  cases hf : find? s.items k with
  | some e => simp
  | none =>
    simp only [true_and]
    rw [← insertNew_none_iff s ⟨k, s.disk k, false⟩]
    cases insertNew s ⟨k, s.disk k, false⟩ <;> simp

theorem never_refuses_when_clean_fits (s : St α) (k : Nat)
    (h : s.items.length < s.cap ∨ ∃ e ∈ s.items, e.dirty = false) : fetch s k ≠ none := by
  intro hn
  obtain ⟨_, hlen, hall⟩ := (fetch_none_iff s k).mp hn
  rcases h with h | ⟨e, he, hd⟩
  · omega
  · rw [hall e he] at hd; cases hd

/-- a write is refused exactly when its fetch is -/
theorem write_none_iff (s : St α) (k : Nat) (f : α → α) :
    write s k f = none ↔
      (find? s.items k = none ∧ s.items.length = s.cap ∧ ∀ e ∈ s.items, e.dirty = true) := by
  rw [← fetch_none_iff]
  unfold write
  cases fetch s k with
  | none => simp
  | some r => simp

/-! ### (5) the recency / eviction behaviour is the LRU model's -/

/-- the LRU entry of a page-cache entry (`proj l = l.map projE` by `rfl`) -/
def projE (e : Ent α) : LRU.Entry := ⟨e.key, e.key, e.dirty⟩

theorem proj_eq (l : List (Ent α)) : proj l = l.map projE := rfl

theorem proj_cons (e : Ent α) (l : List (Ent α)) : proj (e :: l) = projE e :: proj l := rfl

theorem proj_length (l : List (Ent α)) : (proj l).length = l.length := by
  simp [proj]

theorem proj_evict (l : List (Ent α)) : (evict l).map proj = LRU.evict (proj l) := by
  induction l with
  | nil => rfl
  | cons e rest ih =>
    rw [proj_cons]
    simp only [evict, LRU.evict]
    rw [← ih]
    cases evict rest with
    | some rest' => rfl
    | none =>
      simp only [Option.map_none, projE]
      by_cases hd : e.dirty = true <;> simp [hd]

theorem proj_find? (l : List (Ent α)) (k : Nat) : LRU.find? (proj l) k = (find? l k).map projE := by
  unfold LRU.find? find? proj
  rw [List.find?_map]
  rfl

theorem proj_remove (l : List (Ent α)) (k : Nat) : proj (remove l k) = LRU.remove (proj l) k := by
  unfold LRU.remove remove proj
  rw [List.filter_map]
  rfl

/-- `insertNew` of a non-resident page is `LRUCache.set` -/
theorem proj_insertNew (s : St α) (e : Ent α) (hf : find? s.items e.key = none) :
    (insertNew s e).map (fun s' => proj s'.items) =
      (let r := LRU.Cache.set ⟨s.cap, proj s.items⟩ e.key e.key e.dirty
       if r.2 then some r.1.items else none) := by
  have hf' : LRU.find? (proj s.items) e.key = none := by rw [proj_find?, hf]; rfl
  simp only [LRU.Cache.set, hf', proj_length, insertNew]
  by_cases hfull : s.items.length = s.cap
  · simp only [hfull, beq_self_eq_true, ↓reduceIte]
    rw [← proj_evict]
    cases evict s.items with
    | none => rfl
    | some items' => rfl
  · have hb : (s.items.length == s.cap) = false := by simpa using hfull
    simp only [hb, Bool.false_eq_true, ↓reduceIte]
    rfl

/-- a hit is `LRUCache.get` -/
theorem proj_fetch_hit (s : St α) (k : Nat) (e : Ent α) (hf : find? s.items k = some e) :
    (fetch s k).map (fun r => (proj r.1.items, r.2)) =
      some ((LRU.Cache.get ⟨s.cap, proj s.items⟩ k).1.items, e.val) ∧
    (LRU.Cache.get ⟨s.cap, proj s.items⟩ k).2 = some (projE e) := by
  have hf' : LRU.find? (proj s.items) k = some (projE e) := by rw [proj_find?, hf]; rfl
  simp only [fetch, hf, LRU.Cache.get, hf', Option.map_some, proj_cons, proj_remove, and_self]

/-- the whole `fetch`, hit or miss: `LRUCache.get`, and on a miss `LRUCache.set` of a clean page -/
theorem proj_fetch (s : St α) (k : Nat) :
    (fetch s k).map (fun r => proj r.1.items) =
      (match LRU.Cache.get ⟨s.cap, proj s.items⟩ k with
       | (c', some _) => some c'.items
       | (_, none) =>
         let r := LRU.Cache.set ⟨s.cap, proj s.items⟩ k k false
         if r.2 then some r.1.items else none) := by
  cases hf : find? s.items k with
  | some e =>
    have hf' : LRU.find? (proj s.items) k = some (projE e) := by rw [proj_find?, hf]; rfl
    simp only [fetch, hf, LRU.Cache.get, hf', Option.map_some, proj_cons, proj_remove]
  | none =>
    have hf' : LRU.find? (proj s.items) k = none := by rw [proj_find?, hf]; rfl
    have := proj_insertNew s ⟨k, s.disk k, false⟩ hf
    simp only [LRU.Cache.get, hf']
    rw [← this]
    simp only [fetch, hf]
    cases insertNew s ⟨k, s.disk k, false⟩ <;> rfl

/-- the in-place change of `write` is `markDirty` (`Cache.flip k true`): no recency change -/
theorem proj_write_mark (c : Nat) (l : List (Ent α)) (k : Nat) (f : α → α) :
    proj (l.map fun e => if e.key == k then { e with val := f e.val, dirty := true } else e) =
      (LRU.Cache.flip ⟨c, proj l⟩ k true).items := by
  simp only [LRU.Cache.flip, proj, List.map_map]
  apply List.map_congr_left
  intro e _
  simp only [Function.comp]
  split <;> rfl

/-! ### (6) non-vacuity -/

namespace Example

/-- capacity 2, page 1 resident and clean, the file holds `10 * k` in page `k` -/
def s0 : St Nat := { cap := 2, items := [⟨1, 10, false⟩], disk := fun k => 10 * k }

theorem s0_inv : Inv s0 := by
  refine ⟨by decide, by decide, ?_⟩
  intro e he
  simp only [s0, List.mem_singleton] at he
  subst he
  intro _; rfl

/-- seven operations over pages 1, 2, 3, 4 -/
def w : List (Op Nat) :=
  [.fetch 1, .fetch 2, .fetch 3, .write 1 (· + 1), .flush, .fetch 2, .fetch 1, .fetch 4]

def obs (r : Option (St Nat × List (Option Nat))) : Option (List Nat × List (Option Nat)) :=
  r.map fun (s, o) => (s.items.map (·.key), o)

/-- the run succeeds; resident keys and outputs -/
example : obs (run s0 w) =
    some ([4, 1], [some 10, some 20, some 30, none, none, some 20, some 11, some 40]) := by decide

/-- evictions on the way: fetch 3 evicts page 1, the write to 1 evicts page 2, … -/
example : obs (run s0 (w.take 2)) = some ([2, 1], [some 10, some 20]) := by decide
example : obs (run s0 (w.take 3)) = some ([3, 2], [some 10, some 20, some 30]) := by decide
example : obs (run s0 (w.take 4)) = some ([1, 3], [some 10, some 20, some 30, none]) := by decide
example : obs (run s0 (w.take 6)) =
    some ([2, 1], [some 10, some 20, some 30, none, none, some 20]) := by decide

/-- the reference gives the same outputs (as `run_sim` says it must) -/
example : (refRun (view s0) w).2 =
    [some 10, some 20, some 30, none, none, some 20, some 11, some 40] := by decide

/-- the same workload through a cache of capacity 5: no eviction, same outputs -/
example : obs (run { s0 with cap := 5 } w) =
    some ([4, 1, 2, 3], [some 10, some 20, some 30, none, none, some 20, some 11, some 40]) := by
  decide

/-- two dirty pages fill the cache: the third page is refused -/
example : (run s0 [.write 1 (· + 1), .write 2 (· + 1), .fetch 3]).isNone = true := by decide

/-- … and with a flush in between it is not -/
example : obs (run s0 [.write 1 (· + 1), .write 2 (· + 1), .flush, .fetch 3]) =
    some ([3, 2], [none, none, none, some 30]) := by decide

end Example

end Mkdb.PageCache
