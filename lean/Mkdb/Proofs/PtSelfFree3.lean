import Mkdb.Proofs.PtSelfFree2
import Mkdb.Proofs.BaseCase2
/-!
The page table's row about itself, part 3 (W10): **any number of CREATE TABLEs from CREATE DATABASE.**

To have a witness in the region the old `PtSelf` excluded - a database whose page table has split - the
model is run: `CREATE DATABASE`, then `CREATE TABLE n (a INT)` for a list of names.  The run is followed
by theorems, not by computing stores: `Grown` is `Ckpt` + `NoStale` plus the counts that give the room
for the next CREATE TABLE (`tree_fuel`: fuel from cell counts).

* `runCreates`: the model run on a list of names.
* `createsOK`: the decidable side conditions (names fresh, not catalog tables, catalog rows fit).
* `Grown`, `grown_newDB`, `Grown.create`, **`create_many`**: up to forty CREATE TABLEs from a `Grown`
  database succeed and leave a `Grown` database - reached by a history `HistCT` - for the plain database
  with the new empty tables.
-/
set_option autoImplicit false
namespace Mkdb.Store
open Mkdb.Page Mkdb.Tuple Mkdb.Generated Mkdb.Tree Mkdb.Engine

/-- `CREATE TABLE n (a INT)` for each name, one after the other (`none` if one is refused) -/
def runCreates (db : Engine.DB) : List Bytes → Option Engine.DB
  | [] => some db
  | n :: rest =>
    match evalStmt db [] (.createTable n acols) with
    | .ok _ db1 => runCreates db1 rest
    | _ => none

/-- the plain tables `n (a INT)`, empty -/
def sdbOf (names : List Bytes) : Spec.SDB := names.map fun n => ⟨n, acols.map Spec.colField, []⟩

/-- the decidable side conditions of the CREATE TABLEs: each name is fresh, is not a catalog table, and
its catalog rows fit -/
def createsOK : Spec.SDB → List Bytes → Bool
  | _, [] => true
  | sdb, n :: rest =>
    (Spec.findTable sdb n).isNone && n != sysPages && n != sysSchema &&
      (checkCatalogRows (acols.map Engine.colTypeToField) n).isNone &&
      createsOK (sdb ++ [⟨n, acols.map Spec.colField, []⟩]) rest

/-- a checkpointed database after `k` CREATE TABLEs of one-column tables from `newDB`, with the counts
that give room for more: the page table has `2 + k` rows, `sys_schema` `6 + k`; the self-row of the page
table still reads `(sys_pages, 4096)`; every user table is a single leaf -/
structure Grown (sch : Levels) (db : Engine.DB) (sdb : Spec.SDB) (pt : Levels) (tbls : List (Bytes × Levels))
    (k : Nat) : Prop where
  ck : Ckpt sch db sdb pt tbls
  ns : NoStale sch tbls
  ptc : (cells pt).length = 2 + k
  schc : (cells sch).length = 6 + k
  nf : db.store.hdr.nextFree ≤ 12288 + 1048576 * k
  self : (sysPages, 4096) ∈ ptEntries pt
  leaf : ∀ e ∈ tbls, e.2.inner = [] ∧ e.2.leaves.length = 1

theorem grown_newDB : Grown schNew newDB [] ptNew [] 0 where
  ck := ckpt_newDB
  ns := noStale_new
  ptc := by decide
  schc := by decide
  nf := by decide
  self := by rw [ptNew_entries]; exact List.mem_cons_self
  leaf := fun e he => by cases he

theorem acols_fields : checkFieldsFrom [] (acols.map Engine.colTypeToField) = none := by decide

/-- **One more CREATE TABLE.** -/
theorem Grown.create {sch : Levels} {db : Engine.DB} {sdb : Spec.SDB} {pt : Levels} {tbls : List (Bytes × Levels)}
    {k : Nat} (h : Grown sch db sdb pt tbls k) (hk : k ≤ 40) (name : Bytes)
    (hfind : Spec.findTable sdb name = none) (hn1 : name ≠ sysPages) (hn2 : name ≠ sysSchema)
    (hchk : checkCatalogRows (acols.map Engine.colTypeToField) name = none) :
    CreateRoom db sch acols ∧
    ∃ db' pt' sch' tbls', evalStmt db [] (.createTable name acols) = .ok () db' ∧
      Grown sch' db' (sdb ++ [⟨name, acols.map Spec.colField, []⟩]) pt' tbls' (k + 1) := by
  obtain ⟨_, habs, _⟩ := h.ck.abs
  have h64 := treeFuel_eq
  have hsf : scanFuel = 100000 := rfl
  have hroom : CreateRoom db sch acols := by
    intro pt2 tbls2 hc2
    have e : pt2 = pt := hc2.pt_unique habs.cat
    subst e
    obtain ⟨_, hIpt, _, _, _⟩ := hc2.tree pt2 Cat.pt_mem
    obtain ⟨_, hIsch, _, _, _⟩ := hc2.tree sch Cat.sch_mem
    obtain ⟨a1, a2⟩ := tree_fuel hIpt (Nat.le_of_eq h.ptc)
    obtain ⟨b1, b2⟩ := tree_fuel hIsch (Nat.le_of_eq h.schc)
    have hnf := h.nf
    have hl : acols.length = 1 := rfl
    refine ⟨by omega, by omega, by omega, by omega, by omega⟩
  refine ⟨hroom, ?_⟩
  obtain ⟨r1, r2, r3, r4, r5⟩ := hroom pt tbls habs.cat
  obtain ⟨db', pt', sch', tbls', e, _, hk', hns', hsub, c1, c2, hs, hnf'⟩ :=
    h.ck.createTable_ok h.ns name acols [] hfind hn1 hn2 acols_fields hchk r1 r2 r3 r4 r5
  refine ⟨db', pt', sch', tbls', e, hk', hns', by rw [c1, h.ptc]; omega, by rw [c2, h.schc]; rfl, ?_, hs _ h.self, ?_⟩
  · have hnf0 := h.nf
    have hl : acols.length = 1 := rfl
    rw [hl] at hnf'
    have h1 : db'.store.hdr.nextFree ≤ db.store.hdr.nextFree + 1048576 := by omega
    have h2 : 12288 + 1048576 * (k + 1) = 12288 + 1048576 * k + 1048576 := by rw [Nat.mul_succ, Nat.add_assoc]
    rw [h2]
    exact Nat.le_trans h1 (Nat.add_le_add_right hnf0 _)
  · intro e he
    obtain ⟨e0, he0, rfl⟩ := List.mem_map.mp (hsub e he)
    simp only [clean_inner, clean_leaves, List.length_map, List.map_eq_nil_iff]
    rcases List.mem_append.mp he0 with h1 | h1
    · exact h.leaf e0 h1
    · simp only [List.mem_singleton] at h1
      subst h1
      exact ⟨rfl, rfl⟩

/-- **Up to forty CREATE TABLEs**, starting anywhere in a history from `CREATE DATABASE`: all succeed; the
database they leave is reached by a history of the kind `histCT_ckpt` speaks of and is `Grown`. -/
theorem create_many : ∀ (names : List Bytes) {sch : Levels} {db : Engine.DB} {sdb : Spec.SDB} {pt : Levels}
    {tbls : List (Bytes × Levels)} {k : Nat}, HistCT schNew newDB [] sch db sdb → Grown sch db sdb pt tbls k →
    k + names.length ≤ 40 → createsOK sdb names = true →
    ∃ db' sch' pt' tbls', runCreates db names = some db' ∧
      HistCT schNew newDB [] sch' db' (sdb ++ sdbOf names) ∧
      Grown sch' db' (sdb ++ sdbOf names) pt' tbls' (k + names.length)
  | [], sch, db, sdb, pt, tbls, k, hist, h, _, _ => by
    refine ⟨db, sch, pt, tbls, rfl, ?_, ?_⟩
    · simp only [sdbOf, List.map_nil, List.append_nil]; exact hist
    · simp only [sdbOf, List.map_nil, List.append_nil, List.length_nil, Nat.add_zero]; exact h
  | n :: rest, sch, db, sdb, pt, tbls, k, hist, h, hk, hok => by
    simp only [createsOK, Bool.and_eq_true, Option.isNone_iff_eq_none, bne_iff_ne, ne_eq] at hok
    obtain ⟨⟨⟨⟨hfind, hn1⟩, hn2⟩, hchk⟩, hrest⟩ := hok
    simp only [List.length_cons] at hk
    obtain ⟨hroom, db1, pt1, sch1, tbls1, e1, h1⟩ := h.create (by omega) n hfind hn1 hn2 hchk
    obtain ⟨_, habs1, _⟩ := h1.ck.abs
    have hist1 : HistCT schNew newDB [] sch1 db1 (sdb ++ [⟨n, acols.map Spec.colField, []⟩]) :=
      .create hist n acols [] hfind hn1 hn2 acols_fields hchk hroom e1 habs1.cat
    obtain ⟨db', sch', pt', tbls', e2, hist2, h2⟩ := create_many rest hist1 h1 (by omega) hrest
    have hs : sdb ++ sdbOf (n :: rest) = sdb ++ [⟨n, acols.map Spec.colField, []⟩] ++ sdbOf rest := by
      simp only [sdbOf, List.map_cons, List.append_assoc, List.singleton_append]
    refine ⟨db', sch', pt', tbls', ?_, by rw [hs]; exact hist2, ?_⟩
    · simp only [runCreates, e1]
      exact e2
    · rw [hs]
      have : k + (n :: rest).length = k + 1 + rest.length := by simp only [List.length_cons]; omega
      rw [this]
      exact h2

end Mkdb.Store
