import Mkdb.Proofs.ReplayMixed
/-!
Crash after a checkpoint, part 1: **the log is never truncated.**

`crash_recovery_spec` assumes that the log is empty when the statements start.  The real system only
ever appends to its log: after a checkpoint (a flush of all dirty pages and the header) the log still
holds every earlier record, and start-up recovery replays the whole log on the data file.  Here:

* `foldl_max_le`: the LSN counter after a replay of records that are not ahead of it is unchanged.
* `replay_clean_hdr`: `replay_clean` for a log whose LSNs the counter has already passed (and whose
  INSERT keys the row-id counter has): the header is exactly the header before.
* `crash_recovery_ckpt_gen`: the log `old ++ new` - `old` fully applied (`Applied`) on the store `r0`
  the replay starts from, `new` written by a `SpecRun` from `db0` - is replayed on `r0`, any store with
  the catalog description of `db0.store`: first `old` changes nothing visible, then `new` is redone.
* **`crash_recovery_ckpt`**: the case `r0 = db0.store`; `crash_recovery_spec` is the case `old = []`.
-/
set_option autoImplicit false
namespace Mkdb.Store
open Mkdb.Page Mkdb.Tuple Mkdb.Generated Mkdb.Tree Mkdb.Engine

theorem foldl_max_ge (log : List WalRec) (m : Nat) : m ≤ log.foldl (fun m r => max m r.lsn) m := by
  induction log generalizing m with
  | nil => exact Nat.le_refl _
  | cons r rest ih => exact Nat.le_trans (Nat.le_max_left _ _) (ih _)

/-- the largest LSN of a log none of whose records is ahead of `m` is `m` -/
theorem foldl_max_le (log : List WalRec) (m : Nat) (h : ∀ r ∈ log, r.lsn ≤ m) :
    log.foldl (fun m r => max m r.lsn) m = m := by
  induction log generalizing m with
  | nil => rfl
  | cons r rest ih =>
    rw [List.foldl_cons, Nat.max_eq_left (h r List.mem_cons_self)]
    exact ih m (fun r' hr' => h r' (List.mem_cons_of_mem _ hr'))

/-- the LSN counter after the replay of a log is at least every LSN in it -/
theorem foldl_max_mem (log : List WalRec) (m : Nat) : ∀ r ∈ log, r.lsn ≤ log.foldl (fun m r => max m r.lsn) m := by
  induction log generalizing m with
  | nil => intro r hr; cases hr
  | cons a rest ih =>
    intro r hr
    rw [List.foldl_cons]
    rcases List.mem_cons.mp hr with rfl | hr
    · exact Nat.le_trans (Nat.le_max_right _ _) (foldl_max_ge rest _)
    · exact ih _ r hr

/-- **Replay of an applied log both counters have passed** (the LSN counter every LSN, the row-id
counter every INSERT key): no visible change, and the header is the header before - the store
differs from the one before at most in what the cache holds. -/
theorem replay_clean_hdr (log : List WalRec) (s : Store) (pt sch : Levels) (tbls : List (Bytes × Levels))
    (h : Cat s pt sch tbls) (hall : ∀ r ∈ log, Applied tbls s r) (hlsn : ∀ r ∈ log, r.lsn ≤ s.hdr.nextLSN)
    (hkeys : ∀ r ∈ log, r.op = c_OpInsert → r.cell ≤ s.hdr.lastKey) :
    ∃ s', replayAll log s = (s', none, false) ∧ view s' = view s ∧ Cat s' pt sch tbls ∧ s'.hdr = s.hdr := by
  obtain ⟨s', e, v, c, hh⟩ := replay_clean log s pt sch tbls h hall hkeys
  refine ⟨s', e, v, c, ?_⟩
  rw [hh, foldl_max_le log _ hlsn]

/-- **Crash after a checkpoint, nothing flushed since** (general form).  The database `db0` has the
log `db0.wal` (the records of everything that happened before the checkpoint); the statements `stmts`
are run by the engine from `db0` and end in `dbN`, whose log is `db0.wal` followed by their records.
The whole log `dbN.wal` is replayed on a store `r0` that satisfies the catalog description of
`db0.store` (`r0 = db0.store`, or the re-opened data file), on which every old record is already
applied and whose counters no old record is ahead of (the LSN counter of no LSN, the row-id counter
of no INSERT key).  The replay succeeds and the resulting store
abstracts to the plain-model state of all acknowledged statements, as the live final store does. -/
theorem crash_recovery_ckpt_gen (sch : Levels) {db0 dbN : Engine.DB} {sdb0 sdbN : Spec.SDB} {stmts : List EStmt}
    (run : SpecRun sch db0 sdb0 stmts dbN sdbN)
    (pt : Levels) (tbls : List (Bytes × Levels)) (hA : AbsV db0.store pt sch tbls sdb0)
    (hself : PtSelf pt) (hf : FreshM db0.store tbls)
    (r0 : Store) (hr0 : Cat r0 pt sch tbls)
    (hnf : r0.hdr.nextFree = db0.store.hdr.nextFree) (hlk : r0.hdr.lastKey = db0.store.hdr.lastKey)
    (hl : r0.hdr.nextLSN ≤ db0.store.hdr.nextLSN)
    (hold : ∀ r ∈ db0.wal, Applied tbls r0 r) (hlsn : ∀ r ∈ db0.wal, r.lsn ≤ r0.hdr.nextLSN)
    (hkeys : ∀ r ∈ db0.wal, r.op = c_OpInsert → r.cell ≤ r0.hdr.lastKey) :
    ∃ ptN tblsN rN, replayAll dbN.wal r0 = (rN, none, false) ∧
      AbsV dbN.store ptN sch tblsN sdbN ∧ AbsV rN ptN sch tblsN sdbN ∧
      (∀ x ∈ catTrees ptN sch tblsN, ∀ o ∈ offs x, view rN o = view dbN.store o) ∧
      rN.hdr.nextFree = dbN.store.hdr.nextFree ∧ rN.hdr.lastKey = dbN.store.hdr.lastKey ∧
      rN.hdr.ptRoot = dbN.store.hdr.ptRoot ∧ rN.hdr.nextLSN ≤ dbN.store.hdr.nextLSN := by
  obtain ⟨_, tblsN, stmtsM, logs, hrun, hw, ⟨sdbF, habsF, hvF⟩⟩ := spec_run_live sch run pt tbls hA
  obtain ⟨_, habs0, _⟩ := hA
  obtain ⟨r1, e1, _, hc1, hh1⟩ := replay_clean_hdr db0.wal r0 pt sch tbls hr0 hold hlsn hkeys
  obtain ⟨ptN, rN, e, c1, c2, _, _, a1, a2, a4⟩ := replay_history_mixed_gen sch hrun pt r1 habs0.cat hc1 hself hf
    (by rw [hh1]; exact hnf) (by rw [hh1]; exact hlk) (by rw [hh1]; exact hl)
  refine ⟨ptN, tblsN, rN, ?_, ⟨sdbF, ⟨c1, habsF.tabs⟩, hvF⟩, ⟨sdbF, ⟨c2, habsF.tabs⟩, hvF⟩,
    c1.same_pages c2, a1, a2, by rw [← c1.root, ← c2.root], a4⟩
  rw [hw, replayAll_append e1]
  exact e

/-- **After a crash in which nothing was flushed since the checkpoint, recovery restores the
plain-model state of all acknowledged statements - with a log that was never truncated.**  As
`crash_recovery_spec`, but the log of `db0` need not be empty: it may hold any records that are
already applied on `db0.store` (`Applied`: the page of the record carries an LSN at least the
record's, or the record is the INSERT of a key its table holds) and that the counters have passed:
no LSN is beyond the LSN counter, no INSERT key beyond the row-id counter (`hkeys`; recovery raises the
row-id counter to the key of every INSERT record, skipped or not, so an old record with a key beyond
the counter would leave the replayed counter ahead of the live one).
The whole log of `dbN` - the old records, then the records of the statements - is replayed on the
store the statements started from. -/
theorem crash_recovery_ckpt (sch : Levels) {db0 dbN : Engine.DB} {sdb0 sdbN : Spec.SDB} {stmts : List EStmt}
    (run : SpecRun sch db0 sdb0 stmts dbN sdbN)
    (pt : Levels) (tbls : List (Bytes × Levels)) (hA : AbsV db0.store pt sch tbls sdb0)
    (hself : PtSelf pt) (hf : FreshM db0.store tbls)
    (hold : ∀ r ∈ db0.wal, Applied tbls db0.store r)
    (hlsn : ∀ r ∈ db0.wal, r.lsn ≤ db0.store.hdr.nextLSN)
    (hkeys : ∀ r ∈ db0.wal, r.op = c_OpInsert → r.cell ≤ db0.store.hdr.lastKey) :
    ∃ ptN tblsN rN, replayAll dbN.wal db0.store = (rN, none, false) ∧
      AbsV dbN.store ptN sch tblsN sdbN ∧ AbsV rN ptN sch tblsN sdbN ∧
      (∀ x ∈ catTrees ptN sch tblsN, ∀ o ∈ offs x, view rN o = view dbN.store o) ∧
      rN.hdr.nextFree = dbN.store.hdr.nextFree ∧ rN.hdr.lastKey = dbN.store.hdr.lastKey ∧
      rN.hdr.ptRoot = dbN.store.hdr.ptRoot ∧ rN.hdr.nextLSN ≤ dbN.store.hdr.nextLSN := by
  obtain ⟨sdbA, habs0, hv0⟩ := hA
  exact crash_recovery_ckpt_gen sch run pt tbls ⟨sdbA, habs0, hv0⟩ hself hf db0.store habs0.cat rfl rfl
    (Nat.le_refl _) hold hlsn hkeys

/-- `crash_recovery_spec` is the case of an empty old log -/
theorem crash_recovery_spec' (sch : Levels) {db0 dbN : Engine.DB} {sdb0 sdbN : Spec.SDB} {stmts : List EStmt}
    (run : SpecRun sch db0 sdb0 stmts dbN sdbN) (hwal : db0.wal = [])
    (pt : Levels) (tbls : List (Bytes × Levels)) (hA : AbsV db0.store pt sch tbls sdb0)
    (hself : PtSelf pt) (hf : FreshM db0.store tbls) :
    ∃ ptN tblsN rN, replayAll dbN.wal db0.store = (rN, none, false) ∧
      AbsV dbN.store ptN sch tblsN sdbN ∧ AbsV rN ptN sch tblsN sdbN :=
  let ⟨ptN, tblsN, rN, e, a, b, _⟩ := crash_recovery_ckpt sch run pt tbls hA hself hf
    (by rw [hwal]; intro r hr; cases hr) (by rw [hwal]; intro r hr; cases hr)
    (by rw [hwal]; intro r hr; cases hr)
  ⟨ptN, tblsN, rN, e, a, b⟩

end Mkdb.Store
