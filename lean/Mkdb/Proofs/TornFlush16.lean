import Mkdb.Proofs.TornFlush15
/-!
Torn flush without page allocation, part 16: non-vacuity of `Ckpt.image_round` - a data file whose
pages are of THREE different moments, every database computed by the model.

From `tableDB2` (tables `t`, `u`, checkpointed): `INSERT INTO t VALUES (5)` (boundary `db1`);
`INSERT INTO u VALUES (8)` (`db2`); `UPDATE t SET a = 7 WHERE a = 5` (`db3`).  The data file `mixedImage`
holds the catalog pages of the checkpoint, the leaf of `t` as `db1` showed it (row `(5)`: NOT the page of
the checkpoint, which is empty, and NOT the page of the end, which has `(7)`), and the leaf of `u` as
`db3` showed it; header: the checkpoint's.  No single torn flush leaves this file.  `image_example`: the
hypotheses of `Ckpt.image_round` hold; recovery succeeds.
-/
set_option autoImplicit false
namespace Mkdb.Store
open Mkdb.Page Mkdb.Tuple Mkdb.Generated Mkdb.Tree Mkdb.Engine

def sdbU3 : Spec.SDB := [⟨tname, schemaA, [⟨none, [.int 7]⟩]⟩, ⟨uname, schemaB, [⟨none, [.int 8]⟩]⟩]

theorem specU3 : Spec.specUpdate sdbU2 tname [([97], .lit (.int 7))] (some (condEq 5)) = some sdbU3 := by
  have hsel : Spec.selects ⟨tname, schemaA, [⟨none, [.int 5]⟩]⟩ (some (condEq 5)) = some [true] := by
    simp only [Spec.selects, fieldsA]
    rfl
  have hf : Spec.findTable sdbU2 tname = some ⟨tname, schemaA, [⟨none, [.int 5]⟩]⟩ := rfl
  rw [specUpdate_eq, hf, Option.bind_some, if_neg (by decide), if_neg (by decide), hsel]
  rfl

/-- the allocation frontier at the three boundaries (kernel evaluation of the model) -/
theorem image_example_nf :
    (match Engine.evalInsert tableDB2 tname [] [[.int 5]] with
     | .ok _ d1 =>
       (match Engine.evalInsert d1 uname [] [[.int 8]] with
        | .ok _ d2 =>
          (match Engine.evalUpdate d2 tname [([97], .lit (.int 7))] (some (condEq 5)) with
           | .ok _ d3 => d1.store.hdr.nextFree == 20480 && d2.store.hdr.nextFree == 20480 &&
               d3.store.hdr.nextFree == 20480 && d3.wal.length == 3 &&
               (view d1.store 12288).isSome && (view d3.store 16384).isSome
           | _ => false)
        | _ => false)
     | _ => false) = true := by decide +kernel

/-- the node a database shows at an offset (the zero page if none) -/
def shownAt (db : Engine.DB) (o : Nat) : Node := ((view db.store o).map (·.1)).getD zeroPage

/-- the data file of the example: catalog of the checkpoint, leaf of `t` as of `db1`, leaf of `u` as of `db3` -/
def mixedImage (db1 db3 : Engine.DB) : Store :=
  { hdr := {}, mem := [],
    disk := [(4096, .leaf ptLeafU), (8192, .leaf schLeafU), (12288, shownAt db1 12288), (16384, shownAt db3 16384)],
    dhdr := hdrU, ghost := 0 }

/-- **Non-vacuity of `Ckpt.image_round`**, pages of three moments. -/
theorem image_example : ∃ db1 db2 db3,
    SpecRunsNA schU tableDB2 sdbU0 [db1, db2, db3] db3 sdbU3 ∧ db3.wal.length = 3 ∧
    (∀ x ∈ catTrees ptU schU [(tname, tT), (uname, uT)], ∀ e ∈ flatten x, ∃ dbm ∈ [tableDB2, db1, db2, db3], ∃ n d,
      view dbm.store e.1 = some (n, d) ∧ assocGet (mixedImage db1 db3).disk e.1 = some n) ∧
    ∃ dbR tblsR, Engine.recover { store := mixedImage db1 db3, wal := db3.wal } [] [] = .ok dbR ∧
      dbR.wal = db3.wal ∧ Ckpt schU dbR sdbU3 (clean ptU) (cleanT tblsR) := by
  have hk0 := ckpt_tableDB2
  have hmemT : (tname, tT) ∈ [(tname, tT), (uname, uT)] := List.mem_cons_self
  have hmemU : (uname, uT) ∈ [(tname, tT), (uname, uT)] := List.mem_cons_of_mem _ List.mem_cons_self
  -- statement 1
  obtain ⟨db1, ptF1, t1', logs1, e1, _, _, hA1, _⟩ := evalInsert_refines_specV tableDB2 ptU schU _ sdbU0
    sdbU1 hk0.abs tname tT hmemT schemaA schU_t [] [[.int 5]] valid5 specU1 runU1
  have hh1 := torn_example2_hdr1
  rw [e1] at hh1
  simp only [decide_eq_true_eq] at hh1
  have hmemU' : (uname, uT) ∈ setTable [(tname, tT), (uname, uT)] tname t1' := mem_setTable_of_ne hmemU uname_ne
  -- statement 2
  obtain ⟨db2, ptF2, u2', logs2, e2, _, _, hA2, _⟩ := evalInsert_refines_specV db1 ptF1 schU _ sdbU1 sdbU2 hA1 uname uT
    hmemU' schemaB schU_u [] [[.int 8]] valid8 specU2 (by rw [hh1]; exact runU2)
  -- statement 3
  have hvalid : ∀ p ∈ [(([97] : Bytes), Sql.VExpr.lit (.int 7))], ∀ l, p.2 = .lit l →
      ValidVal (Engine.litToVal l) := by
    intro p hp l hl
    simp only [List.mem_singleton] at hp
    subst hp
    simp only [Sql.VExpr.lit.injEq] at hl
    subst hl
    exact ⟨by decide, by decide⟩
  obtain ⟨db3, t3', logs3, e3, _, _, _⟩ := evalUpdate_refines_specV db2 ptF2 schU _ sdbU2 sdbU3 hA2 tname
    [([97], .lit (.int 7))] (some (condEq 5)) hvalid
    (by
      intro p hp
      simp only [List.mem_singleton] at hp
      subst hp
      rw [nameStr_a]
      exact a_bytes)
    specU3
  have run1 : SpecRun schU tableDB2 sdbU0 [.insert tname [] [[.int 5]]] db1 sdbU1 :=
    .insert tname [] [[.int 5]] valid5 specU1
      (by
        intro pt tbls t schema hA ht hs
        obtain ⟨_, habs, _⟩ := hA
        have ht0 : t = tT := habs.cat.tree_unique cat_tableDB2 ht hmemT
        subst ht0
        rw [schU_t] at hs
        simp only [Option.some.injEq] at hs
        subst hs
        exact runU1)
      e1 (.nil db1 sdbU1)
  have run2 : SpecRun schU db1 sdbU1 [.insert uname [] [[.int 8]]] db2 sdbU2 :=
    .insert uname [] [[.int 8]] valid8 specU2
      (by
        intro pt tbls t schema hA ht hs
        obtain ⟨_, habs, _⟩ := hA
        obtain ⟨_, habs1, _⟩ := hA1
        have ht0 : t = uT := habs.cat.tree_unique habs1.cat ht hmemU'
        subst ht0
        rw [schU_u] at hs
        simp only [Option.some.injEq] at hs
        subst hs
        rw [hh1]
        exact runU2)
      e2 (.nil db2 sdbU2)
  have run3 : SpecRun schU db2 sdbU2 [.update tname [([97], .lit (.int 7))] (some (condEq 5))] db3 sdbU3 :=
    .update tname [([97], .lit (.int 7))] (some (condEq 5)) hvalid specU3 e3 (.nil db3 sdbU3)
  have hcomp := image_example_nf
  rw [e1] at hcomp
  simp only at hcomp
  rw [e2] at hcomp
  simp only at hcomp
  rw [e3] at hcomp
  simp only [Bool.and_eq_true, beq_iff_eq] at hcomp
  obtain ⟨⟨⟨⟨⟨hn1, hn2⟩, hn3⟩, hlen⟩, hs1⟩, hs3⟩ := hcomp
  have runs : SpecRunsNA schU tableDB2 sdbU0 [db1, db2, db3] db3 sdbU3 :=
    .cons run1 hn1 (.cons run2 (by rw [hn2, hn1]) (.cons run3 (by rw [hn3, hn2]) (.nil db3 sdbU3)))
  -- the pages the boundary databases show
  have hshown : ∀ (dbm : Engine.DB) (o : Nat), (view dbm.store o).isSome = true →
      ∃ d, view dbm.store o = some (shownAt dbm o, d) := by
    intro dbm o hs
    obtain ⟨⟨n, d⟩, hv⟩ := Option.isSome_iff_exists.mp hs
    exact ⟨d, by unfold shownAt; rw [hv]; rfl⟩
  obtain ⟨d1, hv1⟩ := hshown db1 12288 hs1
  obtain ⟨d3, hv3⟩ := hshown db3 16384 hs3
  have himg : ∀ x ∈ catTrees ptU schU [(tname, tT), (uname, uT)], ∀ e ∈ flatten x,
      ∃ dbm ∈ [tableDB2, db1, db2, db3], ∃ n d,
        view dbm.store e.1 = some (n, d) ∧ assocGet (mixedImage db1 db3).disk e.1 = some n := by
    intro x hx e he
    simp only [catTrees, List.map_cons, List.map_nil, List.mem_cons, List.not_mem_nil, or_false] at hx
    rcases hx with rfl | rfl | rfl | rfl
    · simp [flatten, ptU] at he; subst he
      exact ⟨tableDB2, by simp, _, _, rfl, rfl⟩
    · simp [flatten, schU] at he; subst he
      exact ⟨tableDB2, by simp, _, _, rfl, rfl⟩
    · simp [flatten, tT] at he; subst he
      exact ⟨db1, by simp, _, _, hv1, rfl⟩
    · simp [flatten, uT] at he; subst he
      exact ⟨db3, by simp, _, _, hv3, rfl⟩
  refine ⟨db1, db2, db3, runs, hlen, himg, ?_⟩
  obtain ⟨dbR, tblsR, e, hw, _, hk, _⟩ := hk0.image_round runs (mixedImage db1 db3) rfl rfl (Nat.le_refl _)
    (Nat.le_refl _) himg [] []
  exact ⟨dbR, tblsR, e, hw, hk⟩

end Mkdb.Store
