import Mkdb.Proofs.TypedTables1
import Mkdb.Proofs.Tuple
import Mkdb.Spec.Tables
/-!
C18, typed tables, part 4: **the plain in-memory database stays typed**.

`Typed sdb`: the tables of the plain database have distinct names, and every row of every table has
exactly one value per declared column, each NULL or of the column's kind (INT / BIGINT: an integer,
VARCHAR: a string, BOOLEAN: a boolean).  The empty database is typed and every statement the plain model
accepts keeps it typed: INSERT because `rowOf` encodes the row with the table's columns
(`Tuple.validate`), UPDATE because its per-row check does the same, DELETE because it only removes rows,
CREATE TABLE because the new table is empty and its name fresh.  The distinct names are part of the
invariant because INSERT / UPDATE / DELETE of the plain model rewrite EVERY table of the given name with
rows checked against the FIRST one (`typedRows_alone_is_not_invariant`).
-/
set_option autoImplicit false
namespace Mkdb.Spec
open Mkdb.Tuple Mkdb.Sql Mkdb.Exec.TypedP

/-- the kind of value a column type stores -/
def kindOf : DataType → Kind
  | .int => .int
  | .bigint => .int
  | .varchar => .str
  | .boolean => .bool

/-- the kinds of the declared columns, in order -/
def colKinds (cols : List FieldDef) : List Kind := cols.map fun fd => kindOf fd.ty

/-- every row of every table has one value per declared column, each NULL or of the column's kind -/
def TypedRows (sdb : SDB) : Prop := ∀ t ∈ sdb, ∀ r ∈ t.rows, rowHas (colKinds t.cols) r.vals = true

/-- **A typed plain database**: distinct table names, and typed rows. -/
structure Typed (sdb : SDB) : Prop where
  names : (sdb.map (·.name)).Nodup
  rows : TypedRows sdb

/-- **the empty database is typed** -/
theorem typed_empty : Typed [] := ⟨List.nodup_nil, fun _ ht => absurd ht List.not_mem_nil⟩

/-! ### rows that `Tuple.Encode` accepts -/

theorem validate_kind {fd : FieldDef} {v : Val} (h : validate fd v = .ok ()) : hasKind (kindOf fd.ty) v = true := by
  unfold validate at h
  split at h
  all_goals first
    | (rename_i hty; rw [hty]; rfl)
    | cases h

theorem encodeTuple_kinds : ∀ (cols : List FieldDef) (m : Vals) (bs : Bytes), encodeTuple cols m = .ok bs →
    ∀ fd ∈ cols, hasKind (kindOf fd.ty) (get m fd.name) = true
  | [], _, _, _, _, hfd => absurd hfd List.not_mem_nil
  | fd0 :: rest, m, bs, h, fd, hfd => by
    unfold encodeTuple at h
    cases hb : encField fd0 (get m fd0.name) with
    | error e => rw [hb] at h; cases h
    | ok b =>
      rw [hb] at h
      cases ht : encodeTuple rest m with
      | error e => rw [ht] at h; cases h
      | ok bt =>
        rcases List.mem_cons.mp hfd with rfl | hmem
        · rcases (encField_ok_iff fd (get m fd.name)).mp ⟨b, hb⟩ with hn | hv
          · rw [hn]; exact hasKind_null _
          · exact validate_kind hv
        · exact encodeTuple_kinds rest m bt ht fd hmem

theorem rowHas_map_cols (f : FieldDef → Val) : ∀ (cols : List FieldDef),
    (∀ fd ∈ cols, hasKind (kindOf fd.ty) (f fd) = true) → rowHas (colKinds cols) (cols.map f) = true
  | [], _ => rfl
  | fd :: rest, h => by
    simp only [colKinds, List.map_cons]
    exact rowHas_cons.mpr ⟨h fd (by simp), rowHas_map_cols f rest (fun x hx => h x (List.mem_cons_of_mem _ hx))⟩

/-- the row check shared by `rowOf` (INSERT) and the per-row check of UPDATE: what it lets through is
kinded by the table's columns -/
theorem checked_row_kinded (cols : List FieldDef) (m : Vals) (row : List Val)
    (h : (match encodeTuple cols m with
      | .error _ => none
      | .ok bs => if bs.length > Generated.c_maxValueSize then none else some (cols.map fun fd => get m fd.name)) =
        some row) : rowHas (colKinds cols) row = true := by
  split at h
  · cases h
  · rename_i bs hbs
    split at h
    · cases h
    · simp only [Option.some.injEq] at h
      subst h
      exact rowHas_map_cols _ cols (encodeTuple_kinds cols m bs hbs)

/-- **a row INSERT accepts is typed** -/
theorem rowOf_kinded {t : STable} {cols : List Bytes} {vals row : List Val} (h : rowOf t cols vals = some row) :
    rowHas (colKinds t.cols) row = true := by
  unfold rowOf at h
  generalize (if cols.isEmpty then t.cols.map (·.name) else cols.map nameStr) = cs at h
  dsimp only at h
  split at h
  · cases h
  · exact checked_row_kinded t.cols _ row h

/-! ### replacing the rows of one table -/

theorem findTable_mem {sdb : SDB} {n : Bytes} {t : STable} (h : findTable sdb n = some t) : t ∈ sdb ∧ t.name = n := by
  unfold findTable at h
  exact ⟨List.mem_of_find?_eq_some h, by simpa using List.find?_some h⟩

theorem findTable_unique : ∀ {sdb : SDB} {n : Bytes} {t : STable}, (sdb.map (·.name)).Nodup → findTable sdb n = some t →
    ∀ x ∈ sdb, x.name = n → x = t
  | [], _, _, _, h, _, _, _ => by cases h
  | y :: rest, n, t, hnd, h, x, hx, hxn => by
    simp only [List.map_cons, List.nodup_cons] at hnd
    unfold findTable at h
    simp only [List.find?_cons] at h
    by_cases hy : (y.name == n) = true
    · simp only [hy, Option.some.injEq] at h
      subst h
      rcases List.mem_cons.mp hx with rfl | hx'
      · rfl
      · exfalso
        apply hnd.1
        have : y.name = x.name := by rw [hxn]; simpa using hy
        rw [this]
        exact List.mem_map_of_mem hx'
    · simp only [hy] at h
      rcases List.mem_cons.mp hx with rfl | hx'
      · exfalso; apply hy; simpa using hxn
      · exact findTable_unique hnd.2 h x hx' hxn

/-- the rows of the table `table` replaced (by a function of the table, as INSERT does, or by a fixed
list, as UPDATE and DELETE do) with rows typed for its columns -/
theorem Typed.setRows {sdb : SDB} (h : Typed sdb) {table : Bytes} {t : STable} (hf : findTable sdb table = some t)
    (F : STable → List SRow) (hr : ∀ r ∈ F t, rowHas (colKinds t.cols) r.vals = true) :
    Typed (sdb.map fun x => if x.name == table then { x with rows := F x } else x) := by
  constructor
  · rw [List.map_map]
    have : ((fun x : STable => x.name) ∘ fun x : STable => if x.name == table then { x with rows := F x } else x) =
        fun x : STable => x.name := by
      funext x
      simp only [Function.comp]
      split <;> rfl
    rw [this]
    exact h.names
  · intro y hy r hry
    obtain ⟨x, hx, rfl⟩ := List.mem_map.mp hy
    by_cases hn : (x.name == table) = true
    · have hxt : x = t := findTable_unique h.names hf x hx (by simpa using hn)
      subst hxt
      simp only [hn, if_true] at hry ⊢
      exact hr r hry
    · simp only [hn] at hry ⊢
      exact h.rows x hx r hry

theorem mapM_out_mem {α β} (f : α → Option β) : ∀ (l : List α) (out : List β), l.mapM f = some out →
    ∀ b ∈ out, ∃ a ∈ l, f a = some b
  | [], out, h, b, hb => by
    simp only [List.mapM_nil, Option.pure_def, Option.some.injEq] at h
    subst h
    cases hb
  | a :: rest, out, h, b, hb => by
    rw [List.mapM_cons] at h
    cases hfa : f a with
    | none => simp [hfa] at h
    | some b0 =>
      cases hl : rest.mapM f with
      | none => simp [hfa, hl] at h
      | some bs =>
        simp only [hfa, hl, Option.pure_def, Option.bind_eq_bind, Option.bind_some, Option.some.injEq] at h
        subst h
        rcases List.mem_cons.mp hb with rfl | hb'
        · exact ⟨a, by simp, hfa⟩
        · obtain ⟨a', ha', e⟩ := mapM_out_mem f rest bs hl b hb'
          exact ⟨a', List.mem_cons_of_mem _ ha', e⟩

/-! ### the statements -/

/-- **INSERT keeps the database typed** -/
theorem Typed.specInsert {sdb sdb' : SDB} (h : Typed sdb) {table : Bytes} {cols : List Bytes}
    {rows : List (List Val)} (hs : Spec.specInsert sdb table cols rows = some sdb') : Typed sdb' := by
  unfold Spec.specInsert at hs
  cases hf : findTable sdb table with
  | none => rw [hf] at hs; cases hs
  | some t =>
    rw [hf] at hs
    simp only [Option.bind_eq_bind, Option.bind_some] at hs
    split at hs
    · cases hs
    cases hm : rows.mapM (rowOf t cols) with
    | none => rw [hm] at hs; cases hs
    | some newRows =>
      rw [hm] at hs
      simp only [Option.bind_some, Option.pure_def, Option.some.injEq] at hs
      subst hs
      refine h.setRows hf (fun x => x.rows ++ newRows.map fun v => (⟨none, v⟩ : SRow)) ?_
      intro r hr
      rcases List.mem_append.mp hr with hr | hr
      · exact h.rows t (findTable_mem hf).1 r hr
      · obtain ⟨v, hv, rfl⟩ := List.mem_map.mp hr
        obtain ⟨vals, _, e⟩ := mapM_out_mem _ rows newRows hm v hv
        exact rowOf_kinded e

/-- **DELETE keeps the database typed** -/
theorem Typed.specDelete {sdb sdb' : SDB} (h : Typed sdb) {table : Bytes} {w : Option Cond}
    (hs : Spec.specDelete sdb table w = some sdb') : Typed sdb' := by
  unfold Spec.specDelete at hs
  cases hf : findTable sdb table with
  | none => rw [hf] at hs; cases hs
  | some t =>
    rw [hf] at hs
    simp only [Option.bind_eq_bind, Option.bind_some] at hs
    cases hsel : selects t w with
    | none => rw [hsel] at hs; cases hs
    | some sel =>
      rw [hsel] at hs
      simp only [Option.bind_some, Option.pure_def, Option.some.injEq] at hs
      subst hs
      apply h.setRows hf (fun _ => (t.rows.zip sel).filterMap fun (r, s) => if s then none else some r)
      intro r hr
      obtain ⟨⟨r0, s⟩, hmem, e⟩ := List.mem_filterMap.mp hr
      dsimp only at e
      split at e
      · cases e
      · simp only [Option.some.injEq] at e
        subst e
        exact h.rows t (findTable_mem hf).1 r0 (List.of_mem_zip hmem).1

/-- **UPDATE keeps the database typed**: a selected row is rewritten only if the new row passes the
check INSERT makes -/
theorem Typed.specUpdate {sdb sdb' : SDB} (h : Typed sdb) {table : Bytes} {sets : List (Bytes × VExpr)}
    {w : Option Cond} (hs : Spec.specUpdate sdb table sets w = some sdb') : Typed sdb' := by
  unfold Spec.specUpdate at hs
  cases hf : findTable sdb table with
  | none => rw [hf] at hs; cases hs
  | some t =>
    rw [hf] at hs
    simp only [Option.bind_eq_bind, Option.bind_some] at hs
    split at hs
    · cases hs
    split at hs
    · cases hs
    cases hsel : selects t w with
    | none => rw [hsel] at hs; cases hs
    | some sel =>
      rw [hsel] at hs
      simp only [Option.bind_some] at hs
      obtain ⟨rows', hrows', hs⟩ := Option.bind_eq_some_iff.mp hs
      simp only [Option.pure_def, Option.some.injEq] at hs
      subst hs
      refine h.setRows hf (fun _ => rows') ?_
      intro r hr
      obtain ⟨⟨r0, s⟩, hmem, e⟩ := mapM_out_mem _ _ rows' hrows' r hr
      dsimp only at e
      split at e
      · obtain ⟨v, ha, e⟩ := Option.map_eq_some_iff.mp e
        subst e
        exact checked_row_kinded t.cols _ v ha
      · simp only [Option.some.injEq] at e
        subst e
        exact h.rows t (findTable_mem hf).1 r0 (List.of_mem_zip hmem).1

theorem findTable_none_notin {sdb : SDB} {n : Bytes} (h : findTable sdb n = none) : n ∉ sdb.map (·.name) := by
  intro hm
  obtain ⟨x, hx, rfl⟩ := List.mem_map.mp hm
  unfold findTable at h
  have := List.find?_eq_none.mp h x hx
  simp at this

/-- **CREATE TABLE keeps the database typed**: the name is fresh, the new table empty -/
theorem Typed.specCreate {sdb sdb' : SDB} (h : Typed sdb) {name : Bytes} {cols : List ColDef}
    (hs : Spec.specCreate sdb name cols = some sdb') : Typed sdb' := by
  unfold Spec.specCreate at hs
  split at hs
  · cases hs
  rename_i h1
  split at hs
  · cases hs
  split at hs
  · cases hs
  simp only [Option.some.injEq] at hs
  subst hs
  have hnone : findTable sdb name = none := by
    cases hf : findTable sdb name with
    | none => rfl
    | some x => simp [hf] at h1
  constructor
  · rw [List.map_append, List.nodup_append]
    refine ⟨h.names, by simp, ?_⟩
    intro a ha b hb
    simp only [List.map_cons, List.map_nil, List.mem_singleton] at hb
    subst hb
    intro e
    exact findTable_none_notin hnone (e ▸ ha)
  · intro t ht r hr
    rcases List.mem_append.mp ht with ht | ht
    · exact h.rows t ht r hr
    · simp only [List.mem_singleton] at ht
      subst ht
      cases hr

/-- **Every statement the plain model accepts keeps the database typed.** -/
theorem Typed.specStmt {sdb sdb' : SDB} (h : Typed sdb) {st : Stmt} (hs : Spec.specStmt sdb st = some sdb') :
    Typed sdb' := by
  cases st with
  | createTable n cols => exact h.specCreate hs
  | insert t cols rows => exact h.specInsert hs
  | update t sets w => exact h.specUpdate hs
  | delete t w => exact h.specDelete hs
  | createDatabase n => simp only [Spec.specStmt, Option.some.injEq] at hs; exact hs ▸ h
  | select s => simp only [Spec.specStmt, Option.some.injEq] at hs; exact hs ▸ h
  | use d => simp only [Spec.specStmt, Option.some.injEq] at hs; exact hs ▸ h
  | showDatabases => simp only [Spec.specStmt, Option.some.injEq] at hs; exact hs ▸ h

/-- the distinct names are needed: with two tables of one name (which CREATE TABLE never produces) the
INSERT of the plain model checks the row against the first and appends it to both -/
theorem typedRows_alone_is_not_invariant :
    TypedRows [⟨[116], [⟨"a", .int, 0⟩], []⟩, ⟨[116], [⟨"a", .varchar, 9⟩], []⟩] ∧
    Spec.specStmt [⟨[116], [⟨"a", .int, 0⟩], []⟩, ⟨[116], [⟨"a", .varchar, 9⟩], []⟩]
        (.insert [116] [] [[.int 1]]) =
      some [⟨[116], [⟨"a", .int, 0⟩], [⟨none, [.int 1]⟩]⟩, ⟨[116], [⟨"a", .varchar, 9⟩], [⟨none, [.int 1]⟩]⟩] ∧
    ¬ TypedRows [⟨[116], [⟨"a", .int, 0⟩], [⟨none, [.int 1]⟩]⟩, ⟨[116], [⟨"a", .varchar, 9⟩], [⟨none, [.int 1]⟩]⟩] := by
  refine ⟨?_, rfl, ?_⟩
  · unfold TypedRows
    decide
  · unfold TypedRows
    decide

end Mkdb.Spec
