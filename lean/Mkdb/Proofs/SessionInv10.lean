import Mkdb.Proofs.SessionInv9
import Mkdb.Proofs.ColumnNames
/-!
Session invariant, part 10: **an accepted value is read back, now and after flush, eviction and restart;
a refused value is not stored** (the compositions behind C08's end-to-end theorems).

* `ReadsDurably db t cols vals`: `Fetch` of the table returns the columns `cols` and exactly the rows
  `vals` - now; after the flush (`Engine.flush`: every page written to disk); after the cache is dropped
  and the pages are read from the data file again (`reopen`); after start-up recovery of the closed
  database (`Engine.recover`) and the re-open that follows it.
* `DbInv.reads_durably`: under the invariant, every table of the plain database is read durably.
* `rowOf_nocols`: the row the plain model builds for an INSERT without a column list is the given values.
* `accepted_insert_read_back`, `refused_insert_not_stored`.
-/
set_option autoImplicit false
namespace Mkdb.Store
open Mkdb.Page Mkdb.Tuple Mkdb.Generated Mkdb.Tree Mkdb.Engine

/-- the table is read back with these columns and exactly these rows: now, after the flush, after
eviction and reload, after restart -/
def ReadsDurably (db : Engine.DB) (t : Bytes) (cols : List FieldDef) (vals : List (List Val)) : Prop :=
  Reads db t cols vals ∧
  ∀ order, ∃ db2, Engine.flush db order = .ok () db2 ∧ Reads db2 t cols vals ∧
    Reads { db2 with store := reopen db2.store } t cols vals ∧
    ∀ o1 o2, ∃ db3, Engine.recover db2 o1 o2 = .ok db3 ∧ Reads db3 t cols vals ∧
      Reads { db3 with store := reopen db3.store } t cols vals

/-- **Under the invariant every table of the plain database is read durably.** -/
theorem DbInv.reads_durably {db : Engine.DB} {sdb : Spec.SDB} {pt sch : Levels} {tbls : List (Bytes × Levels)}
    (h : DbInv db sdb pt sch tbls) {t : Bytes} {tb : Spec.STable} (hfind : Spec.findTable sdb t = some tb) :
    ReadsDurably db t tb.cols (tb.rows.map (·.vals)) := by
  refine ⟨h.reads hfind, fun order => ?_⟩
  obtain ⟨db2, e, _, hk⟩ := h.flush order
  refine ⟨db2, e, hk.inv.reads hfind, hk.reopen.inv.reads hfind, fun o1 o2 => ?_⟩
  obtain ⟨db3, e3, _, hk3⟩ := hk.recover o1 o2
  exact ⟨db3, e3, hk3.inv.reads hfind, hk3.reopen.inv.reads hfind⟩

/-- the columns of a table of the plain database have distinct names -/
theorem DbInv.cols_nodup {db : Engine.DB} {sdb : Spec.SDB} {pt sch : Levels} {tbls : List (Bytes × Levels)}
    (h : DbInv db sdb pt sch tbls) {t : Bytes} {tb : Spec.STable} (hfind : Spec.findTable sdb t = some tb) :
    (tb.cols.map (·.name)).Nodup := by
  obtain ⟨sdb0, habs0, hv⟩ := h.abs
  obtain ⟨tb0, hf0, htv⟩ := findTable_congr_some hv hfind
  obtain ⟨tr, htr⟩ := habs0.tabs.find_some hf0
  obtain ⟨schema, hsch, _, hf⟩ := habs0.tabs.find habs0.cat.tnames htr
  rw [hf0] at hf
  simp only [Option.some.injEq] at hf
  subst hf
  rw [← tv_cols htv]
  exact habs0.tabs.names_nodup htr hsch

/-- the row the plain model builds for an INSERT WITHOUT a column list is the list of the given values -/
theorem rowOf_nocols {t : Spec.STable} {vals row : List Val} (h : Spec.rowOf t [] vals = some row)
    (hnd : (t.cols.map (·.name)).Nodup) : row = vals := by
  unfold Spec.rowOf at h
  simp only [List.isEmpty_nil, if_true] at h
  split at h
  · cases h
  · rename_i hlen
    have hl : (t.cols.map (·.name)).length = vals.length := by simpa using hlen
    split at h
    · cases h
    · split at h
      · cases h
      · simp only [Option.some.injEq] at h
        rw [← h]
        apply List.ext_getElem?
        intro j
        by_cases hj : j < vals.length
        · have hj' : j < t.cols.length := by rw [List.length_map] at hl; omega
          rw [List.getElem?_map, List.getElem?_eq_getElem hj', List.getElem?_eq_getElem hj, Option.map_some]
          congr 1
          exact get_zip_named (t.cols.map (·.name)) vals hnd j _ _
            (by rw [List.getElem?_map, List.getElem?_eq_getElem hj']; rfl) (List.getElem?_eq_getElem hj)
        · have hj' : ¬ j < t.cols.length := by rw [List.length_map] at hl; omega
          rw [List.getElem?_eq_none (by simpa using hj'), List.getElem?_eq_none (by simpa using hj)]

/-- the `k`-th result of a `mapM` that succeeded is `f` of the `k`-th element -/
theorem mapM_getElem {α β} (f : α → Option β) : ∀ (l : List α) (ys : List β), l.mapM f = some ys →
    ∀ (k : Nat) (a : α) (b : β), l[k]? = some a → ys[k]? = some b → f a = some b
  | [], ys, h, k, a, b, ha, _ => by simp at ha
  | x :: l, ys, h, k, a, b, ha, hb => by
    obtain ⟨y, bs, hx, hl, rfl⟩ := (mapM_cons_some f x l ys).mp h
    cases k with
    | zero =>
      simp only [List.getElem?_cons_zero, Option.some.injEq] at ha hb
      subst ha; subst hb; exact hx
    | succ k =>
      simp only [List.getElem?_cons_succ] at ha hb
      exact mapM_getElem f l bs hl k a b ha hb

theorem map_vals_mk (l : List (List Val)) : (l.map fun v => (⟨none, v⟩ : Spec.SRow)).map (·.vals) = l := by
  induction l with
  | nil => rfl
  | cons a l ih => simp only [List.map_cons, List.cons.injEq, true_and]; exact ih

/-- **An accepted INSERT is read back** (see `C08_accepted_value_is_read_back`). -/
theorem accepted_insert_read_back (db : Engine.DB) (sdb : Spec.SDB) (pt sch : Levels)
    (tbls : List (Bytes × Levels)) (h : DbInv db sdb pt sch tbls) (t : Bytes) (cols : List Bytes)
    (rows : List (List Sql.Lit)) (hroom : StmtRoom db pt sch tbls (.insert t cols rows))
    (sdb' : Spec.SDB) (hspec : Spec.specStmt sdb (.insert t cols rows) = some sdb') :
    ∃ db' pt' sch' tbls' tb newRows,
      evalStmt db [] (.insert t cols rows) = .ok () db' ∧ DbInv db' sdb' pt' sch' tbls' ∧
      Spec.findTable sdb t = some tb ∧
      (rows.map fun r => r.map Engine.litToVal).mapM (Spec.rowOf tb cols) = some newRows ∧
      (∀ (k : Nat) (vals row : List Val), (rows.map fun r => r.map Engine.litToVal)[k]? = some vals →
          newRows[k]? = some row →
        (cols = [] → row = vals) ∧
        (cols ≠ [] → row.length = tb.cols.length ∧
          ∀ (j : Nat) (fd : FieldDef), tb.cols[j]? = some fd →
            (∀ (i : Nat) (c : Bytes) (v : Val), cols[i]? = some c → vals[i]? = some v →
              Spec.nameStr c = fd.name → row[j]? = some v) ∧
            (fd.name ∉ cols.map Spec.nameStr → row[j]? = some Val.null))) ∧
      ReadsDurably db' t tb.cols (tb.rows.map (·.vals) ++ newRows) := by
  obtain ⟨db', pt', sch', tbls', e, hi'⟩ := h.accepted [] _ hroom sdb' hspec
  have hspec' : Spec.specInsert sdb t cols (rows.map fun r => r.map Engine.litToVal) = some sdb' := by
    simp only [Spec.specStmt] at hspec
    rw [litRows_eq] at hspec
    exact hspec
  obtain ⟨tb, newRows, hfind, hm, hfind'⟩ := specInsert_table hspec'
  refine ⟨db', pt', sch', tbls', tb, newRows, e, hi', hfind, hm, ?_, ?_⟩
  · intro k vals row hk hr
    -- the `k`-th new row is `rowOf` of the `k`-th VALUES row
    have hrow : Spec.rowOf tb cols vals = some row := mapM_getElem _ _ _ hm k vals row hk hr
    refine ⟨fun hc => ?_, fun hc => ?_⟩
    · subst hc
      exact rowOf_nocols hrow (h.cols_nodup hfind)
    · have hnames : Spec.namesOK tb (cols.map Spec.nameStr) = true := by
        cases hrs : (rows.map fun r => r.map Engine.litToVal) with
        | nil => rw [hrs] at hk; simp at hk
        | cons r0 rest0 =>
          rw [hrs] at hspec'
          exact specInsert_namesOK hfind hspec'
      exact rowOf_named tb cols vals row hrow hc hnames
  · have := hi'.reads_durably hfind'
    have hvals : (tb.rows ++ newRows.map fun v => (⟨none, v⟩ : Spec.SRow)).map (·.vals) =
        tb.rows.map (·.vals) ++ newRows := by
      rw [List.map_append, map_vals_mk]
    rw [← hvals]
    exact this

/-- **A refused INSERT stores nothing** (see `C08_refused_value_is_not_stored`). -/
theorem refused_insert_not_stored (db : Engine.DB) (sdb : Spec.SDB) (pt sch : Levels)
    (tbls : List (Bytes × Levels)) (h : DbInv db sdb pt sch tbls) (t : Bytes) (cols : List Bytes)
    (r : List Sql.Lit) (rest : List (List Sql.Lit)) (tb : Spec.STable) (hfind : Spec.findTable sdb t = some tb)
    (hbad : Spec.rowOf tb cols (r.map Engine.litToVal) = none) :
    Spec.specStmt sdb (.insert t cols (r :: rest)) = none ∧
    ∃ e db', evalStmt db [] (.insert t cols (r :: rest)) = .err e db' ∧ db'.wal = db.wal ∧
      DbInv db' sdb pt sch tbls ∧ ReadsDurably db' t tb.cols (tb.rows.map (·.vals)) := by
  obtain ⟨hnone, e, db', he, hw, hi'⟩ := h.refused [] (.insert t cols (r :: rest))
    (.insert t cols r rest (.inr ⟨tb, hfind, .inl hbad⟩))
  exact ⟨hnone, e, db', he, hw, hi', hi'.reads_durably hfind⟩

end Mkdb.Store
