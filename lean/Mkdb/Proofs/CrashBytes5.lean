import Mkdb.Proofs.CrashBytes4
/-!
Crash at an arbitrary byte of a statement's log append, part 5: **non-vacuity of `update_byte_cut` and
`delete_byte_cut`** on the computed database `tableDB`, after a history.

History: `INSERT INTO t VALUES (5), (6)` (acknowledged, two records, 68 bytes).
* `UPDATE t SET a = 7 WHERE a = 5` appends one record of 34 bytes; the file cut 20 bytes into it is read
  as the two records of the history, flagged torn (`k = 0`).
* With the UPDATE acknowledged as well (102 bytes), `DELETE FROM t WHERE a = 6` appends one record of
  29 bytes; a "cut" 40 bytes behind the history - beyond the end of what was appended - is read as all
  four records, not torn (`k = 1`).
-/
set_option autoImplicit false
namespace Mkdb.Store
open Mkdb.Page Mkdb.Tuple Mkdb.Generated Mkdb.Tree Mkdb.Engine

/-- the database after the INSERT, the UPDATE, the DELETE, as the model computes them -/
def dbI : Engine.DB :=
  match Engine.evalInsert tableDB tname [] [[.int 5], [.int 6]] with | .ok _ db => db | _ => tableDB
def dbU : Engine.DB :=
  match Engine.evalUpdate dbI tname [([97], .lit (.int 7))] (some (condEq 5)) with | .ok _ db => db | _ => dbI
def dbD : Engine.DB :=
  match Engine.evalDelete dbU tname (some (condEq 6)) with | .ok _ db => db | _ => dbU

def recT3 : WalRec := ⟨1, 12, 12288, 11, [0, 7, 0, 0, 0]⟩
def recT4 : WalRec := ⟨2, 13, 12288, 12, []⟩

theorem dbU_log : (dbU.wal == [recT1, recT2, recT3] && dbU.store.hdr == ⟨12, 4096, 16384, 13⟩) = true := by
  decide +kernel
theorem dbD_log : (dbD.wal == [recT1, recT2, recT3, recT4] && dbD.store.hdr == ⟨12, 4096, 16384, 14⟩) = true := by
  decide +kernel

theorem validSet7 : ∀ p ∈ [(([97] : Bytes), Sql.VExpr.lit (.int 7))], ∀ l, p.2 = .lit l →
    ValidVal (Engine.litToVal l) := by
  intro p hp l hl
  simp only [List.mem_singleton] at hp
  subst hp
  simp only [Sql.VExpr.lit.injEq] at hl
  subst hl
  exact ⟨by decide, by decide⟩

/-- the history and the two statements, run by the model -/
theorem historyT : ∃ db1 db2 db3,
    SpecRun schT tableDB sdbA0 [.insert tname [] [[.int 5], [.int 6]]] db1 sdbA1 ∧
    Engine.evalUpdate db1 tname [([97], .lit (.int 7))] (some (condEq 5)) = .ok () db2 ∧
    Engine.evalDelete db2 tname (some (condEq 6)) = .ok 1 db3 ∧
    db1.wal = [recT1, recT2] ∧ db1.store.hdr = ⟨12, 4096, 16384, 12⟩ ∧
    db2.wal = [recT1, recT2, recT3] ∧ db2.store.hdr = ⟨12, 4096, 16384, 13⟩ ∧
    db3.wal = [recT1, recT2, recT3, recT4] ∧ db3.store.hdr = ⟨12, 4096, 16384, 14⟩ := by
  have hmem : (tname, tT) ∈ [(tname, tT)] := List.mem_singleton.mpr rfl
  obtain ⟨db1, pt1, t1', _, e1, _, _, habs1, _⟩ := evalInsert_refines_specV tableDB ptT schT [(tname, tT)] sdbA0 sdbA1
    abs_tableDB.toV tname tT hmem schemaA schT_t [] [[.int 5], [.int 6]] valid56 specA1 runT
  have run1 : SpecRun schT tableDB sdbA0 [.insert tname [] [[.int 5], [.int 6]]] db1 sdbA1 :=
    .insert tname [] [[.int 5], [.int 6]] valid56 specA1
      (by
        intro pt tbls t schema hA ht hs
        obtain ⟨rfl, rfl⟩ := pinT pt tbls t schema hA ht hs
        exact runT)
      e1 (.nil db1 sdbA1)
  obtain ⟨db2, t2', _, e2, _, habs2, _⟩ := evalUpdate_refines_specV db1 pt1 schT _ sdbA1 sdbA2 habs1 tname
    [([97], .lit (.int 7))] (some (condEq 5)) validSet7
    (by
      intro p hp
      simp only [List.mem_singleton] at hp
      subst hp
      rw [nameStr_a]
      exact a_bytes)
    specA2
  obtain ⟨n, db3, t3', _, e3, _, _, _, _, hn⟩ := evalDelete_refines_specV db2 pt1 schT _ sdbA2 sdbA3 habs2
    tname (some (condEq 6)) specA3
  have hn1 : n = 1 := hn _ _ (rfl : Spec.findTable sdbA2 tname = some _) selA3
  subst hn1
  have h1 : db1 = dbI := by unfold dbI; rw [e1]
  have h2 : db2 = dbU := by unfold dbU; rw [← h1, e2]
  have h3 : db3 = dbD := by unfold dbD; rw [← h2, e3]
  have hU := dbU_log
  have hD := dbD_log
  simp only [Bool.and_eq_true, beq_iff_eq] at hU hD
  obtain ⟨hw1, hh1⟩ := of_okWithLog insertT_log e1
  exact ⟨db1, db2, db3, run1, e2, e3, hw1, hh1, by rw [h2]; exact hU.1, by rw [h2]; exact hU.2,
    by rw [h3]; exact hD.1, by rw [h3]; exact hD.2⟩

/-- **Non-vacuity of `update_byte_cut`.**  After the acknowledged INSERT, the UPDATE's record is cut
after 20 of its 34 bytes: the two records of the history are read, flagged torn, the file is truncated
to them; replaying them recovers a row-prefix state of the UPDATE (the rows `(5)`, `(6)`: no row
rewritten). -/
theorem update_byte_cut_example : ∃ db1 db2,
    SpecRun schT tableDB sdbA0 [.insert tname [] [[.int 5], [.int 6]]] db1 sdbA1 ∧
    Engine.evalUpdate db1 tname [([97], .lit (.int 7))] (some (condEq 5)) = .ok () db2 ∧
    db1.wal = [recT1, recT2] ∧ db2.wal = [recT1, recT2, recT3] ∧
    (∀ r ∈ db2.wal, (toRec r).wf) ∧
    ByteCut db1.wal db2.wal 20 0 true ∧
    ∃ rK ptK tblsK sdbK stK,
      replayAll [recT1, recT2] tableDB.store = (rK, none, false) ∧
      AbsV rK ptK schT tblsK sdbK ∧
      Spec.findTable sdbK tname = some stK ∧
      (tname, stK.rows.map (·.vals)) ∈
        Spec.rowPrefixStates sdbA1 (.update tname [([97], .lit (.int 7))] (some (condEq 5))) ∧
      rK.hdr.lastKey = 12 := by
  obtain ⟨db1, db2, _, run1, e2, _, hw1, hh1, hw2, hh2, _⟩ := historyT
  obtain ⟨hwf, k, torn, hcut, rK, ptK, tblsK, sdbK, stK, hre, hAR, hfind, hmem, _, hlk, _⟩ :=
    update_byte_cut schT run1 rfl ptT [(tname, tT)] abs_tableDB.toV ptT_self freshM_tableDB tname
      [([97], .lit (.int 7))] (some (condEq 5)) validSet7 sdbA2 specA2 db2 e2
      (by rw [hh2]; decide) (by rw [hh2]; decide) (by rw [hh2]; decide) 20
  have hk0 : k = 0 := by
    obtain ⟨hk, _, hle, _⟩ := hcut
    rw [hw1, hw2] at hk hle
    have hk1 : k ≤ 1 := hk
    have h2 : k = 0 ∨ k = 1 := by omega
    rcases h2 with rfl | rfl
    · rfl
    · exact absurd hle (by decide)
  subst hk0
  have htorn : torn = true := by
    obtain ⟨_, _, _, _, ht, _⟩ := hcut
    rw [hw1, hw2] at ht
    exact ht.mpr (by decide)
  subst htorn
  have hlk' : rK.hdr.lastKey = 12 := by rw [hlk, hh1]
  rw [hw1, hw2] at hre
  exact ⟨db1, db2, run1, e2, hw1, hw2, hwf, hcut, rK, ptK, tblsK, sdbK, stK, hre, hAR, hfind, hmem, hlk'⟩

/-- **Non-vacuity of `delete_byte_cut`.**  After the acknowledged INSERT and UPDATE, the DELETE's
record (29 bytes) reached the file completely (position 40 behind the history, beyond the end of the
file): all four records are read, not torn; replaying them recovers a row-prefix state of the DELETE. -/
theorem delete_byte_cut_example : ∃ db2 db3,
    SpecRun schT tableDB sdbA0 [.insert tname [] [[.int 5], [.int 6]],
      .update tname [([97], .lit (.int 7))] (some (condEq 5))] db2 sdbA2 ∧
    Engine.evalDelete db2 tname (some (condEq 6)) = .ok 1 db3 ∧
    db2.wal = [recT1, recT2, recT3] ∧ db3.wal = [recT1, recT2, recT3, recT4] ∧
    (∀ r ∈ db3.wal, (toRec r).wf) ∧
    ByteCut db2.wal db3.wal 40 1 false ∧
    ∃ rK ptK tblsK sdbK stK,
      replayAll [recT1, recT2, recT3, recT4] tableDB.store = (rK, none, false) ∧
      AbsV rK ptK schT tblsK sdbK ∧
      Spec.findTable sdbK tname = some stK ∧
      (tname, stK.rows.map (·.vals)) ∈ Spec.rowPrefixStates sdbA2 (.delete tname (some (condEq 6))) := by
  obtain ⟨db1, db2, db3, run1, e2, e3, _, _, hw2, _, hw3, hh3⟩ := historyT
  have run2 : SpecRun schT tableDB sdbA0 [.insert tname [] [[.int 5], [.int 6]],
      .update tname [([97], .lit (.int 7))] (some (condEq 5))] db2 sdbA2 :=
    run1.append (.update tname [([97], .lit (.int 7))] (some (condEq 5)) validSet7 specA2 e2 (.nil db2 sdbA2))
  obtain ⟨hwf, k, torn, hcut, rK, ptK, tblsK, sdbK, stK, hre, hAR, hfind, hmem, _⟩ :=
    delete_byte_cut schT run2 rfl ptT [(tname, tT)] abs_tableDB.toV ptT_self freshM_tableDB tname
      (some (condEq 6)) sdbA3 specA3 1 db3 e3
      (by rw [hh3]; decide) (by rw [hh3]; decide) (by rw [hh3]; decide) 40
  have hk1 : k = 1 := by
    obtain ⟨hk, _, _, hnext, _⟩ := hcut
    rw [hw2, hw3] at hk hnext
    have hk1 : k ≤ 1 := hk
    have h2 : k = 0 ∨ k = 1 := by omega
    rcases h2 with rfl | rfl
    · exact absurd (hnext (by decide)) (by decide)
    · rfl
  subst hk1
  have htorn : torn = false := by
    obtain ⟨_, _, _, _, ht, _⟩ := hcut
    rw [hw2, hw3] at ht
    cases torn with
    | false => rfl
    | true => exact absurd (ht.mp rfl) (by decide)
  subst htorn
  rw [hw2, hw3] at hre
  exact ⟨db2, db3, run2, e3, hw2, hw3, hwf, hcut, rK, ptK, tblsK, sdbK, stK, hre, hAR, hfind, hmem⟩

end Mkdb.Store
