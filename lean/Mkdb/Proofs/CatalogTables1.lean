import Mkdb.Proofs.TypedTables6
import Mkdb.Proofs.SessionInv5
/-!
C18, the two catalog tables, part 1 (W15): **what `Fetch` of `sys_pages` and of `sys_schema` returns.**

`SELECT … FROM sys_pages` and `… FROM sys_schema` are ordinary reads for the engine: `Fetch` looks the
name up in the page table, reads its columns from `sys_schema` and scans from the page the page-table row
names.  For the two catalog tables the catalog invariant `Cat` does not say what those rows are (it
describes the `sys_schema` rows of the USER tables and lets the self-row of the page table name anything).

* `firstLeafOff`: the offset of the leftmost leaf of a tree.
* `CatSelf pt sch`: (1) the page table holds the row `(sys_pages, leftmost leaf of the page table)` -
  `CREATE DATABASE` writes `(sys_pages, 4096)` when the page table is the one leaf 4096, nothing rewrites
  the row, and when that leaf splits it stays the LEFTMOST leaf (the new leaf is its right sibling), so the
  row is stale as a root (`PtSelfFree4.db8_stale`) and still the right place to start a scan; (2) the
  columns `sys_schema` lists for `sys_pages` are `pageTableSchema`, (3) for `sys_schema`
  `schemaTableSchema` - the six rows `CREATE DATABASE` wrote (`schNew_describes_catalog`).
* `scan_first`: `scanRight` from the leftmost leaf of a held tree returns all live cells, as from the root.
* `fetchTable_sysSchema`, `fetchTable_sysPages`: under `Cat` and `CatSelf`, `Fetch` of either catalog
  table returns `.ok`: one row per live cell, under `schemaTableSchema` / `pageTableSchema`.
* `catalog_fetch_typed`, `fetchOf_kinded_self`, **`select_never_panics_self`**: so a SELECT of a
  parser-produced shape over ANY tables never panics on a store with `AbsV` and `CatSelf`.
-/
set_option autoImplicit false
namespace Mkdb.Store
open Mkdb.Page Mkdb.Tuple Mkdb.Generated Mkdb.Tree Mkdb.Engine Mkdb.Exec Mkdb.Exec.TypedP Mkdb.Sql

/-! ### the leftmost leaf -/

/-- the offset of the leftmost leaf of a tree -/
def firstLeafOff (t : Levels) : Nat := (t.leaves.head?.map (·.1.off)).getD 0

theorem firstLeafOff_setVal (t : Levels) (k lsn : Nat) (v : Bytes) :
    firstLeafOff (setVal t k lsn v) = firstLeafOff t := by
  unfold firstLeafOff setVal
  cases t.leaves with
  | nil => rfl
  | cons p rest =>
    simp only [List.map_cons, List.head?_cons, Option.map_some, Option.getD_some]
    split <;> rfl

theorem firstLeafOff_clean (t : Levels) : firstLeafOff (clean t) = firstLeafOff t := by
  unfold firstLeafOff clean
  cases t.leaves with
  | nil => rfl
  | cons p rest => rfl

theorem firstLeafOff_insertAppend {t t' : Levels} {k lsn nf nf' : Nat} {v : Bytes}
    (h : insertAppend t k lsn v nf = .ok (t', nf')) : firstLeafOff t' = firstLeafOff t := by
  obtain ⟨pre, last, d, hl, _, _, hc⟩ := insertAppend_inv_cases h
  unfold firstLeafOff
  rw [hl]
  rcases hc with ⟨_, rfl, _⟩ | ⟨_, rfl, _⟩
  · cases pre <;> rfl
  · cases pre <;> rfl

/-- with a leaf, the leftmost leaf is the first page of `offs` -/
theorem firstLeafOff_eq_head (t : Levels) (hne : t.leaves ≠ []) : firstLeafOff t = ((offs t).head?).getD 0 := by
  unfold firstLeafOff offs flatten
  cases hl : t.leaves with
  | nil => exact absurd hl hne
  | cons p rest => rfl

theorem firstLeafOff_ptSame {a b : Levels} (h : PtSame a b) (hne : a.leaves ≠ []) :
    firstLeafOff b = firstLeafOff a := by
  have hb : b.leaves ≠ [] := by
    intro hb
    have := h.2.2.2.1
    rw [hb] at this
    exact hne (List.length_eq_zero_iff.mp this.symm)
  rw [firstLeafOff_eq_head a hne, firstLeafOff_eq_head b hb, h.1]

theorem leaves_ne_nil {t : Levels} {nf : Nat} (hI : Inv t nf) : t.leaves ≠ [] := by
  have := linked_below_ne _ _ hI.link
  intro h
  rw [h] at this
  exact this rfl

/-! ### the invariant of the two catalog tables -/

/-- **The catalog describes itself**: the page table's row about itself names the leftmost leaf of the
page table, and `sys_schema` lists for `sys_pages` and for `sys_schema` the columns the engine decodes
their rows with. -/
structure CatSelf (pt sch : Levels) : Prop where
  self : (sysPages, firstLeafOff pt) ∈ ptEntries pt
  schP : schemaOf sch sysPages = some pageTableSchema
  schS : schemaOf sch sysSchema = some schemaTableSchema

theorem CatSelf.clean {pt sch : Levels} (h : CatSelf pt sch) : CatSelf (clean pt) (clean sch) :=
  ⟨by rw [firstLeafOff_clean, ptEntries_clean]; exact h.self, by rw [schemaOf_clean]; exact h.schP,
    by rw [schemaOf_clean]; exact h.schS⟩

/-! ### the scan from the leftmost leaf -/

/-- **`scanRight` from the leftmost leaf of a held tree** returns the live cells of the whole tree, in
order - as the scan from the root does (`scan_cat`): `leftmostLeaf` stops at once, `scanLeaves` walks the
sibling chain. -/
theorem scan_first (s : Store) (t : Levels) (nf : Nat) (hH : Holds s t) (hI : Inv t nf)
    (hlen : t.leaves.length ≤ scanFuel) :
    ∃ s' cs, scanRight (firstLeafOff t) s = .ok cs s' ∧ Same s s' ∧ cs.map (·.1) = live t := by
  match hlv : t.leaves, leaves_ne_nil hI with
  | p :: ps, _ =>
    have hp : view s p.1.off = some (Node.leaf p.1, p.2) :=
      Mkdb.Refine.Holds.leaf hH (by rw [hlv]; exact List.mem_cons_self)
    obtain ⟨s1, hsv1, e1⟩ := Mkdb.Refine.leftmostLeaf_leaf hp 63
    have e1' : leftmostLeaf treeFuel p.1.off s = .ok p.1 s1 := e1
    have hch : chainFrom none ((p :: ps).map (·.1)) := by rw [← hlv]; exact hI.chain
    obtain ⟨s2, e2, hsv2⟩ := Mkdb.Refine.scanLeaves_chain ps p none scanFuel s1 hch
      (fun q hq => (hsv1 _).trans (Mkdb.Refine.Holds.leaf hH (by rw [hlv]; exact hq)))
      (by rw [hlv] at hlen; simpa using hlen)
    have hf : firstLeafOff t = p.1.off := by unfold firstLeafOff; rw [hlv]; rfl
    have e : scanRight (firstLeafOff t) s = .ok ((p :: ps).flatMap fun q => Mkdb.Refine.liveAt q.1) s2 := by
      rw [hf, scanRight, bind_ok e1']
      exact e2
    refine ⟨s2, _, e, ⟨funext (hsv1.trans hsv2), scanRight_hdr _ _ _ _ e⟩, ?_⟩
    have := Mkdb.Refine.map_fst_liveAt t.leaves
    rw [hlv] at this
    unfold live cells
    rw [hlv]
    exact this

/-- the leftmost leaf of a held tree, as the engine sees it -/
theorem first_held (s : Store) (t : Levels) (nf : Nat) (hH : Holds s t) (hI : Inv t nf) :
    ∃ n d, view s (firstLeafOff t) = some (n, d) ∧ nodeOff n = firstLeafOff t := by
  match hlv : t.leaves, leaves_ne_nil hI with
  | p :: ps, _ =>
    have hf : firstLeafOff t = p.1.off := by unfold firstLeafOff; rw [hlv]; rfl
    refine ⟨Node.leaf p.1, p.2, ?_, by rw [hf]; rfl⟩
    rw [hf]
    exact Mkdb.Refine.Holds.leaf hH (by rw [hlv]; exact List.mem_cons_self)

/-! ### `Fetch` of the two catalog tables -/

theorem mapO_some_all {α β} (g : α → Option β) : ∀ (l : List α) (bs : List β), mapO g l = some bs →
    ∀ a ∈ l, ∃ b, g a = some b
  | [], _, _, a, ha => by cases ha
  | x :: rest, bs, h, a, ha => by
    simp only [mapO] at h
    cases hg : g x with
    | none => rw [hg] at h; cases h
    | some b =>
      cases hr : mapO g rest with
      | none => rw [hg, hr] at h; cases h
      | some tl =>
        rcases List.mem_cons.mp ha with rfl | ha'
        · exact ⟨b, hg⟩
        · exact mapO_some_all g rest tl hr a ha'

/-- a `sys_schema` that spells out the columns of some table holds only rows that decode -/
theorem schemaOf_rows_decode {sch : Levels} {name : Bytes} {fds : List FieldDef} (h : schemaOf sch name = some fds) :
    ∀ c ∈ live sch, ∃ m, decodeTuple schemaTableSchema c.val [] = .ok m := by
  intro c hc
  unfold schemaOf at h
  cases hrows : mapO (fun c : LeafCell => decRow schemaTableSchema c.val) (live sch) with
  | none => rw [hrows] at h; cases h
  | some rows =>
    obtain ⟨m, hm⟩ := mapO_some_all _ _ _ hrows c hc
    unfold decRow at hm
    split at hm
    · rename_i m' hm'
      exact ⟨m', hm'⟩
    · cases hm

theorem ptEntry_decodes {c : LeafCell} (h : ptEntry c ≠ none) : ∃ m, decodeTuple pageTableSchema c.val [] = .ok m := by
  unfold ptEntry at h
  split at h
  · rename_i m hm
    exact ⟨m, hm⟩
  · exact absurd rfl h

/-- the loop of `RelationService.Fetch` over cells that all decode: one row per cell -/
theorem fetchRows_all (schema : List FieldDef) (cs : List (LeafCell × Nat)) (cells : List LeafCell) (s : Store)
    (hcs : cs.map (·.1) = cells) (hdec : ∀ c ∈ cells, ∃ m, decodeTuple schema c.val [] = .ok m) :
    mapS (fetchRow schema) cs s = .ok (rowsOf schema cells) s := by
  have hne : ∀ c ∈ cells, rowOf schema c ≠ none := by
    intro c hc
    obtain ⟨m, hm⟩ := hdec c hc
    unfold rowOf
    rw [decRow_of_decode hm]
    simp
  apply mapS_pure (fetchRow schema) (fun c => rowOf schema c.1) s cs
  · intro a _ b hb
    exact fetchRow_spec schema a b s hb
  · have := mapO_filterMap (rowOf schema) cells hne
    rw [← hcs, mapO_map] at this
    rw [this, hcs]
    rfl

/-- **`Fetch` of `sys_schema`**: the rows of all its live cells, under `schemaTableSchema`; nothing
changes but the cache. -/
theorem fetchTable_sysSchema {s : Store} {pt sch : Levels} {tbls : List (Bytes × Levels)} (h : Cat s pt sch tbls)
    (hs : CatSelf pt sch) :
    ∃ s', fetchTable sysSchema s = .ok (rowsOf schemaTableSchema (live sch), schemaTableSchema) s' ∧ Same s s' := by
  obtain ⟨s1, e1, hs1⟩ := relationOffset_entry h sysSchema _ h.esch
  have hc1 := h.of_same hs1
  obtain ⟨s2, e2, hs2, hc2⟩ := relationSchema_cat hc1 sysSchema _ hs.schS
  obtain ⟨hH2, hI2, _, _, _⟩ := hc2.tree sch Cat.sch_mem
  obtain ⟨n, d, hvn, hon⟩ := root_held s2 sch _ hH2 hI2
  obtain ⟨s3, e3, v3, _, _⟩ := fetch_spec s2 (rootOff sch) n d hvn hon
  have hs3 : Same s2 s3 := ⟨v3, fetch_hdr e3⟩
  have hc3 := hc2.of_same hs3
  obtain ⟨hH3, hI3, hd3, hl3, _⟩ := hc3.tree sch Cat.sch_mem
  obtain ⟨s4, cs, e4, hs4, hcs, _⟩ := scan_cat s3 sch _ hH3 hI3 (by omega) hl3
  have e5 := fetchRows_all schemaTableSchema cs (live sch) s4 hcs (schemaOf_rows_decode hs.schS)
  refine ⟨s4, ?_, ((hs1.trans hs2).trans hs3).trans hs4⟩
  rw [fetchTable_eq, bind_ok e1, bind_ok e2, bind_ok e3, bind_ok e4, bind_ok e5]
  rfl

/-- **`Fetch` of `sys_pages`**: the scan starts at the page the self-row names - the leftmost leaf of the
page table, whether or not it still is the root - and returns the rows of all live cells of the page
table, under `pageTableSchema`. -/
theorem fetchTable_sysPages {s : Store} {pt sch : Levels} {tbls : List (Bytes × Levels)} (h : Cat s pt sch tbls)
    (hs : CatSelf pt sch) :
    ∃ s', fetchTable sysPages s = .ok (rowsOf pageTableSchema (live pt), pageTableSchema) s' ∧ Same s s' := by
  obtain ⟨s1, e1, hs1⟩ := relationOffset_entry h sysPages _ hs.self
  have hc1 := h.of_same hs1
  obtain ⟨s2, e2, hs2, hc2⟩ := relationSchema_cat hc1 sysPages _ hs.schP
  obtain ⟨hH2, hI2, _, _, _⟩ := hc2.tree pt Cat.pt_mem
  obtain ⟨n, d, hvn, hon⟩ := first_held s2 pt _ hH2 hI2
  obtain ⟨s3, e3, v3, _, _⟩ := fetch_spec s2 (firstLeafOff pt) n d hvn hon
  have hs3 : Same s2 s3 := ⟨v3, fetch_hdr e3⟩
  have hc3 := hc2.of_same hs3
  obtain ⟨hH3, hI3, _, hl3, _⟩ := hc3.tree pt Cat.pt_mem
  obtain ⟨s4, cs, e4, hs4, hcs⟩ := scan_first s3 pt _ hH3 hI3 hl3
  have e5 := fetchRows_all pageTableSchema cs (live pt) s4 hcs (fun c hc => ptEntry_decodes (h.dec c hc))
  refine ⟨s4, ?_, ((hs1.trans hs2).trans hs3).trans hs4⟩
  rw [fetchTable_eq, bind_ok e1, bind_ok e2, bind_ok e3, bind_ok e4, bind_ok e5]
  rfl

/-! ### a SELECT over any tables -/

/-- under `Cat` and `CatSelf` the Boolean check `catalogOK` (TypedTables6) holds -/
theorem catalogOK_of_self {db : Engine.DB} {pt sch : Levels} {tbls : List (Bytes × Levels)}
    (h : Cat db.store pt sch tbls) (hs : CatSelf pt sch) : catalogOK db = true := by
  obtain ⟨s1, e1, _⟩ := fetchTable_sysPages h hs
  obtain ⟨s2, e2, _⟩ := fetchTable_sysSchema h hs
  unfold catalogOK
  simp only [List.all_cons, List.all_nil, e1, e2, Bool.and_true, Bool.and_eq_true, decide_eq_true_eq]
  exact ⟨by decide +kernel, by decide +kernel⟩

/-- what a SELECT reads for `sys_pages` and for `sys_schema`: the declared catalog columns, one row per
live row of the catalog tree -/
theorem fetchOf_catalog {db : Engine.DB} {pt sch : Levels} {tbls : List (Bytes × Levels)}
    (h : Cat db.store pt sch tbls) (hs : CatSelf pt sch) :
    fetchOf db sysPages = some ⟨pageTableSchema.map fun fd => fd.name.toUTF8.toList,
      (rowsOf pageTableSchema (live pt)).map (·.2)⟩ ∧
    fetchOf db sysSchema = some ⟨schemaTableSchema.map fun fd => fd.name.toUTF8.toList,
      (rowsOf schemaTableSchema (live sch)).map (·.2)⟩ := by
  obtain ⟨s1, e1, _⟩ := fetchTable_sysPages h hs
  obtain ⟨s2, e2, _⟩ := fetchTable_sysSchema h hs
  unfold fetchOf
  rw [e1, e2]
  exact ⟨rfl, rfl⟩

/-- every table a SELECT can read from a store with `AbsV` and `CatSelf` - user table or catalog table -
is kinded -/
theorem fetchOf_kinded_self {db : Engine.DB} {sdb : Spec.SDB} {pt sch : Levels} {tbls : List (Bytes × Levels)}
    (h : AbsV db.store pt sch tbls sdb) (hs : CatSelf pt sch) : KindedFetch (fetchOf db) := by
  obtain ⟨sdb0, habs, hv⟩ := h
  exact fetchOf_kinded ⟨sdb0, habs, hv⟩ (catalogOK_of_self habs.cat hs)

/-- **A SELECT over ANY tables never panics**: for a store that abstracts to a plain database and whose
catalog describes itself (`CatSelf`), a select list of a shape the parser builds, any FROM clause - the
two catalog tables included: `Fetch` of every table read returns rows or an error value, the evaluation
returns rows or an error value, and every output column holds values of one kind or NULL. -/
theorem select_never_panics_self {db : Engine.DB} {sdb : Spec.SDB} {pt sch : Levels}
    {tbls : List (Bytes × Levels)} (h : AbsV db.store pt sch tbls sdb) (hs : CatSelf pt sch) (q : Select)
    (hq : Exec.NoPanicP.ParsedShape q) :
    (∀ n ∈ selectNames q, FetchTotal db n) ∧ (∀ x, evaluateSelect (fetchOf db) q ≠ .panic x) ∧
      ∀ rows hdr, evaluateSelect (fetchOf db) q = .ok (rows, hdr) →
        ∃ ks : List Kind, ∀ r ∈ rows, rowHas ks r = true := by
  have hc : catalogOK db = true := by
    obtain ⟨sdb0, habs, _⟩ := h
    exact catalogOK_of_self habs.cat hs
  obtain ⟨h1, h2⟩ := select_any_table_never_panics h hc q hq
  exact ⟨h1, h2, fun rows hdr e => (evaluateSelect_kinded (fetchOf_kinded h hc) q hq).of_ok e⟩

end Mkdb.Store
