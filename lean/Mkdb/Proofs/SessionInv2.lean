import Mkdb.Proofs.SessionInv1
/-!
Session invariant, part 2: what UPDATE and DELETE do to the store, whatever their outcome
(`evalUpdate_effect`, `evalDelete_effect`; see part 1 for `RowEffect`).
-/
set_option autoImplicit false
namespace Mkdb.Store
open Mkdb.Page Mkdb.Tuple Mkdb.Generated Mkdb.Tree

/-! ### UPDATE -/

/-- the loop of `evalUpdate` over a prefix it runs through goes on with the rest -/
theorem evalUpdate_go_split (db : Engine.DB) (table : Bytes) (cols : List String) (src : List Val)
    (tail : List (Nat × List Val)) :
    ∀ (ids : List (Nat × List Val)) (s : Store) (batch : List WalRec) (s' : Store) (B : List WalRec),
      Engine.evalUpdate.go db table cols src s batch ids = .ok () { store := s', wal := db.wal ++ B } →
      Engine.evalUpdate.go db table cols src s batch (ids ++ tail) = Engine.evalUpdate.go db table cols src s' B tail
  | [], s, batch, s', B, h => by
    simp only [Engine.evalUpdate.go, Engine.Res.ok.injEq, Engine.DB.mk.injEq, true_and] at h
    obtain ⟨rfl, hb⟩ := h
    rw [List.append_cancel_left hb]
    rfl
  | r :: rest, s, batch, s', B, h => by
    simp only [Engine.evalUpdate.go, List.cons_append] at h ⊢
    cases e : update table r.1 cols src s with
    | ok logs s1 =>
      rw [e] at h
      simp only
      exact evalUpdate_go_split db table cols src tail rest s1 _ s' B h
    | err x s1 => rw [e] at h; cases h
    | panic p => rw [e] at h; cases h
    | unmodelled w => rw [e] at h; cases h
    | fuel => rw [e] at h; cases h

/-- **UPDATE, whatever its outcome**: refused at once (column source, unknown table, SET columns, WHERE),
run to the end, or stopped at the first selected row that cannot be rewritten with the rows before it
rewritten (the known finding).  `hvalid`: the SET literals are values a Go program can hold (the
rewritten rows must decode again). -/
theorem evalUpdate_effect (db : Engine.DB) (pt sch : Levels) (tbls : List (Bytes × Levels))
    (sdb : Spec.SDB) (h : Abs db.store pt sch tbls sdb) (table : Bytes)
    (sets : List (Bytes × Sql.VExpr)) (w : Option Sql.Cond)
    (hvalid : ∀ p ∈ sets, ∀ l, p.2 = .lit l → ValidVal (Engine.litToVal l))
    (hsys : table ∉ tbls.map (·.1) → table ≠ sysPages ∧ table ≠ sysSchema) :
    ResEffect sch db tbls (Engine.evalUpdate db table sets w) := by
  by_cases hcol : ∃ p ∈ sets, ∃ c, p.2 = .col c
  · rw [evalUpdate_col db table sets w hcol]
    exact RowEffect.same h (Same.refl _) rfl
  · have hnocol : ∀ p ∈ sets, ∀ c, p.2 ≠ .col c := fun p hp c hpc => hcol ⟨p, hp, c, hpc⟩
    rw [evalUpdate_nocol db table sets w hnocol]
    by_cases hn : table ∈ tbls.map (·.1)
    · obtain ⟨e, he, hen⟩ := List.mem_map.mp hn
      obtain ⟨tn, t⟩ := e
      simp only at hen
      subst hen
      have ht : (tn, t) ∈ tbls := he
      obtain ⟨schema, hsch, hdec, hfind⟩ := h.tabs.find h.cat.tnames ht
      obtain ⟨s1, efetch, hs1, hc1⟩ := fetchTable_cat h.cat tn t ht schema hsch hdec
      simp only [Engine.fetchForExec, Engine.liftS, efetch]
      cases hset : Engine.checkSetColumns (schema.map fun fd => (⟨[], fd.name.toUTF8.toList⟩ : Exec.Field)) []
          (sets.map (·.1)) with
      | some ec => exact RowEffect.same h hs1 rfl
      | none =>
      have hcc : checkColumns schema (sets.map fun p => Engine.bytesToName p.1) = none := by
        have := checkSetColumns_none_checkColumns schema _ hset
        rwa [List.map_map] at this
      simp only
      cases hsel : Spec.selects (absTable tn schema t) w with
      | none =>
        obtain ⟨x, efilter⟩ := filterIds_fail tn schema (rowsOf schema (live t)) (fun r hr => rowsOf_len hr) w hsel
        simp only [efilter]
        exact RowEffect.same h hs1 rfl
      | some sel =>
        obtain ⟨efilter, hsl⟩ := filterIds_selects tn schema (rowsOf schema (live t)) w sel hsel
        simp only [efilter]
        obtain ⟨_, hIt, _, _, _⟩ := h.cat.tree t (Cat.tb_mem ht)
        have hkn := live_keys_nodup hIt.asc
        have hnd : ((rowsOf schema (live t)).map (·.1)).Nodup := by
          rw [rowsOf_keys schema (live t) hdec]; exact hkn
        have hnd' : ((selRows (rowsOf schema (live t)) sel).map (·.1)).Nodup :=
          hnd.sublist ((selRows_sublist _ sel).map _)
        -- the selected rows up to the first one that cannot be rewritten
        obtain ⟨idsPre, tail, hids, hpre, htail⟩ := split_first_bad
          (fun r : Nat × List Val => specAssign schema sets r.2 ≠ none) (selRows (rowsOf schema (live t)) sel)
        have hmemsel : ∀ r ∈ idsPre ++ tail, r ∈ rowsOf schema (live t) := fun r hr =>
          (selRows_sublist _ sel).subset (hids ▸ hr)
        rw [hids, List.map_append, List.nodup_append] at hnd'
        obtain ⟨hndPre, _, hdisj⟩ := hnd'
        obtain ⟨s', t', logs, ego, hlive, hc', hl', _, _, _⟩ := evalUpdate_go_live db tn pt sch schema hsch sets hcc
          idsPre s1 tbls t [] hc1 ht hndPre
          (fun r hr => by
            obtain ⟨c, hc, hck, m, hm, hr2⟩ := mem_rowsOf_cell (hmemsel r (List.mem_append_left _ hr))
            have hne : specAssign schema sets (schema.map fun fd => get m fd.name) ≠ none := by
              rw [← hr2]; exact hpre r hr
            obtain ⟨v, hv⟩ := Option.ne_none_iff_exists'.mp hne
            obtain ⟨buf, henc, hsz, _⟩ := (specAssign_some_iff schema sets m v).mp hv
            exact ⟨c, hc, hck, m, buf, hm, henc, hsz⟩)
        have ego' := evalUpdate_go_split db tn _ _ tail idsPre s1 [] s' ([] ++ logs) ego
        -- the abstraction after the rewritten prefix
        have hlen : sel.length = (live t).length := by
          rw [hsl, ← List.length_map (f := fun r : Nat × List Val => r.1), rowsOf_keys schema (live t) hdec,
            List.length_map]
        have htake : (selRows (rowsOf schema (live t)) sel).take idsPre.length = idsPre := by
          rw [hids]; exact List.take_left' rfl
        obtain ⟨hd', hrows⟩ := rows_rewriteFirst schema sets (setMap_valid sets hvalid) (live t) sel idsPre.length
          hdec hlen hkn (by rw [htake]; exact hpre)
        rw [htake, ← hl'] at hd' hrows
        have htabs' := h.tabs.setTable h.cat.tnames ht schema hsch t' hd'
          (fun rs => rewriteFirst schema sets idsPre.length (rs.zip sel))
          (by simp only [absTable]; exact hrows)
        have hrun : LiveRunM sch db.store tbls (updStmts tn sets idsPre) s' (setTable tbls tn t') logs :=
          .same hs1 hlive
        rw [hids]
        refine Eq.mpr (congrArg (ResEffect sch db tbls) ego') ?_
        rcases htail with rfl | ⟨rb, post, rfl, hbad⟩
        · show RowEffect sch db tbls { store := s', wal := db.wal ++ ([] ++ logs) }
          exact ⟨s', pt, _, _, logs, _, hrun, ⟨hc', htabs'⟩, ⟨hc', htabs'⟩, setTable_names tbls tn t', Nat.le_refl _,
            Nat.le_refl _, .inl (by simp)⟩
        · obtain ⟨c, hc, hck, m, hm, hr2⟩ := mem_rowsOf_cell (hmemsel rb (by simp))
          have hnotK : c.key ∉ idsPre.map (·.1) := by
            intro hk
            exact hdisj c.key hk rb.1 (by simp) hck
          have hcl' : c ∈ live t' := by
            rw [hl']
            refine List.mem_map.mpr ⟨c, hc, ?_⟩
            unfold updK
            have : (idsPre.map (·.1)).contains c.key = false := by simpa using hnotK
            simp only [this, Bool.false_eq_true, if_false]
          have hno' : specAssign schema sets (schema.map fun fd => get m fd.name) = none := by
            rw [← hr2]
            exact Classical.not_not.mp hbad
          obtain ⟨e, s2, he, _, hs2, hc2⟩ := update_refused_cat hc' tn t' (mem_setTable_self t' ht) schema hsch sets
            hcc c hcl' m hm hno'
          rw [hck] at he
          refine Eq.mpr (congrArg (ResEffect sch db tbls)
            (evalUpdate_go_first_err db tn _ _ rb post s' s2 _ e he)) ?_
          exact ⟨s', pt, _, _, logs, _, hrun, ⟨hc', htabs'⟩, ⟨hc2, htabs'⟩, setTable_names tbls tn t',
            by rw [hs2.2]; exact Nat.le_refl _, by rw [hs2.2]; exact Nat.le_refl _, .inr rfl⟩
    · obtain ⟨h1, h2⟩ := hsys hn
      obtain ⟨s', e, hs, _⟩ := fetchTable_unknown_table h.cat table h1 h2 hn
      simp only [Engine.fetchForExec, Engine.liftS, e]
      exact RowEffect.same h hs rfl

/-! ### DELETE -/

/-- **DELETE, whatever its outcome**: accepted by the plain model (all selected rows tombstoned) or
refused before a change. -/
theorem evalDelete_effect (db : Engine.DB) (pt sch : Levels) (tbls : List (Bytes × Levels))
    (sdb : Spec.SDB) (h : Abs db.store pt sch tbls sdb) (table : Bytes) (w : Option Sql.Cond)
    (hsys : table ∉ tbls.map (·.1) → table ≠ sysPages ∧ table ≠ sysSchema) :
    ResEffect sch db tbls (Engine.evalDelete db table w) := by
  cases hspec : Spec.specDelete sdb table w with
  | some sdb' =>
    obtain ⟨n, db', t', logs, stmts, e, hw, hlive, habs'⟩ := evalDelete_live db pt sch tbls sdb sdb' h table w hspec
    rw [e]
    exact ⟨db'.store, pt, _, _, logs, _, hlive, habs', habs', setTable_names tbls table t', Nat.le_refl _,
      Nat.le_refl _, .inl hw⟩
  | none =>
    obtain ⟨e, db', he, _, _, _, hw, hs, _⟩ := evalDelete_refused_spec db pt sch tbls sdb h table w
      (fun h0 => hsys (findTable_none_notin h.tabs h.cat.tnames h0)) hspec
    rw [he]
    exact RowEffect.same h hs hw

end Mkdb.Store
