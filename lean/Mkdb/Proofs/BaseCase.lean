import Mkdb.Proofs.BaseCase0
import Mkdb.Proofs.SpecHistory
/-!
# The base case: the invariants hold of the database `CREATE DATABASE` produces

`Store.createDB` is the model of `storage.CreateDB`; the session (`Session.exec … (.createDatabase n)`)
runs `createDB [] {}` and installs `{ store := reopen st, wal := [] }`.  `BaseCase0` computes that
store (`createDB_eq`: an explicit value `newStore`) and defines `newDB`, the database a fresh
`CREATE DATABASE` leaves.  Here every invariant of the refinement development is proved of `newDB` with
the catalog description `ptNew`, `schNew`, NO user tables and the EMPTY plain database: `Cat`, `Abs`,
`AbsV`, `NoStale`, `MemFiled`, `Rel`.  (`PtSelf`, `FreshM`, `Ckpt`: `BaseCase1`; the database after
`CREATE TABLE t (a INT)`: `BaseCase2`.)  Corollaries: `from_create_database_history`,
`create_table_on_newDB`.

`newDB` is NOT one of the hand-written stores of the examples (`emptyCatalog`, `st0`, `st1`): see the
comparison at the end of this file, `tableDB_vs_st1` in `BaseCase2`, and `BaseCase3`.
-/
set_option autoImplicit false
namespace Mkdb.Store
open Mkdb.Page Mkdb.Tuple Mkdb.Generated Mkdb.Tree

/-! ### the catalog invariant -/

/-- the levels tree of `sys_pages` in the new database: one clean leaf -/
def ptNew : Levels := ⟨[(ptLeafNew, false)], []⟩
/-- the levels tree of `sys_schema` in the new database: one clean leaf -/
def schNew : Levels := ⟨[(schLeafNew, false)], []⟩

/-- the page table of a new database names itself and `sys_schema` -/
theorem ptNew_entries : ptEntries ptNew = [(sysPages, 4096), (sysSchema, 8192)] := by decide +kernel

theorem ptNew_inv : Inv ptNew 12288 := by
  refine ⟨?_, ?_, ?_, ?_, ?_, ?_, ?_⟩
  · refine ⟨?_, ?_⟩
    · intro p hp; simp [ptNew] at hp; subst hp; simp [ptLeafNew, c_maxLeafNodeCells]
    · intro lvl hl; simp [ptNew] at hl
  · simp [KeysAsc, keys, cells, ptNew, ptLeafNew]
  · intro h2; simp [ptNew] at h2
  · simp [ChainOK, chainFrom, ptNew, ptLeafNew]
  · simp [LinkOK, linked, ptNew]
  · simp [SepsOK, sepsAll, ptNew]
  · simp [OffsOK, offs, flatten, ptNew, ptLeafNew]

theorem schNew_inv : Inv schNew 12288 := by
  refine ⟨?_, ?_, ?_, ?_, ?_, ?_, ?_⟩
  · refine ⟨?_, ?_⟩
    · intro p hp; simp [schNew] at hp; subst hp; simp [schLeafNew, c_maxLeafNodeCells]
    · intro lvl hl; simp [schNew] at hl
  · simp [KeysAsc, keys, cells, schNew, schLeafNew]
  · intro h2; simp [schNew] at h2
  · simp [ChainOK, chainFrom, schNew, schLeafNew]
  · simp [LinkOK, linked, schNew]
  · simp [SepsOK, sepsAll, schNew]
  · simp [OffsOK, offs, flatten, schNew, schLeafNew]

/-- **Base case of `Cat`.**  The database `CREATE DATABASE` leaves holds a catalog: the page table
`ptNew`, `sys_schema` `schNew`, no user tables. -/
theorem cat_newDB : Cat newDB.store ptNew schNew [] := by
  refine ⟨?_, ?_, rfl, ?_, ?_, ?_, ?_, ?_, ?_, ?_, ?_⟩
  · intro x hx
    simp only [catTrees, List.map_nil, List.mem_cons, List.not_mem_nil, or_false] at hx
    rcases hx with rfl | rfl
    · refine ⟨?_, ptNew_inv, by decide, by decide, ?_⟩
      · intro e he; simp [flatten, ptNew] at he; subst he; rfl
      · intro a ha; simp [keys, cells, ptNew, ptLeafNew] at ha; rcases ha with rfl | rfl <;> decide
    · refine ⟨?_, schNew_inv, by decide, by decide, ?_⟩
      · intro e he; simp [flatten, schNew] at he; subst he; rfl
      · intro a ha; simp [keys, cells, schNew, schLeafNew] at ha
        rcases ha with rfl | rfl | rfl | rfl | rfl | rfl <;> decide
  · simp [catTrees, offs, flatten, ptNew, schNew, ptLeafNew, schLeafNew]
  · decide +kernel
  · rw [ptNew_entries]; decide +kernel
  · rw [ptNew_entries]; exact List.mem_cons_of_mem _ List.mem_cons_self
  · intro e he; cases he
  · intro e he; rw [ptNew_entries] at he; simp at he
    rcases he with rfl | rfl <;> simp
  · exact List.nodup_nil
  · exact ⟨List.not_mem_nil, List.not_mem_nil⟩
  · intro e he; cases he

/-! ### `sys_schema` describes the two catalog tables, and nothing else -/

/-- the six rows of `sys_schema` of a new database, decoded -/
def schRowsNew : List Vals :=
  [[("field_length", .int 255), ("field_type", .int 1), ("field_name", .str [116, 97, 98, 108, 101, 95, 110, 97, 109, 101]),
    ("table_name", .str [115, 121, 115, 95, 112, 97, 103, 101, 115])],
   [("field_length", .int 0), ("field_type", .int 3),
    ("field_name", .str [102, 105, 108, 101, 95, 111, 102, 102, 115, 101, 116]),
    ("table_name", .str [115, 121, 115, 95, 112, 97, 103, 101, 115])],
   [("field_length", .int 255), ("field_type", .int 1), ("field_name", .str [116, 97, 98, 108, 101, 95, 110, 97, 109, 101]),
    ("table_name", .str [115, 121, 115, 95, 115, 99, 104, 101, 109, 97])],
   [("field_length", .int 255), ("field_type", .int 1), ("field_name", .str [102, 105, 101, 108, 100, 95, 110, 97, 109, 101]),
    ("table_name", .str [115, 121, 115, 95, 115, 99, 104, 101, 109, 97])],
   [("field_length", .int 0), ("field_type", .int 0), ("field_name", .str [102, 105, 101, 108, 100, 95, 116, 121, 112, 101]),
    ("table_name", .str [115, 121, 115, 95, 115, 99, 104, 101, 109, 97])],
   [("field_length", .int 255), ("field_type", .int 0),
    ("field_name", .str [102, 105, 101, 108, 100, 95, 108, 101, 110, 103, 116, 104]),
    ("table_name", .str [115, 121, 115, 95, 115, 99, 104, 101, 109, 97])]]

theorem schNew_rows :
    mapO (fun c : LeafCell => decRow schemaTableSchema c.val) (live schNew) = some schRowsNew := by decide +kernel

/-- every row of `sys_schema` of a new database belongs to `sys_pages` or to `sys_schema` -/
theorem schRowsNew_names : ∀ m ∈ schRowsNew,
    get m "table_name" = .str sysPages ∨ get m "table_name" = .str sysSchema := by decide +kernel

/-- the catalog of a new database describes itself: the columns `sys_schema` lists for `sys_pages` and
for `sys_schema` are the schemas `getRelationFileOffset` / `getRelationSchema` decode them with -/
theorem schNew_describes_catalog :
    schemaOf schNew sysPages = some pageTableSchema ∧ schemaOf schNew sysSchema = some schemaTableSchema := by
  decide +kernel

/-- **Base case of `NoStale`.**  `sys_schema` of a new database has no rows for any other name. -/
theorem noStale_new : NoStale schNew [] := by
  intro n _ h1 h2
  unfold schemaOf
  rw [schNew_rows]
  have hf : (schRowsNew.filter fun m => get m "table_name" == Val.str n) = [] := by
    rw [List.filter_eq_nil_iff]
    intro m hm
    rcases schRowsNew_names m hm with h | h
    · rw [h, val_str_beq]
      simp only [decide_eq_true_eq]
      exact fun e => h1 e.symm
    · rw [h, val_str_beq]
      simp only [decide_eq_true_eq]
      exact fun e => h2 e.symm
  simp only [hf]
  rfl

/-! ### the abstraction: the empty plain database -/

/-- **Base case of `Abs`.**  The database `CREATE DATABASE` leaves abstracts to the EMPTY plain
database. -/
theorem abs_newDB : Abs newDB.store ptNew schNew [] [] := ⟨cat_newDB, .nil⟩

/-- **Base case of `AbsV`.** -/
theorem absV_newDB : AbsV newDB.store ptNew schNew [] [] := abs_newDB.toV

/-- **Base case of `MemFiled`**: the re-opened store has an empty cache -/
theorem memFiled_newDB : MemFiled newDB.store := by
  intro p hp
  cases hp

/-- the store `CreateDB` itself leaves (before it is re-opened) is filed, too -/
theorem memFiled_newStore : MemFiled newStore := by
  intro p hp
  simp only [newStore, List.mem_cons, List.not_mem_nil, or_false] at hp
  rcases hp with rfl | rfl <;> rfl

/-- **Base case of `Rel`**, the relation every statement preserves. -/
theorem rel_newDB : Rel newDB ptNew schNew [] [] := ⟨absV_newDB, noStale_new, memFiled_newDB⟩

/-! ### corollaries: histories from `CREATE DATABASE` -/

/-- **Every history of statements from a fresh `CREATE DATABASE`.**  From the database `CREATE DATABASE`
leaves and the empty plain database, through any list of statements each of which the plain model
accepts (with room) or refuses before a change, the engine model never crashes and ends related to
the plain database the history implies.  (`runHist_refines_spec` with its hypothesis `Rel` discharged:
the starting point is the output of `createDB`, not a store written by hand.) -/
theorem from_create_database_history (sts : List Sql.Stmt) (hok : HistOK [] sts newDB []) :
    ∃ db' pt' sch' tbls', runHist [] newDB sts = some db' ∧ Rel db' pt' sch' tbls' (specHist [] sts) :=
  runHist_refines_spec [] sts newDB ptNew schNew [] [] rel_newDB hok

/-- … for any page write order of the flushes of CREATE TABLE -/
theorem from_create_database_history_order (order : List Nat) (sts : List Sql.Stmt)
    (hok : HistOK order sts newDB []) :
    ∃ db' pt' sch' tbls', runHist order newDB sts = some db' ∧ Rel db' pt' sch' tbls' (specHist [] sts) :=
  runHist_refines_spec order sts newDB ptNew schNew [] [] rel_newDB hok

/-- `a INT` -/
def acols : List Sql.ColDef := [⟨[97], .int⟩]

theorem acheck : checkCatalogRows (acols.map Engine.colTypeToField) tname = none := by decide +kernel

/-- the plain model accepts `CREATE TABLE t (a INT)` on the empty database -/
theorem spec_create_t : Spec.specStmt [] (.createTable tname acols) = some [⟨tname, [⟨"a", .int, 0⟩], []⟩] := by
  have h1 : (tname == "sys_pages".toUTF8.toList) = false := by decide +kernel
  have h2 : (tname == "sys_schema".toUTF8.toList) = false := by decide +kernel
  have h0 : (Spec.findTable [] tname).isSome = false := rfl
  simp only [Spec.specStmt, Spec.specCreate, h0, h1, h2, Bool.or_self, Bool.false_eq_true, if_false]
  rfl

/-- the side conditions of `CREATE TABLE t (a INT)` hold on the new database -/
theorem room_create_t : StmtRoom newDB ptNew schNew [] (.createTable tname acols) := by
  refine ⟨?_, acheck, by decide, by decide, by decide, by decide, by decide⟩
  intro c hc k hk
  simp only [acols, List.mem_singleton] at hc
  subst hc
  cases hk

/-- **A first step (non-vacuity).**  `CREATE TABLE t (a INT)` on the database `CREATE DATABASE` leaves
is accepted by the plain model and by the engine model, and the relation holds afterwards with the
plain database that has the one empty table `t (a INT)`. -/
theorem create_table_on_newDB :
    Spec.specStmt [] (.createTable tname acols) = some [⟨tname, [⟨"a", .int, 0⟩], []⟩] ∧
    ∃ db' pt' sch' tbls', evalStmt newDB [] (.createTable tname acols) = .ok () db' ∧
      Rel db' pt' sch' tbls' [⟨tname, [⟨"a", .int, 0⟩], []⟩] :=
  ⟨spec_create_t, evalStmt_refines_spec newDB [] ptNew schNew [] [] _ rel_newDB (.createTable tname acols)
    room_create_t spec_create_t⟩

/-! ### comparison with the hand-written stores of the examples

None of the stores the examples of the development are about is the store `CREATE DATABASE` produces:

* `emptyCatalog` (`Unchanged4`; C14): one EMPTY leaf at 4096 as the page table, `nextFree = 8192`, no
  `sys_schema` page, no catalog rows, counters 0.  It satisfies `Filed` but not `Cat`
  (`emptyCatalog_not_cat` in `BaseCase3`, where the examples are repeated on the real store).
* `st0` (`RefineStmt`), `st1` (`SpecRefine`; `dbA`, `rel1`, `rounds_example`, …): databases WITH the
  user table `t`, so they are to be compared with `tableDB` (`BaseCase2`), the database
  `CREATE DATABASE ; CREATE TABLE t (a INT)` leaves.  Their page table has the same entries and, in
  `st1`, the same `sys_schema` row for `t.a`; but `sys_schema` lacks the six rows that describe the
  catalog tables themselves (below), the row ids are 1-4 instead of 1-10, every page LSN is 0 and the
  counter 7 instead of 8 / 9 and 10, and nothing is in the data file (all pages dirty in the cache).
  `Cat`, `Abs`, `Rel`, `PtSelf`, `FreshM` do not see these differences, which is why the examples go
  through; but they are not states of a database the model creates.
-/

theorem newDB_ne_st0_st1 : newDB.store ≠ st0 ∧ newDB.store ≠ st1 := by
  constructor <;> intro h <;> have := congrArg (fun s => s.hdr.nextFree) h <;> revert this <;> decide

/-- the hand-written `sys_schema` trees list no columns for the catalog tables, the real one does
(`schNew_describes_catalog`) -/
theorem handwritten_sch_omits_catalog :
    schemaOf sch0 sysPages = some [] ∧ schemaOf sch0 sysSchema = some [] ∧
    schemaOf sch1 sysPages = some [] ∧ schemaOf sch1 sysSchema = some [] := by decide +kernel

end Mkdb.Store
