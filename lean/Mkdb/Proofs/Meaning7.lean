import Mkdb.Proofs.Meaning6
/-!
`evaluateSelect` against `Spec.meaning` / `Spec.satisfies`, part 7: helpers for the aggregate /
GROUP BY SELECT (C07): the projection part of the pipeline, the hypothesis on `AVG` as a test.
-/
namespace Mkdb.Exec.MeaningP
open Mkdb.Sql Mkdb.Tuple Mkdb.Spec Mkdb.Exec.SelectP Mkdb.Exec.AggP

theorem AvgConst.sublist {sl : List DerivedCol} {fields : List Field} {key : Row → List Val}
    {src src' : List Row} (h : AvgConst sl fields key src) (hs : ∀ r ∈ src', r ∈ src) :
    AvgConst sl fields key src' :=
  fun d hd c hc r hr r' hr' hk => h d hd c hc r (hs r hr) r' (hs r' hr') hk

theorem specWhere_subset {w : Option Cond} {fields : List Field} {src out : List Row}
    (h : specWhere w fields src = some out) : ∀ r ∈ out, r ∈ src := by
  rw [specWhere_eq_filter h]
  exact fun r hr => (List.mem_filter.1 hr).1

/-- the test that sends a query to the grouping part of the executor and of the meaning -/
def groups (q : Select) : Bool := hasAggr q.list || !q.groupBy.isEmpty

theorem groups_iff (q : Select) : groups q = true ↔ (!hasAggr q.list && q.groupBy.isEmpty) = false := by
  unfold groups
  cases hasAggr q.list <;> cases q.groupBy.isEmpty <;> simp

theorem comparedExactly_groups {q : Select} (hg : groups q = true) : comparedExactly q = false := by
  have := (groups_iff q).1 hg
  unfold comparedExactly
  rw [any_isAgg_eq_hasAggr, Bool.and_assoc, this, Bool.and_false]

/-- the projection part of the pipeline, for a select list that does not start with `*` -/
theorem projectColumns_projects {sl : List DerivedCol} {fields : List Field} {rows p : List Row}
    {hdr : List Field} (hs : isStar sl = false) (h : projectColumns sl fields rows = .ok (p, hdr)) :
    ColumnsResolve sl fields ∧ p = rows.map (projRow sl fields) ∧ Projects sl fields rows := by
  obtain ⟨_, hres, hp, _⟩ := (projectColumns_nostar_iff hs).1 h
  obtain ⟨h1, h2⟩ := projects_of_mapM (projectRows_iff_spec.1 hp)
  exact ⟨hres, h1, h2⟩

theorem projectColumns_of_projects {sl : List DerivedCol} {fields : List Field} {rows : List Row}
    (hne : sl ≠ []) (hs : isStar sl = false) (hres : ColumnsResolve sl fields)
    (hproj : Projects sl fields rows) :
    ∃ hdr, projectColumns sl fields rows = .ok (rows.map (projRow sl fields), hdr) := by
  obtain ⟨hdr, hh⟩ := headers_ok hres
  exact ⟨hdr, (projectColumns_nostar_iff hs).2
    ⟨hne, hres, projectRows_iff_spec.2 (mapM_of_projects hproj), hh⟩⟩

/-! ### the hypothesis on `AVG`, as a decidable test -/

/-- `AvgConst` as a test -/
def avgConstB (sl : List DerivedCol) (fields : List Field) (key : Row → List Val) (src : List Row) : Bool :=
  sl.all fun d => match d.item with
    | .avg _ => src.all fun r => src.all fun r' =>
        !(key (projRow sl fields r) == key (projRow sl fields r')) || pv fields d r == pv fields d r'
    | _ => true

theorem avgConst_of_avgConstB {sl : List DerivedCol} {fields : List Field} {key : Row → List Val}
    {src : List Row} (h : avgConstB sl fields key src = true) : AvgConst sl fields key src := by
  intro d hd c hc r hr r' hr' hk
  unfold avgConstB at h
  rw [List.all_eq_true] at h
  have := h d hd
  rw [hc] at this
  simp only [List.all_eq_true, Bool.or_eq_true, Bool.not_eq_true', beq_eq_false_iff_ne, ne_eq,
    beq_iff_eq] at this
  rcases this r hr r' hr' with h1 | h1
  · exact absurd hk h1
  · exact h1

/-- in every group of the query - the rows of the FROM clause with equal values at the GROUP BY
positions - the values an `AVG` of the select list averages are all equal (true of every query
without `AVG`): the case `C07_avg_partial` in which the code's cumulative average is the mean -/
def avgGroupsConstant (fetch : Bytes → Option Table) (q : Select) : Bool :=
  match q.from_ with
  | none => true
  | some tr =>
    match Spec.fromRows fetch tr with
    | none => true
    | some (src, fields) =>
      match q.groupBy.mapM (groupIdx q.list) with
      | none => true
      | some idxs => avgConstB q.list fields (keyAt idxs) src

theorem avgConst_of_avgGroupsConstant {fetch : Bytes → Option Table} {q : Select} {tr : TableRef}
    (hfrom : q.from_ = some tr) (h : avgGroupsConstant fetch q = true) :
    ∀ src fields idxs, Spec.fromRows fetch tr = some (src, fields) →
      q.groupBy.mapM (groupIdx q.list) = some idxs → AvgConst q.list fields (keyAt idxs) src := by
  intro src fields idxs hfr hgi
  unfold avgGroupsConstant at h
  simp only [hfrom, hfr, hgi] at h
  exact avgConst_of_avgConstB h

theorem avgConstB_of_noAvg {sl : List DerivedCol} (h : noAvg sl = true) (fields : List Field)
    (key : Row → List Val) (src : List Row) : avgConstB sl fields key src = true := by
  unfold avgConstB
  rw [List.all_eq_true]
  intro d hd
  have := noAvg_item h hd
  cases hi : d.item with
  | avg c => exact absurd hi (this c)
  | star => rfl
  | count c => rfl
  | expr e => rfl

theorem avgGroupsConstant_of_noAvg (fetch : Bytes → Option Table) {q : Select}
    (h : noAvg q.list = true) : avgGroupsConstant fetch q = true := by
  unfold avgGroupsConstant
  split
  · rfl
  · split
    · rfl
    · split
      · rfl
      · exact avgConstB_of_noAvg h _ _ _

/-- the rows of a table are as long as its header, when the tables are well shaped -/
theorem table_rows_length {fetch : Bytes → Option Table} (hws : NoPanicP.WellShaped fetch)
    {t : TableName} {src : List Row} {fields : List Field}
    (h : Spec.fromRows fetch (.table t) = some (src, fields)) :
    ∀ r ∈ src, r.length = fields.length := by
  rw [fromRows_table] at h
  unfold Spec.fieldsOf at h
  split at h
  · cases h
  · rename_i tbl htbl
    simp only [Option.some.injEq, Prod.mk.injEq] at h
    obtain ⟨rfl, rfl⟩ := h
    intro r hr
    rw [List.length_map]
    exact hws _ _ htbl r hr

end Mkdb.Exec.MeaningP
