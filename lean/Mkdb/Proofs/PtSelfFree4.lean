import Mkdb.Proofs.PtSelfFree3
/-!
The page table's row about itself, part 4 (W10): **the witness - a database whose page table has split.**

`CREATE DATABASE`; `CREATE TABLE t1 (a INT)` … `CREATE TABLE t8 (a INT)` - run by the model (`db8`, a closed
term evaluated by the kernel).  With the seventh table the page table's root leaf splits: the header's
`ptRoot` moves from 4096 to 53248, the row `(sys_pages, 4096)` stays (`db8_stale`): the old `PtSelf`
(`PtSelfRoot`) is FALSE of this database, the new one is true, and `Ckpt` holds (`eight_tables`).

Then `INSERT INTO t1 VALUES (1), …, (9)`: the ninth row splits the root leaf of `t1` (page 12288), the
root moves, and the statement logs the re-pointing of the catalog row of `t1` - an UPDATE record for page
4096, the very page the stale self-row names and lives on (`db9_log`).  Crash; the whole log is replayed
on the store before the statement (`crash_recovery_ckpt`) and by start-up recovery (`Engine.recover`):
both succeed, and the recovered store abstracts to the plain database with the nine rows
(`split_page_table_crash`).  Replay re-points the row whose offset is the old root 12288: the row of
`t1`, not the self-row - which is what `entry_of_root` needs `PtSelf` for.
-/
set_option autoImplicit false
namespace Mkdb.Store
open Mkdb.Page Mkdb.Tuple Mkdb.Generated Mkdb.Tree Mkdb.Engine

/-- `t1`, …, `t8` -/
def names8 : List Bytes := [[116, 49], [116, 50], [116, 51], [116, 52], [116, 53], [116, 54], [116, 55], [116, 56]]

theorem names8_ok : createsOK [] names8 = true := by decide +kernel

/-- the database after `CREATE DATABASE; CREATE TABLE t1 (a INT); …; CREATE TABLE t8 (a INT)` -/
def db8 : Engine.DB := (runCreates newDB names8).getD newDB

/-- the plain database: eight empty tables -/
def sdb8 : Spec.SDB := sdbOf names8

/-- **Eight CREATE TABLEs from CREATE DATABASE**: all accepted; the database is reached by a history
`HistCT` and is checkpointed (`Grown` contains `Ckpt`, hence `PtSelf` and `FreshM`). -/
theorem eight_tables : ∃ sch8 pt8 tbls8, runCreates newDB names8 = some db8 ∧
    HistCT schNew newDB [] sch8 db8 sdb8 ∧ Grown sch8 db8 sdb8 pt8 tbls8 8 := by
  obtain ⟨db', sch', pt', tbls', e, hist, hg⟩ := create_many names8 .nil grown_newDB (by decide) names8_ok
  have hdb : db8 = db' := by unfold db8; rw [e]; rfl
  rw [hdb]
  exact ⟨sch', pt', tbls', e, hist, hg⟩

/-- the header's catalog root after the eight CREATE TABLEs (kernel evaluation of the model): the page
table's root is no longer its first page -/
theorem db8_ptRoot : db8.store.hdr.ptRoot = 53248 := by decide +kernel

theorem db8_nextFree : db8.store.hdr.nextFree = 65536 := by decide +kernel

/-- **The self-row is stale**: the page table of `db8` - whatever tree describes it - has the entry
`(sys_pages, 4096)`, its root is page 53248, and it has internal nodes.  The reading of `PtSelf` before W10
is false of it; the present one is true. -/
theorem db8_stale {sch8 pt8 : Levels} {tbls8 : List (Bytes × Levels)} (hg : Grown sch8 db8 sdb8 pt8 tbls8 8) :
    (sysPages, 4096) ∈ ptEntries pt8 ∧ rootOff pt8 = 53248 ∧ ¬ PtSelfRoot pt8 ∧ PtSelf pt8 := by
  obtain ⟨_, habs, _⟩ := hg.ck.abs
  have hroot : rootOff pt8 = 53248 := by rw [habs.cat.root, db8_ptRoot]
  refine ⟨hg.self, hroot, ?_, hg.ck.self⟩
  intro h
  have := h 4096 hg.self
  rw [hroot] at this
  exact absurd this (by decide)

/-! ### the statement that moves a root -/

def rows9 : List (List Val) :=
  [[.int 1], [.int 2], [.int 3], [.int 4], [.int 5], [.int 6], [.int 7], [.int 8], [.int 9]]

/-- the plain database after `INSERT INTO t1 VALUES (1), …, (9)` -/
def sdb9 : Spec.SDB :=
  ⟨[116, 49], acols.map Spec.colField, rows9.map fun r => ⟨none, r⟩⟩ :: sdbOf (names8.drop 1)

theorem spec9 : Spec.specInsert sdb8 [116, 49] [] rows9 = some sdb9 := rfl

theorem valid9 : ∀ r ∈ rows9, ∀ v ∈ r, ValidVal v := by
  intro r hr v hv
  simp only [rows9, List.mem_cons, List.not_mem_nil, or_false] at hr
  rcases hr with rfl | rfl | rfl | rfl | rfl | rfl | rfl | rfl | rfl <;>
    (simp only [List.mem_singleton] at hv; subst hv; exact ⟨by decide, by decide⟩)

/-- the database after the INSERT (closed term) -/
def db9 : Engine.DB :=
  match Engine.evalInsert db8 [116, 49] [] rows9 with
  | .ok _ d => d
  | _ => db8

/-- the log of the INSERT (kernel evaluation): nine INSERT records for page 12288, the root leaf of `t1`,
then - the ninth row split that leaf and the root moved - the UPDATE record of the re-pointed catalog row,
for page 4096: the first page of the page table, which the stale self-row names -/
theorem db9_log : db9.wal.map (fun r => (r.op, r.page)) =
    [(c_OpInsert, 12288), (c_OpInsert, 12288), (c_OpInsert, 12288), (c_OpInsert, 12288), (c_OpInsert, 12288),
     (c_OpInsert, 12288), (c_OpInsert, 12288), (c_OpInsert, 12288), (c_OpInsert, 12288), (c_OpUpdate, 4096)] := by
  decide +kernel

/-- **The crash theorems reach the database whose page table has split.**  From `db8` (eight tables,
stale self-row) the INSERT of nine rows into `t1` is a `SpecRun`; its log replayed on the store before it
(the crash with nothing flushed) gives a store that abstracts to the plain database with the nine rows,
with the live allocation frontier, row-id counter and catalog root; start-up recovery succeeds, keeps
the log, and leaves a checkpointed database for that plain database. -/
theorem split_page_table_crash : ∃ sch8 pt8 tbls8,
    runCreates newDB names8 = some db8 ∧ Ckpt sch8 db8 sdb8 pt8 tbls8 ∧ ¬ PtSelfRoot pt8 ∧
    SpecRun sch8 db8 sdb8 [.insert [116, 49] [] rows9] db9 sdb9 ∧
    (∃ ptN tblsN rN, replayAll db9.wal db8.store = (rN, none, false) ∧
      AbsV db9.store ptN sch8 tblsN sdb9 ∧ AbsV rN ptN sch8 tblsN sdb9 ∧
      rN.hdr.nextFree = db9.store.hdr.nextFree ∧ rN.hdr.lastKey = db9.store.hdr.lastKey ∧
      rN.hdr.ptRoot = db9.store.hdr.ptRoot) ∧
    (∃ dbR ptR tblsR, Engine.recover db9 [] [] = .ok dbR ∧ dbR.wal = db9.wal ∧
      Ckpt sch8 dbR sdb9 ptR tblsR) := by
  obtain ⟨sch8, pt8, tbls8, erun, _, hg⟩ := eight_tables
  obtain ⟨sdb0, habs, hv⟩ := hg.ck.abs
  -- the table `t1` and its schema
  have hnames : tbls8.map (·.1) = names8 := by
    rw [← habs.tabs.names]
    have h1 : (valsOf sdb0).map (·.1) = (valsOf sdb8).map (·.1) := by rw [hv]
    simp only [valsOf, List.map_map] at h1
    rw [show sdb0.map (·.name) = sdb0.map ((fun x : Bytes × List FieldDef × List (List Val) => x.1) ∘
      fun t => (t.name, t.cols, t.rows.map (·.vals))) from rfl, h1]
    decide
  have hm1 : ([116, 49] : Bytes) ∈ tbls8.map (·.1) := by rw [hnames]; decide
  obtain ⟨⟨n1, t1⟩, hmem, hn1⟩ := List.mem_map.mp hm1
  simp only at hn1
  subst hn1
  obtain ⟨schema, hschema, _, _⟩ := habs.tabs.find habs.cat.tnames hmem
  -- room
  have hroom : ∀ t schema', (([116, 49] : Bytes), t) ∈ tbls8 →
      InsRunOK schema' (([] : List Bytes).map Engine.bytesToName) t db8.store.hdr.lastKey db8.store.hdr.nextLSN
        db8.store.hdr.nextFree rows9 := by
    intro t schema' ht
    obtain ⟨l1, l2⟩ := hg.leaf _ ht
    have h64 := treeFuel_eq
    have hsf : scanFuel = 100000 := rfl
    have h9 : rows9.length = 9 := rfl
    simp only at l1 l2
    exact insRunOK_of_room schema' _ rows9 t _ _ _ (by rw [l1, h9, h64]; decide) (by rw [l2, h9, hsf]; decide)
      (by rw [h9, db8_nextFree]; decide)
  obtain ⟨db', _, _, _, e1, _⟩ := evalInsert_refines_specV db8 pt8 sch8 tbls8 sdb8 sdb9 hg.ck.abs [116, 49] t1 hmem
    schema hschema [] rows9 valid9 spec9 (hroom t1 schema hmem)
  have hdb : db9 = db' := by unfold db9; rw [e1]
  rw [← hdb] at e1
  have run : SpecRun sch8 db8 sdb8 [.insert [116, 49] [] rows9] db9 sdb9 :=
    .insert [116, 49] [] rows9 valid9 spec9
      (by
        intro pt tbls t schema' hA ht _
        obtain ⟨_, habs', _⟩ := hA
        exact hroom t schema' (habs'.cat.tbls_sub habs.cat _ ht))
      e1 (.nil db9 sdb9)
  refine ⟨sch8, pt8, tbls8, erun, hg.ck, (db8_stale hg).2.2.1, run, ?_, ?_⟩
  · obtain ⟨ptN, tblsN, rN, e, a1, a2, _, a3, a4, a5, _⟩ := crash_recovery_ckpt sch8 run pt8 tbls8 hg.ck.abs
      hg.ck.self hg.ck.fresh hg.ck.applied (fun r hr => Nat.le_of_lt (hg.ck.lsn r hr)) hg.ck.keys
    exact ⟨ptN, tblsN, rN, e, a1, a2, a3, a4, a5⟩
  · exact hg.ck.recover_round run [] []

end Mkdb.Store
