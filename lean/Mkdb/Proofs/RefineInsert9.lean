import Mkdb.Proofs.RefineInsert8
/-!
Refinement of the heap insert by the levels insert, part 9: the refusals, level by level.
`errAll`: if the call on every node of a row ends in the error, so does the call on every node of
every row above (used for `rowTooLarge`, where the key is nowhere in the tree).  `errRoute`: the
same along the search path of a key (used for `keyExists`).
-/
set_option autoImplicit false
namespace Mkdb.Store
open Mkdb.Page Mkdb.Generated Mkdb.Tree

theorem children_mem_childOffs {lvl : List (Internal × Bool)} {p : Internal × Bool} (hp : p ∈ lvl) {o : Nat}
    (ho : o ∈ p.1.cells.map (·.child) ++ [p.1.right]) : o ∈ childOffs lvl :=
  List.mem_flatMap.mpr ⟨p, hp, ho⟩

theorem errAll (e : SErr) (s : Store) (key lsn : Nat) (value : Bytes) :
    ∀ (lvls : List (List (Internal × Bool))) (below : List Nat) (k : Nat), linked below lvls →
    (∀ lvl ∈ lvls, ∀ p ∈ lvl, view s p.1.off = some (.internal p.1, p.2) ∧ ∀ c ∈ p.1.cells, c.key ≠ key) →
    (∀ off ∈ below, ∃ n d, view s off = some (n, d) ∧ nodeOff n = off ∧ ErrAt e s key lsn value k n) →
    ∀ off ∈ topRow below lvls, ∃ n d, view s off = some (n, d) ∧ nodeOff n = off ∧
      ErrAt e s key lsn value (k + lvls.length) n := by
  intro lvls
  induction lvls with
  | nil => intro below k _ _ hrow off ho; exact hrow off ho
  | cons lvl rest ih =>
    intro below k hl hint hrow off ho
    have hlen : k + 1 + rest.length = k + (lvl :: rest).length := by
      simp only [List.length_cons]; omega
    rw [← hlen]
    refine ih (lvl.map (·.1.off)) (k + 1) hl.2 (fun l hl' => hint l (List.mem_cons_of_mem _ hl')) ?_ off ho
    intro o hom
    obtain ⟨p, hp, rfl⟩ := List.mem_map.mp hom
    obtain ⟨hvp, hkeys⟩ := hint lvl (List.mem_cons_self) p hp
    refine ⟨.internal p.1, p.2, hvp, rfl, ?_⟩
    apply errAt_internal
    · intro hf
      exfalso
      obtain ⟨c, hc, hck⟩ := List.mem_map.mp (findPos_found_mem _ _ hf)
      exact hkeys c hc hck
    · intro _
      apply hrow
      rw [← hl.1]
      exact children_mem_childOffs hp (childOf_mem p.1 key)

theorem errRoute (s : Store) (key lsn : Nat) (value : Bytes) :
    ∀ (lvls : List (List (Internal × Bool))) (below los : List Nat) (i k : Nat), linked below lvls →
    sepsAll los lvls → los.length = below.length → los.Pairwise (· < ·) → i < los.length →
    (∀ lo, los[i]? = some lo → lo ≤ key) → (∀ hi, los[i+1]? = some hi → key < hi) →
    (∀ lvl ∈ lvls, ∀ p ∈ lvl, view s p.1.off = some (.internal p.1, p.2)) →
    (∃ off n d, below[i]? = some off ∧ view s off = some (n, d) ∧ nodeOff n = off ∧
      ErrAt .keyExists s key lsn value k n) →
    ∃ off n d, off ∈ topRow below lvls ∧ view s off = some (n, d) ∧ nodeOff n = off ∧
      ErrAt .keyExists s key lsn value (k + lvls.length) n := by
  intro lvls
  induction lvls with
  | nil =>
    intro below los i k _ _ _ _ _ _ _ _ hrow
    obtain ⟨off, n, d, hb, h⟩ := hrow
    exact ⟨off, n, d, List.mem_of_getElem? hb, h⟩
  | cons lvl rest ih =>
    intro below los i k hl hs hlen hpw hi hlo hhi hint hrow
    obtain ⟨off, n, d, hb, hvn, hoff, herr⟩ := hrow
    obtain ⟨a, ha, e1, e2, e3⟩ := Lookup.level_route key lvl los i hs.1 hpw hi hlo hhi
    rw [hl.1, hb] at e1
    simp only [Option.some.injEq] at e1
    have hlen' : k + 1 + rest.length = k + (lvl :: rest).length := by
      simp only [List.length_cons]; omega
    rw [← hlen']
    refine ih (lvl.map (·.1.off)) (levelLos los lvl) a (k + 1) hl.2 hs.2
      (by rw [Lookup.levelLos_length, List.length_map])
      (hpw.sublist (Lookup.levelLos_sublist lvl los hs.1))
      (by rw [Lookup.levelLos_length]; exact ha) e2 e3
      (fun l hl' => hint l (List.mem_cons_of_mem _ hl')) ?_
    refine ⟨lvl[a].1.off, .internal lvl[a].1, lvl[a].2, by simp [ha],
      hint lvl (List.mem_cons_self) _ (List.getElem_mem ha), rfl, ?_⟩
    apply errAt_internal
    · intro _; rfl
    · intro hf
      rw [childOf_route _ _ hf, ← e1]
      exact ⟨n, d, hvn, hoff, herr⟩

end Mkdb.Store
