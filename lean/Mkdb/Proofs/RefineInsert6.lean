import Mkdb.Proofs.RefineInsert5
/-!
Refinement of the heap insert by the levels insert, part 6: the leaf level (`insertLeaf` against
the first step of `insertAppend`).
-/
set_option autoImplicit false
namespace Mkdb.Store
open Mkdb.Page Mkdb.Generated Mkdb.Tree

/-- what `insertAppend_inv_cases` says about a successful `insertAppend` -/
def AppCases (t t' : Levels) (k lsn nf nf' : Nat) (v : Bytes) (pre : List (Leaf × Bool)) (last : Leaf) : Prop :=
  ((leafApp last k lsn v).cells.length < c_maxLeafNodeCells ∧
      t' = { t with leaves := pre ++ [(leafApp last k lsn v, true)] } ∧ nf' = nf) ∨
  (¬ (leafApp last k lsn v).cells.length < c_maxLeafNodeCells ∧
      t' = { leaves := pre ++ [(leafL (leafApp last k lsn v) nf, true),
                                (leafR (leafApp last k lsn v) lsn nf, true)],
             inner := (bubble lsn t.inner
                (((leafR (leafApp last k lsn v) lsn nf).cells.head?.map (·.key)).getD 0)
                last.off nf (nf + c_pageSize)).1 } ∧
      nf' = (bubble lsn t.inner
                (((leafR (leafApp last k lsn v) lsn nf).cells.head?.map (·.key)).getD 0)
                last.off nf (nf + c_pageSize)).2)

theorem leaf_keys_lt {t : Levels} {lpre : List (Leaf × Bool)} {last : Leaf} {d : Bool}
    (hpre : t.leaves = lpre ++ [(last, d)]) {key : Nat} (hk : ∀ a ∈ keys t, a < key) :
    ∀ x ∈ keysOfLeaf last, x < key := by
  intro x hx
  apply hk
  rw [keys_snoc hpre]
  exact List.mem_append_right _ hx

/-- the last leaf of a tree with a well-formed leaf chain has no right sibling -/
theorem chainFrom_last_hasR : ∀ (ls : List Leaf) (prev : Option Nat) (last : Leaf),
    chainFrom prev (ls ++ [last]) → last.hasR = false
  | [], _, _, h => h.2.1
  | [_], _, last, h => chainFrom_last_hasR [] _ last h.2.2
  | _ :: b :: ls, _, last, h => chainFrom_last_hasR (b :: ls) _ last h.2.2

theorem last_hasR_of_chain {t : Levels} {lpre : List (Leaf × Bool)} {last : Leaf} {d : Bool}
    (hch : ChainOK t) (hpre : t.leaves = lpre ++ [(last, d)]) : last.hasR = false := by
  unfold ChainOK at hch
  rw [hpre, List.map_append] at hch
  exact chainFrom_last_hasR _ _ _ hch

/-- the leaf level below an internal node -/
theorem leafSome (v0 : View) (t t' : Levels) (key lsn nf' : Nat) (value : Bytes) (s : Store) (root : Nat)
    (hinv : Inv t s.hdr.nextFree) (hrep : Rep (view s) s.hdr.nextFree v0 t)
    (lpre : List (Leaf × Bool)) (last : Leaf) (d : Bool) (hpre : t.leaves = lpre ++ [(last, d)])
    (hk : ∀ a ∈ keys t, a < key) (hv : value.length ≤ c_maxValueSize)
    (hcase : AppCases t t' key lsn s.hdr.nextFree nf' value lpre last)
    (ppre : List (Internal × Bool)) (p : Internal) (dp : Bool) (rest)
    (hin : t.inner = (ppre ++ [(p, dp)]) :: rest) :
    ∃ s', insertLeaf (some p.off) last key lsn value root s = .ok root s' ∧
      After lsn v0 t' nf' 0 t.inner s' := by
  have hpos := leaf_keys_lt hpre hk
  have hR := last_hasR_of_chain hinv.chain hpre
  have hps := pageSize_pos
  have hmem : (ppre ++ [(p, dp)]) ∈ t.inner := by rw [hin]; simp
  have hpm : (p, dp) ∈ ppre ++ [(p, dp)] := by simp
  obtain ⟨leaves, inner⟩ := t
  simp only at hpre hin
  subst hpre hin
  rcases hcase with ⟨hsmall, rfl, rfl⟩ | ⟨hfull, rfl, rfl⟩
  · obtain ⟨s', e, v, n⟩ := insertLeaf_view_nosplit s (some p.off) last key lsn value root hpos hR hv hsmall
    refine ⟨s', e, lpre ++ [(leafApp last key lsn value, true)], [], none, rfl, ?_, ?_, ?_⟩
    · simp [finish]
    · simp [finish, n]
    · rw [v, n]
      exact Rep.setLeaf hrep rfl
  · have hcap := (hinv.cap.2 _ hmem _ hpm).1
    obtain ⟨cs, lastc, hcs⟩ : ∃ cs lastc, p.cells = cs ++ [lastc] := by
      rcases eq_nil_or_snoc p.cells with h | h
      · rw [h] at hcap; simp at hcap
      · exact h
    have hlastc : p.cells.getLast? = some lastc := by rw [hcs]; exact List.getLast?_concat
    have hkey := seps_lt_newsep hinv rfl hk hfull hmem hpm (c := lastc) (by simp [hcs]) s.hdr.nextFree
    have haL := Rep.atLeaf hrep
    have haP := Rep.atInt (lo := []) hrep
    have hne := Rep.leaf_ne_int hrep
    obtain ⟨s', e, v, n⟩ := insertLeaf_view_split_some s p.off last key lsn value root p dp lastc hpos hR hv hfull
      haP.1 rfl hlastc hkey (by omega) hne (by omega)
    refine ⟨s', e, lpre ++ [(leafL (leafApp last key lsn value) s.hdr.nextFree, true),
        (leafR (leafApp last key lsn value) lsn s.hdr.nextFree, true)], [],
      some (((leafR (leafApp last key lsn value) lsn s.hdr.nextFree).cells.head?.map (·.key)).getD 0,
        last.off, s.hdr.nextFree), rfl, ?_, ?_, ?_⟩
    · simp [finish, n]
    · simp [finish, n]
    · rw [v, n, applyPend_snoc]
      have r1 := Rep.setLeaf (l' := leafL (leafApp last key lsn value) s.hdr.nextFree) (d' := true) hrep rfl
      have r2 := Rep.addLeaf (r := leafR (leafApp last key lsn value) lsn s.hdr.nextFree) (d := true) r1 rfl
        (Nat.lt_add_of_pos_right hps)
      have r3 := Rep.setInt (lo := []) (c' := intApp p
        (((leafR (leafApp last key lsn value) lsn s.hdr.nextFree).cells.head?.map (·.key)).getD 0)
        s.hdr.nextFree lsn) (d' := true) r2 rfl
      simp only [List.append_assoc, List.cons_append, List.nil_append] at r3 ⊢
      exact r3

/-- the tree whose root is a leaf -/
theorem leafNone (v0 : View) (t t' : Levels) (key lsn nf' : Nat) (value : Bytes) (s : Store) (root : Nat)
    (hrep : Rep (view s) s.hdr.nextFree v0 t)
    (last : Leaf) (d : Bool) (hpre : t.leaves = [(last, d)]) (hR : last.hasR = false)
    (hk : ∀ a ∈ keys t, a < key) (hv : value.length ≤ c_maxValueSize)
    (hcase : AppCases t t' key lsn s.hdr.nextFree nf' value [] last)
    (hin : t.inner = []) (hroot : root = last.off) :
    ∃ s' r, insertLeaf none last key lsn value root s = .ok r s' ∧ Final v0 t' nf' r s' := by
  have hpos := leaf_keys_lt (lpre := []) hpre hk
  have hps := pageSize_pos
  obtain ⟨leaves, inner⟩ := t
  simp only at hpre hin
  subst hpre hin
  have hrep' : Rep (view s) s.hdr.nextFree v0 ⟨[] ++ [(last, d)], []⟩ := hrep
  rcases hcase with ⟨hsmall, rfl, rfl⟩ | ⟨hfull, rfl, rfl⟩
  · obtain ⟨s', e, v, n⟩ := insertLeaf_view_nosplit s none last key lsn value root hpos hR hv hsmall
    refine ⟨s', root, e, ?_, ?_, n⟩
    · simp [rootOff, hroot, leafApp]
    · rw [v]
      exact Rep.setLeaf hrep' rfl
  · have haL := Rep.atLeaf hrep'
    obtain ⟨s', e, v, n⟩ := insertLeaf_view_split_none s last key lsn value root hpos hR hv hfull
      (by omega) (by omega)
    rw [bubble_nil]
    refine ⟨s', _, e, ?_, ?_, n⟩
    · simp [rootOff]
    · rw [v]
      have r1 := Rep.setLeaf (l' := leafL (leafApp last key lsn value) s.hdr.nextFree) (d' := true) hrep' rfl
      have r2 := Rep.addLeaf (r := leafR (leafApp last key lsn value) lsn s.hdr.nextFree) (d := true) r1 rfl
        (Nat.lt_add_of_pos_right hps)
      have r3 := Rep.addRoot (r := ⟨s.hdr.nextFree + c_pageSize, lsn, s.hdr.nextFree,
        [⟨((leafR (leafApp last key lsn value) lsn s.hdr.nextFree).cells.head?.map (·.key)).getD 0, last.off⟩]⟩)
        (d := true) r2 rfl (Nat.lt_add_of_pos_right (n := s.hdr.nextFree + c_pageSize) hps)
      simp only [List.cons_append, List.nil_append] at r3 ⊢
      exact r3

end Mkdb.Store
