import Mkdb.Proofs.RefineStmt
import Mkdb.Proofs.RedoLink
/-!
Replay of INSERT log records, part 1: the tools.

* `rootLSN`, `root_held_lsn`: the LSN the root page of a held tree carries.
* `ptEntries_setVal_row`: rewriting the row of `name` in the page table re-points its entry.
* `repointPageTable_refines`: the catalog re-pointing done by recovery (`repointPageTable`, which
  looks the row up by the *old root offset*) is `setVal` on the page table, on the row of the table.
* `Cat.rebuild'`: `Cat.rebuild` for an arbitrary appended key (the replayed key need not be
  `lastKey + 1`).
-/
set_option autoImplicit false
namespace Mkdb.Store
open Mkdb.Page Mkdb.Tuple Mkdb.Generated Mkdb.Tree

/-! ### the root page and its LSN -/

/-- the LSN field of the root node of a tree (mirrors `rootOff`) -/
def rootLSN (t : Levels) : Nat :=
  match t.inner.getLast? with
  | some lvl => (lvl.head?.map (·.1.lsn)).getD 0
  | none => (t.leaves.head?.map (·.1.lsn)).getD 0

theorem root_entry_lsn (t : Levels) (nf : Nat) (hI : Inv t nf) :
    ∃ n d, (rootOff t, n, d) ∈ flatten t ∧ nodeOff n = rootOff t ∧ nodeLSN n = rootLSN t := by
  rcases eq_nil_or_snoc t.inner with hin | ⟨lo, top, hin⟩
  · have hl := hI.link
    unfold LinkOK at hl
    rw [hin] at hl
    simp only [linked, List.length_map] at hl
    obtain ⟨p, hp⟩ : ∃ p, t.leaves = [p] := by
      match h : t.leaves, hl with
      | [p], _ => exact ⟨p, rfl⟩
    have hr : rootOff t = p.1.off := by simp [rootOff, hin, hp]
    have hls : rootLSN t = p.1.lsn := by simp [rootLSN, hin, hp]
    refine ⟨.leaf p.1, p.2, ?_, by rw [hr]; rfl, by rw [hls]; rfl⟩
    rw [hr]
    exact List.mem_append_left _ (List.mem_map.mpr ⟨p, by rw [hp]; simp, rfl⟩)
  · have hlen1 : top.length = 1 := by
      have h1 := linked_topRow_len t.inner _ hI.link
      rw [hin, topRow_snoc, List.length_map] at h1
      exact h1
    obtain ⟨p, rfl⟩ : ∃ x, top = [x] := by
      match top, hlen1 with
      | [x], _ => exact ⟨x, rfl⟩
    have hr : rootOff t = p.1.off := by simp [rootOff, hin]
    have hls : rootLSN t = p.1.lsn := by simp [rootLSN, hin]
    refine ⟨.internal p.1, p.2, ?_, by rw [hr]; rfl, by rw [hls]; rfl⟩
    rw [hr]
    exact List.mem_append_right _ (List.mem_flatMap.mpr ⟨[p], by rw [hin]; simp,
      List.mem_map.mpr ⟨p, by simp, rfl⟩⟩)

/-- the root page of a held tree, as the engine sees it -/
theorem root_held_lsn (s : Store) (t : Levels) (nf : Nat) (hH : Holds s t) (hI : Inv t nf) :
    ∃ n d, view s (rootOff t) = some (n, d) ∧ nodeOff n = rootOff t ∧ nodeLSN n = rootLSN t := by
  obtain ⟨n, d, hm, ho, hl⟩ := root_entry_lsn t nf hI
  exact ⟨n, d, hH _ hm, ho, hl⟩

/-! ### rewriting the row of a table in the page table -/

/-- the page table with the row `c` (of `name`) rewritten to `(name, new)`: the entry of `name` is
re-pointed, every row still decodes -/
theorem ptEntries_setVal_row (pt : Levels) (nf : Nat) (hI : Inv pt nf)
    (hnd : ((ptEntries pt).map (·.1)).Nodup) (a : LeafCell) (hal : a ∈ live pt) (name : Bytes) (oa new lsn : Nat)
    (hpa : ptEntry a = some (name, oa)) (hnl : name.length + 14 ≤ c_maxValueSize)
    (hbig : (new : Int) ≤ 9223372036854775807) :
    ptEntries (setVal pt a.key lsn (ptRow name new)) = (ptEntries pt).map (repoint name new) ∧
    ((∀ c ∈ live pt, ptEntry c ≠ none) →
      ∀ c ∈ live (setVal pt a.key lsn (ptRow name new)), ptEntry c ≠ none) := by
  refine ⟨?_, ?_⟩
  · have hkey : ∀ c1 ∈ live pt, ptEntry
        (if c1.key == a.key then { c1 with val := ptRow name new } else c1) =
        (ptEntry c1).map (repoint name new) := by
      intro c1 hc1
      have hcells : ∀ x ∈ live pt, x ∈ cells pt := fun x hx => (List.mem_filter.mp hx).1
      have hkn : ((cells pt).map (·.key)).Nodup := by
        have := hI.asc
        unfold KeysAsc keys at this
        exact this.imp (fun h => Nat.ne_of_lt h)
      by_cases hk : c1.key = a.key
      · have : c1 = a := inj_of_nodup_map (·.key) _ hkn c1 (hcells _ hc1) a (hcells _ hal) hk
        subst this
        simp only [beq_self_eq_true, if_true, hpa, Option.map_some, repoint]
        exact ptEntry_ptRow _ _ name new (by have : c_maxValueSize = 400 := rfl; omega) hbig
      · have hne : (c1.key == a.key) = false := by simpa using hk
        simp only [hne, Bool.false_eq_true, if_false]
        cases hp1 : ptEntry c1 with
        | none => rfl
        | some e1 =>
          simp only [Option.map_some, Option.some.injEq]
          unfold repoint
          rw [if_neg]
          intro hen
          apply hk
          have hnd' := hnd
          unfold ptEntries at hnd'
          rw [names_filterMap] at hnd'
          have : c1 = a := inj_of_nodup_filterMap _ _ hnd' c1 hc1 a hal name
            (by rw [hp1, Option.map_some, hen]) (by rw [hpa]; rfl)
          rw [this]
    unfold ptEntries
    rw [live_setVal]
    exact filterMap_map_of ptEntry _ (repoint name new) (live pt) hkey
  · intro hdec c2 hc2
    rw [live_setVal] at hc2
    obtain ⟨c1, hc1, rfl⟩ := List.mem_map.mp hc2
    by_cases hk : c1.key = a.key
    · simp only [hk, beq_self_eq_true, if_true]
      rw [ptEntry_ptRow _ _ name new (by have : c_maxValueSize = 400 := rfl; omega) hbig]
      simp
    · have hne : (c1.key == a.key) = false := by simpa using hk
      simp only [hne, Bool.false_eq_true, if_false]
      exact hdec c1 hc1

/-- the row of a table is the only live row of the page table with that name -/
theorem row_unique (pt : Levels) (hnd : ((ptEntries pt).map (·.1)).Nodup) (a b : LeafCell)
    (ha : a ∈ live pt) (hb : b ∈ live pt) (name : Bytes) (oa ob : Nat)
    (hpa : ptEntry a = some (name, oa)) (hpb : ptEntry b = some (name, ob)) : a = b := by
  unfold ptEntries at hnd
  rw [names_filterMap] at hnd
  exact inj_of_nodup_filterMap _ _ hnd a ha b hb name (by rw [hpa]; rfl) (by rw [hpb]; rfl)

/-! ### `repointPageTable` -/

/-- the loop body of `repointPageTable` -/
def rpFind (old : Nat) (c : LeafCell × Nat) : SM (Option ((LeafCell × Nat) × Vals)) := do
  let m ← decodeRow pageTableSchema c.1.val
  if Tuple.get m "file_offset" == .int old then pure (some (c, m)) else pure none

theorem repointPageTable_eq (old new lsn : Nat) :
    repointPageTable old new lsn =
      (getS >>= fun s => scanRight s.hdr.ptRoot >>= fun cells =>
        findFirstM (rpFind old) cells >>= fun hit =>
          match hit with
          | none => pure ()
          | some (c, m) =>
            encodeRow pageTableSchema (("file_offset", .int new) :: m) >>= fun buf =>
            updateCellAt c.2 c.1.key buf lsn) := rfl

/-- what `rpFind` computes -/
def rpFindPure (old : Nat) (c : LeafCell × Nat) : Option ((LeafCell × Nat) × Vals) :=
  match decRow pageTableSchema c.1.val with
  | some m => if Tuple.get m "file_offset" == .int old then some (c, m) else none
  | none => none

theorem rpFind_spec (old : Nat) (c : LeafCell × Nat) (m : Vals) (s : Store)
    (h : decRow pageTableSchema c.1.val = some m) : rpFind old c s = .ok (rpFindPure old c) s := by
  unfold rpFind rpFindPure
  rw [bind_ok (decodeRow_spec _ _ _ s h), h]
  simp only
  split <;> rfl

/-- a decoded row, its name and its offset field -/
theorem decRow_of_ptEntry' {c : LeafCell} {e : Bytes × Nat} (h : ptEntry c = some e) :
    ∃ m i, decRow pageTableSchema c.val = some m ∧ Tuple.get m "table_name" = .str e.1 ∧
      Tuple.get m "file_offset" = .int i ∧ e.2 = i.toNat := by
  obtain ⟨m, i, hm, h1, h2, h3⟩ := ptEntry_inv (n := e.1) (off := e.2) h
  exact ⟨m, i, by unfold decRow; rw [hm], h1, h2, h3⟩

/-- **Re-pointing a catalog entry during recovery.**  `repointPageTable old new lsn` finds the row
whose `file_offset` is `old` - the row of `name`, if `name` is the only entry with that offset -
rewrites it in place to `(name, new)` (`setVal` on the page table, stamped with `lsn`), and touches
no header field. -/
theorem repointPageTable_refines (s : Store) (pt : Levels) (name : Bytes) (old new lsn : Nat)
    (hH : Holds s pt) (hI : Inv pt s.hdr.nextFree) (hroot : rootOff pt = s.hdr.ptRoot)
    (hdepth : pt.inner.length + 1 ≤ treeFuel) (hlen : pt.leaves.length ≤ scanFuel)
    (hdec : ∀ c ∈ live pt, ptEntry c ≠ none)
    (he : (name, old) ∈ ptEntries pt) (hpos : 0 < old)
    (huniq : ∀ n, (n, old) ∈ ptEntries pt → n = name)
    (hnl : name.length + 14 ≤ c_maxValueSize) :
    ∃ s' a p, repointPageTable old new lsn s = .ok () s' ∧
      a ∈ live pt ∧ ptEntry a = some (name, old) ∧ p ∈ pt.leaves ∧ a ∈ p.1.cells ∧
      Holds s' (setVal pt a.key lsn (ptRow name new)) ∧ s'.hdr = s.hdr ∧
      ∀ off, off ≠ p.1.off → view s' off = view s off := by
  obtain ⟨s1, cs, e1, hs1, hcs, hleaf⟩ := scan_cat s pt _ hH hI hdepth hlen
  rw [hroot] at e1
  have hlive : ∀ a ∈ cs, a.1 ∈ live pt := fun a ha => by rw [← hcs]; exact List.mem_map.mpr ⟨a, ha, rfl⟩
  have hg : ∀ a ∈ cs, rpFind old a s1 = .ok (rpFindPure old a) s1 := by
    intro a ha
    cases hp : ptEntry a.1 with
    | none => exact absurd hp (hdec a.1 (hlive a ha))
    | some e =>
      obtain ⟨m, hm, _⟩ := decRow_of_ptEntry hp
      exact rpFind_spec old a m s1 hm
  have hff := findFirstM_pure (rpFind old) (rpFindPure old) s1 cs hg
  -- the row of `name` is there
  obtain ⟨c0, hc0, hpc0⟩ := List.mem_filterMap.mp he
  obtain ⟨a0, ha0, ha0c⟩ : ∃ a0 ∈ cs, a0.1 = c0 := by
    rw [← hcs] at hc0
    obtain ⟨a0, ha0, h⟩ := List.mem_map.mp hc0
    exact ⟨a0, ha0, h⟩
  cases hfs : cs.findSome? (rpFindPure old) with
  | none =>
    exfalso
    have := List.findSome?_eq_none_iff.mp hfs a0 ha0
    rw [← ha0c] at hpc0
    obtain ⟨m, i, hm, _, hmo, hio⟩ := decRow_of_ptEntry' hpc0
    simp only at hio
    have hi : i = (old : Int) := by omega
    unfold rpFindPure at this
    rw [hm] at this
    simp [hmo, hi] at this
  | some hit =>
    obtain ⟨c, m⟩ := hit
    obtain ⟨a, ha, hga⟩ := List.exists_of_findSome?_eq_some hfs
    -- what was found
    have hfound : a = c ∧ decRow pageTableSchema c.1.val = some m ∧
        Tuple.get m "file_offset" = .int (old : Int) := by
      unfold rpFindPure at hga
      cases hd : decRow pageTableSchema a.1.val with
      | none => rw [hd] at hga; cases hga
      | some m' =>
        rw [hd] at hga
        simp only at hga
        split at hga
        · rename_i hnm
          simp only [Option.some.injEq, Prod.mk.injEq] at hga
          obtain ⟨rfl, rfl⟩ := hga
          exact ⟨rfl, hd, by simpa using hnm⟩
        · cases hga
    obtain ⟨rfl, hdm, hmo⟩ := hfound
    have hal := hlive a ha
    -- its entry is `(name, old)`
    have hpa : ptEntry a.1 = some (name, old) := by
      cases hp : ptEntry a.1 with
      | none => exact absurd hp (hdec a.1 hal)
      | some e =>
        obtain ⟨m', i, hm', _, hmo', hio⟩ := decRow_of_ptEntry' hp
        rw [hdm] at hm'
        simp only [Option.some.injEq] at hm'
        subst hm'
        rw [hmo] at hmo'
        simp only [Val.int.injEq] at hmo'
        have he2 : e.2 = old := by rw [hio, ← hmo']; simp
        have hmem : (e.1, old) ∈ ptEntries pt :=
          List.mem_filterMap.mpr ⟨a.1, hal, by rw [hp, ← he2]⟩
        have hn := huniq e.1 hmem
        rw [← hn, ← he2]
    obtain ⟨m', i, hm', hmn, _, _⟩ := decRow_of_ptEntry' hpa
    rw [hdm] at hm'
    simp only [Option.some.injEq] at hm'
    subst hm'
    simp only at hmn
    -- the encoded row
    have hbuf : encodeRow pageTableSchema (("file_offset", .int new) :: m) s1 = .ok (ptRow name new) s1 := by
      unfold encodeRow
      rw [encode_ptRow _ name new (by rw [get_cons_ne _ _ _ _ (by decide)]; exact hmn) (get_cons_eq _ _ _)]
    -- the leaf
    obtain ⟨p, hp, hpo, hcp⟩ := hleaf a ha
    have hany : p.1.cells.any (fun x => x.key == a.1.key) = true := by
      rw [List.any_eq_true]; exact ⟨a.1, hcp, by simp⟩
    have hH1 : Holds s1 pt := hs1.holds hH
    have hI1 : Inv pt s1.hdr.nextFree := by rw [hs1.2]; exact hI
    have hvlen : (ptRow name new).length ≤ c_maxValueSize := by rw [ptRow_length]; exact hnl
    obtain ⟨s2, e2, hH2, hh2, hfr2⟩ := updateCellAt_refines s1 pt a.1.key lsn (ptRow name new)
      hH1 hI1 p.1 p.2 hp hany hvlen
    have hrun : repointPageTable old new lsn s = .ok () s2 := by
      rw [repointPageTable_eq, bind_ok (show getS s = .ok s s from rfl), bind_ok e1, bind_ok hff, hfs]
      simp only
      rw [bind_ok hbuf, hpo]
      exact e2
    refine ⟨s2, a.1, p, hrun, hal, hpa, hp, hcp, hH2, hh2.trans hs1.2, ?_⟩
    intro off hoff
    rw [hfr2 off hoff, hs1.1]

/-! ### the catalog after an insert of an arbitrary appended key -/

/-- `Cat.rebuild` with the key and the row-id counter decoupled: the inserted key and the old
counter are both at most the new counter. -/
theorem Cat.rebuild' {s s' : Store} {pt sch : Levels} {tbls : List (Bytes × Levels)} (h : Cat s pt sch tbls)
    {table : Bytes} {t : Levels} (ht : (table, t) ∈ tbls) {key lsn nf' : Nat} {buf : Bytes} {t' : Levels}
    (hins : insertAppend t key lsn buf s.hdr.nextFree = .ok (t', nf'))
    (ptF : Levels) (hF : PtLike pt ptF)
    (hent : ptEntries ptF = (ptEntries pt).map (repoint table (rootOff t')))
    (hdecF : ∀ c ∈ live ptF, ptEntry c ≠ none)
    (hnf : s'.hdr.nextFree = nf') (hlk : s.hdr.lastKey ≤ s'.hdr.lastKey) (hkey : key ≤ s'.hdr.lastKey)
    (hpr : s'.hdr.ptRoot = s.hdr.ptRoot) (hHt : Holds s' t') (hHp : Holds s' ptF)
    (hframe : ∀ off, off ∉ offs t' → off ∉ offs pt → view s' off = view s off)
    (hd' : t'.inner.length + 2 ≤ treeFuel) (hl' : t'.leaves.length ≤ scanFuel) :
    Cat s' ptF sch (setTable tbls table t') := by
  obtain ⟨d1, d2, d3, d4⟩ := h.disj_parts
  obtain ⟨f1, f2, f3, f4, f5, f6⟩ := hF.facts
  obtain ⟨hHt0, hIt, _, _, hkt⟩ := h.tree t (Cat.tb_mem ht)
  obtain ⟨hHpt, hIpt, hdpt, hlpt, hkpt⟩ := h.tree pt Cat.pt_mem
  obtain ⟨hHsch, hIsch, hdsch, hlsch, hksch⟩ := h.tree sch Cat.sch_mem
  have hle : s.hdr.nextFree ≤ nf' := insertAppend_nextFree t t' key lsn _ nf' buf hins
  have hInv' : Inv t' nf' := insertAppend_inv t t' key lsn _ nf' buf hIt hins
  have hnew := insertAppend_offs_new t t' key lsn _ nf' buf hins
  have K : ∀ u, Inv u s.hdr.nextFree → (∀ o ∈ offs u, o ∉ offs t) → ∀ o ∈ offs t', o ∉ offs u := by
    intro u hu hdis o ho hou
    rcases hnew o ho with h1 | h1
    · exact hdis o hou h1
    · have := hu.offs.2 o hou; omega
  have hother : ∀ u, Holds s u → Inv u s.hdr.nextFree → (∀ o ∈ offs u, o ∉ offs t) →
      (∀ o ∈ offs u, o ∉ offs pt) → Holds s' u := by
    intro u hHu hIu h1 h2 x hx
    have hxo : x.1 ∈ offs u := List.mem_map.mpr ⟨x, hx, rfl⟩
    rw [hframe x.1 (fun hm => K u hIu h1 x.1 hm hxo) (h2 x.1 hxo)]
    exact hHu x hx
  have hne_tab : ∀ e ∈ tbls, e.1 ≠ table → (∀ o ∈ offs e.2, o ∉ offs t) := by
    intro e he hn
    exact pairwise_mem_ne (fun (a b : Bytes × Levels) => ∀ o ∈ offs a.2, o ∉ offs b.2)
      (fun a b hab o hb ha => hab o ha hb) tbls d4 e he (table, t) ht (fun heq => hn (by rw [heq]))
  have hsch_t : ∀ o ∈ offs sch, o ∉ offs t := d3 (table, t) ht
  have hpt_t : ∀ o ∈ offs pt, o ∉ offs t := d2 (table, t) ht
  have hkeys' : ∀ a ∈ keys t', a ≤ s'.hdr.lastKey := by
    intro a ha
    unfold keys at ha
    rw [cells_insertAppend t t' key lsn _ nf' buf hins, List.map_append, List.mem_append] at ha
    rcases ha with ha | ha
    · exact Nat.le_trans (hkt a ha) hlk
    · simp only [List.map_cons, List.map_nil, List.mem_singleton] at ha
      omega
  have huniq : ∀ e ∈ tbls, e.1 = table → e = (table, t) := fun e he hn =>
    inj_of_nodup_map (·.1) tbls h.tnames e he (table, t) ht hn
  refine ⟨?_, ?_, ?_, hdecF, ?_, ?_, ?_, ?_, ?_, ?_, ?_⟩
  · -- tree
    intro x hx
    simp only [catTrees, List.mem_cons, List.mem_map] at hx
    rw [hnf]
    rcases hx with rfl | rfl | ⟨e', he', rfl⟩
    · exact ⟨hHp, f6 _ (Inv_mono pt _ _ hIpt hle), by omega, by omega,
        fun a ha => Nat.le_trans (hkpt a (f5 ▸ ha)) hlk⟩
    · exact ⟨hother x hHsch hIsch hsch_t (fun o ho hp => d1 o hp ho), Inv_mono x _ _ hIsch hle, hdsch, hlsch,
        fun a ha => Nat.le_trans (hksch a ha) hlk⟩
    · rcases mem_setTable he' with ⟨rfl, _⟩ | ⟨he, hn⟩
      · exact ⟨hHt, hInv', hd', hl', hkeys'⟩
      · obtain ⟨hHe, hIe, hde, hle', hke⟩ := h.tree e'.2 (Cat.tb_mem he)
        exact ⟨hother e'.2 hHe hIe (hne_tab e' he hn) (fun o ho hp => d2 e' he o hp ho),
          Inv_mono _ _ _ hIe hle, hde, hle', fun a ha => Nat.le_trans (hke a ha) hlk⟩
  · -- disj
    simp only [catTrees, List.map_cons, List.map_map]
    refine List.pairwise_cons.mpr ⟨?_, List.pairwise_cons.mpr ⟨?_, ?_⟩⟩
    · intro a ha
      rw [f1]
      rcases List.mem_cons.mp ha with rfl | ha
      · exact d1
      · obtain ⟨e', he', rfl⟩ := List.mem_map.mp ha
        simp only [Function.comp]
        rcases mem_setTable he' with ⟨rfl, _⟩ | ⟨he, hn⟩
        · exact fun o ho ht' => K pt hIpt hpt_t o ht' ho
        · exact d2 e' he
    · intro a ha
      obtain ⟨e', he', rfl⟩ := List.mem_map.mp ha
      simp only [Function.comp]
      rcases mem_setTable he' with ⟨rfl, _⟩ | ⟨he, hn⟩
      · exact fun o ho ht' => K sch hIsch hsch_t o ht' ho
      · exact d3 e' he
    · unfold setTable
      rw [List.pairwise_map, List.pairwise_map]
      have hnames : tbls.Pairwise (fun a b => a.1 ≠ b.1) := by
        have := h.tnames
        unfold List.Nodup at this
        rw [List.pairwise_map] at this
        exact this
      refine (d4.and hnames).imp_of_mem ?_
      intro a b ha hb hab
      obtain ⟨hR, hnab⟩ := hab
      simp only [Function.comp]
      by_cases hat : a.1 = table
      · have hbt : ¬ b.1 = table := fun hbt => hnab (hat.trans hbt.symm)
        simp only [hat, hbt, if_true, if_false]
        have := huniq a ha hat
        subst this
        exact K b.2 (h.tree b.2 (Cat.tb_mem hb)).2.1 (fun o ho hto => hR o hto ho)
      · simp only [hat, if_false]
        by_cases hbt : b.1 = table
        · simp only [hbt, if_true]
          have := huniq b hb hbt
          subst this
          exact fun o ho ht' => K a.2 (h.tree a.2 (Cat.tb_mem ha)).2.1 hR o ht' ho
        · simp only [hbt, if_false]
          exact hR
  · rw [f2, hpr]; exact h.root
  · rw [hent, List.map_map]
    have : ((fun e : Bytes × Nat => e.1) ∘ repoint table (rootOff t')) = fun e => e.1 :=
      funext (repoint_fst table (rootOff t'))
    rw [this]
    exact h.names
  · rw [hent]
    refine List.mem_map.mpr ⟨_, h.esch, ?_⟩
    unfold repoint
    rw [if_neg]
    intro heq
    exact h.tsys.2 (by simp only at heq; rw [heq]; exact List.mem_map.mpr ⟨(table, t), ht, rfl⟩)
  · intro e' he'
    rw [hent]
    rcases mem_setTable he' with ⟨rfl, _⟩ | ⟨he, hn⟩
    · refine List.mem_map.mpr ⟨_, h.etb (table, t) ht, ?_⟩
      unfold repoint
      simp
    · refine List.mem_map.mpr ⟨_, h.etb e' he, ?_⟩
      unfold repoint
      rw [if_neg hn]
  · intro e he
    rw [hent] at he
    obtain ⟨e0, he0, rfl⟩ := List.mem_map.mp he
    rw [repoint_fst, setTable_names]
    exact h.only e0 he0
  · rw [setTable_names]; exact h.tnames
  · rw [setTable_names]; exact h.tsys
  · intro e' he'
    rcases mem_setTable he' with ⟨rfl, _⟩ | ⟨he, hn⟩
    · exact h.tlen (table, t) ht
    · exact h.tlen e' he

end Mkdb.Store
