import Mkdb.Proofs.ScanText6
import Mkdb.Proofs.TokText
/-!
# The scanner on text in standard form, part 7: keywords versus identifiers; scanner and parser composed

`parseSQL_renderText`: parsing the text of a token list is parsing the token list - the scanner round
trip (`scanSQL_renderText`) composed with the fact that the parser reads no keyword text
(`parseTokens_textSim`).
-/
namespace Mkdb.Scan
open Mkdb.Generated

theorem kwTable_ty_ne_ident : ∀ e ∈ kwTable, e.2 ≠ t_IDENT := by decide

/-- a word is an IDENT token exactly when its upper-casing is not in the keyword table -/
theorem word_tok_ident_iff (rs : Input) :
    (Piece.word rs).tok.ty = t_IDENT ↔ keywordOf (upperCodes rs) = none := by
  simp only [Piece.tok]
  cases hk : keywordOf (upperCodes rs) with
  | none => simp
  | some k =>
    simp only [reduceCtorEq, iff_false]
    exact kwTable_ty_ne_ident _ (keywordOf_mem _ _ hk)

/-- a word whose upper-casing is the spelling of a keyword is that keyword's token, with the word as text -/
theorem word_tok_kw (rs : Input) (codes : List Nat) (k : Int) (hk : (codes, k) ∈ kwTable)
    (hup : upperCodes rs = codes) : (Piece.word rs).tok = ⟨k, textOf rs⟩ := by
  have := keywordOf_table _ hk
  simp only [] at this
  simp only [Piece.tok, hup, this]

/-- a single piece, alone in the text -/
theorem scanSQL_piece (p : Piece) (hp : p.ok = true) : scanSQL p.runes = .ok [p.tok] := by
  have h := scanSQL_items [([], p)] [] (by simp [ItemsOK, Gap.ok, hp, renderItems, Gap.runes, HeadP])
  simpa [renderItems, Gap.runes] using h

end Mkdb.Scan

namespace Mkdb.Sql
open Mkdb.Scan Mkdb.Generated

theorem textual_eq_textualTy (ty : Int) : textual ty = textualTy ty := rfl

/-- what the scanner reports for a covered token list is the list itself up to the text of keyword and
punctuation tokens -/
theorem scanned_sim (cs : Nat → List Bool) (toks : List Token) (htoks : ∀ t ∈ toks, TokOK t = true) :
    ∀ i, ToksSim toks (scanned cs i toks) := by
  induction toks with
  | nil => intro i; exact .nil
  | cons t ts ih =>
    intro i
    have ht := htoks t (List.mem_cons_self ..)
    refine .cons ⟨(scannedTok_ty _ t ht).symm, ?_⟩ (ih (fun t' h' => htoks t' (List.mem_cons_of_mem _ h')) (i + 1))
    intro htx
    rw [scannedTok_textual _ t ht htx]

/-- **Scanner and parser composed**: parsing the text of a covered token list, in any admissible layout
and keyword case, is parsing the token list. -/
theorem parseSQL_renderText (gap : Nat → Gap) (cs : Nat → List Bool) (toks : List Token)
    (htoks : ∀ t ∈ toks, TokOK t = true) (hlay : layoutOK gap cs 0 toks = true) :
    parseSQL (renderText gap cs toks) = parseTokens toks := by
  unfold parseSQL
  rw [scanSQL_renderText gap cs toks htoks hlay]
  exact (parseTokens_textSim _ _ (scanned_sim cs toks htoks 0)).symm

end Mkdb.Sql
