import Mkdb.Proofs.CrashPrefix6
/-!
Crash while a statement appends its records to the log, part 7 (Goal 3): **non-vacuity.**

On the concrete database `dbA` of `SpecRefine` (store `st1`, table `t (a INT)`, empty, empty log):
`INSERT INTO t VALUES (5), (6)` logs two records; the log cut after the first one and replayed on
`st1` gives a store whose table holds exactly the row `(5)`; the row-id counter is 5, so the next
insert does not reuse an id.
-/
set_option autoImplicit false
namespace Mkdb.Store
open Mkdb.Page Mkdb.Tuple Mkdb.Generated Mkdb.Tree Mkdb.Engine

/-- neither of the two inserts moves the root of `t` -/
theorem noMoveA : InsNoMove schemaA ([].map Engine.bytesToName) t0 4 7 16384 [[.int 5], [.int 6]] := by
  intro buf t' nf' he hi
  have e1 : encodeTuple schemaA ((colsOf schemaA ([].map Engine.bytesToName)).zip [Val.int 5]).reverse =
      .ok [0, 5, 0, 0, 0] := rfl
  rw [e1] at he
  cases he
  have i1 : insertAppend t0 (4 + 1) 7 [0, 5, 0, 0, 0] 16384 = .ok (tA1, 16384) := rfl
  rw [i1] at hi
  cases hi
  refine ⟨by decide, ?_⟩
  show InsNoMove schemaA ([].map Engine.bytesToName) tA1 5 8 16384 [[.int 6]]
  intro buf t' nf' he hi
  have e2 : encodeTuple schemaA ((colsOf schemaA ([].map Engine.bytesToName)).zip [Val.int 6]).reverse =
      .ok [0, 6, 0, 0, 0] := rfl
  rw [e2] at he
  cases he
  have i2 : insertAppend tA1 (5 + 1) 8 [0, 6, 0, 0, 0] 16384 = .ok (tA2, 16384) := rfl
  rw [i2] at hi
  cases hi
  exact ⟨by decide, trivial⟩

/-- the plain-model state with exactly the first row -/
def sdbA5 : Spec.SDB := [⟨tname, schemaA, [⟨none, [.int 5]⟩]⟩]

/-- **A two-row INSERT cut after its first record recovers to the table with exactly the first row.**
`INSERT INTO t VALUES (5), (6)` runs on `dbA` (`.ok 2 db1`) and hands two records to the log writer;
the crash leaves the first one.  Replaying it on `st1` succeeds; the store abstracts to the plain
model's `INSERT INTO t VALUES (5)` on the empty table - the single row `(5)` - as does the engine run
on the first row alone, whose log is exactly the surviving record; the row-id counter is 5. -/
theorem crash_prefix_example : ∃ db1 dbJ rK ptR tblsJ,
    Engine.evalInsert dbA tname [] [[.int 5], [.int 6]] = .ok 2 db1 ∧ db1.wal.length = 2 ∧
    replayAll (db1.wal.take 1) st1 = (rK, none, false) ∧
    Spec.specInsert sdbA0 tname [] [[.int 5]] = some sdbA5 ∧
    AbsV rK ptR sch1 tblsJ sdbA5 ∧
    Engine.evalInsert dbA tname [] [[.int 5]] = .ok 1 dbJ ∧ dbJ.wal = db1.wal.take 1 ∧
    AbsV dbJ.store ptR sch1 tblsJ sdbA5 ∧
    rK.hdr.lastKey = 5 ∧ rK.hdr.nextFree = dbJ.store.hdr.nextFree := by
  obtain ⟨db1, _, _, _, _, e1, _⟩ := chain_example
  have hpin : ∀ pt tbls t schema, AbsV dbA.store pt sch1 tbls sdbA0 → (tname, t) ∈ tbls →
      schemaOf sch1 tname = some schema → t = t0 ∧ schema = schemaA := by
    intro pt tbls t schema hA ht hs
    obtain ⟨_, habs, _⟩ := hA
    have ht0 : t = t0 := habs.cat.tree_unique cat1 ht (List.mem_singleton.mpr rfl)
    rw [sch1_t] at hs
    simp only [Option.some.injEq] at hs
    exact ⟨ht0, hs.symm⟩
  obtain ⟨j, rK, sdbJ, dbJ, ptJ, ptR, tblsJ, _, hre, hspecJ, hAR, eJ, hAJ, _, hnf, hlk, hlkJ, _, _, hno⟩ :=
    insert_crash_prefix sch1 (.nil dbA sdbA0) rfl pt0 [(tname, t0)] abs1.toV pt0_self freshM_st1 tname []
      [[.int 5], [.int 6]]
      (by
        intro r hr v hv
        simp only [List.mem_cons, List.not_mem_nil, or_false] at hr
        rcases hr with rfl | rfl
        · simp only [List.mem_singleton] at hv; subst hv; exact ⟨by decide, by decide⟩
        · simp only [List.mem_singleton] at hv; subst hv; exact ⟨by decide, by decide⟩)
      sdbA1 specA1
      (by
        intro pt tbls t schema hA ht hs
        obtain ⟨rfl, rfl⟩ := hpin pt tbls t schema hA ht hs
        exact runA)
      2 db1 e1 1
  obtain ⟨hj, hlen, hwJ, hpt⟩ := hno (by
    intro pt tbls t schema hA ht hs
    obtain ⟨rfl, rfl⟩ := hpin pt tbls t schema hA ht hs
    exact noMoveA)
  have hj1 : j = 1 := by rw [hj]; rfl
  subst hj1
  subst hpt
  have hd : db1.wal.drop dbA.wal.length = db1.wal := rfl
  rw [hd] at hre hwJ hlen
  have hnil : dbA.wal ++ db1.wal.take 1 = db1.wal.take 1 := rfl
  rw [hnil] at hre hwJ
  have hs5 : sdbJ = sdbA5 := by
    have h5 : Spec.specInsert sdbA0 tname [] ([[.int 5], [.int 6]].take 1) = some sdbA5 := rfl
    rw [h5] at hspecJ
    exact (Option.some.inj hspecJ).symm
  subst hs5
  exact ⟨db1, dbJ, rK, ptR, tblsJ, e1, hlen, hre, rfl, hAR, eJ, hwJ, hAJ, by rw [hlk, hlkJ]; rfl, hnf⟩

/-- **Non-vacuity of `replay_prefix`** on the history of `history_mixed_st0` (insert a row, update it,
delete it, run live from `st0`; three records): the log cut after two records replays on `st0` without
error; the replayed store and the live store after a prefix of the three row statements satisfy the
catalog description with the same tables and agree on the row-id counter. -/
theorem replay_prefix_st0 : ∃ sN tblsN logs j sK tblsK logsK ptK ptR rK,
    LiveRunM sch0 st0 [(tname, t0)] [.ins tname [] [], .upd tname 4 [] [], .del tname 4] sN tblsN logs ∧
    logs.length = 3 ∧ j ≤ 3 ∧
    LiveRunM sch0 st0 [(tname, t0)] ([RStmt.ins tname [] [], .upd tname 4 [] [], .del tname 4].take j) sK tblsK
      logsK ∧
    replayAll (logs.take 2) st0 = (rK, none, false) ∧
    Cat sK ptK sch0 tblsK ∧ Cat rK ptR sch0 tblsK ∧ rK.hdr.lastKey = sK.hdr.lastKey ∧
    (logsK = logs.take 2 ∧ ptR = ptK ∨ logsK = logs.take 3 ∧ PtRestamp ptR ptK) := by
  obtain ⟨sN, _, _, logs, run, hlen, _⟩ := history_mixed_st0
  obtain ⟨j, sK, tblsK, logsK, ptK, ptR, rK, hj, hrun, hre, c1, c2, _, _, hlk, _, _, hcase⟩ :=
    replay_prefix sch0 run pt0 cat0 pt0_self freshM_st0 2 (by omega)
  refine ⟨sN, _, logs, j, sK, tblsK, logsK, ptK, ptR, rK, run, hlen, hj, hrun, hre, c1, c2, hlk, ?_⟩
  rcases hcase with ⟨a, b, _⟩ | ⟨a, _, c, _⟩
  · exact .inl ⟨a, b⟩
  · exact .inr ⟨a, c⟩

end Mkdb.Store
