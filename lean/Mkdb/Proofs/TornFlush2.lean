import Mkdb.Proofs.TornFlush1
/-!
Torn flush without page allocation, part 2: **the tree invariant only looks at the skeleton of the
leaves** - offsets, sibling links and key lists; not at values, tombstones, LSNs or dirty bits.

* `skelL`, `inv_of_skel`: two trees with the same internal levels whose leaves agree, position by
  position, in offset, sibling links and key list satisfy `Inv` together.
* `inv_fill_congr`: the same for two fillings of one skeleton.
-/
set_option autoImplicit false
namespace Mkdb.Store
open Mkdb.Page Mkdb.Tuple Mkdb.Generated Mkdb.Tree Mkdb.Engine

/-- what `Inv` reads of a leaf: offset, sibling links, key list -/
def skelL (p : Leaf × Bool) : Nat × Bool × Bool × Nat × Nat × List Nat :=
  (p.1.off, p.1.hasL, p.1.hasR, p.1.lSib, p.1.rSib, p.1.cells.map (·.key))

def hdr5 (l : Leaf) : Nat × Bool × Bool × Nat × Nat := (l.off, l.hasL, l.hasR, l.lSib, l.rSib)

theorem keys_eq_flatten (t : Levels) : keys t = (t.leaves.map (fun p => p.1.cells.map (·.key))).flatten := by
  unfold keys cells
  rw [List.map_flatMap, List.flatMap_def]

theorem chainFrom_congr : ∀ (ls ls' : List Leaf), ls.map hdr5 = ls'.map hdr5 →
    ∀ prev, chainFrom prev ls → chainFrom prev ls'
  | [], [], _, _, h => h
  | [], _ :: _, e, _, _ => by simp at e
  | _ :: _, [], e, _, _ => by simp at e
  | l :: rest, l' :: rest', e, prev, h => by
    simp only [List.map_cons, List.cons.injEq] at e
    obtain ⟨e1, e2⟩ := e
    simp only [hdr5, Prod.mk.injEq] at e1
    obtain ⟨a1, a2, a3, a4, a5⟩ := e1
    obtain ⟨h1, h2, h3⟩ := h
    refine ⟨?_, ?_, ?_⟩
    · cases prev with
      | none => simpa [← a2] using h1
      | some p => simpa [← a2, ← a4] using h1
    · match rest, rest', e2, h2 with
      | [], [], _, h2 => simpa [← a3] using h2
      | [], _ :: _, e2, _ => simp at e2
      | _ :: _, [], e2, _ => simp at e2
      | m :: ms, m' :: ms', e2, h2 =>
        simp only [List.map_cons, List.cons.injEq, hdr5, Prod.mk.injEq] at e2
        simp only at h2 ⊢
        rw [← a3, ← a5, ← e2.1.1]
        exact h2
    · rw [← a1]
      exact chainFrom_congr rest rest' e2 _ h3

/-- **`Inv` is a property of the skeleton.** -/
theorem inv_of_skel {t t' : Levels} {nf : Nat} (hI : Inv t nf) (hin : t'.inner = t.inner)
    (hl : t'.leaves.map skelL = t.leaves.map skelL) : Inv t' nf := by
  have hlen : t'.leaves.length = t.leaves.length := by
    have := congrArg List.length hl
    simpa using this
  have hmem : ∀ p' ∈ t'.leaves, ∃ p ∈ t.leaves, skelL p = skelL p' := by
    intro p' hp'
    have : skelL p' ∈ t.leaves.map skelL := hl ▸ List.mem_map.mpr ⟨p', hp', rfl⟩
    obtain ⟨p, hp, e⟩ := List.mem_map.mp this
    exact ⟨p, hp, e⟩
  have hkl : ∀ {p p' : Leaf × Bool}, skelL p = skelL p' → p.1.cells.length = p'.1.cells.length := by
    intro p p' e
    have : p.1.cells.map (·.key) = p'.1.cells.map (·.key) := by
      have := congrArg (fun x => x.2.2.2.2.2) e
      exact this
    have := congrArg List.length this
    simpa using this
  have hoffs : t'.leaves.map (·.1.off) = t.leaves.map (·.1.off) := by
    have := congrArg (List.map (fun x => x.1)) hl
    rw [List.map_map, List.map_map] at this
    exact this
  have hkeys : t'.leaves.map (fun p => p.1.cells.map (·.key)) = t.leaves.map (fun p => p.1.cells.map (·.key)) := by
    have := congrArg (List.map (fun x => x.2.2.2.2.2)) hl
    rw [List.map_map, List.map_map] at this
    exact this
  refine ⟨⟨?_, ?_⟩, ?_, ?_, ?_, ?_, ?_, ?_⟩
  · intro p' hp'
    obtain ⟨p, hp, e⟩ := hmem p' hp'
    rw [← hkl e]
    exact hI.cap.1 p hp
  · rw [hin]; exact hI.cap.2
  · unfold KeysAsc
    rw [keys_eq_flatten, hkeys, ← keys_eq_flatten]
    exact hI.asc
  · intro h2 p' hp'
    obtain ⟨p, hp, e⟩ := hmem p' hp'
    have := hI.ne (by rw [← hlen]; exact h2) p hp
    intro h0
    apply this
    have hk := hkl e
    rw [h0] at hk
    exact List.length_eq_zero_iff.mp hk
  · unfold ChainOK
    have hc : chainFrom none (t.leaves.map (·.1)) := hI.chain
    apply chainFrom_congr (t.leaves.map (·.1)) (t'.leaves.map (·.1)) _ none hc
    have := congrArg (List.map (fun x => (x.1, x.2.1, x.2.2.1, x.2.2.2.1, x.2.2.2.2.1))) hl
    rw [List.map_map, List.map_map] at this ⊢
    exact this.symm
  · unfold LinkOK
    rw [hin, hoffs]
    exact hI.link
  · unfold SepsOK
    rw [hin]
    have : t'.leaves.map (fun p => (p.1.cells.head?.map (·.key)).getD 0) =
        t.leaves.map (fun p => (p.1.cells.head?.map (·.key)).getD 0) := by
      have hfun : (fun p : Leaf × Bool => (p.1.cells.head?.map (·.key)).getD 0) =
          (fun x : List Nat => x.head?.getD 0) ∘ (fun p : Leaf × Bool => p.1.cells.map (·.key)) :=
        funext fun p => by simp [List.head?_map]
      rw [hfun, ← List.map_map, ← List.map_map, hkeys]
    rw [this]
    exact hI.seps
  · unfold OffsOK
    rw [offs_eq, hin, hoffs, ← offs_eq]
    exact hI.offs

/-- two fillings of one skeleton whose pages agree in offset, sibling links and key list -/
theorem inv_fill_congr {c c' : Pages} {t : Levels} {nf : Nat} (hI : Inv (fill c t) nf)
    (h : ∀ o ∈ leafOffs t, skelL (c' o) = skelL (c o)) : Inv (fill c' t) nf := by
  apply inv_of_skel (t := fill c t) (t' := fill c' t) hI rfl
  rw [fill_leaves, fill_leaves, List.map_map, List.map_map]
  apply List.map_congr_left
  intro p hp
  exact h _ (mem_leafOffs hp)

end Mkdb.Store
