import Mkdb.Proofs.Join
/-!
A qualified column reference is not captured by an alias.

`SELECT a AS b, b AS c FROM t ORDER BY t.b` used to sort by the first output column: the output
header carried the table id of the underlying column together with the alias as column name, so
the qualified key `t.b` found the alias `b` of column `a`.  Since the repair the sort keys are
resolved against `sortFields sl hdr`, in which an aliased column has lost its table id, and
`DerivedCol.matches` (GROUP BY) accepts an alias for an unqualified reference only.  This file
proves that a qualified reference now finds only a non-aliased column of the table it names.
-/
namespace Mkdb.Exec.AliasCaptureP
open Mkdb.Sql Mkdb.Exec.JoinP

/-! ### `sortFields` -/

/-- `sortFields` keeps the length of the header (it only blanks table ids) -/
theorem sortFields_length (sl : List DerivedCol) (hdr : List Field) :
    (sortFields sl hdr).length = hdr.length := by
  unfold sortFields
  split
  · rfl
  · rename_i h
    have h' : sl.length = hdr.length := by simpa using h
    simp only [List.length_map, List.length_zip, h', Nat.min_self]

/-- `SELECT *` (the select list and the header differ in length): the header itself -/
theorem sortFields_of_length_ne (sl : List DerivedCol) (hdr : List Field)
    (h : sl.length ≠ hdr.length) : sortFields sl hdr = hdr := by
  unfold sortFields
  rw [if_pos (by simpa using h)]

/-- elementwise: the field of a non-aliased column is kept, the field of an aliased one loses its
table id -/
theorem sortFields_getElem?_eq_some {sl : List DerivedCol} {hdr : List Field}
    (hlen : sl.length = hdr.length) {i : Nat} {g : Field}
    (h : (sortFields sl hdr)[i]? = some g) :
    ∃ d f, sl[i]? = some d ∧ hdr[i]? = some f ∧
      g = if d.alias.isEmpty then f else ⟨[], f.column⟩ := by
  unfold sortFields at h
  rw [if_neg (by simpa using hlen)] at h
  rw [List.getElem?_map, Option.map_eq_some_iff] at h
  obtain ⟨⟨d, f⟩, hz, hg⟩ := h
  rw [List.getElem?_zip_eq_some] at hz
  exact ⟨d, f, hz.1, hz.2, hg.symm⟩

/-! ### ORDER BY: a qualified key -/

/-- **A qualified sort key finds only a non-aliased column of the table it names**: if the
qualified reference `c` resolves in `sortFields sl hdr` (what `sortColumns` is handed) to position
`i`, then the `i`-th select-list element has no alias and the `i`-th header field is `c.qual.c.name`
itself. -/
theorem qualified_key_not_captured_by_alias (sl : List DerivedCol) (hdr : List Field)
    (hlen : sl.length = hdr.length) (c : ColRef) (hq : c.qual ≠ []) (i : Nat)
    (h : findColumn c (sortFields sl hdr) = .ok i) :
    (sl[i]?).map (·.alias) = some [] ∧ hdr[i]? = some ⟨c.qual, c.name⟩ := by
  unfold findColumn at h
  have hne : c.qual.isEmpty = false := by
    cases hc : c.qual with
    | nil => exact absurd hc hq
    | cons _ _ => rfl
  rw [hne] at h
  simp only [Bool.false_eq_true, if_false] at h
  obtain ⟨hi, _⟩ := lookupColIdxByID_first _ _ _ _ h
  obtain ⟨d, f, hd, hf, hg⟩ := sortFields_getElem?_eq_some hlen hi
  cases ha : d.alias with
  | nil =>
    rw [ha] at hg
    simp only [List.isEmpty_nil, if_true] at hg
    rw [hd, hf, ← hg, Option.map_some, ha]
    exact ⟨rfl, rfl⟩
  | cons x xs =>
    rw [ha] at hg
    simp only [List.isEmpty_cons, Bool.false_eq_true, if_false, Field.mk.injEq] at hg
    exact absurd hg.1 hq

/-- in particular an aliased column is never what a qualified sort key designates -/
theorem qualified_key_skips_aliased (sl : List DerivedCol) (hdr : List Field)
    (hlen : sl.length = hdr.length) (c : ColRef) (hq : c.qual ≠ []) (i : Nat) (d : DerivedCol)
    (hd : sl[i]? = some d) (ha : d.alias ≠ []) :
    findColumn c (sortFields sl hdr) ≠ .ok i := by
  intro h
  have := (qualified_key_not_captured_by_alias sl hdr hlen c hq i h).1
  rw [hd] at this
  simp only [Option.map_some, Option.some.injEq] at this
  exact ha this

/-! ### GROUP BY: `DerivedCol.matches` -/

/-- `ColumnReference.Equals` is equality of qualifier and name -/
theorem ColRef_equals_eq {lhs rhs : ColRef} (h : lhs.equals rhs = true) : lhs = rhs := by
  unfold ColRef.equals at h
  split at h
  · cases h
  · split at h
    · cases h
    · rename_i _ hqual
      have hq : lhs.qual = rhs.qual := by simpa using hqual
      have hn : lhs.name = rhs.name := by simpa using h
      cases lhs; cases rhs
      simp only at hq hn
      rw [hq, hn]

/-- **A qualified reference matches a select-list element only as that very column**: the alias
alternative and the bare-name alternative of `DerivedColumn.Matches` need an unqualified
reference. -/
theorem matches_qualified {d : DerivedCol} {rhs : ColRef} (hq : rhs.qual ≠ [])
    (h : d.matches rhs = true) :
    ∃ lhs, d.item = .expr (.val (.col lhs)) ∧ lhs.equals rhs = true := by
  have hne : rhs.qual.isEmpty = false := by
    cases hc : rhs.qual with
    | nil => exact absurd hc hq
    | cons _ _ => rfl
  unfold DerivedCol.matches at h
  split at h
  · rename_i lhs hitem
    refine ⟨lhs, hitem, ?_⟩
    simpa only [hne, Bool.and_false, Bool.or_false] using h
  · cases h

/-- so an alias equal to the name of a qualified reference does not make the element match -/
theorem matches_qualified_eq {d : DerivedCol} {rhs : ColRef} (hq : rhs.qual ≠ [])
    (h : d.matches rhs = true) : d.item = .expr (.val (.col rhs)) := by
  obtain ⟨lhs, hitem, heq⟩ := matches_qualified hq h
  rw [hitem, ColRef_equals_eq heq]

/-- **The column a qualified GROUP BY reference designates is that column of the select list**
(never a column that merely carries the name as its alias). -/
theorem qualified_group_column_not_captured_by_alias (sl : List DerivedCol) (g : ColRef)
    (hq : g.qual ≠ []) (i : Nat) (h : groupIdx sl g = some i) :
    ∃ d lhs, sl[i]? = some d ∧ d.item = .expr (.val (.col lhs)) ∧ lhs.equals g = true := by
  unfold groupIdx at h
  have hp := List.find?_some h
  split at hp
  · rename_i d hd
    simp only [Bool.and_eq_true] at hp
    obtain ⟨lhs, hitem, heq⟩ := matches_qualified hq hp.2
    exact ⟨d, lhs, hd, hitem, heq⟩
  · cases hp

/-! ### the difference the repair makes -/
section Example

/-- `SELECT a AS b, b AS c FROM t` -/
def exList : List DerivedCol :=
  [⟨.expr (.val (.col ⟨[], [97]⟩)), [98]⟩, ⟨.expr (.val (.col ⟨[], [98]⟩)), [99]⟩]

/-- its output header: the table id of the underlying column, the alias as column name -/
def exHdr : List Field := [⟨[116], [98]⟩, ⟨[116], [99]⟩]

-- (`headerOf` does build that header from the fields `t.a`, `t.b`)
example : (exList.map fun d => headerOf d [⟨[116], [97]⟩, ⟨[116], [98]⟩]) =
    [.ok ⟨[116], [98]⟩, .ok ⟨[116], [99]⟩] := by decide

-- the header the sort keys are resolved against: both columns are aliased, both lose the table id
example : sortFields exList exHdr = [⟨[], [98]⟩, ⟨[], [99]⟩] := by decide

-- `ORDER BY t.b`: no output column is the column `b` of `t` - the key is refused ...
example : findColumn ⟨[116], [98]⟩ (sortFields exList exHdr) = .err .fieldNotFound := by decide

-- ... whereas against the raw output header it found the alias `b` of column `a` (the defect)
example : findColumn ⟨[116], [98]⟩ exHdr = .ok 0 := by decide

-- the unqualified `ORDER BY b` still means the alias
example : findColumn ⟨[], [98]⟩ (sortFields exList exHdr) = .ok 0 := by decide

-- GROUP BY: `t.b` does not match `a AS b`, it matches `t.b AS c`; the unqualified `b` matches both
example : (⟨.expr (.val (.col ⟨[116], [97]⟩)), [98]⟩ : DerivedCol).matches ⟨[116], [98]⟩ = false := by
  decide
example : (⟨.expr (.val (.col ⟨[116], [98]⟩)), [99]⟩ : DerivedCol).matches ⟨[116], [98]⟩ = true := by
  decide
example : (⟨.expr (.val (.col ⟨[116], [97]⟩)), [98]⟩ : DerivedCol).matches ⟨[], [98]⟩ = true := by
  decide

end Example

end Mkdb.Exec.AliasCaptureP
