import Mkdb.Proofs.RefineStmt3
import Mkdb.Proofs.Tuple
/-!
Refinement at the statement level, part 4: re-pointing a catalog entry (`updatePageTable`).
-/
set_option autoImplicit false
namespace Mkdb.Store
open Mkdb.Page Mkdb.Tuple Mkdb.Generated Mkdb.Tree Mkdb.Bin

/-! ### the row of the page table for `(name, off)` -/

/-- the bytes of the `sys_pages` row `(name, off)` -/
def ptRow (name : Bytes) (off : Nat) : Bytes :=
  (encBool false ++ encU32 name.length ++ name) ++ ((encBool false ++ encI 8 (off : Int)) ++ [])

theorem ptRow_length (name : Bytes) (off : Nat) : (ptRow name off).length = name.length + 14 := by
  simp only [ptRow, encBool, encU32, encI, List.length_append, List.length_cons, List.length_nil,
    encLE_length]
  omega

/-- encoding a row map that names `name` and the offset `off` -/
theorem encode_ptRow (m : Vals) (name : Bytes) (off : Nat) (h1 : get m "table_name" = .str name)
    (h2 : get m "file_offset" = .int off) : encodeTuple pageTableSchema m = .ok (ptRow name off) := by
  simp only [encodeTuple, pageTableSchema, h1, h2, encField, validate]
  rfl

/-- …and decoding it gives the entry back -/
theorem ptEntry_ptRow (k : Nat) (del : Bool) (name : Bytes) (off : Nat) (hn : name.length < 2 ^ 32)
    (ho : (off : Int) ≤ 9223372036854775807) : ptEntry ⟨k, del, ptRow name off⟩ = some (name, off) := by
  have henc := encode_ptRow [("table_name", .str name), ("file_offset", .int off)] name off rfl rfl
  obtain ⟨m, hm, hget, _⟩ := decode_encode_aux pageTableSchema
    [("table_name", .str name), ("file_offset", .int off)]
    (by
      intro key
      by_cases h1 : key = "table_name"
      · subst h1; rw [get_cons_eq]; exact hn
      · rw [get_cons_ne _ _ _ _ (Ne.symm h1)]
        by_cases h2 : key = "file_offset"
        · subst h2; rw [get_cons_eq]; simp only [ValidVal]; omega
        · rw [get_cons_ne _ _ _ _ (Ne.symm h2)]; simp [Tuple.get, ValidVal])
    (by decide) (ptRow name off) [] []
    (by intro fd _; rfl) henc
  rw [List.append_nil] at hm
  have g1 := hget ⟨"table_name", .varchar, 255⟩ (by simp [pageTableSchema])
  have g2 := hget ⟨"file_offset", .bigint, 0⟩ (by simp [pageTableSchema])
  simp only at g1 g2
  unfold ptEntry
  simp only [hm, g1, g2]
  rfl

/-! ### `updateCellAt` on a leaf of a held tree -/

theorem putNode_hdr {n : Node} {d : Option Bool} {s s' : Store} (h : putNode n d s = .ok () s') :
    s'.hdr = s.hdr := by
  unfold putNode at h
  simp only [SRes.ok.injEq, true_and] at h
  rw [← h]

theorem markDirty_hdr {off lsn : Nat} {s s' : Store} (h : markDirty off lsn s = .ok () s') :
    s'.hdr = s.hdr := by
  unfold markDirty at h
  split at h
  · simp only [SRes.ok.injEq, true_and] at h
    rw [← h]
  · cases h

/-- `updateCell` + `markDirty` on the leaf `l` of a held tree, which holds the key: `setVal` -/
theorem updateCellAt_refines (s : Store) (t : Levels) (key lsn : Nat) (value : Bytes)
    (hH : Holds s t) (hI : Inv t s.hdr.nextFree) (l : Leaf) (d : Bool) (hm : (l, d) ∈ t.leaves)
    (hany : l.cells.any (fun c => c.key == key) = true) (hv : value.length ≤ c_maxValueSize) :
    ∃ s', updateCellAt l.off key value lsn s = .ok () s' ∧ Holds s' (setVal t key lsn value) ∧
      s'.hdr = s.hdr ∧ ∀ off, off ≠ l.off → view s' off = view s off := by
  have hvl : view s l.off = some (.leaf l, d) := holds_leaf hH hm
  obtain ⟨s2, e2, v2, n2, _⟩ := fetch_spec s l.off (.leaf l) d hvl rfl
  obtain ⟨s3, e3, v3, n3⟩ := put_mark s2 l
    { l with cells := l.cells.map fun c => if c.key == key then { c with val := value } else c } d lsn rfl
    (by rw [v2]; exact hvl)
  have hrun : updateCellAt l.off key value lsn s = .ok () s3 := by
    unfold updateCellAt
    simp only [gt_iff_lt, Nat.not_lt.mpr hv, if_false]
    rw [bind_ok e2]
    simp only [hany, Bool.not_true, Bool.false_eq_true, if_false]
    exact e3
  refine ⟨s3, hrun, ?_, ?_, ?_⟩
  · rw [setVal_eq]
    apply holds_updLeaves (fun c => { c with val := value }) key lsn s s3 t hH hI l d hm hany
    rw [v3, v2]
    rfl
  · obtain ⟨u, su, eu, e4⟩ := bind_eq_ok e3
    exact (markDirty_hdr e4).trans ((putNode_hdr eu).trans (fetch_hdr e2))
  · intro off hoff
    rw [v3, v2, upd_other _ _ _ _ hoff]

/-! ### lists with a key that occurs once -/

theorem inj_of_nodup_map {α β} (f : α → β) : ∀ (l : List α), (l.map f).Nodup →
    ∀ a ∈ l, ∀ b ∈ l, f a = f b → a = b
  | [], _, _, h, _, _, _ => by cases h
  | x :: rest, hnd, a, ha, b, hb, hab => by
    simp only [List.map_cons, List.nodup_cons] at hnd
    rcases List.mem_cons.mp ha with rfl | ha'
    · rcases List.mem_cons.mp hb with rfl | hb
      · rfl
      · exact absurd (hab ▸ List.mem_map.mpr ⟨b, hb, rfl⟩) hnd.1
    · 
      rcases List.mem_cons.mp hb with rfl | hb
      · exact absurd (hab ▸ List.mem_map.mpr ⟨a, ha', rfl⟩) hnd.1
      · exact inj_of_nodup_map f rest hnd.2 a ha' b hb hab

theorem inj_of_nodup_filterMap {α β} (g : α → Option β) : ∀ (l : List α), (l.filterMap g).Nodup →
    ∀ a ∈ l, ∀ b ∈ l, ∀ x, g a = some x → g b = some x → a = b
  | [], _, _, h, _, _, _, _, _ => by cases h
  | y :: rest, hnd, a, ha, b, hb, x, hga, hgb => by
    cases hy : g y with
    | none =>
      rw [List.filterMap_cons, hy] at hnd
      rcases List.mem_cons.mp ha with rfl | ha
      · rw [hy] at hga; cases hga
      · rcases List.mem_cons.mp hb with rfl | hb
        · rw [hy] at hgb; cases hgb
        · exact inj_of_nodup_filterMap g rest hnd a ha b hb x hga hgb
    | some z =>
      rw [List.filterMap_cons, hy, List.nodup_cons] at hnd
      rcases List.mem_cons.mp ha with rfl | ha2
      · rcases List.mem_cons.mp hb with rfl | hb2
        · rfl
        · exfalso
          apply hnd.1
          rw [hy] at hga
          simp only [Option.some.injEq] at hga
          rw [hga]
          exact List.mem_filterMap.mpr ⟨b, hb2, hgb⟩
      · rcases List.mem_cons.mp hb with rfl | hb2
        · exfalso
          apply hnd.1
          rw [hy] at hgb
          simp only [Option.some.injEq] at hgb
          rw [hgb]
          exact List.mem_filterMap.mpr ⟨a, ha2, hga⟩
        · exact inj_of_nodup_filterMap g rest hnd.2 a ha2 b hb2 x hga hgb

theorem filterMap_map_of {α β} (g : α → Option β) (U : α → α) (F : β → β) : ∀ (l : List α),
    (∀ a ∈ l, g (U a) = (g a).map F) → (l.map U).filterMap g = (l.filterMap g).map F
  | [], _ => rfl
  | a :: rest, h => by
    have ih := filterMap_map_of g U F rest (fun x hx => h x (List.mem_cons_of_mem _ hx))
    rw [List.map_cons, List.filterMap_cons, List.filterMap_cons, h a List.mem_cons_self]
    cases g a with
    | none => exact ih
    | some b => simp only [Option.map_some, List.map_cons, ih]

theorem names_filterMap (l : List LeafCell) :
    (l.filterMap ptEntry).map (·.1) = l.filterMap (fun c => (ptEntry c).map (·.1)) := by
  induction l with
  | nil => rfl
  | cons a rest ih =>
    rw [List.filterMap_cons, List.filterMap_cons]
    cases ptEntry a with
    | none => exact ih
    | some e => simp only [Option.map_some, List.map_cons, ih]

/-! ### `updatePageTable` -/

/-- the loop body of `updatePageTable` -/
def ptFind (name : Bytes) (c : LeafCell × Nat) : SM (Option ((LeafCell × Nat) × Vals)) := do
  let m ← decodeRow pageTableSchema c.1.val
  if Tuple.get m "table_name" == .str name then pure (some (c, m)) else pure none

theorem updatePageTable_eq (newRoot : Nat) (name : Bytes) :
    updatePageTable newRoot name =
      (getS >>= fun s => scanRight s.hdr.ptRoot >>= fun cells =>
        findFirstM (ptFind name) cells >>= fun hit =>
          match hit with
          | none => throw .pageTableEntryMissing
          | some (c, m) =>
            encodeRow pageTableSchema (("file_offset", .int newRoot) :: m) >>= fun buf =>
            getS >>= fun s =>
            updateCellAt c.2 c.1.key buf s.hdr.nextLSN >>= fun _ =>
            modifyS (fun s => { s with hdr := { s.hdr with nextLSN := s.hdr.nextLSN + 1 } }) >>= fun _ =>
            pure [⟨c_OpUpdate, s.hdr.nextLSN, c.2, c.1.key, buf⟩]) := rfl

/-- what `ptFind` computes -/
def ptFindPure (name : Bytes) (c : LeafCell × Nat) : Option ((LeafCell × Nat) × Vals) :=
  match decRow pageTableSchema c.1.val with
  | some m => if Tuple.get m "table_name" == .str name then some (c, m) else none
  | none => none

theorem ptFind_spec (name : Bytes) (c : LeafCell × Nat) (m : Vals) (s : Store)
    (h : decRow pageTableSchema c.1.val = some m) : ptFind name c s = .ok (ptFindPure name c) s := by
  unfold ptFind ptFindPure
  rw [bind_ok (decodeRow_spec _ _ _ s h), h]
  simp only
  split <;> rfl

theorem decRow_of_ptEntry {c : LeafCell} {e : Bytes × Nat} (h : ptEntry c = some e) :
    ∃ m, decRow pageTableSchema c.val = some m ∧ Tuple.get m "table_name" = .str e.1 := by
  obtain ⟨m, i, hm, h1, _, _⟩ := ptEntry_inv (n := e.1) (off := e.2) h
  exact ⟨m, by unfold decRow; rw [hm], h1⟩

/-- the new entry list: the entry of `name` points to `newRoot` -/
def repoint (name : Bytes) (newRoot : Nat) (e : Bytes × Nat) : Bytes × Nat :=
  if e.1 = name then (name, newRoot) else e

theorem repoint_fst (name : Bytes) (newRoot : Nat) (e : Bytes × Nat) : (repoint name newRoot e).1 = e.1 := by
  unfold repoint; split
  · rename_i h; exact h.symm
  · rfl

/-- **Re-pointing a catalog entry.**  `updatePageTable` finds the row of `name`, rewrites it in
place to `(name, newRoot)` - `setVal` on the page table - and logs one update record; the LSN
counter advances; the entries of the page table are the old ones with `name` re-pointed. -/
theorem updatePageTable_refines (s : Store) (pt : Levels) (name : Bytes) (newRoot old : Nat)
    (hH : Holds s pt) (hI : Inv pt s.hdr.nextFree) (hroot : rootOff pt = s.hdr.ptRoot)
    (hdepth : pt.inner.length + 1 ≤ treeFuel) (hlen : pt.leaves.length ≤ scanFuel)
    (hdec : ∀ c ∈ live pt, ptEntry c ≠ none) (hnd : ((ptEntries pt).map (·.1)).Nodup)
    (he : (name, old) ∈ ptEntries pt) (hnl : name.length + 14 ≤ c_maxValueSize)
    (hbig : (newRoot : Int) ≤ 9223372036854775807) :
    ∃ s' k leafOff, updatePageTable newRoot name s =
        .ok [⟨c_OpUpdate, s.hdr.nextLSN, leafOff, k, ptRow name newRoot⟩] s' ∧
      Holds s' (setVal pt k s.hdr.nextLSN (ptRow name newRoot)) ∧
      s'.hdr.nextFree = s.hdr.nextFree ∧ s'.hdr.lastKey = s.hdr.lastKey ∧ s'.hdr.ptRoot = s.hdr.ptRoot ∧
      s'.hdr.nextLSN = s.hdr.nextLSN + 1 ∧
      (∀ off, off ∉ offs pt → view s' off = view s off) ∧
      ptEntries (setVal pt k s.hdr.nextLSN (ptRow name newRoot)) = (ptEntries pt).map (repoint name newRoot) ∧
      (∀ c ∈ live (setVal pt k s.hdr.nextLSN (ptRow name newRoot)), ptEntry c ≠ none) := by
  obtain ⟨s1, cs, e1, hs1, hcs, hleaf⟩ := scan_cat s pt _ hH hI hdepth hlen
  rw [hroot] at e1
  have hlive : ∀ a ∈ cs, a.1 ∈ live pt := fun a ha => by rw [← hcs]; exact List.mem_map.mpr ⟨a, ha, rfl⟩
  have hg : ∀ a ∈ cs, ptFind name a s1 = .ok (ptFindPure name a) s1 := by
    intro a ha
    cases hp : ptEntry a.1 with
    | none => exact absurd hp (hdec a.1 (hlive a ha))
    | some e =>
      obtain ⟨m, hm, _⟩ := decRow_of_ptEntry hp
      exact ptFind_spec name a m s1 hm
  have hff := findFirstM_pure (ptFind name) (ptFindPure name) s1 cs hg
  -- the row of `name` is there
  obtain ⟨c0, hc0, hpc0⟩ := List.mem_filterMap.mp he
  obtain ⟨a0, ha0, ha0c⟩ : ∃ a0 ∈ cs, a0.1 = c0 := by
    rw [← hcs] at hc0
    obtain ⟨a0, ha0, h⟩ := List.mem_map.mp hc0
    exact ⟨a0, ha0, h⟩
  cases hfs : cs.findSome? (ptFindPure name) with
  | none =>
    exfalso
    have := List.findSome?_eq_none_iff.mp hfs a0 ha0
    rw [← ha0c] at hpc0
    obtain ⟨m, hm, hmn⟩ := decRow_of_ptEntry hpc0
    unfold ptFindPure at this
    rw [hm] at this
    simp [hmn] at this
  | some hit =>
    obtain ⟨c, m⟩ := hit
    obtain ⟨a, ha, hga⟩ := List.exists_of_findSome?_eq_some hfs
    -- what was found
    have hfound : a = c ∧ decRow pageTableSchema c.1.val = some m ∧ Tuple.get m "table_name" = .str name := by
      unfold ptFindPure at hga
      cases hd : decRow pageTableSchema a.1.val with
      | none => rw [hd] at hga; cases hga
      | some m' =>
        rw [hd] at hga
        simp only at hga
        split at hga
        · rename_i hnm
          simp only [Option.some.injEq, Prod.mk.injEq] at hga
          obtain ⟨rfl, rfl⟩ := hga
          refine ⟨rfl, hd, ?_⟩
          cases hv : Tuple.get m' "table_name" with
          | str n =>
            rw [hv, val_str_beq] at hnm
            simp only [decide_eq_true_eq] at hnm
            rw [hnm]
          | int i => rw [hv] at hnm; exact absurd hnm (by simp)
          | bool b => rw [hv] at hnm; exact absurd hnm (by simp)
          | null => rw [hv] at hnm; exact absurd hnm (by simp)
        · cases hga
    obtain ⟨rfl, hdm, hmn⟩ := hfound
    have hal := hlive a ha
    -- its entry is the entry of `name`, so it is the cell `c0`
    have hpa : ∃ o, ptEntry a.1 = some (name, o) := by
      cases hp : ptEntry a.1 with
      | none => exact absurd hp (hdec a.1 hal)
      | some e =>
        obtain ⟨m', hm', hmn'⟩ := decRow_of_ptEntry hp
        rw [hdm] at hm'
        simp only [Option.some.injEq] at hm'
        subst hm'
        rw [hmn] at hmn'
        simp only [Val.str.injEq] at hmn'
        exact ⟨e.2, by rw [hmn']⟩
    obtain ⟨oa, hpa⟩ := hpa
    -- the encoded row
    have hbuf : encodeRow pageTableSchema (("file_offset", .int newRoot) :: m) s1 = .ok (ptRow name newRoot) s1 := by
      unfold encodeRow
      rw [encode_ptRow _ name newRoot (by rw [get_cons_ne _ _ _ _ (by decide)]; exact hmn) (get_cons_eq _ _ _)]
    -- the leaf
    obtain ⟨p, hp, hpo, hcp⟩ := hleaf a ha
    have hany : p.1.cells.any (fun x => x.key == a.1.key) = true := by
      rw [List.any_eq_true]; exact ⟨a.1, hcp, by simp⟩
    have hH1 : Holds s1 pt := hs1.holds hH
    have hI1 : Inv pt s1.hdr.nextFree := by rw [hs1.2]; exact hI
    have hvlen : (ptRow name newRoot).length ≤ c_maxValueSize := by rw [ptRow_length]; exact hnl
    obtain ⟨s2, e2, hH2, hh2, hfr2⟩ := updateCellAt_refines s1 pt a.1.key s1.hdr.nextLSN (ptRow name newRoot)
      hH1 hI1 p.1 p.2 hp hany hvlen
    have hrun : updatePageTable newRoot name s = .ok
        [⟨c_OpUpdate, s1.hdr.nextLSN, a.2, a.1.key, ptRow name newRoot⟩]
        { s2 with hdr := { s2.hdr with nextLSN := s2.hdr.nextLSN + 1 } } := by
      rw [updatePageTable_eq, bind_ok (show getS s = .ok s s from rfl), bind_ok e1, bind_ok hff, hfs]
      simp only
      rw [bind_ok hbuf, bind_ok (show getS s1 = .ok s1 s1 from rfl), hpo, bind_ok e2]
      rfl
    rw [hs1.2] at hrun hH2
    refine ⟨_, a.1.key, a.2, hrun, fun x hx => hH2 x hx, ?_, ?_, ?_, ?_, ?_, ?_, ?_⟩
    · show s2.hdr.nextFree = _; rw [hh2, hs1.2]
    · show s2.hdr.lastKey = _; rw [hh2, hs1.2]
    · show s2.hdr.ptRoot = _; rw [hh2, hs1.2]
    · show s2.hdr.nextLSN + 1 = _; rw [hh2, hs1.2]
    · intro off hoff
      show view s2 off = _
      rw [hfr2 off ?_, hs1.1]
      intro h
      apply hoff
      rw [h, offs_eq]
      exact List.mem_append_left _ (List.mem_map.mpr ⟨p, hp, rfl⟩)
    · -- the entries
      have hkey : ∀ c1 ∈ live pt, ptEntry
          (if c1.key == a.1.key then { c1 with val := ptRow name newRoot } else c1) =
          (ptEntry c1).map (repoint name newRoot) := by
        intro c1 hc1
        have hcells : ∀ x ∈ live pt, x ∈ cells pt := fun x hx => (List.mem_filter.mp hx).1
        have hkn : ((cells pt).map (·.key)).Nodup := by
          have := hI.asc
          unfold KeysAsc keys at this
          exact this.imp (fun h => Nat.ne_of_lt h)
        by_cases hk : c1.key = a.1.key
        · have : c1 = a.1 := inj_of_nodup_map (·.key) _ hkn c1 (hcells _ hc1) a.1 (hcells _ hal) hk
          subst this
          simp only [beq_self_eq_true, if_true, hpa, Option.map_some, repoint]
          exact ptEntry_ptRow _ _ name newRoot (by have : c_maxValueSize = 400 := rfl; omega) hbig
        · have hne : (c1.key == a.1.key) = false := by simpa using hk
          simp only [hne, Bool.false_eq_true, if_false]
          cases hp1 : ptEntry c1 with
          | none => rfl
          | some e1 =>
            simp only [Option.map_some, Option.some.injEq]
            unfold repoint
            rw [if_neg]
            intro hen
            apply hk
            have hnd' := hnd
            unfold ptEntries at hnd'
            rw [names_filterMap] at hnd'
            have : c1 = a.1 := inj_of_nodup_filterMap _ _ hnd' c1 hc1 a.1 hal name
              (by rw [hp1, Option.map_some, hen]) (by rw [hpa]; rfl)
            rw [this]
      unfold ptEntries
      rw [live_setVal]
      exact filterMap_map_of ptEntry _ (repoint name newRoot) (live pt) hkey
    · -- all rows still decode
      intro c2 hc2
      rw [live_setVal] at hc2
      obtain ⟨c1, hc1, rfl⟩ := List.mem_map.mp hc2
      by_cases hk : c1.key = a.1.key
      · simp only [hk, beq_self_eq_true, if_true]
        rw [ptEntry_ptRow _ _ name newRoot (by have : c_maxValueSize = 400 := rfl; omega) hbig]
        simp
      · have hne : (c1.key == a.1.key) = false := by simpa using hk
        simp only [hne, Bool.false_eq_true, if_false]
        exact hdec c1 hc1

end Mkdb.Store
