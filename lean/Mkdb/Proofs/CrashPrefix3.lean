import Mkdb.Proofs.CrashPrefix2
/-!
Crash while a statement appends its records to the log, part 3: **INSERT of the engine.**

* `mapM_take`, `insRunOK_take`: a prefix of an accepted multi-row INSERT is accepted, and the room
  conditions hold for it.
* `InsCut`, `evalInsert_go_cut`: the loop of `evalInsert`, its log cut after `k` records and replayed:
  the state of the loop after `j` rows.
* `evalInsert_cut`: the statement.
-/
set_option autoImplicit false
namespace Mkdb.Store
open Mkdb.Page Mkdb.Tuple Mkdb.Generated Mkdb.Tree

/-! ### prefixes of the rows -/

theorem mapM_take {α β} (f : α → Option β) : ∀ (l : List α) (ys : List β) (j : Nat),
    l.mapM f = some ys → (l.take j).mapM f = some (ys.take j)
  | [], ys, j, h => by
    rw [mapM_nil_some] at h
    subst h
    simp
  | a :: l, ys, 0, _ => by simp
  | a :: l, ys, j + 1, h => by
    obtain ⟨b, bs, hb, hbs, rfl⟩ := (mapM_cons_some f a l ys).mp h
    rw [List.take_succ_cons, List.take_succ_cons, mapM_cons_some]
    exact ⟨b, bs.take j, hb, mapM_take f l bs j hbs, rfl⟩

/-- the room conditions of a statement hold for every prefix of its rows -/
theorem insRunOK_take (schema : List FieldDef) (cols : List String) :
    ∀ (rows : List (List Val)) (t : Levels) (lk lsn nf j : Nat),
      InsRunOK schema cols t lk lsn nf rows → InsRunOK schema cols t lk lsn nf (rows.take j)
  | [], _, _, _, _, _, _ => by simp [InsRunOK]
  | _ :: _, _, _, _, _, 0, _ => by simp [InsRunOK]
  | r :: rest, t, lk, lsn, nf, j + 1, h => by
    rw [List.take_succ_cons]
    intro buf t' nf' he hi
    obtain ⟨a, b, c, d⟩ := h buf t' nf' he hi
    exact ⟨a, b, c, insRunOK_take schema cols rest t' _ _ nf' j d⟩

/-- the test of the column names `specInsert` makes passes for a prefix of the rows when it passes for
the rows -/
theorem namesTest_take {st : Spec.STable} {cols : List Bytes} {rows : List (List Val)} (j : Nat)
    (h : ¬ ((!rows.isEmpty && !Spec.namesOK st (cols.map Spec.nameStr)) = true)) :
    ¬ ((!(rows.take j).isEmpty && !Spec.namesOK st (cols.map Spec.nameStr)) = true) := by
  intro hc
  cases hn : Spec.namesOK st (cols.map Spec.nameStr) with
  | true => rw [hn] at hc; simp at hc
  | false =>
    rw [hn] at h
    cases rows with
    | nil => simp at hc
    | cons a l => simp at h

/-- **A prefix of an accepted multi-row INSERT is accepted** by the plain model; its result is the
database with the corresponding prefix of the new rows appended. -/
theorem specInsert_take {sdb sdb' : Spec.SDB} {table : Bytes} {cols : List Bytes} {rows : List (List Val)}
    (h : Spec.specInsert sdb table cols rows = some sdb') (j : Nat) :
    ∃ sdbJ, Spec.specInsert sdb table cols (rows.take j) = some sdbJ := by
  unfold Spec.specInsert at h ⊢
  cases hf : Spec.findTable sdb table with
  | none => rw [hf] at h; cases h
  | some st =>
    rw [hf] at h
    simp only [Option.bind_eq_bind, Option.bind_some] at h ⊢
    split at h
    · cases h
    rename_i hcond
    rw [if_neg (namesTest_take j hcond)]
    cases hm : rows.mapM (Spec.rowOf st cols) with
    | none => rw [hm] at h; cases h
    | some newRows =>
      rw [mapM_take _ rows newRows j hm]
      exact ⟨_, rfl⟩

/-- No row of the statement moves the root page of its table (the usual case: the root moves only when
an insert splits the root, e.g. the first time a table outgrows one page): whenever the levels insert
of the next row produces a tree, its root is where it was; recursively for the rest of the rows.  Under
this condition every row logs exactly one record. -/
def InsNoMove (schema : List FieldDef) (cols : List String) :
    Levels → Nat → Nat → Nat → List (List Val) → Prop
  | _, _, _, _, [] => True
  | t, lk, lsn, nf, r :: rest =>
    ∀ buf t' nf', encodeTuple schema ((colsOf schema cols).zip r).reverse = .ok buf →
      insertAppend t (lk + 1) lsn buf nf = .ok (t', nf') →
      rootOff t' = rootOff t ∧ InsNoMove schema cols t' (lk + 1) (lsn + 1) nf' rest

/-! ### the loop, cut -/

/-- The state a cut after `k` records of the log `logs` of the loop of `evalInsert` leaves, the log
being replayed on `r`: a number `j` of rows, the store `sJ` of the loop after exactly the rows
`rows.take j` (with its log `logsJ` - of length `j` when no row moves the root, `nomove` - tree `tJ` of
the table, abstracting to the plain-model database
with the first `j` new rows appended), and the replayed store `rK`, which satisfies the catalog
description with the same tables as `sJ` and agrees with it on frontier and row-id counter.  Either
`logsJ = logs.take k` (cut at a row boundary) or `logsJ = logs.take (k+1)` (cut between the two
records of row `j`, whose insert moved the root). -/
def InsCut (db : Engine.DB) (table : Bytes) (cols : List Bytes) (sch : Levels) (s r : Store)
    (tbls : List (Bytes × Levels)) (sdb : Spec.SDB) (newRows : List (List Val))
    (rows : List (List Val)) (batch : List WalRec) (n : Nat) (logs : List WalRec) (nomove : Prop)
    (k : Nat) : Prop :=
  ∃ j sJ ptJ ptR tJ logsJ rK, j ≤ rows.length ∧
    Engine.evalInsert.go db table cols s batch n (rows.take j) =
      .ok (n + j) { store := sJ, wal := db.wal ++ (batch ++ logsJ) } ∧
    Abs sJ ptJ sch (setTable tbls table tJ)
      (sdb.map (updRows table (fun x => x ++ idRows s.hdr.lastKey (newRows.take j)))) ∧
    Engine.replayAll (logs.take k) r = (rK, none, false) ∧
    Cat rK ptR sch (setTable tbls table tJ) ∧
    rK.hdr.nextFree = sJ.hdr.nextFree ∧ rK.hdr.lastKey = sJ.hdr.lastKey ∧
    rK.hdr.nextLSN ≤ sJ.hdr.nextLSN ∧ sJ.hdr.lastKey = s.hdr.lastKey + j ∧
    (nomove → logsJ.length = j) ∧
    ((logsJ = logs.take k ∧ ptR = ptJ) ∨
     (logsJ = logs.take (k + 1) ∧ k + 1 ≤ logs.length ∧ PtRestamp ptR ptJ ∧ ¬ nomove))

/-- **The loop of `evalInsert` over rows the spec accepts, and every cut of its log.** -/
theorem evalInsert_go_cut (db : Engine.DB) (table : Bytes) (cols : List Bytes) (sch : Levels)
    (schema : List FieldDef) (hsch : schemaOf sch table = some schema) :
    ∀ (rows : List (List Val)) (newRows : List (List Val)) (s r : Store) (pt : Levels)
      (tbls : List (Bytes × Levels)) (t : Levels) (sdb : Spec.SDB) (batch : List WalRec) (n : Nat),
      Abs s pt sch tbls sdb → Cat r pt sch tbls → PtSelf pt → FreshM s tbls →
      r.hdr.nextFree = s.hdr.nextFree → r.hdr.lastKey = s.hdr.lastKey → r.hdr.nextLSN ≤ s.hdr.nextLSN →
      (table, t) ∈ tbls →
      (∀ r ∈ rows, ∀ v ∈ r, ValidVal v) →
      rows.mapM (Spec.rowOf ⟨table, schema, []⟩ cols) = some newRows →
      (rows = [] ∨ checkColumns schema (colsOf schema (cols.map Engine.bytesToName)) = none) →
      InsRunOK schema (cols.map Engine.bytesToName) t s.hdr.lastKey s.hdr.nextLSN s.hdr.nextFree rows →
      ∃ s' logs,
        Engine.evalInsert.go db table cols s batch n rows =
          .ok (n + rows.length) { store := s', wal := db.wal ++ (batch ++ logs) } ∧
        (InsNoMove schema (cols.map Engine.bytesToName) t s.hdr.lastKey s.hdr.nextLSN s.hdr.nextFree rows →
          logs.length = rows.length) ∧
        ∀ k, k ≤ logs.length → InsCut db table cols sch s r tbls sdb newRows rows batch n logs
          (InsNoMove schema (cols.map Engine.bytesToName) t s.hdr.lastKey s.hdr.nextLSN s.hdr.nextFree rows)
          k := by
  intro rows
  induction rows with
  | nil =>
    intro newRows s r pt tbls t sdb batch n h hr hself hf e1 e2 e3 ht _ hrows _ _
    rw [mapM_nil_some] at hrows
    subst hrows
    refine ⟨s, [], by simp [Engine.evalInsert.go], fun _ => rfl, ?_⟩
    intro k hk
    simp only [List.length_nil, Nat.le_zero_eq] at hk
    subst hk
    refine ⟨0, s, pt, pt, t, [], r, Nat.le_refl _, by simp [Engine.evalInsert.go], ?_, rfl, ?_, e1, e2, e3, rfl,
      fun _ => rfl, .inl ⟨rfl, rfl⟩⟩
    · rw [setTable_self h.cat.tnames ht]
      simp only [List.take_nil, idRows]
      rw [updRows_id]
      exact h
    · rw [setTable_self h.cat.tnames ht]; exact hr
  | cons row rest ih =>
    intro newRows s r pt tbls t sdb batch n h hr hself hf e1 e2 e3 ht hvalid hrows hnames hrun
    have hnames : checkColumns schema (colsOf schema (cols.map Engine.bytesToName)) = none := by
      cases hnames with
      | inl h0 => cases h0
      | inr h1 => exact h1
    obtain ⟨vs, newRest, hrow, hrest, rfl⟩ := (mapM_cons_some _ _ _ _).mp hrows
    have hstep := insert_step h table t ht schema hsch cols row vs (hvalid row List.mem_cons_self) hrow hnames
      (fun buf t' nf' he hi => by
        obtain ⟨a, b, c, _⟩ := hrun buf t' nf' he hi
        exact ⟨a, b, c⟩)
    obtain ⟨s1, ptF1, logs1, buf, t1, nf1, e1', henc, hins, habs1, hlk1, hnf1, hlsn1⟩ := hstep
    obtain ⟨hd1, hl1, hbig1, hrun1⟩ := hrun buf t1 nf1 henc hins
    rw [← hlk1, ← hnf1, ← hlsn1] at hrun1
    obtain ⟨hlen0, buf0, henc0, hsz0, _⟩ := (specRowOf_some_iff _ cols row vs).mp hrow
    change (colsOf schema (cols.map Engine.bytesToName)).length = row.length at hlen0
    change encodeTuple schema ((colsOf schema (cols.map Engine.bytesToName)).zip row).reverse = .ok buf0 at henc0
    rw [henc] at henc0
    simp only [Except.ok.injEq] at henc0
    subst henc0
    -- the log of the row, replayed
    obtain ⟨_, hIt, _, _, _⟩ := h.cat.tree t (Cat.tb_mem ht)
    obtain ⟨s', ptF, logs', r', erun, hc', hrep, hcr', hselfF, hnf', hnfr, hlk', hlkr, hl, hcase⟩ :=
      replay_insert_logs_cut s r pt sch tbls h.cat hr hself e1 e2 e3 table t ht (cols.map Engine.bytesToName) row
        schema buf hsch hlen0 hnames henc hsz0 t1 nf1 hins hd1 hl1 hbig1 (hf.root ht hIt)
        (hf.pos _ ht _ (rootOff_mem_offs t _ hIt))
    rw [e1'] at erun
    simp only [SRes.ok.injEq] at erun
    obtain ⟨rfl, rfl⟩ := erun
    have hf' : FreshM s1 (setTable tbls table t1) :=
      hf.ins_step ht hins (by rcases hcase with ⟨_, h2, _⟩ | ⟨_, h2, _⟩ <;> omega) hnf'
    have habsF : Abs s1 ptF sch (setTable tbls table t1)
        (sdb.map (updRows table (fun r => r ++ [⟨some (s.hdr.lastKey + 1), vs⟩]))) := ⟨hc', habs1.tabs⟩
    obtain ⟨sE, logs2, ego, hlen2, hcut⟩ := ih newRest s1 r' ptF (setTable tbls table t1) t1 _
      (batch ++ logs1) (n + 1) habsF hcr' hselfF hf' (by rw [hnfr, hnf']) (by rw [hlkr, hlk']) (by omega)
      (mem_setTable_self t1 ht) (fun r' hr' => hvalid r' (List.mem_cons_of_mem _ hr')) hrest
      (.inr hnames) hrun1
    -- when no row moves the root
    have hnm : InsNoMove schema (cols.map Engine.bytesToName) t s.hdr.lastKey s.hdr.nextLSN s.hdr.nextFree
        (row :: rest) → logs1.length = 1 ∧
        InsNoMove schema (cols.map Engine.bytesToName) t1 s1.hdr.lastKey s1.hdr.nextLSN s1.hdr.nextFree rest := by
      intro hno
      obtain ⟨hroot, hno'⟩ := hno buf t1 nf1 henc hins
      rcases hcase with ⟨_, hlsn', hl1'⟩ | ⟨hmv, _⟩
      · rw [hlk', hnf', hlsn']; exact ⟨hl1', hno'⟩
      · exact absurd hroot hmv
    refine ⟨sE, logs1 ++ logs2, ?_, ?_, ?_⟩
    · simp only [Engine.evalInsert.go, e1', ego, List.length_cons]
      rw [List.append_assoc, Nat.add_assoc, Nat.add_comm 1]
    · intro hno
      obtain ⟨h1, h2⟩ := hnm hno
      rw [List.length_append, List.length_cons, h1, hlen2 h2]; omega
    intro k hk
    rw [List.length_append] at hk
    by_cases hk0 : k = 0
    · -- nothing of the statement survived
      subst hk0
      refine ⟨0, s, pt, pt, t, [], r, Nat.zero_le _, by simp [Engine.evalInsert.go], ?_, rfl, ?_, e1, e2, e3, rfl,
        fun _ => rfl, .inl ⟨rfl, rfl⟩⟩
      · rw [setTable_self h.cat.tnames ht]
        simp only [List.take_zero, idRows]
        rw [updRows_id]
        exact h
      · rw [setTable_self h.cat.tnames ht]; exact hr
    by_cases hmid : logs1.length = 2 ∧ k = 1
    · -- the cut between the INSERT record and the catalog record of this row
      obtain ⟨hl2, rfl⟩ := hmid
      rcases hcase with ⟨_, _, hl1'⟩ | ⟨_, hlsn2, _, r1, ptM, key, lsn, v, hrep1, hc1, hptF, hent, a1, a2, a3⟩
      · omega
      · have hno : ¬ InsNoMove schema (cols.map Engine.bytesToName) t s.hdr.lastKey s.hdr.nextLSN s.hdr.nextFree
            (row :: rest) := fun hno => by have := (hnm hno).1; omega
        refine ⟨1, s1, ptF, ptM, t1, logs1, r1, by simp, ?_, ?_, ?_, hc1, by rw [a1, hnf'], by rw [a2, hlk'],
          by omega, hlk', fun h => absurd h hno,
          .inr ⟨?_, by rw [List.length_append]; omega, ⟨key, lsn, v, hptF, hent⟩, hno⟩⟩
        · simp [Engine.evalInsert.go, e1']
        · simp only [List.take_succ_cons, List.take_zero, idRows]
          exact habsF
        · rw [List.take_append_of_le_length (by omega)]; exact hrep1
        · rw [show 1 + 1 = logs1.length by omega, List.take_left]
    · have hge : logs1.length ≤ k := by
        rcases hcase with ⟨_, _, hl1'⟩ | ⟨_, _, hl2, _⟩ <;> omega
      obtain ⟨j, sJ, ptJ, ptR, tJ, logsJ, rK, hj, egoJ, habsJ, hreJ, hcR, b1, b2, b3, b4, b5, hcaseJ⟩ :=
        hcut (k - logs1.length) (by omega)
      have hk' : k = logs1.length + (k - logs1.length) := by omega
      refine ⟨j + 1, sJ, ptJ, ptR, tJ, logs1 ++ logsJ, rK, by rw [List.length_cons]; omega, ?_, ?_, ?_, ?_, b1, b2,
        b3, by rw [b4, hlk']; omega, ?_, ?_⟩
      · simp only [List.take_succ_cons, Engine.evalInsert.go, e1', egoJ]
        rw [List.append_assoc, Nat.add_assoc, Nat.add_comm 1]
      · rw [setTable_setTable, updRows_updRows] at habsJ
        have hfun : (fun r => (r ++ [(⟨some (s.hdr.lastKey + 1), vs⟩ : Spec.SRow)]) ++
              idRows s1.hdr.lastKey (newRest.take j)) =
            (fun r => r ++ idRows s.hdr.lastKey ((vs :: newRest).take (j + 1))) := by
          funext r
          rw [hlk', List.append_assoc]
          rfl
        rw [hfun] at habsJ
        exact habsJ
      · rw [hk', List.take_length_add_append, replayAll_append hrep]; exact hreJ
      · rw [setTable_setTable] at hcR; exact hcR
      · intro hno
        obtain ⟨h1, h2⟩ := hnm hno
        rw [List.length_append, h1, b5 h2]; omega
      · rcases hcaseJ with ⟨a, b⟩ | ⟨a, b, c, d⟩
        · exact .inl ⟨by rw [hk', List.take_length_add_append, a], b⟩
        · refine .inr ⟨?_, by rw [List.length_append]; omega, c, fun hno => d (hnm hno).2⟩
          rw [hk', Nat.add_assoc, List.take_length_add_append, a]

/-! ### the statement -/

/-- **INSERT of the engine, its log cut anywhere and replayed.**  The database `db` abstracts to the
plain-model database `sdb`; `r` is a store with the same catalog description as `db.store` (the store
recovery has rebuilt from the log up to the statement), same frontier and row-id counter.  The plain
model accepts the statement.  Then the engine runs it (`.ok`, the log grows by `logs`), and for EVERY
`k`, replaying the first `k` records of `logs` on `r` ends without error in a store `rK` for which
there is a `j ≤ rows.length` with:
* the plain model accepts `INSERT … (rows.take j)`, with result `sdbJ'`;
* the engine run on `rows.take j` alone ends in `dbJ`, whose store abstracts to `sdbJ` - `sdbJ'` with
  the row ids filled in;
* `rK` abstracts to the same `sdbJ`, with the same trees for all tables (`setTable tbls table tJ`) and
  `sys_schema`, page for page; frontier and row-id counter are those of `dbJ` (row ids are not reused);
* the cut is a row boundary (`logsJ = logs.take k`, equal page tables), or it fell between the INSERT
  record and the catalog record of row `j` (`logsJ = logs.take (k+1)`, page tables equal up to one
  LSN stamp); the second case needs a row that moves the root of the table: under `InsNoMove` every row
  logs one record (`logs.length = rows.length`, `logsJ.length = j`) and only the first case remains. -/
theorem evalInsert_cut (db : Engine.DB) (r : Store) (pt sch : Levels) (tbls : List (Bytes × Levels))
    (sdb sdb' : Spec.SDB) (h : Abs db.store pt sch tbls sdb) (hr : Cat r pt sch tbls) (hself : PtSelf pt)
    (hf : FreshM db.store tbls) (e1 : r.hdr.nextFree = db.store.hdr.nextFree)
    (e2 : r.hdr.lastKey = db.store.hdr.lastKey) (e3 : r.hdr.nextLSN ≤ db.store.hdr.nextLSN)
    (table : Bytes) (t : Levels) (ht : (table, t) ∈ tbls)
    (schema : List FieldDef) (hsch : schemaOf sch table = some schema)
    (cols : List Bytes) (rows : List (List Val)) (hvalid : ∀ r ∈ rows, ∀ v ∈ r, ValidVal v)
    (hspec : Spec.specInsert sdb table cols rows = some sdb')
    (hrun : InsRunOK schema (cols.map Engine.bytesToName) t db.store.hdr.lastKey db.store.hdr.nextLSN
      db.store.hdr.nextFree rows) :
    ∃ dbC logs, Engine.evalInsert db table cols rows = .ok rows.length dbC ∧ dbC.wal = db.wal ++ logs ∧
      (InsNoMove schema (cols.map Engine.bytesToName) t db.store.hdr.lastKey db.store.hdr.nextLSN
        db.store.hdr.nextFree rows → logs.length = rows.length) ∧
      ∀ k, ∃ j dbJ sdbJ sdbJ' ptJ ptR tJ logsJ rK, j ≤ rows.length ∧
        Spec.specInsert sdb table cols (rows.take j) = some sdbJ' ∧ valsOf sdbJ = valsOf sdbJ' ∧
        Engine.evalInsert db table cols (rows.take j) = .ok j dbJ ∧ dbJ.wal = db.wal ++ logsJ ∧
        Abs dbJ.store ptJ sch (setTable tbls table tJ) sdbJ ∧
        Engine.replayAll (logs.take k) r = (rK, none, false) ∧
        Abs rK ptR sch (setTable tbls table tJ) sdbJ ∧
        (∀ x ∈ sch :: (setTable tbls table tJ).map (·.2), ∀ o ∈ offs x, view rK o = view dbJ.store o) ∧
        rK.hdr.nextFree = dbJ.store.hdr.nextFree ∧ rK.hdr.lastKey = dbJ.store.hdr.lastKey ∧
        rK.hdr.nextLSN ≤ dbJ.store.hdr.nextLSN ∧ dbJ.store.hdr.lastKey = db.store.hdr.lastKey + j ∧
        (InsNoMove schema (cols.map Engine.bytesToName) t db.store.hdr.lastKey db.store.hdr.nextLSN
          db.store.hdr.nextFree rows → logsJ.length = j) ∧
        ((logsJ = logs.take k ∧ ptR = ptJ) ∨
         (logsJ = logs.take (k + 1) ∧ k + 1 ≤ logs.length ∧ PtRestamp ptR ptJ ∧
          ¬ InsNoMove schema (cols.map Engine.bytesToName) t db.store.hdr.lastKey db.store.hdr.nextLSN
            db.store.hdr.nextFree rows)) := by
  obtain ⟨schema', hsch', _, hfind⟩ := h.tabs.find h.cat.tnames ht
  rw [hsch] at hsch'
  simp only [Option.some.injEq] at hsch'
  subst hsch'
  have hnames : rows = [] ∨ checkColumns schema (colsOf schema (cols.map Engine.bytesToName)) = none := by
    cases rows with
    | nil => exact .inl rfl
    | cons r rest =>
      exact .inr (checkColumns_of_namesOK (absTable table schema t) cols (h.tabs.names_nodup ht hsch)
        (specInsert_namesOK hfind hspec))
  unfold Spec.specInsert at hspec
  rw [hfind] at hspec
  simp only [Option.bind_eq_bind, Option.bind_some] at hspec
  split at hspec
  · cases hspec
  rename_i hcond
  cases hm : rows.mapM (Spec.rowOf (absTable table schema t) cols) with
  | none => rw [hm] at hspec; cases hspec
  | some newRows =>
    obtain ⟨sC, logs, ego, hlenC, hcut⟩ := evalInsert_go_cut db table cols sch schema hsch rows newRows db.store r
      pt tbls t sdb [] 0 h hr hself hf e1 e2 e3 ht hvalid hm hnames hrun
    refine ⟨{ store := sC, wal := db.wal ++ ([] ++ logs) }, logs, ?_, by simp only [List.nil_append], hlenC, ?_⟩
    · unfold Engine.evalInsert
      rw [ego, Nat.zero_add]
    intro k
    obtain ⟨j, sJ, ptJ, ptR, tJ, logsJ, rK, hj, egoJ, habsJ, hreJ, hcR, b1, b2, b3, b4, b5, hcaseJ⟩ :=
      hcut (min k logs.length) (Nat.min_le_right _ _)
    have htk : logs.take (min k logs.length) = logs.take k := by
      rw [List.take_eq_take_iff]; omega
    rw [htk] at hreJ
    refine ⟨j, { store := sJ, wal := db.wal ++ ([] ++ logsJ) },
      sdb.map (updRows table (fun x => x ++ idRows db.store.hdr.lastKey (newRows.take j))),
      sdb.map (updRows table (fun x => x ++ (newRows.take j).map fun v => ⟨none, v⟩)),
      ptJ, ptR, tJ, logsJ, rK, hj, ?_, ?_, ?_,
      by simp only [List.nil_append], habsJ, hreJ, ⟨hcR, habsJ.tabs⟩, habsJ.cat.same_pages_tables hcR, b1, b2, b3,
      b4, b5, ?_⟩
    · unfold Spec.specInsert
      rw [hfind]
      simp only [Option.bind_eq_bind, Option.bind_some]
      rw [if_neg (namesTest_take j hcond), mapM_take _ rows newRows j hm]
      rfl
    · exact valsOf_updRows table (fun r => r ++ idRows db.store.hdr.lastKey (newRows.take j))
        (fun r => r ++ (newRows.take j).map fun v => ⟨none, v⟩) sdb (fun rs => by
        simp only [List.map_append, idRows_vals, List.map_map]
        congr 1
        conv => lhs; rw [← List.map_id (newRows.take j)]
        apply List.map_congr_left
        intro v _
        rfl)
    · unfold Engine.evalInsert
      rw [egoJ, Nat.zero_add]
    · rcases hcaseJ with ⟨a, b⟩ | ⟨a, b, c, d⟩
      · exact .inl ⟨by rw [a, htk], b⟩
      · have hkl : min k logs.length = k := by omega
        rw [hkl] at a b
        exact .inr ⟨a, b, c, d⟩

end Mkdb.Store
