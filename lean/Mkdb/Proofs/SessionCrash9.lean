import Mkdb.Proofs.SessionCrash8
import Mkdb.Proofs.ReplayCounter
/-!
Sessions and crashes, part 9: **a refusal that moves the counters** (an INSERT whose first row is refused
inside the tree insert - too large for a page cell - after the row-id counter and the LSN counter were
advanced; no log record is written, no page is changed).

* `Drift sch s tbls s'`: a step after which every catalog description of `s` still describes `s'`, the
  allocation frontier is the same and the row-id / LSN counters did not go down.
* `LiveRunB`: live runs (`LiveRunM`) separated by such steps.
* `replay_insert_logs_le`, `replay_history_mixed_le`, `live_runB_replay`: the replay theorems of `ReplayMixed2`
  for a replay store whose row-id counter is BEHIND the live one (recovery raises it to the key of every INSERT
  record it replays, so it catches up at the next logged INSERT).
* `DbCrashB`: `DbCrashL` with `LiveRunB`; `DbCrashB.recover`, `.flush`, `.same`, `.step`, `.drift`.
* `SessCrashB`, `firstRowRefused_sessCrashB`, `runOps_cinvB`.
-/
set_option autoImplicit false
namespace Mkdb.Store
open Mkdb.Page Mkdb.Tuple Mkdb.Generated Mkdb.Tree Mkdb.Engine

/-- `replay_insert_logs_gen` for a replay store whose row-id counter may be behind the live one -/
theorem replay_insert_logs_le (s r : Store) (pt sch : Levels) (tbls : List (Bytes × Levels))
    (h : Cat s pt sch tbls) (hr : Cat r pt sch tbls) (hself : PtSelf pt)
    (hrnf : r.hdr.nextFree = s.hdr.nextFree) (hrlk : r.hdr.lastKey ≤ s.hdr.lastKey)
    (hrlsn : r.hdr.nextLSN ≤ s.hdr.nextLSN)
    (table : Bytes) (t : Levels) (ht : (table, t) ∈ tbls) (cols : List String) (vals : List Val)
    (schema : List FieldDef) (buf : Bytes) (hsch : schemaOf sch table = some schema)
    (hcols : (colsOf schema cols).length = vals.length)
    (hnames : checkColumns schema (colsOf schema cols) = none)
    (henc : encodeTuple schema ((colsOf schema cols).zip vals).reverse = .ok buf)
    (hlen : buf.length ≤ c_maxValueSize)
    (t' : Levels) (nf' : Nat)
    (hins : insertAppend t (s.hdr.lastKey + 1) s.hdr.nextLSN buf s.hdr.nextFree = .ok (t', nf'))
    (hd' : t'.inner.length + 2 ≤ treeFuel) (hl' : t'.leaves.length ≤ scanFuel)
    (hbig : (nf' : Int) ≤ 9223372036854775807)
    (hlsn : rootLSN t < s.hdr.nextLSN) (hpos : 0 < rootOff t) :
    ∃ s' ptF logs r', insert table cols vals s = .ok logs s' ∧
      Cat s' ptF sch (setTable tbls table t') ∧
      replayAll logs r = (r', none, false) ∧
      Cat r' ptF sch (setTable tbls table t') ∧ PtSelf ptF ∧
      ptEntries ptF = (ptEntries pt).map (repoint table (rootOff t')) ∧
      s'.hdr.nextFree = nf' ∧ r'.hdr.nextFree = nf' ∧
      s'.hdr.lastKey = s.hdr.lastKey + 1 ∧ r'.hdr.lastKey = s.hdr.lastKey + 1 ∧
      r'.hdr.nextLSN + 1 = s'.hdr.nextLSN ∧
      ((rootOff t' = rootOff t ∧ s'.hdr.nextLSN = s.hdr.nextLSN + 1 ∧ logs.length = 1) ∨
       (rootOff t' ≠ rootOff t ∧ s'.hdr.nextLSN = s.hdr.nextLSN + 2 ∧ logs.length = 2)) := by
  obtain ⟨s', ptF, logs, erun, hc', hlk', hnf', hcase⟩ := insert_refines' s pt sch tbls h table t ht cols vals
    schema buf hsch hcols hnames henc hlen t' nf' hins hd' hl' hbig
  have hinsr : insertAppend t (s.hdr.lastKey + 1) s.hdr.nextLSN buf r.hdr.nextFree = .ok (t', nf') := by
    rw [hrnf]; exact hins
  obtain ⟨r1, ptF1, hrun1, hc1, hself1, hnf1, hlk1, hlsn1, hpr1, hent1, hcase1, _⟩ :=
    replay_insert_record r pt sch tbls hr hself table t ht (s.hdr.lastKey + 1) s.hdr.nextLSN buf hlsn hpos
      t' nf' hinsr hd' hl' hbig
  have hlk1' : r1.hdr.lastKey = s.hdr.lastKey + 1 := by rw [hlk1]; omega
  have hlsn1' : r1.hdr.nextLSN = s.hdr.nextLSN := by rw [hlsn1]; omega
  rcases hcase with ⟨hmove, rfl, hlsn', rfl⟩ | ⟨hmove, hlsn', a, p, hal, hpa, hp, hap, rfl, rfl⟩
  · -- the root did not move: one record
    rcases hcase1 with ⟨_, rfl⟩ | ⟨hm, _⟩
    · refine ⟨s', ptF1, _, r1, erun, hc', ?_, hc1, hself1, hent1, hnf', hnf1, hlk', hlk1', by omega,
        .inl ⟨hmove, hlsn', rfl⟩⟩
      rw [replayAll_cons_ok' hrun1]; rfl
    · exact absurd hmove hm
  · -- the root moved: the INSERT record, then the catalog UPDATE record
    rcases hcase1 with ⟨hm, _⟩ | ⟨_, a1, p1, hal1, hpa1, _, _, rfl⟩
    · exact absurd hm hmove
    · have haa : a1 = a := row_unique pt h.names a1 a hal1 hal table _ _ hpa1 hpa
      subst haa
      -- the page table after the first record, and its leaf holding the row
      obtain ⟨hH1, hI1, _, _, _⟩ := hc1.tree _ Cat.pt_mem
      have hany : p.1.cells.any (fun c => c.key == a1.key) = true :=
        List.any_eq_true.mpr ⟨a1, hap, by simp⟩
      have hm2 := mem_setVal_leaf pt p hp a1.key s.hdr.nextLSN (ptRow table (rootOff t')) hany
      have hany2 : (p.1.cells.map (fun c => if c.key == a1.key then
          { c with val := ptRow table (rootOff t') } else c)).any (fun c => c.key == a1.key) = true := by
        rw [RedoLink.any_key_map p.1.cells _ (fun c => by split <;> rfl) a1.key]
        exact hany
      have hvlen : (ptRow table (rootOff t')).length ≤ c_maxValueSize := by
        rw [ptRow_length]; exact h.tlen (table, t) ht
      obtain ⟨r2, hrun2, hH2, hh2, hfr2⟩ := replay_update_held r1 _ hH1 hI1 _ true hm2 a1.key
        (s.hdr.nextLSN + 1) (ptRow table (rootOff t')) hany2 hvlen (Nat.lt_succ_self _)
      have hss := setVal_setVal pt a1.key s.hdr.nextLSN (s.hdr.nextLSN + 1) (ptRow table (rootOff t'))
      obtain ⟨_, hIpt, _, _, _⟩ := h.tree pt Cat.pt_mem
      have hInv' : Inv t' nf' := insertAppend_inv t t' _ _ _ nf' buf (h.tree t (Cat.tb_mem ht)).2.1 hins
      have hroot_lt : rootOff t' < nf' := hInv'.offs.2 _ (rootOff_mem_offs t' nf' hInv')
      obtain ⟨hentF, hdecF⟩ := ptEntries_setVal_row pt _ hIpt h.names a1 hal table (rootOff t) (rootOff t')
        (s.hdr.nextLSN + 1) hpa (h.tlen (table, t) ht) (by omega)
      have hpoff : p.1.off ∈ offs pt := by
        rw [offs_eq]
        exact List.mem_append_left _ (List.mem_map.mpr ⟨p, hp, rfl⟩)
      have hc2 := hc1.setVal_pt (s' := r2) a1.key (s.hdr.nextLSN + 1) (ptRow table (rootOff t'))
        (by rw [hss, hentF, hent1]) (by rw [hss]; exact hdecF h.dec) hH2
        (fun off ho => hfr2 off (fun he => ho (by rw [offs_setVal, he]; exact hpoff)))
        (by rw [hh2]) (by rw [hh2]; exact Nat.le_refl _) (by rw [hh2])
      rw [hss] at hc2
      have hne : table ≠ sysPages := fun he => h.tsys.1 (he ▸ List.mem_map.mpr ⟨(table, t), ht, rfl⟩)
      have hF : PtLike pt (setVal pt a1.key (s.hdr.nextLSN + 1) (ptRow table (rootOff t'))) :=
        .inr ⟨_, _, _, rfl⟩
      refine ⟨s', _, _, r2, erun, hc', ?_, hc2, hself.repoint hentF hne hF.facts.1, hentF, hnf',
        by rw [hh2]; exact hnf1, hlk', by rw [hh2]; exact hlk1', ?_, .inr ⟨hmove, hlsn', rfl⟩⟩
      · rw [replayAll_cons_ok' hrun1, replayAll_cons_ok' hrun2]; rfl
      · rw [hh2, hlsn']
        show max r1.hdr.nextLSN (s.hdr.nextLSN + 1) + 1 = _
        rw [hlsn1']; omega



/-- every page of every user table carries an LSN of at most `b` -/
def LsnR (b : Nat) (tbls : List (Bytes × Levels)) : Prop :=
  ∀ e ∈ tbls, ∀ x ∈ flatten e.2, nodeLSN x.2.1 ≤ b

theorem LsnR.of_fresh {s : Store} {tbls : List (Bytes × Levels)} (hf : FreshM s tbls) {b : Nat}
    (hb : s.hdr.nextLSN ≤ b + 1) : LsnR b tbls := fun e he x hx => by
  have := hf.lsn e he x hx; omega

/-- `replay_history_mixed_gen` for a replay store whose row-id counter may be behind the live one; in addition
the pages of the user tables carry LSNs of at most the replayed LSN counter -/
theorem replay_history_mixed_le (sch : Levels) {s0 sN : Store} {tbls tblsN : List (Bytes × Levels)}
    {stmts : List RStmt} {logs : List WalRec} (run : LiveRunM sch s0 tbls stmts sN tblsN logs) :
    ∀ (pt : Levels) (r0 : Store), Cat s0 pt sch tbls → Cat r0 pt sch tbls → PtSelf pt → FreshM s0 tbls →
      r0.hdr.nextFree = s0.hdr.nextFree → r0.hdr.lastKey ≤ s0.hdr.lastKey →
      r0.hdr.nextLSN ≤ s0.hdr.nextLSN → LsnR r0.hdr.nextLSN tbls →
      ∃ ptN rN, replayAll logs r0 = (rN, none, false) ∧
        Cat sN ptN sch tblsN ∧ Cat rN ptN sch tblsN ∧ PtSelf ptN ∧ FreshM sN tblsN ∧
        rN.hdr.nextFree = sN.hdr.nextFree ∧ rN.hdr.lastKey ≤ sN.hdr.lastKey ∧
        rN.hdr.nextLSN ≤ sN.hdr.nextLSN ∧ LsnR rN.hdr.nextLSN tblsN := by
  induction run with
  | nil s tbls =>
    intro pt r0 h hr hself hf e1 e2 e3 e4
    exact ⟨pt, r0, rfl, h, hr, hself, hf, e1, e2, e3, e4⟩
  | @same s s1 s2 tbls tbls2 stmts logs hs _ ih =>
    intro pt r0 h hr hself hf e1 e2 e3 e4
    exact ih pt r0 (h.of_same hs) hr hself
      (hf.of_hdr (by rw [hs.2]; exact Nat.le_refl _) (by rw [hs.2]; exact Nat.le_refl _))
      (by rw [hs.2]; exact e1) (by rw [hs.2]; exact e2) (by rw [hs.2]; exact e3) e4
  | @ins s s1 s2 tbls tbls2 rest logs logs2 table cols vals t schema buf t' nf' ht hsch hcols hnames henc hlen hins
      hd' hl' hbig hrun _ ih =>
    intro pt r0 h hr hself hf e1 e2 e3 e4
    obtain ⟨_, hIt, _, _, _⟩ := h.tree t (Cat.tb_mem ht)
    obtain ⟨s', ptF, logs', r', erun, hc', hrep, hcr', hselfF, _, hnf', hnfr, hlk', hlkr, hl, hcase⟩ :=
      replay_insert_logs_le s r0 pt sch tbls h hr hself e1 e2 e3 table t ht cols vals schema buf
        hsch hcols hnames henc hlen t' nf' hins hd' hl' hbig (hf.root ht hIt)
        (hf.pos _ ht _ (rootOff_mem_offs t _ hIt))
    rw [hrun] at erun
    simp only [SRes.ok.injEq] at erun
    obtain ⟨rfl, rfl⟩ := erun
    have hf' : FreshM s1 (setTable tbls table t') :=
      hf.ins_step ht hins (by rcases hcase with ⟨_, h2, _⟩ | ⟨_, h2, _⟩ <;> omega) hnf'
    obtain ⟨ptN, rN, e, c⟩ := ih ptF r' hc' hcr' hselfF hf' (by rw [hnfr, hnf'])
      (by rw [hlkr, hlk']; exact Nat.le_refl _) (by omega) (LsnR.of_fresh hf' (by omega))
    exact ⟨ptN, rN, by rw [replayAll_append hrep]; exact e, c⟩
  | @upd s s1 s2 tbls tbls2 rest logs logs2 table rowId cols src t schema c m buf ht hsch hc hk hdec henc hlen
      hrun _ ih =>
    intro pt r0 h hr hself hf e1 e2 e3 e4
    obtain ⟨s', logs', r', erun, hc', hrep, hcr', hf', a1, a2, a3, a4, a5, _⟩ :=
      replay_update_logs_gen s r0 pt sch tbls h hr hf e3 table t ht schema hsch rowId cols src
        (update_ok_names h ht hsch hrun) c hc hk m buf hdec henc hlen
    rw [hrun] at erun
    simp only [SRes.ok.injEq] at erun
    obtain ⟨rfl, rfl⟩ := erun
    obtain ⟨ptN, rN, e, c⟩ := ih pt r' hc' hcr' hself hf' (by rw [a3, a1, e1]) (by rw [a4, a2]; exact e2) (by omega)
      (LsnR.of_fresh hf' (by omega))
    exact ⟨ptN, rN, by rw [replayAll_append hrep]; exact e, c⟩
  | @updAbsent s s1 s2 tbls tbls2 rest logs logs2 table rowId cols src t schema ht hsch habs hrun _ ih =>
    intro pt r0 h hr hself hf e1 e2 e3 e4
    obtain ⟨s', erun, hs, hc'⟩ := update_cat_absent h table t ht schema hsch rowId cols src
      (update_ok_names h ht hsch hrun) habs
    rw [hrun] at erun
    simp only [SRes.ok.injEq] at erun
    obtain ⟨rfl, rfl⟩ := erun
    have hf' : FreshM s1 tbls := hf.of_hdr (by rw [hs.2]; exact Nat.le_refl _) (by rw [hs.2]; exact Nat.le_refl _)
    obtain ⟨ptN, rN, e, c⟩ := ih pt r0 hc' hr hself hf' (by rw [hs.2]; exact e1) (by rw [hs.2]; exact e2)
      (by rw [hs.2]; exact e3) e4
    exact ⟨ptN, rN, by rw [List.nil_append]; exact e, c⟩
  | @del s s1 s2 tbls tbls2 rest logs logs2 table rowId t c ht hc hk hrun _ ih =>
    intro pt r0 h hr hself hf e1 e2 e3 e4
    obtain ⟨s', logs', r', erun, hc', hrep, hcr', hf', a1, a2, a3, a4, a5, _⟩ :=
      replay_delete_logs_gen s r0 pt sch tbls h hr hf e3 table t ht rowId c hc hk
    rw [hrun] at erun
    simp only [SRes.ok.injEq] at erun
    obtain ⟨rfl, rfl⟩ := erun
    obtain ⟨ptN, rN, e, c⟩ := ih pt r' hc' hcr' hself hf' (by rw [a3, a1, e1]) (by rw [a4, a2]; exact e2) (by omega)
      (LsnR.of_fresh hf' (by omega))
    exact ⟨ptN, rN, by rw [replayAll_append hrep]; exact e, c⟩

/-! ### live runs separated by steps that only move the counters -/

/-- a step after which every catalog description of `s` (for `sch`, `tbls`) still describes `s'`, the
allocation frontier is the same, and the row-id and LSN counters did not go down -/
structure Drift (sch : Levels) (s : Store) (tbls : List (Bytes × Levels)) (s' : Store) : Prop where
  cat : ∀ pt, Cat s pt sch tbls → Cat s' pt sch tbls
  nf : s'.hdr.nextFree = s.hdr.nextFree
  lk : s.hdr.lastKey ≤ s'.hdr.lastKey
  lsn : s.hdr.nextLSN ≤ s'.hdr.nextLSN

/-- live runs (`LiveRunM`) separated by `Drift` steps; `logs`: all the records written -/
inductive LiveRunB (sch : Levels) : Store → List (Bytes × Levels) → Store → List (Bytes × Levels) → List WalRec → Prop
  | one {s s1 : Store} {tbls tbls1 : List (Bytes × Levels)} {stmts : List RStmt} {logs : List WalRec}
      (run : LiveRunM sch s tbls stmts s1 tbls1 logs) : LiveRunB sch s tbls s1 tbls1 logs
  | drift {s s1 s2 s3 : Store} {tbls tbls1 tbls3 : List (Bytes × Levels)} {stmts : List RStmt}
      {logs logs2 : List WalRec} (run : LiveRunM sch s tbls stmts s1 tbls1 logs) (hd : Drift sch s1 tbls1 s2)
      (rest : LiveRunB sch s2 tbls1 s3 tbls3 logs2) : LiveRunB sch s tbls s3 tbls3 (logs ++ logs2)

theorem LiveRunB.append_run {sch : Levels} {s s1 s2 : Store} {tbls tbls1 tbls2 : List (Bytes × Levels)}
    {stmts : List RStmt} {l1 l2 : List WalRec} (h1 : LiveRunB sch s tbls s1 tbls1 l1)
    (h2 : LiveRunM sch s1 tbls1 stmts s2 tbls2 l2) : LiveRunB sch s tbls s2 tbls2 (l1 ++ l2) := by
  induction h1 with
  | one run => exact .one (run.append h2)
  | drift run hd _ ih =>
    rw [List.append_assoc]
    exact .drift run hd (ih h2)

theorem LiveRunB.append_drift {sch : Levels} {s s1 s2 : Store} {tbls tbls1 : List (Bytes × Levels)}
    {l1 : List WalRec} (h1 : LiveRunB sch s tbls s1 tbls1 l1) (h2 : Drift sch s1 tbls1 s2) :
    LiveRunB sch s tbls s2 tbls1 l1 := by
  induction h1 with
  | one run =>
    have := LiveRunB.drift run h2 (.one (.nil _ _))
    rwa [List.append_nil] at this
  | drift run hd _ ih => exact .drift run hd (ih h2)

/-- **Crash with nothing flushed since the checkpoint**, for live runs separated by counter moves -/
theorem live_runB_replay (sch : Levels) {s0 sN : Store} {tbls tblsN : List (Bytes × Levels)}
    {logs : List WalRec} (run : LiveRunB sch s0 tbls sN tblsN logs) :
    ∀ (pt : Levels) (r0 : Store), Cat s0 pt sch tbls → Cat r0 pt sch tbls → PtSelf pt → FreshM s0 tbls →
      r0.hdr.nextFree = s0.hdr.nextFree → r0.hdr.lastKey ≤ s0.hdr.lastKey →
      r0.hdr.nextLSN ≤ s0.hdr.nextLSN → LsnR r0.hdr.nextLSN tbls →
      ∃ ptN rN, replayAll logs r0 = (rN, none, false) ∧
        Cat sN ptN sch tblsN ∧ Cat rN ptN sch tblsN ∧ PtSelf ptN ∧ FreshM sN tblsN ∧
        rN.hdr.nextFree = sN.hdr.nextFree ∧ rN.hdr.lastKey ≤ sN.hdr.lastKey ∧
        rN.hdr.nextLSN ≤ sN.hdr.nextLSN ∧ LsnR rN.hdr.nextLSN tblsN := by
  induction run with
  | one run => exact replay_history_mixed_le sch run
  | @drift s s1 s2 s3 tbls tbls1 tbls3 stmts logs logs2 run hd _ ih =>
    intro pt r0 h hr hself hf e1 e2 e3 e4
    obtain ⟨pt1, r1, e, c1, c2, hself1, hf1, a1, a2, a3, a4⟩ :=
      replay_history_mixed_le sch run pt r0 h hr hself hf e1 e2 e3 e4
    obtain ⟨ptN, rN, e', c⟩ := ih pt1 r1 (hd.cat pt1 c1) c2 hself1 (hf1.of_hdr hd.lsn (by rw [hd.nf]; exact Nat.le_refl _))
      (by rw [hd.nf]; exact a1) (Nat.le_trans a2 hd.lk) (Nat.le_trans a3 hd.lsn) a4
    exact ⟨ptN, rN, by rw [replayAll_append e]; exact e', c⟩

/-- every record of the log is applied on the live store and below its LSN counter -/
theorem live_runB_applied (sch : Levels) {s0 sN : Store} {tbls tblsN : List (Bytes × Levels)}
    {logs : List WalRec} (run : LiveRunB sch s0 tbls sN tblsN logs) :
    ∀ (pt : Levels) (old : List WalRec), Cat s0 pt sch tbls →
      (∀ r ∈ old, AppliedC pt sch tbls r) → (∀ r ∈ old, r.lsn < s0.hdr.nextLSN) →
      ∃ ptN, Cat sN ptN sch tblsN ∧ (∀ r ∈ old ++ logs, AppliedC ptN sch tblsN r) ∧
        (∀ r ∈ old ++ logs, r.lsn < sN.hdr.nextLSN) := by
  induction run with
  | one run =>
    intro pt old h ha hl
    obtain ⟨ptN, c, a1, a2, _⟩ := live_run_applied sch run pt old h ha hl
    exact ⟨ptN, c, a1, a2⟩
  | @drift s s1 s2 s3 tbls tbls1 tbls3 stmts logs logs2 run hd _ ih =>
    intro pt old h ha hl
    obtain ⟨pt1, c, a1, a2, _⟩ := live_run_applied sch run pt old h ha hl
    obtain ⟨ptN, c', b1, b2⟩ := ih pt1 (old ++ logs) (hd.cat pt1 c) a1
      (fun r hr => Nat.lt_of_lt_of_le (a2 r hr) hd.lsn)
    rw [List.append_assoc] at b1 b2
    exact ⟨ptN, c', b1, b2⟩

/-- the clean pages at the end are pages the run started with -/
theorem live_runB_pages (P : Nat × Node × Bool → Prop) (sch : Levels) {s0 sN : Store}
    {tbls tblsN : List (Bytes × Levels)} {logs : List WalRec}
    (run : LiveRunB sch s0 tbls sN tblsN logs) :
    ∀ (pt : Levels), Cat s0 pt sch tbls → OldOrDirty P pt sch tbls →
      ∃ ptN, Cat sN ptN sch tblsN ∧ OldOrDirty P ptN sch tblsN := by
  induction run with
  | one run => exact live_run_pages P sch run
  | @drift s s1 s2 s3 tbls tbls1 tbls3 stmts logs logs2 run hd _ ih =>
    intro pt h ho
    obtain ⟨pt1, c, o⟩ := live_run_pages P sch run pt h ho
    exact ih pt1 (hd.cat pt1 c) o

/-- no logged INSERT key is beyond the row-id counter -/
theorem live_runB_keys (sch : Levels) {s0 sN : Store} {tbls tblsN : List (Bytes × Levels)}
    {logs : List WalRec} (run : LiveRunB sch s0 tbls sN tblsN logs) :
    ∀ (pt : Levels) (old : List WalRec), Cat s0 pt sch tbls →
      (∀ r ∈ old, r.op = c_OpInsert → r.cell ≤ s0.hdr.lastKey) →
      (∀ r ∈ old ++ logs, r.op = c_OpInsert → r.cell ≤ sN.hdr.lastKey) := by
  induction run with
  | one run =>
    intro pt old h hk
    exact (live_run_keys sch run pt old h hk).1
  | @drift s s1 s2 s3 tbls tbls1 tbls3 stmts logs logs2 run hd _ ih =>
    intro pt old h hk
    obtain ⟨pt1, c, _⟩ := live_run_pages (fun _ => True) sch run pt h (fun x _ e _ => .inr trivial)
    have a := (live_run_keys sch run pt old h hk).1
    have := ih pt1 (old ++ logs) (hd.cat pt1 c) (fun r hr hop => Nat.le_trans (a r hr hop) hd.lk)
    rwa [List.append_assoc] at this


/-! ### the crash invariant of a database, up to the cache and the counters -/

/-- **The crash invariant of a database in use, up to the cache and the counters**: `DbCrashL` with live runs
separated by steps that only move the row-id / LSN counters forward. -/
def DbCrashB (db : Engine.DB) (sdb : Spec.SDB) : Prop :=
  ∃ sch db0 sdb0 pt0 tbls0 ptN tblsN logs,
    Ckpt sch db0 sdb0 pt0 tbls0 ∧ NoStale sch tblsN ∧
    LiveRunB sch db0.store tbls0 db.store tblsN logs ∧ db.wal = db0.wal ++ logs ∧
    AbsV db.store ptN sch tblsN sdb ∧ MemFiled db.store ∧ DiskSame db0.store db.store

theorem ckpt_live_factsB {sch : Levels} {db dbN : Engine.DB} {sdb sdbN : Spec.SDB} {pt ptN : Levels}
    {tbls tblsN : List (Bytes × Levels)} {logs : List WalRec}
    (h : Ckpt sch db sdb pt tbls) (hrun : LiveRunB sch db.store tbls dbN.store tblsN logs)
    (hw : dbN.wal = db.wal ++ logs) (hAN : AbsV dbN.store ptN sch tblsN sdbN) :
    PtSelf ptN ∧ FreshM dbN.store tblsN ∧
      (∀ r ∈ dbN.wal, AppliedC ptN sch tblsN r) ∧ (∀ r ∈ dbN.wal, r.lsn < dbN.store.hdr.nextLSN) ∧
      OldOrDirty (fun e => assocGet db.store.disk e.1 = some e.2.1) ptN sch tblsN ∧
      (∀ r ∈ dbN.wal, r.op = c_OpInsert → r.cell ≤ dbN.store.hdr.lastKey) := by
  obtain ⟨_, habs0, _⟩ := h.abs
  obtain ⟨_, habsN, _⟩ := id hAN
  obtain ⟨pt1, c1, a1, a2⟩ := live_runB_applied sch hrun pt db.wal habs0.cat h.log h.lsn
  obtain ⟨pt2, c2, o2⟩ := live_runB_pages (fun e => assocGet db.store.disk e.1 = some e.2.1) sch hrun pt habs0.cat
    (fun x hx e he => .inr (h.disk x hx e he).1)
  have e1 : pt1 = ptN := c1.pt_unique habsN.cat
  have e2 : pt2 = ptN := c2.pt_unique habsN.cat
  rw [e1] at a1
  rw [e2] at o2
  obtain ⟨ptN', _, _, c3, _, hselfN, hfN, _⟩ := live_runB_replay sch hrun pt db.store habs0.cat habs0.cat
    h.self h.fresh rfl (Nat.le_refl _) (Nat.le_refl _) (LsnR.of_fresh h.fresh (by omega))
  have ept : ptN' = ptN := c3.pt_unique habsN.cat
  rw [ept] at hselfN
  refine ⟨hselfN, hfN, by rw [hw]; exact a1, by rw [hw]; exact a2, o2, ?_⟩
  rw [hw]
  exact live_runB_keys sch hrun pt db.wal habs0.cat h.keys

theorem ckpt_flush_liveB {sch : Levels} {db dbN : Engine.DB} {sdb sdbN : Spec.SDB} {pt ptN : Levels}
    {tbls tblsN : List (Bytes × Levels)} {logs : List WalRec}
    (h : Ckpt sch db sdb pt tbls) (hrun : LiveRunB sch db.store tbls dbN.store tblsN logs)
    (hw : dbN.wal = db.wal ++ logs) (hAN : AbsV dbN.store ptN sch tblsN sdbN) (hmfN : MemFiled dbN.store)
    (hd : DiskSame db.store dbN.store) (order : List Nat) :
    ∃ db', Engine.flush dbN order = .ok () db' ∧ db'.wal = dbN.wal ∧
      Ckpt sch db' sdbN (clean ptN) (cleanT tblsN) := by
  obtain ⟨_, hcs, _⟩ := h.disk.clean_eq
  obtain ⟨hselfN, hfN, hlogN, hlsnN, hP, hkN⟩ := ckpt_live_factsB h hrun hw hAN
  have hsy : Synced dbN.store ptN sch tblsN := by
    intro x hx e he hdy
    rcases hP x hx e he with h1 | h1
    · rw [hdy] at h1; cases h1
    · rw [hd.1]; exact h1
  obtain ⟨s1, ef1, hh1, _⟩ := flushPages_spec order dbN.store hmfN
  have hk := ckpt_of_flushed hcs hAN hselfN hfN hmfN hlogN hlsnN hkN hsy ef1
  refine ⟨{ store := s1, wal := dbN.wal }, ?_, rfl, hk⟩
  simp only [Engine.flush, Engine.liftS, ef1]

theorem ckpt_recover_liveB {sch : Levels} {db dbN : Engine.DB} {sdb sdbN : Spec.SDB} {pt ptN : Levels}
    {tbls tblsN : List (Bytes × Levels)} {logs : List WalRec}
    (h : Ckpt sch db sdb pt tbls) (hrun : LiveRunB sch db.store tbls dbN.store tblsN logs)
    (hw : dbN.wal = db.wal ++ logs) (hAN : AbsV dbN.store ptN sch tblsN sdbN)
    (hd : DiskSame db.store dbN.store) (o1 o2 : List Nat) :
    ∃ db', Engine.recover dbN o1 o2 = .ok db' ∧ db'.wal = dbN.wal ∧
      Ckpt sch db' sdbN (clean ptN) (cleanT tblsN) := by
  obtain ⟨_, hcs, _⟩ := h.disk.clean_eq
  obtain ⟨hselfN0, hfN0, hlogN, _, hP, hkN⟩ := ckpt_live_factsB h hrun hw hAN
  obtain ⟨hd1, hd2, _⟩ := hd
  obtain ⟨_, habs0, _⟩ := h.abs
  obtain ⟨sdbF, habsF, hvF⟩ := hAN
  have hr0 : Cat (reopen dbN.store) pt sch tbls := reopen_cat habs0.cat h.disk h.dhdr dbN.store hd1 hd2
  have hh0 : (reopen dbN.store).hdr = db.store.hdr := by show dbN.store.dhdr = _; rw [hd2, h.dhdr]
  obtain ⟨r1, e1, _, hc1, hh1⟩ := replay_clean_hdr db.wal (reopen dbN.store) pt sch tbls hr0
    (fun r hr => (h.log r hr).applied hr0) (fun r hr => by rw [hh0]; exact Nat.le_of_lt (h.lsn r hr))
    (fun r hr hop => by rw [hh0]; exact h.keys r hr hop)
  obtain ⟨ptN', rN, e, c1, c2, hselfN, hfN, a1, a2, a3, a4⟩ := live_runB_replay sch hrun pt r1 habs0.cat hc1
    h.self h.fresh (by rw [hh1, hh0]) (by rw [hh1, hh0]; exact Nat.le_refl _) (by rw [hh1, hh0]; exact Nat.le_refl _)
    (LsnR.of_fresh h.fresh (by rw [hh1, hh0]; omega))
  have ept : ptN' = ptN := c1.pt_unique habsF.cat
  rw [ept] at c1 c2 hselfN
  have eall : replayAll dbN.wal (reopen dbN.store) = (rN, none, false) := by
    rw [hw, replayAll_append e1]; exact e
  have hmfN : MemFiled rN := by
    have := replayAll_memFiled dbN.wal (reopen dbN.store) (by intro p hp; cases hp)
    rw [eall] at this; exact this
  obtain ⟨hdN1, _, hdN3⟩ : DiskSame (reopen dbN.store) rN := by
    have := replayAll_disk dbN.wal (reopen dbN.store)
    rw [eall] at this; exact this
  have hlsnR := replayAll_lsn dbN.wal _ _ eall
  have hkeyR := (replayAll_counter dbN.wal _ _ eall).1
  have hsy : Synced rN ptN sch tblsN := by
    intro x hx e he hdy
    rcases hP x hx e he with h1 | h1
    · rw [hdy] at h1; cases h1
    · rw [hdN1]
      show assocGet dbN.store.disk e.1 = _
      rw [hd1]; exact h1
  have hcB : Cat { rN with hdr := { rN.hdr with nextLSN := rN.hdr.nextLSN + 1 } } ptN sch tblsN :=
    c2.raise rfl rfl rfl (Nat.le_refl _)
  have hmB : MemFiled { rN with hdr := { rN.hdr with nextLSN := rN.hdr.nextLSN + 1 } } := hmfN.of_mem_eq rfl
  obtain ⟨s1, ef1, hh1', _⟩ := flushPages_spec o1 _ hmB
  have hfB : FreshM { rN with hdr := { rN.hdr with nextLSN := rN.hdr.nextLSN + 1 } } tblsN :=
    ⟨fun e he x hx => Nat.lt_succ_of_le (a4 e he x hx), by show 0 < rN.hdr.nextFree; rw [a1]; exact hfN.nf, hfN.pos⟩
  have hk1 := ckpt_of_flushed (wal := dbN.wal) hcs ⟨sdbF, ⟨hcB, habsF.tabs⟩, hvF⟩ hselfN
    hfB hmB hlogN
    (fun r hr => by show r.lsn < rN.hdr.nextLSN + 1; have := hlsnR r hr; omega)
    (fun r hr hop => by show r.cell ≤ rN.hdr.lastKey; exact hkeyR r hr hop) hsy ef1
  obtain ⟨s2, ef2, hh2, _⟩ := flushPages_spec o2 s1 hk1.filed
  have hk2 := hk1.flush_again ef2
  refine ⟨{ store := s2, wal := dbN.wal }, ?_, rfl, hk2⟩
  unfold Engine.recover
  simp only [eall, ef1, ef2]

/-- the invariant up to the cache implies the one up to the cache and the counters -/
theorem DbCrashL.toB {db : Engine.DB} {sdb : Spec.SDB} (h : DbCrashL db sdb) : DbCrashB db sdb := by
  obtain ⟨sch, db0, sdb0, pt0, tbls0, ptN, tblsN, stmtsM, logs, hk, hns, hrun, hw, hAN, hmf, hd⟩ := h
  exact ⟨sch, db0, sdb0, pt0, tbls0, ptN, tblsN, logs, hk, hns, .one hrun, hw, hAN, hmf, hd⟩

theorem CkptNS.dbCrashB {db : Engine.DB} {sdb : Spec.SDB} (h : CkptNS db sdb) : DbCrashB db sdb := h.dbCrashL.toB

/-- **Crash and recovery**, up to the cache and the counters -/
theorem DbCrashB.recover {db : Engine.DB} {sdb : Spec.SDB} (h : DbCrashB db sdb) (o1 o2 : List Nat) :
    ∃ db', Engine.recover db o1 o2 = .ok db' ∧ db'.wal = db.wal ∧ CkptNS db' sdb := by
  obtain ⟨sch, db0, sdb0, pt0, tbls0, ptN, tblsN, logs, hk, hns, hrun, hw, hAN, _, hd⟩ := h
  obtain ⟨_, hcs, _⟩ := hk.disk.clean_eq
  obtain ⟨db', e, hw', hk'⟩ := ckpt_recover_liveB hk hrun hw hAN hd o1 o2
  refine ⟨db', e, hw', sch, _, _, hk', ?_⟩
  have := hns.clean
  rw [hcs] at this
  exact this

theorem DbCrashB.flush {db : Engine.DB} {sdb : Spec.SDB} (h : DbCrashB db sdb) (order : List Nat) :
    ∃ db', Engine.flush db order = .ok () db' ∧ db'.wal = db.wal ∧ CkptNS db' sdb := by
  obtain ⟨sch, db0, sdb0, pt0, tbls0, ptN, tblsN, logs, hk, hns, hrun, hw, hAN, hmf, hd⟩ := h
  obtain ⟨_, hcs, _⟩ := hk.disk.clean_eq
  obtain ⟨db', e, hw', hk'⟩ := ckpt_flush_liveB hk hrun hw hAN hmf hd order
  refine ⟨db', e, hw', sch, _, _, hk', ?_⟩
  have := hns.clean
  rw [hcs] at this
  exact this

theorem DbCrashB.same {db db' : Engine.DB} {sdb : Spec.SDB} (h : DbCrashB db sdb)
    (hs : Same db.store db'.store) (hw : db'.wal = db.wal) (hd : DiskSame db.store db'.store)
    (hf : MemFiled db'.store) : DbCrashB db' sdb := by
  obtain ⟨sch, db0, sdb0, pt0, tbls0, ptN, tblsN, logs, hk, hns, hrun, hw0, ⟨sdbF, habsF, hvF⟩, _, hd0⟩ := h
  refine ⟨sch, db0, sdb0, pt0, tbls0, ptN, tblsN, logs ++ [], hk, hns,
    hrun.append_run (.same hs (.nil _ _)), by rw [hw, hw0, List.append_nil], ⟨sdbF, habsF.of_same hs, hvF⟩, hf,
    hd0.trans hd⟩

theorem DbCrashB.step {db db' : Engine.DB} {sdb sdb' : Spec.SDB} (h : DbCrashB db sdb)
    (hstep : ∀ sch, ∃ st, SpecRun sch db sdb [st] db' sdb') : DbCrashB db' sdb' := by
  obtain ⟨sch, db0, sdb0, pt0, tbls0, ptN, tblsN, logs, hk, hns, hrun, hw0, hAN, hmf, hd0⟩ := h
  obtain ⟨st, run⟩ := hstep sch
  obtain ⟨ptN', tblsN', stmtsM', logs', hrun', hw', hAN'⟩ := spec_run_live sch run ptN tblsN hAN
  exact ⟨sch, db0, sdb0, pt0, tbls0, ptN', tblsN', logs ++ logs', hk,
    specRun_noStale run hAN hns hAN', hrun.append_run hrun', by rw [hw', hw0, List.append_assoc], hAN',
    specRun_memFiled run hmf, hd0.trans (specRun_disk run)⟩

/-- **A step that only moves the counters forward** - the store abstracts to the same plain database with the
same catalog description, same allocation frontier, row-id counter not lower, the log and the data file
untouched (and the LSN counter not lower: `DiskSame`), the cache filed - **keeps the crash invariant**. -/
theorem DbCrashB.drift {db db' : Engine.DB} {sdb : Spec.SDB} (h : DbCrashB db sdb)
    (habs : ∀ pt sch tbls, AbsV db.store pt sch tbls sdb → AbsV db'.store pt sch tbls sdb)
    (hnf : db'.store.hdr.nextFree = db.store.hdr.nextFree) (hlk : db.store.hdr.lastKey ≤ db'.store.hdr.lastKey)
    (hw : db'.wal = db.wal) (hd : DiskSame db.store db'.store) (hf : MemFiled db'.store) : DbCrashB db' sdb := by
  obtain ⟨sch, db0, sdb0, pt0, tbls0, ptN, tblsN, logs, hk, hns, hrun, hw0, hAN, _, hd0⟩ := h
  have hAN' := habs ptN sch tblsN hAN
  obtain ⟨_, hc, _⟩ := id hAN
  obtain ⟨_, hc', _⟩ := id hAN'
  refine ⟨sch, db0, sdb0, pt0, tbls0, ptN, tblsN, logs, hk, hns,
    hrun.append_drift ⟨fun pt hp => ?_, hnf, hlk, hd.2.2⟩, by rw [hw, hw0], hAN', hf, hd0.trans hd⟩
  have : pt = ptN := hp.pt_unique hc.cat
  rw [this]; exact hc'.cat

theorem DbCrashB.recoverable {db : Engine.DB} {sdb : Spec.SDB} (h : DbCrashB db sdb) :
    Session.Recoverable db sdb ∧ Session.Recoverable { db with store := reopen db.store } sdb := by
  obtain ⟨db', e, _, hk⟩ := h.recover [] []
  exact ⟨⟨db', e, hk.reopen⟩, ⟨db', by rw [recover_reopen]; exact e, hk.reopen⟩⟩


/-! ### an INSERT whose first row the table refuses - also for its size -/

/-- **Why an INSERT is refused at its first row**: the table exists and the plain model has no row for the
values - wrong number of values, a value the column does not accept, OR a row too large for a page cell (that
one is refused inside the tree insert, after the row-id and LSN counters moved). -/
def FirstRowRefused (sdb : Spec.SDB) : Sql.Stmt → Prop
  | .insert t cols (r :: _) => ∃ st, Spec.findTable sdb t = some st ∧ Spec.rowOf st cols (r.map Engine.litToVal) = none
  | _ => False

/-- such an INSERT on the model: an error, in a store that abstracts to the same plain database with the same
catalog description; same allocation frontier; the row-id counter not lower -/
theorem evalStmt_firstRow_refused (db : Engine.DB) (pt sch : Levels) (tbls : List (Bytes × Levels))
    (sdb : Spec.SDB) (hA : AbsV db.store pt sch tbls sdb) (t : Bytes) (cols : List Bytes) (r : List Sql.Lit)
    (rest : List (List Sql.Lit))
    (hc : ∃ st, Spec.findTable sdb t = some st ∧ Spec.rowOf st cols (r.map Engine.litToVal) = none) :
    ∃ e s', evalStmt db [] (.insert t cols (r :: rest)) = .err (.store e) { db with store := s' } ∧
      AbsV s' pt sch tbls sdb ∧ s'.hdr.nextFree = db.store.hdr.nextFree ∧ db.store.hdr.lastKey ≤ s'.hdr.lastKey := by
  obtain ⟨sdb0, habs0, hv⟩ := hA
  obtain ⟨st, hf, hr⟩ := hc
  obtain ⟨st0, hf0, htv⟩ := findTable_congr_some hv hf
  obtain ⟨tr, ht⟩ := habs0.tabs.find_some hf0
  obtain ⟨schema, hsch, _, hfa⟩ := habs0.tabs.find habs0.cat.tnames ht
  rw [hf0] at hfa
  simp only [Option.some.injEq] at hfa
  subst hfa
  have hr0 : Spec.rowOf (absTable t schema tr) cols (r.map Engine.litToVal) = none := by
    rw [rowOf_congr (tv_cols htv)]; exact hr
  obtain ⟨e, s', he, _, habs', _, hnf, hlk⟩ := insert_refused_abs habs0 t tr ht schema hsch cols _ hr0
  refine ⟨e, s', ?_, ⟨sdb0, habs', hv⟩, hnf, hlk⟩
  have := evalInsert_go_err db t cols (r.map Engine.litToVal) (rest.map fun r => r.map Engine.litToVal) db.store s'
    [] 0 _ he
  simp only [evalStmt, List.map_cons, voidRes]
  have h2 : Engine.evalInsert db t cols (r.map Engine.litToVal :: rest.map fun r => r.map Engine.litToVal) =
      .err (.store e) { db with store := s' } := this
  rw [h2]

end Mkdb.Store

namespace Mkdb.Session
open Mkdb.Engine Mkdb.Sql Mkdb.Tree
open Mkdb.Store hiding Stmt

/-- **The crash invariant of a session, up to the cache and the counters of its databases**: `SessCrashL` with
`DbCrashB` in the place of `DbCrashL`. -/
structure SessCrashB (s : Sess) (w : String → Spec.SDB) : Prop where
  abs : SessAbs s w
  crash : ∀ p ∈ s.dbs, DbCrashB p.2 (w p.1)
  others : ∀ p ∈ s.dbs, s.cur ≠ some p.1 → CkptNS p.2 (w p.1)

theorem SessCrashL.toB {s : Sess} {w : String → Spec.SDB} (h : SessCrashL s w) : SessCrashB s w :=
  ⟨h.abs, fun p hp => (h.crash p hp).toB, h.others⟩

theorem SessCrash'.toB {s : Sess} {w : String → Spec.SDB} (h : SessCrash' s w) : SessCrashB s w := h.toL.toB

theorem SessCrashB.inv {s : Sess} {w : String → Spec.SDB} (h : SessCrashB s w) : SessInv s := ⟨w, h.abs⟩

/-- **A crash between two statements loses nothing**, also after refused statements: `crashRestart`
succeeds, same names, nothing selected, every database checkpointed for the same plain database. -/
theorem crashRestart_sessCrashB {s : Sess} {w : String → Spec.SDB} (h : SessCrashB s w) :
    ∃ s', crashRestart s = some s' ∧ SessCrash' s' w ∧ names s' = names s ∧ s'.cur = none ∧
      ∀ p ∈ s'.dbs, CkptNS p.2 (w p.1) := by
  have hdrop : names (dropCur s) = names s ∧ ∀ p ∈ (dropCur s).dbs, Recoverable p.2 (w p.1) := by
    unfold dropCur
    cases hc : s.cur with
    | none => exact ⟨rfl, fun p hp => (h.crash p hp).recoverable.1⟩
    | some c =>
      cases hg : getDB s c with
      | none => simp only [hg]; exact ⟨trivial, fun p hp => (h.crash p hp).recoverable.1⟩
      | some db =>
        simp only [hg]
        refine ⟨by rw [names_setDB, hg]; rfl, fun p hp => ?_⟩
        rcases mem_setDB hp with rfl | ⟨hp', _⟩
        · exact (h.crash (c, db) (getDB_mem hg)).recoverable.2
        · exact (h.crash p hp').recoverable.1
  obtain ⟨hnames, hall⟩ := hdrop
  obtain ⟨l', e, hn, hl⟩ := recoverEvery_ok w (dropCur s).dbs hall
  have hn' : l'.map (·.1) = names s := by rw [hn]; exact hnames
  refine ⟨{ dbs := l', cur := none }, by rw [crashRestart_eq, e]; rfl, ?_, hn', rfl, hl⟩
  exact sessCrash'_of_ckpt (by rw [hn']; exact h.abs.nodup) hl

/-- **`restart`** likewise. -/
theorem restart_sessCrashB {s : Sess} {w : String → Spec.SDB} (h : SessCrashB s w) :
    ∃ s', restart s = some s' ∧ SessCrash' s' w ∧ names s' = names s ∧ s'.cur = none ∧
      ∀ p ∈ s'.dbs, CkptNS p.2 (w p.1) := by
  have hcl : names (closeCur s) = names s ∧ ∀ p ∈ (closeCur s).dbs, Recoverable p.2 (w p.1) := by
    unfold closeCur
    cases hc : s.cur with
    | none => exact ⟨rfl, fun p hp => (h.crash p hp).recoverable.1⟩
    | some c =>
      cases hg : getDB s c with
      | none => simp only [hg]; exact ⟨trivial, fun p hp => (h.crash p hp).recoverable.1⟩
      | some db =>
        obtain ⟨db1, e, _, hk⟩ := (h.crash (c, db) (getDB_mem hg)).flush []
        simp only at e hk
        simp only [hg, e]
        refine ⟨by rw [names_setDB, hg]; rfl, fun p hp => ?_⟩
        rcases mem_setDB hp with rfl | ⟨hp', _⟩
        · exact hk.dbCrash.recoverable
        · exact (h.crash p hp').recoverable.1
  obtain ⟨hnames, hall⟩ := hcl
  obtain ⟨l', e, hn, hl⟩ := recoverEvery_ok w (closeCur s).dbs hall
  have hn' : l'.map (·.1) = names s := by rw [hn]; exact hnames
  refine ⟨{ dbs := l', cur := none }, by rw [restart_eq, restart_go_eq, e]; rfl, ?_, hn', rfl, hl⟩
  exact sessCrash'_of_ckpt (by rw [hn']; exact h.abs.nodup) hl

/-! ### USE, CREATE DATABASE -/

theorem use_bad_absurdB {s : Sess} {w : String → Spec.SDB} (h : SessCrashB s w) {c : String} (hc : s.cur = some c)
    (hbad : getDB s c = none ∨ ∃ db, getDB s c = some db ∧ ∀ db', flush db [] ≠ .ok () db') : False := by
  rcases hbad with hg | ⟨db, hg, hf⟩
  · have := h.abs.cur c hc
    rw [hg] at this
    cases this
  · obtain ⟨db1, e1, _⟩ := (h.crash (c, db) (getDB_mem hg)).flush []
    exact hf db1 e1

theorem flushed_ckptB {s : Sess} {w : String → Spec.SDB} (h : SessCrashB s w) {c : String} {db db' : DB}
    (hg : getDB s c = some db) (hf : flush db [] = .ok () db') :
    CkptNS { db' with store := reopen db'.store } (w c) := by
  obtain ⟨db1, e1, _, hk⟩ := (h.crash (c, db) (getDB_mem hg)).flush []
  simp only at e1 hk
  rw [hf] at e1
  simp only [Engine.Res.ok.injEq, true_and] at e1
  subst e1
  exact hk.reopen

/-- **USE keeps the invariant** and changes no plain database. -/
theorem use_sessCrashB {s : Sess} {w : String → Spec.SDB} (h : SessCrashB s w) (name : Bytes) :
    SessCrashB (exec s (.use name)).1 w := by
  have habs := (use_sessAbs h.abs name).1
  rcases use_cases s name with ⟨e, _⟩ | ⟨_, _, ⟨e, hcase⟩ | ⟨c, db, db', hc, hne, hg, hf, e⟩⟩
  · rw [e]; exact h
  · refine ⟨habs, ?_, ?_⟩
    · rw [e]; exact h.crash
    · rw [e]
      intro p hp hcur
      simp only at hp hcur
      rcases hcase with hn | hn | ⟨c, hc, hbad⟩
      · exact h.others p hp (by rw [hn]; intro hx; cases hx)
      · exact h.others p hp (by rw [hn]; exact hcur)
      · exact (use_bad_absurdB h hc hbad).elim
  · have hck := flushed_ckptB h hg hf
    refine ⟨habs, ?_, ?_⟩
    · rw [e]
      intro p hp
      simp only at hp
      rcases mem_setDB hp with rfl | ⟨hp', _⟩
      · exact hck.dbCrashB
      · exact h.crash p hp'
    · rw [e]
      intro p hp hcur
      simp only at hp hcur
      rcases mem_setDB hp with rfl | ⟨hp', hpc⟩
      · exact hck
      · exact h.others p hp' (by rw [hc]; intro hx; exact hpc (Option.some.inj hx).symm)

/-- after an accepted USE: the named database is selected; every other database is checkpointed; so is the
selected one unless it was selected before -/
theorem use_ckptB {s : Sess} {w : String → Spec.SDB} (h : SessCrashB s w) (name : Bytes)
    (hok : (exec s (.use name)).2 = Out.ok) :
    (exec s (.use name)).1.cur = some (canon name) ∧
    (∀ p ∈ (exec s (.use name)).1.dbs, p.1 ≠ canon name → CkptNS p.2 (w p.1)) ∧
    ∃ db, getDB (exec s (.use name)).1 (canon name) = some db ∧
      (s.cur ≠ some (canon name) → CkptNS db (w (canon name))) := by
  have h' := use_sessCrashB h name
  have hcur : (exec s (.use name)).1.cur = some (canon name) := by
    rcases use_cases s name with ⟨_, e⟩ | ⟨_, _, ⟨e, _⟩ | ⟨c, db, db', _, _, _, _, e⟩⟩
    · exact absurd hok e
    · rw [e]
    · rw [e]
  refine ⟨hcur, fun p hp hne => h'.others p hp (by rw [hcur]; intro hx; exact hne (Option.some.inj hx).symm), ?_⟩
  have hs := h'.abs.cur _ hcur
  cases hg : getDB (exec s (.use name)).1 (canon name) with
  | none => rw [hg] at hs; cases hs
  | some db =>
    refine ⟨db, rfl, fun hsel => ?_⟩
    rcases use_cases s name with ⟨_, e⟩ | ⟨_, _, ⟨e, _⟩ | ⟨c, db0, db', hc, hcn, hg0, hf, e⟩⟩
    · exact absurd hok e
    · rw [e] at hg
      have hg' : getDB s (canon name) = some db := hg
      exact h.others _ (getDB_mem hg') hsel
    · rw [e] at hg
      have hg' : getDB (setDB s c { db' with store := reopen db'.store }) (canon name) = some db := hg
      rw [getDB_setDB] at hg'
      have hb : (canon name == c) = false := by simpa using fun hx : canon name = c => hcn hx.symm
      simp only [hb, Bool.false_eq_true, if_false] at hg'
      exact h.others _ (getDB_mem hg') hsel

/-- **CREATE DATABASE keeps the invariant**, for the plain databases `cdW`. -/
theorem createDatabase_sessCrashB {s : Sess} {w : String → Spec.SDB} (h : SessCrashB s w) (name : Bytes) :
    SessCrashB (exec s (.createDatabase name)).1 (cdW s w name) := by
  rcases createDatabase_cases s name with ⟨e, hno⟩ | ⟨hok, hnone, e⟩
  · rw [cdW_refused hno, e]; exact h
  · rw [cdW_ok hok, e]
    refine ⟨h.abs.addNew (canon name), fun p hp => ?_, fun p hp hcur => ?_⟩
    · rcases mem_setDB hp with rfl | ⟨hp', hne'⟩
      · rw [setW_same]; exact ckptNS_newDB.dbCrashB
      · rw [setW_other w _ hne']; exact h.crash p hp'
    · rcases mem_setDB hp with rfl | ⟨hp', hne'⟩
      · rw [setW_same]; exact ckptNS_newDB
      · rw [setW_other w _ hne']; exact h.others p hp' hcur

/-! ### statements routed to the selected database -/

/-- the selected database replaced by one that satisfies the invariants, for the plain database `sdb'` -/
theorem setCur_sessCrashB {s : Sess} {w : String → Spec.SDB} (h : SessCrashB s w) {n : String}
    (hc : s.cur = some n) {db' : DB} {sdb' : Spec.SDB} {pt sch : Levels} {tbls : List (Bytes × Levels)}
    (hi : DbInv db' sdb' pt sch tbls) (hcr : DbCrashB db' sdb') : SessCrashB (setDB s n db') (setW w n sdb') := by
  refine ⟨h.abs.setCur hc hi, fun p hp => ?_, fun p hp hcur => ?_⟩
  · rcases mem_setDB hp with rfl | ⟨hp', hne'⟩
    · rw [setW_same]; exact hcr
    · rw [setW_other w _ hne']; exact h.crash p hp'
  · rcases mem_setDB hp with rfl | ⟨hp', hne'⟩
    · exact absurd hc hcur
    · rw [setW_other w _ hne']; exact h.others p hp' hcur

/-- **An accepted INSERT / UPDATE / DELETE keeps the invariant.** -/
theorem accepted_sessCrashB {s : Sess} {w : String → Spec.SDB} (h : SessCrashB s w) (n : String)
    (hc : s.cur = some n) (db : DB) (hg : getDB s n = some db) (st : Stmt)
    (hk : (∃ t c r, st = .insert t c r) ∨ (∃ t a c, st = .update t a c) ∨ (∃ t c, st = .delete t c))
    (hroom : ∀ pt sch tbls, DbInv db (w n) pt sch tbls → StmtRoom db pt sch tbls st)
    (sdb' : Spec.SDB) (hspec : Spec.specStmt (w n) st = some sdb') :
    (exec s st).2 = Out.ok ∧ SessCrashB (exec s st).1 (setW w n sdb') := by
  obtain ⟨pt, sch, tbls, hi, _⟩ := h.abs.dbs (n, db) (getDB_mem hg)
  obtain ⟨db', pt', sch', tbls', e, hi'⟩ := hi.accepted [] st (hroom pt sch tbls hi) sdb' hspec
  rw [exec_routed s st (.inr hk)]
  unfold onCurrent
  simp only [hc, hg, e]
  refine ⟨trivial, setCur_sessCrashB h hc hi' ?_⟩
  exact (h.crash (n, db) (getDB_mem hg)).step
    (fun sch1 => accepted_specRun hi st hk (hroom pt sch tbls hi) hspec e sch1)

/-- **An accepted CREATE TABLE on a checkpointed selected database keeps the invariant**, and the selected
database is checkpointed again. -/
theorem createTable_sessCrashB {s : Sess} {w : String → Spec.SDB} (h : SessCrashB s w) (n : String)
    (hc : s.cur = some n) (db : DB) (hg : getDB s n = some db) (hck : CkptNS db (w n))
    (t : Bytes) (cols : List ColDef)
    (hroom : ∀ pt sch tbls, DbInv db (w n) pt sch tbls → StmtRoom db pt sch tbls (.createTable t cols))
    (sdb' : Spec.SDB) (hspec : Spec.specStmt (w n) (.createTable t cols) = some sdb') :
    (exec s (.createTable t cols)).2 = Out.ok ∧ SessCrashB (exec s (.createTable t cols)).1 (setW w n sdb') ∧
      ∃ db', getDB (exec s (.createTable t cols)).1 n = some db' ∧ CkptNS db' sdb' := by
  obtain ⟨sch, pt, tbls, hk, hns⟩ := hck
  obtain ⟨hlo, hchk, hpd, hpl, hsd, hsl, hbig⟩ := hroom pt sch tbls (hk.dbFlushed hns).inv
  obtain ⟨hfind, hn1, hn2, hhi, hndc, rfl⟩ := specCreate_some hspec
  obtain ⟨db', pt', sch', tbls', e, _, hk', hns', _⟩ := hk.createTable_ok hns t cols [] hfind hn1 hn2
    (colFields_ok cols hhi hlo hndc) hchk hpd hpl hsd hsl hbig
  have e' : evalStmt db [] (.createTable t cols) = .ok () db' := e
  rw [exec_routed s _ (.inl ⟨t, cols, rfl⟩)]
  unfold onCurrent
  simp only [hc, hg, e']
  have hck' : CkptNS db' (w n ++ [⟨t, cols.map Spec.colField, []⟩]) := ⟨sch', pt', tbls', hk', hns'⟩
  refine ⟨trivial, setCur_sessCrashB h hc (hk'.dbFlushed hns').inv hck'.dbCrashB, db', ?_, hck'⟩
  rw [getDB_setDB]; simp

/-- **A statement the selected database refuses with only its cache grown keeps the invariant, for the same
plain databases.**  `hbad`: the refusal is one of `StmtRefusalC` for the plain database of the selected
database - CREATE TABLE of an existing table / with a duplicate column / an over-long VARCHAR; INSERT into an
unknown table, with an unknown or repeated column, or whose FIRST row has the wrong arity or a value its column
does not accept; UPDATE / DELETE of an unknown table, with a WHERE that cannot be evaluated, an unknown SET
column, a first selected row that cannot be rewritten.  The statement returns an error, the plain model refuses
it too, and if the selected database was checkpointed it still is. -/
theorem refused_sessCrashB {s : Sess} {w : String → Spec.SDB} (h : SessCrashB s w) (n : String)
    (hc : s.cur = some n) (db : DB) (hg : getDB s n = some db) (st : Stmt)
    (hbad : ∀ pt sch tbls, DbInv db (w n) pt sch tbls → StmtRefusalC (w n) pt st) :
    Spec.specStmt (w n) st = none ∧ (∃ k, (exec s st).2 = Out.err k) ∧ SessCrashB (exec s st).1 w ∧
    ∃ db', getDB (exec s st).1 n = some db' ∧ (CkptNS db (w n) → CkptNS db' (w n)) := by
  obtain ⟨pt, sch, tbls, hi, _⟩ := h.abs.dbs (n, db) (getDB_mem hg)
  have hr := hbad pt sch tbls hi
  obtain ⟨hnone, e, db', he, hw, hs, hd, hf⟩ := evalStmt_refused_same db pt sch tbls (w n) hi.rel st hr
  have hk : (∃ n c, st = .createTable n c) ∨ (∃ t c r, st = .insert t c r) ∨ (∃ t a c, st = .update t a c) ∨
      (∃ t c, st = .delete t c) := by
    cases hr with
    | create n cols _ => exact .inl ⟨n, cols, rfl⟩
    | insert t cols r rest _ => exact .inr (.inl ⟨t, cols, _, rfl⟩)
    | update t sets c _ => exact .inr (.inr (.inl ⟨t, sets, c, rfl⟩))
    | delete t c _ _ => exact .inr (.inr (.inr ⟨t, c, rfl⟩))
  rw [exec_routed s st hk]
  unfold onCurrent
  simp only [hc, hg, he]
  have hi' : DbInv db' (w n) pt sch tbls := hi.same hs hd.1 hf hw
  have hcr : DbCrashB db' (w n) := (h.crash (n, db) (getDB_mem hg)).same hs hw hd hf
  have := setCur_sessCrashB h hc hi' hcr
  rw [setW_self] at this
  refine ⟨hnone, ⟨_, rfl⟩, this, db', ?_, fun hck => hck.same hs hw hd hf⟩
  rw [getDB_setDB]; simp

/-- **The invariant along a list of operations**: `SessCrashB`, and while the flag is set every database is
checkpointed. -/
structure CInvB (s : Sess) (w : String → Spec.SDB) (clean : Bool) : Prop where
  inv : SessCrashB s w
  ck : clean = true → ∀ p ∈ s.dbs, CkptNS p.2 (w p.1)

theorem createDatabase_cinvB {s : Sess} {w : String → Spec.SDB} {clean : Bool} (h : CInvB s w clean) (name : Bytes) :
    CInvB (exec s (.createDatabase name)).1 (cdW s w name) clean := by
  refine ⟨createDatabase_sessCrashB h.inv name, fun hcl => ?_⟩
  rcases createDatabase_cases s name with ⟨e, hno⟩ | ⟨hok, hnone, e⟩
  · rw [cdW_refused hno, e]; exact h.ck hcl
  · rw [cdW_ok hok, e]
    intro p hp
    rcases mem_setDB hp with rfl | ⟨hp', hne'⟩
    · rw [setW_same]; exact ckptNS_newDB
    · rw [setW_other w _ hne']; exact h.ck hcl p hp'

theorem use_cinvB {s : Sess} {w : String → Spec.SDB} {clean : Bool} (h : CInvB s w clean) (name : Bytes) :
    CInvB (exec s (.use name)).1 w (cleanStep s w clean (.use name)) := by
  refine ⟨use_sessCrashB h.inv name, ?_⟩
  rcases use_cases s name with ⟨e, hno⟩ | ⟨hok, _, hcase⟩
  · have hcs : cleanStep s w clean (.use name) = clean := by
      show (match (exec s (.use name)).2 with | .ok => _ | _ => clean) = clean
      cases ho : (exec s (.use name)).2 with
      | ok => exact absurd ho hno
      | err k => rfl
      | panic => rfl
      | rows n => rfl
    rw [hcs, e]; exact h.ck
  · have hcs : cleanStep s w clean (.use name) = (decide (s.cur ≠ some (canon name)) || clean) := by
      show (match (exec s (.use name)).2 with | .ok => _ | _ => clean) = _
      rw [hok]
    rw [hcs]
    intro hcl p hp
    by_cases hsel : s.cur = some (canon name)
    · have hcl' : clean = true := by simpa [hsel] using hcl
      rcases hcase with ⟨e, _⟩ | ⟨c, db, db', hc, hne, _⟩
      · rw [e] at hp; exact h.ck hcl' p hp
      · rw [hc] at hsel; exact absurd (Option.some.inj hsel) hne
    · obtain ⟨hcur, hoth, db, hg, hck⟩ := use_ckptB h.inv name hok
      by_cases hpn : p.1 = canon name
      · have hnd := (use_sessCrashB h.inv name).abs.nodup
        have hg2 : getDB (exec s (.use name)).1 p.1 = some p.2 := mem_getDB hnd hp
        rw [hpn, hg] at hg2
        cases hg2
        rw [hpn]; exact hck hsel
      · exact hoth p hp hpn

theorem unchanged_cinvB {s : Sess} {w : String → Spec.SDB} {clean : Bool} (h : CInvB s w clean) (st : Stmt)
    (hs : (exec s st).1 = s) (hno : ∀ n, s.cur = some n → Spec.specStmt (w n) st = none) :
    CInvB (exec s st).1 (routedW s w st) (routedClean s w clean st) := by
  have h1 : routedW s w st = w := by
    unfold routedW
    cases hc : s.cur with
    | none => rfl
    | some n => simp only [hno n hc]
  have h2 : routedClean s w clean st = clean := by
    unfold routedClean
    cases hc : s.cur with
    | none => rfl
    | some n => simp only [hno n hc]
  rw [h1, h2, hs]; exact h

/-- a routed statement that the selected database refuses with only its cache grown -/
theorem refused_cinvB {s : Sess} {w : String → Spec.SDB} {clean : Bool} (h : CInvB s w clean) (st : Stmt)
    (n : String) (db : DB) (hc : s.cur = some n) (hg : getDB s n = some db)
    (hbad : ∀ pt sch tbls, DbInv db (w n) pt sch tbls → StmtRefusalC (w n) pt st) :
    CInvB (exec s st).1 (routedW s w st) (routedClean s w clean st) := by
  obtain ⟨hnone, _, hinv, db', hg', hck'⟩ := refused_sessCrashB h.inv n hc db hg st hbad
  have h1 : routedW s w st = w := by unfold routedW; simp only [hc, hnone]
  have h2 : routedClean s w clean st = clean := by unfold routedClean; simp only [hc, hnone]
  rw [h1, h2]
  refine ⟨hinv, fun hcl p hp => ?_⟩
  by_cases hpn : p.1 = n
  · have hg2 : getDB (exec s st).1 p.1 = some p.2 := mem_getDB hinv.abs.nodup hp
    rw [hpn, hg'] at hg2
    cases hg2
    rw [hpn]
    exact hck' (h.ck hcl (n, db) (getDB_mem hg))
  · have hk : (∃ n c, st = .createTable n c) ∨ (∃ t c r, st = .insert t c r) ∨ (∃ t a c, st = .update t a c) ∨
        (∃ t c, st = .delete t c) := by
      obtain ⟨pt, sch, tbls, hi, _⟩ := h.inv.abs.dbs (n, db) (getDB_mem hg)
      cases hbad pt sch tbls hi with
      | create n cols _ => exact .inl ⟨n, cols, rfl⟩
      | insert t cols r rest _ => exact .inr (.inl ⟨t, cols, _, rfl⟩)
      | update t sets c _ => exact .inr (.inr (.inl ⟨t, sets, c, rfl⟩))
      | delete t c _ _ => exact .inr (.inr (.inr ⟨t, c, rfl⟩))
    refine hinv.others p hp ?_
    rw [exec_routed s st hk, (onCurrent_others s _).1, hc]
    intro hx; exact hpn (Option.some.inj hx).symm

/-- a routed statement the plain model accepts -/
theorem accepted_cinvB {s : Sess} {w : String → Spec.SDB} {clean : Bool} (h : CInvB s w clean) (st : Stmt)
    (hr : isRouted st = true) (n : String) (db : DB) (sdb' : Spec.SDB) (hc : s.cur = some n)
    (hg : getDB s n = some db) (hspec : Spec.specStmt (w n) st = some sdb')
    (hroom : ∀ pt sch tbls, DbInv db (w n) pt sch tbls → StmtRoom db pt sch tbls st)
    (hct : isCreateTable st = true → clean = true) :
    (exec s st).2 = Out.ok ∧ CInvB (exec s st).1 (routedW s w st) (routedClean s w clean st) := by
  have h1 : routedW s w st = setW w n sdb' := by
    unfold routedW; simp only [hc, hspec]
  have h2 : routedClean s w clean st = isCreateTable st := by
    unfold routedClean; simp only [hc, hspec]
  rw [h1, h2]
  cases st with
  | createTable t cols =>
    obtain ⟨k1, k2, db', hg', hck'⟩ := createTable_sessCrashB h.inv n hc db hg (h.ck (hct rfl) (n, db) (getDB_mem hg))
      t cols hroom sdb' hspec
    refine ⟨k1, k2, fun _ p hp => ?_⟩
    by_cases hpn : p.1 = n
    · have hg2 : getDB _ p.1 = some p.2 := mem_getDB k2.abs.nodup hp
      rw [hpn, hg'] at hg2
      cases hg2
      rw [hpn, setW_same]; exact hck'
    · refine k2.others p hp ?_
      rw [exec_routed s _ (.inl ⟨t, cols, rfl⟩), (onCurrent_others s _).1, hc]
      intro hx; exact hpn (Option.some.inj hx).symm
  | insert t c r =>
    obtain ⟨k1, k2⟩ := accepted_sessCrashB h.inv n hc db hg _ (.inl ⟨t, c, r, rfl⟩) hroom sdb' hspec
    exact ⟨k1, k2, fun hx => by cases hx⟩
  | update t a c =>
    obtain ⟨k1, k2⟩ := accepted_sessCrashB h.inv n hc db hg _ (.inr (.inl ⟨t, a, c, rfl⟩)) hroom sdb' hspec
    exact ⟨k1, k2, fun hx => by cases hx⟩
  | delete t c =>
    obtain ⟨k1, k2⟩ := accepted_sessCrashB h.inv n hc db hg _ (.inr (.inr ⟨t, c, rfl⟩)) hroom sdb' hspec
    exact ⟨k1, k2, fun hx => by cases hx⟩
  | createDatabase _ => cases hr
  | use _ => cases hr
  | showDatabases => cases hr
  | select _ => cases hr


/-- **An INSERT refused at its first row - also for the SIZE of the row, after the row-id and LSN counters
moved - keeps the invariant, for the same plain databases.**  The statement returns an error, the plain model
refuses it too, and if the selected database was checkpointed it still abstracts as before (it is no longer
checkpointed when the counters moved: the header in the data file is behind). -/
theorem firstRowRefused_sessCrashB {s : Sess} {w : String → Spec.SDB} (h : SessCrashB s w) (n : String)
    (hc : s.cur = some n) (db : DB) (hg : getDB s n = some db) (st : Stmt)
    (hbad : FirstRowRefused (w n) st) :
    Spec.specStmt (w n) st = none ∧ (∃ k, (exec s st).2 = Out.err k) ∧ SessCrashB (exec s st).1 w ∧
    ∃ db', getDB (exec s st).1 n = some db' ∧ db'.wal = db.wal ∧ DiskSame db.store db'.store := by
  obtain ⟨pt, sch, tbls, hi, _⟩ := h.abs.dbs (n, db) (getDB_mem hg)
  cases st with
  | insert t cols rows =>
    cases rows with
    | nil => exact hbad.elim
    | cons r rest =>
      obtain ⟨tab, hft, hrow⟩ := hbad
      have hnone : Spec.specStmt (w n) (.insert t cols (r :: rest)) = none :=
        (evalStmt_refused_spec db [] pt sch tbls (w n) hi.rel _
          (.insert t cols r rest (.inr ⟨tab, hft, .inl hrow⟩))).1
      obtain ⟨e, s', he, hA', hnf, hlk⟩ := evalStmt_firstRow_refused db pt sch tbls (w n) hi.abs t cols r rest
        ⟨tab, hft, hrow⟩
      obtain ⟨hd, hf⟩ := evalStmt_err_disk_filed hi.filed he
      simp only at hd hf
      have hall : ∀ pt2 sch2 tbls2, AbsV db.store pt2 sch2 tbls2 (w n) → AbsV s' pt2 sch2 tbls2 (w n) := by
        intro pt2 sch2 tbls2 hA2
        obtain ⟨e2, s2, he2, hA2', _⟩ := evalStmt_firstRow_refused db pt2 sch2 tbls2 (w n) hA2 t cols r rest
          ⟨tab, hft, hrow⟩
        rw [he] at he2
        simp only [Engine.Res.err.injEq] at he2
        have : s' = s2 := congrArg Engine.DB.store he2.2
        rw [this]; exact hA2'
      have hcr : DbCrashB { db with store := s' } (w n) :=
        (h.crash (n, db) (getDB_mem hg)).drift hall hnf hlk rfl hd hf
      obtain ⟨_, hcat, _⟩ := id hi.abs
      have hi' : DbInv { db with store := s' } (w n) pt sch tbls :=
        hi.live_run (db' := { db with store := s' }) (.nil _ _) hcat.cat hA' rfl hd.2.2 hlk (.inr rfl) hd hf
      rw [exec_routed s _ (.inr (.inl ⟨t, cols, _, rfl⟩))]
      unfold onCurrent
      simp only [hc, hg, he]
      have := setCur_sessCrashB h hc hi' hcr
      rw [setW_self] at this
      refine ⟨hnone, ⟨_, rfl⟩, this, { db with store := s' }, ?_, rfl, hd⟩
      rw [getDB_setDB]; simp
  | createTable _ _ => exact hbad.elim
  | update _ _ _ => exact hbad.elim
  | delete _ _ => exact hbad.elim
  | createDatabase _ => exact hbad.elim
  | use _ => exact hbad.elim
  | showDatabases => exact hbad.elim
  | select _ => exact hbad.elim

/-! ### lists of operations -/

/-- the side conditions along a list of operations: at a statement, `OkStmt2` (the flag goes on as `cleanStep`
says), OR the statement is an INSERT the selected database refuses at its first row (`FirstRowRefused`: also for
the size of the row; the flag is cleared - the counters may have moved, the selected database is then not
checkpointed any more) -/
def OkOps3 : Sess → (String → Spec.SDB) → Bool → List SOp → Prop
  | _, _, _, [] => True
  | s, w, clean, .stmt st :: rest =>
    (OkStmt2 s w clean st ∧ OkOps3 (exec s st).1 (worldStep s w st) (cleanStep s w clean st) rest) ∨
    ((∃ n db, s.cur = some n ∧ getDB s n = some db ∧ FirstRowRefused (w n) st) ∧
      OkOps3 (exec s st).1 w false rest)
  | s, w, _, .restart :: rest => ∀ s', restart s = some s' → OkOps3 s' w true rest
  | s, w, _, .crash :: rest => ∀ s', crashRestart s = some s' → OkOps3 s' w true rest

theorem OkOps2.toOkOps3 : ∀ (ops : List SOp) (s : Sess) (w : String → Spec.SDB) (clean : Bool),
    OkOps2 s w clean ops → OkOps3 s w clean ops
  | [], _, _, _, _ => trivial
  | .stmt _ :: rest, _, _, _, h => .inl ⟨h.1, OkOps2.toOkOps3 rest _ _ _ h.2⟩
  | .restart :: rest, _, _, _, h => fun s' e => OkOps2.toOkOps3 rest _ _ _ (h s' e)
  | .crash :: rest, _, _, _, h => fun s' e => OkOps2.toOkOps3 rest _ _ _ (h s' e)

theorem CInvL.toB {s : Sess} {w : String → Spec.SDB} {clean : Bool} (h : CInvL s w clean) : CInvB s w clean :=
  ⟨h.inv.toB, h.ck⟩

theorem cinvB_empty (w : String → Spec.SDB) (clean : Bool) : CInvB {} w clean := (cinvL_empty w clean).toB

theorem routed_cinvB {s : Sess} {w : String → Spec.SDB} {clean : Bool} (h : CInvB s w clean) (st : Stmt)
    (hr : isRouted st = true) (hok : OkRouted2 s w clean st) :
    CInvB (exec s st).1 (routedW s w st) (routedClean s w clean st) := by
  rcases hok with (⟨hs, hno⟩ | ⟨n, db, sdb', hc, hg, hspec, hroom, hct⟩) | ⟨n, db, hc, hg, hbad⟩
  · exact unchanged_cinvB h st hs hno
  · exact (accepted_cinvB h st hr n db sdb' hc hg hspec hroom hct).2
  · exact refused_cinvB h st n db hc hg hbad

/-- **One statement keeps the invariant.** -/
theorem step_cinvB {s : Sess} {w : String → Spec.SDB} {clean : Bool} (h : CInvB s w clean) (st : Stmt)
    (hok : OkStmt2 s w clean st) : CInvB (exec s st).1 (worldStep s w st) (cleanStep s w clean st) := by
  cases st with
  | createDatabase name => exact createDatabase_cinvB h name
  | use name => exact use_cinvB h name
  | showDatabases => exact h
  | select q =>
    show CInvB (exec s (.select q)).1 w clean
    rw [exec_select_fst]; exact h
  | createTable t c => exact routed_cinvB h _ rfl (hok rfl)
  | insert t c r => exact routed_cinvB h _ rfl (hok rfl)
  | update t a c => exact routed_cinvB h _ rfl (hok rfl)
  | delete t c => exact routed_cinvB h _ rfl (hok rfl)

/-- **Every list of operations that meets the side conditions `OkOps3` - INSERTs refused at the first row, also
for the size of the row, included - runs (no recovery in it fails) and keeps the invariant**, for the plain
databases `worldOps` computes. -/
theorem runOps_cinvB : ∀ (ops : List SOp) (s : Sess) (w : String → Spec.SDB) (clean : Bool),
    CInvB s w clean → OkOps3 s w clean ops →
    ∃ s', runOps s ops = some s' ∧ SessCrashB s' (worldOps s w ops)
  | [], s, w, clean, h, _ => ⟨s, rfl, h.inv⟩
  | .stmt st :: rest, s, w, clean, h, hok => by
    rcases hok with ⟨h1, h2⟩ | ⟨⟨n, db, hc, hg, hbad⟩, h2⟩
    · obtain ⟨s', e, h'⟩ := runOps_cinvB rest _ _ _ (step_cinvB h st h1) h2
      exact ⟨s', e, h'⟩
    · obtain ⟨hnone, _, hinv, _⟩ := firstRowRefused_sessCrashB h.inv n hc db hg st hbad
      have hr : isRouted st = true := by
        cases st with
        | insert _ _ _ => rfl
        | createTable _ _ => exact hbad.elim
        | update _ _ _ => exact hbad.elim
        | delete _ _ => exact hbad.elim
        | createDatabase _ => exact hbad.elim
        | use _ => exact hbad.elim
        | showDatabases => exact hbad.elim
        | select _ => exact hbad.elim
      obtain ⟨hw, _⟩ := refused_step_eqs (s := s) (w := w) clean (st := st) hr hc hnone
      obtain ⟨s', e, h'⟩ := runOps_cinvB rest (exec s st).1 w false ⟨hinv, fun hx => by cases hx⟩ h2
      refine ⟨s', e, ?_⟩
      show SessCrashB s' (worldOps (exec s st).1 (worldStep s w st) rest)
      rw [hw]; exact h'
  | .restart :: rest, s, w, clean, h, hok => by
    obtain ⟨s1, e1, h1, _, _, hall⟩ := restart_sessCrashB h.inv
    obtain ⟨s', e, h'⟩ := runOps_cinvB rest s1 w true ⟨h1.toB, fun _ => hall⟩ (hok s1 e1)
    refine ⟨s', ?_, ?_⟩
    · simp only [runOps, e1, Option.bind_some, e]
    · simp only [worldOps, e1]; exact h'
  | .crash :: rest, s, w, clean, h, hok => by
    obtain ⟨s1, e1, h1, _, _, hall⟩ := crashRestart_sessCrashB h.inv
    obtain ⟨s', e, h'⟩ := runOps_cinvB rest s1 w true ⟨h1.toB, fun _ => hall⟩ (hok s1 e1)
    refine ⟨s', ?_, ?_⟩
    · simp only [runOps, e1, Option.bind_some, e]
    · simp only [worldOps, e1]; exact h'

/-! ### examples -/

/-- **Non-vacuity of `FirstRowRefused` for the size of a row**: on the plain database with the one empty table
`t (b VARCHAR(5000))`, the row `('xx…x')` with 1100 bytes is refused - and not by `rowRefusedEarly`. -/
theorem firstRowRefused_oversized_example :
    FirstRowRefused [⟨tname, [⟨"b", .varchar, 5000⟩], []⟩] (.insert tname [] [[.str (List.replicate 1100 120)]]) ∧
    rowRefusedEarly [⟨"b", .varchar, 5000⟩] [] [Mkdb.Tuple.Val.str (List.replicate 1100 120)] = false :=
  ⟨⟨⟨tname, [⟨"b", .varchar, 5000⟩], []⟩, by rfl, by decide +kernel⟩, by decide +kernel⟩

/-- the column list `(b VARCHAR(5000))` -/
def vcols : List ColDef := [⟨[98], .varchar 5000⟩]

/-- CREATE DATABASE d; USE d; CREATE TABLE t (b VARCHAR(5000)); INSERT INTO t VALUES ('xx…x') - 1100 bytes, refused
for its size after the counters moved -; crash; USE d; restart -/
def oversizedOps3 : List SOp :=
  [.stmt (.createDatabase [100]), .stmt (.use [100]), .stmt (.createTable tname vcols),
   .stmt (.insert tname [] [[.str (List.replicate 1100 120)]]), .crash, .stmt (.use [100]), .restart]

theorem spec_create_v : Spec.specStmt [] (.createTable tname vcols) = some [⟨tname, [⟨"b", .varchar, 5000⟩], []⟩] := by
  have h1 : (tname == "sys_pages".toUTF8.toList) = false := by decide +kernel
  have h2 : (tname == "sys_schema".toUTF8.toList) = false := by decide +kernel
  have h0 : (Spec.findTable [] tname).isSome = false := rfl
  simp only [Spec.specStmt, Spec.specCreate, h0, h1, h2, Bool.or_self, Bool.false_eq_true, if_false]
  rfl

theorem room_create_v : StmtRoom newDB ptNew schNew [] (.createTable tname vcols) := by
  refine ⟨?_, by decide +kernel, by decide, by decide, by decide, by decide, by decide⟩
  intro c hc k hk
  simp only [vcols, List.mem_singleton] at hc
  subst hc
  cases hk
  decide

set_option maxRecDepth 100000 in
/-- **Non-vacuity of `OkOps3` with an oversized row**, from the empty session. -/
theorem okOps3_example : OkOps3 {} (fun _ => []) true oversizedOps3 := by
  have hw3 : worldStep sess2 (worldStep sess1 (worldStep {} (fun _ => []) (.createDatabase [100])) (.use [100]))
      (.createTable tname vcols) (canon [100]) = [⟨tname, [⟨"b", .varchar, 5000⟩], []⟩] := by
    show routedW sess2 (worldStep {} (fun _ => []) (.createDatabase [100])) (.createTable tname vcols) (canon [100]) = _
    unfold routedW
    simp only [sess2_cur, world1, setW_same, spec_create_v]
  refine .inl ⟨(fun hx => by cases hx), .inl ⟨(fun hx => by cases hx), .inl ⟨?_, .inr ⟨?_, ?_⟩⟩⟩⟩
  · intro _
    refine .inl (.inr ⟨canon [100], newDB, [⟨tname, [⟨"b", .varchar, 5000⟩], []⟩], sess2_cur, sess2_get, ?_, ?_, ?_⟩)
    · show Spec.specStmt (worldStep {} (fun _ => []) (.createDatabase [100]) (canon [100])) _ = _
      rw [world1, setW_same]; exact spec_create_v
    · intro pt sch tbls hi
      obtain ⟨sdb0, habs0, _⟩ := hi.abs
      obtain ⟨rfl, rfl, rfl⟩ := cat_newDB_unique habs0.cat
      exact room_create_v
    · intro _; exact cleanStep_use_true _ _ _
  · have hcur : (exec sess2 (.createTable tname vcols)).1.cur = some (canon [100]) := by
      rw [routed_cur sess2 _ rfl]; exact sess2_cur
    obtain ⟨db, hdb⟩ : ∃ db, getDB (exec sess2 (.createTable tname vcols)).1 (canon [100]) = some db :=
      Option.isSome_iff_exists.mp (by decide +kernel)
    refine ⟨canon [100], db, hcur, hdb, ?_⟩
    show FirstRowRefused (worldStep sess2 (worldStep sess1 (worldStep {} (fun _ => []) (.createDatabase [100]))
      (.use [100])) (.createTable tname vcols) (canon [100])) _
    rw [hw3]
    exact firstRowRefused_oversized_example.1
  · intro s' _
    exact .inl ⟨(fun hx => by cases hx), fun _ _ => trivial⟩

end Mkdb.Session
