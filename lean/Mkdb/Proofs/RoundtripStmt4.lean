import Mkdb.Proofs.RoundtripStmt3
/-!
Token-level round trip (C10), part 4: WHERE, GROUP BY (qualified columns, optional commas),
ORDER BY (ASC written or not, DESC), LIMIT / OFFSET in either order, and `Select`.
-/
namespace Mkdb.Sql
open Mkdb.Scan Mkdb.Generated

/-! ## WHERE -/

/-- what may not follow a WHERE clause (nor stand in the place of an absent one) -/
def whereBad : List Int := [t_DOT, t_EQ, t_NEQ, t_LT, t_GT, t_LTE, t_GTE, t_AND, t_OR, t_WHERE]

theorem headNot_tokWhere (o : ROpts) (w : Option Cond) {tys : List Int} (h : tys.contains t_WHERE = false) :
    HeadNot tys (tokWhere o w) := by
  cases w with
  | none => trivial
  | some c => exact h

theorem whereClause_tok (o : ROpts) (ok : Lit → Bool) (hlit : ∀ l, ok l = true → GoodLit o.lit l)
    (w : Option Cond) (hw : wfOptCond ok w = true) (rest : List Token) (hr : HeadNot whereBad rest)
    (f : Nat) (hf : (tokWhere o w).length + 2 ≤ f) :
    whereClause f (tokWhere o w ++ rest) = .ok w rest := by
  cases w with
  | none =>
    have h : HeadNot [t_WHERE] rest := headNot_sub hr (by decide)
    simp only [tokWhere, List.nil_append, whereClause, bind_apply, matchTy_headNot _ _ h, pure_apply]
  | some c =>
    simp only [tokWhere, List.length_cons] at hf
    have hc := orCond_tokCond o ok hlit c hw rest (headNot_sub hr (by decide)) f (by omega)
    pexec [tokWhere, whereClause, hc]

/-! ## GROUP BY -/

theorem headNot_tokGBCols_cons (o : ROpts) (i : Nat) (c : ColRef) (t : List ColRef) (rest : List Token)
    {tys : List Int} (h : tys.contains t_IDENT = false) : HeadNot tys (tokGBCols o i (c :: t) ++ rest) := by
  cases t with
  | nil => exact headNot_tokCol o c rest h
  | cons d r => simp only [tokGBCols, List.append_assoc]; exact headNot_tokCol o c _ h

theorem length_le_tokGBCols (o : ROpts) (cs : List ColRef) : ∀ i, cs.length ≤ (tokGBCols o i cs).length := by
  induction cs with
  | nil => intro i; simp
  | cons c t ih =>
    intro i
    have := tokCol_length o c
    cases t with
    | nil => simpa [tokGBCols] using this
    | cons d r =>
      have := ih (i+1)
      simp only [tokGBCols, List.length_append, List.length_cons] at *
      omega

/-- **GROUP BY lists are not cut**: every column (qualified or not), with or without commas between. -/
theorem groupByLoop_tok (o : ROpts) (rest : List Token) (hr : HeadNot [t_IDENT, t_COMMA, t_DOT] rest)
    (cs : List ColRef) : ∀ (i : Nat) (b : Bool) (f : Nat), (cs ≠ [] ∨ b = false) → cs.length + 1 ≤ f →
    groupByLoop f b (tokGBCols o i cs ++ rest) = .ok cs rest := by
  have hid : HeadNot [t_IDENT] rest := headNot_sub hr (by decide)
  have hcomma : HeadNot [t_COMMA] rest := headNot_sub hr (by decide)
  have hdot : HeadNot [t_DOT] rest := headNot_sub hr (by decide)
  induction cs with
  | nil =>
    intro i b f hb hf
    obtain ⟨f1, rfl⟩ : ∃ f1, f = f1 + 1 := ⟨f - 1, by omega⟩
    have hb' : b = false := by cases hb with | inl h => exact absurd rfl h | inr h => exact h
    subst hb'
    simp only [tokGBCols, List.nil_append, groupByLoop, bind_apply, columnReference_none rest hid,
      Bool.false_eq_true, ↓reduceIte, pure_apply]
  | cons c t ih =>
    intro i b f _ hf
    obtain ⟨f1, rfl⟩ : ∃ f1, f = f1 + 1 := ⟨f - 1, by omega⟩
    cases t with
    | nil =>
      have hrec := ih (i+1) false f1 (Or.inr rfl) (by simp at hf ⊢; omega)
      simp only [tokGBCols, List.nil_append] at hrec
      simp only [tokGBCols, groupByLoop, bind_apply, columnReference_tok o c rest hdot,
        commaFollows_headNot rest hcomma, hrec, pure_apply]
    | cons d r =>
      by_cases hk : o.gbComma i = true
      · have hrec := ih (i+1) true f1 (Or.inl (by simp)) (by simp at hf ⊢; omega)
        have hd : HeadNot [t_DOT] (K o t_COMMA :: (tokGBCols o (i+1) (d :: r) ++ rest)) := headNot_cons rfl
        simp only [tokGBCols, hk, ↓reduceIte, List.append_assoc, List.cons_append, List.nil_append, groupByLoop,
          bind_apply, columnReference_tok o c _ hd, commaFollows_comma (K o t_COMMA) _ rfl, hrec, pure_apply]
      · have hrec := ih (i+1) false f1 (Or.inr rfl) (by simp at hf ⊢; omega)
        have hd : HeadNot [t_DOT] (tokGBCols o (i+1) (d :: r) ++ rest) := headNot_tokGBCols_cons o _ d r rest rfl
        have hcm : HeadNot [t_COMMA] (tokGBCols o (i+1) (d :: r) ++ rest) := headNot_tokGBCols_cons o _ d r rest rfl
        simp only [tokGBCols, hk, Bool.false_eq_true, ↓reduceIte, List.append_assoc, List.nil_append, groupByLoop,
          bind_apply, columnReference_tok o c _ hd, commaFollows_headNot _ hcm, hrec, pure_apply]

/-- what may not follow a GROUP BY clause (nor stand in the place of an absent one) -/
def groupBad : List Int := [t_IDENT, t_COMMA, t_DOT, t_GROUP]

theorem headNot_tokGroupBy (o : ROpts) (gb : List ColRef) {tys : List Int} (h : tys.contains t_GROUP = false) :
    HeadNot tys (tokGroupBy o gb) := by
  unfold tokGroupBy
  split
  · split
    · exact h
    · trivial
  · exact h

theorem groupByClause_tok (o : ROpts) (gb : List ColRef) (rest : List Token) (hr : HeadNot groupBad rest)
    (f : Nat) (hf : (tokGroupBy o gb).length + 2 ≤ f) :
    groupByClause f (tokGroupBy o gb ++ rest) = .ok gb rest := by
  have h3 : HeadNot [t_IDENT, t_COMMA, t_DOT] rest := headNot_sub hr (by decide)
  cases gb with
  | nil =>
    by_cases he : o.emptyGroupBy = true
    · have hl := groupByLoop_tok o rest h3 [] 0 false f (Or.inr rfl) (by simp only [List.length_nil]; omega)
      simp only [tokGBCols, List.nil_append] at hl
      pexec [tokGroupBy, List.isEmpty_nil, he, groupByClause, hl]
    · have h : HeadNot [t_GROUP] rest := headNot_sub hr (by decide)
      simp only [tokGroupBy, List.isEmpty_nil, he, Bool.false_eq_true, ↓reduceIte, List.nil_append, groupByClause,
        bind_apply, matchTy_headNot _ _ h, pure_apply]
  | cons c t =>
    have hlen := length_le_tokGBCols o (c :: t) 0
    simp only [tokGroupBy, List.isEmpty_cons, Bool.false_eq_true, ↓reduceIte, List.length_cons] at hf hlen
    have hl := groupByLoop_tok o rest h3 (c :: t) 0 false f (Or.inr rfl) (by simp only [List.length_cons]; omega)
    pexec [tokGroupBy, List.isEmpty_cons, groupByClause, hl]

/-! ## ORDER BY -/

/-- the body of the loop of `SortSpecificationList` -/
def sortBody : P (SortSpec × Bool) := do
      match ← columnReference with
      | none => fail .unexpected
      | some c =>
        let dir ← matchTy [t_ASC, t_DESC]
        let desc := match dir with | some t => t.ty == t_DESC | none => false
        pure (⟨c, desc⟩, ← commaFollows)

theorem sortSpecList_eq (f : Nat) : sortSpecList f = (do
    match ← matchTy [t_ORDER] with
    | none => pure []
    | some _ =>
      let _ ← requireMatch [t_BY]
      sepLoop f sortBody) := rfl

theorem sortBody_tok (o : ROpts) (s : SortSpec) (j : Nat) (r' : List Token)
    (hr : HeadNot [t_DOT, t_ASC, t_DESC] r') : sortBody (tokSort o j s ++ r') = withComma s r' := by
  obtain ⟨c, d⟩ := s
  have h1 : (t_DESC == t_DESC) = true := rfl
  have h2 : (t_ASC == t_DESC) = false := rfl
  cases d with
  | true =>
    have hc := columnReference_tok o c (K o t_DESC :: r') (headNot_cons rfl)
    pexec [tokSort, sortBody, hc, h1, withComma]
    cases commaFollows r' <;> rfl
  | false =>
    by_cases hk : o.ascKw j = true
    · have hc := columnReference_tok o c (K o t_ASC :: r') (headNot_cons rfl)
      pexec [tokSort, sortBody, hk, hc, h2, withComma]
      cases commaFollows r' <;> rfl
    · have hc := columnReference_tok o c r' (headNot_sub hr (by decide))
      have hm : HeadNot [t_ASC, t_DESC] r' := headNot_sub hr (by decide)
      pexec [tokSort, sortBody, hk, List.append_nil, hc, matchTy_headNot _ _ hm, withComma]
      cases commaFollows r' <;> rfl

/-- what may not follow an ORDER BY clause (nor stand in the place of an absent one) -/
def orderBad : List Int := [t_COMMA, t_DOT, t_ASC, t_DESC, t_ORDER]

theorem headNot_tokOrderBy (o : ROpts) (ob : List SortSpec) {tys : List Int} (h : tys.contains t_ORDER = false) :
    HeadNot tys (tokOrderBy o ob) := by
  unfold tokOrderBy
  split
  · trivial
  · exact h

/-- **ORDER BY round trip**: every key with its direction (ASC written or not; DESC). -/
theorem sortSpecList_tok (o : ROpts) (ob : List SortSpec) (rest : List Token) (hr : HeadNot orderBad rest)
    (f : Nat) (hf : (tokOrderBy o ob).length + 2 ≤ f) :
    sortSpecList f (tokOrderBy o ob ++ rest) = .ok ob rest := by
  cases ob with
  | nil =>
    have h : HeadNot [t_ORDER] rest := headNot_sub hr (by decide)
    simp only [tokOrderBy, List.isEmpty_nil, ↓reduceIte, List.nil_append, sortSpecList_eq, bind_apply,
      matchTy_headNot _ _ h, pure_apply]
  | cons s t =>
    have hpos : ∀ j (x : SortSpec), 1 ≤ (tokSort o j x).length := by
      intro j x
      have := tokCol_length o x.key
      simp only [tokSort, List.length_append]; omega
    have hlen := length_le_tokSep (tokSort o) (K o t_COMMA) hpos (s :: t) 0
    simp only [tokOrderBy, List.isEmpty_cons, Bool.false_eq_true, ↓reduceIte, List.length_cons] at hf
    have hloop := sepLoop_tok sortBody (tokSort o) (K o t_COMMA) rfl [t_DOT, t_ASC, t_DESC] (by decide) rest
      (headNot_sub hr (by decide)) f (s :: t)
      (fun j x r' _ _ hb => sortBody_tok o x j r' hb) (by simp) 0 f (by omega) (by omega)
    pexec [tokOrderBy, List.isEmpty_cons, sortSpecList_eq, hloop]

/-! ## LIMIT / OFFSET -/

theorem goodLit_int_ty (lit : Lit → Token) (n : Int) (h : GoodLit lit (.int n)) : (lit (.int n)).ty = t_INT := by
  have h2 := h.2
  unfold tokenVal at h2
  split at h2
  · cases h2
  · split at h2
    · rename_i hi; simpa using hi
    · split at h2
      · cases h2
      · split at h2 <;> cases h2

theorem requireInt_tok (lit : Lit → Token) (n : Int) (h : GoodLit lit (.int n)) (r : List Token) :
    requireInt (lit (.int n) :: r) = .ok n r := by
  have hty := goodLit_int_ty lit n h
  pexec [requireInt, hty, h.2]

theorem headNot_tokLimit (o : ROpts) (l : LimitOffset) {tys : List Int} (h1 : tys.contains t_LIMIT = false)
    (h2 : tys.contains t_OFFSET = false) : HeadNot tys (tokLimit o l) := by
  obtain ⟨la, oa, lim, off⟩ := l
  cases la <;> cases oa <;> simp only [tokLimit] <;> split <;> first | trivial | exact h1 | exact h2

/-- **LIMIT / OFFSET round trip**: in either order, each mapped to itself. -/
theorem limitOffsetClause_tok (o : ROpts) (ok : Lit → Bool) (hlit : ∀ l, ok l = true → GoodLit o.lit l)
    (l : LimitOffset) (hw : wfLimit ok l = true) (rest : List Token) (hr : HeadNot [t_LIMIT, t_OFFSET] rest)
    (f : Nat) (hf : (tokLimit o l).length + 2 ≤ f) :
    limitOffsetClause f (tokLimit o l ++ rest) = .ok l rest := by
  obtain ⟨la, oa, lim, off⟩ := l
  have hm := matchTy_headNot _ _ hr
  have e1 : (t_LIMIT == t_LIMIT) = true := rfl
  have e2 : (t_OFFSET == t_LIMIT) = false := rfl
  have e3 : (t_OFFSET == t_OFFSET) = true := rfl
  have e4 : (t_LIMIT == t_OFFSET) = false := rfl
  cases la <;> cases oa <;>
    simp only [wfLimit, Bool.false_eq_true, ↓reduceIte, Bool.and_eq_true, decide_eq_true_eq] at hw
  · obtain ⟨rfl, rfl⟩ := hw
    obtain ⟨f1, rfl⟩ : ∃ f1, f = f1 + 1 := ⟨f - 1, by omega⟩
    cases hlf : o.limitFirst <;>
      pexec [tokLimit, hlf, limitOffsetClause, limitLoop, hm]
  · obtain ⟨rfl, h0, hk⟩ := hw
    have hri := requireInt_tok o.lit off (hlit _ hk) rest
    have hneg : ¬ off < 0 := by omega
    cases hlf : o.limitFirst <;>
    · simp only [tokLimit, hlf, Bool.false_eq_true, ↓reduceIte, List.length_append, List.length_cons, List.length_nil] at hf
      obtain ⟨f2, rfl⟩ : ∃ f2, f = f2 + 2 := ⟨f - 2, by omega⟩
      pexec [tokLimit, hlf, limitOffsetClause, limitLoop, hm, hri, e2, e3, hneg]
  · obtain ⟨⟨h0, hk⟩, rfl⟩ := hw
    have hri := requireInt_tok o.lit lim (hlit _ hk) rest
    have hneg : ¬ lim < 0 := by omega
    cases hlf : o.limitFirst <;>
    · simp only [tokLimit, hlf, Bool.false_eq_true, ↓reduceIte, List.length_append, List.length_cons, List.length_nil] at hf
      obtain ⟨f2, rfl⟩ : ∃ f2, f = f2 + 2 := ⟨f - 2, by omega⟩
      pexec [tokLimit, hlf, limitOffsetClause, limitLoop, hm, hri, e1, hneg]
  · obtain ⟨⟨h0, hk⟩, h0', hk'⟩ := hw
    have hneg : ¬ lim < 0 := by omega
    have hneg' : ¬ off < 0 := by omega
    cases hlf : o.limitFirst
    · simp only [tokLimit, hlf, Bool.false_eq_true, ↓reduceIte, List.length_append, List.length_cons, List.length_nil] at hf
      obtain ⟨f3, rfl⟩ : ∃ f3, f = f3 + 3 := ⟨f - 3, by omega⟩
      have hri := requireInt_tok o.lit off (hlit _ hk') (K o t_LIMIT :: o.lit (.int lim) :: rest)
      have hri' := requireInt_tok o.lit lim (hlit _ hk) rest
      pexec [tokLimit, hlf, limitOffsetClause, limitLoop, hm, hri, hri', e1, e2, e3, e4, hneg, hneg']
    · simp only [tokLimit, hlf, ↓reduceIte, List.length_append, List.length_cons, List.length_nil] at hf
      obtain ⟨f3, rfl⟩ : ∃ f3, f = f3 + 3 := ⟨f - 3, by omega⟩
      have hri := requireInt_tok o.lit lim (hlit _ hk) (K o t_OFFSET :: o.lit (.int off) :: rest)
      have hri' := requireInt_tok o.lit off (hlit _ hk') rest
      pexec [tokLimit, hlf, limitOffsetClause, limitLoop, hm, hri, hri', e1, e2, e3, e4, hneg, hneg']

end Mkdb.Sql
