import Mkdb.Proofs.Counters1
/-!
The header counters, part 2 (W16): **the row operations and CREATE TABLE.**

* `Logged s s' logs`: what an accepted logged operation reports: the LSN counter advanced by EXACTLY the
  number of records it returns (each record takes one LSN, in order), the LSNs of the records are the
  ones consumed, and the key of an INSERT record is a row id handed out by this operation.
* `GrowsL m dk dl df`: a logged operation advances the counters by at most that on every outcome, and
  reports `Logged` when it succeeds.
* `GrowsL.insert`: `RelationService.Insert` (one row): at most one row id, two LSNs (the row, and the
  catalog record when the root moved), 66 pages - also when it is refused after the tree insert was tried.
* `GrowsL.markDeleted`: one LSN.  `update_counters`: `RelationService.Update` of one row id rewrites every
  cell of the scan that carries the id - one LSN each; row ids and pages do not move (`AdvL`).
* `Grows.createBodyNF`, `createTable_counters`: CREATE TABLE of `n` columns: `n + 1` row ids (the catalog
  rows), at most `2 (n + 1)` LSNs, one page for the root and at most 66 per catalog row; its flush copies
  the header to the data file (`AdvF`).
* `flushPages_hdr`: a flush moves no counter and writes the header.
-/
set_option autoImplicit false
namespace Mkdb.Store
open Mkdb.Page Mkdb.Tuple Mkdb.Generated Mkdb.Tree

/-! ### what a logged operation reports -/

/-- the number of INSERT records of a log -/
def insCount (log : List WalRec) : Nat := (log.filter fun r => r.op == c_OpInsert).length

theorem insCount_cons (r : WalRec) (rest : List WalRec) :
    insCount (r :: rest) = (if r.op == c_OpInsert then 1 else 0) + insCount rest := by
  unfold insCount
  rw [List.filter_cons]
  split
  · rw [List.length_cons]; omega
  · omega

theorem insCount_le (log : List WalRec) : insCount log ≤ log.length := List.length_filter_le _ _

theorem insCount_append (a b : List WalRec) : insCount (a ++ b) = insCount a + insCount b := by
  unfold insCount
  rw [List.filter_append, List.length_append]


/-- the records `logs` were written between `s` and `s'`: one LSN each, and the INSERT records carry row
ids handed out in between -/
structure Logged (s s' : Store) (logs : List WalRec) : Prop where
  exact : s'.hdr.nextLSN = s.hdr.nextLSN + logs.length
  lsn : ∀ r ∈ logs, s.hdr.nextLSN ≤ r.lsn ∧ r.lsn < s'.hdr.nextLSN
  key : ∀ r ∈ logs, r.op = c_OpInsert → s.hdr.lastKey < r.cell ∧ r.cell ≤ s'.hdr.lastKey
  kexact : s'.hdr.lastKey = s.hdr.lastKey + insCount logs
  pages : s'.hdr.nextFree ≤ s.hdr.nextFree + 270336 * insCount logs

theorem insCount_single (r : WalRec) (h : r.op ≠ c_OpInsert) : insCount [r] = 0 := by
  have : (r.op == c_OpInsert) = false := by simpa using h
  simp only [insCount, List.filter_cons, this, Bool.false_eq_true, if_false, List.filter_nil, List.length_nil]

theorem Logged.nil {s s' : Store} (h : Adv s s' 0 0 0) : Logged s s' [] := by
  obtain ⟨e1, e2, e3⟩ := h.same
  exact ⟨by rw [e2]; rfl, fun _ hr => (by cases hr), fun _ hr => (by cases hr), by rw [e1]; rfl,
    by rw [e3]; exact Nat.le_refl _⟩

theorem Logged.append {a b c : Store} {l1 l2 : List WalRec} (h1 : Logged a b l1) (h2 : Logged b c l2)
    (hab : a.hdr.lastKey ≤ b.hdr.lastKey) (hbc : b.hdr.lastKey ≤ c.hdr.lastKey) : Logged a c (l1 ++ l2) := by
  refine ⟨?_, ?_, ?_, ?_, ?_⟩
  · rw [h2.exact, h1.exact, List.length_append]; omega
  · intro r hr
    have e1 := h1.exact
    have e2 := h2.exact
    rcases List.mem_append.mp hr with hr | hr
    · have := h1.lsn r hr; omega
    · have := h2.lsn r hr; omega
  · intro r hr hop
    rcases List.mem_append.mp hr with hr | hr
    · have := h1.key r hr hop; omega
    · have := h2.key r hr hop; omega
  · rw [h2.kexact, h1.kexact, insCount_append]; omega
  · have := h1.pages
    have := h2.pages
    rw [insCount_append]
    omega

/-- the same records, seen from stores with the same counters -/
theorem Logged.of_same {a a' b : Store} {logs : List WalRec} (h : Logged a' b logs) (hs : Adv a a' 0 0 0) :
    Logged a b logs := by
  obtain ⟨e1, e2, e3⟩ := hs.same
  exact ⟨by rw [← e2]; exact h.exact, fun r hr => by rw [← e2]; exact h.lsn r hr,
    fun r hr hop => by rw [← e1]; exact h.key r hr hop, by rw [← e1]; exact h.kexact,
    by rw [← e3]; exact h.pages⟩

/-- the result of a logged operation run from `s` -/
def ResL (s : Store) (r : SRes (List WalRec)) (dk dl df : Nat) : Prop :=
  match r with
  | .ok logs s' => Adv s s' dk dl df ∧ Logged s s' logs
  | .err _ s' => Adv s s' dk dl df
  | _ => True

/-- a logged operation: bounded advance on every outcome, `Logged` on success -/
def GrowsL (m : SM (List WalRec)) (dk dl df : Nat) : Prop := ∀ s, ResL s (m s) dk dl df

theorem GrowsL.grows {m : SM (List WalRec)} {dk dl df : Nat} (h : GrowsL m dk dl df) : Grows m dk dl df := by
  intro s
  have := h s
  cases e : m s with
  | ok a s' => rw [e] at this; exact this.1
  | err x s' => rw [e] at this; exact this
  | _ => trivial

theorem ResL.of_same {s0 s : Store} {r : SRes (List WalRec)} {dk dl df : Nat} (hs : Adv s0 s 0 0 0)
    (h : ResL s r dk dl df) : ResL s0 r dk dl df := by
  cases r with
  | ok logs s' =>
    exact ⟨(hs.trans h.1).mono (by omega) (by omega) (by omega), h.2.of_same hs⟩
  | err x s' => exact (hs.trans h).mono (by omega) (by omega) (by omega)
  | _ => trivial

theorem ResL.mono {s : Store} {r : SRes (List WalRec)} {k l f k' l' f' : Nat} (h : ResL s r k l f)
    (hk : k ≤ k') (hl : l ≤ l') (hf : f ≤ f') : ResL s r k' l' f' := by
  cases r with
  | ok logs s' => exact ⟨h.1.mono hk hl hf, h.2⟩
  | err x s' => exact Adv.mono h hk hl hf
  | _ => trivial

/-- a prefix that moves no counter -/
theorem resL_after {α} {m : SM α} (hm : Still m) {g : α → SM (List WalRec)} {s : Store} {dk dl df : Nat}
    (hg : ∀ a s1, Adv s s1 0 0 0 → ResL s1 (g a s1) dk dl df) : ResL s ((m >>= g) s) dk dl df := by
  rw [bind_def]
  cases e : m s with
  | ok a s1 => exact ResL.of_same (hm.ok e) (hg a s1 (hm.ok e))
  | err x s1 => exact (hm.err e).mono (Nat.zero_le _) (Nat.zero_le _) (Nat.zero_le _)
  | _ => trivial

theorem resL_throw (s : Store) (e : SErr) (dk dl df : Nat) : ResL s ((throw e : SM (List WalRec)) s) dk dl df :=
  (Adv.refl s).mono (Nat.zero_le _) (Nat.zero_le _) (Nat.zero_le _)

/-- the LSN bump after a logged change -/
def bumpLSN : SM Unit := modifyS fun s => { s with hdr := { s.hdr with nextLSN := s.hdr.nextLSN + 1 } }

/-- the end of every logged cell change: the LSN counter is bumped and the record, stamped with the LSN
taken before, is returned -/
theorem resL_stamp (s0 s : Store) (hs : Adv s0 s 0 0 0) (r : WalRec) (hl : r.lsn = s0.hdr.nextLSN)
    (hop : r.op ≠ c_OpInsert) :
    ResL s0 ((bumpLSN >>= fun _ => (pure [r] : SM (List WalRec))) s) 0 1 0 := by
  obtain ⟨e1, e2, e3⟩ := hs.same
  show Adv s0 _ 0 1 0 ∧ Logged s0 _ [r]
  refine ⟨⟨?_, ?_, ?_, ?_, ?_, ?_, hs.dhdr⟩, ?_, ?_, ?_, ?_, ?_⟩
  · show _ ≤ s.hdr.lastKey; omega
  · show s.hdr.lastKey ≤ _; omega
  · show _ ≤ s.hdr.nextLSN + 1; omega
  · show s.hdr.nextLSN + 1 ≤ _; omega
  · show _ ≤ s.hdr.nextFree; omega
  · show s.hdr.nextFree ≤ _; omega
  · show s.hdr.nextLSN + 1 = _ + 1; omega
  · intro x hx
    rw [List.mem_singleton] at hx
    subst hx
    refine ⟨by omega, ?_⟩
    show x.lsn < s.hdr.nextLSN + 1
    omega
  · intro x hx hx2
    rw [List.mem_singleton] at hx
    subst hx
    exact absurd hx2 hop
  · rw [insCount_single r hop]; show s.hdr.lastKey = _; omega
  · rw [insCount_single r hop]; show s.hdr.nextFree ≤ _; omega

/-! ### `updatePageTable` -/

theorem GrowsL.updatePageTable (newRoot : Nat) (name : Bytes) : GrowsL (updatePageTable newRoot name) 0 1 0 := by
  intro s
  rw [updatePageTable_eq]
  show ResL s ((scanRight s.hdr.ptRoot >>= _) s) 0 1 0
  refine resL_after (Still.scanRight _) fun cells s1 h1 => ?_
  refine resL_after (Still.findFirstM (fun _ => by unfold ptFind; repeat st_step) _) fun hit s2 h2 => ?_
  cases hit with
  | none => exact resL_throw _ _ _ _ _
  | some cm =>
    obtain ⟨c, m⟩ := cm
    refine resL_after (Still.encodeRow _ _) fun buf s3 h3 => ?_
    show ResL s3 ((updateCellAt c.2 c.1.key buf s3.hdr.nextLSN >>= _) s3) 0 1 0
    refine resL_after (Still.updateCellAt _ _ _ _) fun _ s4 h4 => ?_
    exact resL_stamp s4 s4 (Adv.refl _) _ (by show s3.hdr.nextLSN = _; exact (h4.same.2.1).symm)
      (by show c_OpUpdate ≠ c_OpInsert; decide)

/-! ### INSERT of one row -/

/-- **`RelationService.Insert`**: at most one row id, at most two LSNs, at most 66 pages - whatever the
outcome; accepted: `Logged` (one INSERT record with the new row id, and the catalog record if the root
of the table moved). -/
theorem GrowsL.insert (table : Bytes) (cols : List String) (vals : List Val) :
    GrowsL (Store.insert table cols vals) 1 2 270336 := by
  intro s
  rw [insert_eq]
  refine resL_after (Still.relationOffset _) fun off s1 _ => ?_
  refine resL_after (Still.fetch _) fun _ s2 _ => ?_
  refine resL_after (Still.relationSchema _) fun schema s3 _ => ?_
  split
  · exact resL_throw _ _ _ _ _
  · cases checkColumns schema (colsOf schema cols) with
    | some e => exact resL_throw _ _ _ _ _
    | none =>
      simp only
      refine resL_after (Still.encodeRow _ _) fun buf s4 _ => ?_
      rw [bind_def]
      have hb := btInsert_counters ⟨off⟩ buf s4
      cases eb : btInsert ⟨off⟩ buf s4 with
      | ok r s5 =>
        rw [eb] at hb
        obtain ⟨hadv, hk, hl, hr1, hr2⟩ := hb
        simp only
        have hrec : Logged s4 s5 [(⟨c_OpInsert, r.2.2, off, r.2.1, buf⟩ : WalRec)] := by
          have hic : insCount [(⟨c_OpInsert, r.2.2, off, r.2.1, buf⟩ : WalRec)] = 1 := rfl
          refine ⟨by rw [hl]; rfl, ?_, ?_, by rw [hic, hk], by rw [hic]; exact hadv.f_le⟩
          · intro x hx
            rw [List.mem_singleton] at hx
            subst hx
            show s4.hdr.nextLSN ≤ r.2.2 ∧ r.2.2 < s5.hdr.nextLSN
            omega
          · intro x hx _
            rw [List.mem_singleton] at hx
            subst hx
            show s4.hdr.lastKey < r.2.1 ∧ r.2.1 ≤ s5.hdr.lastKey
            omega
        split
        · rw [bind_def]
          have hu := GrowsL.updatePageTable r.1.root table s5
          cases eu : Store.updatePageTable r.1.root table s5 with
          | ok logs s6 =>
            rw [eu] at hu
            refine ⟨(hadv.trans hu.1).mono (by omega) (by omega) (by omega), ?_⟩
            exact hrec.append hu.2 hadv.k_mono hu.1.k_mono
          | err x s6 =>
            rw [eu] at hu
            exact (hadv.trans hu).mono (by omega) (by omega) (by omega)
          | _ => trivial
        · exact ⟨hadv.mono (by omega) (by omega) (by omega), hrec⟩
      | err x s5 =>
        rw [eb] at hb
        exact hb.1.mono (by omega) (by omega) (by omega)
      | _ => trivial

/-- on success the row-id counter advanced by exactly `n` -/
def KeyExact {α} (m : SM α) (n : Nat) : Prop :=
  ∀ s, match m s with
    | .ok _ s' => s'.hdr.lastKey = s.hdr.lastKey + n
    | _ => True

theorem KeyExact.after {α β} {m : SM α} {f : α → SM β} {n : Nat} (hm : Still m) (hf : ∀ a, KeyExact (f a) n) :
    KeyExact (m >>= f) n := by
  intro s
  rw [bind_def]
  cases e : m s with
  | ok a s1 =>
    have h1 := (hm.ok e).same.1
    have h2 := hf a s1
    simp only
    cases e2 : f a s1 with
    | ok b s2 => rw [e2] at h2; simp only at h2 ⊢; omega
    | _ => trivial
  | _ => trivial

theorem KeyExact.of_grows {α} {m : SM α} {l f : Nat} (h : Grows m 0 l f) : KeyExact m 0 := by
  intro s
  have := h s
  cases e : m s with
  | ok a s1 =>
    rw [e] at this
    have h' : Adv s s1 0 l f := this
    have h1 := h'.k_mono
    have h2 := h'.k_le
    show s1.hdr.lastKey = s.hdr.lastKey + 0
    omega
  | _ => trivial

theorem KeyExact.throw {α} (e : SErr) (n : Nat) : KeyExact (throw e : SM α) n := fun _ => trivial

/-- **An accepted `RelationService.Insert` consumes exactly one row id.** -/
theorem insert_ok_key (table : Bytes) (cols : List String) (vals : List Val) :
    KeyExact (Store.insert table cols vals) 1 := by
  rw [insert_eq]
  refine KeyExact.after (Still.relationOffset _) fun off => KeyExact.after (Still.fetch _) fun _ =>
    KeyExact.after (Still.relationSchema _) fun schema => ?_
  split
  · exact KeyExact.throw _ _
  · cases checkColumns schema (colsOf schema cols) with
    | some e => exact KeyExact.throw _ _
    | none =>
      simp only
      refine KeyExact.after (Still.encodeRow _ _) fun buf => ?_
      intro s
      rw [bind_def]
      have hb := btInsert_counters ⟨off⟩ buf s
      cases eb : btInsert ⟨off⟩ buf s with
      | ok r s5 =>
        rw [eb] at hb
        simp only
        have tail : Grows (if r.1.root != off then
            Store.updatePageTable r.1.root table >>= fun logs =>
              pure ((⟨c_OpInsert, r.2.2, off, r.2.1, buf⟩ : WalRec) :: logs)
          else pure [(⟨c_OpInsert, r.2.2, off, r.2.1, buf⟩ : WalRec)]) 0 1 0 :=
          Grows.ite ((GrowsL.updatePageTable _ _).grows.before fun _ => Still.pure _) ((Still.pure _).grows _ _ _)
        have ht := KeyExact.of_grows tail s5
        revert ht
        cases (if r.1.root != off then
            Store.updatePageTable r.1.root table >>= fun logs =>
              pure ((⟨c_OpInsert, r.2.2, off, r.2.1, buf⟩ : WalRec) :: logs)
          else pure [(⟨c_OpInsert, r.2.2, off, r.2.1, buf⟩ : WalRec)] : SM (List WalRec)) s5 with
        | ok logs s6 => intro ht; simp only at ht ⊢; have := hb.2.1; omega
        | _ => intro _; trivial
      | _ => trivial

/-- … hence logs exactly one INSERT record -/
theorem insert_ok_count {table : Bytes} {cols : List String} {vals : List Val} {s s' : Store}
    {logs : List WalRec} (h : Store.insert table cols vals s = .ok logs s') : insCount logs = 1 := by
  have h1 := insert_ok_key table cols vals s
  have h2 := GrowsL.insert table cols vals s
  rw [h] at h1 h2
  have := h2.2.kexact
  simp only at h1
  omega

/-! ### DELETE of one row id -/

/-- **`RelationService.MarkDeleted`**: one LSN, no row id, no page. -/
theorem GrowsL.markDeleted (table : Bytes) (rowId : Nat) : GrowsL (markDeleted table rowId) 0 1 0 := by
  intro s
  rw [markDeleted_eq]
  refine resL_after (Still.relationOffset _) fun off s1 _ => ?_
  refine resL_after (Still.fetch _) fun _ s2 _ => ?_
  refine resL_after (Still.findLeaf _ _ _) fun l s3 _ => ?_
  cases l.cells.find? (fun c => c.key == rowId) with
  | none => exact resL_throw _ _ _ _ _
  | some c =>
    simp only
    split
    · exact resL_throw _ _ _ _ _
    · show ResL s3 ((fetch l.off >>= _) s3) 0 1 0
      refine resL_after (Still.fetch _) fun pg s4 h4 => ?_
      cases pg with
      | internal n => trivial
      | leaf l1 =>
        refine resL_after (Still.putNode _ _) fun _ s5 h5 => ?_
        refine resL_after (Still.markDirty _ _) fun _ s6 h6 => ?_
        have e4 := h4.same.2.1
        have e5 := h5.same.2.1
        have e6 := h6.same.2.1
        exact resL_stamp s6 s6 (Adv.refl _) _ (by show s3.hdr.nextLSN = _; omega)
          (by show c_OpDelete ≠ c_OpInsert; decide)

/-! ### UPDATE of one row id -/

/-- only the LSN counter moved (upwards): what UPDATE and DELETE do to the header -/
structure AdvL (s s' : Store) : Prop where
  k_eq : s'.hdr.lastKey = s.hdr.lastKey
  f_eq : s'.hdr.nextFree = s.hdr.nextFree
  l_mono : s.hdr.nextLSN ≤ s'.hdr.nextLSN
  dhdr : s'.dhdr = s.dhdr

theorem AdvL.refl (s : Store) : AdvL s s := ⟨rfl, rfl, Nat.le_refl _, rfl⟩

theorem AdvL.trans {a b c : Store} (h1 : AdvL a b) (h2 : AdvL b c) : AdvL a c :=
  ⟨h2.k_eq.trans h1.k_eq, h2.f_eq.trans h1.f_eq, Nat.le_trans h1.l_mono h2.l_mono, h2.dhdr.trans h1.dhdr⟩

theorem Adv.advL {a b : Store} {l : Nat} (h : Adv a b 0 l 0) : AdvL a b := by
  obtain ⟨a1, a2, a3, _, a5, a6, a7⟩ := h
  exact ⟨by omega, by omega, a3, a7⟩

/-- … as an `Adv`, with the LSNs consumed as the bound -/
theorem AdvL.adv {a b : Store} (h : AdvL a b) : Adv a b 0 (b.hdr.nextLSN - a.hdr.nextLSN) 0 := by
  obtain ⟨h1, h2, h3, h4⟩ := h
  exact ⟨by omega, by omega, h3, by omega, by omega, by omega, h4⟩

/-- the result of an UPDATE / DELETE operation: only the LSN counter moves; accepted: `Logged` -/
def ResU (s : Store) (r : SRes (List WalRec)) : Prop :=
  match r with
  | .ok logs s' => AdvL s s' ∧ Logged s s' logs
  | .err _ s' => AdvL s s'
  | _ => True

theorem ResL.resU {s : Store} {r : SRes (List WalRec)} {l : Nat} (h : ResL s r 0 l 0) : ResU s r := by
  cases r with
  | ok logs s' => exact ⟨h.1.advL, h.2⟩
  | err x s' => exact Adv.advL h
  | _ => trivial

/-- the loop body of `RelationService.Update`: a cell with another key is skipped, a cell with the key is
rewritten under one LSN -/
theorem GrowsL.updBody (schema : List FieldDef) (rowId : Nat) (cols : List String) (src : List Val)
    (c : LeafCell × Nat) : GrowsL (updBody schema rowId cols src c) 0 1 0 := by
  intro s
  unfold Store.updBody
  split
  · exact ⟨(Adv.refl s).mono (by omega) (by omega) (by omega), Logged.nil (Adv.refl _)⟩
  · refine resL_after (Still.decodeRow _ _) fun m s1 _ => ?_
    refine resL_after (Still.encodeRow _ _) fun buf s2 _ => ?_
    show ResL s2 ((updateCellAt c.2 c.1.key buf s2.hdr.nextLSN >>= _) s2) 0 1 0
    refine resL_after (Still.updateCellAt _ _ _ _) fun _ s3 h3 => ?_
    exact resL_stamp s3 s3 (Adv.refl _) _ (by show s2.hdr.nextLSN = _; exact (h3.same.2.1).symm)
      (by show c_OpUpdate ≠ c_OpInsert; decide)

/-- the loop of `RelationService.Update` over the scanned cells: one LSN per rewritten cell, at most one
per cell -/
theorem mapS_updBody (schema : List FieldDef) (rowId : Nat) (cols : List String) (src : List Val) :
    ∀ (cells : List (LeafCell × Nat)) (s : Store),
      match mapS (updBody schema rowId cols src) cells s with
      | .ok ll s' => Adv s s' 0 cells.length 0 ∧ Logged s s' ll.flatten
      | .err _ s' => Adv s s' 0 cells.length 0
      | _ => True
  | [], s => ⟨Adv.refl s, Logged.nil (Adv.refl _)⟩
  | c :: rest, s => by
    unfold Store.mapS
    rw [bind_def]
    have h1 := GrowsL.updBody schema rowId cols src c s
    cases e1 : updBody schema rowId cols src c s with
    | ok l1 s1 =>
      rw [e1] at h1
      simp only
      rw [bind_def]
      have h2 := mapS_updBody schema rowId cols src rest s1
      cases e2 : mapS (updBody schema rowId cols src) rest s1 with
      | ok l2 s2 =>
        rw [e2] at h2
        refine ⟨(h1.1.trans h2.1).mono (by omega) (by simp only [List.length_cons]; omega) (by omega), ?_⟩
        show Logged s s2 (l1 :: l2).flatten
        rw [List.flatten_cons]
        exact h1.2.append h2.2 h1.1.k_mono h2.1.k_mono
      | err x s2 =>
        rw [e2] at h2
        exact (h1.1.trans h2).mono (by omega) (by simp only [List.length_cons]; omega) (by omega)
      | _ => trivial
    | err x s1 =>
      rw [e1] at h1
      exact Adv.mono h1 (by omega) (by simp only [List.length_cons]; omega) (by omega)
    | _ => trivial

/-- **`RelationService.Update`** (one row id): every cell of the scan that carries the id is rewritten
under its own LSN (exactly one in a well-formed table, but nothing is assumed here); row ids and pages do
not move; accepted: the LSN counter advanced by exactly the number of records returned. -/
theorem update_counters (table : Bytes) (rowId : Nat) (cols : List String) (src : List Val) (s : Store) :
    ResU s (update table rowId cols src s) := by
  rw [update_eq_stmt]
  have key : ∀ {α} {m : SM α} (_ : Still m) {g : α → SM (List WalRec)},
      (∀ a s1, ResU s1 (g a s1)) → ∀ s0, ResU s0 ((m >>= g) s0) := by
    intro α m hm g hg s0
    rw [bind_def]
    cases e : m s0 with
    | ok a s1 =>
      have h0 := hm.ok e
      have h1 := hg a s1
      simp only
      cases e2 : g a s1 with
      | ok logs s2 => rw [e2] at h1; exact ⟨h0.advL.trans h1.1, h1.2.of_same h0⟩
      | err x s2 => rw [e2] at h1; exact h0.advL.trans h1
      | _ => trivial
    | err x s1 => exact (hm.err e).advL
    | _ => trivial
  refine key (Still.relationOffset _) (fun off s1 => ?_) s
  refine key (Still.fetch _) (fun _ s2 => ?_) s1
  refine key (Still.relationSchema _) (fun schema s3 => ?_) s2
  cases checkColumns schema cols with
  | some e => exact AdvL.refl _
  | none =>
    simp only
    refine key (Still.scanRight _) (fun cells s4 => ?_) s3
    rw [bind_def]
    have h := mapS_updBody schema rowId cols src cells s4
    cases e : mapS (updBody schema rowId cols src) cells s4 with
    | ok ll s5 => rw [e] at h; exact ⟨h.1.advL, h.2⟩
    | err x s5 => rw [e] at h; exact Adv.advL h
    | _ => trivial

/-! ### the flush -/

/-- **A flush moves no counter and writes the header to the data file** (any store, any write order). -/
theorem flushPages_hdr (order : List Nat) (s : Store) :
    ∃ s', flushPages order s = .ok () s' ∧ s'.hdr = s.hdr ∧ s'.dhdr = s.hdr := by
  rw [flushPages_eq]
  exact ⟨_, rfl, flushFold_hdr _ _, flushFold_hdr _ _⟩

/-! ### CREATE TABLE -/

/-- as `Adv`, but the header of the data file is either untouched or (after a flush) the new header -/
structure AdvF (s s' : Store) (dk dl df : Nat) : Prop where
  k_mono : s.hdr.lastKey ≤ s'.hdr.lastKey
  k_le : s'.hdr.lastKey ≤ s.hdr.lastKey + dk
  l_mono : s.hdr.nextLSN ≤ s'.hdr.nextLSN
  l_le : s'.hdr.nextLSN ≤ s.hdr.nextLSN + dl
  f_mono : s.hdr.nextFree ≤ s'.hdr.nextFree
  f_le : s'.hdr.nextFree ≤ s.hdr.nextFree + df
  dhdr : s'.dhdr = s.dhdr ∨ s'.dhdr = s'.hdr

theorem Adv.advF {s s' : Store} {dk dl df : Nat} (h : Adv s s' dk dl df) : AdvF s s' dk dl df :=
  ⟨h.k_mono, h.k_le, h.l_mono, h.l_le, h.f_mono, h.f_le, .inl h.dhdr⟩

theorem AdvF.mono {a b : Store} {k l f k' l' f' : Nat} (h : AdvF a b k l f) (hk : k ≤ k') (hl : l ≤ l')
    (hf : f ≤ f') : AdvF a b k' l' f' := by
  obtain ⟨a1, a2, a3, a4, a5, a6, a7⟩ := h
  exact ⟨a1, by omega, a3, by omega, a5, by omega, a7⟩

/-- the catalog row of the new table in `sys_pages`: one row id, one LSN, at most 66 pages -/
theorem Grows.insertPageTable (pageOff : Nat) (name : Bytes) : Grows (insertPageTable pageOff name) 1 1 270336 := by
  rw [insertPageTable_eq]
  refine Grows.after (Still.encodeRow _ _) fun buf => Grows.after Still.getS fun s0 =>
    Grows.after (Still.fetch _) fun _ => Grows.before (Grows.btInsert _ _) fun r => Still.bind Still.getS fun s1 => ?_
  refine Still.ite ?_ (Still.pure _)
  intro s
  exact ⟨Nat.le_refl _, Nat.le_refl _, Nat.le_refl _, Nat.le_refl _, Nat.le_refl _, Nat.le_refl _, rfl⟩

/-- the catalog rows of the columns in `sys_schema`: per column one row id, at most two LSNs (the row and,
when the root of `sys_schema` moved, the catalog record), at most 66 pages -/
theorem Grows.insertSchemaRows : ∀ (fields : List FieldDef) (name : Bytes) (root : Nat),
    Grows (insertSchemaRows fields name root) fields.length (2 * fields.length) (270336 * fields.length)
  | [], _, _ => Still.pure _
  | fd :: rest, name, root => by
    rw [insertSchemaRows_cons]
    refine Grows.after (Still.encodeRow _ _) fun buf => ?_
    refine (Grows.bind (Grows.btInsert _ _) fun r => ?_ :
      Grows _ (1 + rest.length) (1 + (1 + 2 * rest.length)) (270336 + 270336 * rest.length)).mono
      (by simp only [List.length_cons]; omega) (by simp only [List.length_cons]; omega)
      (by simp only [List.length_cons]; omega)
    refine Grows.ite ?_ ?_
    · exact (Grows.bind (GrowsL.updatePageTable _ _).grows fun _ => Grows.insertSchemaRows rest name _).mono
        (by omega) (by omega) (by omega)
    · exact (Grows.insertSchemaRows rest name root).mono (by omega) (by omega) (by omega)

/-- **The body of CREATE TABLE** (everything before its flush), for `n` columns: `n + 1` row ids,
`2 n + 1` LSNs, one page for the root of the table and at most 66 for each of the `n + 1` catalog rows. -/
theorem Grows.createBodyNF (fields : List FieldDef) (name : Bytes) :
    Grows (createBodyNF fields name) (fields.length + 1) (2 * fields.length + 1)
      (4096 + 270336 * (fields.length + 1)) := by
  unfold Store.createBodyNF
  refine (Grows.bind (Grows.appendNode _ _) fun pgOff => Grows.bind (Grows.insertPageTable pgOff name) fun _ =>
    Grows.after (Still.relationOffset _) fun r => Grows.after (Still.fetch _) fun _ =>
      Grows.insertSchemaRows fields name r).mono (by omega) (by omega) (by omega)

/-- **`RelationService.CreateTable`**, every outcome: for `n` columns at most `n + 1` row ids, `2 n + 1`
LSNs and `1 + 66 (n + 1)` pages; a refusal before the body moves nothing; the final flush copies the header
to the data file. -/
theorem createTable_counters (fields : List FieldDef) (name : Bytes) (order : List Nat) (doFlush : Bool)
    (s : Store) :
    match createTable fields name order doFlush s with
    | .ok _ s' => AdvF s s' (fields.length + 1) (2 * fields.length + 1) (4096 + 270336 * (fields.length + 1))
    | .err _ s' => AdvF s s' (fields.length + 1) (2 * fields.length + 1) (4096 + 270336 * (fields.length + 1))
    | _ => True := by
  rw [createTable_eq_body]
  have h0 := Still.relationOffset name s
  have z : ∀ {a b : Store}, Adv a b 0 0 0 →
      AdvF a b (fields.length + 1) (2 * fields.length + 1) (4096 + 270336 * (fields.length + 1)) :=
    fun h => (h.mono (Nat.zero_le _) (Nat.zero_le _) (Nat.zero_le _)).advF
  cases e1 : relationOffset name s with
  | ok a s1 => rw [e1] at h0; exact z h0
  | err x s1 =>
    rw [e1] at h0
    cases x with
    | tableNotExist =>
      simp only
      cases checkFieldsFrom [] fields with
      | some y => exact z h0
      | none =>
        simp only
        cases checkCatalogRows fields name with
        | some y => exact z h0
        | none =>
          simp only
          rw [bind_def]
          have hb := Grows.createBodyNF fields name s1
          cases eb : createBodyNF fields name s1 with
          | ok u s2 =>
            rw [eb] at hb
            have h02 := (h0.trans hb).mono (k' := fields.length + 1) (l' := 2 * fields.length + 1)
              (f' := 4096 + 270336 * (fields.length + 1)) (by omega) (by omega) (by omega)
            simp only
            cases doFlush with
            | false => exact h02.advF
            | true =>
              simp only [if_true]
              obtain ⟨s3, e3, hh, hd⟩ := flushPages_hdr order s2
              rw [e3]
              obtain ⟨a1, a2, a3, a4, a5, a6, _⟩ := h02
              refine ⟨?_, ?_, ?_, ?_, ?_, ?_, .inr (by rw [hd, hh])⟩ <;> rw [hh] <;> assumption
          | err x s2 =>
            rw [eb] at hb
            exact ((h0.trans hb).mono (by omega) (by omega) (by omega)).advF
          | _ => trivial
    | _ => exact z h0
  | _ => trivial

end Mkdb.Store
