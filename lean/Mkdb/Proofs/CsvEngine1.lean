import Mkdb.Proofs.Csv
import Mkdb.Proofs.SessionInv10
import Mkdb.Proofs.CreateCat1
/-!
CSV import on the engine model, part 1: **the importer's local single-row INSERT (`Csv.insertRow`) is the
plain model's INSERT of one row.**

* `colBytes`: a column name as the engine model and the plain model take it (its UTF-8 bytes; the engine
  model turns the bytes back into the name with `Engine.bytesToName`, the plain model with `Spec.nameStr`).
* `insertRow_iff`: `Csv.insertRow` accepts exactly when the lengths agree, the names pass the plain model's
  test `Spec.namesOK`, the row encodes within the size limit; the stored row is the named values.
* `insertRow_iff_rowOf`: for a non-empty column list that is `Spec.namesOK` and `Spec.rowOf`.
* `insertRow_nocols_differs`: for the EMPTY column list the two differ (the engine fills in all the columns
  of the table, `Csv.insertRow` names none).
* `addRows`, `specInsert_one_iff`: the plain model's one-row INSERT statement is `Csv.insertRow`.
-/
set_option autoImplicit false
namespace Mkdb.Csv
open Mkdb.Tuple Mkdb.Generated Mkdb.Store

/-- a column name as the engine model and the plain model take it: its UTF-8 bytes -/
def colBytes (c : String) : Bytes := c.toUTF8.toList

theorem bytesToName_colBytes (cols : List String) : (cols.map colBytes).map Engine.bytesToName = cols := by
  rw [List.map_map]
  conv => rhs; rw [← List.map_id cols]
  apply List.map_congr_left
  intro c _
  exact nameOfBytes_toUTF8 c

theorem nameStr_colBytes (cols : List String) : (cols.map colBytes).map Spec.nameStr = cols :=
  bytesToName_colBytes cols

theorem colBytes_eq_nil {cols : List String} : cols.map colBytes = [] ↔ cols = [] := List.map_eq_nil_iff

/-- the name test of `Csv.insertRow` is the plain model's -/
theorem insertRow_names (schema : List FieldDef) (cols : List String) (n : Bytes) (rows : List Spec.SRow) :
    (!(cols.all fun c => schema.any fun fd => fd.name == c) || cols.eraseDups.length != cols.length) =
      !Spec.namesOK ⟨n, schema, rows⟩ cols := by
  unfold Spec.namesOK
  cases (cols.all fun c => schema.any fun fd => fd.name == c) <;>
    cases h : (cols.eraseDups.length == cols.length) <;> simp [bne, h]

/-- **`Csv.insertRow`, spelled out**: it accepts exactly when there is one value per name, the names are
columns of the table, each named once, and the row encodes within the size limit; the stored row then
holds, column by column, the value given under the column's name (NULL for a column not named). -/
theorem insertRow_iff (schema : List FieldDef) (cols : List String) (vals row : List Val)
    (hnd : (schema.map (·.name)).Nodup) (hvals : ∀ v ∈ vals, ValidVal v) :
    insertRow schema cols vals = some row ↔
      cols.length = vals.length ∧ Spec.namesOK ⟨[], schema, []⟩ cols = true ∧
      ∃ bs, encodeTuple schema (cols.zip vals).reverse = .ok bs ∧ bs.length ≤ c_maxValueSize ∧
        row = schema.map fun fd => get (cols.zip vals).reverse fd.name := by
  unfold insertRow
  rw [insertRow_names schema cols [] []]
  by_cases hl : cols.length = vals.length
  · have hl' : (cols.length != vals.length) = false := by simpa using hl
    simp only [hl', Bool.false_eq_true, if_false]
    rw [and_iff_right hl]
    cases hn : Spec.namesOK ⟨[], schema, []⟩ cols with
    | false => simp
    | true =>
      simp only [Bool.not_true, Bool.false_eq_true, if_false, true_and]
      cases henc : encodeTuple schema (cols.zip vals).reverse with
      | error e => simp
      | ok bs =>
        simp only
        by_cases hsz : bs.length > c_maxValueSize
        · simp only [hsz, if_true]
          constructor
          · intro h; cases h
          · rintro ⟨bs', hbs, hle, _⟩
            cases hbs
            omega
        · simp only [hsz, if_false]
          obtain ⟨m, hm1, hm2, _⟩ := decode_encode_aux schema _ (get_zip_valid cols vals hvals) hnd bs [] []
            (by intros; rfl) henc
          rw [List.append_nil] at hm1
          rw [hm1]
          simp only [Option.some.injEq]
          have hrow : (schema.map fun fd => get m fd.name) =
              schema.map fun fd => get (cols.zip vals).reverse fd.name :=
            List.map_congr_left fun fd hfd => hm2 fd hfd
          rw [hrow]
          constructor
          · intro h
            exact ⟨bs, rfl, by omega, h.symm⟩
          · rintro ⟨_, _, _, h⟩
            exact h.symm
  · have hl' : (cols.length != vals.length) = true := by simpa using hl
    simp only [hl', if_true]
    rw [show (cols.length = vals.length) = False from eq_false hl, false_and]
    constructor
    · intro h; cases h
    · intro h; exact h.elim

theorem namesOK_cols_only (t1 t2 : Spec.STable) (h : t1.cols = t2.cols) (names : List String) :
    Spec.namesOK t1 names = Spec.namesOK t2 names := by
  unfold Spec.namesOK
  rw [h]

theorem colsOf_colBytes (schema : List FieldDef) {cols : List String} (hne : cols ≠ []) :
    colsOf schema ((cols.map colBytes).map Engine.bytesToName) = cols := by
  rw [bytesToName_colBytes]
  unfold colsOf
  cases cols with
  | nil => exact absurd rfl hne
  | cons c rest => rfl

/-- **`Csv.insertRow` is the plain model's single-row INSERT with a column list**: for a NON-EMPTY list of
column names (as `String`s, i.e. valid UTF-8; the plain model takes their bytes), on a table whose columns
have distinct names (`DbInv.cols_nodup`: every table of a database in use) and values a Go program can
hold, `Csv.insertRow` accepts exactly when the plain model's name test passes and `Spec.rowOf` builds a
row - the same row. -/
theorem insertRow_iff_rowOf (tb : Spec.STable) (cols : List String) (vals row : List Val)
    (hnd : (tb.cols.map (·.name)).Nodup) (hvals : ∀ v ∈ vals, ValidVal v) (hne : cols ≠ []) :
    insertRow tb.cols cols vals = some row ↔
      Spec.namesOK tb cols = true ∧ Spec.rowOf tb (cols.map colBytes) vals = some row := by
  rw [insertRow_iff tb.cols cols vals row hnd hvals, specRowOf_some_iff, colsOf_colBytes tb.cols hne,
    namesOK_cols_only ⟨[], tb.cols, []⟩ tb rfl]
  constructor
  · rintro ⟨h1, h2, h3⟩; exact ⟨h2, h1, h3⟩
  · rintro ⟨h2, h1, h3⟩; exact ⟨h1, h2, h3⟩

/-- **For the EMPTY column list the two differ** (a gap of `Csv.insertRow`, which names no column and stores
a row of NULLs; `RelationService.Insert` - and `Spec.rowOf` - fill in ALL the columns of the table and
refuse the row for its number of values).  Not reachable from the command line: `strings.Split` never
returns an empty list, and an empty `-src-cols` is refused by `strconv.Atoi`. -/
theorem insertRow_nocols_differs :
    insertRow [⟨"a", .int, 0⟩] [] [] = some [.null] ∧
    Spec.rowOf ⟨[116], [⟨"a", .int, 0⟩], []⟩ ([].map colBytes) [] = none := by
  constructor <;> decide

/-- the plain database with rows appended to one table (what `Spec.specInsert` does with accepted rows) -/
def addRows (sdb : Spec.SDB) (table : Bytes) (rows : List (List Val)) : Spec.SDB :=
  sdb.map fun x => if x.name == table then { x with rows := x.rows ++ rows.map fun v => ⟨none, v⟩ } else x

theorem addRows_nil (sdb : Spec.SDB) (table : Bytes) : addRows sdb table [] = sdb := by
  unfold addRows
  conv => rhs; rw [← List.map_id sdb]
  apply List.map_congr_left
  intro x _
  split
  · simp
  · rfl

theorem addRows_addRows (sdb : Spec.SDB) (table : Bytes) (r1 r2 : List (List Val)) :
    addRows (addRows sdb table r1) table r2 = addRows sdb table (r1 ++ r2) := by
  unfold addRows
  rw [List.map_map]
  apply List.map_congr_left
  intro x _
  simp only [Function.comp]
  by_cases hx : (x.name == table) = true
  · simp only [hx, if_true, List.map_append, List.append_assoc]
  · have hx' : (x.name == table) = false := by simpa using hx
    simp only [hx', Bool.false_eq_true, if_false]

/-- the table after `addRows`: the old rows, then the new ones -/
theorem findTable_addRows {sdb : Spec.SDB} {table : Bytes} {tb : Spec.STable}
    (hf : Spec.findTable sdb table = some tb) (rows : List (List Val)) :
    Spec.findTable (addRows sdb table rows) table =
      some { tb with rows := tb.rows ++ rows.map fun v => ⟨none, v⟩ } := by
  unfold Spec.findTable addRows at *
  have hname := List.find?_some hf
  simp only [beq_iff_eq] at hname
  rw [List.find?_map]
  have : ((fun x : Spec.STable => x.name == table) ∘ fun x : Spec.STable =>
      if (x.name == table) = true then { x with rows := x.rows ++ rows.map fun v => (⟨none, v⟩ : Spec.SRow) } else x) =
      fun x : Spec.STable => x.name == table := by
    funext x
    simp only [Function.comp]
    split <;> rfl
  rw [this, hf]
  simp [hname]

/-- every other table is untouched -/
theorem findTable_addRows_other (sdb : Spec.SDB) {table t : Bytes} (hne : t ≠ table) (rows : List (List Val)) :
    Spec.findTable (addRows sdb table rows) t = Spec.findTable sdb t := by
  unfold Spec.findTable addRows
  induction sdb with
  | nil => rfl
  | cons x rest ih =>
    simp only [List.map_cons, List.find?_cons]
    by_cases hx : (x.name == table) = true
    · have hxt : (x.name == t) = false := by
        have : x.name = table := by simpa using hx
        simpa [this] using fun h : table = t => hne h.symm
      simp only [hx, if_true, hxt]
      exact ih
    · have hx' : (x.name == table) = false := by simpa using hx
      simp only [hx', Bool.false_eq_true, if_false]
      cases hxt : (x.name == t) with
      | true => rfl
      | false => exact ih

/-- **The plain model's one-row INSERT statement with a column list is `Csv.insertRow`.** -/
theorem specInsert_one_iff {sdb : Spec.SDB} {table : Bytes} {tb : Spec.STable}
    (hf : Spec.findTable sdb table = some tb) (cols : List String) (vals : List Val)
    (hnd : (tb.cols.map (·.name)).Nodup) (hvals : ∀ v ∈ vals, ValidVal v) (hne : cols ≠ []) :
    Spec.specInsert sdb table (cols.map colBytes) [vals] =
      (insertRow tb.cols cols vals).map fun row => addRows sdb table [row] := by
  unfold Spec.specInsert
  rw [hf]
  simp only [Option.bind_eq_bind, Option.bind_some, List.isEmpty_cons, Bool.not_false, Bool.true_and,
    nameStr_colBytes]
  cases hi : insertRow tb.cols cols vals with
  | some row =>
    obtain ⟨h1, h2⟩ := (insertRow_iff_rowOf tb cols vals row hnd hvals hne).mp hi
    simp only [h1, Bool.not_true, Bool.false_eq_true, if_false, List.mapM_cons, List.mapM_nil, h2,
      Option.map_some]
    rfl
  | none =>
    simp only [Option.map_none]
    cases h1 : Spec.namesOK tb cols with
    | false => simp
    | true =>
      simp only [Bool.not_true, Bool.false_eq_true, if_false]
      cases h2 : Spec.rowOf tb (cols.map colBytes) vals with
      | none => simp [h2]
      | some row =>
        have := (insertRow_iff_rowOf tb cols vals row hnd hvals hne).mpr ⟨h1, h2⟩
        rw [hi] at this
        cases this

end Mkdb.Csv
