import Mkdb.Proofs.SessionInv9
import Mkdb.Proofs.TypedTables7
import Mkdb.Proofs.Meaning4
import Mkdb.Proofs.Meaning9
/-!
The SELECT of a session (the session model evaluates it: `Session.exec s (.select q)` runs
`Exec.evaluateSelect` on `fetchOfDB` of the selected database), related to the plain database.

* `fetchOfPlain sdb`: the `fetch` function built from a plain in-memory database (the one the
  differential-testing judge of the session runs builds: `Mkdb/Driver/Sess.lean`).
* `fetchOf_eq_plain`: on a store that abstracts to the plain database `sdb`, what a SELECT reads for a
  name other than the two catalog tables IS `fetchOfPlain sdb` of it.
* `select_on_stored_eq_plain`: so the evaluation on the stored database is the evaluation on the plain one.
* `session_select_outcome`: in a session that abstracts to `w` with `n` selected, the outcome of a SELECT
  over user tables is that of the executor on the plain database `w n`; it is not `Out.panic`.
* `session_meaningful_select_answered`: and it is `Out.ok` whenever the query has a reference meaning on
  `w n` with resolvable, comparable sort keys.
* computed examples: `sessT` (the table `t (a INT)`, empty) and the session after `INSERT INTO t VALUES (5), (6)`.
-/
set_option autoImplicit false
namespace Mkdb.Store
open Mkdb.Page Mkdb.Tuple Mkdb.Generated Mkdb.Tree Mkdb.Engine Mkdb.Exec Mkdb.Exec.TypedP Mkdb.Sql

/-- **the `fetch` of a SELECT on a plain database**: the declared column names (as bytes) and the rows
of the table of that name; `none` for a name the plain database does not have -/
def fetchOfPlain (sdb : Spec.SDB) (name : Bytes) : Option Exec.Table :=
  (Spec.findTable sdb name).map fun tb => ⟨tb.cols.map fun fd => fd.name.toUTF8.toList, tb.rows.map (·.vals)⟩

/-- **What a SELECT reads from a stored database is the plain database** (user table names). -/
theorem fetchOf_eq_plain {db : Engine.DB} {sdb : Spec.SDB} {pt sch : Levels} {tbls : List (Bytes × Levels)}
    (h : AbsV db.store pt sch tbls sdb) (n : Bytes) (h1 : n ≠ sysPages) (h2 : n ≠ sysSchema) :
    fetchOf db n = fetchOfPlain sdb n := by
  cases hf : Spec.findTable sdb n with
  | some tb =>
    obtain ⟨rows, s', e, hrows⟩ := h.reads hf
    unfold fetchOf fetchOfPlain
    rw [e, hf]
    simp only [Option.map_some, hrows]
  | none =>
    cases hfo : fetchOf db n with
    | none => simp only [fetchOfPlain, hf, Option.map_none]
    | some t =>
      obtain ⟨tb, hft, _⟩ := (stored_table_typed h n h1 h2).2 t hfo
      rw [hf] at hft
      cases hft

/-- the tables of a typed plain database are well shaped -/
theorem fetchOfPlain_wellShaped {sdb : Spec.SDB} (h : Spec.Typed sdb) : NoPanicP.WellShaped (fetchOfPlain sdb) := by
  intro n t hn r hr
  unfold fetchOfPlain at hn
  cases hf : Spec.findTable sdb n with
  | none => rw [hf] at hn; cases hn
  | some tb =>
    rw [hf] at hn
    simp only [Option.map_some, Option.some.injEq] at hn
    subst hn
    simp only [List.mem_map] at hr
    obtain ⟨r0, hr0, rfl⟩ := hr
    have := rowHas_length (h.rows tb (Spec.findTable_mem hf).1 r0 hr0)
    simp only [this, Spec.colKinds, List.length_map]

/-- **A SELECT over user tables on a stored database is the SELECT on the plain database.** -/
theorem select_on_stored_eq_plain {db : Engine.DB} {sdb : Spec.SDB} {pt sch : Levels}
    {tbls : List (Bytes × Levels)} (h : AbsV db.store pt sch tbls sdb) (q : Select) (hn : UserTables q) :
    evaluateSelect (fetchOf db) q = evaluateSelect (fetchOfPlain sdb) q := by
  apply evaluateSelect_congr
  intro tr htr n hmem
  have : n ∈ selectNames q := by unfold selectNames; rw [htr]; exact hmem
  exact fetchOf_eq_plain h n (hn n this).1 (hn n this).2

end Mkdb.Store

namespace Mkdb.Session
open Mkdb.Engine Mkdb.Store Mkdb.Sql Mkdb.Exec Mkdb.Exec.MeaningP Mkdb.Exec.SelectP

/-- the outcome the session reports for a result of `evaluateSelect` -/
def selectOut {α : Type} : Exec.X α → Out
  | .ok _ => .ok
  | .err e => .err (stmtErr (.exec e))
  | .panic _ => .panic

theorem exec_select_selectOut {s : Sess} {n : String} {db : DB} (hc : s.cur = some n) (hg : getDB s n = some db)
    (q : Select) : exec s (.select q) = (s, selectOut (evaluateSelect (fetchOf db) q)) := by
  rw [exec_select_cur hc hg]
  cases evaluateSelect (fetchOf db) q <;> rfl

/-- **The outcome of a session's SELECT is that of the executor on the plain database**: in a session
that abstracts to the plain databases `w`, with the database `n` selected, a SELECT over user tables
changes nothing and reports what `evaluateSelect` returns on `fetchOfPlain (w n)`; with a select list of a
shape the parser builds that is rows or an error value - not a panic. -/
theorem session_select_outcome {s : Sess} {w : String → Spec.SDB} (h : SessAbs s w) {n : String}
    (hc : s.cur = some n) (q : Select) (hn : UserTables q) :
    exec s (.select q) = (s, selectOut (evaluateSelect (fetchOfPlain (w n)) q)) ∧
    ((Exec.NoPanicP.ParsedShape q) →
      ∀ x, evaluateSelect (fetchOfPlain (w n)) q ≠ .panic x) := by
  cases hg : getDB s n with
  | none =>
    have := h.cur n hc
    rw [hg] at this
    cases this
  | some db =>
    obtain ⟨pt, sch, tbls, hi, _⟩ := h.dbs (n, db) (getDB_mem hg)
    have he := select_on_stored_eq_plain hi.abs q hn
    refine ⟨by rw [exec_select_selectOut hc hg, he], fun hq x => ?_⟩
    rw [← he]
    exact (select_on_stored_never_panics hi.abs q hq hn).2.1 x

/-- the plain database a session abstracts to for the selected database is typed -/
theorem SessAbs.typed_cur {s : Sess} {w : String → Spec.SDB} (h : SessAbs s w) {n : String}
    (hc : s.cur = some n) : Spec.Typed (w n) := by
  cases hg : getDB s n with
  | none =>
    have := h.cur n hc
    rw [hg] at this
    cases this
  | some db =>
    obtain ⟨pt, sch, tbls, hi, _⟩ := h.dbs (n, db) (getDB_mem hg)
    exact hi.typed

/-- **A query with a reference meaning is answered by the executor on a typed plain database** - the
"meaningful query is answered" theorems of C05 / C06 / C07 in one statement: any FROM clause; without
aggregates and GROUP BY no further hypothesis; with them `avgGroupsConstant` (the known finding about
AVG; a select list that starts with `*` has no meaning then).  `hne`, `hb`: a select list that is not
empty, no negative LIMIT / OFFSET (every parsed statement). -/
theorem meaningful_answered {fetch : Bytes → Option Table} (hws : NoPanicP.WellShaped fetch) {q : Select}
    (hne : q.list ≠ []) (hb : Spec.boundsOK q.lim = true)
    {want : List Row} {keys : List (Nat × Bool)}
    (hm : Spec.meaning fetch q = some want)
    (hk : Spec.sortKeys q (judgeHeader fetch q) = some keys)
    (hcomp : ∀ a ∈ want, ∀ b ∈ want, KeyComparable keys a b)
    (hgrp : groups q = true → avgGroupsConstant fetch q = true) :
    ∃ got, got.Perm want ∧
      evaluateSelect fetch q = .ok (cut q.lim (sortRows keys got), judgeHeader fetch q) := by
  obtain ⟨tr, _, _, hfrom, _⟩ := meaning_some_from hm
  cases hg : groups q with
  | true =>
    exact agg_any_answered hfrom hg hne hb (avgConst_of_avgGroupsConstant hfrom (hgrp hg)) hws hm hk hcomp
  | false =>
    have hagg : hasAggr q.list = false := by
      unfold groups at hg
      cases ha : hasAggr q.list with
      | false => rfl
      | true => rw [ha] at hg; simp at hg
    have hgb : q.groupBy = [] := by
      unfold groups at hg
      rw [hagg] at hg
      cases hq : q.groupBy with
      | nil => rfl
      | cons a l => rw [hq] at hg; simp at hg
    exact from_any_answered hfrom hagg hgb hne hb hm hk hcomp

/-- **A meaningful SELECT is not refused at the session level either.** -/
theorem session_meaningful_select_answered {s : Sess} {w : String → Spec.SDB} (h : SessAbs s w) {n : String}
    (hc : s.cur = some n) (q : Select) (hq : Exec.NoPanicP.ParsedShape q) (hn : UserTables q)
    {want : List Row} {keys : List (Nat × Bool)}
    (hm : Spec.meaning (fetchOfPlain (w n)) q = some want)
    (hk : Spec.sortKeys q (judgeHeader (fetchOfPlain (w n)) q) = some keys)
    (hcomp : ∀ a ∈ want, ∀ b ∈ want, KeyComparable keys a b)
    (hgrp : groups q = true → avgGroupsConstant (fetchOfPlain (w n)) q = true) :
    exec s (.select q) = (s, .ok) := by
  obtain ⟨got, _, he⟩ := meaningful_answered (fetchOfPlain_wellShaped (h.typed_cur hc)) hq.ne_nil hq.bounds hm hk hcomp hgrp
  rw [(session_select_outcome h hc q hn).1, he]
  rfl

/-! ### examples -/

/-- tests of an outcome (`Out` has no decidable equality) -/
def Out.isOk : Out → Bool
  | .ok => true
  | _ => false

def Out.isErr (kind : String) : Out → Bool
  | .err e => e == kind
  | _ => false

/-- `SELECT a, count(*) FROM t GROUP BY a ORDER BY a` and `SELECT * FROM t x LEFT JOIN t y ON x.a < y.a
ORDER BY y.a DESC` in the session whose selected database holds the empty table `t (a INT)`: both are
EVALUATED (computed by the model: the pages of `t` are read through the cache) and answered -/
theorem sessT_selects_answered :
    (runAll sessT [.select exGroupQuery, .select exJoinQuery]).2.map Out.isOk = [true, true] := by
  decide +kernel

/-- a history from the empty session whose last statement is a SELECT that is evaluated on the database
`CREATE DATABASE` left: the table does not exist, an error value -/
theorem select_on_new_database_refused :
    (runAll {} [.use [120], .createDatabase [100], .createDatabase [101], .use [100], .select exGroupQuery]).2.map
      (Out.isErr "tableNotExist") = [false, false, false, false, true] := by
  decide +kernel

/-- the session after `INSERT INTO t VALUES (5), (6)` on `sessT`: accepted, `d` still selected, and the
session abstracts to plain databases whose `d` is the plain model's result -/
theorem sessT_after_insert :
    ∃ s1 w, exec sessT (.insert tname [] [[.int 5], [.int 6]]) = (s1, .ok) ∧ SessAbs s1 w ∧
      s1.cur = some "d" ∧ w "d" = sdbA1 := by
  have hg : getDB sessT "d" = some tableDB := by simp [getDB, sessT]
  obtain ⟨db', pt', sch', tbls', e, hi'⟩ := dbFlushed_tableDB.inv.accepted [] _ room_insert56 sdbA1 rfl
  refine ⟨setDB sessT "d" db', setW (fun _ => sdbA0) "d" sdbA1, ?_, sessAbs_sessT.setCur rfl hi', rfl,
    setW_same _ _ _⟩
  rw [exec_routed sessT _ (.inr (.inl ⟨_, _, _, rfl⟩))]
  unfold onCurrent
  simp only [show sessT.cur = some "d" from rfl, hg, e]

/-- on the plain database with the rows 5 and 6 the grouping query has the reference meaning `(5, 1), (6, 1)`,
its sort key resolves to the first output column, and no AVG is involved -/
theorem exGroupQuery_meaning_sdbA1 :
    Spec.meaning (fetchOfPlain sdbA1) exGroupQuery = some [[.int 5, .int 1], [.int 6, .int 1]] ∧
    Spec.sortKeys exGroupQuery (judgeHeader (fetchOfPlain sdbA1) exGroupQuery) = some [(0, false)] ∧
    (∀ a ∈ [[Tuple.Val.int 5, .int 1], [.int 6, .int 1]], ∀ b ∈ [[Tuple.Val.int 5, .int 1], [.int 6, .int 1]],
      KeyComparable [(0, false)] a b) ∧
    isStar exGroupQuery.list = false ∧ avgGroupsConstant (fetchOfPlain sdbA1) exGroupQuery = true := by
  refine ⟨by decide +kernel, by decide +kernel, by decide, rfl, by decide +kernel⟩

/-- **so the session answers it after the INSERT** - by the theorem, without computing on the pages -/
theorem sessT_after_insert_select_answered :
    ∃ s1, exec sessT (.insert tname [] [[.int 5], [.int 6]]) = (s1, .ok) ∧
      exec s1 (.select exGroupQuery) = (s1, .ok) := by
  obtain ⟨s1, w, e, h1, hc, hw⟩ := sessT_after_insert
  obtain ⟨hm, hk, hcomp, _, havg⟩ := exGroupQuery_meaning_sdbA1
  refine ⟨s1, e, session_meaningful_select_answered h1 hc exGroupQuery exQueries_ok.1 exQueries_ok.2.1
    (by rw [hw]; exact hm) (by rw [hw]; exact hk) hcomp (fun _ => by rw [hw]; exact havg)⟩

end Mkdb.Session
