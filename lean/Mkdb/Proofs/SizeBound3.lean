import Mkdb.Proofs.SizeBound2
/-!
C09 "never exhausts memory", part 3: per production, the size of the value is bounded by the
weight `3 * tokens + text bytes` of the consumed prefix (plus a constant).
-/
namespace Mkdb.Sql
open Mkdb.Scan Mkdb.Generated

/-- A literal is no larger than its token: an INT is one word, a string its text. -/
theorem tokenVal_size (t : Token) (l : Lit) (h : tokenVal t = .ok l) : l.size ≤ 1 + t.text.length := by
  unfold tokenVal at h
  split at h
  · cases h; simp [Lit.size]
  · split at h
    · split at h
      · cases h; simp [Lit.size]
      · cases h
    · split at h
      · cases h; simp [Lit.size]
      · split at h
        · cases h; simp [Lit.size]
        · cases h

macro_rules | `(tactic| sz_fin) => `(tactic|
  (have := tokenVal_size _ _ ‹_›;
    simp only [sz_simp] at *; omega))

theorem Sz.columnReference {n : Nat} :
    Sz tokCost columnReference n (fun o m => oval (fun c => c.size + 2) o + n ≤ m) := by
  unfold Sql.columnReference
  sz

macro_rules | `(tactic| sz_known) => `(tactic| with_reducible exact Sz.columnReference)

theorem Sz.valueExpression {n : Nat} :
    Sz tokCost valueExpression n (fun v m => v.size + 1 + n ≤ m) := by
  unfold Sql.valueExpression
  sz

macro_rules | `(tactic| sz_known) => `(tactic| with_reducible exact Sz.valueExpression)

theorem Sz.predicate {n : Nat} : Sz tokCost predicate n (fun c m => c.size + n ≤ m) := by
  unfold Sql.predicate
  sz

macro_rules | `(tactic| sz_known) => `(tactic| with_reducible exact Sz.predicate)

theorem Sz.commaFollows {n : Nat} :
    Sz tokCost commaFollows n (fun c m => n + 3 * c.toNat ≤ m) := by
  unfold Sql.commaFollows
  sz

macro_rules | `(tactic| sz_known) => `(tactic| with_reducible exact Sz.commaFollows)

theorem Sz.andBoth (f : Nat) : ∀ n,
    Sz tokCost (andCond f) n (fun c m => c.size + n ≤ m) ∧
    ∀ ret, Sz tokCost (andLoop f ret) n (fun c m => c.size + n ≤ m + ret.size) := by
  induction f with
  | zero => intro n; exact ⟨by unfold andCond; sz, by intro ret; unfold andLoop; sz⟩
  | succ f ih =>
    intro n
    have h1 : ∀ k, Sz tokCost (andCond f) k (fun c m => c.size + k ≤ m) := fun k => (ih k).1
    have h2 : ∀ ret k, Sz tokCost (andLoop f ret) k (fun c m => c.size + k ≤ m + ret.size) :=
      fun ret k => (ih k).2 ret
    refine ⟨?_, ?_⟩
    · unfold andCond; sz
    · intro ret; unfold andLoop; sz

theorem Sz.andCond {f n : Nat} : Sz tokCost (andCond f) n (fun c m => c.size + n ≤ m) :=
  (Sz.andBoth f n).1

theorem Sz.orBoth (f : Nat) : ∀ n,
    Sz tokCost (orCond f) n (fun c m => c.size + n ≤ m) ∧
    ∀ ret, Sz tokCost (orLoop f ret) n (fun c m => c.size + n ≤ m + ret.size) := by
  induction f with
  | zero => intro n; exact ⟨by unfold orCond; sz, by intro ret; unfold orLoop; sz⟩
  | succ f ih =>
    intro n
    have h0 : ∀ k, Sz tokCost (Sql.andCond f) k (fun c m => c.size + k ≤ m) := fun k => Sz.andCond
    have h1 : ∀ k, Sz tokCost (orCond f) k (fun c m => c.size + k ≤ m) := fun k => (ih k).1
    have h2 : ∀ ret k, Sz tokCost (orLoop f ret) k (fun c m => c.size + k ≤ m + ret.size) :=
      fun ret k => (ih k).2 ret
    refine ⟨?_, ?_⟩
    · unfold orCond; sz
    · intro ret; unfold orLoop; sz

theorem Sz.orCond {f n : Nat} : Sz tokCost (orCond f) n (fun c m => c.size + n ≤ m) :=
  (Sz.orBoth f n).1

macro_rules | `(tactic| sz_known) => `(tactic| with_reducible exact Sz.orCond)

/-- `sepLoop`: an iteration that asks for another one has paid for its element in full; the
last one may be short by `K`. -/
theorem Sz.sepLoop {tw : Token → Nat} {α} {μ : α → Nat} {body : P (α × Bool)} {K : Nat} (f : Nat) : ∀ n,
    (∀ j, Sz tw body j (fun x m => 1 + μ x.1 + j ≤ m + K * (1 - x.2.toNat))) →
    Sz tw (sepLoop f body) n (fun l m => lsz μ l + n ≤ m + K) := by
  induction f with
  | zero => intro n _; unfold Sql.sepLoop; exact Sz.outOfFuel
  | succ f ih =>
    intro n hb
    unfold Sql.sepLoop
    apply Sz.bind (hb n)
    intro x k hk
    obtain ⟨a, cont⟩ := x
    cases cont with
    | false =>
      simp only [Bool.false_eq_true, ↓reduceIte, Bool.toNat_false, Nat.sub_zero, Nat.mul_one] at hk ⊢
      exact Sz.pure (by simp only [lsz]; omega)
    | true =>
      simp only [↓reduceIte, Bool.toNat_true, Nat.sub_self, Nat.mul_zero, Nat.add_zero] at hk ⊢
      apply Sz.bind (ih k hb)
      intro l k2 hk2
      exact Sz.pure (by simp only [lsz]; omega)

/-- `guardedLoop`: every iteration pays for its element in full (the guard token included). -/
theorem Sz.guardedLoop {tw : Token → Nat} {α} {μ : α → Nat} {tys : List Int}
    {body : Token → P (α × Bool)} (f : Nat) : ∀ n,
    (∀ t j, Sz tw (body t) j (fun x m => 1 + μ x.1 + j ≤ m + tw t)) →
    Sz tw (guardedLoop f tys body) n (fun l m => lsz μ l + n ≤ m) := by
  induction f with
  | zero => intro n _; unfold Sql.guardedLoop; exact Sz.outOfFuel
  | succ f ih =>
    intro n hb
    unfold Sql.guardedLoop
    apply Sz.bind Sz.matchTy
    intro o k hk
    cases o with
    | none => exact Sz.pure (by simp only [lsz, optW_none] at *; omega)
    | some t =>
      simp only [optW_some] at hk
      apply Sz.bind (hb t k)
      intro x k2 hk2
      obtain ⟨a, cont⟩ := x
      cases cont with
      | false =>
        simp only [Bool.false_eq_true, ↓reduceIte]
        exact Sz.pure (by simp only [lsz] at *; omega)
      | true =>
        simp only [↓reduceIte]
        apply Sz.bind (ih k2 hb)
        intro l k3 hk3
        exact Sz.pure (by simp only [lsz] at *; omega)

theorem Sz.setFunction {n : Nat} :
    Sz tokCost setFunction n (fun o m => oval SelItem.size o + n ≤ m) := by
  unfold Sql.setFunction
  sz

macro_rules | `(tactic| sz_known) => `(tactic| with_reducible exact Sz.setFunction)

theorem Sz.derivedColumn {f n : Nat} :
    Sz tokCost (derivedColumn f) n (fun i m => i.size + n ≤ m + 1) := by
  unfold Sql.derivedColumn
  sz

macro_rules | `(tactic| sz_known) => `(tactic| with_reducible exact Sz.derivedColumn)

theorem Sz.selectList {f n : Nat} :
    Sz tokCost (selectList f) n (fun l m => lsz DerivedCol.size l + n ≤ m + 3) := by
  have hloop : ∀ (body : P (DerivedCol × Bool)) n,
      (∀ j, Sz tokCost body j (fun x m => 1 + DerivedCol.size x.1 + j ≤ m + 3 * (1 - x.2.toNat))) →
      Sz tokCost (Sql.sepLoop f body) n (fun l m => lsz DerivedCol.size l + n ≤ m + 3) :=
    fun body n h => Sz.sepLoop f n h
  unfold Sql.selectList
  sz

theorem Sz.tableName {n : Nat} : Sz tokCost tableName n (fun t m => t.size + 1 + n ≤ m) := by
  unfold Sql.tableName
  sz
  rename_i o _ _
  cases o <;> (apply Sz.pure; sz_fin)

macro_rules | `(tactic| sz_known) => `(tactic| with_reducible exact Sz.tableName)

theorem Sz.joinLoop (f : Nat) : ∀ n lhs,
    Sz tokCost (joinLoop f lhs) n (fun t m => t.size + n ≤ m + lhs.size) := by
  induction f with
  | zero => intro n lhs; unfold Sql.joinLoop; sz
  | succ f ih =>
    intro n lhs
    have ih' : ∀ lhs k, Sz tokCost (Sql.joinLoop f lhs) k (fun t m => t.size + k ≤ m + lhs.size) :=
      fun lhs k => ih k lhs
    unfold Sql.joinLoop
    sz

theorem Sz.fromClause {f n : Nat} :
    Sz tokCost (fromClause f) n (fun o m => osz TableRef.size o + n ≤ m + 1) := by
  have := fun lhs k => Sz.joinLoop f k lhs
  unfold Sql.fromClause
  sz

theorem Sz.whereClause {f n : Nat} :
    Sz tokCost (whereClause f) n (fun o m => osz Cond.size o + n ≤ m + 1) := by
  unfold Sql.whereClause
  sz

theorem Sz.groupByLoop (f : Nat) : ∀ n b,
    Sz tokCost (groupByLoop f b) n (fun l m => lsz ColRef.size l + n ≤ m) := by
  induction f with
  | zero => intro n b; unfold Sql.groupByLoop; sz
  | succ f ih =>
    intro n b
    have ih' : ∀ b k, Sz tokCost (Sql.groupByLoop f b) k (fun l m => lsz ColRef.size l + k ≤ m) :=
      fun b k => ih k b
    unfold Sql.groupByLoop
    sz

theorem Sz.groupByClause {f n : Nat} :
    Sz tokCost (groupByClause f) n (fun l m => lsz ColRef.size l + n ≤ m) := by
  have := fun b k => Sz.groupByLoop f k b
  unfold Sql.groupByClause
  sz

theorem Sz.sortSpecList {f n : Nat} :
    Sz tokCost (sortSpecList f) n (fun l m => lsz SortSpec.size l + n ≤ m) := by
  have hloop : ∀ (body : P (SortSpec × Bool)) n,
      (∀ j, Sz tokCost body j (fun x m => 1 + SortSpec.size x.1 + j ≤ m + 1 * (1 - x.2.toNat))) →
      Sz tokCost (Sql.sepLoop f body) n (fun l m => lsz SortSpec.size l + n ≤ m + 1) :=
    fun body n h => Sz.sepLoop f n h
  unfold Sql.sortSpecList
  sz

theorem Sz.limitLoop (f : Nat) : ∀ n lc, Sz tokCost (limitLoop f lc) n (fun _ m => n ≤ m) := by
  induction f with
  | zero => intro n lc; unfold Sql.limitLoop; sz
  | succ f ih =>
    intro n lc
    have ih' : ∀ lc k, Sz tokCost (Sql.limitLoop f lc) k (fun _ m => k ≤ m) := fun lc k => ih k lc
    unfold Sql.limitLoop
    sz

theorem Sz.limitOffsetClause {f n : Nat} :
    Sz tokCost (limitOffsetClause f) n (fun _ m => n ≤ m) := by
  have := fun lc k => Sz.limitLoop f k lc
  unfold Sql.limitOffsetClause
  sz

macro_rules | `(tactic| sz_known) => `(tactic| first
  | with_reducible exact Sz.selectList | with_reducible exact Sz.fromClause
  | with_reducible exact Sz.whereClause | with_reducible exact Sz.groupByClause
  | with_reducible exact Sz.sortSpecList | with_reducible exact Sz.limitOffsetClause)

theorem Sz.parseSelect {f n : Nat} :
    Sz tokCost (parseSelect f) n (fun s m => s.size + n ≤ m + 11) := by
  unfold Sql.parseSelect
  sz

end Mkdb.Sql
