import Mkdb.Proofs.CrashBytes1
import Mkdb.Proofs.CrashPrefix
/-!
Crash at an arbitrary byte of a statement's log append, part 2: **the records the storage layer logs
fit their wire types.**

* `toRec` / `ofRec`: a record of the storage model (`Store.WalRec`) as a record of the log-file model
  (`Wal.Rec`), field by field - the conversion `crashImage` of the differential driver uses.
* `RecIn r h`: the record `r` names an operation code, an LSN below the LSN counter of the header `h`,
  a page below its allocation frontier, a row id not above its row-id counter, and a value that fits
  a page cell.
* `LiveRunM.recs_in`: every record a live run of row statements logs is `RecIn` the header of the
  store the run ends in (from the catalog invariant `Cat`: pages of a tree lie below the frontier, keys
  are issued row ids; values pass the size check of `insertLeaf` / `updateCellAt`).
* `spec_run_recs_in`: the same for the whole log of a run of engine statements.
* `toRec_wf`: `RecIn r h` and `h.nextLSN ≤ 2^64`, `h.nextFree ≤ 2^64`, `h.lastKey < 2^32` (the Go field
  types `uint64`, `uint64`, `uint32`) give `(toRec r).wf`.
-/
set_option autoImplicit false
namespace Mkdb.Store
open Mkdb.Page Mkdb.Tuple Mkdb.Generated Mkdb.Tree Mkdb.Engine

/-- a record of the storage model as a record of the log file, field by field -/
def toRec (r : WalRec) : Wal.Rec := ⟨r.op, r.lsn, r.page, r.cell, r.val⟩

/-- and back -/
def ofRec (r : Wal.Rec) : WalRec := ⟨r.op, r.lsn, r.page, r.cell, r.val⟩

@[simp] theorem ofRec_toRec (r : WalRec) : ofRec (toRec r) = r := rfl
@[simp] theorem toRec_ofRec (r : Wal.Rec) : toRec (ofRec r) = r := rfl

theorem map_ofRec_toRec (l : List WalRec) : (l.map toRec).map ofRec = l := by
  rw [List.map_map]
  exact List.map_id'' (fun r => rfl) l

/-- the record lies within the counters of the header -/
def RecIn (r : WalRec) (h : Header) : Prop :=
  r.op ≤ 2 ∧ r.lsn < h.nextLSN ∧ r.page < h.nextFree ∧ r.cell ≤ h.lastKey ∧ r.val.length ≤ c_maxValueSize

theorem RecIn.mono {r : WalRec} {h h' : Header} (hr : RecIn r h) (h1 : h.nextLSN ≤ h'.nextLSN)
    (h2 : h.nextFree ≤ h'.nextFree) (h3 : h.lastKey ≤ h'.lastKey) : RecIn r h' := by
  obtain ⟨a, b, c, d, e⟩ := hr
  exact ⟨a, by omega, by omega, by omega, e⟩

/-- **Well-formedness of the engine's records**: within counters that fit the Go field types
(`_nextLSN uint64`, `nextFreeOffset uint64`, `lastKey uint32`), a record fits `WALEntry`'s wire types. -/
theorem toRec_wf {r : WalRec} {h : Header} (hr : RecIn r h) (hlsn : h.nextLSN ≤ 2 ^ 64)
    (hnf : h.nextFree ≤ 2 ^ 64) (hlk : h.lastKey < 2 ^ 32) : (toRec r).wf := by
  obtain ⟨a, b, c, d, e⟩ := hr
  have hm : c_maxValueSize = 400 := rfl
  refine ⟨?_, ?_, ?_, ?_, ?_⟩
  · show r.op < 256; omega
  · show r.lsn < 2 ^ 64; omega
  · show r.page < 2 ^ 64; omega
  · show r.cell < 2 ^ 32; omega
  · show r.val.length < 2 ^ 32 - 25; omega

theorem live_key_le {s : Store} {pt sch : Levels} {tbls : List (Bytes × Levels)} (h : Cat s pt sch tbls)
    {x : Levels} (hx : x ∈ catTrees pt sch tbls) {c : LeafCell} (hc : c ∈ live x) : c.key ≤ s.hdr.lastKey := by
  obtain ⟨_, _, _, _, hk⟩ := h.tree x hx
  apply hk
  unfold keys
  unfold live at hc
  exact List.mem_map.mpr ⟨c, (List.mem_filter.mp hc).1, rfl⟩

theorem leaf_off_lt {s : Store} {pt sch : Levels} {tbls : List (Bytes × Levels)} (h : Cat s pt sch tbls)
    {x : Levels} (hx : x ∈ catTrees pt sch tbls) {l : Leaf} {d : Bool} (hm : (l, d) ∈ x.leaves) :
    l.off < s.hdr.nextFree := by
  obtain ⟨_, hI, _, _, _⟩ := h.tree x hx
  exact hI.offs.2 _ (leaf_off_mem_offs hm)

/-- **Every record of a live run lies within the counters of the store the run ends in**; the
counters only grow along the run. -/
theorem LiveRunM.recs_in {sch : Levels} {s0 sN : Store} {tbls tblsN : List (Bytes × Levels)}
    {stmts : List RStmt} {logs : List WalRec} (run : LiveRunM sch s0 tbls stmts sN tblsN logs) :
    ∀ (pt : Levels), Cat s0 pt sch tbls →
      ∃ ptN, Cat sN ptN sch tblsN ∧ s0.hdr.nextLSN ≤ sN.hdr.nextLSN ∧ s0.hdr.nextFree ≤ sN.hdr.nextFree ∧
        s0.hdr.lastKey ≤ sN.hdr.lastKey ∧ ∀ r ∈ logs, RecIn r sN.hdr := by
  induction run with
  | nil s tbls =>
    intro pt h
    exact ⟨pt, h, Nat.le_refl _, Nat.le_refl _, Nat.le_refl _, fun r hr => by cases hr⟩
  | @same s s1 s2 tbls tbls2 stmts logs hs _ ih =>
    intro pt h
    obtain ⟨ptN, c, a1, a2, a3, hrec⟩ := ih pt (h.of_same hs)
    rw [hs.2] at a1 a2 a3
    exact ⟨ptN, c, a1, a2, a3, hrec⟩
  | @ins s s1 s2 tbls tbls2 rest logs logs2 table cols vals t schema buf t' nf' ht hsch hcols hnames henc hlen hins
      hd' hl' hbig hrun _ ih =>
    intro pt h
    obtain ⟨s', ptF, logs', erun, hc', hlk', hnf', hcase⟩ := insert_refines' s pt sch tbls h table t ht cols vals
      schema buf hsch hcols hnames henc hlen t' nf' hins hd' hl' hbig
    rw [hrun] at erun
    simp only [SRes.ok.injEq] at erun
    obtain ⟨rfl, rfl⟩ := erun
    obtain ⟨ptN, c, a1, a2, a3, hrec⟩ := ih ptF hc'
    have hle : s.hdr.nextFree ≤ nf' := insertAppend_nextFree t t' _ _ _ nf' buf hins
    obtain ⟨_, hIt, _, _, _⟩ := h.tree t (Cat.tb_mem ht)
    have hroot : rootOff t < s.hdr.nextFree := hIt.offs.2 _ (rootOff_mem_offs t _ hIt)
    have hlsnle : s.hdr.nextLSN < s1.hdr.nextLSN := by
      rcases hcase with ⟨_, _, h2, _⟩ | ⟨_, h2, _⟩ <;> omega
    have hrec1 : RecIn ⟨c_OpInsert, s.hdr.nextLSN, rootOff t, s.hdr.lastKey + 1, buf⟩ s1.hdr :=
      ⟨by show c_OpInsert ≤ 2; decide, hlsnle, by show rootOff t < _; omega, by show s.hdr.lastKey + 1 ≤ _; omega, hlen⟩
    refine ⟨ptN, c, by omega, by omega, by omega, ?_⟩
    intro r hr
    rcases List.mem_append.mp hr with hr | hr
    · refine RecIn.mono ?_ a1 a2 a3
      rcases hcase with ⟨_, _, _, rfl⟩ | ⟨_, hl2, a, p, hal, hpa, hp, hap, _, rfl⟩
      · simp only [List.mem_singleton] at hr
        subst hr
        exact hrec1
      · simp only [List.mem_cons, List.not_mem_nil, or_false] at hr
        rcases hr with rfl | rfl
        · exact hrec1
        · have hpoff : p.1.off < s.hdr.nextFree := leaf_off_lt h Cat.pt_mem (d := p.2) hp
          have hak : a.key ≤ s.hdr.lastKey := live_key_le h Cat.pt_mem hal
          have htl := h.tlen (table, t) ht
          refine ⟨by show c_OpUpdate ≤ 2; decide, by show s.hdr.nextLSN + 1 < _; omega, by show p.1.off < _; omega,
            by show a.key ≤ _; omega, ?_⟩
          show (ptRow table (rootOff t')).length ≤ _
          rw [ptRow_length]
          exact htl
    · exact hrec r hr
  | @upd s s1 s2 tbls tbls2 rest logs logs2 table rowId cols src t schema c m buf ht hsch hc hk hdec henc hlen
      hrun _ ih =>
    intro pt h
    obtain ⟨s', l, d, hm, _, erun, hc', hlsn', hlk', _, hnf', _⟩ := update_cat h table t ht schema hsch rowId cols src
      (update_ok_names h ht hsch hrun) c hc hk m buf hdec henc hlen
    rw [hrun] at erun
    simp only [SRes.ok.injEq] at erun
    obtain ⟨rfl, rfl⟩ := erun
    obtain ⟨ptN, cN, a1, a2, a3, hrec⟩ := ih pt hc'
    refine ⟨ptN, cN, by omega, by omega, by omega, ?_⟩
    intro r hr
    rcases List.mem_append.mp hr with hr | hr
    · refine RecIn.mono ?_ a1 a2 a3
      simp only [List.mem_singleton] at hr
      subst hr
      have hoff : l.off < s.hdr.nextFree := leaf_off_lt h (Cat.tb_mem ht) hm
      have hkey : c.key ≤ s.hdr.lastKey := live_key_le h (Cat.tb_mem ht) hc
      exact ⟨by show c_OpUpdate ≤ 2; decide, by show s.hdr.nextLSN < _; omega, by show l.off < _; omega,
        by show rowId ≤ _; omega, hlen⟩
    · exact hrec r hr
  | @updAbsent s s1 s2 tbls tbls2 rest logs logs2 table rowId cols src t schema ht hsch habs hrun _ ih =>
    intro pt h
    obtain ⟨s', erun, hs, hc'⟩ := update_cat_absent h table t ht schema hsch rowId cols src
      (update_ok_names h ht hsch hrun) habs
    rw [hrun] at erun
    simp only [SRes.ok.injEq] at erun
    obtain ⟨rfl, rfl⟩ := erun
    obtain ⟨ptN, cN, a1, a2, a3, hrec⟩ := ih pt hc'
    rw [hs.2] at a1 a2 a3
    exact ⟨ptN, cN, a1, a2, a3, fun r hr => hrec r (by simpa using hr)⟩
  | @del s s1 s2 tbls tbls2 rest logs logs2 table rowId t c ht hc hk hrun _ ih =>
    intro pt h
    obtain ⟨s', l, d, hm, _, erun, hc', hlsn', hlk', _, hnf', _⟩ := markDeleted_cat h table t ht rowId c hc hk
    rw [hrun] at erun
    simp only [SRes.ok.injEq] at erun
    obtain ⟨rfl, rfl⟩ := erun
    obtain ⟨ptN, cN, a1, a2, a3, hrec⟩ := ih pt hc'
    refine ⟨ptN, cN, by omega, by omega, by omega, ?_⟩
    intro r hr
    rcases List.mem_append.mp hr with hr | hr
    · refine RecIn.mono ?_ a1 a2 a3
      simp only [List.mem_singleton] at hr
      subst hr
      have hoff : l.off < s.hdr.nextFree := leaf_off_lt h (Cat.tb_mem ht) hm
      have hkey : c.key ≤ s.hdr.lastKey := live_key_le h (Cat.tb_mem ht) hc
      exact ⟨by show c_OpDelete ≤ 2; decide, by show s.hdr.nextLSN < _; omega, by show l.off < _; omega,
        by show rowId ≤ _; omega, by show ([] : Bytes).length ≤ _; exact Nat.zero_le _⟩
    · exact hrec r hr

/-- **Every record in the log of a run of engine statements lies within the counters of the final
store**, and the log of the run starts with the log it began with. -/
theorem spec_run_recs_in (sch : Levels) {db dbN : Engine.DB} {sdb sdbN : Spec.SDB} {stmts : List EStmt}
    (run : SpecRun sch db sdb stmts dbN sdbN) (pt : Levels) (tbls : List (Bytes × Levels))
    (hA : AbsV db.store pt sch tbls sdb) :
    ∃ logs, dbN.wal = db.wal ++ logs ∧ ∀ r ∈ logs, RecIn r dbN.store.hdr := by
  obtain ⟨_, tblsN, stmtsM, logs, hrun, hw, _⟩ := spec_run_live sch run pt tbls hA
  obtain ⟨_, habs, _⟩ := hA
  obtain ⟨_, _, _, _, _, hrec⟩ := hrun.recs_in pt habs.cat
  exact ⟨logs, hw, hrec⟩

end Mkdb.Store
