import Mkdb.Proofs.ReplayCkpt5
/-!
No operation but the flush writes the data file.

`DiskSame s s'`: the data file pages and the header last written to the data file are the same in
`s'` as in `s`, and the LSN counter of `s'` is not below that of `s` (every operation only ever
raises `hdr.nextLSN`).  `KeepsDisk m` is the closure predicate, in the style of `KeepsFiled`
(CreateFiled1): proved for every primitive of the page store, the B-tree insert, the scans, the
catalog, `insert`, `update`, `markDeleted`, `fetchTable` and `repointPageTable` - everything except
`flushPages` (and hence `createTable`, `createDB`), the only writers of `disk` and `dhdr`.

Consequences: the statement evaluators (`evalInsert_disk`, `evalDelete_disk`, `evalUpdate_disk`), a
run of statements (`specRun_disk`) and the redo of the log (`replayOne_disk`, `replayAll_disk`)
leave the data file alone; after the redo the LSN counter is at least every replayed LSN
(`replayOne_lsn`, `replayAll_lsn`).
-/
set_option autoImplicit false
namespace Mkdb.Store
open Mkdb.Page Mkdb.Tuple Mkdb.Generated Mkdb.Tree Mkdb.Engine

/-- same data file (pages and written header); the LSN counter did not go down -/
def DiskSame (s s' : Store) : Prop :=
  s'.disk = s.disk ∧ s'.dhdr = s.dhdr ∧ s.hdr.nextLSN ≤ s'.hdr.nextLSN

theorem DiskSame.refl (s : Store) : DiskSame s s := ⟨rfl, rfl, Nat.le_refl _⟩

theorem DiskSame.trans {a b c : Store} (h1 : DiskSame a b) (h2 : DiskSame b c) : DiskSame a c :=
  ⟨h2.1.trans h1.1, h2.2.1.trans h1.2.1, Nat.le_trans h1.2.2 h2.2.2⟩

/-! ### the closure predicate -/

/-- `m` does not write the data file (and does not lower the LSN counter) -/
def KeepsDisk {α} (m : SM α) : Prop :=
  ∀ s, match m s with
    | .ok _ s' => DiskSame s s'
    | .err _ s' => DiskSame s s'
    | _ => True

theorem KeepsDisk.ok {α} {m : SM α} (h : KeepsDisk m) {s s' : Store} {a : α}
    (e : m s = .ok a s') : DiskSame s s' := by have := h s; rw [e] at this; exact this

theorem KeepsDisk.err {α} {m : SM α} (h : KeepsDisk m) {s s' : Store} {x : SErr}
    (e : m s = .err x s') : DiskSame s s' := by have := h s; rw [e] at this; exact this

theorem KeepsDisk.pure {α} (a : α) : KeepsDisk (pure a : SM α) := fun s => DiskSame.refl s
theorem KeepsDisk.throw {α} (e : SErr) : KeepsDisk (throw e : SM α) := fun s => DiskSame.refl s
theorem KeepsDisk.panicS {α} (w : String) : KeepsDisk (panicS w : SM α) := fun _ => trivial
theorem KeepsDisk.unmodelledS {α} (w : String) : KeepsDisk (unmodelledS w : SM α) := fun _ => trivial
theorem KeepsDisk.outOfFuel {α} : KeepsDisk (outOfFuel : SM α) := fun _ => trivial
theorem KeepsDisk.getS : KeepsDisk getS := fun s => DiskSame.refl s

/-- a state update that leaves `disk` and `dhdr` alone and does not lower the LSN counter -/
theorem KeepsDisk.modifyS {f : Store → Store}
    (h : ∀ s, (f s).disk = s.disk ∧ (f s).dhdr = s.dhdr ∧ s.hdr.nextLSN ≤ (f s).hdr.nextLSN) :
    KeepsDisk (modifyS f) := fun s => h s

theorem KeepsDisk.bind {α β} {m : SM α} {f : α → SM β} (hm : KeepsDisk m) (hf : ∀ a, KeepsDisk (f a)) :
    KeepsDisk (m >>= f) := by
  intro s
  rw [bind_def]
  cases e : m s with
  | ok a s1 =>
    have h1 := hm.ok e
    have h2 := hf a s1
    simp only
    cases e2 : f a s1 with
    | ok b s2 => rw [e2] at h2; exact h1.trans h2
    | err x s2 => rw [e2] at h2; exact h1.trans h2
    | _ => trivial
  | err x s1 => exact hm.err e
  | _ => trivial

theorem KeepsDisk.ite {α} {c : Prop} [Decidable c] {a b : SM α} (ha : KeepsDisk a) (hb : KeepsDisk b) :
    KeepsDisk (if c then a else b) := by
  split
  · exact ha
  · exact hb

/-! ### the primitives: the cache and the in-memory header only -/

theorem KeepsDisk.fetch (off : Nat) : KeepsDisk (fetch off) := by
  intro s
  unfold Store.fetch
  cases assocGet s.mem off with
  | some m => exact DiskSame.refl s
  | none => exact ⟨rfl, rfl, Nat.le_refl _⟩

theorem KeepsDisk.putNode (n : Node) (d : Option Bool) : KeepsDisk (putNode n d) :=
  fun _ => ⟨rfl, rfl, Nat.le_refl _⟩

theorem KeepsDisk.markDirty (off lsn : Nat) : KeepsDisk (markDirty off lsn) := by
  intro s
  unfold Store.markDirty
  cases assocGet s.mem off with
  | none => trivial
  | some m => exact ⟨rfl, rfl, Nat.le_refl _⟩

theorem KeepsDisk.appendNode (n : Node) (d : Bool) : KeepsDisk (appendNode n d) :=
  fun _ => ⟨rfl, rfl, Nat.le_refl _⟩

theorem KeepsDisk.decodeRow (sch : List FieldDef) (bs : Bytes) : KeepsDisk (decodeRow sch bs) := by
  intro s
  unfold Store.decodeRow
  cases decodeTuple sch bs [] <;> exact DiskSame.refl s

theorem KeepsDisk.encodeRow (sch : List FieldDef) (m : Vals) : KeepsDisk (encodeRow sch m) := by
  intro s
  unfold Store.encodeRow
  cases encodeTuple sch m with
  | ok b => exact DiskSame.refl s
  | error e => cases e <;> exact DiskSame.refl s

/-- one structural step of a `KeepsDisk` proof -/
macro "kd_step" : tactic =>
  `(tactic| first
    | exact KeepsDisk.pure _
    | exact KeepsDisk.getS
    | exact KeepsDisk.fetch _
    | exact KeepsDisk.putNode _ _
    | exact KeepsDisk.appendNode _ _
    | exact KeepsDisk.markDirty _ _
    | exact KeepsDisk.throw _
    | exact KeepsDisk.panicS _
    | exact KeepsDisk.unmodelledS _
    | exact KeepsDisk.outOfFuel
    | exact KeepsDisk.decodeRow _ _
    | exact KeepsDisk.encodeRow _ _
    | assumption
    | refine KeepsDisk.bind ?_ (fun _ => ?_)
    | split)

/-- the LSN bump after a logged change -/
theorem KeepsDisk.bumpLSN :
    KeepsDisk (Store.modifyS fun s => { s with hdr := { s.hdr with nextLSN := s.hdr.nextLSN + 1 } }) :=
  KeepsDisk.modifyS fun _ => ⟨rfl, rfl, Nat.le_succ _⟩

/-! ### the B-tree insert -/

theorem KeepsDisk.leafSplitUp (parent : Option Nat) (curOff newOff newKey lsn root : Nat) :
    KeepsDisk (leafSplitUp parent curOff newOff newKey lsn root) := by
  unfold Store.leafSplitUp
  repeat kd_step

theorem KeepsDisk.leafSplit (parent : Option Nat) (cur1 : Leaf) (lsn root : Nat) :
    KeepsDisk (leafSplit parent cur1 lsn root) := by
  unfold Store.leafSplit
  repeat (first | exact KeepsDisk.leafSplitUp _ _ _ _ _ _ | kd_step)

theorem KeepsDisk.insertLeaf (parent : Option Nat) (cur : Leaf) (key lsn : Nat) (value : Bytes) (root : Nat) :
    KeepsDisk (insertLeaf parent cur key lsn value root) := by
  rw [insertLeaf_eq]
  repeat (first | exact KeepsDisk.leafSplit _ _ _ _ | kd_step)

theorem KeepsDisk.intSplitUp (parent : Option Nat) (curOff newOff midKey lsn root1 : Nat) :
    KeepsDisk (intSplitUp parent curOff newOff midKey lsn root1) := by
  unfold Store.intSplitUp
  repeat kd_step

theorem KeepsDisk.afterChild (parent : Option Nat) (curOff lsn root1 : Nat) :
    KeepsDisk (afterChild parent curOff lsn root1) := by
  unfold Store.afterChild
  repeat (first | exact KeepsDisk.intSplitUp _ _ _ _ _ _ | kd_step)

theorem KeepsDisk.insertInternal : ∀ (fuel : Nat) (parent : Option Nat) (cur : Internal) (key lsn : Nat)
    (value : Bytes) (root : Nat), KeepsDisk (insertInternal fuel parent cur key lsn value root)
  | 0, _, _, _, _, _, _ => KeepsDisk.outOfFuel
  | fuel+1, parent, cur, key, lsn, value, root => by
    rw [insertInternal_eq]
    refine KeepsDisk.ite (KeepsDisk.throw _) ((KeepsDisk.fetch _).bind fun child => ?_)
    cases child with
    | leaf l => exact (KeepsDisk.insertLeaf _ _ _ _ _ _).bind fun _ => KeepsDisk.afterChild _ _ _ _
    | internal i =>
      exact (KeepsDisk.insertInternal fuel _ _ _ _ _ _).bind fun _ => KeepsDisk.afterChild _ _ _ _

theorem KeepsDisk.insertKeyHeap (bt : BT) (key lsn : Nat) (value : Bytes) :
    KeepsDisk (Store.insertKeyHeap bt key lsn value) := by
  unfold Store.insertKeyHeap
  refine (KeepsDisk.fetch _).bind fun pg => ?_
  cases pg with
  | leaf l => exact (KeepsDisk.insertLeaf _ _ _ _ _ _).bind fun _ => KeepsDisk.pure _
  | internal i => exact (KeepsDisk.insertInternal _ _ _ _ _ _ _).bind fun _ => KeepsDisk.pure _

/-- the `ghost` counter is not the data file -/
theorem KeepsDisk.insertKey (bt : BT) (key lsn : Nat) (value : Bytes) :
    KeepsDisk (Store.insertKey bt key lsn value) := by
  intro s
  have h := KeepsDisk.insertKeyHeap bt key lsn value s
  unfold Store.insertKey
  simp only
  generalize ghostAgrees s bt key lsn value (Store.insertKeyHeap bt key lsn value s) = g
  cases g <;> cases e : Store.insertKeyHeap bt key lsn value s <;> rw [e] at h <;> first | exact h | trivial

/-- the counter bump touches only the in-memory header, and raises the LSN counter -/
theorem KeepsDisk.btInsert (bt : BT) (value : Bytes) : KeepsDisk (Store.btInsert bt value) := by
  intro s
  have h := KeepsDisk.insertKey bt (s.hdr.lastKey + 1) s.hdr.nextLSN value s
  unfold Store.btInsert
  simp only
  cases e : Store.insertKey bt (s.hdr.lastKey + 1) s.hdr.nextLSN value s with
  | ok a s1 => rw [e] at h; exact ⟨h.1, h.2.1, Nat.le_succ_of_le h.2.2⟩
  | err x s1 => rw [e] at h; exact ⟨h.1, h.2.1, Nat.le_succ_of_le h.2.2⟩
  | _ => trivial

/-! ### scans -/

theorem KeepsDisk.leftmostLeaf : ∀ (fuel off : Nat), KeepsDisk (leftmostLeaf fuel off)
  | 0, _ => KeepsDisk.outOfFuel
  | fuel+1, off => by
    unfold Store.leftmostLeaf
    repeat (first | exact KeepsDisk.leftmostLeaf fuel _ | kd_step)

theorem KeepsDisk.scanLeaves : ∀ (fuel : Nat) (l : Leaf), KeepsDisk (scanLeaves fuel l)
  | 0, _ => KeepsDisk.outOfFuel
  | fuel+1, l => by
    unfold Store.scanLeaves
    repeat (first | exact KeepsDisk.scanLeaves fuel _ | kd_step)

theorem KeepsDisk.scanRight (root : Nat) : KeepsDisk (scanRight root) := by
  unfold Store.scanRight
  exact (KeepsDisk.leftmostLeaf _ _).bind fun _ => KeepsDisk.scanLeaves _ _

theorem KeepsDisk.findFirstM {α β} {f : α → SM (Option β)} (hf : ∀ a, KeepsDisk (f a)) :
    ∀ l : List α, KeepsDisk (findFirstM f l)
  | [] => KeepsDisk.pure _
  | a :: rest => by
    unfold Store.findFirstM
    repeat (first | exact hf a | exact KeepsDisk.findFirstM hf rest | kd_step)

theorem KeepsDisk.mapS {α β} {f : α → SM β} (hf : ∀ a, KeepsDisk (f a)) :
    ∀ l : List α, KeepsDisk (mapS f l)
  | [] => KeepsDisk.pure _
  | a :: rest => by
    unfold Store.mapS
    exact (hf a).bind fun _ => (KeepsDisk.mapS hf rest).bind fun _ => KeepsDisk.pure _

theorem KeepsDisk.findLeaf : ∀ (fuel off key : Nat), KeepsDisk (findLeaf fuel off key)
  | 0, _, _ => KeepsDisk.outOfFuel
  | fuel+1, off, key => by
    unfold Store.findLeaf
    repeat (first | exact KeepsDisk.findLeaf fuel _ key | kd_step)

/-! ### the catalog and the row operations -/

theorem KeepsDisk.updateCellAt (off key : Nat) (value : Bytes) (lsn : Nat) :
    KeepsDisk (updateCellAt off key value lsn) := by
  unfold Store.updateCellAt
  repeat kd_step

/-- one structural step, with the scans and the LSN bump -/
macro "kd_step2" : tactic =>
  `(tactic| first
    | exact KeepsDisk.scanRight _
    | exact KeepsDisk.findLeaf _ _ _
    | exact KeepsDisk.updateCellAt _ _ _ _
    | exact KeepsDisk.bumpLSN
    | exact KeepsDisk.btInsert _ _
    | exact KeepsDisk.findFirstM (fun _ => by repeat kd_step) _
    | exact KeepsDisk.mapS (fun _ => by
        repeat (first | exact KeepsDisk.updateCellAt _ _ _ _ | exact KeepsDisk.bumpLSN | kd_step)) _
    | kd_step)

theorem KeepsDisk.relationOffset (name : Bytes) : KeepsDisk (relationOffset name) := by
  unfold Store.relationOffset
  repeat kd_step2

theorem KeepsDisk.relationSchema (name : Bytes) : KeepsDisk (relationSchema name) := by
  unfold Store.relationSchema
  repeat (first | exact KeepsDisk.relationOffset _ | kd_step2)

theorem KeepsDisk.updatePageTable (newRoot : Nat) (name : Bytes) :
    KeepsDisk (updatePageTable newRoot name) := by
  rw [updatePageTable_eq]
  unfold ptFind
  repeat kd_step2

theorem KeepsDisk.repointPageTable (old new lsn : Nat) : KeepsDisk (repointPageTable old new lsn) := by
  rw [repointPageTable_eq]
  unfold rpFind
  repeat kd_step2

/-- one structural step, with the catalog lookups -/
macro "kd_step3" : tactic =>
  `(tactic| first
    | exact KeepsDisk.relationOffset _
    | exact KeepsDisk.relationSchema _
    | exact KeepsDisk.updatePageTable _ _
    | kd_step2)

theorem KeepsDisk.insert (table : Bytes) (cols : List String) (vals : List Val) :
    KeepsDisk (Store.insert table cols vals) := by
  rw [insert_eq]
  repeat kd_step3

theorem KeepsDisk.fetchTable (table : Bytes) : KeepsDisk (fetchTable table) := by
  rw [fetchTable_eq]
  unfold fetchRow
  repeat kd_step3

theorem KeepsDisk.markDeleted (table : Bytes) (rowId : Nat) : KeepsDisk (markDeleted table rowId) := by
  rw [markDeleted_eq]
  repeat kd_step3

theorem KeepsDisk.update (table : Bytes) (rowId : Nat) (cols : List String) (src : List Val) :
    KeepsDisk (update table rowId cols src) := by
  rw [update_eq_stmt]
  unfold updBody
  repeat kd_step3

/-! ### the statement evaluators -/

/-- the store of an `.ok` / `.err` result has the data file of `s` -/
def ResDisk {α} (s : Store) : Engine.Res α → Prop
  | .ok _ db' => DiskSame s db'.store
  | .err _ db' => DiskSame s db'.store
  | _ => True

theorem ResDisk.ok {α} {s : Store} {r : Engine.Res α} {a : α} {db' : Engine.DB} (h : ResDisk s r)
    (e : r = .ok a db') : DiskSame s db'.store := by subst e; exact h

theorem evalInsert_go_disk (db : Engine.DB) (table : Bytes) (cols : List Bytes) (s0 : Store) :
    ∀ (rows : List (List Val)) (s : Store) (batch : List WalRec) (n : Nat), DiskSame s0 s →
      ResDisk s0 (Engine.evalInsert.go db table cols s batch n rows)
  | [], _, _, _, hd => hd
  | r :: rest, s, batch, n, hd => by
    have hk := KeepsDisk.insert table (cols.map Engine.bytesToName) r s
    simp only [Engine.evalInsert.go]
    cases e : insert table (cols.map Engine.bytesToName) r s with
    | ok logs s' => rw [e] at hk; exact evalInsert_go_disk db table cols s0 rest s' _ _ (hd.trans hk)
    | err x s' => rw [e] at hk; exact hd.trans hk
    | _ => trivial

theorem evalDelete_go_disk (db : Engine.DB) (table : Bytes) (s0 : Store) :
    ∀ (ids : List (Nat × List Val)) (s : Store) (batch : List WalRec) (n : Nat), DiskSame s0 s →
      ResDisk s0 (Engine.evalDelete.go db table s batch n ids)
  | [], _, _, _, hd => hd
  | r :: rest, s, batch, n, hd => by
    have hk := KeepsDisk.markDeleted table r.1 s
    simp only [Engine.evalDelete.go]
    cases e : markDeleted table r.1 s with
    | ok logs s' => rw [e] at hk; exact evalDelete_go_disk db table s0 rest s' _ _ (hd.trans hk)
    | err x s' => rw [e] at hk; exact hd.trans hk
    | _ => trivial

theorem evalUpdate_go_disk (db : Engine.DB) (table : Bytes) (cols : List String) (src : List Val) (s0 : Store) :
    ∀ (ids : List (Nat × List Val)) (s : Store) (batch : List WalRec), DiskSame s0 s →
      ResDisk s0 (Engine.evalUpdate.go db table cols src s batch ids)
  | [], _, _, hd => hd
  | r :: rest, s, batch, hd => by
    have hk := KeepsDisk.update table r.1 cols src s
    simp only [Engine.evalUpdate.go]
    cases e : update table r.1 cols src s with
    | ok logs s' => rw [e] at hk; exact evalUpdate_go_disk db table cols src s0 rest s' _ (hd.trans hk)
    | err x s' => rw [e] at hk; exact hd.trans hk
    | _ => trivial

/-- `fetchForExec`, then a continuation that keeps the data file -/
theorem fetchForExec_disk {β} (db : Engine.DB) (table : Bytes)
    (k : List (Nat × List Val) → List Exec.Field → Store → Engine.Res β)
    (hk : ∀ rows fields s, DiskSame db.store s → ResDisk db.store (k rows fields s)) :
    ResDisk db.store (Engine.fetchForExec db table k) := by
  have hf := KeepsDisk.fetchTable table db.store
  simp only [Engine.fetchForExec, Engine.liftS]
  cases e : fetchTable table db.store with
  | ok a s' => rw [e] at hf; exact hk _ _ _ hf
  | err x s' => rw [e] at hf; exact hf
  | _ => trivial

theorem evalInsert_disk {db db' : Engine.DB} {table : Bytes} {cols : List Bytes} {rows : List (List Val)}
    {n : Nat} (h : Engine.evalInsert db table cols rows = .ok n db') : DiskSame db.store db'.store :=
  (evalInsert_go_disk db table cols db.store rows db.store [] 0 (DiskSame.refl _)).ok h

theorem evalDelete_disk {db db' : Engine.DB} {table : Bytes} {w : Option Sql.Cond} {n : Nat}
    (h : Engine.evalDelete db table w = .ok n db') : DiskSame db.store db'.store := by
  refine ResDisk.ok (fetchForExec_disk db table _ fun rows fields s hd => ?_) h
  cases Engine.filterIds w fields rows with
  | ok sel => exact evalDelete_go_disk db table db.store sel s _ _ hd
  | err x => exact hd
  | panic p => trivial

theorem evalUpdate_disk {db db' : Engine.DB} {table : Bytes} {sets : List (Bytes × Sql.VExpr)}
    {w : Option Sql.Cond} (h : Engine.evalUpdate db table sets w = .ok () db') :
    DiskSame db.store db'.store := by
  by_cases hcol : ∃ p ∈ sets, ∃ c, p.2 = .col c
  · rw [evalUpdate_col db table sets w hcol] at h; cases h
  · have hnocol : ∀ p ∈ sets, ∀ c, p.2 ≠ .col c := fun p hp c hpc => hcol ⟨p, hp, c, hpc⟩
    rw [evalUpdate_nocol db table sets w hnocol] at h
    refine ResDisk.ok (fetchForExec_disk db table _ fun rows fields s hd => ?_) h
    cases Engine.checkSetColumns fields [] (sets.map (·.1)) with
    | some ec => exact hd
    | none =>
    simp only
    cases Engine.filterIds w fields rows with
    | ok sel => exact evalUpdate_go_disk db table _ _ db.store sel s _ hd
    | err x => exact hd
    | panic p => trivial

/-- no run of statements writes the data file -/
theorem specRun_disk {sch : Levels} {db db' : Engine.DB} {sdb sdb' : Spec.SDB} {stmts : List EStmt}
    (run : SpecRun sch db sdb stmts db' sdb') : DiskSame db.store db'.store := by
  induction run with
  | nil db sdb => exact DiskSame.refl _
  | insert table cols rows hvalid hspec hrunok heval hrest ih => exact (evalInsert_disk heval).trans ih
  | delete table w hspec heval hrest ih => exact (evalDelete_disk heval).trans ih
  | update table sets w hvalid hspec heval hrest ih => exact (evalUpdate_disk heval).trans ih

/-! ### the redo of the log -/

/-- what `replayOne` does first: the LSN counter is raised to the record's LSN (and, for an INSERT
record, the row-id counter to the record's key) -/
def lsnRaised (r : WalRec) (s : Store) : Store :=
  { s with hdr := { s.hdr with nextLSN := max s.hdr.nextLSN r.lsn,
                               lastKey := if r.op == c_OpInsert then max s.hdr.lastKey r.cell else s.hdr.lastKey } }

/-- the key counter is not the data file -/
theorem DiskSame.lastKey {a s : Store} (h : DiskSame a s) (k : Nat) :
    DiskSame a { s with hdr := { s.hdr with lastKey := k } } := h

/-- one record of the redo, from the store with the raised LSN counter (every branch of `replayOne`) -/
theorem replayOne_disk_raised (r : WalRec) (s : Store) : DiskSame (lsnRaised r s) (replayOne r s).1 := by
  unfold Engine.replayOne
  simp only
  split
  · rename_i node s1 hfe
    have h1 : DiskSame (lsnRaised r s) s1 := (KeepsDisk.fetch r.page).ok hfe
    split
    · exact h1
    · split
      · split
        · rename_i bt s2 hik
          have h3 : DiskSame (lsnRaised r s)
              { s2 with hdr := { s2.hdr with lastKey := max s2.hdr.lastKey r.cell } } :=
            (h1.trans ((KeepsDisk.insertKey _ _ _ _).ok hik)).lastKey _
          split
          · split
            · rename_i hrp; exact h3.trans ((KeepsDisk.repointPageTable _ _ _).ok hrp)
            · rename_i hrp; exact h3.trans ((KeepsDisk.repointPageTable _ _ _).err hrp)
            · exact h3
            · exact h3
            · exact h3
          · exact h3
        · rename_i s2 hik
          exact (h1.trans ((KeepsDisk.insertKey _ _ _ _).err hik)).lastKey _
        · rename_i s2 _ hik
          exact h1.trans ((KeepsDisk.insertKey _ _ _ _).err hik)
        · exact h1
        · exact h1
        · exact h1
      · split
        · split
          · split <;> exact h1
          · split
            · exact h1
            · exact h1
        · split
          · split
            · split <;> exact h1
            · split
              · exact h1
              · exact h1
          · exact h1
  · exact DiskSame.refl _

theorem replayOne_disk (r : WalRec) (s : Store) : DiskSame s (replayOne r s).1 :=
  DiskSame.trans (b := lsnRaised r s) ⟨rfl, rfl, Nat.le_max_left _ _⟩ (replayOne_disk_raised r s)

/-- after one record of the redo the LSN counter is at least the record's LSN -/
theorem replayOne_lsn (r : WalRec) (s : Store) : r.lsn ≤ (replayOne r s).1.hdr.nextLSN :=
  Nat.le_trans (Nat.le_max_right s.hdr.nextLSN r.lsn) (replayOne_disk_raised r s).2.2

/-- the redo of a log does not write the data file -/
theorem replayAll_disk (log : List WalRec) (s : Store) : DiskSame s (replayAll log s).1 := by
  induction log generalizing s with
  | nil => exact DiskSame.refl _
  | cons r rest ih =>
    have h1 := replayOne_disk r s
    unfold Engine.replayAll
    split
    · rename_i s' he
      rw [he] at h1
      exact h1.trans (ih s')
    · exact h1

/-- after a redo that ran to its end the LSN counter is at least every replayed LSN -/
theorem replayAll_lsn (log : List WalRec) (s s' : Store) (h : replayAll log s = (s', none, false)) :
    ∀ r ∈ log, r.lsn ≤ s'.hdr.nextLSN := by
  induction log generalizing s with
  | nil => intro r hr; cases hr
  | cons r0 rest ih =>
    have h1 := replayOne_lsn r0 s
    unfold Engine.replayAll at h
    split at h
    · rename_i s1 he
      rw [he] at h1
      have h2 := replayAll_disk rest s1
      rw [h] at h2
      intro r hr
      rcases List.mem_cons.mp hr with e | hr'
      · rw [e]; exact Nat.le_trans h1 h2.2.2
      · exact ih s1 h r hr'
    · rename_i hne
      exact absurd h (hne s')

end Mkdb.Store
