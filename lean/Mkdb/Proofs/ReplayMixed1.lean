import Mkdb.Proofs.ReplayInsert
import Mkdb.Proofs.RefineStmtB
/-!
Replay of mixed histories (INSERT / UPDATE / DELETE of the storage layer), part 1: freshness of
*all* pages of the user tables, and the replay of one UPDATE / DELETE record under the catalog
invariant.

* `insertAppend_pages_lsn`, `flatten_updLeaves_lsn`: every page of the new tree is a page of the old
  tree or carries the statement's LSN.
* `FreshM`, `FreshM.ins_step`, `FreshM.upd_step`, `FreshM.of_same`: the side conditions a history
  keeps true.
* `replay_delete_held`: replay of a DELETE record on a leaf of a held tree is `setDeleted`.
* `replay_update_record`, `replay_delete_record`: one UPDATE / DELETE record under `Cat`.
-/
set_option autoImplicit false
namespace Mkdb.Store
open Mkdb.Page Mkdb.Tuple Mkdb.Generated Mkdb.Tree Mkdb.Engine

/-! ### the pages a statement stamps -/

/-- the nodes of the levels after a split was propagated: old nodes, or nodes stamped with the LSN -/
theorem bubble_pages (lsn : Nat) : ∀ (lvls : List (List (Internal × Bool))) (sep l nc nf : Nat),
    ∀ lvl' ∈ (bubble lsn lvls sep l nc nf).1, ∀ p ∈ lvl', (∃ lvl ∈ lvls, p ∈ lvl) ∨ p.1.lsn = lsn
  | [], sep, l, nc, nf => by
    rw [bubble_nil]
    intro lvl' h p hp
    simp only [List.mem_singleton] at h
    subst h
    simp only [List.mem_singleton] at hp
    subst hp
    exact .inr rfl
  | lvl :: rest, sep, l, nc, nf => by
    rcases eq_nil_or_snoc lvl with rfl | ⟨pre, ⟨p0, d0⟩, rfl⟩
    · rw [bubble_cons_nil]
      intro lvl' h
      cases h
    · rw [bubble_cons_snoc]
      split
      · intro lvl' h p hp
        rcases List.mem_cons.mp h with rfl | h
        · rcases List.mem_append.mp hp with hp | hp
          · exact .inl ⟨_, List.mem_cons_self, List.mem_append_left _ hp⟩
          · simp only [List.mem_singleton] at hp
            subst hp
            exact .inr rfl
        · exact .inl ⟨lvl', List.mem_cons_of_mem _ h, hp⟩
      · intro lvl' h p hp
        simp only at h
        rcases List.mem_cons.mp h with rfl | h
        · rcases List.mem_append.mp hp with hp | hp
          · exact .inl ⟨_, List.mem_cons_self, List.mem_append_left _ hp⟩
          · simp only [List.mem_cons, List.not_mem_nil, or_false] at hp
            rcases hp with rfl | rfl
            · exact .inr rfl
            · exact .inr rfl
        · rcases bubble_pages lsn rest _ _ _ _ lvl' h p hp with ⟨lv, hlv, hp'⟩ | h2
          · exact .inl ⟨lv, List.mem_cons_of_mem _ hlv, hp'⟩
          · exact .inr h2

/-- **Every page of the tree after an insert** is a page of the tree before it, or carries the
insert's LSN. -/
theorem insertAppend_pages_lsn (t t' : Levels) (k lsn nf nf' : Nat) (v : Bytes)
    (h : insertAppend t k lsn v nf = .ok (t', nf')) :
    ∀ x ∈ flatten t', x ∈ flatten t ∨ nodeLSN x.2.1 = lsn := by
  obtain ⟨pre, last, d, hpre, _, _, hcase⟩ := insertAppend_inv_cases h
  have hold : ∀ q ∈ pre, (q.1.off, Node.leaf q.1, q.2) ∈ flatten t := fun q hq =>
    List.mem_append_left _ (List.mem_map.mpr ⟨q, by rw [hpre]; exact List.mem_append_left _ hq, rfl⟩)
  intro x hx
  rcases hcase with ⟨_, rfl, _⟩ | ⟨_, rfl, _⟩
  · unfold flatten at hx
    rcases List.mem_append.mp hx with hx | hx
    · obtain ⟨q, hq, rfl⟩ := List.mem_map.mp hx
      rcases List.mem_append.mp hq with hq | hq
      · exact .inl (hold q hq)
      · simp only [List.mem_singleton] at hq
        subst hq
        exact .inr rfl
    · exact .inl (List.mem_append_right _ hx)
  · unfold flatten at hx
    rcases List.mem_append.mp hx with hx | hx
    · obtain ⟨q, hq, rfl⟩ := List.mem_map.mp hx
      rcases List.mem_append.mp hq with hq | hq
      · exact .inl (hold q hq)
      · simp only [List.mem_cons, List.not_mem_nil, or_false] at hq
        rcases hq with rfl | rfl
        · exact .inr rfl
        · exact .inr rfl
    · simp only at hx
      obtain ⟨lvl', hl', hx'⟩ := List.mem_flatMap.mp hx
      obtain ⟨p, hp, rfl⟩ := List.mem_map.mp hx'
      rcases bubble_pages lsn t.inner _ _ _ _ lvl' hl' p hp with ⟨lv, hlv, hp'⟩ | h2
      · exact .inl (List.mem_append_right _ (List.mem_flatMap.mpr ⟨lv, hlv, List.mem_map.mpr ⟨p, hp', rfl⟩⟩))
      · exact .inr h2

/-- every page of the tree after a cell change is a page of the tree before it, or carries the LSN -/
theorem flatten_updLeaves_lsn (f : LeafCell → LeafCell) (key lsn : Nat) (t : Levels) :
    ∀ x ∈ flatten (updLeaves f key lsn t), x ∈ flatten t ∨ nodeLSN x.2.1 = lsn := by
  intro x hx
  unfold flatten updLeaves at hx
  rcases List.mem_append.mp hx with hx | hx
  · simp only [List.map_map] at hx
    obtain ⟨q, hq, rfl⟩ := List.mem_map.mp hx
    simp only [Function.comp]
    unfold updLeaf
    split
    · exact .inr rfl
    · exact .inl (List.mem_append_left _ (List.mem_map.mpr ⟨q, hq, rfl⟩))
  · exact .inl (List.mem_append_right _ hx)

/-! ### the freshness invariant of a history -/

/-- side conditions on the store a mixed history starts from, which every statement keeps true:
*every* page of every user table is older than the LSN counter; no page lies at offset 0 -/
structure FreshM (s : Store) (tbls : List (Bytes × Levels)) : Prop where
  lsn : ∀ e ∈ tbls, ∀ x ∈ flatten e.2, nodeLSN x.2.1 < s.hdr.nextLSN
  nf  : 0 < s.hdr.nextFree
  pos : ∀ e ∈ tbls, ∀ o ∈ offs e.2, 0 < o

theorem FreshM.leaf {s : Store} {tbls : List (Bytes × Levels)} (hf : FreshM s tbls) {e : Bytes × Levels}
    (he : e ∈ tbls) {l : Leaf} {d : Bool} (hm : (l, d) ∈ e.2.leaves) : l.lsn < s.hdr.nextLSN :=
  hf.lsn e he (l.off, .leaf l, d) (List.mem_append_left _ (List.mem_map.mpr ⟨(l, d), hm, rfl⟩))

theorem FreshM.root {s : Store} {tbls : List (Bytes × Levels)} (hf : FreshM s tbls) {e : Bytes × Levels}
    (he : e ∈ tbls) {nf : Nat} (hI : Inv e.2 nf) : rootLSN e.2 < s.hdr.nextLSN := by
  obtain ⟨n, d, hm, _, hl⟩ := root_entry_lsn e.2 nf hI
  rw [← hl]
  exact hf.lsn e he _ hm

theorem FreshM.toFresh {s : Store} {pt sch : Levels} {tbls : List (Bytes × Levels)} (hf : FreshM s tbls)
    (h : Cat s pt sch tbls) : Fresh s tbls :=
  ⟨fun e he => hf.root he (h.tree e.2 (Cat.tb_mem he)).2.1, hf.nf, hf.pos⟩

/-- the header does not matter beyond the two counters -/
theorem FreshM.of_hdr {s s' : Store} {tbls : List (Bytes × Levels)} (hf : FreshM s tbls)
    (h1 : s.hdr.nextLSN ≤ s'.hdr.nextLSN) (h2 : s.hdr.nextFree ≤ s'.hdr.nextFree) : FreshM s' tbls :=
  ⟨fun e he x hx => Nat.lt_of_lt_of_le (hf.lsn e he x hx) h1, Nat.lt_of_lt_of_le hf.nf h2, hf.pos⟩

theorem FreshM.ins_step {s s' : Store} {tbls : List (Bytes × Levels)} (hf : FreshM s tbls)
    {table : Bytes} {t t' : Levels} {key nf' : Nat} {buf : Bytes} (ht : (table, t) ∈ tbls)
    (hins : insertAppend t key s.hdr.nextLSN buf s.hdr.nextFree = .ok (t', nf'))
    (hlsn : s.hdr.nextLSN < s'.hdr.nextLSN) (hnf : s'.hdr.nextFree = nf') :
    FreshM s' (setTable tbls table t') := by
  have hle : s.hdr.nextFree ≤ nf' := insertAppend_nextFree t t' _ _ _ nf' buf hins
  refine ⟨?_, by have := hf.nf; omega, ?_⟩
  · intro e he x hx
    rcases mem_setTable he with ⟨rfl, _⟩ | ⟨he, _⟩
    · rcases insertAppend_pages_lsn t t' _ _ _ nf' buf hins x hx with h | h
      · have := hf.lsn _ ht x h; omega
      · omega
    · have := hf.lsn e he x hx; omega
  · intro e he
    rcases mem_setTable he with ⟨rfl, _⟩ | ⟨he, _⟩
    · exact insertAppend_offs_pos t t' _ _ _ nf' buf hins hf.nf (hf.pos _ ht)
    · exact hf.pos e he

theorem FreshM.upd_step {s s' : Store} {tbls : List (Bytes × Levels)} (hf : FreshM s tbls)
    {table : Bytes} {t : Levels} (ht : (table, t) ∈ tbls) (f : LeafCell → LeafCell) (key : Nat)
    (hlsn : s.hdr.nextLSN < s'.hdr.nextLSN) (hnf : s'.hdr.nextFree = s.hdr.nextFree) :
    FreshM s' (setTable tbls table (updLeaves f key s.hdr.nextLSN t)) := by
  refine ⟨?_, by rw [hnf]; exact hf.nf, ?_⟩
  · intro e he x hx
    rcases mem_setTable he with ⟨rfl, _⟩ | ⟨he, _⟩
    · rcases flatten_updLeaves_lsn f key _ t x hx with h | h
      · have := hf.lsn _ ht x h; omega
      · omega
    · have := hf.lsn e he x hx; omega
  · intro e he
    rcases mem_setTable he with ⟨rfl, _⟩ | ⟨he, _⟩
    · simp only
      rw [offs_updLeaves]
      exact hf.pos _ ht
    · exact hf.pos e he

/-! ### a DELETE record on a leaf of a held tree -/

/-- **Replay of a DELETE record** naming a leaf of a held tree that holds the cell and is older than
the record: `setDeleted` on the tree; of the header only `nextLSN` is raised; no other page changes. -/
theorem replay_delete_held (s : Store) (t : Levels) (hH : Holds s t) (hI : Inv t s.hdr.nextFree)
    (l : Leaf) (d : Bool) (hm : (l, d) ∈ t.leaves) (key lsn : Nat) (value : Bytes)
    (hany : l.cells.any (fun c => c.key == key) = true) (hl : l.lsn < lsn) :
    ∃ s', replayOne ⟨c_OpDelete, lsn, l.off, key, value⟩ s = (s', none, false) ∧
      Holds s' (setDeleted t key lsn) ∧
      s'.hdr = { s.hdr with nextLSN := max s.hdr.nextLSN lsn } ∧
      ∀ off, off ≠ l.off → view s' off = view s off := by
  have hvl : view s l.off = some (.leaf l, d) := holds_leaf hH hm
  obtain ⟨mem1, hsv, he⟩ := RedoLink.replayOne_delete_eq ⟨c_OpDelete, lsn, l.off, key, value⟩ s l d rfl
    hvl rfl hany
  have hnl : ¬ lsn ≤ l.lsn := by omega
  simp only [hnl, if_false] at he
  have hview : ∀ (h : Header) (m : MNode) (o : Nat), view { s with hdr := h, mem := assocSet mem1 l.off m } o =
      upd (view s) l.off (m.node, m.dirty) o := by
    intro h m o
    rw [RedoLink.view_setMem]
    unfold upd
    split
    · rfl
    · exact hsv o
  refine ⟨_, he, ?_, rfl, ?_⟩
  · rw [setDeleted_eq]
    apply holds_updLeaves (fun c => { c with deleted := true }) key lsn s _ t hH hI l d hm hany
    funext o
    rw [hview]
    rfl
  · intro off hoff
    rw [hview, upd_other _ _ _ _ hoff]

/-! ### one UPDATE / DELETE record under the catalog invariant -/

/-- **Replay of the UPDATE record of a row of a user table.**  The store satisfies `Cat` with the
tree `t` for `table`; `(l, d)` is the leaf of `t` holding the row id, older than the record; the value
fits a cell.  `replayOne` applies the record; the store then satisfies `Cat` with
`setVal t rowId lsn buf` in place of `t` - the tree the live statement built. -/
theorem replay_update_record (r : Store) (pt sch : Levels) (tbls : List (Bytes × Levels))
    (hr : Cat r pt sch tbls) (table : Bytes) (t : Levels) (ht : (table, t) ∈ tbls)
    (l : Leaf) (d : Bool) (hm : (l, d) ∈ t.leaves) (rowId lsn : Nat) (buf : Bytes)
    (hany : l.cells.any (fun c => c.key == rowId) = true) (hlen : buf.length ≤ c_maxValueSize)
    (hl : l.lsn < lsn) :
    ∃ r', replayOne ⟨c_OpUpdate, lsn, l.off, rowId, buf⟩ r = (r', none, false) ∧
      Cat r' pt sch (setTable tbls table (setVal t rowId lsn buf)) ∧
      r'.hdr = { r.hdr with nextLSN := max r.hdr.nextLSN lsn } ∧
      ∀ off, off ≠ l.off → view r' off = view r off := by
  obtain ⟨hHt, hIt, _, _, _⟩ := hr.tree t (Cat.tb_mem ht)
  obtain ⟨r', e, hH', hh, hfr⟩ := replay_update_held r t hHt hIt l d hm rowId lsn buf hany hlen hl
  refine ⟨r', e, ?_, hh, hfr⟩
  rw [setVal_eq] at hH' ⊢
  exact hr.updTable ht (fun c => { c with val := buf }) rowId lsn (fun _ => rfl) hH'
    (by rw [hh]) (by rw [hh]) (by rw [hh])
    (fun off hoff => hfr off (fun heq => hoff (heq ▸ leaf_off_mem_offs hm)))

/-- **Replay of the DELETE record of a row of a user table**: as `replay_update_record`, with
`setDeleted t rowId lsn`. -/
theorem replay_delete_record (r : Store) (pt sch : Levels) (tbls : List (Bytes × Levels))
    (hr : Cat r pt sch tbls) (table : Bytes) (t : Levels) (ht : (table, t) ∈ tbls)
    (l : Leaf) (d : Bool) (hm : (l, d) ∈ t.leaves) (rowId lsn : Nat) (buf : Bytes)
    (hany : l.cells.any (fun c => c.key == rowId) = true) (hl : l.lsn < lsn) :
    ∃ r', replayOne ⟨c_OpDelete, lsn, l.off, rowId, buf⟩ r = (r', none, false) ∧
      Cat r' pt sch (setTable tbls table (setDeleted t rowId lsn)) ∧
      r'.hdr = { r.hdr with nextLSN := max r.hdr.nextLSN lsn } ∧
      ∀ off, off ≠ l.off → view r' off = view r off := by
  obtain ⟨hHt, hIt, _, _, _⟩ := hr.tree t (Cat.tb_mem ht)
  obtain ⟨r', e, hH', hh, hfr⟩ := replay_delete_held r t hHt hIt l d hm rowId lsn buf hany hl
  refine ⟨r', e, ?_, hh, hfr⟩
  rw [setDeleted_eq] at hH' ⊢
  exact hr.updTable ht (fun c => { c with deleted := true }) rowId lsn (fun _ => rfl) hH'
    (by rw [hh]) (by rw [hh]) (by rw [hh])
    (fun off hoff => hfr off (fun heq => hoff (heq ▸ leaf_off_mem_offs hm)))

end Mkdb.Store
