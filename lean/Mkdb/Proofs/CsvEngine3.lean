import Mkdb.Proofs.CsvEngine2
import Mkdb.Proofs.CreateCat3
import Mkdb.Proofs.ReplayMixed
/-!
CSV import on the engine model, part 3: **the side conditions `ImportRoom` are met whenever the table has
room at the start** (`importRoom_of_sizes`): a tree `n` levels and `n` leaves short of the fuel of the
descents and scans, an allocation frontier `n` times 64 pages below 2^63, for an import of `n` records.
(A sufficient condition, far from necessary - the height of a tree grows with the logarithm of its size -
but one that holds of every fresh table and every import of up to 60 records, whatever the records.)
-/
set_option autoImplicit false
namespace Mkdb.Csv
open Mkdb.Tuple Mkdb.Generated Mkdb.Store Mkdb.Tree Mkdb.Page

/-- the database has room for `n` more one-row INSERTs into `table`, whatever the rows -/
def RoomFor (db : Engine.DB) (table : Bytes) (n : Nat) : Prop :=
  ∃ sdb pt sch tbls tr, Abs db.store pt sch tbls sdb ∧ (table, tr) ∈ tbls ∧
    tr.inner.length + n + 2 ≤ treeFuel ∧ tr.leaves.length + n ≤ scanFuel ∧
    db.store.hdr.nextFree + 262144 * n ≤ 9223372036854775807

theorem RoomFor.mono {db : Engine.DB} {table : Bytes} {n m : Nat} (h : RoomFor db table n) (hm : m ≤ n) :
    RoomFor db table m := by
  obtain ⟨sdb, pt, sch, tbls, tr, habs, ht, h1, h2, h3⟩ := h
  exact ⟨sdb, pt, sch, tbls, tr, habs, ht, by omega, by omega, by omega⟩

/-- room for one row, from the sizes of the tree -/
theorem insRunOK_of_sizes (schema : List FieldDef) (cols : List String) (tr : Levels) (lk lsn nf : Nat)
    (vals : List Val) (h1 : tr.inner.length + 3 ≤ treeFuel) (h2 : tr.leaves.length + 1 ≤ scanFuel)
    (h3 : nf + 262144 ≤ 9223372036854775807) : InsRunOK schema cols tr lk lsn nf [vals] := by
  intro buf t' nf' _ hins
  obtain ⟨g1, g2, g3⟩ := insertAppend_growth hins
  have h64 := treeFuel_eq
  exact ⟨by omega, by omega, by omega, trivial⟩

theorem evalInsert_one_ok {db : Engine.DB} {table : Bytes} {cols : List Bytes} {vals : List Val}
    {logs : List WalRec} {s' : Store}
    (e : insert table (cols.map Engine.bytesToName) vals db.store = .ok logs s') :
    Engine.evalInsert db table cols [vals] = .ok 1 { store := s', wal := db.wal ++ ([] ++ logs) } := by
  simp only [Engine.evalInsert, Engine.evalInsert.go, e]

theorem evalInsert_one_err {db : Engine.DB} {table : Bytes} {cols : List Bytes} {vals : List Val}
    {x : SErr} {s' : Store}
    (e : insert table (cols.map Engine.bytesToName) vals db.store = .err x s') :
    Engine.evalInsert db table cols [vals] = .err (.store x) { db with store := s' } := by
  simp only [Engine.evalInsert, Engine.evalInsert.go, e]

/-- one more one-row INSERT, accepted or refused, uses up the room of one -/
theorem RoomFor.step {db : Engine.DB} {table : Bytes} {n : Nat} (cols : List Bytes) (vals : List Val)
    (hvals : ∀ v ∈ vals, ValidVal v) (h : RoomFor db table (n + 1)) (db' : Engine.DB)
    (hd : Engine.evalInsert db table cols [vals] = .ok 1 db' ∨
      ∃ e, Engine.evalInsert db table cols [vals] = .err e db') : RoomFor db' table n := by
  obtain ⟨sdb, pt, sch, tbls, tr, habs, ht, h1, h2, h3⟩ := h
  obtain ⟨schema, hsch, _, hfind⟩ := habs.tabs.find habs.cat.tnames ht
  -- a refusal: the same description
  have hrefused : ∀ (x : SErr) (s' : Store), insert table (cols.map Engine.bytesToName) vals db.store = .err x s' →
      Abs s' pt sch tbls sdb → s'.hdr.nextFree = db.store.hdr.nextFree → RoomFor db' table n := by
    intro x s' e habs' hnf
    have he := evalInsert_one_err (db := db) (cols := cols) e
    have hdb : db' = { db with store := s' } := by
      rcases hd with hd | ⟨e2, hd⟩
      · rw [he] at hd; cases hd
      · rw [he] at hd
        simp only [Engine.Res.err.injEq] at hd
        exact hd.2.symm
    subst hdb
    exact ⟨sdb, pt, sch, tbls, tr, habs', ht, by omega, by omega, by show s'.hdr.nextFree + _ ≤ _; omega⟩
  cases hn : Spec.namesOK (absTable table schema tr) (cols.map Spec.nameStr) with
  | false =>
    obtain ⟨x, s', e, _, habs', hs⟩ := insert_badNames_abs habs table tr ht schema hsch cols vals hn
    exact hrefused x s' e habs' (by rw [hs.2])
  | true =>
    cases hr : Spec.rowOf (absTable table schema tr) cols vals with
    | none =>
      obtain ⟨x, s', e, _, habs', _, hnf, _⟩ := insert_refused_abs habs table tr ht schema hsch cols vals hr
      exact hrefused x s' e habs' hnf
    | some vs =>
      have h64 := treeFuel_eq
      obtain ⟨s', ptF, logs, buf, t', nf', e, _, hins, habs', _, hnf, _⟩ := insert_step habs table tr ht schema hsch
        cols vals vs hvals hr
        (checkColumns_of_namesOK (absTable table schema tr) cols (habs.tabs.names_nodup ht hsch) hn)
        (fun buf t' nf' _ hins => by
          obtain ⟨g1, g2, g3⟩ := insertAppend_growth hins
          exact ⟨by omega, by omega, by omega⟩)
      obtain ⟨g1, g2, g3⟩ := insertAppend_growth hins
      have he := evalInsert_one_ok (db := db) (cols := cols) e
      have hdb : db' = { store := s', wal := db.wal ++ ([] ++ logs) } := by
        rcases hd with hd | ⟨e2, hd⟩
        · rw [he] at hd
          simp only [Engine.Res.ok.injEq, true_and] at hd
          exact hd.symm
        · rw [he] at hd; cases hd
      subst hdb
      exact ⟨_, ptF, sch, setTable tbls table t', t', habs', mem_setTable_self t' ht, by omega, by omega,
        by show s'.hdr.nextFree + _ ≤ _; omega⟩

/-- **Room at the start is room all along**: a table with room for as many one-row INSERTs as there are
records meets the side conditions of the import theorem, whatever the records, the mapping and the
outcome of each record. -/
theorem importRoom_of_sizes (cfg : Cfg) (types : List DataType) (table : Bytes) :
    ∀ (recs : List (Option (List Bytes))) (db : Engine.DB), FieldsFit recs → RoomFor db table recs.length →
      ImportRoom cfg types table db recs
  | [], _, _, _ => trivial
  | r :: rest, db, hfit, hroom => by
    simp only [ImportRoom]
    cases hv : recordVals cfg types r with
    | none =>
      simp only
      exact importRoom_of_sizes cfg types table rest db hfit.tail (hroom.mono (Nat.le_succ _))
    | some vals =>
      simp only
      have hvals : ∀ v ∈ vals, ValidVal v := by
        cases r with
        | none => cases hv
        | some rec => exact recordVals_valid (hfit rec List.mem_cons_self) hv
      refine ⟨fun _ sdb pt sch tbls hinv tr schema htr hsch => ?_, fun db' hd =>
        importRoom_of_sizes cfg types table rest db' hfit.tail (hroom.step _ vals hvals db' hd)⟩
      obtain ⟨sdb1, pt1, sch1, tbls1, tr1, habs1, ht1, s1, s2, s3⟩ := hroom
      obtain ⟨sdb0, habs0, _⟩ := hinv.abs
      have htr1 : tr = tr1 := habs0.cat.tree_unique habs1.cat htr ht1
      subst htr1
      simp only [List.length_cons] at s1 s2 s3
      have r1 : tr.inner.length + 3 ≤ treeFuel := by omega
      have r2 : tr.leaves.length + 1 ≤ scanFuel := by omega
      have r3 : db.store.hdr.nextFree + 262144 ≤ 9223372036854775807 := by
        rw [Nat.mul_add, Nat.mul_one, ← Nat.add_assoc] at s3
        omega
      exact insRunOK_of_sizes schema _ tr _ _ _ vals r1 r2 r3

end Mkdb.Csv
