import Mkdb.Proofs.SessionInv10
/-!
C16 on the heap model, part 1: **evicting clean pages from the cache of the heap model changes nothing
the engine can see**.

The heap model (`Mkdb/Model/Store.lean`) has an unbounded cache: nothing is ever evicted.  The real cache
(storage/lru.go under storage/page.go) drops the least recently used CLEAN page when it is full.
`evict s offs` is that step on the model, for any set of offsets at once (the policy - which clean pages
go - is C15's; here every choice is covered).

* `evict s offs`: the cache without the pages at the offsets `offs` that the engine sees CLEAN.  A page
  the engine sees dirty is never dropped (`evict_keeps_dirty`).  The model's cache is an association list
  in which only the first entry of an offset is visible; entries hidden behind a clean first entry go with
  it (a Go map has one entry per key: `evict_eq_filter_clean` - with distinct keys this is "drop the clean
  entries at these offsets").
* `view_evict`: what the engine sees at an offset after the eviction: the data file's page, clean, where
  a page was dropped; the same as before everywhere else.
* `evict_view_eq`: **invisibility at one offset** - if the page the engine sees clean at `o` is the data
  file's page at `o`, then `view (evict s offs) o = view s o`: same content, same dirty bit.
* `Holds.evict`, `Cat.evict`, `Abs.evict`, `AbsV.evict`, `DbInv.evict`: under `Synced` (every clean page of
  the catalog description is in the data file) every tree the store holds is held after the eviction, so
  the catalog invariant, the abstraction and the database invariant hold with the SAME trees and the
  SAME plain database.
-/
set_option autoImplicit false
namespace Mkdb.Store
open Mkdb.Page Mkdb.Tuple Mkdb.Generated Mkdb.Tree Mkdb.Engine

/-- the engine sees a clean cached page at `o`, and `o` is one of the offsets to evict -/
def evictable (s : Store) (offs : List Nat) (o : Nat) : Bool :=
  offs.contains o && ((assocGet s.mem o).map (·.dirty) == some false)

/-- **Eviction of clean pages**: the cache loses the pages at the offsets `offs` that are clean; the data
file, the headers and everything else stay. -/
def evict (s : Store) (offs : List Nat) : Store :=
  { s with mem := s.mem.filter fun p => !evictable s offs p.1 }

/-- the same on a database (the log is a file of its own) -/
def evictDB (db : Engine.DB) (offs : List Nat) : Engine.DB := { db with store := evict db.store offs }

@[simp] theorem evict_hdr (s : Store) (offs : List Nat) : (evict s offs).hdr = s.hdr := rfl
@[simp] theorem evict_disk (s : Store) (offs : List Nat) : (evict s offs).disk = s.disk := rfl
@[simp] theorem evict_dhdr (s : Store) (offs : List Nat) : (evict s offs).dhdr = s.dhdr := rfl
@[simp] theorem evict_ghost (s : Store) (offs : List Nat) : (evict s offs).ghost = s.ghost := rfl
@[simp] theorem evictDB_wal (db : Engine.DB) (offs : List Nat) : (evictDB db offs).wal = db.wal := rfl
@[simp] theorem evictDB_store (db : Engine.DB) (offs : List Nat) : (evictDB db offs).store = evict db.store offs := rfl

/-- filtering an association list by a predicate on the keys -/
theorem assocGet_filter_key {β} (c : Nat → Bool) (l : List (Nat × β)) (o : Nat) :
    assocGet (l.filter fun p => !c p.1) o = if c o then none else assocGet l o := by
  induction l with
  | nil => simp [assocGet]
  | cons p ps ih =>
    rw [List.filter_cons]
    by_cases hp : c p.1 = true
    · simp only [hp, Bool.not_true, Bool.false_eq_true, if_false]
      rw [ih, assocGet_cons]
      by_cases hk : p.1 = o
      · rw [← hk]; simp [hp]
      · simp [hk]
    · have hp' : c p.1 = false := by simpa using hp
      simp only [hp', Bool.not_false, if_true]
      rw [assocGet_cons, assocGet_cons, ih]
      by_cases hk : p.1 = o
      · rw [← hk]; simp [hp']
      · simp [hk]

/-- the cache after the eviction -/
theorem assocGet_evict (s : Store) (offs : List Nat) (o : Nat) :
    assocGet (evict s offs).mem o = if evictable s offs o then none else assocGet s.mem o :=
  assocGet_filter_key (evictable s offs) s.mem o

/-- **What the engine sees after the eviction**: the data file's page, clean, where a page was dropped;
what it saw before everywhere else. -/
theorem view_evict (s : Store) (offs : List Nat) (o : Nat) :
    view (evict s offs) o =
      if evictable s offs o then (assocGet s.disk o).map fun n => (n, false) else view s o := by
  unfold view
  rw [assocGet_evict]
  by_cases h : evictable s offs o = true
  · simp [h]
  · simp [h]

/-- a page is dropped only where the engine saw a clean page -/
theorem evictable_view {s : Store} {offs : List Nat} {o : Nat} (h : evictable s offs o = true) :
    o ∈ offs ∧ ∃ n, view s o = some (n, false) := by
  unfold evictable at h
  simp only [Bool.and_eq_true, List.contains_iff_mem, beq_iff_eq, Option.map_eq_some_iff] at h
  obtain ⟨h1, m, hm, hd⟩ := h
  refine ⟨h1, m.node, ?_⟩
  unfold view
  rw [hm, ← hd]

/-- **A page the engine sees dirty is never dropped** (C15's `dirty_pinned`, on the heap model). -/
theorem evict_keeps_dirty {s : Store} {offs : List Nat} {o : Nat} {n : Node} (h : view s o = some (n, true)) :
    assocGet (evict s offs).mem o = assocGet s.mem o := by
  rw [assocGet_evict]
  by_cases he : evictable s offs o = true
  · obtain ⟨_, n', hn'⟩ := evictable_view he
    rw [h] at hn'
    simp only [Option.some.injEq, Prod.mk.injEq] at hn'
    exact absurd hn'.2 (by decide)
  · simp [he]

/-- a page at an offset that is not named stays -/
theorem evict_keeps_others {s : Store} {offs : List Nat} {o : Nat} (h : o ∉ offs) :
    assocGet (evict s offs).mem o = assocGet s.mem o := by
  rw [assocGet_evict]
  have : evictable s offs o = false := by
    unfold evictable
    simp [h]
  simp [this]

/-- **Invisibility at one offset**: where the page the engine sees clean is the data file's page, the
eviction changes nothing: the same content, and the same dirty bit (a dropped page reads back clean,
which it was). -/
theorem evict_view_eq {s : Store} {offs : List Nat} {o : Nat}
    (h : ∀ n, view s o = some (n, false) → assocGet s.disk o = some n) :
    view (evict s offs) o = view s o := by
  rw [view_evict]
  by_cases he : evictable s offs o = true
  · obtain ⟨_, n, hn⟩ := evictable_view he
    simp only [he, if_true]
    rw [h n hn, hn]
    rfl
  · simp [he]

/-- nothing is evicted from an empty list of offsets -/
theorem evict_nil (s : Store) : evict s [] = s := by
  unfold evict
  have : (s.mem.filter fun p => !evictable s [] p.1) = s.mem := by
    apply List.filter_eq_self.mpr
    intro p _
    simp [evictable]
  rw [this]

/-- in a list with one entry per key every entry is the visible one -/
theorem assocGet_of_mem_nodup {β} : ∀ (l : List (Nat × β)), l.Pairwise (fun a b => a.1 ≠ b.1) →
    ∀ p ∈ l, assocGet l p.1 = some p.2
  | [], _, _, hp => by cases hp
  | q :: qs, hnd, p, hp => by
    rw [assocGet_cons]
    rw [List.pairwise_cons] at hnd
    rcases List.mem_cons.mp hp with rfl | hq
    · simp
    · have : q.1 ≠ p.1 := hnd.1 p hq
      simp only [this, if_false]
      exact assocGet_of_mem_nodup qs hnd.2 p hq

/-- with one entry per offset (a Go map) the eviction drops exactly the clean entries at the offsets -/
theorem evict_eq_filter_clean (s : Store) (offs : List Nat)
    (hnd : s.mem.Pairwise fun a b => a.1 ≠ b.1) :
    (evict s offs).mem = s.mem.filter fun p => !(offs.contains p.1 && !p.2.dirty) := by
  unfold evict
  apply List.filter_congr
  intro p hp
  have hget := assocGet_of_mem_nodup s.mem hnd p hp
  unfold evictable
  rw [hget]
  cases hd : p.2.dirty <;> simp [hd]

/-- the cache after the eviction is part of the cache before -/
theorem evict_mem_sub {s : Store} {offs : List Nat} {p : Nat × MNode} (h : p ∈ (evict s offs).mem) : p ∈ s.mem :=
  (List.mem_filter.mp h).1

theorem MemFiled.evict {s : Store} (h : MemFiled s) (offs : List Nat) : MemFiled (evict s offs) :=
  fun p hp => h p (evict_mem_sub hp)

/-! ### the trees the store holds -/

/-- a tree whose clean pages are in the data file is held after the eviction -/
theorem Holds.evict {s : Store} {t : Levels} (h : Holds s t)
    (hsy : ∀ e ∈ flatten t, e.2.2 = false → assocGet s.disk e.1 = some e.2.1) (offs : List Nat) :
    Holds (evict s offs) t := by
  intro e he
  rw [evict_view_eq]
  · exact h e he
  · intro n hn
    rw [h e he] at hn
    simp only [Option.some.injEq, Prod.mk.injEq] at hn
    rw [← hn.1]
    exact hsy e he hn.2

/-- `Synced` does not look at the cache -/
theorem Synced.evict {s : Store} {pt sch : Levels} {tbls : List (Bytes × Levels)} (h : Synced s pt sch tbls)
    (offs : List Nat) : Synced (evict s offs) pt sch tbls := h

/-- **The catalog invariant survives the eviction**, with the same trees. -/
theorem Cat.evict {s : Store} {pt sch : Levels} {tbls : List (Bytes × Levels)} (h : Cat s pt sch tbls)
    (hsy : Synced s pt sch tbls) (offs : List Nat) : Cat (evict s offs) pt sch tbls where
  tree := fun x hx => by
    obtain ⟨a, b, c, d, e⟩ := h.tree x hx
    exact ⟨a.evict (hsy x hx) offs, b, c, d, e⟩
  disj := h.disj
  root := h.root
  dec := h.dec
  names := h.names
  esch := h.esch
  etb := h.etb
  only := h.only
  tnames := h.tnames
  tsys := h.tsys
  tlen := h.tlen

theorem Abs.evict {s : Store} {pt sch : Levels} {tbls : List (Bytes × Levels)} {sdb : Spec.SDB}
    (h : Abs s pt sch tbls sdb) (hsy : Synced s pt sch tbls) (offs : List Nat) :
    Abs (evict s offs) pt sch tbls sdb := ⟨h.cat.evict hsy offs, h.tabs⟩

/-- **The store abstracts to the same plain database after the eviction.** -/
theorem AbsV.evict {s : Store} {pt sch : Levels} {tbls : List (Bytes × Levels)} {sdb : Spec.SDB}
    (h : AbsV s pt sch tbls sdb) (hsy : Synced s pt sch tbls) (offs : List Nat) :
    AbsV (evict s offs) pt sch tbls sdb := by
  obtain ⟨sdb0, habs, hv⟩ := h
  exact ⟨sdb0, habs.evict hsy offs, hv⟩

/-- **The database invariant survives the eviction of any set of clean pages**: same plain database,
same catalog trees, same log. -/
theorem DbInv.evict {db : Engine.DB} {sdb : Spec.SDB} {pt sch : Levels} {tbls : List (Bytes × Levels)}
    (h : DbInv db sdb pt sch tbls) (offs : List Nat) : DbInv (evictDB db offs) sdb pt sch tbls :=
  ⟨h.abs.evict h.synced offs, h.nostale, h.filed.evict offs, h.log, h.lsn, h.keys, h.synced⟩

/-- a closed database stays closed (nothing is dirty, so any page may go) -/
theorem DbFlushed.evict {db : Engine.DB} {sdb : Spec.SDB} {pt sch : Levels} {tbls : List (Bytes × Levels)}
    (h : DbFlushed db sdb pt sch tbls) (offs : List Nat) : DbFlushed (evictDB db offs) sdb pt sch tbls :=
  ⟨h.inv.evict offs, h.dhdr, h.disk⟩

theorem Rel.evict {db : Engine.DB} {sdb : Spec.SDB} {pt sch : Levels} {tbls : List (Bytes × Levels)}
    (h : Rel db pt sch tbls sdb) (hsy : Synced db.store pt sch tbls) (offs : List Nat) :
    Rel (evictDB db offs) pt sch tbls sdb := ⟨h.1.evict hsy offs, h.2.1, h.2.2.evict offs⟩

/-- the side conditions of a statement read the header only -/
theorem StmtRoom.evict {db : Engine.DB} {pt sch : Levels} {tbls : List (Bytes × Levels)} {st : Sql.Stmt}
    (h : StmtRoom db pt sch tbls st) (offs : List Nat) : StmtRoom (evictDB db offs) pt sch tbls st := by
  cases st <;> exact h

theorem StmtRoomT.evict {db : Engine.DB} {pt sch : Levels} {tbls : List (Bytes × Levels)} {st : Sql.Stmt}
    (h : StmtRoomT db pt sch tbls st) (offs : List Nat) : StmtRoomT (evictDB db offs) pt sch tbls st := by
  cases st <;> exact h

end Mkdb.Store
