import Mkdb.Proofs.SpecRefine7
/-!
# End-to-end refinement: the engine's statements refine the in-memory specification

`Mkdb.Spec` (`Mkdb/Spec/Tables.lean`) is the plain in-memory specification the test judge uses as its
oracle; `Mkdb.Engine` (`Mkdb/Model/Engine.lean`) is the model of the statement evaluators of the Go
code, running on the page store.  This development relates the two.

* **Abstraction** (`SpecRefine1`).  `absTable name schema t` is the spec table a tree holds (the rows
  `rowsOf schema (live t)`, with their row ids); `Abs s pt sch tbls sdb` says that the store satisfies
  the catalog invariant `Cat s pt sch tbls` and `sdb` is, in order, the abstraction of the user tables
  (each with the schema `schemaOf sch name`, every live cell decoding with it); `valsOf` forgets the
  row ids; `AbsV` (`SpecRefine7`) is `Abs` up to row ids.  `nameStr = nameOfBytes`, `litVal = litToVal`;
  `specRowOf_some_iff` / `specRowOf_none_iff`: the spec's `rowOf` is the model's arity check + encoder +
  size check; `roundtrip_any`, `rowOf_new`: the codec round trip (no hypothesis on the column names).
* **INSERT** (`SpecRefine2`): `insert_step`, `evalInsert_go_spec`, `evalInsert_refines_spec`, side
  conditions `InsRunOK`.
* **Refused INSERT** (`SpecRefine3`): `insert_refused_abs`, `evalInsert_refused_spec` (first row /
  unknown table: nothing changes), `evalInsert_kth_refused_spec` (a later row: the rows before it stay
  applied - the known finding - the log is untouched).
* **DELETE** (`SpecRefine4`): `filterIds_selects`, `evalDelete_go_spec`, `evalDelete_refines_spec`.
* **UPDATE** (`SpecRefine5`, `SpecRefine6`): `decodeTuple_valid`, `specAssign_some_iff`,
  `evalUpdate_go_spec`, `update_rows_agree`, `evalUpdate_refines_spec`.
* **Simulation modulo row ids** (`SpecRefine7`): `specInsert_congr`, `specDelete_congr`,
  `specUpdate_congr`; `evalInsert_refines_specV`, `evalInsert_refused_specV`,
  `evalDelete_refines_specV`, `evalUpdate_refines_specV`: the relation `AbsV` is preserved along the
  spec's statements, so statements chain.
* below: **non-vacuity** on a concrete store with a one-column table `t (a INT)`: the hypotheses hold
  and INSERT of two rows, UPDATE … WHERE a = 5 and DELETE … WHERE a = 6 run as the spec says;
  `INSERT INTO t (b) VALUES (1)` is refused with nothing changed (`unknown_column_example`).
-/
set_option autoImplicit false
namespace Mkdb.Store
open Mkdb.Page Mkdb.Tuple Mkdb.Generated Mkdb.Tree

/-! ### a concrete store with the table `t (a INT)` -/

/-- the row of `sys_schema` for column `a INT` of table `t` -/
def schRow : Bytes := [0, 1, 0, 0, 0, 116, 0, 1, 0, 0, 0, 97, 0, 0, 0, 0, 0, 0, 0, 0, 0, 0]
def schLeaf : Leaf := ⟨8192, 0, false, false, 0, 0, [⟨4, false, schRow⟩]⟩
def sch1 : Levels := ⟨[(schLeaf, true)], []⟩
def schemaA : List FieldDef := [⟨"a", .int, 0⟩]
def st1 : Store :=
  { hdr := { lastKey := 4, ptRoot := 4096, nextFree := 16384, nextLSN := 7 },
    mem := [(4096, ⟨.leaf ptLeaf, true⟩), (8192, ⟨.leaf schLeaf, true⟩),
            (12288, ⟨.leaf ⟨12288, 0, false, false, 0, 0, []⟩, true⟩)] }

theorem schRow_enc : encodeTuple schemaTableSchema
    [("table_name", .str [116]), ("field_name", .str [97]), ("field_type", .int 0), ("field_length", .int 0)] =
    .ok schRow := rfl

theorem sch1_t : schemaOf sch1 tname = some schemaA := by decide

theorem sch1_inv : Inv sch1 16384 := by
  refine ⟨?_, ?_, ?_, ?_, ?_, ?_, ?_⟩
  · refine ⟨?_, ?_⟩
    · intro p hp; simp [sch1] at hp; subst hp; simp [schLeaf, c_maxLeafNodeCells]
    · intro lvl hl; simp [sch1] at hl
  · simp [KeysAsc, keys, cells, sch1, schLeaf]
  · intro h2; simp [sch1] at h2
  · simp [ChainOK, chainFrom, sch1, schLeaf]
  · simp [LinkOK, linked, sch1]
  · simp [SepsOK, sepsAll, sch1]
  · simp [OffsOK, offs, flatten, sch1, schLeaf]

theorem cat1 : Cat st1 pt0 sch1 [(tname, t0)] := by
  refine ⟨?_, ?_, rfl, ?_, ?_, ?_, ?_, ?_, ?_, ?_, ?_⟩
  · intro x hx
    simp only [catTrees, List.map_cons, List.map_nil, List.mem_cons, List.not_mem_nil, or_false] at hx
    rcases hx with rfl | rfl | rfl
    · refine ⟨?_, pt0_inv, by decide, by decide, ?_⟩
      · intro e he; simp [flatten, pt0] at he; subst he; rfl
      · intro a ha; simp [keys, cells, pt0, ptLeaf] at ha; rcases ha with rfl | rfl | rfl <;> decide
    · refine ⟨?_, sch1_inv, by decide, by decide, ?_⟩
      · intro e he; simp [flatten, sch1] at he; subst he; rfl
      · intro a ha; simp [keys, cells, sch1, schLeaf] at ha; subst ha; decide
    · refine ⟨?_, emptyTree_inv _ _ (by decide), by decide, by decide, ?_⟩
      · intro e he; simp [flatten, t0, emptyTree] at he; subst he; rfl
      · intro a ha; simp [keys, cells, t0, emptyTree] at ha
  · simp [catTrees, offs, flatten, pt0, sch1, schLeaf, t0, emptyTree, ptLeaf]
  · intro c hc
    have : ptEntry c ∈ (live pt0).map ptEntry := List.mem_map.mpr ⟨c, hc, rfl⟩
    simp only [live, cells, pt0, ptLeaf, List.flatMap_cons, List.flatMap_nil, List.append_nil,
      List.filter_cons, Bool.not_false, if_true, List.filter_nil, List.map_cons, List.map_nil,
      ptEntry_ptRow 1 false sysPages 4096 (by rw [sysPages_eq]; decide) (by decide),
      ptEntry_ptRow 2 false sysSchema 8192 (by rw [sysSchema_eq]; decide) (by decide),
      ptEntry_ptRow 3 false tname 12288 (by decide) (by decide)] at this
    intro h0
    rw [h0] at this
    simp at this
  · rw [pt0_entries, sysPages_eq, sysSchema_eq]; decide
  · rw [pt0_entries]; simp [sch1, schLeaf, rootOff]
  · intro e he; simp at he; subst he; rw [pt0_entries]; simp [t0, emptyTree, rootOff]
  · intro e he; rw [pt0_entries] at he; simp at he
    rcases he with rfl | rfl | rfl <;> simp
  · decide
  · rw [sysPages_eq, sysSchema_eq]; decide
  · intro e he; simp at he; subst he; decide

/-- the spec database of the concrete store: the empty table `t (a INT)` -/
def sdbA0 : Spec.SDB := [⟨tname, schemaA, []⟩]

/-- **Non-vacuity of `Abs`.** -/
theorem abs1 : Abs st1 pt0 sch1 [(tname, t0)] sdbA0 :=
  ⟨cat1, .cons ⟨schemaA, sch1_t, (by simp [schemaA]), (by intro c hc; cases hc), rfl⟩ .nil⟩

/-! ### the statements -/

def dbA : Engine.DB := { store := st1, wal := [] }
/-- `a = n` -/
def condEq (n : Int) : Sql.Cond := .pred ⟨.col ⟨[], [97]⟩, t_EQ, .lit (.int n)⟩
def sdbA1 : Spec.SDB := [⟨tname, schemaA, [⟨none, [.int 5]⟩, ⟨none, [.int 6]⟩]⟩]
def sdbA2 : Spec.SDB := [⟨tname, schemaA, [⟨none, [.int 7]⟩, ⟨none, [.int 6]⟩]⟩]
def sdbA3 : Spec.SDB := [⟨tname, schemaA, [⟨none, [.int 7]⟩]⟩]

theorem a_bytes : "a".toUTF8.toList = [97] := by
  rw [toList_eq]
  have hs : "a".toUTF8.size = 1 := by decide
  rw [hs]
  decide

theorem nameStr_a : Spec.nameStr [97] = "a" := by decide

theorem fieldsA (n : Bytes) (rows : List Spec.SRow) : Spec.fieldsOfTable ⟨n, schemaA, rows⟩ = [⟨[], [97]⟩] := by
  simp only [Spec.fieldsOfTable, schemaA, List.map_cons, List.map_nil, a_bytes]

/-- `INSERT INTO t VALUES (5), (6)` in the spec -/
theorem specA1 : Spec.specInsert sdbA0 tname [] [[.int 5], [.int 6]] = some sdbA1 := rfl

/-- `UPDATE t SET a = 7 WHERE a = 5` in the spec -/
theorem specA2 : Spec.specUpdate sdbA1 tname [([97], .lit (.int 7))] (some (condEq 5)) = some sdbA2 := by
  have hsel : Spec.selects ⟨tname, schemaA, [⟨none, [.int 5]⟩, ⟨none, [.int 6]⟩]⟩ (some (condEq 5)) =
      some [true, false] := by
    simp only [Spec.selects, fieldsA]
    rfl
  have hf : Spec.findTable sdbA1 tname = some ⟨tname, schemaA, [⟨none, [.int 5]⟩, ⟨none, [.int 6]⟩]⟩ := rfl
  rw [specUpdate_eq, hf, Option.bind_some, if_neg (by decide), if_neg (by decide), hsel]
  rfl

theorem selA3 : Spec.selects ⟨tname, schemaA, [⟨none, [.int 7]⟩, ⟨none, [.int 6]⟩]⟩ (some (condEq 6)) =
    some [false, true] := by
  simp only [Spec.selects, fieldsA]
  rfl

/-- `DELETE FROM t WHERE a = 6` in the spec -/
theorem specA3 : Spec.specDelete sdbA2 tname (some (condEq 6)) = some sdbA3 := by
  have hf : Spec.findTable sdbA2 tname = some ⟨tname, schemaA, [⟨none, [.int 7]⟩, ⟨none, [.int 6]⟩]⟩ := rfl
  unfold Spec.specDelete
  rw [hf]
  simp only [Option.bind_eq_bind, Option.bind_some, selA3]
  rfl

/-- the tree of `t` after the first insert -/
def tA1 : Levels := ⟨[(⟨12288, 7, false, false, 0, 0, [⟨5, false, [0, 5, 0, 0, 0]⟩]⟩, true)], []⟩
/-- … and after the second -/
def tA2 : Levels :=
  ⟨[(⟨12288, 8, false, false, 0, 0, [⟨5, false, [0, 5, 0, 0, 0]⟩, ⟨6, false, [0, 6, 0, 0, 0]⟩]⟩, true)], []⟩

/-- the side conditions of the INSERT hold on the concrete store -/
theorem runA : InsRunOK schemaA ([].map Engine.bytesToName) t0 4 7 16384 [[.int 5], [.int 6]] := by
  intro buf t' nf' he hi
  have e1 : encodeTuple schemaA ((colsOf schemaA ([].map Engine.bytesToName)).zip [Val.int 5]).reverse =
      .ok [0, 5, 0, 0, 0] := rfl
  rw [e1] at he
  cases he
  have i1 : insertAppend t0 (4 + 1) 7 [0, 5, 0, 0, 0] 16384 = .ok (tA1, 16384) := rfl
  rw [i1] at hi
  cases hi
  refine ⟨by decide, by decide, by decide, ?_⟩
  show InsRunOK schemaA ([].map Engine.bytesToName) tA1 5 8 16384 [[.int 6]]
  intro buf t' nf' he hi
  have e2 : encodeTuple schemaA ((colsOf schemaA ([].map Engine.bytesToName)).zip [Val.int 6]).reverse =
      .ok [0, 6, 0, 0, 0] := rfl
  rw [e2] at he
  cases he
  have i2 : insertAppend tA1 (5 + 1) 8 [0, 6, 0, 0, 0] 16384 = .ok (tA2, 16384) := rfl
  rw [i2] at hi
  cases hi
  exact ⟨by decide, by decide, by decide, trivial⟩

/-- **Non-vacuity, end to end.**  On the concrete store (`abs1`), the three statements
`INSERT INTO t VALUES (5), (6)`, `UPDATE t SET a = 7 WHERE a = 5`, `DELETE FROM t WHERE a = 6` run in
the model as the theorems say: each succeeds (2 rows inserted, 1 row deleted), and the final store
abstracts - up to row ids - to what the spec computes, the table holding the single row `(7)`. -/
theorem chain_example :
    ∃ db1 db2 db3 pt3 tbls3,
      Engine.evalInsert dbA tname [] [[.int 5], [.int 6]] = .ok 2 db1 ∧
      Engine.evalUpdate db1 tname [([97], .lit (.int 7))] (some (condEq 5)) = .ok () db2 ∧
      Engine.evalDelete db2 tname (some (condEq 6)) = .ok 1 db3 ∧
      AbsV db3.store pt3 sch1 tbls3 sdbA3 ∧ db3.store.hdr.lastKey = 6 := by
  obtain ⟨db1, pt1, t1', logs1, e1, _, _, habs1, hlk1⟩ := evalInsert_refines_specV dbA pt0 sch1 [(tname, t0)]
    sdbA0 sdbA1 abs1.toV tname t0 (List.mem_singleton.mpr rfl) schemaA sch1_t [] [[.int 5], [.int 6]]
    (by
      intro r hr v hv
      simp only [List.mem_cons, List.not_mem_nil, or_false] at hr
      rcases hr with rfl | rfl
      · simp only [List.mem_singleton] at hv; subst hv; exact ⟨by decide, by decide⟩
      · simp only [List.mem_singleton] at hv; subst hv; exact ⟨by decide, by decide⟩)
    specA1 runA
  obtain ⟨db2, t2', logs2, e2, _, habs2, hlk2⟩ := evalUpdate_refines_specV db1 pt1 sch1 _ sdbA1 sdbA2 habs1 tname
    [([97], .lit (.int 7))] (some (condEq 5))
    (by
      intro p hp l hl
      simp only [List.mem_singleton] at hp
      subst hp
      simp only [Sql.VExpr.lit.injEq] at hl
      subst hl
      exact ⟨by decide, by decide⟩)
    (by
      intro p hp
      simp only [List.mem_singleton] at hp
      subst hp
      rw [nameStr_a]
      exact a_bytes)
    specA2
  obtain ⟨n, db3, t3', logs3, e3, _, _, habs3, hlk3, hn⟩ := evalDelete_refines_specV db2 pt1 sch1 _ sdbA2 sdbA3 habs2
    tname (some (condEq 6)) specA3
  have hn1 : n = 1 := hn _ _ (rfl : Spec.findTable sdbA2 tname = some _) selA3
  subst hn1
  exact ⟨db1, db2, db3, pt1, _, e1, e2, e3, habs3, by rw [hlk3, hlk2, hlk1]; rfl⟩

/-- **Non-vacuity of the refusal.**  `INSERT INTO t VALUES (5, 6)` (two values for one column) is
refused by the spec and by the model; nothing changes. -/
theorem refused_example :
    Spec.specInsert sdbA0 tname [] [[.int 5, .int 6]] = none ∧
    ∃ e db', Engine.evalInsert dbA tname [] [[.int 5, .int 6]] = .err (.store e) db' ∧
      db'.wal = dbA.wal ∧ Abs db'.store pt0 sch1 [(tname, t0)] sdbA0 := by
  obtain ⟨h1, e, db', he, _, hw, habs⟩ := evalInsert_refused_spec dbA pt0 sch1 [(tname, t0)] sdbA0 abs1 tname []
    [.int 5, .int 6] [] (.inr ⟨⟨tname, schemaA, []⟩, rfl, .inl rfl⟩)
  exact ⟨h1, e, db', he, hw, habs⟩

/-- **Non-vacuity of the refusal of an unknown column.**  `INSERT INTO t (b) VALUES (1)` - the table
`t (a INT)` has no column `b` - is refused by the spec and by the model (`fieldNotFound`); pages, header
and log are as before and the store abstracts to the same spec database.  (Before the repair the row
`(NULL)` went in and the value `1` was dropped in silence.) -/
theorem unknown_column_example :
    Spec.specInsert sdbA0 tname [[98]] [[.int 1]] = none ∧
    ∃ db', Engine.evalInsert dbA tname [[98]] [[.int 1]] = .err (.store .fieldNotFound) db' ∧
      db'.wal = dbA.wal ∧ Same dbA.store db'.store ∧ Abs db'.store pt0 sch1 [(tname, t0)] sdbA0 := by
  have hcc : checkColumns schemaA (colsOf schemaA ([[98]].map Engine.bytesToName)) = some .fieldNotFound := by
    decide
  obtain ⟨s', he, hs', hc'⟩ := insert_names_refused_cat cat1 tname t0 (List.mem_singleton.mpr rfl) schemaA sch1_t
    ([[98]].map Engine.bytesToName) [.int 1] .fieldNotFound (by decide) hcc
  refine ⟨?_, { dbA with store := s' }, ?_, rfl, hs', ⟨hc', abs1.tabs⟩⟩
  · exact specInsert_none_of_bad_names sdbA0 tname [[98]] [.int 1] [] ⟨tname, schemaA, []⟩ rfl (by decide)
  · exact evalInsert_go_err dbA tname [[98]] [.int 1] [] dbA.store s' [] 0 _ he

end Mkdb.Store
