import Mkdb.Proofs.BSearch
import Mkdb.Spec.TreeInv
/-!
The shape invariant `Inv` gives the sortedness hypothesis of the binary-search theorem on every page:
leaf keys from `KeysAsc`; separators of every internal node from `SepsOK` (they are a sublist of the
lowest keys of the level below, which bottom-up are sublists of the leaf keys) with `LeavesNonempty`.
Hence `BSearch.search` on every page of a well-formed tree is `Store.findPos`.
-/
namespace Mkdb.Tree
open Mkdb.Page Mkdb.Generated

/-- the keys of a page in slot order (`Store.keysOfLeaf` / `Store.keysOfInternal`) -/
def nodeKeys : Node → List Nat
  | .leaf l => Mkdb.Store.keysOfLeaf l
  | .internal n => Mkdb.Store.keysOfInternal n

theorem keys_eq_flatMap (t : Levels) : keys t = t.leaves.flatMap fun p => p.1.cells.map (·.key) := by
  simp [keys, cells, List.map_flatMap]

theorem leaf_keys_sorted_of_asc (t : Levels) (h : KeysAsc t) :
    ∀ l ∈ t.leaves, (l.1.cells.map (·.key)).Pairwise (· < ·) := by
  unfold KeysAsc at h
  rw [keys_eq_flatMap, List.pairwise_flatMap] at h
  exact h.1

theorem sepsOK_sorted : ∀ (lvl : List (Internal × Bool)) (los : List Nat), los.Pairwise (· < ·) → sepsOK los lvl →
    (∀ p ∈ lvl, (p.1.cells.map (·.key)).Pairwise (· < ·)) ∧ (levelLos los lvl).Sublist los := by
  intro lvl
  induction lvl with
  | nil => intro los _ _; exact ⟨fun p hp => (by cases hp), List.nil_sublist _⟩
  | cons p rest ih =>
    intro los hlos h
    obtain ⟨hlen, hk, hrest⟩ := h
    have hd : (los.drop (p.1.cells.length + 1)).Pairwise (· < ·) := hlos.sublist (List.drop_sublist _ _)
    obtain ⟨ih1, ih2⟩ := ih _ hd hrest
    refine ⟨?_, ?_⟩
    · intro q hq
      rcases List.mem_cons.mp hq with rfl | hq
      · rw [← hk]
        exact hlos.sublist ((List.tail_sublist _).trans (List.take_sublist _ _))
      · exact ih1 q hq
    · cases los with
      | nil => simp at hlen
      | cons a tl =>
        simp only [levelLos, List.headD_cons]
        simp only [List.drop_succ_cons] at ih2
        exact List.Sublist.cons_cons a (ih2.trans (List.drop_sublist _ _))

theorem sepsAll_sorted : ∀ (inner : List (List (Internal × Bool))) (los : List Nat), los.Pairwise (· < ·) →
    sepsAll los inner → ∀ lvl ∈ inner, ∀ p ∈ lvl, (p.1.cells.map (·.key)).Pairwise (· < ·) := by
  intro inner
  induction inner with
  | nil => intro los _ _ lvl hl; cases hl
  | cons lvl rest ih =>
    intro los hlos h
    obtain ⟨h1, h2⟩ := h
    obtain ⟨hs, hsub⟩ := sepsOK_sorted lvl los hlos h1
    intro lvl' hl'
    rcases List.mem_cons.mp hl' with rfl | hl'
    · exact hs
    · exact ih _ (hlos.sublist hsub) h2 lvl' hl'

theorem los_sublist_keys : ∀ (L : List (Leaf × Bool)), (∀ p ∈ L, p.1.cells ≠ []) →
    (L.map fun p => (p.1.cells.head?.map (·.key)).getD 0).Sublist (L.flatMap fun p => p.1.cells.map (·.key)) := by
  intro L
  induction L with
  | nil => intro _; simp
  | cons a rest ih =>
    intro h
    have ha := h a (by simp)
    have ih' := ih (fun p hp => h p (by simp [hp]))
    cases hc : a.1.cells with
    | nil => exact absurd hc ha
    | cons c cs =>
      simp only [List.map_cons, List.flatMap_cons, hc, List.head?_cons, Option.map_some, Option.getD_some,
        List.cons_append]
      exact List.Sublist.cons_cons _ (ih'.trans (List.sublist_append_right _ _))

theorem los_sorted (t : Levels) (hasc : KeysAsc t) (hne : LeavesNonempty t) :
    (t.leaves.map fun p => (p.1.cells.head?.map (·.key)).getD 0).Pairwise (· < ·) := by
  by_cases h2 : 2 ≤ t.leaves.length
  · have := los_sublist_keys t.leaves (hne h2)
    unfold KeysAsc at hasc
    rw [keys_eq_flatMap] at hasc
    exact hasc.sublist this
  · match hl : t.leaves with
    | [] => simp
    | [a] => simp
    | a :: b :: r => rw [hl] at h2; simp at h2

/-- (1a) every leaf of a well-formed tree has strictly ascending keys -/
theorem inv_leaf_sorted (t : Levels) (nf : Nat) (h : Inv t nf) :
    ∀ l ∈ t.leaves, (l.1.cells.map (·.key)).Pairwise (· < ·) := leaf_keys_sorted_of_asc t h.asc

/-- (1b) every internal node of every inner level of a well-formed tree has strictly ascending separators -/
theorem inv_internal_sorted (t : Levels) (nf : Nat) (h : Inv t nf) :
    ∀ lvl ∈ t.inner, ∀ n ∈ lvl, (n.1.cells.map (·.key)).Pairwise (· < ·) :=
  sepsAll_sorted t.inner _ (los_sorted t h.asc h.ne) h.seps

/-- every page of the flattened heap of a well-formed tree has strictly ascending keys -/
theorem inv_page_sorted (t : Levels) (nf : Nat) (h : Inv t nf) :
    ∀ e ∈ flatten t, (nodeKeys e.2.1).Pairwise (· < ·) := by
  intro e he
  simp only [flatten, List.mem_append, List.mem_map, List.mem_flatMap] at he
  rcases he with ⟨p, hp, rfl⟩ | ⟨lvl, hl, p, hp, rfl⟩
  · exact inv_leaf_sorted t nf h p hp
  · exact inv_internal_sorted t nf h lvl hl p hp

end Mkdb.Tree

namespace Mkdb.BSearch

theorem search_eq_findPos (keys : List Nat) (k : Nat) (hs : keys.Pairwise (· < ·)) :
    search keys k = .ret (Mkdb.Store.findPos keys k).1 (Mkdb.Store.findPos keys k).2 := by
  rw [← spec_eq_findPos]
  exact loop_spec keys k hs _ 0 _ rfl (by omega) (by omega) (by omega)
    (fun i _ h => by omega) (fun i hi h => by omega)

theorem search_hit_iff_mem (keys : List Nat) (k : Nat) (hs : keys.Pairwise (· < ·)) :
    (∃ p, search keys k = .ret p true) ↔ k ∈ keys := by
  rw [search_eq_findPos keys k hs]
  constructor
  · rintro ⟨p, h⟩
    injection h with _ hf
    have : keys[(Mkdb.Store.findPos keys k).1]? = some k := by
      simpa [Mkdb.Store.findPos] using hf
    exact List.mem_of_getElem? this
  · intro hk
    obtain ⟨j, hj, rfl⟩ := List.getElem_of_mem hk
    have hsorted := List.pairwise_iff_getElem.mp hs
    have hsp : spec keys keys[j] = (j, keys[j]? == some keys[j]) :=
      spec_of_bounds keys _ j (by omega) (fun i hi hij => hsorted i j hi hj hij) (fun _ => by omega)
    rw [← spec_eq_findPos, hsp]
    exact ⟨j, by simp [List.getElem?_eq_getElem hj]⟩

/-- the package on a sorted slot array: the loop is `findPos`, a hit iff the key is there, no panic -/
theorem search_sorted_package (keys : List Nat) (k : Nat) (hs : keys.Pairwise (· < ·)) :
    search keys k = .ret (Mkdb.Store.findPos keys k).1 (Mkdb.Store.findPos keys k).2 ∧
    ((∃ p, search keys k = .ret p true) ↔ k ∈ keys) ∧ search keys k ≠ .panic := by
  refine ⟨search_eq_findPos keys k hs, search_hit_iff_mem keys k hs, ?_⟩
  rw [search_eq_findPos keys k hs]
  intro h; cases h

end Mkdb.BSearch

namespace Mkdb.Tree
open Mkdb.Page Mkdb.BSearch

/-- (2) on every page of a well-formed tree and for every key, the loop is `findPos`, hits exactly the
stored keys and does not panic -/
theorem inv_every_page_searched (t : Levels) (nf : Nat) (h : Inv t nf) (k : Nat) :
    (∀ l ∈ t.leaves,
      search (Mkdb.Store.keysOfLeaf l.1) k =
        .ret (Mkdb.Store.findPos (Mkdb.Store.keysOfLeaf l.1) k).1 (Mkdb.Store.findPos (Mkdb.Store.keysOfLeaf l.1) k).2 ∧
      ((∃ p, search (Mkdb.Store.keysOfLeaf l.1) k = .ret p true) ↔ k ∈ Mkdb.Store.keysOfLeaf l.1) ∧
      search (Mkdb.Store.keysOfLeaf l.1) k ≠ .panic) ∧
    (∀ lvl ∈ t.inner, ∀ n ∈ lvl,
      search (Mkdb.Store.keysOfInternal n.1) k =
        .ret (Mkdb.Store.findPos (Mkdb.Store.keysOfInternal n.1) k).1 (Mkdb.Store.findPos (Mkdb.Store.keysOfInternal n.1) k).2 ∧
      ((∃ p, search (Mkdb.Store.keysOfInternal n.1) k = .ret p true) ↔ k ∈ Mkdb.Store.keysOfInternal n.1) ∧
      search (Mkdb.Store.keysOfInternal n.1) k ≠ .panic) :=
  ⟨fun l hl => search_sorted_package _ k (inv_leaf_sorted t nf h l hl),
   fun lvl hlvl n hn => search_sorted_package _ k (inv_internal_sorted t nf h lvl hlvl n hn)⟩

/-- (3) the same for every page object `(off, node, dirty)` of the flattened heap -/
theorem inv_every_flat_page_searched (t : Levels) (nf : Nat) (h : Inv t nf) (k : Nat) :
    ∀ e ∈ flatten t,
      search (nodeKeys e.2.1) k = .ret (Mkdb.Store.findPos (nodeKeys e.2.1) k).1 (Mkdb.Store.findPos (nodeKeys e.2.1) k).2 ∧
      ((∃ p, search (nodeKeys e.2.1) k = .ret p true) ↔ k ∈ nodeKeys e.2.1) ∧
      search (nodeKeys e.2.1) k ≠ .panic :=
  fun e he => search_sorted_package _ k (inv_page_sorted t nf h e he)

end Mkdb.Tree
