import Mkdb.Proofs.SpecRefine5
/-!
End-to-end refinement, part 6: UPDATE, the statement.

* `update_rows_agree`: along the live cells of the table, the rows the spec's `specUpdate` computes are
  the rows `RelationService.Fetch` builds from the rewritten cells; every selected cell can be
  rewritten (decodes, the overridden tuple encodes and fits).
* `evalUpdate_refines_spec`: the whole statement.
-/
set_option autoImplicit false
namespace Mkdb.Store
open Mkdb.Page Mkdb.Tuple Mkdb.Generated Mkdb.Tree

theorem rowsOf_cons_dec (schema : List FieldDef) (c : LeafCell) (rest : List LeafCell) (m : Vals)
    (h : decodeTuple schema c.val [] = .ok m) :
    rowsOf schema (c :: rest) = (c.key, schema.map fun fd => get m fd.name) :: rowsOf schema rest := by
  simp only [rowsOf, List.filterMap_cons, rowOf, decRow_of_decode h, Option.map_some]

/-- a cell and its flag, seen through the fetched rows -/
theorem zip_rowsOf_mem (schema : List FieldDef) : ∀ (cs : List LeafCell) (sel : List Bool),
    (∀ c ∈ cs, ∃ m, decodeTuple schema c.val [] = .ok m) →
    ∀ p ∈ cs.zip sel, ∃ q ∈ (rowsOf schema cs).zip sel, q.1.1 = p.1.key ∧ q.2 = p.2
  | [], _, _, p, hp => by simp at hp
  | _ :: _, [], _, p, hp => by simp at hp
  | c :: cs, b :: sel, hdec, p, hp => by
    obtain ⟨m, hm⟩ := hdec c List.mem_cons_self
    rw [rowsOf_cons_dec schema c cs m hm, List.zip_cons_cons]
    rw [List.zip_cons_cons, List.mem_cons] at hp
    rcases hp with rfl | hp
    · exact ⟨_, List.mem_cons_self, rfl, rfl⟩
    · obtain ⟨q, hq, h1, h2⟩ := zip_rowsOf_mem schema cs sel
        (fun c' hc' => hdec c' (List.mem_cons_of_mem _ hc')) p hp
      exact ⟨q, List.mem_cons_of_mem _ hq, h1, h2⟩

/-- **The rows after an UPDATE.**  `K` are the selected row ids.  If the spec's per-row `mapM`
succeeds with `rows'`, then every selected cell can be rewritten by the model, the rewritten cells
decode, and the rows built from them are `rows'`. -/
theorem update_rows_agree (schema : List FieldDef) (sets : List (Bytes × Sql.VExpr))
    (hvalid : ∀ p ∈ setMap sets, ValidVal p.2) (K : List Nat) :
    ∀ (cs : List LeafCell) (sel : List Bool) (rows' : List Spec.SRow),
      (∀ c ∈ cs, ∃ m, decodeTuple schema c.val [] = .ok m) → sel.length = cs.length →
      (∀ p ∈ cs.zip sel, (p.1.key ∈ K ↔ p.2 = true)) →
      (((rowsOf schema cs).map mkRow).zip sel).mapM (specUpdRow schema sets) = some rows' →
      (∀ c ∈ cs, c.key ∈ K → ∃ m buf, decodeTuple schema c.val [] = .ok m ∧
        encodeTuple schema (setMap sets ++ m) = .ok buf ∧ buf.length ≤ c_maxValueSize) ∧
      (∀ c ∈ cs.map (updK schema sets K), ∃ m, decodeTuple schema c.val [] = .ok m) ∧
      (rowsOf schema (cs.map (updK schema sets K))).map mkRow = rows'
  | [], sel, rows', _, _, _, h => by
    simp only [rowsOf, List.filterMap_nil, List.map_nil, List.zip_nil_left] at h
    rw [mapM_nil_some] at h
    subst h
    refine ⟨?_, ?_, rfl⟩
    · intro c hc; cases hc
    · intro c hc; cases hc
  | c :: cs, [], rows', _, hl, _, _ => by simp at hl
  | c :: cs, b :: sel, rows', hdec, hl, hK, h => by
    obtain ⟨m, hm⟩ := hdec c List.mem_cons_self
    rw [rowsOf_cons_dec schema c cs m hm, List.map_cons, List.zip_cons_cons, mapM_cons_some] at h
    obtain ⟨r', rs', hr', hrs', rfl⟩ := h
    obtain ⟨ih1, ih2, ih3⟩ := update_rows_agree schema sets hvalid K cs sel rs'
      (fun c' hc' => hdec c' (List.mem_cons_of_mem _ hc')) (by simpa using hl)
      (fun p hp => hK p (by rw [List.zip_cons_cons]; exact List.mem_cons_of_mem _ hp)) hrs'
    have hcK := hK (c, b) (by simp)
    simp only at hcK
    cases b
    · -- not selected
      have hnk : c.key ∉ K := by
        intro hk
        have := hcK.mp hk
        cases this
      have hupd : updK schema sets K c = c := by
        unfold updK
        have : K.contains c.key = false := by simpa using hnk
        simp only [this, Bool.false_eq_true, if_false]
      simp only [specUpdRow, Bool.false_eq_true, if_false, Option.some.injEq] at hr'
      subst hr'
      refine ⟨?_, ?_, ?_⟩
      · intro c' hc' hk'
        rcases List.mem_cons.mp hc' with rfl | hc'
        · exact absurd hk' hnk
        · exact ih1 c' hc' hk'
      · intro c' hc'
        rw [List.map_cons, hupd] at hc'
        rcases List.mem_cons.mp hc' with rfl | hc'
        · exact ⟨m, hm⟩
        · exact ih2 c' hc'
      · rw [List.map_cons, hupd, rowsOf_cons_dec schema c _ m hm, List.map_cons, ih3]
    · -- selected
      have hk : c.key ∈ K := hcK.mpr rfl
      simp only [specUpdRow, if_true, mkRow] at hr'
      obtain ⟨v, hv, hr'⟩ := Option.map_eq_some_iff.mp hr'
      subst hr'
      obtain ⟨buf, henc, hsz, rfl⟩ := (specAssign_some_iff schema sets m v).mp hv
      have hupd : updK schema sets K c = { c with val := buf } := by
        unfold updK
        have : K.contains c.key = true := by simpa using hk
        simp only [this, if_true]
        unfold updCell
        simp only [hm, henc]
      have hmv : ∀ p ∈ setMap sets ++ m, ValidVal p.2 := by
        intro p hp
        rcases List.mem_append.mp hp with hp | hp
        · exact hvalid p hp
        · exact decodeTuple_valid schema c.val [] m (fun _ hq => by cases hq) hm p hp
      obtain ⟨hdnew, hrnew⟩ := rowOf_new schema (setMap sets ++ m)
        (fun fd _ => get_valid _ hmv fd.name) buf henc c.key c.deleted
      refine ⟨?_, ?_, ?_⟩
      · intro c' hc' hk'
        rcases List.mem_cons.mp hc' with rfl | hc'
        · exact ⟨m, buf, hm, henc, hsz⟩
        · exact ih1 c' hc' hk'
      · intro c' hc'
        rw [List.map_cons, hupd] at hc'
        rcases List.mem_cons.mp hc' with rfl | hc'
        · exact hdnew
        · exact ih2 c' hc'
      · rw [List.map_cons, hupd]
        have : rowsOf schema ({ c with val := buf } :: cs.map (updK schema sets K)) =
            (c.key, schema.map fun fd => get (setMap sets ++ m) fd.name) ::
              rowsOf schema (cs.map (updK schema sets K)) := by
          simp only [rowsOf, List.filterMap_cons, hrnew]
        rw [this, List.map_cons, ih3]
        rfl

theorem setMap_valid (sets : List (Bytes × Sql.VExpr))
    (hvalid : ∀ p ∈ sets, ∀ l, p.2 = .lit l → ValidVal (Engine.litToVal l)) :
    ∀ p ∈ setMap sets, ValidVal p.2 := by
  intro p hp
  unfold setMap at hp
  rw [List.mem_reverse] at hp
  have := (List.of_mem_zip (a := p.1) (b := p.2) hp).2
  obtain ⟨q, hq, hqe⟩ := List.mem_map.mp this
  rw [← hqe]
  cases hq2 : q.2 with
  | lit l => exact hvalid q hq l hq2
  | col c => trivial

/-- **UPDATE refines the spec.**  If the store abstracts to `sdb`, the spec accepts the statement
(`specUpdate … = some sdb'`: the table is known, no `SET col = col`, the SET columns are columns of
the table, each set once, the condition evaluates on every row, every selected row can be rewritten),
the SET literals are values a Go program can hold, and the SET column names are valid UTF-8 (`hutf`:
the statement's check compares the names as byte strings, the plain model as decoded strings), then
the model's `evalUpdate` succeeds, appends one record per updated row to the log, and the store
afterwards abstracts to `sdb'` exactly (row ids included). -/
theorem evalUpdate_refines_spec (db : Engine.DB) (pt sch : Levels) (tbls : List (Bytes × Levels))
    (sdb sdb' : Spec.SDB) (h : Abs db.store pt sch tbls sdb) (table : Bytes)
    (sets : List (Bytes × Sql.VExpr)) (w : Option Sql.Cond)
    (hvalid : ∀ p ∈ sets, ∀ l, p.2 = .lit l → ValidVal (Engine.litToVal l))
    (hutf : ∀ p ∈ sets, (Spec.nameStr p.1).toUTF8.toList = p.1)
    (hspec : Spec.specUpdate sdb table sets w = some sdb') :
    ∃ db' t' logs,
      Engine.evalUpdate db table sets w = .ok () db' ∧ db'.wal = db.wal ++ logs ∧
      Abs db'.store pt sch (setTable tbls table t') sdb' ∧
      db'.store.hdr.lastKey = db.store.hdr.lastKey := by
  rw [specUpdate_eq] at hspec
  cases hfind : Spec.findTable sdb table with
  | none => rw [hfind] at hspec; cases hspec
  | some st =>
    rw [hfind] at hspec
    simp only [Option.bind_some] at hspec
    split at hspec
    · cases hspec
    · rename_i hany
      have hnocol : ∀ p ∈ sets, ∀ c, p.2 ≠ .col c := by
        intro p hp c hpc
        apply hany
        rw [List.any_eq_true]
        exact ⟨p, hp, by simp only [hpc]⟩
      split at hspec
      · cases hspec
      rename_i hnamesB
      have hnamesOK : Spec.namesOK st (sets.map fun p => Spec.nameStr p.1) = true := by
        simpa using hnamesB
      cases hsel : Spec.selects st w with
      | none => rw [hsel] at hspec; cases hspec
      | some sel =>
        rw [hsel] at hspec
        simp only [Option.bind_some] at hspec
        cases hrows : (st.rows.zip sel).mapM (specUpdRow st.cols sets) with
        | none => rw [hrows] at hspec; cases hspec
        | some rows' =>
          rw [hrows] at hspec
          simp only [Option.bind_some, Option.some.injEq] at hspec
          obtain ⟨t, ht⟩ := h.tabs.find_some hfind
          obtain ⟨schema, hsch, hdec, hf⟩ := h.tabs.find h.cat.tnames ht
          rw [hfind] at hf
          simp only [Option.some.injEq] at hf
          subst hf
          -- the SET columns
          have hset : Engine.checkSetColumns (schema.map fun fd => (⟨[], fd.name.toUTF8.toList⟩ : Exec.Field)) []
              (sets.map (·.1)) = none := by
            have hutf' : ∀ c ∈ sets.map (·.1), (Spec.nameStr c).toUTF8.toList = c := by
              intro c hc
              obtain ⟨p, hp, rfl⟩ := List.mem_map.mp hc
              exact hutf p hp
            have hn' : Spec.namesOK (absTable table schema t) ((sets.map (·.1)).map Spec.nameStr) = true := by
              rw [List.map_map]; exact hnamesOK
            exact checkSetColumns_of_namesOK (absTable table schema t) (sets.map (·.1))
              (h.tabs.names_nodup ht hsch) hutf' hn'
          have hcc : checkColumns schema (sets.map fun p => Engine.bytesToName p.1) = none := by
            have := checkSetColumns_none_checkColumns schema _ hset
            rwa [List.map_map] at this
          -- the fetch and the filter
          obtain ⟨s1, efetch, hs1, hc1⟩ := fetchTable_cat h.cat table t ht schema hsch hdec
          obtain ⟨efilter, hsl⟩ := filterIds_selects table schema (rowsOf schema (live t)) w sel hsel
          obtain ⟨_, hIt, _, _, _⟩ := h.cat.tree t (Cat.tb_mem ht)
          have hnd : ((rowsOf schema (live t)).map (·.1)).Nodup := by
            rw [rowsOf_keys schema (live t) hdec]
            exact live_keys_nodup hIt.asc
          have hnd' : ((selRows (rowsOf schema (live t)) sel).map (·.1)).Nodup :=
            hnd.sublist ((selRows_sublist _ sel).map _)
          have hlen : sel.length = (live t).length := by
            rw [hsl, ← List.length_map (f := fun r : Nat × List Val => r.1), rowsOf_keys schema (live t) hdec,
              List.length_map]
          have hKp : ∀ p ∈ (live t).zip sel,
              (p.1.key ∈ (selRows (rowsOf schema (live t)) sel).map (·.1) ↔ p.2 = true) := by
            intro p hp
            obtain ⟨q, hq, h1, h2⟩ := zip_rowsOf_mem schema (live t) sel hdec p hp
            rw [← h1, ← h2]
            exact selRows_mem_iff _ sel hnd q hq
          obtain ⟨hcan, hdec', hrows'⟩ := update_rows_agree schema sets (setMap_valid sets hvalid)
            ((selRows (rowsOf schema (live t)) sel).map (·.1)) (live t) sel rows' hdec hlen hKp hrows
          obtain ⟨s', t', logs, ego, hc', hl', _, hlk', _⟩ := evalUpdate_go_spec db table pt sch schema hsch sets hcc
            (selRows (rowsOf schema (live t)) sel) s1 tbls t [] hc1 ht hnd'
            (fun r hr => by
              obtain ⟨c, hc, hck⟩ := mem_rowsOf ((selRows_sublist _ sel).subset hr)
              exact ⟨c, hc, hck, hcan c hc (hck ▸ List.mem_map.mpr ⟨r, hr, rfl⟩)⟩)
          refine ⟨{ store := s', wal := db.wal ++ ([] ++ logs) }, t', logs, ?_, by simp, ⟨hc', ?_⟩,
            by rw [hlk', hs1.2]⟩
          · unfold Engine.evalUpdate
            split
            · rename_i hanyE
              exfalso
              rw [List.any_eq_true] at hanyE
              obtain ⟨p, hp, hpe⟩ := hanyE
              cases hp2 : p.2 with
              | lit l => rw [hp2] at hpe; cases hpe
              | col c => exact hnocol p hp c hp2
            · simp only [Engine.fetchForExec, Engine.liftS, efetch, hset, efilter]
              exact ego
          · rw [← hspec]
            rw [← hl'] at hdec' hrows'
            exact h.tabs.setTable h.cat.tnames ht schema hsch t' hdec' (fun _ => rows')
              (by simp only [absTable]; exact hrows')

end Mkdb.Store
