import Mkdb.Proofs.SessionInv4
/-!
Session invariant, part 5: **CREATE TABLE keeps the invariant of a database**, and
**`evalStmt_keeps_inv`: so does every statement, whatever its outcome.**

* `createTable_body_grows`: the body of an accepted CREATE TABLE, with the page-level relation between
  the old and the new catalog trees (`CatGrows`).
* `DbInv.createTable_ok`: an accepted CREATE TABLE (name fresh, per-column checks and catalog-row checks
  passed, room) succeeds, writes no log record, and leaves a CLOSED database (`DbFlushed`: CREATE TABLE
  ends with a flush) for the plain database with the new empty table appended.
* `DbInv.same`: a refusal that changed nothing visible keeps the invariant.
* `StmtLits`, `KeepsInv`, **`evalStmt_keeps_inv`**.
-/
set_option autoImplicit false
namespace Mkdb.Store
open Mkdb.Page Mkdb.Tuple Mkdb.Generated Mkdb.Tree Mkdb.Engine

/-- the body of an accepted CREATE TABLE: the catalog it leaves, and how its trees grew -/
theorem createTable_body_grows {s : Store} {pt sch : Levels} {tbls : List (Bytes × Levels)} (h : Cat s pt sch tbls)
    (fields : List FieldDef) (name : Bytes) (order : List Nat)
    (hn1 : name ≠ sysPages) (hn2 : name ≠ sysSchema) (hn3 : name ∉ tbls.map (·.1))
    (hfld : checkFieldsFrom [] fields = none)
    (hchk : checkCatalogRows fields name = none)
    (hpd : pt.inner.length + 3 ≤ treeFuel) (hpl : pt.leaves.length + 1 ≤ scanFuel)
    (hsd : sch.inner.length + fields.length + 2 ≤ treeFuel) (hsl : sch.leaves.length + fields.length ≤ scanFuel)
    (hbig : s.hdr.nextFree + 262144 * fields.length + 262144 ≤ 9223372036854775807)
    (B : Nat) (hB : B ≤ s.hdr.nextLSN) :
    ∃ sN ptM schM, createTable fields name order false s = .ok () sN ∧
      Cat sN ptM schM (tbls ++ [(name, emptyTree s.hdr.nextFree)]) ∧ CatGrows B pt sch ptM schM := by
  obtain ⟨hname, hrows⟩ := schemaRows_ok hfld hchk
  obtain ⟨s1, e1, hs1, hc1⟩ := relationOffset_cat_unknown h name hn1 hn2 hn3
  obtain ⟨s2, pt1, nf1, e2, hins, hc2, _, _, lsn2, hnf2⟩ :=
    createHead_cat hc1 name hn1 hn2 hn3 hname hpd hpl (by rw [hs1.2]; omega)
  obtain ⟨_, hIpt, _, _, _⟩ := hc1.tree pt Cat.pt_mem
  have hIpt' : Inv pt (s1.hdr.nextFree + c_pageSize) := Inv_mono pt _ _ hIpt (Nat.le_add_right _ _)
  have hg1 : CatGrows B pt sch pt1 sch := by
    refine ⟨fun page lsn hl hp => hp.ins (by rw [hs1.2]; omega) hIpt' hins, fun _ _ _ hp => hp, ?_, fun _ he => .inl he⟩
    intro e he
    rcases insertAppend_pages_new pt pt1 _ _ _ nf1 _ hins e he with h1 | h1
    · exact .inl h1
    · exact .inr h1.2
  rw [hs1.2] at hc2
  obtain ⟨g1, g2, g3⟩ := insertAppend_growth hins
  have hnf1 : nf1 ≤ s.hdr.nextFree + 262144 := by
    have h64 := treeFuel_eq
    rw [hs1.2, pageSize_eq, Nat.mul_add, ← Nat.add_assoc] at g3
    omega
  obtain ⟨s3, e3, hs3⟩ := relationOffset_entry hc2 sysSchema (rootOff sch) hc2.esch
  have hc3 := hc2.of_same hs3
  obtain ⟨hHs3, hIs3, _, _, _⟩ := hc3.tree sch Cat.sch_mem
  obtain ⟨n, d, hvn, hon⟩ := root_held s3 sch _ hHs3 hIs3
  obtain ⟨s4, e4, v4, _, _⟩ := fetch_spec s3 (rootOff sch) n d hvn hon
  have hs4 : Same s3 s4 := ⟨v4, fetch_hdr e4⟩
  have hc4 := hc3.of_same hs4
  have hh4 : s4.hdr = s2.hdr := hs4.2.trans hs3.2
  obtain ⟨s', pt', sch', e5, hc5, hg5⟩ :=
    insertSchemaRows_grows name B fields hc4 hrows hsd hsl (by rw [hh4, hnf2]; omega)
      (by rw [hh4, lsn2, hs1.2]; omega)
  refine ⟨s', pt', sch', ?_, hc5, hg1.trans hg5⟩
  rw [createTable_body_eq fields name order false s s1 e1 hfld hchk, bind_assoc_ok e2, bind_ok e3,
    bind_ok e4, bind_ok e5]
  rfl

/-- a record applied for the old catalog trees is applied for the grown ones, with more tables -/
theorem AppliedC.grows {B : Nat} {pt sch pt' sch' : Levels} {tbls extra : List (Bytes × Levels)} {r : WalRec}
    (ha : AppliedC pt sch tbls r) (hl : r.lsn < B) (hg : CatGrows B pt sch pt' sch') :
    AppliedC pt' sch' (tbls ++ extra) r := by
  rcases ha with ⟨x, hx, hpl⟩ | ⟨hop, tb, tr, hm, hpg, hkey⟩
  · left
    rcases mem_catTrees.mp hx with rfl | rfl | ⟨e, he, rfl⟩
    · exact ⟨pt', Cat.pt_mem, hg.ptLsn _ _ hl hpl⟩
    · exact ⟨sch', Cat.sch_mem, hg.schLsn _ _ hl hpl⟩
    · exact ⟨e.2, Cat.tb_mem (List.mem_append_left _ he), hpl⟩
  · exact .inr ⟨hop, tb, tr, List.mem_append_left _ hm, hpg, hkey⟩

/-- a `sys_schema` that spells the same columns for every table -/
theorem AbsTables.of_sch {sch sch' : Levels} {tbls : List (Bytes × Levels)} {sdb : Spec.SDB}
    (h : AbsTables sch tbls sdb) (hs : ∀ n ∈ tbls.map (·.1), schemaOf sch' n = schemaOf sch n) :
    AbsTables sch' tbls sdb := by
  induction h with
  | nil => exact .nil
  | @cons e st tbls' sdb' hx _ ih =>
    refine .cons ?_ (ih (fun n hn => hs n (by simp only [List.map_cons, List.mem_cons]; exact .inr hn)))
    obtain ⟨schema, h1, hnd, h2, h3⟩ := hx
    exact ⟨schema, by rw [hs e.1 (by simp), h1], hnd, h2, h3⟩

/-- **An accepted CREATE TABLE keeps the invariant - and closes the database.** -/
theorem DbInv.createTable_ok {db : Engine.DB} {sdb : Spec.SDB} {pt sch : Levels} {tbls : List (Bytes × Levels)}
    (h : DbInv db sdb pt sch tbls) (name : Bytes) (cols : List Sql.ColDef) (order : List Nat)
    (hfind : Spec.findTable sdb name = none) (hn1 : name ≠ sysPages) (hn2 : name ≠ sysSchema)
    (hfld : checkFieldsFrom [] (cols.map Engine.colTypeToField) = none)
    (hchk : checkCatalogRows (cols.map Engine.colTypeToField) name = none)
    (hpd : pt.inner.length + 3 ≤ treeFuel) (hpl : pt.leaves.length + 1 ≤ scanFuel)
    (hsd : sch.inner.length + cols.length + 2 ≤ treeFuel) (hsl : sch.leaves.length + cols.length ≤ scanFuel)
    (hbig : db.store.hdr.nextFree + 262144 * cols.length + 262144 ≤ 9223372036854775807) :
    ∃ db' pt' sch' tbls', Engine.evalCreateTable db name cols order true = .ok () db' ∧ db'.wal = db.wal ∧
      DbFlushed db' (sdb ++ [⟨name, cols.map Spec.colField, []⟩]) pt' sch' tbls' := by
  obtain ⟨sdb0, habs0, hv⟩ := h.abs
  have hfind0 : Spec.findTable sdb0 name = none := (findTable_none_congr hv name).mpr hfind
  have hn3 : name ∉ tbls.map (·.1) := findTable_none_notin habs0.tabs habs0.cat.tnames hfind0
  have hsd' : sch.inner.length + (cols.map Engine.colTypeToField).length + 2 ≤ treeFuel := by
    rw [List.length_map]; exact hsd
  have hsl' : sch.leaves.length + (cols.map Engine.colTypeToField).length ≤ scanFuel := by
    rw [List.length_map]; exact hsl
  have hbig' : db.store.hdr.nextFree + 262144 * (cols.map Engine.colTypeToField).length + 262144 ≤
      9223372036854775807 := by rw [List.length_map]; exact hbig
  -- the body: the existing theorem, and the page-level relation
  obtain ⟨sN, pt1, nf1, ptN, schN, hrun, hcN, _, _, _, _, _, hso1, hso2, lk, ⟨m, _, lsn⟩, _, _⟩ :=
    createTable_cat_core habs0.cat (cols.map Engine.colTypeToField) name order hn1 hn2 hn3 hfld hchk hpd hpl hsd'
      hsl' hbig'
  obtain ⟨sN', ptM, schM, erun', hcM, hg⟩ := createTable_body_grows habs0.cat (cols.map Engine.colTypeToField) name
    order hn1 hn2 hn3 hfld hchk hpd hpl hsd' hsl' hbig' db.store.hdr.nextLSN (Nat.le_refl _)
  have erun : createTable (cols.map Engine.colTypeToField) name order false db.store = .ok () sN := hrun false
  rw [erun] at erun'
  simp only [SRes.ok.injEq, true_and] at erun'
  subst erun'
  have ept : ptM = ptN := hcM.pt_unique hcN
  have esch : schM = schN := hcM.sch_unique hcN
  subst ept
  subst esch
  have hdisk : sN.disk = db.store.disk := (createTable_noflush_disk erun).1
  have hsnew : schemaOf schM name = some (cols.map Engine.colTypeToField) := by
    rw [hso1, h.nostale name hn3 hn1 hn2]; rfl
  -- the invariant before the flush
  have hN : DbInv { store := sN, wal := db.wal } (sdb ++ [⟨name, cols.map Spec.colField, []⟩]) ptM schM
      (tbls ++ [(name, emptyTree db.store.hdr.nextFree)]) := by
    refine ⟨⟨sdb0 ++ [⟨name, cols.map Engine.colTypeToField, []⟩], ⟨hcN, ?_⟩, ?_⟩, ?_,
      createTable_memFiled h.filed erun, ?_, ?_, ?_, ?_⟩
    · apply AbsTables.append
      · apply habs0.tabs.of_sch
        intro n hn
        exact hso2 n (fun heq => hn3 (heq ▸ hn))
      · exact .cons ⟨cols.map Engine.colTypeToField, hsnew, ((checkFields_none_iff _).mp hfld).2,
          (by intro c hc; cases hc), rfl⟩ .nil
    · rw [valsOf_append, valsOf_append, hv, colFields_eq]
    · intro n hn h1 h2
      have hne : n ≠ name := by
        intro heq
        apply hn
        rw [heq, List.map_append]
        exact List.mem_append_right _ (by simp)
      rw [hso2 n hne]
      apply h.nostale n ?_ h1 h2
      intro hm
      apply hn
      rw [List.map_append]
      exact List.mem_append_left _ hm
    · exact fun r hr => (h.log r hr).grows (h.lsn r hr) hg
    · intro r hr
      show r.lsn < sN.hdr.nextLSN
      have := h.lsn r hr
      omega
    · intro r hr hop
      show r.cell ≤ sN.hdr.lastKey
      have := h.keys r hr hop
      omega
    · intro x hx e he hdy
      show assocGet sN.disk e.1 = some e.2.1
      rw [hdisk]
      rcases mem_catTrees.mp hx with rfl | rfl | ⟨e0, he0, rfl⟩
      · rcases hg.ptNew e he with h1 | h1
        · exact h.synced pt Cat.pt_mem e h1 hdy
        · rw [hdy] at h1; cases h1
      · rcases hg.schNew e he with h1 | h1
        · exact h.synced sch Cat.sch_mem e h1 hdy
        · rw [hdy] at h1; cases h1
      · rcases List.mem_append.mp he0 with h1 | h1
        · exact h.synced e0.2 (Cat.tb_mem h1) e he hdy
        · simp only [List.mem_singleton] at h1
          subst h1
          simp only [flatten, emptyTree, List.map_cons, List.map_nil, List.flatMap_nil, List.append_nil,
            List.mem_singleton] at he
          subst he
          cases hdy
  -- the flush
  obtain ⟨s', ef, _, hk⟩ := hN.flushPages order
  refine ⟨{ db with store := s' }, _, _, _, ?_, rfl, hk⟩
  have e_t : createTable (cols.map Engine.colTypeToField) name order true db.store = .ok () s' := by
    rw [hrun true]; exact ef
  simp only [Engine.evalCreateTable, Engine.liftS, e_t]

/-- a refusal after which every page and the header read as before keeps the invariant -/
theorem DbInv.same {db db' : Engine.DB} {sdb : Spec.SDB} {pt sch : Levels} {tbls : List (Bytes × Levels)}
    (h : DbInv db sdb pt sch tbls) (hs : Same db.store db'.store) (hd : db'.store.disk = db.store.disk)
    (hf : MemFiled db'.store) (hw : db'.wal = db.wal) : DbInv db' sdb pt sch tbls := by
  obtain ⟨sdb0, habs0, hv⟩ := h.abs
  refine ⟨⟨sdb0, habs0.of_same hs, hv⟩, h.nostale, hf, by rw [hw]; exact h.log, ?_, ?_, ?_⟩
  · rw [hw, hs.2]; exact h.lsn
  · rw [hw, hs.2]; exact h.keys
  · intro x hx e he hdy
    rw [hd]; exact h.synced x hx e he hdy

/-! ### every statement -/

/-- SET literals of an UPDATE that a Go program can hold (the other kinds carry this in `StmtRoomT`) -/
def StmtLits : Sql.Stmt → Prop
  | .update _ sets _ => ∀ p ∈ sets, ∀ l, p.2 = .lit l → ValidVal (Engine.litToVal l)
  | _ => True

/-- the outcome of a statement that keeps the invariant: `.ok` or `.err` - never a panic, an unmodelled
path or exhausted fuel - with a database that satisfies the invariant for some plain database -/
def KeepsInv (r : Engine.Res Unit) : Prop :=
  ∃ db', (r = .ok () db' ∨ ∃ e, r = .err e db') ∧ ∃ sdb pt sch tbls, DbInv db' sdb pt sch tbls

theorem voidRes_unit (r : Engine.Res Unit) : voidRes r = r := by cases r <;> rfl

theorem KeepsInv.of_effect {α} {db : Engine.DB} {sdb : Spec.SDB} {pt sch : Levels} {tbls : List (Bytes × Levels)}
    (h : DbInv db sdb pt sch tbls) {r : Engine.Res α} (he : ResEffect sch db tbls r) (hd : ResDisk db.store r)
    (hf : ResFiled r) : KeepsInv (voidRes r) := by
  cases r with
  | ok a db' =>
    obtain ⟨sdb', pt', tbls', hi⟩ := h.row_effect he hd hf
    exact ⟨db', .inl rfl, sdb', pt', sch, tbls', hi⟩
  | err e db' =>
    obtain ⟨sdb', pt', tbls', hi⟩ := h.row_effect he hd hf
    exact ⟨db', .inr ⟨e, rfl⟩, sdb', pt', sch, tbls', hi⟩
  | panic p => exact he.elim
  | unmodelled w => exact he.elim
  | fuel => exact he.elim

theorem evalDelete_resDisk (db : Engine.DB) (table : Bytes) (w : Option Sql.Cond) :
    ResDisk db.store (Engine.evalDelete db table w) := by
  refine fetchForExec_disk db table _ fun rows fields s hd => ?_
  cases Engine.filterIds w fields rows with
  | ok sel => exact evalDelete_go_disk db table db.store sel s _ _ hd
  | err x => exact hd
  | panic p => trivial

theorem evalUpdate_resDisk (db : Engine.DB) (table : Bytes) (sets : List (Bytes × Sql.VExpr))
    (w : Option Sql.Cond) : ResDisk db.store (Engine.evalUpdate db table sets w) := by
  by_cases hcol : ∃ p ∈ sets, ∃ c, p.2 = .col c
  · rw [evalUpdate_col db table sets w hcol]; exact DiskSame.refl _
  · have hnocol : ∀ p ∈ sets, ∀ c, p.2 ≠ .col c := fun p hp c hpc => hcol ⟨p, hp, c, hpc⟩
    rw [evalUpdate_nocol db table sets w hnocol]
    refine fetchForExec_disk db table _ fun rows fields s hd => ?_
    cases Engine.checkSetColumns fields [] (sets.map (·.1)) with
    | some ec => exact hd
    | none =>
    simp only
    cases Engine.filterIds w fields rows with
    | ok sel => exact evalUpdate_go_disk db table _ _ db.store sel s _ hd
    | err x => exact hd
    | panic p => trivial

/-- **Every statement keeps the invariant of the database, whatever its outcome.**  From a database that
satisfies `DbInv`, every CREATE TABLE / INSERT / UPDATE / DELETE the parser can produce (side conditions
as for totality: `StmtNames`, `StmtRoomT`; for UPDATE literals a Go program can hold, `StmtLits`)
returns `.ok` or `.err` - never a panic, an unmodelled path, exhausted fuel - with a database that
satisfies `DbInv` again for SOME plain database: the plain model's result for an accepted statement, the
same plain database for a statement refused before a change, the plain database with the applied prefix
for a multi-row statement refused at a later row (the known finding of C14).  The other statement kinds
change no database. -/
theorem evalStmt_keeps_inv (db : Engine.DB) (order : List Nat) (sdb : Spec.SDB) (pt sch : Levels)
    (tbls : List (Bytes × Levels)) (h : DbInv db sdb pt sch tbls) (st : Sql.Stmt) (hnames : StmtNames pt tbls st)
    (hroom : StmtRoomT db pt sch tbls st) (hlits : StmtLits st) : KeepsInv (evalStmt db order st) := by
  obtain ⟨sdb0, habs0, hv⟩ := h.abs
  have hkeep : KeepsInv (.ok () db) := ⟨db, .inl rfl, sdb, pt, sch, tbls, h⟩
  cases st with
  | insert t cols rows =>
    exact KeepsInv.of_effect h
      (evalInsert_effect db pt sch tbls sdb0 habs0 t cols _ (litRows_valid rows hroom.1) hnames hroom.2)
      (evalInsert_go_disk db t cols db.store _ db.store [] 0 (DiskSame.refl _)) (evalInsert_filed db t cols _ h.filed)
  | update t sets w =>
    have := KeepsInv.of_effect h (evalUpdate_effect db pt sch tbls sdb0 habs0 t sets w hlits hnames)
      (evalUpdate_resDisk db t sets w) (evalUpdate_filed db t sets w h.filed)
    rw [voidRes_unit] at this
    exact this
  | delete t w =>
    exact KeepsInv.of_effect h (evalDelete_effect db pt sch tbls sdb0 habs0 t w hnames)
      (evalDelete_resDisk db t w) (evalDelete_filed db t w h.filed)
  | createDatabase n => exact hkeep
  | select s => exact hkeep
  | use d => exact hkeep
  | showDatabases => exact hkeep
  | createTable n cols =>
    obtain ⟨hpd, hpl, hsd, hsl, hbig⟩ := hroom
    have hrefused : ∀ e db', Engine.evalCreateTable db n cols order true = .err (.store e) db' →
        db'.wal = db.wal → Same db.store db'.store → KeepsInv (evalStmt db order (.createTable n cols)) := by
      intro e db' he hw hs
      have hd : db'.store.disk = db.store.disk := by
        simp only [Engine.evalCreateTable, Engine.liftS] at he
        cases e2 : createTable (cols.map Engine.colTypeToField) n order true db.store with
        | err x s' =>
          rw [e2] at he
          simp only [Engine.Res.err.injEq] at he
          rw [← he.2]
          exact (createTable_err_disk e2).1
        | ok a s' => rw [e2] at he; cases he
        | panic p => rw [e2] at he; cases he
        | unmodelled w => rw [e2] at he; cases he
        | fuel => rw [e2] at he; cases he
      exact ⟨db', .inr ⟨.store e, he⟩, sdb, pt, sch, tbls,
        h.same hs hd ((evalCreateTable_filed db n cols order true h.filed).err he) hw⟩
    by_cases hex : (Spec.findTable sdb n).isSome
    · obtain ⟨_, e, db', he, _, hw, hs, _⟩ := evalCreateTable_refused_specV db pt sch tbls sdb h.abs n cols order true
        (.exists_ hex)
      exact hrefused e db' he hw hs
    · have hfind : Spec.findTable sdb n = none := by
        cases hf : Spec.findTable sdb n with
        | none => rfl
        | some x => rw [hf] at hex; exact absurd rfl hex
      by_cases hs2 : n = sysSchema
      · obtain ⟨_, e, db', he, _, hw, hs, _⟩ := evalCreateTable_refused_specV db pt sch tbls sdb h.abs n cols order true
          (.sysSchema hs2)
        exact hrefused e db' he hw hs
      · by_cases hs1 : n = sysPages
        · obtain ⟨off, hoff⟩ := hnames hs1
          obtain ⟨_, e, db', he, _, hw, hs, _⟩ := evalCreateTable_refused_specV db pt sch tbls sdb h.abs n cols order
            true (.sysPages off hs1 hoff)
          exact hrefused e db' he hw hs
        · cases hfld : checkFieldsFrom [] (cols.map Engine.colTypeToField) with
          | some x =>
            obtain ⟨e, db', he, hw, hs, _⟩ := evalCreateTable_catalog_refused db pt sch tbls sdb h.abs n cols order true
              hfind hs1 hs2 (.inr (.inl ⟨x, hfld⟩))
            exact hrefused e db' he hw hs
          | none =>
            cases hchk : checkCatalogRows (cols.map Engine.colTypeToField) n with
            | some x =>
              obtain ⟨e, db', he, hw, hs, _⟩ := evalCreateTable_catalog_refused db pt sch tbls sdb h.abs n cols order
                true hfind hs1 hs2 (.inr (.inr ⟨x, hchk⟩))
              exact hrefused e db' he hw hs
            | none =>
              obtain ⟨db', pt', sch', tbls', e, _, hk⟩ := h.createTable_ok n cols order hfind hs1 hs2 hfld hchk hpd hpl
                hsd hsl hbig
              exact ⟨db', .inl e, _, pt', sch', tbls', hk.inv⟩

end Mkdb.Store
