import Mkdb.Proofs.RefineInsert
import Mkdb.Proofs.RefineScan
/-!
Whole histories on the heap model are the histories of the levels model.

* `HOp`, `applyH`, `runH`: tree operations and their meaning on the levels model (copies of
  `Mkdb.Tree.TOp` / `applyOp` / `runOps` of `Mkdb/Props/C11.lean`).
* `heapStep`, `heapRun`: the same operations on the page heap, in the `SM` monad: `ins` is
  `insertKeyHeap` (a refusal `keyExists` / `rowTooLarge` leaves the handle unchanged and the run
  continues), `upd` is `findLeaf` + `updateCellAt` (`cellNotFound` = continue), `del` is the cell
  change of `Store.markDeleted` (`findLeaf`, the tombstone, `markDirty`; `cellNotFound` = continue).
* `RunOK`: what the history must satisfy, stated over the levels run: no insert is answered
  `notAppend`, an updated value fits a cell, a deleted key is not already a tombstone (the heap
  refuses that with `cellNotFound` and stamps nothing, the levels `setDeleted` stamps the leaf),
  and every tree an operation is applied to has `inner.length + 1 ≤ treeFuel`.
* `heapRun_refines`, `heapRun_scan`.
-/
set_option autoImplicit false
namespace Mkdb.Store
open Mkdb.Page Mkdb.Generated Mkdb.Tree

theorem holds_iff (s : Store) (t : Levels) : Holds s t ↔ Mkdb.Refine.Holds s t := Iff.rfl

/-! ### operations, on the levels and on the heap -/

/-- a tree operation as the engine and log replay issue them (`Mkdb.Tree.TOp`) -/
inductive HOp where
  | ins (key lsn : Nat) (v : Bytes)
  | upd (key lsn : Nat) (v : Bytes)
  | del (key lsn : Nat)

/-- one operation on the levels model (`Mkdb.Tree.applyOp`); a refused insert changes nothing -/
def applyH (st : Levels × Nat) : HOp → Levels × Nat
  | .ins k lsn v => match insertAppend st.1 k lsn v st.2 with
    | .ok r => r
    | .error _ => st
  | .upd k lsn v => (setVal st.1 k lsn v, st.2)
  | .del k lsn => (setDeleted st.1 k lsn, st.2)

def runH (st : Levels × Nat) (ops : List HOp) : Levels × Nat := ops.foldl applyH st

/-- run `m`; an error in `p` is a refusal: the result is `dflt`, the run goes on -/
def absorb {α} (p : SErr → Bool) (dflt : α) (m : SM α) : SM α := fun s =>
  match m s with
  | .ok a s' => .ok a s'
  | .err e s' => if p e then .ok dflt s' else .err e s'
  | .panic x => .panic x
  | .unmodelled w => .unmodelled w
  | .fuel => .fuel

def refusedIns : SErr → Bool
  | .keyExists => true
  | .rowTooLarge => true
  | _ => false

def refusedCell : SErr → Bool
  | .cellNotFound => true
  | _ => false

/-- UPDATE of one row on the heap: route to the leaf, `updateCell` + `markDirty` -/
def heapUpd (root key lsn : Nat) (value : Bytes) : SM Unit := do
  let l ← findLeaf treeFuel root key
  updateCellAt l.off key value lsn

/-- the cell change of `Store.markDeleted` (without the log record and the LSN counter) -/
def heapDel (root key lsn : Nat) : SM Unit := do
  let l ← findLeaf treeFuel root key
  match l.cells.find? (fun c => c.key == key) with
  | none => throw .cellNotFound
  | some c =>
    if c.deleted then throw .cellNotFound else
    let pg ← fetch l.off
    match pg with
    | .internal _ => panicS "MarkDeleted: not a leaf"
    | .leaf l1 =>
      putNode (.leaf { l1 with cells := l1.cells.map fun x => if x.key == key then { x with deleted := true } else x })
      markDirty l.off lsn

/-- one operation on the heap; returns the (possibly new) root -/
def heapStep (root : Nat) : HOp → SM Nat
  | .ins k lsn v => absorb refusedIns root (insertKeyHeap ⟨root⟩ k lsn v >>= fun bt => pure bt.root)
  | .upd k lsn v => absorb refusedCell root (heapUpd root k lsn v >>= fun _ => pure root)
  | .del k lsn => absorb refusedCell root (heapDel root k lsn >>= fun _ => pure root)

/-- a history on the heap; returns the final root -/
def heapRun : Nat → List HOp → SM Nat
  | root, [] => pure root
  | root, op :: rest => heapStep root op >>= fun root' => heapRun root' rest

/-- what one operation must satisfy in the state the levels run has reached -/
def OpOK (st : Levels × Nat) : HOp → Prop
  | .ins k lsn v => insertAppend st.1 k lsn v st.2 ≠ .error .notAppend
  | .upd _ _ v => v.length ≤ c_maxValueSize
  | .del k _ => ∀ c ∈ cells st.1, c.key = k → c.deleted = false

/-- the hypotheses on a history, along the levels run -/
def RunOK : Levels × Nat → List HOp → Prop
  | _, [] => True
  | st, op :: rest => st.1.inner.length + 1 ≤ treeFuel ∧ OpOK st op ∧ RunOK (applyH st op) rest

theorem absorb_ok {α} {p : SErr → Bool} {dflt a : α} {m : SM α} {s s' : Store} (h : m s = .ok a s') :
    absorb p dflt m s = .ok a s' := by unfold absorb; rw [h]

theorem absorb_err {α} {p : SErr → Bool} {dflt : α} {m : SM α} {s s' : Store} {e : SErr}
    (h : m s = .err e s') (hp : p e = true) : absorb p dflt m s = .ok dflt s' := by
  unfold absorb; rw [h]; simp [hp]

/-! ### `fetch` and `findLeaf` do not touch the header -/

theorem fetch_hdr {off : Nat} {s s' : Store} {n : Node} (h : fetch off s = .ok n s') : s'.hdr = s.hdr := by
  unfold fetch at h
  split at h
  · simp only [SRes.ok.injEq] at h; rw [← h.2]
  · simp only [SRes.ok.injEq] at h; rw [← h.2]

theorem findLeaf_hdr : ∀ (fuel off key : Nat) (s s' : Store) (l : Leaf),
    findLeaf fuel off key s = .ok l s' → s'.hdr = s.hdr
  | 0, _, _, _, _, _, h => by cases h
  | fuel+1, off, key, s, s', l, h => by
    rw [findLeaf] at h
    obtain ⟨pg, s1, e1, e2⟩ := bind_eq_ok h
    cases pg with
    | leaf l0 =>
      simp only [pure, Pure.pure, SRes.ok.injEq] at e2
      rw [← e2.2]; exact fetch_hdr e1
    | internal n =>
      exact (findLeaf_hdr fuel _ key s1 s' l e2).trans (fetch_hdr e1)

/-- `findLeaf` on a held tree: the leaf it returns is a leaf of the tree, it holds every cell of
the tree with the searched key, nothing visible changes -/
theorem findLeaf_key (s : Store) (t : Levels) (nf : Nat) (hH : Holds s t) (hI : Inv t nf)
    (hdepth : t.inner.length + 1 ≤ treeFuel) (key : Nat) :
    ∃ s1 l d, findLeaf treeFuel (rootOff t) key s = .ok l s1 ∧ (l, d) ∈ t.leaves ∧
      view s1 = view s ∧ s1.hdr.nextFree = s.hdr.nextFree ∧
      ∀ c ∈ cells t, c.key = key → l.cells.find? (fun x => x.key == key) = some c := by
  obtain ⟨s1, l, e, ho, ⟨d, hm⟩, hsv⟩ := Mkdb.Refine.findLeaf_refines_strong s t nf hH hI hdepth key
  refine ⟨s1, l, d, e, hm, funext hsv, by rw [findLeaf_hdr _ _ _ _ _ _ e], ?_⟩
  intro c hc hck
  subst hck
  have hlk := lookup_finds t nf hI c hc
  obtain ⟨hndl, _⟩ := Lookup.offs_split t nf hI.offs
  obtain ⟨i, hi, hli⟩ := List.mem_iff_getElem.mp hm
  have hfind := Lookup.find_by_key (fun p : Leaf × Bool => p.1.off) t.leaves hndl i hi
  simp only [hli, ho] at hfind
  unfold lookup at hlk
  rw [hfind] at hlk
  exact hlk

/-! ### the page-local cell change -/

/-- write a changed leaf back and stamp it -/
theorem put_mark (s : Store) (l l' : Leaf) (d : Bool) (lsn : Nat) (hoff : l'.off = l.off)
    (hv : view s l.off = some (.leaf l, d)) :
    ∃ s', (putNode (.leaf l') >>= fun _ => markDirty l.off lsn) s = .ok () s' ∧
      view s' = upd (view s) l.off (.leaf { l' with lsn := lsn }, true) ∧
      s'.hdr.nextFree = s.hdr.nextFree := by
  obtain ⟨s1, e1, v1, n1, r1⟩ := putNode_none_spec s (.leaf l') (.leaf l) d
    (by simp only [nodeOff, hoff]; exact hv)
  simp only [nodeOff, hoff] at v1 r1
  obtain ⟨s2, e2, v2, n2, _⟩ := markDirty_spec s1 l.off lsn (.leaf l') d
    (by rw [r1]; exact .inr rfl) (by rw [v1]; exact upd_same _ _ _)
  refine ⟨s2, by rw [bind_ok e1]; exact e2, ?_, by rw [n2, n1]⟩
  rw [v2, v1]
  funext o
  simp only [upd, setLSN]
  split <;> rfl

/-- the other leaves do not hold the key -/
theorem key_unique {t : Levels} (hasc : KeysAsc t) {A B : List (Leaf × Bool)} {l : Leaf} {d : Bool}
    (hlv : t.leaves = A ++ (l, d) :: B) {key : Nat} (hany : l.cells.any (fun c => c.key == key) = true) :
    ∀ p ∈ A ++ B, p.1.cells.any (fun c => c.key == key) = false := by
  obtain ⟨_, hcross⟩ := Lookup.keysAsc_split t hasc
  rw [hlv, List.pairwise_append] at hcross
  obtain ⟨_, hB, hA⟩ := hcross
  rw [List.any_eq_true] at hany
  obtain ⟨c, hc, hck⟩ := hany
  have hck' : c.key = key := by simpa using hck
  intro p hp
  rw [List.any_eq_false]
  intro x hx hxk
  have hxk' : x.key = key := by simpa using hxk
  rcases List.mem_append.mp hp with hp | hp
  · have := hA p hp (l, d) List.mem_cons_self x hx c hc
    omega
  · have := (List.pairwise_cons.mp hB).1 p hp c hc x hx
    omega

theorem updLeaf_of_absent (f : LeafCell → LeafCell) (key lsn : Nat) (p : Leaf × Bool)
    (h : p.1.cells.any (fun c => c.key == key) = false) : updLeaf f key lsn p = p := by
  unfold updLeaf; rw [h]; rfl

/-- `updLeaves` when no leaf holds the key -/
theorem updLeaves_absent (f : LeafCell → LeafCell) (key lsn : Nat) (t : Levels)
    (h : ∀ c ∈ cells t, c.key ≠ key) : updLeaves f key lsn t = t := by
  unfold updLeaves
  have : t.leaves.map (updLeaf f key lsn) = t.leaves := by
    conv => rhs; rw [← List.map_id t.leaves]
    apply List.map_congr_left
    intro p hp
    apply updLeaf_of_absent
    rw [List.any_eq_false]
    intro c hc hck
    exact h c (List.mem_flatMap.mpr ⟨p, hp, hc⟩) (by simpa using hck)
  rw [this]

/-- the heap after the leaf holding the key has been rewritten holds `updLeaves f key lsn t` -/
theorem holds_updLeaves (f : LeafCell → LeafCell) (key lsn : Nat) (s s' : Store) (t : Levels)
    (hH : Holds s t) (hI : Inv t s.hdr.nextFree) (l : Leaf) (d : Bool) (hm : (l, d) ∈ t.leaves)
    (hany : l.cells.any (fun c => c.key == key) = true)
    (hv : view s' = upd (view s) l.off
      (.leaf { l with cells := l.cells.map (updCell f key), lsn := lsn }, true)) :
    Holds s' (updLeaves f key lsn t) := by
  obtain ⟨A, B, hlv⟩ := List.append_of_mem hm
  have huniq := key_unique hI.asc hlv hany
  have hmap : t.leaves.map (updLeaf f key lsn) =
      A ++ ({ l with cells := l.cells.map (updCell f key), lsn := lsn }, true) :: B := by
    rw [hlv, List.map_append, List.map_cons]
    have hA : A.map (updLeaf f key lsn) = A := by
      conv => rhs; rw [← List.map_id A]
      apply List.map_congr_left
      intro p hp
      exact updLeaf_of_absent f key lsn p (huniq p (List.mem_append_left _ hp))
    have hB : B.map (updLeaf f key lsn) = B := by
      conv => rhs; rw [← List.map_id B]
      apply List.map_congr_left
      intro p hp
      exact updLeaf_of_absent f key lsn p (huniq p (List.mem_append_right _ hp))
    rw [hA, hB]
    congr 2
    unfold updLeaf
    simp only [hany, if_true]
  have hrep := Rep.of_holds hH hI
  unfold Rep at hrep
  have hfl : flatten t = A.map (fun p => (p.1.off, Node.leaf p.1, p.2)) ++ (l.off, Node.leaf l, d) ::
      (B.map (fun p => (p.1.off, Node.leaf p.1, p.2)) ++
        t.inner.flatMap fun lvl => lvl.map fun p => (p.1.off, Node.internal p.1, p.2)) := by
    simp [flatten, hlv]
  rw [hfl] at hrep
  have hrep' := hrep.replace (new := (Node.leaf { l with cells := l.cells.map (updCell f key), lsn := lsn }, true))
  rw [← hv] at hrep'
  intro e he
  apply hrep'.holds e
  unfold updLeaves at he
  simp only [flatten, hmap] at he
  simpa [List.map_append] using he

theorem leaf_cells_sub {t : Levels} {l : Leaf} {d : Bool} (hm : (l, d) ∈ t.leaves) :
    ∀ c ∈ l.cells, c ∈ cells t := fun _ hc => List.mem_flatMap.mpr ⟨(l, d), hm, hc⟩

theorem any_of_find {l : Leaf} {key : Nat} {c : LeafCell}
    (h : l.cells.find? (fun x => x.key == key) = some c) : l.cells.any (fun c => c.key == key) = true := by
  rw [List.any_eq_true]
  have h2 := List.find?_some h
  exact ⟨c, List.mem_of_find?_eq_some h, h2⟩

theorem any_false_of_absent {t : Levels} {l : Leaf} {d : Bool} (hm : (l, d) ∈ t.leaves) {key : Nat}
    (h : ∀ c ∈ cells t, c.key ≠ key) : l.cells.any (fun c => c.key == key) = false := by
  rw [List.any_eq_false]
  intro c hc hck
  exact h c (leaf_cells_sub hm c hc) (by simpa using hck)

/-! ### UPDATE and DELETE of one row: the heap against `setVal` / `setDeleted` -/

/-- `findLeaf` + `updateCellAt` on the heap is `setVal` on the levels (an absent key is refused with
`cellNotFound`, which changes nothing - and `setVal` of an absent key is the identity) -/
theorem heapUpd_refines (s : Store) (t : Levels) (key lsn : Nat) (value : Bytes)
    (hH : Holds s t) (hI : Inv t s.hdr.nextFree) (hdepth : t.inner.length + 1 ≤ treeFuel)
    (hv : value.length ≤ c_maxValueSize) :
    ∃ s', heapStep (rootOff t) (.upd key lsn value) s = .ok (rootOff t) s' ∧
      Holds s' (setVal t key lsn value) ∧ s'.hdr.nextFree = s.hdr.nextFree := by
  obtain ⟨s1, l, d, e, hm, v1, n1, hfind⟩ := findLeaf_key s t _ hH hI hdepth key
  have hvl : view s1 l.off = some (.leaf l, d) := by rw [v1]; exact holds_leaf hH hm
  obtain ⟨s2, e2, v2, n2, _⟩ := fetch_spec s1 l.off (.leaf l) d hvl rfl
  have hstart : heapUpd (rootOff t) key lsn value s =
      (if !(l.cells.any fun c => c.key == key) then (throw .cellNotFound : SM Unit) else
        (putNode (.leaf { l with cells := l.cells.map fun (c : LeafCell) =>
              if c.key == key then { c with val := value } else c })
          >>= fun _ => markDirty l.off lsn)) s2 := by
    unfold heapUpd
    rw [bind_ok e]
    unfold updateCellAt
    simp only [gt_iff_lt, Nat.not_lt.mpr hv, if_false]
    rw [bind_ok e2]
  rw [setVal_eq]
  by_cases hex : ∃ c ∈ cells t, c.key = key
  · obtain ⟨c, hc, hck⟩ := hex
    have hany := any_of_find (hfind c hc hck)
    simp only [hany, Bool.not_true, Bool.false_eq_true, if_false] at hstart
    obtain ⟨s3, e3, v3, n3⟩ := put_mark s2 l
      { l with cells := l.cells.map fun c => if c.key == key then { c with val := value } else c } d lsn rfl
      (by rw [v2]; exact hvl)
    refine ⟨s3, ?_, ?_, by rw [n3, n2, n1]⟩
    · apply absorb_ok
      rw [bind_ok (hstart.trans e3)]
      rfl
    · apply holds_updLeaves (fun c => { c with val := value }) key lsn s s3 t hH hI l d hm hany
      rw [v3, v2, v1]
      rfl
  · have habs : ∀ c ∈ cells t, c.key ≠ key := fun c hc hck => hex ⟨c, hc, hck⟩
    have hany := any_false_of_absent hm habs
    simp only [hany, Bool.not_false, if_true] at hstart
    refine ⟨s2, ?_, ?_, by rw [n2, n1]⟩
    · apply absorb_err (e := .cellNotFound) _ rfl
      rw [bind_err (hstart.trans rfl)]
    · rw [updLeaves_absent _ _ _ _ habs]
      intro x hx
      rw [v2, v1]
      exact hH x hx

/-- the cell change of `markDeleted` on the heap is `setDeleted` on the levels, for a key that is
absent (refused, nothing changes) or not yet a tombstone -/
theorem heapDel_refines (s : Store) (t : Levels) (key lsn : Nat)
    (hH : Holds s t) (hI : Inv t s.hdr.nextFree) (hdepth : t.inner.length + 1 ≤ treeFuel)
    (hlive : ∀ c ∈ cells t, c.key = key → c.deleted = false) :
    ∃ s', heapStep (rootOff t) (.del key lsn) s = .ok (rootOff t) s' ∧
      Holds s' (setDeleted t key lsn) ∧ s'.hdr.nextFree = s.hdr.nextFree := by
  obtain ⟨s1, l, d, e, hm, v1, n1, hfind⟩ := findLeaf_key s t _ hH hI hdepth key
  have hvl : view s1 l.off = some (.leaf l, d) := by rw [v1]; exact holds_leaf hH hm
  rw [setDeleted_eq]
  by_cases hex : ∃ c ∈ cells t, c.key = key
  · obtain ⟨c, hc, hck⟩ := hex
    have hf := hfind c hc hck
    have hany := any_of_find hf
    have hdel := hlive c hc hck
    obtain ⟨s2, e2, v2, n2, _⟩ := fetch_spec s1 l.off (.leaf l) d hvl rfl
    obtain ⟨s3, e3, v3, n3⟩ := put_mark s2 l
      { l with cells := l.cells.map fun x => if x.key == key then { x with deleted := true } else x } d lsn rfl
      (by rw [v2]; exact hvl)
    have hrun : heapDel (rootOff t) key lsn s = .ok () s3 := by
      unfold heapDel
      rw [bind_ok e]
      simp only [hf, hdel, Bool.false_eq_true, if_false]
      rw [bind_ok e2]
      exact e3
    refine ⟨s3, ?_, ?_, by rw [n3, n2, n1]⟩
    · apply absorb_ok
      rw [bind_ok hrun]
      rfl
    · apply holds_updLeaves (fun c => { c with deleted := true }) key lsn s s3 t hH hI l d hm hany
      rw [v3, v2, v1]
      rfl
  · have habs : ∀ c ∈ cells t, c.key ≠ key := fun c hc hck => hex ⟨c, hc, hck⟩
    have hnone : l.cells.find? (fun c => c.key == key) = none := by
      rw [List.find?_eq_none]
      intro c hc hck
      exact habs c (leaf_cells_sub hm c hc) (by simpa using hck)
    have hrun : heapDel (rootOff t) key lsn s = .err .cellNotFound s1 := by
      unfold heapDel
      rw [bind_ok e]
      simp only [hnone]
      rfl
    refine ⟨s1, ?_, ?_, n1⟩
    · apply absorb_err (e := .cellNotFound) _ rfl
      rw [bind_err hrun]
    · rw [updLeaves_absent _ _ _ _ habs]
      intro x hx
      rw [v1]
      exact hH x hx

/-- an insert on the heap, refusals absorbed, is `applyH … (.ins …)` -/
theorem heapIns_refines (s : Store) (t : Levels) (key lsn : Nat) (value : Bytes)
    (hH : Holds s t) (hI : Inv t s.hdr.nextFree) (hdepth : t.inner.length ≤ treeFuel)
    (hok : insertAppend t key lsn value s.hdr.nextFree ≠ .error .notAppend) :
    ∃ s', heapStep (rootOff t) (.ins key lsn value) s =
        .ok (rootOff (applyH (t, s.hdr.nextFree) (.ins key lsn value)).1) s' ∧
      Holds s' (applyH (t, s.hdr.nextFree) (.ins key lsn value)).1 ∧
      s'.hdr.nextFree = (applyH (t, s.hdr.nextFree) (.ins key lsn value)).2 := by
  cases hres : insertAppend t key lsn value s.hdr.nextFree with
  | ok r =>
    obtain ⟨t', nf'⟩ := r
    obtain ⟨s', e, hH', hn, _⟩ := insertKeyHeap_refines s t key lsn value hH hI hdepth t' nf' hres
    refine ⟨s', ?_, ?_, ?_⟩
    · simp only [applyH, hres]
      apply absorb_ok
      rw [bind_ok e]
      rfl
    · simp only [applyH, hres]; exact hH'
    · simp only [applyH, hres]; exact hn
  | error err =>
    have happ : applyH (t, s.hdr.nextFree) (.ins key lsn value) = (t, s.hdr.nextFree) := by
      simp only [applyH, hres]
    rw [happ]
    cases err with
    | keyExists =>
      obtain ⟨s', e, hH', hn, _⟩ := insertKeyHeap_refines_keyExists s t key lsn value hH hI hdepth hres
      exact ⟨s', absorb_err (e := .keyExists) (by rw [bind_err e]) rfl, hH', hn⟩
    | rowTooLarge =>
      obtain ⟨s', e, hH', hn, _⟩ := insertKeyHeap_refines_rowTooLarge s t key lsn value hH hI hdepth hres
      exact ⟨s', absorb_err (e := .rowTooLarge) (by rw [bind_err e]) rfl, hH', hn⟩
    | notAppend => exact absurd hres hok
    | malformed =>
      exfalso
      unfold insertAppend at hres
      split at hres
      · rename_i hnone
        have hne := linked_below_ne t.inner _ hI.link
        rw [List.getLast?_eq_none_iff] at hnone
        rw [hnone] at hne
        exact hne rfl
      · split at hres
        · cases hres
        · split at hres
          · cases hres
          · split at hres
            · cases hres
            · dsimp only at hres
              split at hres <;> cases hres

theorem rootOff_updLeaves (f : LeafCell → LeafCell) (key lsn : Nat) (t : Levels) :
    rootOff (updLeaves f key lsn t) = rootOff t := by
  unfold rootOff updLeaves
  simp only [List.head?_map, Option.map_map]
  have : ((fun p : Leaf × Bool => p.1.off) ∘ updLeaf f key lsn) = fun p => p.1.off :=
    funext (updLeaf_off f key lsn)
  rw [this]

theorem applyH_inv (st : Levels × Nat) (op : HOp) (h : Inv st.1 st.2) :
    Inv (applyH st op).1 (applyH st op).2 := by
  cases op with
  | ins k lsn v =>
    simp only [applyH]
    split
    · rename_i r hr
      exact insertAppend_inv st.1 r.1 k lsn st.2 r.2 v h hr
    · exact h
  | upd k lsn v => exact setVal_inv st.1 k lsn st.2 v h
  | del k lsn => exact setDeleted_inv st.1 k lsn st.2 h

/-- one operation -/
theorem heapStep_refines (s : Store) (t : Levels) (op : HOp)
    (hH : Holds s t) (hI : Inv t s.hdr.nextFree) (hdepth : t.inner.length + 1 ≤ treeFuel)
    (hok : OpOK (t, s.hdr.nextFree) op) :
    ∃ s', heapStep (rootOff t) op s = .ok (rootOff (applyH (t, s.hdr.nextFree) op).1) s' ∧
      Holds s' (applyH (t, s.hdr.nextFree) op).1 ∧
      s'.hdr.nextFree = (applyH (t, s.hdr.nextFree) op).2 := by
  cases op with
  | ins k lsn v => exact heapIns_refines s t k lsn v hH hI (by omega) hok
  | upd k lsn v =>
    obtain ⟨s', e, hH', hn⟩ := heapUpd_refines s t k lsn v hH hI hdepth hok
    refine ⟨s', ?_, hH', hn⟩
    rw [e]
    simp only [applyH]
    rw [setVal_eq, rootOff_updLeaves]
  | del k lsn =>
    obtain ⟨s', e, hH', hn⟩ := heapDel_refines s t k lsn hH hI hdepth hok
    refine ⟨s', ?_, hH', hn⟩
    rw [e]
    simp only [applyH]
    rw [setDeleted_eq, rootOff_updLeaves]

/-! ### histories -/

/-- **Every history on the heap is the history of the levels model.**  Started in a store whose heap
holds a well-formed tree `t`, the heap run of `ops` succeeds, returns the root of the tree `t'` the
levels run of the same operations produces, ends in a store whose heap holds `t'`, with `t'`
well formed at the final allocation frontier, which is the frontier the levels run computes. -/
theorem heapRun_refines (ops : List HOp) : ∀ (s : Store) (t : Levels), Holds s t → Inv t s.hdr.nextFree →
    RunOK (t, s.hdr.nextFree) ops →
    ∃ s' root', heapRun (rootOff t) ops s = .ok root' s' ∧
      root' = rootOff (runH (t, s.hdr.nextFree) ops).1 ∧
      Holds s' (runH (t, s.hdr.nextFree) ops).1 ∧
      Inv (runH (t, s.hdr.nextFree) ops).1 s'.hdr.nextFree ∧
      s'.hdr.nextFree = (runH (t, s.hdr.nextFree) ops).2 := by
  induction ops with
  | nil =>
    intro s t hH hI _
    exact ⟨s, rootOff t, rfl, rfl, hH, hI, rfl⟩
  | cons op rest ih =>
    intro s t hH hI hok
    obtain ⟨hdepth, hop, hrest⟩ := hok
    obtain ⟨s1, e1, hH1, hn1⟩ := heapStep_refines s t op hH hI hdepth hop
    have hI1 := applyH_inv (t, s.hdr.nextFree) op hI
    have hst : ((applyH (t, s.hdr.nextFree) op).1, s1.hdr.nextFree) = applyH (t, s.hdr.nextFree) op := by
      rw [hn1]
    obtain ⟨s', root', e2, hr, hH', hI', hn'⟩ := ih s1 (applyH (t, s.hdr.nextFree) op).1 hH1
      (by rw [hn1]; exact hI1) (by rw [hst]; exact hrest)
    rw [hst] at hr hH' hI' hn'
    refine ⟨s', root', ?_, hr, hH', hI', hn'⟩
    show (heapStep (rootOff t) op >>= fun root' => heapRun root' rest) s = _
    rw [bind_ok e1]
    exact e2

/-- what one operation does to the cells a scan walks over (tombstones included) -/
theorem cells_applyH (st : Levels × Nat) (op : HOp) :
    cells (applyH st op).1 =
      match op with
      | .ins k lsn v =>
        (match insertAppend st.1 k lsn v st.2 with
          | .ok _ => cells st.1 ++ [⟨k, false, v⟩]
          | .error _ => cells st.1)
      | .upd k _ v => (cells st.1).map (fun c => if c.key == k then { c with val := v } else c)
      | .del k _ => (cells st.1).map (fun c => if c.key == k then { c with deleted := true } else c) := by
  cases op with
  | ins k lsn v =>
    simp only [applyH]
    cases h : insertAppend st.1 k lsn v st.2 with
    | ok r => exact cells_insertAppend st.1 r.1 k lsn st.2 r.2 v h
    | error e => rfl
  | upd k lsn v => exact cells_setVal st.1 k lsn v
  | del k lsn => exact cells_setDeleted st.1 k lsn

/-- **The scan after a history.**  `scanRight` from the root the heap run returns hands out exactly
the live cells of the tree the levels run produces. -/
theorem heapRun_scan (ops : List HOp) (s : Store) (t : Levels) (hH : Holds s t) (hI : Inv t s.hdr.nextFree)
    (hok : RunOK (t, s.hdr.nextFree) ops)
    (hdepth : (runH (t, s.hdr.nextFree) ops).1.inner.length + 1 ≤ treeFuel)
    (hlen : (runH (t, s.hdr.nextFree) ops).1.leaves.length ≤ scanFuel) :
    ∃ s' root' res s'', heapRun (rootOff t) ops s = .ok root' s' ∧ scanRight root' s' = .ok res s'' ∧
      res.map (·.1) = live (runH (t, s.hdr.nextFree) ops).1 ∧
      Holds s'' (runH (t, s.hdr.nextFree) ops).1 := by
  obtain ⟨s', root', e, hr, hH', hI', _⟩ := heapRun_refines ops s t hH hI hok
  obtain ⟨s'', e2, hsv⟩ := Mkdb.Refine.scanRight_refines_strong s' _ _ hH' hI' hdepth hlen
  refine ⟨s', root', _, s'', e, by rw [hr]; exact e2, Mkdb.Refine.map_fst_liveAt _, ?_⟩
  intro x hx
  rw [hsv]
  exact hH' x hx

/-! ### non-vacuity: the hypotheses are decidable and hold for a concrete history -/

/-- 12 inserts (one leaf split, a new root), an update, a delete, a refused re-insert of the deleted key,
an update of an absent key -/
def ops0 : List HOp := (List.range' 1 12).map (fun k => HOp.ins k k [1]) ++ [.upd 3 20 [9], .del 5 21, .ins 5 22 [], .upd 99 23 [1]]
/-- a store holding the empty tree of a freshly created table -/
def s0 : Store := { hdr := { nextFree := 8192 }, mem := [(4096, ⟨.leaf ⟨4096, 0, false, false, 0, 0, []⟩, true⟩)] }

instance decOpOK (st : Levels × Nat) : (op : HOp) → Decidable (OpOK st op)
  | .ins k lsn v =>
    match h : insertAppend st.1 k lsn v st.2 with
    | .ok _ => isTrue (show insertAppend st.1 k lsn v st.2 ≠ _ by rw [h]; intro h'; cases h')
    | .error .keyExists => isTrue (show insertAppend st.1 k lsn v st.2 ≠ _ by rw [h]; intro h'; cases h')
    | .error .rowTooLarge => isTrue (show insertAppend st.1 k lsn v st.2 ≠ _ by rw [h]; intro h'; cases h')
    | .error .malformed => isTrue (show insertAppend st.1 k lsn v st.2 ≠ _ by rw [h]; intro h'; cases h')
    | .error .notAppend => isFalse (fun hne => hne h)
  | .upd _ _ v => inferInstanceAs (Decidable (v.length ≤ c_maxValueSize))
  | .del k _ => inferInstanceAs (Decidable (∀ c ∈ cells st.1, c.key = k → c.deleted = false))

instance decRunOK : (st : Levels × Nat) → (ops : List HOp) → Decidable (RunOK st ops)
  | _, [] => isTrue trivial
  | st, op :: rest =>
    have := decRunOK (applyH st op) rest
    inferInstanceAs (Decidable (st.1.inner.length + 1 ≤ treeFuel ∧ OpOK st op ∧ RunOK (applyH st op) rest))

example : RunOK (emptyTree 4096, 8192) ops0 := by decide
example : ((runH (emptyTree 4096, 8192) ops0).1.leaves.length, (runH (emptyTree 4096, 8192) ops0).1.inner.length,
   (live (runH (emptyTree 4096, 8192) ops0).1).map (·.key)) = (2, 1, [1,2,3,4,6,7,8,9,10,11,12]) := by decide

theorem s0_holds : Holds s0 (emptyTree 4096) := by
  intro e he
  simp [flatten, emptyTree] at he
  subst he
  rfl

/-- the theorems apply to the concrete history: the heap run succeeds and the scan afterwards returns
the eleven live rows -/
example : ∃ s' root' res s'', heapRun 4096 ops0 s0 = .ok root' s' ∧ scanRight root' s' = .ok res s'' ∧
    res.map (·.1.key) = [1, 2, 3, 4, 6, 7, 8, 9, 10, 11, 12] := by
  obtain ⟨s', root', res, s'', e1, e2, hres, _⟩ := heapRun_scan ops0 s0 (emptyTree 4096) s0_holds
    (emptyTree_inv 4096 8192 (by decide)) (by decide) (by decide) (by decide)
  refine ⟨s', root', res, s'', e1, e2, ?_⟩
  have : res.map (·.1.key) = (res.map (·.1)).map (·.key) := by rw [List.map_map]; rfl
  rw [this, hres]
  decide

end Mkdb.Store

