import Mkdb.Proofs.Evict4
/-!
C16 on the heap model, part 5: scans, the catalog, the row operations (`insert`, `update`, `markDeleted`,
`fetchTable`), the flush and `createTable` do not see the size of the cache.  The proofs follow
`KeepsFiled.*` of CreateFiled / SpecRefineB4 step by step; what is new is the flush (`Sim.flushPages`):
with one cache entry per offset the flush writes exactly the pages the engine sees dirty, which are the
same pages in both stores.
-/
set_option autoImplicit false
namespace Mkdb.Store
open Mkdb.Page Mkdb.Tuple Mkdb.Generated Mkdb.Tree Mkdb.Engine

/-! ### scans -/

theorem Sim.leftmostLeaf : ∀ (fuel off : Nat), Sim (leftmostLeaf fuel off)
  | 0, _ => Sim.outOfFuel
  | fuel+1, off => by
    unfold Store.leftmostLeaf
    refine (Sim.fetch _).bind fun pg => ?_
    cases pg with
    | leaf l => exact Sim.pure _
    | internal n =>
      simp only
      cases n.cells.head? with
      | none => exact Sim.panicS _
      | some c => exact Sim.leftmostLeaf fuel _

theorem Sim.scanLeaves : ∀ (fuel : Nat) (l : Leaf), Sim (scanLeaves fuel l)
  | 0, _ => Sim.outOfFuel
  | fuel+1, l => by
    unfold Store.scanLeaves
    simp only
    refine Sim.ite ((Sim.fetch _).bind fun nxt => ?_) (Sim.pure _)
    cases nxt with
    | leaf r => exact (Sim.scanLeaves fuel r).bind fun _ => Sim.pure _
    | internal n => exact Sim.ite (Sim.pure _) (Sim.panicS _)

theorem Sim.scanRight (root : Nat) : Sim (scanRight root) := by
  unfold Store.scanRight
  exact (Sim.leftmostLeaf _ _).bind fun _ => Sim.scanLeaves _ _

theorem Sim.findLeaf : ∀ (fuel off key : Nat), Sim (findLeaf fuel off key)
  | 0, _, _ => Sim.outOfFuel
  | fuel+1, off, key => by
    unfold Store.findLeaf
    refine (Sim.fetch _).bind fun pg => ?_
    cases pg with
    | leaf l => exact Sim.pure _
    | internal n => exact Sim.findLeaf fuel _ key

theorem Sim.findFirstM {α β} {f : α → SM (Option β)} (hf : ∀ a, Sim (f a)) :
    ∀ l : List α, Sim (findFirstM f l)
  | [] => Sim.pure _
  | a :: rest => by
    unfold Store.findFirstM
    refine (hf a).bind fun r => ?_
    cases r with
    | none => exact Sim.findFirstM hf rest
    | some b => exact Sim.pure _

theorem Sim.mapS {α β} {f : α → SM β} (hf : ∀ a, Sim (f a)) :
    ∀ l : List α, Sim (mapS f l)
  | [] => Sim.pure _
  | a :: rest => by
    unfold Store.mapS
    exact (hf a).bind fun _ => (Sim.mapS hf rest).bind fun _ => Sim.pure _

/-- one structural step of a `Sim` proof -/
macro "sim_step" : tactic =>
  `(tactic| first
    | exact Sim.pure _
    | exact Sim.fetch _
    | exact Sim.putNode _ _
    | exact Sim.appendNode _ _
    | exact Sim.markDirty _ _
    | exact Sim.throw _
    | exact Sim.panicS _
    | exact Sim.unmodelledS _
    | exact Sim.outOfFuel
    | exact Sim.decodeRow _ _
    | exact Sim.encodeRow _ _
    | assumption
    | refine Sim.bind ?_ (fun _ => ?_)
    | split)

/-! ### the catalog -/

theorem Sim.relationOffset (name : Bytes) : Sim (relationOffset name) := by
  unfold Store.relationOffset
  refine Sim.getS_bind (fun s => (Sim.scanRight _).bind fun cells => ?_) (fun s1 s2 e => by simp only [e])
  refine Sim.bind ?_ fun hit => ?_
  · apply Sim.findFirstM
    intro c
    refine (Sim.decodeRow _ _).bind fun m => ?_
    repeat sim_step
  · cases hit with
    | some off => exact Sim.pure _
    | none => exact Sim.throw _

theorem Sim.relationSchema (name : Bytes) : Sim (relationSchema name) := by
  unfold Store.relationSchema
  refine (Sim.relationOffset _).bind fun off => (Sim.scanRight _).bind fun cells => ?_
  refine (Sim.mapS (fun _ => Sim.decodeRow _ _) _).bind fun rows => ?_
  apply Sim.mapS
  intro m
  repeat sim_step

theorem Sim.updateCellAt (off key : Nat) (value : Bytes) (lsn : Nat) :
    Sim (updateCellAt off key value lsn) := by
  unfold Store.updateCellAt
  refine Sim.ite (Sim.throw _) ((Sim.fetch _).bind fun pg => ?_)
  cases pg with
  | internal i => exact Sim.panicS _
  | leaf l =>
    exact Sim.ite (Sim.throw _)
      ((Sim.putNode _ _).bind fun _ => Sim.markDirty _ _)

/-- the LSN counter advances -/
theorem Sim.bumpLSN :
    Sim (Store.modifyS fun s => { s with hdr := { s.hdr with nextLSN := s.hdr.nextLSN + 1 } }) :=
  Sim.modifyS fun s1 s2 h => h.with_hdr _ _ (by rw [h.hdr])

theorem Sim.updatePageTable (newRoot : Nat) (name : Bytes) :
    Sim (updatePageTable newRoot name) := by
  rw [updatePageTable_eq]
  refine Sim.getS_bind (fun s => (Sim.scanRight _).bind fun cells => ?_) (fun s1 s2 e => by simp only [e])
  refine Sim.bind ?_ fun hit => ?_
  · apply Sim.findFirstM
    intro c
    unfold ptFind
    refine (Sim.decodeRow _ _).bind fun m => ?_
    exact Sim.ite (Sim.pure _) (Sim.pure _)
  · cases hit with
    | none => exact Sim.throw _
    | some cm =>
      obtain ⟨c, m⟩ := cm
      refine (Sim.encodeRow _ _).bind fun buf => ?_
      refine Sim.getS_bind (fun s => (Sim.updateCellAt _ _ _ _).bind fun _ => Sim.bumpLSN.bind fun _ => Sim.pure _)
        (fun s1 s2 e => by simp only [e])

theorem Sim.insertPageTable (pageOff : Nat) (name : Bytes) :
    Sim (insertPageTable pageOff name) := by
  unfold Store.insertPageTable
  refine (Sim.encodeRow _ _).bind fun buf => ?_
  refine Sim.getS_bind (fun s => (Sim.fetch _).bind fun _ => (Sim.btInsert _ _).bind fun r => ?_)
    (fun s1 s2 e => by simp only [e])
  obtain ⟨bt, k, l⟩ := r
  refine Sim.getS_bind (fun s2 => ?_) (fun s1 s2 e => by simp only [e])
  refine Sim.ite (Sim.modifyS fun s1 s2 h => ?_) (Sim.pure _)
  exact h.with_hdr _ _ (by rw [h.hdr])

theorem Sim.insertSchemaRows : ∀ (fields : List FieldDef) (name : Bytes) (root : Nat),
    Sim (insertSchemaRows fields name root)
  | [], _, _ => Sim.pure _
  | fd :: rest, name, root => by
    unfold Store.insertSchemaRows
    refine (Sim.encodeRow _ _).bind fun buf => (Sim.btInsert _ _).bind fun r => ?_
    obtain ⟨bt, k, l⟩ := r
    exact Sim.ite
      ((Sim.updatePageTable _ _).bind fun _ => Sim.insertSchemaRows rest name _)
      (Sim.insertSchemaRows rest name root)

/-! ### the row operations -/

theorem Sim.insert (table : Bytes) (cols : List String) (vals : List Val) :
    Sim (Store.insert table cols vals) := by
  rw [insert_eq]
  refine (Sim.relationOffset _).bind fun off => (Sim.fetch _).bind fun _ =>
    (Sim.relationSchema _).bind fun schema => Sim.ite (Sim.throw _) ?_
  cases checkColumns schema (colsOf schema cols) with
  | some e => exact Sim.throw _
  | none =>
  refine (Sim.encodeRow _ _).bind fun buf => (Sim.btInsert _ _).bind fun r => ?_
  exact Sim.ite ((Sim.updatePageTable _ _).bind fun _ => Sim.pure _)
    (Sim.pure _)

theorem Sim.fetchTable (table : Bytes) : Sim (fetchTable table) := by
  rw [fetchTable_eq]
  refine (Sim.relationOffset _).bind fun off => (Sim.relationSchema _).bind fun schema =>
    (Sim.fetch _).bind fun _ => (Sim.scanRight _).bind fun cells =>
    (Sim.mapS (fun c => ?_) _).bind fun _ => Sim.pure _
  unfold fetchRow
  exact (Sim.decodeRow _ _).bind fun _ => Sim.pure _

theorem Sim.markDeleted (table : Bytes) (rowId : Nat) : Sim (markDeleted table rowId) := by
  rw [markDeleted_eq]
  refine (Sim.relationOffset _).bind fun off => (Sim.fetch _).bind fun _ =>
    (Sim.findLeaf _ _ _).bind fun l => ?_
  cases l.cells.find? (fun c => c.key == rowId) with
  | none => exact Sim.throw _
  | some c =>
    simp only
    refine Sim.ite (Sim.throw _) (Sim.getS_bind (fun s => (Sim.fetch _).bind fun pg => ?_)
      (fun s1 s2 e => by simp only [e]))
    cases pg with
    | internal n => exact Sim.panicS _
    | leaf l1 =>
      exact (Sim.putNode _ _).bind fun _ => (Sim.markDirty _ _).bind fun _ =>
        Sim.bumpLSN.bind fun _ => Sim.pure _

theorem Sim.update (table : Bytes) (rowId : Nat) (cols : List String) (src : List Val) :
    Sim (update table rowId cols src) := by
  rw [update_eq_stmt]
  refine (Sim.relationOffset _).bind fun off => (Sim.fetch _).bind fun _ =>
    (Sim.relationSchema _).bind fun schema => ?_
  cases checkColumns schema cols with
  | some e => exact Sim.throw _
  | none =>
  refine (Sim.scanRight _).bind fun cells =>
    (Sim.mapS (fun c => ?_) _).bind fun _ => Sim.pure _
  unfold updBody
  refine Sim.ite (Sim.pure _) ((Sim.decodeRow _ _).bind fun _ =>
    (Sim.encodeRow _ _).bind fun _ => ?_)
  exact Sim.getS_bind (fun s => (Sim.updateCellAt _ _ _ _).bind fun _ => Sim.bumpLSN.bind fun _ => Sim.pure _)
    (fun s1 s2 e => by simp only [e])

/-! ### the flush -/

theorem flushStep_nodup (s : Store) (a : Nat) (h : MemNodup s) : MemNodup (flushStep s a) := by
  unfold flushStep
  cases assocGet s.mem a with
  | none => exact h
  | some m => exact h.set rfl

theorem flushFold_nodup : ∀ (l : List Nat) (s : Store), MemNodup s → MemNodup (l.foldl flushStep s)
  | [], _, h => h
  | a :: l, s, h => by rw [List.foldl_cons]; exact flushFold_nodup l _ (flushStep_nodup s a h)

/-- the flush leaves every page where it is cached -/
theorem flushFold_res : ∀ (l : List Nat) (s : Store) (o : Nat),
    (assocGet (l.foldl flushStep s).mem o).isSome = (assocGet s.mem o).isSome
  | [], _, _ => rfl
  | a :: l, s, o => by
    rw [List.foldl_cons, flushFold_res l _ o, flushStep_mem_get]
    by_cases ho : o = a
    · subst ho
      simp only [if_true]
      cases assocGet s.mem o <;> rfl
    · simp only [ho, if_false]

/-- with one entry per offset the flush writes exactly the pages the engine sees dirty -/
theorem mem_flushOrd_iff (order : List Nat) (s : Store) (hn : MemNodup s) (o : Nat) :
    o ∈ flushOrd order s ↔ ∃ n, Store.view s o = some (n, true) := by
  constructor
  · intro ho
    have hd : o ∈ (s.mem.filter fun p => p.2.dirty).map (·.1) := by
      unfold flushOrd at ho
      rw [List.mem_append, List.mem_filter, List.mem_filter] at ho
      rcases ho with ⟨_, h2⟩ | ⟨h1, _⟩
      · simpa using h2
      · exact h1
    obtain ⟨p, hp, rfl⟩ := List.mem_map.mp hd
    obtain ⟨hp1, hp2⟩ := List.mem_filter.mp hp
    refine ⟨p.2.node, ?_⟩
    unfold Store.view
    rw [assocGet_of_mem_nodup s.mem hn p hp1]
    simp only [hp2]
  · rintro ⟨n, hv⟩
    obtain ⟨m, hm, _, hd⟩ := view_dirty hv
    exact mem_flushOrd order s (o, m) (assocGet_some hm) hd

theorem Sim.flushPages (order : List Nat) : Sim (flushPages order) := by
  intro s1 s2 h
  rw [flushPages_eq, flushPages_eq]
  have hord : ∀ o, o ∈ flushOrd order s2 ↔ o ∈ flushOrd order s1 := by
    intro o
    rw [mem_flushOrd_iff order s2 h.nodup2, mem_flushOrd_iff order s1 h.nodup1, h.view o]
  refine SRel.ok ⟨?_, ?_, ?_, ?_, ?_, ?_, ?_, ?_, ?_, ?_⟩
  · show ((flushOrd order s2).foldl flushStep s2).hdr = ((flushOrd order s1).foldl flushStep s1).hdr
    rw [flushFold_hdr, flushFold_hdr, h.hdr]
  · show ((flushOrd order s2).foldl flushStep s2).hdr = ((flushOrd order s1).foldl flushStep s1).hdr
    rw [flushFold_hdr, flushFold_hdr, h.hdr]
  · show ((flushOrd order s2).foldl flushStep s2).ghost = ((flushOrd order s1).foldl flushStep s1).ghost
    rw [flushFold_ghost, flushFold_ghost, h.ghost]
  · intro o
    show assocGet ((flushOrd order s2).foldl flushStep s2).disk o =
      assocGet ((flushOrd order s1).foldl flushStep s1).disk o
    rw [flushFold_disk _ s2 h.filed2, flushFold_disk _ s1 h.filed1]
    by_cases ho : o ∈ flushOrd order s1
    · rw [if_pos ho, if_pos ((hord o).mpr ho)]
      obtain ⟨n, hv1⟩ := (mem_flushOrd_iff order s1 h.nodup1 o).mp ho
      have hv2 : Store.view s2 o = some (n, true) := by rw [h.view o]; exact hv1
      obtain ⟨m1, hm1, hn1, _⟩ := view_dirty hv1
      obtain ⟨m2, hm2, hn2, _⟩ := view_dirty hv2
      rw [hm1, hm2]
      simp only [hn1, hn2]
    · rw [if_neg ho, if_neg (fun hx => ho ((hord o).mp hx))]
      exact h.disk o
  · intro o
    show Store.view ((flushOrd order s2).foldl flushStep s2) o = Store.view ((flushOrd order s1).foldl flushStep s1) o
    rw [flushFold_view _ s2 h.filed2, flushFold_view _ s1 h.filed1, h.view o]
    by_cases ho : o ∈ flushOrd order s1
    · rw [if_pos ho, if_pos ((hord o).mpr ho)]
    · rw [if_neg ho, if_neg (fun hx => ho ((hord o).mp hx))]
  · intro o ho
    have ho' : (assocGet ((flushOrd order s2).foldl flushStep s2).mem o).isSome = true := ho
    show (assocGet ((flushOrd order s1).foldl flushStep s1).mem o).isSome = true
    rw [flushFold_res] at ho' ⊢
    exact h.res o ho'
  · exact (flushFold_filed _ s1 h.filed1).of_mem_eq rfl
  · exact (flushFold_filed _ s2 h.filed2).of_mem_eq rfl
  · exact flushFold_nodup _ s1 h.nodup1
  · exact flushFold_nodup _ s2 h.nodup2

/-! ### CREATE TABLE -/

theorem Sim.createBody (fields : List FieldDef) (name : Bytes) (order : List Nat) (doFlush : Bool) :
    Sim (createBody fields name order doFlush) := by
  unfold Store.createBody
  refine (Sim.appendNode _ _).bind fun pgOff => (Sim.insertPageTable _ _).bind fun _ =>
    (Sim.relationOffset _).bind fun schemaRoot => (Sim.fetch _).bind fun _ =>
    (Sim.insertSchemaRows _ _ _).bind fun _ => ?_
  split
  · exact Sim.flushPages _
  · exact Sim.pure _

theorem Sim.createTable (fields : List FieldDef) (name : Bytes) (order : List Nat) (doFlush : Bool) :
    Sim (createTable fields name order doFlush) := by
  intro s1 s2 h
  have h0 := Sim.relationOffset name s1 s2 h
  unfold Store.createTable
  cases e2 : Store.relationOffset name s2 with
  | ok a t2 =>
    rw [e2] at h0
    obtain ⟨t1, e1, ht⟩ := h0
    rw [e1]
    exact SRel.err ht
  | err x t2 =>
    rw [e2] at h0
    obtain ⟨t1, e1, ht⟩ := h0
    rw [e1]
    cases x
    case tableNotExist =>
      simp only
      cases checkFieldsFrom [] fields with
      | some e => exact SRel.err ht
      | none =>
        cases checkCatalogRows fields name with
        | some e => exact SRel.err ht
        | none => exact Sim.createBody fields name order doFlush t1 t2 ht
    all_goals exact SRel.err ht
  | panic p => trivial
  | unmodelled w =>
    rw [e2] at h0
    have h0' : Store.relationOffset name s1 = .unmodelled w := h0
    rw [h0']; rfl
  | fuel =>
    rw [e2] at h0
    have h0' : Store.relationOffset name s1 = .fuel := h0
    rw [h0']; rfl

end Mkdb.Store
