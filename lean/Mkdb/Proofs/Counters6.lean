import Mkdb.Proofs.Counters5
import Mkdb.Proofs.PtSelfFree2
/-!
The header counters, part 6 (W16): **the histories of the crash theorems (`SpecRun`, `Rounds`, `HistCT`)
are histories `Hist`; in them the log measures the work, and recovery costs no page.**

* `RunAdv`, `specRun_adv`: a run of accepted statements (`SpecRun`) appends records to the log and
  consumes exactly one LSN per record, one row id per INSERT record, at most 66 pages per INSERT record;
  it logs exactly as many INSERT records as it was given rows to insert.
* `specRun_hist`, `rounds_hist`, `histCT_hist`: `SpecRun`, `Rounds` and `HistCT` histories are `Hist`
  histories (so `hist_bounds` applies to them).
* `HistR r c t`: the histories `HistCT` from CREATE DATABASE with what the final state does not show counted:
  `r` recoveries, `c` catalog rows and `t` tables created.  `histR_histCT`, `histCT_histR`: they are the
  same histories.
* **`histR_bounds`**: in these histories - every statement accepted, every database checkpointed - the
  counters are bounded by the LOG (never truncated): row-id counter `≤ 8 + c + #INSERT records`, LSN counter
  `≤ 8 + 2c + #records + r`, frontier `≤ 12288 + t pages + 66 pages × (c + #INSERT records)`: a recovery
  re-allocates exactly the pages the crash lost (`Ckpt.recover_round_full`), however many recoveries.
-/
set_option autoImplicit false
namespace Mkdb.Store
open Mkdb.Page Mkdb.Tuple Mkdb.Generated Mkdb.Tree Mkdb.Engine

/-! ### runs of accepted statements -/

/-- what a run of accepted statements did: the records it appended account for the LSNs, the row ids and
the pages; the data-file header is untouched -/
structure RunAdv (db dbN : Engine.DB) : Prop where
  logs : ∃ logs, dbN.wal = db.wal ++ logs ∧ Logged db.store dbN.store logs
  f_mono : db.store.hdr.nextFree ≤ dbN.store.hdr.nextFree
  dhdr : dbN.store.dhdr = db.store.dhdr

theorem RunAdv.refl (db : Engine.DB) : RunAdv db db :=
  ⟨⟨[], by rw [List.append_nil], Logged.nil (Adv.refl _)⟩, Nat.le_refl _, rfl⟩

theorem Logged.k_mono {a b : Store} {l : List WalRec} (h : Logged a b l) : a.hdr.lastKey ≤ b.hdr.lastKey := by
  rw [h.kexact]; exact Nat.le_add_right _ _

theorem RunAdv.trans {a b c : Engine.DB} (h1 : RunAdv a b) (h2 : RunAdv b c) : RunAdv a c := by
  obtain ⟨⟨l1, w1, g1⟩, f1, d1⟩ := h1
  obtain ⟨⟨l2, w2, g2⟩, f2, d2⟩ := h2
  exact ⟨⟨l1 ++ l2, by rw [w2, w1, List.append_assoc], g1.append g2 g1.k_mono g2.k_mono⟩,
    Nat.le_trans f1 f2, d2.trans d1⟩

/-- the counters after the run, from the records -/
theorem RunAdv.counters {db dbN : Engine.DB} (h : RunAdv db dbN) :
    dbN.store.hdr.lastKey + insCount db.wal = db.store.hdr.lastKey + insCount dbN.wal ∧
    dbN.store.hdr.nextLSN + db.wal.length = db.store.hdr.nextLSN + dbN.wal.length ∧
    dbN.store.hdr.nextFree + 270336 * insCount db.wal ≤ db.store.hdr.nextFree + 270336 * insCount dbN.wal ∧
    db.wal.length ≤ dbN.wal.length ∧ insCount db.wal ≤ insCount dbN.wal := by
  obtain ⟨⟨l, w, g⟩, _, _⟩ := h
  have e1 := g.kexact
  have e2 := g.exact
  have e3 := g.pages
  rw [w, insCount_append, List.length_append]
  exact ⟨by omega, by omega, by omega, by omega, by omega⟩

/-- the rows a list of statements is given to insert -/
def insRows : List EStmt → Nat
  | [] => 0
  | .insert _ _ rows :: rest => rows.length + insRows rest
  | .delete _ _ :: rest => insRows rest
  | .update _ _ _ :: rest => insRows rest

theorem evalInsert_runAdv {db db' : Engine.DB} {table : Bytes} {cols : List Bytes} {rows : List (List Val)}
    {n : Nat} (h : Engine.evalInsert db table cols rows = .ok n db') : RunAdv db db' := by
  have hc := evalInsert_counters db table cols rows
  rw [h] at hc
  exact ⟨hc.2, hc.1.f_mono, hc.1.dhdr⟩

theorem resUD_runAdv {α} {db db' : Engine.DB} {r : Engine.Res α} {a : α} (hc : ResUD db r) (h : r = .ok a db') :
    RunAdv db db' := by
  subst h
  exact ⟨hc.2, by rw [hc.1.f_eq]; exact Nat.le_refl _, hc.1.dhdr⟩

/-- **A run of accepted statements**: `RunAdv`, and the INSERT records it logged are as many as the rows it
was given. -/
theorem specRun_adv {sch : Levels} {db dbN : Engine.DB} {sdb sdbN : Spec.SDB} {stmts : List EStmt}
    (run : SpecRun sch db sdb stmts dbN sdbN) :
    RunAdv db dbN ∧ insCount dbN.wal = insCount db.wal + insRows stmts := by
  induction run with
  | nil db sdb => exact ⟨RunAdv.refl _, rfl⟩
  | insert table cols rows hvalid hspec hrunok heval hrest ih =>
    obtain ⟨logs, hw, hc⟩ := evalInsert_ok_count heval
    refine ⟨(evalInsert_runAdv heval).trans ih.1, ?_⟩
    rw [ih.2, hw, insCount_append, hc]
    simp only [insRows]
    omega
  | @delete db db1 db2 sdb sdb1 sdb2 rest n table w hspec heval hrest ih =>
    have h1 := resUD_runAdv (evalDelete_counters db table w) heval
    refine ⟨h1.trans ih.1, ?_⟩
    obtain ⟨⟨l, hw, g⟩, _, _⟩ := h1
    have hk := (evalDelete_counters db table w)
    rw [heval] at hk
    have e0 : insCount l = 0 := by have := g.kexact; have := hk.1.k_eq; omega
    rw [ih.2, hw, insCount_append, e0]
    simp only [insRows]
    omega
  | @update db db1 db2 sdb sdb1 sdb2 rest table sets w hvalid hspec heval hrest ih =>
    have h1 := resUD_runAdv (evalUpdate_counters db table sets w) heval
    refine ⟨h1.trans ih.1, ?_⟩
    obtain ⟨⟨l, hw, g⟩, _, _⟩ := h1
    have hk := (evalUpdate_counters db table sets w)
    rw [heval] at hk
    have e0 : insCount l = 0 := by have := g.kexact; have := hk.1.k_eq; omega
    rw [ih.2, hw, insCount_append, e0]
    simp only [insRows]
    omega

/-- **After any history from CREATE DATABASE and a run of accepted statements, the counters fit**, when
the work of the history plus the number of records the run logged is at most `2^32 - 9`. -/
theorem hist_run_fit {db0 dbC : Engine.DB} {w : Work} (hist : Hist newDB w db0) (hr : RunAdv db0 dbC)
    (hN : w.total + (dbC.wal.length - db0.wal.length) ≤ maxRows) :
    dbC.store.hdr.lastKey < 2 ^ 32 ∧ dbC.store.hdr.nextLSN < 2 ^ 64 ∧ dbC.store.hdr.nextFree < 2 ^ 63 := by
  obtain ⟨h1, h2, h3⟩ := hist_from_create_database hist
  obtain ⟨⟨l, hw, g⟩, _, _⟩ := hr
  have e1 := g.kexact
  have e2 := g.exact
  have e3 := g.pages
  have e4 := insCount_le l
  rw [hw, List.length_append] at hN
  unfold Work.total maxRows at hN
  have p32 : (2 : Nat) ^ 32 = 4294967296 := by decide
  have p64 : (2 : Nat) ^ 64 = 18446744073709551616 := by decide
  have p63 : (2 : Nat) ^ 63 = 9223372036854775808 := by decide
  exact ⟨by omega, by omega, by omega⟩

/-- `CREATE TABLE t (a INT)` on the new database, as a history: two catalog rows, one table -/
theorem hist_tableDB : Hist newDB ⟨2, 1, 0, 0, 0⟩ tableDB := by
  have e : Engine.evalCreateTable newDB tname acols [] true = .ok () tableDB := create_table_eq
  exact Hist.createTable (w := {}) .nil tname acols [] true (by rw [e]; rfl)

/-! ### the log never holds more INSERT records than rows were given to INSERT statements -/

theorem recDB_adv {db db' : Engine.DB} {o1 o2 : List Nat} (hr : recDB (Engine.recover db o1 o2) = some db') :
    RecAdv db db' := by
  have hc := recover_counters db o1 o2
  cases e : Engine.recover db o1 o2 with
  | ok d => rw [e] at hc hr; simp only [recDB, Option.some.injEq] at hr; subst hr; exact hc
  | err m d => rw [e] at hc hr; simp only [recDB, Option.some.injEq] at hr; subst hr; exact hc
  | panic p => rw [e] at hr; cases hr
  | unmodelled w => rw [e] at hr; cases hr
  | fuel => rw [e] at hr; cases hr

theorem resUD_insCount {α} {db db' : Engine.DB} {r : Engine.Res α} (hc : ResUD db r) (hr : resDB r = some db') :
    insCount db'.wal = insCount db.wal := by
  rcases resDB_ok hr with ⟨a, e⟩ | ⟨x, e⟩
  · rw [e] at hc
    obtain ⟨ha, logs, hw, hl⟩ := hc
    have := hl.kexact
    have := ha.k_eq
    rw [hw, insCount_append]
    omega
  · rw [e] at hc
    rw [hc.2]

/-- **Every INSERT record in the log is a row some INSERT statement of the history was given.** -/
theorem hist_insCount {db0 db : Engine.DB} {w : Work} (hist : Hist db0 w db) :
    insCount db.wal ≤ insCount db0.wal + w.rows := by
  induction hist with
  | nil => exact Nat.le_add_right _ _
  | @insert w db db' _ table cols rows hr ih =>
    rcases resDB_ok hr with ⟨a, e⟩ | ⟨x, e⟩
    · obtain ⟨logs, hw, hc⟩ := evalInsert_ok_count e
      rw [hw, insCount_append, hc]
      show _ ≤ _ + (w.rows + rows.length)
      omega
    · have := evalInsert_counters db table cols rows
      rw [e] at this
      rw [this.2]
      show _ ≤ _ + (w.rows + rows.length)
      omega
  | @update w db db' _ table sets wh hr ih =>
    rw [resUD_insCount (evalUpdate_counters db table sets wh) hr]; exact ih
  | @delete w db db' _ table wh hr ih =>
    rw [resUD_insCount (evalDelete_counters db table wh) hr]; exact ih
  | @createTable w db db' _ name cols order doFlush hr ih =>
    have hc := evalCreateTable_counters db name cols order doFlush
    have hw : db'.wal = db.wal := by
      rcases resDB_ok hr with ⟨a, e⟩ | ⟨x, e⟩ <;> rw [e] at hc <;> exact hc.2
    rw [hw]
    show _ ≤ _ + (w.rows + (cols.length + 1))
    omega
  | @flush w db db' _ order hr ih =>
    obtain ⟨db2, e, _, _, hw⟩ := flush_counters db order
    rw [e] at hr
    simp only [resDB, Option.some.injEq] at hr
    subst hr
    rw [hw]; exact ih
  | @recover w db db' _ o1 o2 hr ih =>
    rw [(recDB_adv hr).wal]; exact ih
  | torn _ order j ih => exact ih
  | reopen _ ih => exact ih

/-- the work of a history never shrinks along it: the rows at any earlier moment are at most the final
rows; so what the recoveries replayed is at most `recoveries × rows` -/
theorem hist_replayed_le {db : Engine.DB} {w : Work} (hist : Hist newDB w db) : w.replayed ≤ w.recs * w.rows := by
  induction hist with
  | nil => exact Nat.le_refl _
  | @insert w db db' _ table cols rows hr ih =>
    show w.replayed ≤ w.recs * (w.rows + rows.length)
    rw [Nat.mul_add]; omega
  | update _ table sets wh hr ih => exact ih
  | delete _ table wh hr ih => exact ih
  | @createTable w db db' _ name cols order doFlush hr ih =>
    show w.replayed ≤ w.recs * (w.rows + (cols.length + 1))
    rw [Nat.mul_add]; omega
  | flush _ order hr ih => exact ih
  | @recover w db db' h o1 o2 hr ih =>
    have := hist_insCount h
    have e0 : insCount newDB.wal = 0 := rfl
    show w.replayed + insCount db.wal ≤ (w.recs + 1) * w.rows
    rw [Nat.add_mul]
    omega
  | torn _ order j ih => exact ih
  | reopen _ ih => exact ih

/-- **The frontier without the replay term**: after any history from CREATE DATABASE the allocation frontier
is at most `12288 + 66 pages × rows × (1 + recoveries) + 1 page × creates`. -/
theorem hist_frontier {db : Engine.DB} {w : Work} (hist : Hist newDB w db) :
    db.store.hdr.nextFree ≤ 12288 + 270336 * (w.rows * (1 + w.recs)) + 4096 * w.creates := by
  have h1 := (hist_from_create_database hist).2.2
  have h2 := hist_replayed_le hist
  have e : w.rows * (1 + w.recs) = w.rows + w.recs * w.rows := by rw [Nat.mul_add, Nat.mul_one, Nat.mul_comm]
  rw [e]
  omega

/-! ### the histories of the crash theorems are `Hist` histories -/

/-- **A `SpecRun` is a `Hist`**: its work is the rows it inserts and, for UPDATE / DELETE, LSNs that are
all accounted for by records in the log. -/
theorem specRun_hist {db0 : Engine.DB} {sch : Levels} {db dbN : Engine.DB} {sdb sdbN : Spec.SDB}
    {stmts : List EStmt} (run : SpecRun sch db sdb stmts dbN sdbN) :
    ∀ {w : Work}, Hist db0 w db → ∃ u, u + db.wal.length ≤ dbN.wal.length ∧
      Hist db0 ⟨w.rows + insRows stmts, w.creates, w.lsns + u, w.recs, w.replayed⟩ dbN := by
  induction run with
  | nil db sdb => intro w h; exact ⟨0, by omega, h⟩
  | insert table cols rows hvalid hspec hrunok heval hrest ih =>
    intro w h
    have h1 := h.insert table cols rows (db' := _) (by rw [heval]; rfl)
    obtain ⟨u, hu, h2⟩ := ih h1
    have := (evalInsert_runAdv heval).counters.2.2.2.1
    refine ⟨u, by omega, ?_⟩
    simp only [insRows, ← Nat.add_assoc]
    exact h2
  | @delete db db1 db2 sdb sdb1 sdb2 rest n table wh hspec heval hrest ih =>
    intro w h
    have h1 := h.delete table wh (db' := db1) (by rw [heval]; rfl)
    obtain ⟨u, hu, h2⟩ := ih h1
    have hc := (resUD_runAdv (evalDelete_counters db table wh) heval).counters
    refine ⟨(db1.store.hdr.nextLSN - db.store.hdr.nextLSN) + u, by omega, ?_⟩
    simp only [insRows, ← Nat.add_assoc]
    exact h2
  | @update db db1 db2 sdb sdb1 sdb2 rest table sets wh hvalid hspec heval hrest ih =>
    intro w h
    have h1 := h.update table sets wh (db' := db1) (by rw [heval]; rfl)
    obtain ⟨u, hu, h2⟩ := ih h1
    have hc := (resUD_runAdv (evalUpdate_counters db table sets wh) heval).counters
    refine ⟨(db1.store.hdr.nextLSN - db.store.hdr.nextLSN) + u, by omega, ?_⟩
    simp only [insRows, ← Nat.add_assoc]
    exact h2

/-- **`Rounds` are `Hist` histories** -/
theorem rounds_hist {db0 : Engine.DB} {sch : Levels} {db db' : Engine.DB} {sdb sdb' : Spec.SDB}
    (hr : Rounds sch db sdb db' sdb') {w : Work} (h : Hist db0 w db) : ∃ w', Hist db0 w' db' := by
  induction hr with
  | nil => exact ⟨w, h⟩
  | flush _ run hfl ih =>
    obtain ⟨w1, h1⟩ := ih
    obtain ⟨u, _, h2⟩ := specRun_hist run h1
    exact ⟨_, h2.flush _ (by rw [hfl]; rfl)⟩
  | crash _ run hrec ih =>
    obtain ⟨w1, h1⟩ := ih
    obtain ⟨u, _, h2⟩ := specRun_hist run h1
    exact ⟨_, h2.recover _ _ (by rw [hrec]; rfl)⟩

/-- **`HistCT` histories are `Hist` histories** -/
theorem histCT_hist {sch0 sch : Levels} {db0 db : Engine.DB} {sdb0 sdb : Spec.SDB}
    (hist : HistCT sch0 db0 sdb0 sch db sdb) : ∃ w, Hist db0 w db := by
  induction hist with
  | nil => exact ⟨_, .nil⟩
  | rounds _ hr ih =>
    obtain ⟨w, h⟩ := ih
    exact rounds_hist hr h
  | create _ name cols order hfind hn1 hn2 hfld hchk hroom heval hsch ih =>
    obtain ⟨w, h⟩ := ih
    have e : Engine.evalCreateTable _ name cols order true = .ok () _ := heval
    exact ⟨_, h.createTable name cols order true (by rw [e]; rfl)⟩

/-! ### the same histories, counted -/

/-- **The histories `HistCT` from CREATE DATABASE, with `r` recoveries, `c` catalog rows and `t` tables
created** (constructors: a round ending in a flush, a round ending in a crash and its recovery, an
accepted CREATE TABLE - exactly those of `Rounds` / `HistCT`). -/
inductive HistR : Nat → Nat → Nat → Levels → Engine.DB → Spec.SDB → Prop
  | nil : HistR 0 0 0 schNew newDB []
  | flush {r c t : Nat} {sch : Levels} {db1 dbN db2 : Engine.DB} {sdb1 sdbN : Spec.SDB} {stmts : List EStmt}
      {order : List Nat} (h : HistR r c t sch db1 sdb1) (run : SpecRun sch db1 sdb1 stmts dbN sdbN)
      (hfl : Engine.flush dbN order = .ok () db2) : HistR r c t sch db2 sdbN
  | crash {r c t : Nat} {sch : Levels} {db1 dbN db2 : Engine.DB} {sdb1 sdbN : Spec.SDB} {stmts : List EStmt}
      {o1 o2 : List Nat} (h : HistR r c t sch db1 sdb1) (run : SpecRun sch db1 sdb1 stmts dbN sdbN)
      (hrec : Engine.recover dbN o1 o2 = .ok db2) : HistR (r + 1) c t sch db2 sdbN
  | create {r c t : Nat} {sch1 sch2 : Levels} {db1 db2 : Engine.DB} {sdb1 : Spec.SDB}
      (h : HistR r c t sch1 db1 sdb1) (name : Bytes) (cols : List Sql.ColDef) (order : List Nat)
      (hfind : Spec.findTable sdb1 name = none) (hn1 : name ≠ sysPages) (hn2 : name ≠ sysSchema)
      (hfld : checkFieldsFrom [] (cols.map Engine.colTypeToField) = none)
      (hchk : checkCatalogRows (cols.map Engine.colTypeToField) name = none)
      (hroom : CreateRoom db1 sch1 cols)
      (heval : evalStmt db1 order (.createTable name cols) = .ok () db2)
      {pt2 : Levels} {tbls2 : List (Bytes × Levels)} (hsch : Cat db2.store pt2 sch2 tbls2) :
      HistR r (c + (cols.length + 1)) (t + 1) sch2 db2 (sdb1 ++ [⟨name, cols.map Spec.colField, []⟩])

/-- a counted history is a `HistCT` history -/
theorem histR_histCT {r c t : Nat} {sch : Levels} {db : Engine.DB} {sdb : Spec.SDB}
    (h : HistR r c t sch db sdb) : HistCT schNew newDB [] sch db sdb := by
  induction h with
  | nil => exact .nil
  | flush _ run hfl ih => exact .rounds ih (.flush .nil run hfl)
  | crash _ run hrec ih => exact .rounds ih (.crash .nil run hrec)
  | create _ name cols order hfind hn1 hn2 hfld hchk hroom heval hsch ih =>
    exact .create ih name cols order hfind hn1 hn2 hfld hchk hroom heval hsch

theorem rounds_histR {r c t : Nat} {sch : Levels} {db db' : Engine.DB} {sdb sdb' : Spec.SDB}
    (h : HistR r c t sch db sdb) (hr : Rounds sch db sdb db' sdb') : ∃ r', HistR r' c t sch db' sdb' := by
  induction hr with
  | nil => exact ⟨r, h⟩
  | flush _ run hfl ih => obtain ⟨r1, h1⟩ := ih; exact ⟨r1, h1.flush run hfl⟩
  | crash _ run hrec ih => obtain ⟨r1, h1⟩ := ih; exact ⟨r1 + 1, h1.crash run hrec⟩

/-- every `HistCT` history from CREATE DATABASE is a counted history -/
theorem histCT_histR {sch : Levels} {db : Engine.DB} {sdb : Spec.SDB}
    (hist : HistCT schNew newDB [] sch db sdb) : ∃ r c t, HistR r c t sch db sdb := by
  induction hist with
  | nil => exact ⟨0, 0, 0, .nil⟩
  | rounds _ hr ih =>
    obtain ⟨r, c, t, h⟩ := ih
    obtain ⟨r', h'⟩ := rounds_histR h hr
    exact ⟨r', c, t, h'⟩
  | create _ name cols order hfind hn1 hn2 hfld hchk hroom heval hsch ih =>
    obtain ⟨r, c, t, h⟩ := ih
    exact ⟨r, _, _, h.create name cols order hfind hn1 hn2 hfld hchk hroom heval hsch⟩

/-- the counters bounded by the log -/
structure LogBnd (db : Engine.DB) (r c t : Nat) : Prop where
  k : db.store.hdr.lastKey ≤ 8 + c + insCount db.wal
  l : db.store.hdr.nextLSN ≤ 8 + 2 * c + db.wal.length + r
  f : db.store.hdr.nextFree ≤ 12288 + 4096 * t + 270336 * (c + insCount db.wal)

theorem LogBnd.run {db dbN : Engine.DB} {r c t : Nat} (h : LogBnd db r c t) (hr : RunAdv db dbN) :
    LogBnd dbN r c t := by
  obtain ⟨a1, a2, a3, a4, a5⟩ := hr.counters
  obtain ⟨b1, b2, b3⟩ := h
  exact ⟨by omega, by omega, by omega⟩

/-- **In the histories of the crash theorems the log bounds the counters.** -/
theorem histR_bounds {r c t : Nat} {sch : Levels} {db : Engine.DB} {sdb : Spec.SDB}
    (h : HistR r c t sch db sdb) : LogBnd db r c t := by
  induction h with
  | nil => exact ⟨Nat.le_refl _, Nat.le_refl _, Nat.le_refl _⟩
  | @flush r c t sch db1 dbN db2 sdb1 sdbN stmts order _ run hfl ih =>
    have hN := ih.run (specRun_adv run).1
    obtain ⟨db', e, hh, _, hw⟩ := flush_counters dbN order
    rw [hfl] at e
    simp only [Engine.Res.ok.injEq, true_and] at e
    subst e
    obtain ⟨b1, b2, b3⟩ := hN
    exact ⟨by rw [hh, hw]; exact b1, by rw [hh, hw]; exact b2, by rw [hh, hw]; exact b3⟩
  | @crash r c t sch db1 dbN db2 sdb1 sdbN stmts o1 o2 h1 run hrec ih =>
    have hN := ih.run (specRun_adv run).1
    obtain ⟨pt, tbls, hk, _⟩ := histCT_ckpt (histR_histCT h1) ckpt_newDB noStale_new
    obtain ⟨db', _, _, e, hw, _, _, e1, e2, _, _, e5⟩ := hk.recover_round_full run o1 o2
    rw [hrec] at e
    simp only [Engine.RecRes.ok.injEq] at e
    subst e
    obtain ⟨b1, b2, b3⟩ := hN
    exact ⟨by rw [e2, hw]; exact b1, by rw [hw]; omega, by rw [e1, hw]; exact b3⟩
  | @create r c t sch1 sch2 db1 db2 sdb1 _ name cols order hfind hn1 hn2 hfld hchk hroom heval _ _ hsch ih =>
    have e : Engine.evalCreateTable db1 name cols order true = .ok () db2 := heval
    have hc := evalCreateTable_counters db1 name cols order true
    rw [e] at hc
    obtain ⟨⟨a1, a2, a3, a4, a5, a6, _⟩, hw⟩ := hc
    obtain ⟨b1, b2, b3⟩ := ih
    exact ⟨by rw [hw]; omega, by rw [hw]; omega, by rw [hw]; omega⟩

/-- … and after further accepted statements -/
theorem histR_run_bounds {r c t : Nat} {sch : Levels} {db dbN : Engine.DB} {sdb sdbN : Spec.SDB}
    {stmts : List EStmt} (h : HistR r c t sch db sdb) (run : SpecRun sch db sdb stmts dbN sdbN) :
    LogBnd dbN r c t := (histR_bounds h).run (specRun_adv run).1

end Mkdb.Store
