import Mkdb.Proofs.TornFlush6
/-!
Torn flush without page allocation, part 7: **a live run that allocates no page is a history of
page-local steps** (`Hist`).

* `live_run_nextFree_mono`: the allocation frontier never goes back along a live run.
* `Hist.nil`, `Hist.cons`: building histories.
* `live_run_hist_gen`, **`live_run_hist`**: a `LiveRunM` whose final allocation frontier is the initial
  one: every INSERT appended to the last leaf of its table without a split, no root moved, the page
  table is untouched; the descriptions along the run are the skeleton of the first one filled with the
  current leaf pages, the log has one record per step, and the final row-id counter is the initial one
  or the key of a logged INSERT.
-/
set_option autoImplicit false
namespace Mkdb.Store
open Mkdb.Page Mkdb.Tuple Mkdb.Generated Mkdb.Tree Mkdb.Engine

/-- the allocation frontier never goes back -/
theorem live_run_nextFree_mono (sch : Levels) {s0 sN : Store} {tbls tblsN : List (Bytes × Levels)}
    {stmts : List RStmt} {logs : List WalRec} (run : LiveRunM sch s0 tbls stmts sN tblsN logs) :
    ∀ (pt : Levels), Cat s0 pt sch tbls → s0.hdr.nextFree ≤ sN.hdr.nextFree := by
  induction run with
  | nil s tbls => intro pt h; exact Nat.le_refl _
  | @same s s1 s2 tbls tbls2 stmts logs hs _ ih =>
    intro pt h
    have := ih pt (h.of_same hs)
    rw [hs.2] at this
    exact this
  | @ins s s1 s2 tbls tbls2 rest logs logs2 table cols vals t schema buf t' nf' ht hsch hcols hnames henc hlen hins
      hd' hl' hbig hrun _ ih =>
    intro pt h
    obtain ⟨s', ptF, logs', erun, hc', _, hnf', _⟩ := insert_refines' s pt sch tbls h table t ht cols vals
      schema buf hsch hcols hnames henc hlen t' nf' hins hd' hl' hbig
    rw [hrun] at erun
    simp only [SRes.ok.injEq] at erun
    obtain ⟨rfl, rfl⟩ := erun
    have h1 := ih ptF hc'
    have h2 := insertAppend_nextFree t t' _ _ _ nf' buf hins
    omega
  | @upd s s1 s2 tbls tbls2 rest logs logs2 table rowId cols src t schema c m buf ht hsch hc hk' hdec henc hlen
      hrun _ ih =>
    intro pt h
    obtain ⟨s', l, d, _, _, erun, hc', _, _, _, hnf', _⟩ := update_cat h table t ht schema hsch rowId cols src
      (update_ok_names h ht hsch hrun) c hc hk' m buf hdec henc hlen
    rw [hrun] at erun
    simp only [SRes.ok.injEq] at erun
    obtain ⟨rfl, rfl⟩ := erun
    have := ih pt hc'
    omega
  | @updAbsent s s1 s2 tbls tbls2 rest logs logs2 table rowId cols src t schema ht hsch habs hrun _ ih =>
    intro pt h
    obtain ⟨s', erun, hs, hc'⟩ := update_cat_absent h table t ht schema hsch rowId cols src
      (update_ok_names h ht hsch hrun) habs
    rw [hrun] at erun
    simp only [SRes.ok.injEq] at erun
    obtain ⟨rfl, rfl⟩ := erun
    have := ih pt hc'
    rw [hs.2] at this
    exact this
  | @del s s1 s2 tbls tbls2 rest logs logs2 table rowId t c ht hc hk' hrun _ ih =>
    intro pt h
    obtain ⟨s', l, d, _, _, erun, hc', _, _, _, hnf', _⟩ := markDeleted_cat h table t ht rowId c hc hk'
    rw [hrun] at erun
    simp only [SRes.ok.injEq] at erun
    obtain ⟨rfl, rfl⟩ := erun
    have := ih pt hc'
    omega

/-! ### building histories -/

/-- a history prefixed with one more moment -/
def consP (c0 : Pages) (c' : Nat → Pages) : Nat → Pages
  | 0 => c0
  | j + 1 => c' j

section
variable {pt sch : Levels} {D0 : List (Bytes × Levels)} {nf K : Nat}

theorem Hist.nil (hnm : (D0.map (·.1)).Nodup) (hdj : D0.Pairwise (fun a b => ∀ o ∈ offs a.2, o ∉ offs b.2))
    (hln : ∀ e ∈ D0, (leafOffs e.2).Nodup) (hps : ∀ e ∈ D0, 0 < rootOff e.2) {c0 : Pages}
    (hf0 : ∀ e ∈ D0, PFiled c0 e.2)
    (hs0 : ∃ s, Cat s pt sch (fillT c0 D0) ∧ s.hdr.nextFree = nf ∧ s.hdr.lastKey ≤ K) :
    Hist pt sch D0 nf K [] (fun _ => c0) where
  names := hnm
  disj := hdj
  lnd := hln
  pos := hps
  filed := fun _ _ => hf0
  snap := fun _ _ => hs0
  step := fun j h => by simp at h

theorem Hist.cons {log : List WalRec} {c' : Nat → Pages} (H : Hist pt sch D0 nf K log c') {c0 : Pages} {rec : WalRec}
    (hf0 : ∀ e ∈ D0, PFiled c0 e.2)
    (hs0 : ∃ s, Cat s pt sch (fillT c0 D0) ∧ s.hdr.nextFree = nf ∧ s.hdr.lastKey ≤ K)
    (hst : StepC D0 nf c0 rec (c' 0)) : Hist pt sch D0 nf K (rec :: log) (consP c0 c') where
  names := H.names
  disj := H.disj
  lnd := H.lnd
  pos := H.pos
  filed := fun j hj => by
    cases j with
    | zero => exact hf0
    | succ j => exact H.filed j (by simpa using hj)
  snap := fun j hj => by
    cases j with
    | zero => exact hs0
    | succ j => exact H.snap j (by simpa using hj)
  step := fun j hj => by
    cases j with
    | zero => exact hst
    | succ j => exact H.step j (by simpa using hj)

theorem Hist.mono_K {log : List WalRec} {c : Nat → Pages} (H : Hist pt sch D0 nf K log c) {K' : Nat} (h : K ≤ K') :
    Hist pt sch D0 nf K' log c where
  names := H.names
  disj := H.disj
  lnd := H.lnd
  pos := H.pos
  filed := H.filed
  snap := fun j hj => by
    obtain ⟨s, a, b, c⟩ := H.snap j hj
    exact ⟨s, a, b, Nat.le_trans c h⟩
  step := H.step

end

theorem other_tables_of_disj {D0 : List (Bytes × Levels)}
    (hdj : D0.Pairwise (fun a b => ∀ o ∈ offs a.2, o ∉ offs b.2)) {table : Bytes} {t0 : Levels}
    (ht : (table, t0) ∈ D0) {o : Nat} (ho : o ∈ leafOffs t0) (e : Pages) (q : Leaf × Bool) :
    ∀ x ∈ D0, x.1 ≠ table → ∀ o' ∈ leafOffs x.2, setAt e o q o' = e o' := by
  intro x hx hn o' ho'
  apply setAt_other
  intro heq
  subst heq
  have := skel_unique hdj hx ht ho' ho
  exact hn (by rw [this])

/-- the leaf after a cell change -/
def leafUpd (f : LeafCell → LeafCell) (l : Leaf) (key lsn : Nat) : Leaf :=
  { l with cells := l.cells.map (Tree.updCell f key), lsn := lsn }

theorem updLeaves_fill' (f : LeafCell → LeafCell) (key lsn : Nat) {c : Pages} {t : Levels}
    (hf : PFiled c t) (hasc : KeysAsc (fill c t)) {o : Nat} (ho : o ∈ leafOffs t) {l : Leaf} {d : Bool}
    (hc : c o = (l, d)) (hany : l.cells.any (fun c => c.key == key) = true) :
    updLeaves f key lsn (fill c t) = fill (setAt c o (leafUpd f l key lsn, true)) t :=
  updLeaves_fill f key lsn hf hasc ho hc hany

/-- the pages of a tree of the table list are older than the LSN counter -/
theorem FreshM.flatten_lsn {s : Store} {tbls : List (Bytes × Levels)} (hf : FreshM s tbls) {table : Bytes}
    {t : Levels} (ht : (table, t) ∈ tbls) : ∀ x ∈ flatten t, nodeLSN x.2.1 < s.hdr.nextLSN :=
  fun x hx => hf.lsn _ ht x hx

/-- **A live run that allocates no page is a history of page-local steps** (general form: the run
starts from the description `fillT c0 D0`). -/
theorem live_run_hist_gen (sch : Levels) {s sN : Store} {tbls tblsN : List (Bytes × Levels)} {stmts : List RStmt}
    {logs : List WalRec} (run : LiveRunM sch s tbls stmts sN tblsN logs) :
    ∀ (pt : Levels) (D0 : List (Bytes × Levels)) (c0 : Pages), tbls = fillT c0 D0 → (∀ e ∈ D0, PFiled c0 e.2) →
      (D0.map (·.1)).Nodup → D0.Pairwise (fun a b => ∀ o ∈ offs a.2, o ∉ offs b.2) →
      (∀ e ∈ D0, (leafOffs e.2).Nodup) → (∀ e ∈ D0, 0 < rootOff e.2) →
      Cat s pt sch tbls → FreshM s tbls → sN.hdr.nextFree = s.hdr.nextFree →
      ∃ c : Nat → Pages, c 0 = c0 ∧ Hist pt sch D0 s.hdr.nextFree sN.hdr.lastKey logs c ∧
        tblsN = fillT (c logs.length) D0 ∧ Cat sN pt sch tblsN ∧ FreshM sN tblsN ∧
        (sN.hdr.lastKey = s.hdr.lastKey ∨ ∃ r ∈ logs, r.op = c_OpInsert ∧ r.cell = sN.hdr.lastKey) ∧
        s.hdr.lastKey ≤ sN.hdr.lastKey := by
  induction run with
  | nil s tbls =>
    intro pt D0 c0 htb hf0 hnm hdj hln hps h hf _
    subst htb
    exact ⟨fun _ => c0, rfl, Hist.nil hnm hdj hln hps hf0 ⟨s, h, rfl, Nat.le_refl _⟩, rfl, h, hf, .inl rfl,
      Nat.le_refl _⟩
  | @same s s1 s2 tbls tbls2 stmts logs hs _ ih =>
    intro pt D0 c0 htb hf0 hnm hdj hln hps h hf hnf
    obtain ⟨c, a0, a1, a2, a3, a4, a5, a6⟩ := ih pt D0 c0 htb hf0 hnm hdj hln hps (h.of_same hs)
      (hf.of_hdr (by rw [hs.2]; exact Nat.le_refl _) (by rw [hs.2]; exact Nat.le_refl _)) (by rw [hs.2]; exact hnf)
    rw [hs.2] at a1 a5 a6
    exact ⟨c, a0, a1, a2, a3, a4, a5, a6⟩
  | @ins s s1 s2 tbls tbls2 rest logs logs2 table cols vals t schema buf t' nf' ht hsch hcols hnames henc hlen hins
      hd' hl' hbig hrun hrest ih =>
    intro pt D0 c0 htb hf0 hnm hdj hln hps h hf hnf
    subst htb
    obtain ⟨s', ptF, logs', erun, hc', hlk', hnf', hcase⟩ := insert_refines' s pt sch _ h table t ht cols vals
      schema buf hsch hcols hnames henc hlen t' nf' hins hd' hl' hbig
    rw [hrun] at erun
    simp only [SRes.ok.injEq] at erun
    obtain ⟨rfl, rfl⟩ := erun
    -- nothing was allocated
    have hmono := live_run_nextFree_mono sch hrest ptF hc'
    have hle := insertAppend_nextFree t t' _ _ _ nf' buf hins
    have hnfeq : nf' = s.hdr.nextFree := by omega
    subst hnfeq
    obtain ⟨e0, he0, hte⟩ := mem_fillT_inv ht
    obtain ⟨table0, t0⟩ := e0
    simp only [Prod.mk.injEq] at hte
    obtain ⟨rfl, rfl⟩ := hte
    have hft := hf0 _ he0
    obtain ⟨pre, p0, l, d, hl, hcp, hv, hcap, rfl⟩ := insertAppend_fill_inv (hln _ he0) hins
    have hp0 : p0 ∈ t0.leaves := by rw [hl]; simp
    have hlo : l.off = p0.1.off := by
      have := hft p0 hp0
      rw [hcp] at this
      exact this
    have ho : p0.1.off ∈ leafOffs t0 := mem_leafOffs hp0
    have hf1 : ∀ e ∈ D0, PFiled (setAt c0 p0.1.off (leafApp l (s.hdr.lastKey + 1) s.hdr.nextLSN buf, true)) e.2 :=
      fun e he => (hf0 e he).setAt hlo
    -- the root did not move
    have hroot : rootOff (fill (setAt c0 p0.1.off (leafApp l (s.hdr.lastKey + 1) s.hdr.nextLSN buf, true)) t0) =
        rootOff (fill c0 t0) := by rw [rootOff_fill (hf1 _ he0), rootOff_fill hft]
    obtain ⟨hptF, hlsn1, hlogs⟩ : ptF = pt ∧ s1.hdr.nextLSN = s.hdr.nextLSN + 1 ∧
        logs = [⟨c_OpInsert, s.hdr.nextLSN, rootOff (fill c0 t0), s.hdr.lastKey + 1, buf⟩] := by
      rcases hcase with ⟨_, a, b, c⟩ | ⟨hne, _⟩
      · exact ⟨a, b, c⟩
      · exact absurd hroot hne
    subst hptF
    subst hlogs
    have htb1 := setTable_fillT (c := c0) he0 hnm
      (other_tables_of_disj hdj he0 ho c0 (leafApp l (s.hdr.lastKey + 1) s.hdr.nextLSN buf, true))
    obtain ⟨c', a0, a1, a2, a3, a4, a5, a6⟩ := ih ptF D0 _ htb1 hf1 hnm hdj hln hps hc'
      (hf.ins_step ht hins (by omega) hnf') (by rw [hnf', hnf])
    rw [hnf'] at a1
    have hkt := (h.tree _ (Cat.tb_mem ht)).2.2.2.2
    have hstep : StepC D0 s.hdr.nextFree c0
        ⟨c_OpInsert, s.hdr.nextLSN, rootOff (fill c0 t0), s.hdr.lastKey + 1, buf⟩ (c' 0) := by
      rw [a0, rootOff_fill hft]
      refine ⟨table, t0, p0.1.off, l, d, _, he0, ho, hcp, rfl, fun x hx => hf.flatten_lsn ht x hx, ?_⟩
      refine StepKind.ins pre p0 _ _ buf hl rfl ?_ hv hcap hbig
      intro x hx
      have := hkt x.key (List.mem_map.mpr ⟨x, hx, rfl⟩)
      omega
    refine ⟨consP c0 c', rfl, a1.cons hf0 ⟨s, h, rfl, by omega⟩ hstep, ?_, a3, a4, ?_, by omega⟩
    · rw [a2]; rfl
    · right
      rcases a5 with a5 | ⟨r, hr, hop, hcell⟩
      · exact ⟨_, List.mem_cons_self, rfl, by rw [a5, hlk']⟩
      · exact ⟨r, List.mem_cons_of_mem _ hr, hop, hcell⟩
  | @upd s s1 s2 tbls tbls2 rest logs logs2 table rowId cols src t schema c m buf ht hsch hc hk' hdec henc hlen
      hrun _ ih =>
    intro pt D0 c0 htb hf0 hnm hdj hln hps h hf hnf
    subst htb
    obtain ⟨s', l, d, hm, hcl, erun, hc', hlsn', hlk', _, hnf', _⟩ := update_cat h table t ht schema hsch rowId
      cols src (update_ok_names h ht hsch hrun) c hc hk' m buf hdec henc hlen
    rw [hrun] at erun
    simp only [SRes.ok.injEq] at erun
    obtain ⟨rfl, rfl⟩ := erun
    obtain ⟨e0, he0, hte⟩ := mem_fillT_inv ht
    obtain ⟨table0, t0⟩ := e0
    simp only [Prod.mk.injEq] at hte
    obtain ⟨rfl, rfl⟩ := hte
    have hft := hf0 _ he0
    obtain ⟨o, ho, hco⟩ := mem_fill_leaves hm
    have hlo : l.off = o := by
      obtain ⟨p, hp, rfl⟩ := List.mem_map.mp ho
      have := hft p hp
      rw [← hco] at this
      exact this
    have hany : l.cells.any (fun x => x.key == rowId) = true :=
      List.any_eq_true.mpr ⟨c, hcl, by simp [hk']⟩
    have hIt := (h.tree _ (Cat.tb_mem ht)).2.1
    have hnew := updLeaves_fill' (fun x : LeafCell => { x with val := buf }) rowId s.hdr.nextLSN hft hIt.asc ho hco.symm hany
    have hc'0 := hc'
    rw [setVal_eq, hnew] at hc'
    have hf1 : ∀ e ∈ D0, PFiled (setAt c0 o (leafUpd (fun x => { x with val := buf }) l rowId s.hdr.nextLSN, true)) e.2 := fun e he => (hf0 e he).setAt hlo
    have htb1 := setTable_fillT (c := c0) he0 hnm
      (other_tables_of_disj hdj he0 ho c0 (leafUpd (fun x => { x with val := buf }) l rowId s.hdr.nextLSN, true))
    rw [htb1] at hc'
    have hfr : FreshM s1 (setTable (fillT c0 D0) table (setVal (fill c0 t0) rowId s.hdr.nextLSN buf)) := by
      rw [setVal_eq]
      exact hf.upd_step ht (fun x : LeafCell => { x with val := buf }) rowId (s' := s1) (by omega) hnf'
    obtain ⟨c', a0, a1, a2, a3, a4, a5, a6⟩ := ih pt D0 _ (by rw [setVal_eq, hnew, htb1]) hf1 hnm hdj hln hps hc'0 hfr
      (by rw [hnf', hnf])
    rw [hnf'] at a1
    have hstep : StepC D0 s.hdr.nextFree c0 ⟨c_OpUpdate, s.hdr.nextLSN, l.off, rowId, buf⟩ (c' 0) := by
      rw [a0, hlo]
      exact ⟨table, t0, o, l, d, _, he0, ho, hco.symm, rfl, fun x hx => hf.flatten_lsn ht x hx,
        StepKind.upd rowId _ buf hany hlen⟩
    refine ⟨consP c0 c', rfl, a1.cons hf0 ⟨s, h, rfl, by omega⟩ hstep, ?_, a3, a4, ?_, by omega⟩
    · rw [a2]; rfl
    · rcases a5 with a5 | ⟨r, hr, hop, hcell⟩
      · left; rw [a5, hlk']
      · exact .inr ⟨r, List.mem_cons_of_mem _ hr, hop, hcell⟩
  | @updAbsent s s1 s2 tbls tbls2 rest logs logs2 table rowId cols src t schema ht hsch habs hrun _ ih =>
    intro pt D0 c0 htb hf0 hnm hdj hln hps h hf hnf
    obtain ⟨s', erun, hs, hc'⟩ := update_cat_absent h table t ht schema hsch rowId cols src
      (update_ok_names h ht hsch hrun) habs
    rw [hrun] at erun
    simp only [SRes.ok.injEq] at erun
    obtain ⟨rfl, rfl⟩ := erun
    obtain ⟨c, a0, a1, a2, a3, a4, a5, a6⟩ := ih pt D0 c0 htb hf0 hnm hdj hln hps hc'
      (hf.of_hdr (by rw [hs.2]; exact Nat.le_refl _) (by rw [hs.2]; exact Nat.le_refl _)) (by rw [hs.2]; exact hnf)
    rw [hs.2] at a1 a5 a6
    exact ⟨c, a0, by rw [List.nil_append]; exact a1, by rw [List.nil_append]; exact a2, a3, a4,
      by rw [List.nil_append]; exact a5, a6⟩
  | @del s s1 s2 tbls tbls2 rest logs logs2 table rowId t c ht hc hk' hrun _ ih =>
    intro pt D0 c0 htb hf0 hnm hdj hln hps h hf hnf
    subst htb
    obtain ⟨s', l, d, hm, hcl, erun, hc', hlsn', hlk', _, hnf', _⟩ := markDeleted_cat h table t ht rowId c hc hk'
    rw [hrun] at erun
    simp only [SRes.ok.injEq] at erun
    obtain ⟨rfl, rfl⟩ := erun
    obtain ⟨e0, he0, hte⟩ := mem_fillT_inv ht
    obtain ⟨table0, t0⟩ := e0
    simp only [Prod.mk.injEq] at hte
    obtain ⟨rfl, rfl⟩ := hte
    have hft := hf0 _ he0
    obtain ⟨o, ho, hco⟩ := mem_fill_leaves hm
    have hlo : l.off = o := by
      obtain ⟨p, hp, rfl⟩ := List.mem_map.mp ho
      have := hft p hp
      rw [← hco] at this
      exact this
    have hany : l.cells.any (fun x => x.key == rowId) = true :=
      List.any_eq_true.mpr ⟨c, hcl, by simp [hk']⟩
    have hIt := (h.tree _ (Cat.tb_mem ht)).2.1
    have hnew := updLeaves_fill' (fun x : LeafCell => { x with deleted := true }) rowId s.hdr.nextLSN hft hIt.asc ho
      hco.symm hany
    have hc'0 := hc'
    rw [setDeleted_eq, hnew] at hc'
    have hf1 : ∀ e ∈ D0, PFiled (setAt c0 o (leafUpd (fun x => { x with deleted := true }) l rowId s.hdr.nextLSN, true)) e.2 := fun e he => (hf0 e he).setAt hlo
    have htb1 := setTable_fillT (c := c0) he0 hnm
      (other_tables_of_disj hdj he0 ho c0 (leafUpd (fun x => { x with deleted := true }) l rowId s.hdr.nextLSN, true))
    rw [htb1] at hc'
    have hfr : FreshM s1 (setTable (fillT c0 D0) table (setDeleted (fill c0 t0) rowId s.hdr.nextLSN)) := by
      rw [setDeleted_eq]
      exact hf.upd_step ht (fun x : LeafCell => { x with deleted := true }) rowId (s' := s1) (by omega) hnf'
    obtain ⟨c', a0, a1, a2, a3, a4, a5, a6⟩ := ih pt D0 _ (by rw [setDeleted_eq, hnew, htb1]) hf1 hnm hdj hln hps hc'0 hfr
      (by rw [hnf', hnf])
    rw [hnf'] at a1
    have hstep : StepC D0 s.hdr.nextFree c0 ⟨c_OpDelete, s.hdr.nextLSN, l.off, rowId, []⟩ (c' 0) := by
      rw [a0, hlo]
      exact ⟨table, t0, o, l, d, _, he0, ho, hco.symm, rfl, fun x hx => hf.flatten_lsn ht x hx,
        StepKind.del rowId _ hany⟩
    refine ⟨consP c0 c', rfl, a1.cons hf0 ⟨s, h, rfl, by omega⟩ hstep, ?_, a3, a4, ?_, by omega⟩
    · rw [a2]; rfl
    · rcases a5 with a5 | ⟨r, hr, hop, hcell⟩
      · left; rw [a5, hlk']
      · exact .inr ⟨r, List.mem_cons_of_mem _ hr, hop, hcell⟩

/-- the skeleton facts a catalog gives -/
theorem Cat.skel {s : Store} {pt sch : Levels} {tbls : List (Bytes × Levels)} (h : Cat s pt sch tbls) :
    tbls.Pairwise (fun a b => ∀ o ∈ offs a.2, o ∉ offs b.2) ∧ ∀ e ∈ tbls, (leafOffs e.2).Nodup := by
  refine ⟨h.disj_parts.2.2.2, ?_⟩
  intro e he
  exact (Lookup.offs_split e.2 _ (h.tree e.2 (Cat.tb_mem he)).2.1.offs).1

/-- **A live run that allocates no page is a history of page-local steps** over the skeleton of the
description it starts from. -/
theorem live_run_hist (sch : Levels) {s sN : Store} {tbls tblsN : List (Bytes × Levels)} {stmts : List RStmt}
    {logs : List WalRec} (run : LiveRunM sch s tbls stmts sN tblsN logs) (pt : Levels)
    (h : Cat s pt sch tbls) (hf : FreshM s tbls) (hnf : sN.hdr.nextFree = s.hdr.nextFree) :
    ∃ c : Nat → Pages, Hist pt sch tbls s.hdr.nextFree sN.hdr.lastKey logs c ∧ fillT (c 0) tbls = tbls ∧
      tblsN = fillT (c logs.length) tbls ∧ Cat sN pt sch tblsN ∧ FreshM sN tblsN ∧
      (sN.hdr.lastKey = s.hdr.lastKey ∨ ∃ r ∈ logs, r.op = c_OpInsert ∧ r.cell = sN.hdr.lastKey) ∧
      s.hdr.lastKey ≤ sN.hdr.lastKey := by
  obtain ⟨hdj, hln⟩ := h.skel
  have hfill := fillT_pageOf hdj hln
  obtain ⟨c, a0, a1, a2, a3, a4, a5, a6⟩ := live_run_hist_gen sch run pt tbls (pageOf tbls) hfill.symm
    (pFiled_pageOf hdj hln) h.tnames hdj hln (fun e he => hf.pos e he _ (rootOff_mem_offs e.2 _ (h.tree e.2 (Cat.tb_mem he)).2.1))
    h hf hnf
  exact ⟨c, a1, by rw [a0]; exact hfill, a2, a3, a4, a5, a6⟩

end Mkdb.Store
