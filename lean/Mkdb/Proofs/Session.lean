import Mkdb.Model.Session
/-! Lemmas about the session model: the database table is a finite map, statements touch only the
selected database. -/
namespace Mkdb.Session
open Mkdb.Engine Mkdb.Store Mkdb.Sql

def names (s : Sess) : List String := s.dbs.map (·.1)

theorem find_map_set (l : List (String × DB)) (n m : String) (db : DB) :
    ((l.map fun p => if p.1 == n then (n, db) else p).find? (·.1 == m)) =
      if m == n then (if l.any (·.1 == n) then some (n, db) else none) else l.find? (·.1 == m) := by
  induction l with
  | nil => simp
  | cons p rest ih =>
    rw [List.map_cons, List.find?_cons, ih, List.find?_cons, List.any_cons]
    by_cases hpn : p.1 = n <;> by_cases hmn : m = n <;> by_cases hpm : p.1 = m <;> grind

theorem getDB_setDB (s : Sess) (n m : String) (db : DB) :
    getDB (setDB s n db) m = if m == n then some db else getDB s m := by
  unfold getDB setDB
  by_cases hex : s.dbs.any (·.1 == n)
  · simp only [hex, if_true]
    rw [find_map_set]
    by_cases hmn : m == n <;> simp [hmn, hex]
  · simp only [hex, Bool.false_eq_true, if_false, List.find?_append]
    have hnone : ∀ x ∈ s.dbs, (x.1 == n) = false := by
      intro x hx
      cases h : (x.1 == n) with
      | false => rfl
      | true => exact absurd (List.any_eq_true.mpr ⟨x, hx, h⟩) hex
    by_cases hmn : m == n
    · have : s.dbs.find? (·.1 == m) = none := by
        rw [List.find?_eq_none]; intro x hx
        rw [beq_iff_eq] at hmn; subst hmn; simp [hnone x hx]
      have hnm : (n == m) = true := by rw [beq_iff_eq] at hmn ⊢; exact hmn.symm
      simp [this, hmn, hnm]
    · have hnm : (n == m) = false := by
        cases h : (n == m) with
        | false => rfl
        | true => rw [beq_iff_eq] at h; subst h; simp at hmn
      simp only [hmn, Bool.false_eq_true, if_false, List.find?_cons, hnm, List.find?_nil]
      cases s.dbs.find? (·.1 == m) <;> rfl

theorem names_setDB (s : Sess) (n : String) (db : DB) :
    names (setDB s n db) = if (getDB s n).isSome then names s else names s ++ [n] := by
  unfold names setDB getDB
  by_cases hex : s.dbs.any (·.1 == n)
  · have hsome : (s.dbs.find? (·.1 == n)).isSome = true := by
      rw [List.find?_isSome]; simpa using hex
    simp only [hex, if_true, Option.isSome_map, hsome, List.map_map]
    apply List.map_congr_left
    intro p _
    by_cases h : p.1 = n <;> simp [h]
  · have hnone : (s.dbs.find? (·.1 == n)).isSome = false := by
      cases h : (s.dbs.find? (·.1 == n)).isSome with
      | false => rfl
      | true => rw [List.find?_isSome] at h; exact absurd (by simpa using h) hex
    simp [hex, hnone]

theorem setDB_cur (s : Sess) (n : String) (db : DB) : (setDB s n db).cur = s.cur := rfl

/-- a statement routed to the selected database leaves every other database, the selection and the list
of names alone -/
theorem onCurrent_frame {α} (s : Sess) (f : DB → Res α) :
    (onCurrent s f).1.cur = s.cur ∧ names (onCurrent s f).1 = names s ∧
    ∀ m, s.cur ≠ some m → getDB (onCurrent s f).1 m = getDB s m := by
  unfold onCurrent
  split
  · exact ⟨rfl, rfl, fun _ _ => rfl⟩
  · rename_i n hc
    split
    · exact ⟨rfl, rfl, fun _ _ => rfl⟩
    · rename_i db hg
      have hn : ∀ db', names (setDB s n db') = names s := by
        intro db'; rw [names_setDB, hg]; rfl
      have hm : ∀ db' m, s.cur ≠ some m → getDB (setDB s n db') m = getDB s m := by
        intro db' m hne
        rw [getDB_setDB]
        have : (m == n) = false := by
          cases h : (m == n) with
          | false => rfl
          | true => rw [beq_iff_eq] at h; subst h; exact absurd hc hne
        simp [this]
      split
      · exact ⟨rfl, hn _, hm _⟩
      · exact ⟨rfl, hn _, hm _⟩
      · exact ⟨rfl, rfl, fun _ _ => rfl⟩

end Mkdb.Session
