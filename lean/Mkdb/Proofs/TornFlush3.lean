import Mkdb.Proofs.TornFlush2
/-!
Torn flush without page allocation, part 3: **a history of page-local steps.**

* `StepKind`, `StepC`: what one logged record does to the leaf pages when nothing is allocated: an
  INSERT record appends its cell to the last leaf page of the table, an UPDATE / DELETE record rewrites
  the cell in the leaf page it names; the record's LSN is newer than every page of the tree.
* `Hist`: a history `c 0, c 1, …, c N` of leaf pages over a frozen skeleton `D0`, one `StepC` per log
  record, with a store holding each catalog description `fillT (c j) D0`.
* `LeafEv`, `Hist.ev`: a page only moves forward: later versions have the same offset and sibling
  links, an LSN at least as large, and all the keys.
* `Hist.keys_const`: the key list of a leaf that is not the last one of its tree never changes.
* `Hist.lsn_at`, `Hist.key_at`: after the step of record `j` its page carries the record's LSN (and, for an
  INSERT, its key) - and so does every later version.
-/
set_option autoImplicit false
namespace Mkdb.Store
open Mkdb.Page Mkdb.Tuple Mkdb.Generated Mkdb.Tree Mkdb.Engine

/-- the change of the page `l` at offset `o` of the tree (skeleton `t0`, pages `c`) that a record logs -/
inductive StepKind (nf : Nat) (c : Pages) (t0 : Levels) (o : Nat) (l : Leaf) : WalRec → Leaf → Prop
  | ins (pre : List (Leaf × Bool)) (p0 : Leaf × Bool) (key lsn : Nat) (buf : Bytes)
      (hl : t0.leaves = pre ++ [p0]) (ho : p0.1.off = o)
      (hfresh : ∀ x ∈ cells (fill c t0), x.key < key) (hv : buf.length ≤ c_maxValueSize)
      (hcap : (leafApp l key lsn buf).cells.length < c_maxLeafNodeCells)
      (hbig : (nf : Int) ≤ 9223372036854775807) :
      StepKind nf c t0 o l ⟨c_OpInsert, lsn, rootOff t0, key, buf⟩ (leafApp l key lsn buf)
  | upd (key lsn : Nat) (buf : Bytes) (hany : l.cells.any (fun x => x.key == key) = true)
      (hv : buf.length ≤ c_maxValueSize) :
      StepKind nf c t0 o l ⟨c_OpUpdate, lsn, o, key, buf⟩
        { l with cells := l.cells.map (Tree.updCell (fun x => { x with val := buf }) key), lsn := lsn }
  | del (key lsn : Nat) (hany : l.cells.any (fun x => x.key == key) = true) :
      StepKind nf c t0 o l ⟨c_OpDelete, lsn, o, key, []⟩
        { l with cells := l.cells.map (Tree.updCell (fun x => { x with deleted := true }) key), lsn := lsn }

/-- one record: the page at `o`, a leaf of the table `table`, changes from `l` to `l'` (now dirty) -/
def StepC (D0 : List (Bytes × Levels)) (nf : Nat) (c : Pages) (r : WalRec) (c' : Pages) : Prop :=
  ∃ table t0 o l d l', (table, t0) ∈ D0 ∧ o ∈ leafOffs t0 ∧ c o = (l, d) ∧ c' = setAt c o (l', true) ∧
    (∀ x ∈ flatten (fill c t0), nodeLSN x.2.1 < r.lsn) ∧ StepKind nf c t0 o l r l'

/-- **A history without page allocation**: the catalog `pt`, `sch` and the skeleton `D0` of the user
tables are frozen, the allocation frontier is `nf`, no row-id counter exceeds `K`. -/
structure Hist (pt sch : Levels) (D0 : List (Bytes × Levels)) (nf K : Nat) (log : List WalRec)
    (c : Nat → Pages) : Prop where
  names : (D0.map (·.1)).Nodup
  disj : D0.Pairwise (fun a b => ∀ o ∈ offs a.2, o ∉ offs b.2)
  lnd : ∀ e ∈ D0, (leafOffs e.2).Nodup
  pos : ∀ e ∈ D0, 0 < rootOff e.2
  filed : ∀ j, j ≤ log.length → ∀ e ∈ D0, PFiled (c j) e.2
  snap : ∀ j, j ≤ log.length → ∃ s, Cat s pt sch (fillT (c j) D0) ∧ s.hdr.nextFree = nf ∧ s.hdr.lastKey ≤ K
  step : ∀ j (h : j < log.length), StepC D0 nf (c j) log[j] (c (j + 1))

/-- the key list of a leaf page -/
def keysOf (p : Leaf × Bool) : List Nat := p.1.cells.map (·.key)

/-- what a later version of a page keeps -/
structure LeafEv (p q : Leaf × Bool) : Prop where
  hdr : hdr5 q.1 = hdr5 p.1
  lsn : p.1.lsn ≤ q.1.lsn
  keys : ∀ k ∈ keysOf p, k ∈ keysOf q

theorem LeafEv.refl (p : Leaf × Bool) : LeafEv p p := ⟨rfl, Nat.le_refl _, fun _ h => h⟩

theorem LeafEv.trans {p q r : Leaf × Bool} (h1 : LeafEv p q) (h2 : LeafEv q r) : LeafEv p r :=
  ⟨h2.hdr.trans h1.hdr, Nat.le_trans h1.lsn h2.lsn, fun k hk => h2.keys k (h1.keys k hk)⟩

theorem keysOf_updCell (f : LeafCell → LeafCell) (hf : ∀ x, (f x).key = x.key) (key lsn : Nat) (l : Leaf) (d d' : Bool) :
    keysOf ({ l with cells := l.cells.map (Tree.updCell f key), lsn := lsn }, d') = keysOf (l, d) := by
  unfold keysOf
  simp only [List.map_map]
  apply List.map_congr_left
  intro x _
  exact Tree.updCell_key f key hf x

/-- the disjointness of the skeleton, by leaf offsets: a leaf offset belongs to one tree -/
theorem skel_unique {D0 : List (Bytes × Levels)}
    (hdis : D0.Pairwise (fun a b => ∀ o ∈ offs a.2, o ∉ offs b.2)) {e e' : Bytes × Levels}
    (he : e ∈ D0) (he' : e' ∈ D0) {o : Nat} (ho : o ∈ leafOffs e.2) (ho' : o ∈ leafOffs e'.2) : e = e' := by
  by_cases h : e = e'
  · exact h
  · exact absurd (leafOffs_sub_offs ho') (pairwise_mem_ne (fun (a b : Bytes × Levels) => ∀ o ∈ offs a.2, o ∉ offs b.2)
      (fun a b hab o hb ha => hab o ha hb) D0 hdis e he e' he' h o (leafOffs_sub_offs ho))

/-- the page a step changes: same offset and links, newer LSN, all the keys -/
theorem StepKind.ev {nf : Nat} {c : Pages} {t0 : Levels} {o : Nat} {l l' : Leaf} {r : WalRec} (h : StepKind nf c t0 o l r l')
    (d : Bool) (hl : l.lsn < r.lsn) : LeafEv (l, d) (l', true) := by
  cases h with
  | ins pre p0 key lsn buf hl' ho hfresh hv hcap hbig =>
    refine ⟨rfl, Nat.le_of_lt hl, ?_⟩
    intro k hk
    unfold keysOf leafApp
    simp only [List.map_append, List.mem_append]
    exact .inl hk
  | upd key lsn buf hany hv =>
    refine ⟨rfl, Nat.le_of_lt hl, ?_⟩
    intro k hk
    rw [keysOf_updCell (fun x : LeafCell => { x with val := buf }) (fun _ => rfl) key lsn l d true]
    exact hk
  | del key lsn hany =>
    refine ⟨rfl, Nat.le_of_lt hl, ?_⟩
    intro k hk
    rw [keysOf_updCell (fun x : LeafCell => { x with deleted := true }) (fun _ => rfl) key lsn l d true]
    exact hk

/-- the LSN a step stamps on its page is the record's -/
theorem StepKind.lsn_eq {nf : Nat} {c : Pages} {t0 : Levels} {o : Nat} {l l' : Leaf} {r : WalRec} (h : StepKind nf c t0 o l r l') :
    l'.lsn = r.lsn := by
  cases h <;> rfl

theorem StepKind.off_eq {nf : Nat} {c : Pages} {t0 : Levels} {o : Nat} {l l' : Leaf} {r : WalRec} (h : StepKind nf c t0 o l r l') :
    l'.off = l.off := by
  cases h <;> rfl

section
variable {pt sch : Levels} {D0 : List (Bytes × Levels)} {nf K : Nat} {log : List WalRec} {c : Nat → Pages}

/-- the page a step names carries the offset it is filed under -/
theorem Hist.step_off (H : Hist pt sch D0 nf K log c) {j : Nat} (hj : j ≤ log.length) {table : Bytes} {t0 : Levels}
    (ht : (table, t0) ∈ D0) {o : Nat} (ho : o ∈ leafOffs t0) : (c j o).1.off = o := by
  obtain ⟨p, hp, rfl⟩ := List.mem_map.mp ho
  exact H.filed j hj _ ht p hp

/-- one step: every page evolves -/
theorem Hist.ev_step (H : Hist pt sch D0 nf K log c) {j : Nat} (hj : j < log.length) (o : Nat) :
    LeafEv (c j o) (c (j + 1) o) := by
  obtain ⟨table, t0, o', l, d, l', ht, ho', hc, hc', hlsn, hk⟩ := H.step j hj
  rw [hc']
  by_cases e : o = o'
  · subst e
    rw [setAt_same, hc]
    apply hk.ev d
    have hm : (o, Node.leaf l, d) ∈ flatten (fill (c j) t0) := by
      have h1 : c j o ∈ (fill (c j) t0).leaves := fill_leaf_mem ho'
      have h2 := H.step_off (Nat.le_of_lt hj) ht ho'
      rw [hc] at h1 h2
      simp only at h2
      rw [mem_flatten]
      exact .inl ⟨(l, d), h1, by rw [h2]⟩
    exact hlsn _ hm
  · rw [setAt_other _ _ _ e]
    exact LeafEv.refl _

/-- **a page only moves forward** -/
theorem Hist.ev (H : Hist pt sch D0 nf K log c) {j j' : Nat} (hjj : j ≤ j') (hj' : j' ≤ log.length) (o : Nat) :
    LeafEv (c j o) (c j' o) := by
  obtain ⟨n, rfl⟩ := Nat.exists_eq_add_of_le hjj
  induction n with
  | zero => exact LeafEv.refl _
  | succ m ih => exact (ih (Nat.le_add_right _ _) (by omega)).trans (H.ev_step (by omega) o)

/-- the key list of a leaf that is not the last of its tree never changes -/
theorem Hist.keys_const_step (H : Hist pt sch D0 nf K log c) {j : Nat} (hj : j < log.length)
    {e : Bytes × Levels} (he : e ∈ D0) {pre : List (Leaf × Bool)} {p0 p : Leaf × Bool}
    (hl : e.2.leaves = pre ++ [p0]) (hp : p ∈ pre) :
    keysOf (c (j + 1) p.1.off) = keysOf (c j p.1.off) := by
  obtain ⟨table, t0, o', l, d, l', ht, ho', hc, hc', hlsn, hk⟩ := H.step j hj
  rw [hc']
  by_cases eo : p.1.off = o'
  · have hpm : p ∈ e.2.leaves := by rw [hl]; exact List.mem_append_left _ hp
    have hee : e = (table, t0) := skel_unique H.disj he ht (mem_leafOffs hpm) (eo ▸ ho')
    subst hee
    rw [eo, setAt_same, hc]
    generalize log[j] = r at hk
    cases hk with
    | ins pre' p0' key lsn buf hl' ho hfresh hv hcap hbig =>
      exfalso
      -- `p` is in `pre` and the last leaf `p0'` has the same offset
      simp only at hl
      rw [hl] at hl'
      have hinj := List.append_inj' hl' (by simp)
      have hp0 : p0 = p0' := by simpa using hinj.2
      have hnd := H.lnd _ ht
      unfold leafOffs at hnd
      simp only at hnd
      rw [hl, List.map_append, List.nodup_append] at hnd
      exact hnd.2.2 _ (List.mem_map.mpr ⟨p, hp, rfl⟩) _ (List.mem_map.mpr ⟨p0, by simp, rfl⟩)
        (by rw [eo, hp0, ho])
    | upd key lsn buf hany hv =>
      exact keysOf_updCell (fun x : LeafCell => { x with val := buf }) (fun _ => rfl) key lsn l d true
    | del key lsn hany =>
      exact keysOf_updCell (fun x : LeafCell => { x with deleted := true }) (fun _ => rfl) key lsn l d true
  · rw [setAt_other _ _ _ eo]

theorem Hist.keys_const (H : Hist pt sch D0 nf K log c) {j j' : Nat} (hj : j ≤ log.length) (hj' : j' ≤ log.length)
    {e : Bytes × Levels} (he : e ∈ D0) {pre : List (Leaf × Bool)} {p0 p : Leaf × Bool}
    (hl : e.2.leaves = pre ++ [p0]) (hp : p ∈ pre) :
    keysOf (c j p.1.off) = keysOf (c j' p.1.off) := by
  have h0 : ∀ m, m ≤ log.length → keysOf (c m p.1.off) = keysOf (c 0 p.1.off) := by
    intro m
    induction m with
    | zero => intro _; rfl
    | succ m ih =>
      intro hm
      rw [H.keys_const_step (by omega) he hl hp]
      exact ih (by omega)
  rw [h0 j hj, h0 j' hj']

/-- after the step of record `j`, its page carries the record's LSN and, for an INSERT, its key -
and so does every later version -/
theorem Hist.at_step (H : Hist pt sch D0 nf K log c) {j : Nat} (hj : j < log.length) :
    ∃ table t0 o l d l', (table, t0) ∈ D0 ∧ o ∈ leafOffs t0 ∧ c j o = (l, d) ∧ c (j + 1) = setAt (c j) o (l', true) ∧
      (∀ x ∈ flatten (fill (c j) t0), nodeLSN x.2.1 < log[j].lsn) ∧ StepKind nf (c j) t0 o l log[j] l' ∧
      ∀ j', j + 1 ≤ j' → j' ≤ log.length → log[j].lsn ≤ (c j' o).1.lsn ∧ ∀ k ∈ keysOf (l', true), k ∈ keysOf (c j' o) := by
  obtain ⟨table, t0, o, l, d, l', ht, ho, hc, hc', hlsn, hk⟩ := H.step j hj
  refine ⟨table, t0, o, l, d, l', ht, ho, hc, hc', hlsn, hk, ?_⟩
  intro j' h1 h2
  have hev := H.ev h1 h2 o
  rw [hc', setAt_same] at hev
  refine ⟨?_, hev.keys⟩
  have := hev.lsn
  simp only at this
  rw [hk.lsn_eq] at this
  exact this

end

end Mkdb.Store
