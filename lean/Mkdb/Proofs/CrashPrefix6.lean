import Mkdb.Proofs.CrashPrefix5
/-!
Crash while a statement appends its records to the log, part 6 (Goal 2): **a history of acknowledged
statements, then one statement whose log append is cut.**

The acknowledged statements `stmts` run from `db0` (empty log) to `dbN`; one more statement runs on
`dbN` in memory and hands its records to the log writer (`.ok _ dbC`); the crash leaves, of these
records, the first `k`.  Nothing reached the data file, so recovery replays
`dbN.wal ++ (dbC.wal.drop dbN.wal.length).take k` on `db0.store`.

* `spec_run_replayed`: the history, replayed.
* `insert_crash_prefix`, `delete_crash_prefix`, `update_crash_prefix`.
-/
set_option autoImplicit false
namespace Mkdb.Store
open Mkdb.Page Mkdb.Tuple Mkdb.Generated Mkdb.Tree Mkdb.Engine

/-- **The acknowledged history, replayed**: the store recovery has rebuilt when it reaches the records
of the crashed statement satisfies the catalog description of the live store `dbN.store`, with the
same frontier and row-id counter. -/
theorem spec_run_replayed (sch : Levels) {db0 dbN : Engine.DB} {sdb0 sdbN : Spec.SDB} {stmts : List EStmt}
    (run : SpecRun sch db0 sdb0 stmts dbN sdbN) (hwal : db0.wal = [])
    (pt : Levels) (tbls : List (Bytes × Levels)) (hA : AbsV db0.store pt sch tbls sdb0)
    (hself : PtSelf pt) (hf : FreshM db0.store tbls) :
    ∃ ptN tblsN rN sdbF, replayAll dbN.wal db0.store = (rN, none, false) ∧
      Abs dbN.store ptN sch tblsN sdbF ∧ valsOf sdbF = valsOf sdbN ∧
      Cat rN ptN sch tblsN ∧ PtSelf ptN ∧ FreshM dbN.store tblsN ∧
      rN.hdr.nextFree = dbN.store.hdr.nextFree ∧ rN.hdr.lastKey = dbN.store.hdr.lastKey ∧
      rN.hdr.nextLSN ≤ dbN.store.hdr.nextLSN := by
  obtain ⟨_, tblsN, stmtsM, logs, hrun, hw, ⟨sdbF, habsF, hvF⟩⟩ := spec_run_live sch run pt tbls hA
  obtain ⟨_, habs0, _⟩ := hA
  rw [hwal, List.nil_append] at hw
  obtain ⟨ptN, rN, e, c1, c2, hselfN, hfN, a1, a2, a3⟩ :=
    replay_history_mixed_gen sch hrun pt db0.store habs0.cat habs0.cat hself hf rfl rfl (Nat.le_refl _)
  exact ⟨ptN, tblsN, rN, sdbF, by rw [hw]; exact e, ⟨c1, habsF.tabs⟩, hvF, c2, hselfN, hfN, a1, a2, a3⟩

theorem drop_wal {α} (a b : List α) : (a ++ b).drop a.length = b := List.drop_left

/-! ### INSERT -/

/-- **A crash while a multi-row INSERT appends its records, after a history of acknowledged
statements.**  For EVERY `k`, the log `dbN.wal ++ (dbC.wal.drop dbN.wal.length).take k` replays on
`db0.store` without error, and there is a `j ≤ rows.length` such that
* the plain model accepts the INSERT of the first `j` rows on `sdbN`, result `sdbJ`: the table holds
  its rows before the statement plus the first `j` new rows, every other table is as in `sdbN`;
* the replayed store `rK` abstracts to `sdbJ`;
* the engine, run on the first `j` rows alone, ends in `dbJ`, which abstracts to `sdbJ` with the same
  trees; `rK` shows the same pages as `dbJ.store` on `sys_schema` and all user tables, has the same
  allocation frontier and the same row-id counter - the one before the statement plus `j`, so no row
  id is reused;
* either `dbJ.wal` is exactly the replayed log (the cut is a row boundary; then the page tables are
  equal too), or the replayed log lacks the last record of `dbJ.wal` - the catalog record of row `j`,
  whose insert moved the root of the table - and the replayed page table names the same roots as the
  live one and differs from it in one LSN stamp;
* when no row of the statement moves the root of the table (`InsNoMove`), the statement logs one record
  per row, `j = min k rows.length`, and only the first case occurs. -/
theorem insert_crash_prefix (sch : Levels) {db0 dbN : Engine.DB} {sdb0 sdbN : Spec.SDB} {stmts : List EStmt}
    (run : SpecRun sch db0 sdb0 stmts dbN sdbN) (hwal : db0.wal = [])
    (pt : Levels) (tbls : List (Bytes × Levels)) (hA : AbsV db0.store pt sch tbls sdb0)
    (hself : PtSelf pt) (hf : FreshM db0.store tbls)
    (table : Bytes) (cols : List Bytes) (rows : List (List Val))
    (hvalid : ∀ r ∈ rows, ∀ v ∈ r, ValidVal v) (sdbC : Spec.SDB)
    (hspec : Spec.specInsert sdbN table cols rows = some sdbC)
    (hrunok : ∀ pt tbls t schema, AbsV dbN.store pt sch tbls sdbN → (table, t) ∈ tbls →
      schemaOf sch table = some schema →
      InsRunOK schema (cols.map Engine.bytesToName) t dbN.store.hdr.lastKey dbN.store.hdr.nextLSN
        dbN.store.hdr.nextFree rows)
    (n : Nat) (dbC : Engine.DB) (heval : Engine.evalInsert dbN table cols rows = .ok n dbC) (k : Nat) :
    ∃ j rK sdbJ dbJ ptJ ptR tblsJ, j ≤ rows.length ∧
      replayAll (dbN.wal ++ (dbC.wal.drop dbN.wal.length).take k) db0.store = (rK, none, false) ∧
      Spec.specInsert sdbN table cols (rows.take j) = some sdbJ ∧
      AbsV rK ptR sch tblsJ sdbJ ∧
      Engine.evalInsert dbN table cols (rows.take j) = .ok j dbJ ∧
      AbsV dbJ.store ptJ sch tblsJ sdbJ ∧
      (∀ x ∈ sch :: tblsJ.map (·.2), ∀ o ∈ offs x, view rK o = view dbJ.store o) ∧
      rK.hdr.nextFree = dbJ.store.hdr.nextFree ∧ rK.hdr.lastKey = dbJ.store.hdr.lastKey ∧
      dbJ.store.hdr.lastKey = dbN.store.hdr.lastKey + j ∧ rK.hdr.nextLSN ≤ dbJ.store.hdr.nextLSN ∧
      ((dbJ.wal = dbN.wal ++ (dbC.wal.drop dbN.wal.length).take k ∧ ptR = ptJ) ∨
       (dbJ.wal = dbN.wal ++ (dbC.wal.drop dbN.wal.length).take (k + 1) ∧
        k + 1 ≤ (dbC.wal.drop dbN.wal.length).length ∧ PtRestamp ptR ptJ)) ∧
      ((∀ pt tbls t schema, AbsV dbN.store pt sch tbls sdbN → (table, t) ∈ tbls →
          schemaOf sch table = some schema →
          InsNoMove schema (cols.map Engine.bytesToName) t dbN.store.hdr.lastKey dbN.store.hdr.nextLSN
            dbN.store.hdr.nextFree rows) →
        j = min k rows.length ∧ (dbC.wal.drop dbN.wal.length).length = rows.length ∧
        dbJ.wal = dbN.wal ++ (dbC.wal.drop dbN.wal.length).take k ∧ ptR = ptJ) := by
  obtain ⟨ptN, tblsN, rN, sdbF, hreN, habsN, hvN, hcrN, hselfN, hfN, a1, a2, a3⟩ :=
    spec_run_replayed sch run hwal pt tbls hA hself hf
  obtain ⟨sdbF', hspecF, _⟩ := specInsert_congr hvN table cols rows hspec
  obtain ⟨st, hfind⟩ : ∃ st, Spec.findTable sdbF table = some st := by
    unfold Spec.specInsert at hspecF
    cases hfd : Spec.findTable sdbF table with
    | none => rw [hfd] at hspecF; cases hspecF
    | some st => exact ⟨st, rfl⟩
  obtain ⟨t, ht⟩ := habsN.tabs.find_some hfind
  obtain ⟨schema, hsch, _, _⟩ := habsN.tabs.find habsN.cat.tnames ht
  obtain ⟨dbC', logs, eC, hwC, hlenC, hcut⟩ := evalInsert_cut dbN rN ptN sch tblsN sdbF sdbF' habsN hcrN hselfN hfN a1 a2 a3
    table t ht schema hsch cols rows hvalid hspecF (hrunok ptN tblsN t schema ⟨sdbF, habsN, hvN⟩ ht hsch)
  rw [eC] at heval
  simp only [Engine.Res.ok.injEq] at heval
  obtain ⟨_, rfl⟩ := heval
  have hdrop : dbC'.wal.drop dbN.wal.length = logs := by rw [hwC]; exact drop_wal _ _
  rw [hdrop]
  obtain ⟨j, dbJ, sdbJ, sdbJ', ptJ, ptR, tJ, logsJ, rK, hj, hspecJ, hvJ, eJ, hwJ, habsJ, hreJ, habsR, hpages,
    b1, b2, b3, b4, b5, hcase⟩ := hcut k
  obtain ⟨sdbJN, hspecJN⟩ := specInsert_take hspec j
  obtain ⟨sdbJ2, hspecJ2, hvJ2⟩ := specInsert_congr hvN table cols (rows.take j) hspecJN
  rw [hspecJ] at hspecJ2
  simp only [Option.some.injEq] at hspecJ2
  subst hspecJ2
  refine ⟨j, rK, sdbJN, dbJ, ptJ, ptR, setTable tblsN table tJ, hj, ?_, hspecJN, ⟨sdbJ, habsR, hvJ.trans hvJ2⟩, eJ,
    ⟨sdbJ, habsJ, hvJ.trans hvJ2⟩, hpages, b1, b2, b4, b3, ?_, ?_⟩
  · rw [replayAll_append hreN]; exact hreJ
  · rcases hcase with ⟨c1, c2⟩ | ⟨c1, c2, c3, _⟩
    · exact .inl ⟨by rw [hwJ, c1], c2⟩
    · exact .inr ⟨by rw [hwJ, c1], c2, c3⟩
  · intro hno
    have hno' := hno ptN tblsN t schema ⟨sdbF, habsN, hvN⟩ ht hsch
    have hl1 := hlenC hno'
    have hl2 := b5 hno'
    rcases hcase with ⟨c1, c2⟩ | ⟨_, _, _, c4⟩
    · refine ⟨?_, hl1, by rw [hwJ, c1], c2⟩
      have := congrArg List.length c1
      rw [List.length_take, hl2, hl1] at this
      exact this
    · exact absurd hno' c4

/-! ### DELETE -/

theorem deleteFirst_vals_congr : ∀ (rs0 rs : List Spec.SRow) (sel : List Bool) (n : Nat),
    rs0.map (·.vals) = rs.map (·.vals) →
    (deleteFirst n (rs0.zip sel)).map (·.vals) = (deleteFirst n (rs.zip sel)).map (·.vals)
  | [], [], _, _, _ => rfl
  | [], _ :: _, _, _, h => by simp at h
  | _ :: _, [], _, _, h => by simp at h
  | a :: rs0, b :: rs, [], n, _ => by simp [deleteFirst]
  | a :: rs0, b :: rs, s :: sel, n, h => by
    simp only [List.map_cons, List.cons.injEq] at h
    simp only [List.zip_cons_cons, deleteFirst]
    split
    · exact deleteFirst_vals_congr rs0 rs sel (n - 1) h.2
    · simp only [List.map_cons, h.1, deleteFirst_vals_congr rs0 rs sel n h.2]

/-- **A crash while a DELETE appends its records, after a history of acknowledged statements.**  The
statement logs one record per selected row.  For EVERY `k`, with `j = min k (number of selected rows)`,
the log `dbN.wal ++ (dbC.wal.drop dbN.wal.length).take k` replays on `db0.store` without error, to a
store `rK` that abstracts to `sdbN` with the first `j` selected rows of the table removed (in table
order, the order the statement applies them) and every other table unchanged; so does the store `sK`
of the engine's loop after `j` rows, reached from `dbN.store` by a live run of `j` row statements that
logged exactly the surviving records; `rK` and `sK` agree page for page on all catalog trees, and on
the allocation frontier and row-id counter, which are those before the statement. -/
theorem delete_crash_prefix (sch : Levels) {db0 dbN : Engine.DB} {sdb0 sdbN : Spec.SDB} {stmts : List EStmt}
    (run : SpecRun sch db0 sdb0 stmts dbN sdbN) (hwal : db0.wal = [])
    (pt : Levels) (tbls : List (Bytes × Levels)) (hA : AbsV db0.store pt sch tbls sdb0)
    (hself : PtSelf pt) (hf : FreshM db0.store tbls)
    (table : Bytes) (w : Option Sql.Cond) (sdbC : Spec.SDB)
    (hspec : Spec.specDelete sdbN table w = some sdbC)
    (n : Nat) (dbC : Engine.DB) (heval : Engine.evalDelete dbN table w = .ok n dbC) (k : Nat) :
    ∃ st sel tblsN, Spec.findTable sdbN table = some st ∧ Spec.selects st w = some sel ∧
      (dbC.wal.drop dbN.wal.length).length = (sel.filter id).length ∧
      ∃ rK sK ptK tblsK rstmts,
        replayAll (dbN.wal ++ (dbC.wal.drop dbN.wal.length).take k) db0.store = (rK, none, false) ∧
        AbsV rK ptK sch tblsK
          (sdbN.map (updRows table fun rs => deleteFirst (min k (sel.filter id).length) (rs.zip sel))) ∧
        AbsV sK ptK sch tblsK
          (sdbN.map (updRows table fun rs => deleteFirst (min k (sel.filter id).length) (rs.zip sel))) ∧
        LiveRunM sch dbN.store tblsN rstmts sK tblsK ((dbC.wal.drop dbN.wal.length).take k) ∧
        rstmts.length = min k (sel.filter id).length ∧
        (∀ x ∈ catTrees ptK sch tblsK, ∀ o ∈ offs x, view rK o = view sK o) ∧
        rK.hdr.nextFree = dbN.store.hdr.nextFree ∧ rK.hdr.lastKey = dbN.store.hdr.lastKey ∧
        sK.hdr.nextFree = dbN.store.hdr.nextFree ∧ sK.hdr.lastKey = dbN.store.hdr.lastKey ∧
        rK.hdr.nextLSN ≤ sK.hdr.nextLSN := by
  obtain ⟨ptN, tblsN, rN, sdbF, hreN, habsN, hvN, hcrN, hselfN, hfN, a1, a2, a3⟩ :=
    spec_run_replayed sch run hwal pt tbls hA hself hf
  obtain ⟨sdbF', hspecF, _⟩ := specDelete_congr hvN table w hspec
  obtain ⟨n', dbC', logs, st0, sel0, eC, hwC, hfind0, hsel0, hlen, hcut⟩ := evalDelete_cut dbN rN ptN sch tblsN sdbF
    sdbF' habsN hcrN hselfN hfN a1 a2 a3 table w hspecF
  rw [eC] at heval
  simp only [Engine.Res.ok.injEq] at heval
  obtain ⟨_, rfl⟩ := heval
  have hdrop : dbC'.wal.drop dbN.wal.length = logs := by rw [hwC]; exact drop_wal _ _
  rw [hdrop]
  -- the table and the selection in `sdbN`
  obtain ⟨st, hfind⟩ : ∃ st, Spec.findTable sdbN table = some st := by
    unfold Spec.specDelete at hspec
    cases hfd : Spec.findTable sdbN table with
    | none => rw [hfd] at hspec; cases hspec
    | some st => exact ⟨st, rfl⟩
  obtain ⟨st0', hfind0', htv⟩ := findTable_congr_some hvN hfind
  rw [hfind0] at hfind0'
  simp only [Option.some.injEq] at hfind0'
  subst hfind0'
  have hsel : Spec.selects st w = some sel0 := by rw [← selects_congr htv w]; exact hsel0
  obtain ⟨sK, ptK, tK, rK, rstmts, hrunK, hlenK, hreK, habsS, habsR, hpages, b1, b2, b3, b4, b5⟩ := hcut k
  have hv : valsOf (sdbF.map (updRows table fun rs => deleteFirst (min k logs.length) (rs.zip sel0))) =
      valsOf (sdbN.map (updRows table fun rs => deleteFirst (min k (sel0.filter id).length) (rs.zip sel0))) := by
    rw [hlen]
    exact valsOf_map_congr table _ _ sdbF sdbN hvN (fun rs0 rs hrs => deleteFirst_vals_congr rs0 rs sel0 _ hrs)
  refine ⟨st, sel0, tblsN, hfind, hsel, hlen, rK, sK, ptK, setTable tblsN table tK, rstmts, ?_, ⟨_, habsR, hv⟩,
    ⟨_, habsS, hv⟩, hrunK, by rw [hlenK, hlen], hpages, by rw [b1, b4], by rw [b2, b5], b4, b5, b3⟩
  rw [replayAll_append hreN]; exact hreK

/-! ### UPDATE -/

theorem rewriteFirst_vals_congr (cols : List FieldDef) (sets : List (Bytes × Sql.VExpr)) :
    ∀ (rs0 rs : List Spec.SRow) (sel : List Bool) (n : Nat),
    rs0.map (·.vals) = rs.map (·.vals) →
    (rewriteFirst cols sets n (rs0.zip sel)).map (·.vals) = (rewriteFirst cols sets n (rs.zip sel)).map (·.vals)
  | [], [], _, _, _ => rfl
  | [], _ :: _, _, _, h => by simp at h
  | _ :: _, [], _, _, h => by simp at h
  | a :: rs0, b :: rs, [], n, _ => by simp [rewriteFirst]
  | a :: rs0, b :: rs, s :: sel, n, h => by
    simp only [List.map_cons, List.cons.injEq] at h
    simp only [List.zip_cons_cons, rewriteFirst]
    split
    · simp only [List.map_cons, h.1, rewriteFirst_vals_congr cols sets rs0 rs sel (n - 1) h.2]
    · simp only [List.map_cons, h.1, rewriteFirst_vals_congr cols sets rs0 rs sel n h.2]

/-- **A crash while an UPDATE appends its records, after a history of acknowledged statements.**  As
`delete_crash_prefix`: one record per selected row; for EVERY `k`, with
`j = min k (number of selected rows)`, the replayed store abstracts to `sdbN` with the first `j`
selected rows of the table rewritten (in table order) and nothing else changed. -/
theorem update_crash_prefix (sch : Levels) {db0 dbN : Engine.DB} {sdb0 sdbN : Spec.SDB} {stmts : List EStmt}
    (run : SpecRun sch db0 sdb0 stmts dbN sdbN) (hwal : db0.wal = [])
    (pt : Levels) (tbls : List (Bytes × Levels)) (hA : AbsV db0.store pt sch tbls sdb0)
    (hself : PtSelf pt) (hf : FreshM db0.store tbls)
    (table : Bytes) (sets : List (Bytes × Sql.VExpr)) (w : Option Sql.Cond)
    (hvalid : ∀ p ∈ sets, ∀ l, p.2 = .lit l → ValidVal (Engine.litToVal l)) (sdbC : Spec.SDB)
    (hspec : Spec.specUpdate sdbN table sets w = some sdbC)
    (dbC : Engine.DB) (heval : Engine.evalUpdate dbN table sets w = .ok () dbC) (k : Nat) :
    ∃ st sel tblsN, Spec.findTable sdbN table = some st ∧ Spec.selects st w = some sel ∧
      (dbC.wal.drop dbN.wal.length).length = (sel.filter id).length ∧
      ∃ rK sK ptK tblsK rstmts,
        replayAll (dbN.wal ++ (dbC.wal.drop dbN.wal.length).take k) db0.store = (rK, none, false) ∧
        AbsV rK ptK sch tblsK
          (sdbN.map (updRows table fun rs =>
            rewriteFirst st.cols sets (min k (sel.filter id).length) (rs.zip sel))) ∧
        AbsV sK ptK sch tblsK
          (sdbN.map (updRows table fun rs =>
            rewriteFirst st.cols sets (min k (sel.filter id).length) (rs.zip sel))) ∧
        LiveRunM sch dbN.store tblsN rstmts sK tblsK ((dbC.wal.drop dbN.wal.length).take k) ∧
        rstmts.length = min k (sel.filter id).length ∧
        (∀ x ∈ catTrees ptK sch tblsK, ∀ o ∈ offs x, view rK o = view sK o) ∧
        rK.hdr.nextFree = dbN.store.hdr.nextFree ∧ rK.hdr.lastKey = dbN.store.hdr.lastKey ∧
        sK.hdr.nextFree = dbN.store.hdr.nextFree ∧ sK.hdr.lastKey = dbN.store.hdr.lastKey ∧
        rK.hdr.nextLSN ≤ sK.hdr.nextLSN := by
  obtain ⟨ptN, tblsN, rN, sdbF, hreN, habsN, hvN, hcrN, hselfN, hfN, a1, a2, a3⟩ :=
    spec_run_replayed sch run hwal pt tbls hA hself hf
  obtain ⟨sdbF', hspecF, _⟩ := specUpdate_congr hvN table sets w hspec
  have hsetAll : ∀ schema, schemaOf sch table = some schema →
      Engine.checkSetColumns (schema.map fun fd => (⟨[], fd.name.toUTF8.toList⟩ : Exec.Field)) []
        (sets.map (·.1)) = none := by
    intro schema hsch
    obtain ⟨stF, hfindF⟩ : ∃ stF, Spec.findTable sdbF table = some stF := by
      rw [specUpdate_eq] at hspecF
      cases hfd : Spec.findTable sdbF table with
      | none => rw [hfd] at hspecF; cases hspecF
      | some stF => exact ⟨stF, rfl⟩
    obtain ⟨tF, htF⟩ := habsN.tabs.find_some hfindF
    obtain ⟨schema', hsch', hdecF, _⟩ := habsN.tabs.find habsN.cat.tnames htF
    rw [hsch] at hsch'
    cases hsch'
    exact evalUpdate_ok_set habsN.cat table tF htF schema hsch hdecF sets w heval
  obtain ⟨dbC', logs, st0, sel0, eC, hwC, hfind0, hsel0, hlen, hcut⟩ := evalUpdate_cut dbN rN ptN sch tblsN sdbF
    sdbF' habsN hcrN hselfN hfN a1 a2 a3 table sets w hvalid hsetAll hspecF
  rw [eC] at heval
  simp only [Engine.Res.ok.injEq, true_and] at heval
  subst heval
  have hdrop : dbC'.wal.drop dbN.wal.length = logs := by rw [hwC]; exact drop_wal _ _
  rw [hdrop]
  obtain ⟨st, hfind⟩ : ∃ st, Spec.findTable sdbN table = some st := by
    rw [specUpdate_eq] at hspec
    cases hfd : Spec.findTable sdbN table with
    | none => rw [hfd] at hspec; cases hspec
    | some st => exact ⟨st, rfl⟩
  obtain ⟨st0', hfind0', htv⟩ := findTable_congr_some hvN hfind
  rw [hfind0] at hfind0'
  simp only [Option.some.injEq] at hfind0'
  subst hfind0'
  have hsel : Spec.selects st w = some sel0 := by rw [← selects_congr htv w]; exact hsel0
  obtain ⟨sK, ptK, tK, rK, rstmts, hrunK, hlenK, hreK, habsS, habsR, hpages, b1, b2, b3, b4, b5⟩ := hcut k
  have hv : valsOf (sdbF.map (updRows table fun rs =>
        rewriteFirst st0.cols sets (min k logs.length) (rs.zip sel0))) =
      valsOf (sdbN.map (updRows table fun rs =>
        rewriteFirst st.cols sets (min k (sel0.filter id).length) (rs.zip sel0))) := by
    rw [hlen, tv_cols htv]
    exact valsOf_map_congr table _ _ sdbF sdbN hvN
      (fun rs0 rs hrs => rewriteFirst_vals_congr st.cols sets rs0 rs sel0 _ hrs)
  refine ⟨st, sel0, tblsN, hfind, hsel, hlen, rK, sK, ptK, setTable tblsN table tK, rstmts, ?_, ⟨_, habsR, hv⟩,
    ⟨_, habsS, hv⟩, hrunK, by rw [hlenK, hlen], hpages, by rw [b1, b4], by rw [b2, b5], b4, b5, b3⟩
  rw [replayAll_append hreN]; exact hreK

end Mkdb.Store
