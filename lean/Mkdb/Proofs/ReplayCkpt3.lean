import Mkdb.Proofs.ReplayCkpt2
/-!
Crash after a checkpoint, part 3: **every record of the log is applied on the live store** - an
invariant of live runs.

* `AppliedC pt sch tbls r`: the record `r` is applied, read off a catalog description: a page of one
  of the trees, at the record's page offset, carries an LSN at least the record's; or the record is the
  INSERT, at the root of a user table, of a key the table holds.  `AppliedC.applied`: under `Cat` this
  is `Applied` on the store.
* `AppliedC.step_table`, `AppliedC.step_pt`: later statements keep it.
* **`live_run_applied`**: along a `LiveRunM`, every record of the old log and every record the run
  writes is `AppliedC` for the catalog description the run ends in (root moves included), and every LSN
  in the log is below the LSN counter.
* **`live_run_keys`**: along a `LiveRunM`, no INSERT record of the log carries a key beyond the row-id
  counter.
-/
set_option autoImplicit false
namespace Mkdb.Store
open Mkdb.Page Mkdb.Tuple Mkdb.Generated Mkdb.Tree Mkdb.Engine

/-- the record is applied, read off the catalog description: a page of one of the trees at the
record's page offset carries an LSN at least the record's, or the record is the INSERT at the root
of a user table of a key the table holds -/
def AppliedC (pt sch : Levels) (tbls : List (Bytes × Levels)) (r : WalRec) : Prop :=
  (∃ x ∈ catTrees pt sch tbls, PageLsn x r.page r.lsn) ∨
  (r.op = c_OpInsert ∧ ∃ table t, (table, t) ∈ tbls ∧ r.page = rootOff t ∧ r.cell ∈ keys t)

/-- on a store that holds the catalog, that is `Applied` -/
theorem AppliedC.applied {s : Store} {pt sch : Levels} {tbls : List (Bytes × Levels)} {r : WalRec}
    (ha : AppliedC pt sch tbls r) (h : Cat s pt sch tbls) : Applied tbls s r := by
  rcases ha with ⟨x, hx, e, he, hp, hl⟩ | h2
  · left
    refine ⟨e.2.1, e.2.2, ?_, ?_, hl⟩
    · rw [← hp]; exact (h.tree x hx).1 e he
    · rw [← hp]; exact flatten_nodeOff he
  · exact .inr h2

theorem mem_catTrees {pt sch x : Levels} {tbls : List (Bytes × Levels)} :
    x ∈ catTrees pt sch tbls ↔ x = pt ∨ x = sch ∨ ∃ e ∈ tbls, e.2 = x := by
  simp only [catTrees, List.mem_cons, List.mem_map]

theorem mem_setTable_of_ne {tbls : List (Bytes × Levels)} {table : Bytes} {t' : Levels} {e : Bytes × Levels}
    (he : e ∈ tbls) (hn : e.1 ≠ table) : e ∈ setTable tbls table t' := by
  unfold setTable
  exact List.mem_map.mpr ⟨e, he, by simp [hn]⟩

theorem PageLsn.mono {x : Levels} {page lsn lsn' : Nat} (h : PageLsn x page lsn) (hl : lsn' ≤ lsn) :
    PageLsn x page lsn' := by
  obtain ⟨e, he, hp, h1⟩ := h
  exact ⟨e, he, hp, by omega⟩

/-- a statement with LSN `L` on the user table `table` (tree `t` before, `t2` after) keeps a record
with a smaller LSN applied -/
theorem AppliedC.step_table {pt sch : Levels} {tbls : List (Bytes × Levels)} {r : WalRec}
    (ha : AppliedC pt sch tbls r) {table : Bytes} {t t2 : Levels} (ht : (table, t) ∈ tbls)
    (hnd : (tbls.map (·.1)).Nodup) {L : Nat} (hL : r.lsn ≤ L)
    (hk : ∀ page lsn, lsn ≤ L → PageLsn t page lsn → PageLsn t2 page lsn)
    (hkeys : ∀ k ∈ keys t, k ∈ keys t2)
    (hroot : rootOff t2 = rootOff t ∨ PageLsn t2 (rootOff t) L) :
    AppliedC pt sch (setTable tbls table t2) r := by
  have hself : (table, t2) ∈ setTable tbls table t2 := mem_setTable_self t2 ht
  rcases ha with ⟨x, hx, hpl⟩ | ⟨hop, tb, tr, hm, hpg, hkey⟩
  · left
    rcases mem_catTrees.mp hx with rfl | rfl | ⟨e, he, rfl⟩
    · exact ⟨x, Cat.pt_mem, hpl⟩
    · exact ⟨x, Cat.sch_mem, hpl⟩
    · by_cases hn : e.1 = table
      · have : e = (table, t) := inj_of_nodup_map (·.1) tbls hnd e he (table, t) ht hn
        subst this
        exact ⟨t2, Cat.tb_mem hself, hk _ _ hL hpl⟩
      · exact ⟨e.2, Cat.tb_mem (mem_setTable_of_ne he hn), hpl⟩
  · by_cases hn : tb = table
    · have : (tb, tr) = (table, t) := inj_of_nodup_map (·.1) tbls hnd (tb, tr) hm (table, t) ht hn
      simp only [Prod.mk.injEq] at this
      obtain ⟨rfl, rfl⟩ := this
      rcases hroot with hr | hr
      · exact .inr ⟨hop, tb, t2, hself, by rw [hr]; exact hpg, hkeys _ hkey⟩
      · exact .inl ⟨t2, Cat.tb_mem hself, by rw [hpg]; exact hr.mono hL⟩
    · exact .inr ⟨hop, tb, tr, mem_setTable_of_ne hm hn, hpg, hkey⟩

/-- a cell change with LSN `L` in the page table keeps a record with a smaller LSN applied -/
theorem AppliedC.step_pt {pt sch : Levels} {tbls : List (Bytes × Levels)} {r : WalRec}
    (ha : AppliedC pt sch tbls r) {pt2 : Levels} {L : Nat} (hL : r.lsn ≤ L)
    (hk : ∀ page lsn, lsn ≤ L → PageLsn pt page lsn → PageLsn pt2 page lsn) :
    AppliedC pt2 sch tbls r := by
  rcases ha with ⟨x, hx, hpl⟩ | h2
  · left
    rcases mem_catTrees.mp hx with rfl | rfl | ⟨e, he, rfl⟩
    · exact ⟨pt2, Cat.pt_mem, hk _ _ hL hpl⟩
    · exact ⟨x, Cat.sch_mem, hpl⟩
    · exact ⟨e.2, Cat.tb_mem he, hpl⟩
  · exact .inr h2

theorem keys_insertAppend {t t' : Levels} {k lsn nf nf' : Nat} {v : Bytes}
    (h : insertAppend t k lsn v nf = .ok (t', nf')) : keys t' = keys t ++ [k] := by
  unfold keys
  rw [cells_insertAppend t t' k lsn nf nf' v h, List.map_append]
  rfl

/-- the facts about one statement the invariant needs, for an INSERT -/
theorem AppliedC.after_insert {pt sch : Levels} {tbls : List (Bytes × Levels)} {r : WalRec}
    (ha : AppliedC pt sch tbls r) {table : Bytes} {t t' : Levels} (ht : (table, t) ∈ tbls)
    (hnd : (tbls.map (·.1)).Nodup) {k L nf nf' : Nat} {v : Bytes} (hL : r.lsn ≤ L) (hI : Inv t nf)
    (hins : insertAppend t k L v nf = .ok (t', nf')) : AppliedC pt sch (setTable tbls table t') r :=
  ha.step_table ht hnd hL (fun _ _ hl hp => hp.ins hl hI hins)
    (fun k' hk' => by rw [keys_insertAppend hins]; exact List.mem_append_left _ hk')
    (insertAppend_old_root t t' k L nf nf' v hI hins)

/-- … for a cell change -/
theorem AppliedC.after_upd {pt sch : Levels} {tbls : List (Bytes × Levels)} {r : WalRec}
    (ha : AppliedC pt sch tbls r) {table : Bytes} {t : Levels} (ht : (table, t) ∈ tbls)
    (hnd : (tbls.map (·.1)).Nodup) {L : Nat} (hL : r.lsn ≤ L) (f : LeafCell → LeafCell)
    (hf : ∀ c, (f c).key = c.key) (key : Nat) :
    AppliedC pt sch (setTable tbls table (updLeaves f key L t)) r :=
  ha.step_table ht hnd hL (fun _ _ hl hp => hp.upd hl f key)
    (fun k' hk' => by rw [keys_updLeaves f key L hf t]; exact hk')
    (.inl (rootOff_updLeaves f key L t))

/-- **Every record of the log is applied on the live store.**  A live run of row statements starts
from a store whose old log `old` is applied for its catalog description and below its LSN counter.
The same holds at the end for the old log followed by the records the run wrote - also when an
insert moved a root: the record of that insert names the old root page, which the split stamped with
the insert's LSN; the catalog record that follows names a leaf of the page table stamped with its LSN. -/
theorem live_run_applied (sch : Levels) {s0 sN : Store} {tbls tblsN : List (Bytes × Levels)}
    {stmts : List RStmt} {logs : List WalRec} (run : LiveRunM sch s0 tbls stmts sN tblsN logs) :
    ∀ (pt : Levels) (old : List WalRec), Cat s0 pt sch tbls →
      (∀ r ∈ old, AppliedC pt sch tbls r) → (∀ r ∈ old, r.lsn < s0.hdr.nextLSN) →
      ∃ ptN, Cat sN ptN sch tblsN ∧ (∀ r ∈ old ++ logs, AppliedC ptN sch tblsN r) ∧
        (∀ r ∈ old ++ logs, r.lsn < sN.hdr.nextLSN) ∧
        (sN.hdr.nextLSN = s0.hdr.nextLSN ∨ ∃ r ∈ logs, sN.hdr.nextLSN = r.lsn + 1) := by
  induction run with
  | nil s tbls =>
    intro pt old h ha hl
    exact ⟨pt, h, by simpa using ha, by simpa using hl, .inl rfl⟩
  | @same s s1 s2 tbls tbls2 stmts logs hs _ ih =>
    intro pt old h ha hl
    obtain ⟨ptN, c, a1, a2, a3⟩ := ih pt old (h.of_same hs) ha (by rw [hs.2]; exact hl)
    exact ⟨ptN, c, a1, a2, by rw [← hs.2]; exact a3⟩
  | @ins s s1 s2 tbls tbls2 rest logs logs2 table cols vals t schema buf t' nf' ht hsch hcols hnames henc hlen hins
      hd' hl' hbig hrun _ ih =>
    intro pt old h ha hl
    obtain ⟨_, hIt, _, _, _⟩ := h.tree t (Cat.tb_mem ht)
    obtain ⟨s', ptF, logs', erun, hc', _, _, hcase⟩ := insert_refines' s pt sch tbls h table t ht cols vals
      schema buf hsch hcols hnames henc hlen t' nf' hins hd' hl' hbig
    rw [hrun] at erun
    simp only [SRes.ok.injEq] at erun
    obtain ⟨rfl, rfl⟩ := erun
    have hstep : (∀ r ∈ old ++ logs, AppliedC ptF sch (setTable tbls table t') r) ∧
        (∀ r ∈ old ++ logs, r.lsn < s1.hdr.nextLSN) ∧ ∃ r ∈ logs, s1.hdr.nextLSN = r.lsn + 1 := by
      rcases hcase with ⟨hmove, rfl, hlsn', rfl⟩ | ⟨hmove, hlsn', a, p, hal, hpa, hp, hap, rfl, rfl⟩
      · refine ⟨?_, ?_, ⟨_, List.mem_singleton.mpr rfl, hlsn'⟩⟩
        · intro r hr
          rcases List.mem_append.mp hr with hr | hr
          · exact (ha r hr).after_insert ht h.tnames (Nat.le_of_lt (hl r hr)) hIt hins
          · simp only [List.mem_singleton] at hr
            subst hr
            exact .inr ⟨rfl, table, t', mem_setTable_self t' ht, hmove.symm,
              by rw [keys_insertAppend hins]; simp⟩
        · intro r hr
          rcases List.mem_append.mp hr with hr | hr
          · have := hl r hr; omega
          · simp only [List.mem_singleton] at hr
            subst hr
            show s.hdr.nextLSN < _
            omega
      · have hpt : ∀ r, r.lsn ≤ s.hdr.nextLSN + 1 → AppliedC pt sch (setTable tbls table t') r →
            AppliedC (setVal pt a.key (s.hdr.nextLSN + 1) (ptRow table (rootOff t'))) sch
              (setTable tbls table t') r := by
          intro r hr har
          rw [setVal_eq]
          exact har.step_pt hr (fun _ _ hl' hp' => hp'.upd hl' _ a.key)
        refine ⟨?_, ?_, ⟨_, List.mem_cons_of_mem _ (List.mem_singleton.mpr rfl), hlsn'⟩⟩
        · intro r hr
          rcases List.mem_append.mp hr with hr | hr
          · exact hpt r (by have := hl r hr; omega)
              ((ha r hr).after_insert ht h.tnames (Nat.le_of_lt (hl r hr)) hIt hins)
          · simp only [List.mem_cons, List.not_mem_nil, or_false] at hr
            rcases hr with rfl | rfl
            · apply hpt _ (Nat.le_succ _)
              rcases insertAppend_old_root t t' _ _ _ nf' buf hIt hins with h1 | h1
              · exact absurd h1 hmove
              · exact .inl ⟨t', Cat.tb_mem (mem_setTable_self t' ht), h1⟩
            · left
              refine ⟨_, Cat.pt_mem, ?_⟩
              rw [setVal_eq]
              exact updLeaves_stamps _ a.key (s.hdr.nextLSN + 1) pt p.1 p.2 hp
                (List.any_eq_true.mpr ⟨a, hap, by simp⟩)
        · intro r hr
          rcases List.mem_append.mp hr with hr | hr
          · have := hl r hr; omega
          · simp only [List.mem_cons, List.not_mem_nil, or_false] at hr
            rcases hr with rfl | rfl
            · show s.hdr.nextLSN < _
              omega
            · show s.hdr.nextLSN + 1 < _
              omega
    obtain ⟨ptN, c, a1, a2, a3⟩ := ih ptF (old ++ logs) hc' hstep.1 hstep.2.1
    refine ⟨ptN, c, by rw [← List.append_assoc]; exact a1, by rw [← List.append_assoc]; exact a2, .inr ?_⟩
    rcases a3 with a3 | ⟨r, hr, a3⟩
    · obtain ⟨r, hr, h3⟩ := hstep.2.2
      exact ⟨r, List.mem_append_left _ hr, by rw [a3, h3]⟩
    · exact ⟨r, List.mem_append_right _ hr, a3⟩
  | @upd s s1 s2 tbls tbls2 rest logs logs2 table rowId cols src t schema c m buf ht hsch hc hk hdec henc hlen
      hrun _ ih =>
    intro pt old h ha hl
    obtain ⟨s', l, d, hm, hcl, erun, hc', hlsn', _⟩ := update_cat h table t ht schema hsch rowId cols src
      (update_ok_names h ht hsch hrun) c hc hk
      m buf hdec henc hlen
    rw [hrun] at erun
    simp only [SRes.ok.injEq] at erun
    obtain ⟨rfl, rfl⟩ := erun
    have hany : l.cells.any (fun x => x.key == rowId) = true :=
      List.any_eq_true.mpr ⟨c, hcl, by simp [hk]⟩
    obtain ⟨ptN, cN, a1, a2, a3⟩ := ih pt (old ++ [⟨c_OpUpdate, s.hdr.nextLSN, l.off, rowId, buf⟩]) hc'
      (by
        intro r hr
        rw [setVal_eq]
        rcases List.mem_append.mp hr with hr | hr
        · exact (ha r hr).after_upd ht h.tnames (Nat.le_of_lt (hl r hr)) (fun c => { c with val := buf })
            (fun _ => rfl) rowId
        · simp only [List.mem_singleton] at hr
          subst hr
          exact .inl ⟨_, Cat.tb_mem (mem_setTable_self _ ht), updLeaves_stamps _ rowId _ t l d hm hany⟩)
      (by
        intro r hr
        rcases List.mem_append.mp hr with hr | hr
        · have := hl r hr; omega
        · simp only [List.mem_singleton] at hr
          subst hr
          show s.hdr.nextLSN < _
          omega)
    refine ⟨ptN, cN, by rw [← List.append_assoc]; exact a1, by rw [← List.append_assoc]; exact a2, .inr ?_⟩
    rcases a3 with a3 | ⟨r, hr, a3⟩
    · exact ⟨_, List.mem_append_left _ (List.mem_singleton.mpr rfl), by rw [a3, hlsn']⟩
    · exact ⟨r, List.mem_append_right _ hr, a3⟩
  | @updAbsent s s1 s2 tbls tbls2 rest logs logs2 table rowId cols src t schema ht hsch habs hrun _ ih =>
    intro pt old h ha hl
    obtain ⟨s', erun, hs, hc'⟩ := update_cat_absent h table t ht schema hsch rowId cols src
      (update_ok_names h ht hsch hrun) habs
    rw [hrun] at erun
    simp only [SRes.ok.injEq] at erun
    obtain ⟨rfl, rfl⟩ := erun
    obtain ⟨ptN, cN, a1, a2, a3⟩ := ih pt old hc' ha (by rw [hs.2]; exact hl)
    exact ⟨ptN, cN, by simpa using a1, by simpa using a2, by rw [← hs.2]; simpa using a3⟩
  | @del s s1 s2 tbls tbls2 rest logs logs2 table rowId t c ht hc hk hrun _ ih =>
    intro pt old h ha hl
    obtain ⟨s', l, d, hm, hcl, erun, hc', hlsn', _⟩ := markDeleted_cat h table t ht rowId c hc hk
    rw [hrun] at erun
    simp only [SRes.ok.injEq] at erun
    obtain ⟨rfl, rfl⟩ := erun
    have hany : l.cells.any (fun x => x.key == rowId) = true :=
      List.any_eq_true.mpr ⟨c, hcl, by simp [hk]⟩
    obtain ⟨ptN, cN, a1, a2, a3⟩ := ih pt (old ++ [⟨c_OpDelete, s.hdr.nextLSN, l.off, rowId, []⟩]) hc'
      (by
        intro r hr
        rw [setDeleted_eq]
        rcases List.mem_append.mp hr with hr | hr
        · exact (ha r hr).after_upd ht h.tnames (Nat.le_of_lt (hl r hr)) (fun c => { c with deleted := true })
            (fun _ => rfl) rowId
        · simp only [List.mem_singleton] at hr
          subst hr
          exact .inl ⟨_, Cat.tb_mem (mem_setTable_self _ ht), updLeaves_stamps _ rowId _ t l d hm hany⟩)
      (by
        intro r hr
        rcases List.mem_append.mp hr with hr | hr
        · have := hl r hr; omega
        · simp only [List.mem_singleton] at hr
          subst hr
          show s.hdr.nextLSN < _
          omega)
    refine ⟨ptN, cN, by rw [← List.append_assoc]; exact a1, by rw [← List.append_assoc]; exact a2, .inr ?_⟩
    rcases a3 with a3 | ⟨r, hr, a3⟩
    · exact ⟨_, List.mem_append_left _ (List.mem_singleton.mpr rfl), by rw [a3, hlsn']⟩
    · exact ⟨r, List.mem_append_right _ hr, a3⟩

/-- **No logged INSERT key is beyond the row-id counter.**  A live run of row statements starts from a
store whose row-id counter no INSERT record of the old log `old` is ahead of.  The same holds at the
end for the old log followed by the records the run wrote: every INSERT writes the key the counter
hands out, and the counter never goes down.  (Recovery raises the counter to the key of every INSERT
record, also of one it skips; so this is what makes the replay of an applied log leave it alone.) -/
theorem live_run_keys (sch : Levels) {s0 sN : Store} {tbls tblsN : List (Bytes × Levels)}
    {stmts : List RStmt} {logs : List WalRec} (run : LiveRunM sch s0 tbls stmts sN tblsN logs) :
    ∀ (pt : Levels) (old : List WalRec), Cat s0 pt sch tbls →
      (∀ r ∈ old, r.op = c_OpInsert → r.cell ≤ s0.hdr.lastKey) →
      (∀ r ∈ old ++ logs, r.op = c_OpInsert → r.cell ≤ sN.hdr.lastKey) ∧
        s0.hdr.lastKey ≤ sN.hdr.lastKey := by
  induction run with
  | nil s tbls =>
    intro pt old h hk
    exact ⟨by simpa using hk, Nat.le_refl _⟩
  | @same s s1 s2 tbls tbls2 stmts logs hs _ ih =>
    intro pt old h hk
    obtain ⟨a1, a2⟩ := ih pt old (h.of_same hs) (by rw [hs.2]; exact hk)
    exact ⟨a1, by rw [← hs.2]; exact a2⟩
  | @ins s s1 s2 tbls tbls2 rest logs logs2 table cols vals t schema buf t' nf' ht hsch hcols hnames henc hlen hins
      hd' hl' hbig hrun _ ih =>
    intro pt old h hk
    obtain ⟨s', ptF, logs', erun, hc', hlk', _, hcase⟩ := insert_refines' s pt sch tbls h table t ht cols vals
      schema buf hsch hcols hnames henc hlen t' nf' hins hd' hl' hbig
    rw [hrun] at erun
    simp only [SRes.ok.injEq] at erun
    obtain ⟨rfl, rfl⟩ := erun
    have hstep : ∀ r ∈ old ++ logs, r.op = c_OpInsert → r.cell ≤ s1.hdr.lastKey := by
      intro r hr hop
      rw [hlk']
      rcases List.mem_append.mp hr with hr | hr
      · have := hk r hr hop; omega
      · rcases hcase with ⟨_, _, _, rfl⟩ | ⟨_, _, a, p, _, _, _, _, _, rfl⟩
        · simp only [List.mem_singleton] at hr
          subst hr
          exact Nat.le_refl _
        · simp only [List.mem_cons, List.not_mem_nil, or_false] at hr
          rcases hr with rfl | rfl
          · exact Nat.le_refl _
          · exact absurd hop (show ¬ c_OpUpdate = c_OpInsert by decide)
    obtain ⟨a1, a2⟩ := ih ptF (old ++ logs) hc' hstep
    exact ⟨by rw [← List.append_assoc]; exact a1, by omega⟩
  | @upd s s1 s2 tbls tbls2 rest logs logs2 table rowId cols src t schema c m buf ht hsch hc hk' hdec henc hlen
      hrun _ ih =>
    intro pt old h hk
    obtain ⟨s', l, d, _, _, erun, hc', _, hlk', _⟩ := update_cat h table t ht schema hsch rowId cols src
      (update_ok_names h ht hsch hrun) c hc hk'
      m buf hdec henc hlen
    rw [hrun] at erun
    simp only [SRes.ok.injEq] at erun
    obtain ⟨rfl, rfl⟩ := erun
    obtain ⟨a1, a2⟩ := ih pt (old ++ [⟨c_OpUpdate, s.hdr.nextLSN, l.off, rowId, buf⟩]) hc'
      (by
        intro r hr hop
        rw [hlk']
        rcases List.mem_append.mp hr with hr | hr
        · exact hk r hr hop
        · simp only [List.mem_singleton] at hr
          subst hr
          exact absurd hop (show ¬ c_OpUpdate = c_OpInsert by decide))
    exact ⟨by rw [← List.append_assoc]; exact a1, by omega⟩
  | @updAbsent s s1 s2 tbls tbls2 rest logs logs2 table rowId cols src t schema ht hsch habs hrun _ ih =>
    intro pt old h hk
    obtain ⟨s', erun, hs, hc'⟩ := update_cat_absent h table t ht schema hsch rowId cols src
      (update_ok_names h ht hsch hrun) habs
    rw [hrun] at erun
    simp only [SRes.ok.injEq] at erun
    obtain ⟨rfl, rfl⟩ := erun
    obtain ⟨a1, a2⟩ := ih pt old hc' (by rw [hs.2]; exact hk)
    exact ⟨by simpa using a1, by rw [← hs.2]; exact a2⟩
  | @del s s1 s2 tbls tbls2 rest logs logs2 table rowId t c ht hc hk' hrun _ ih =>
    intro pt old h hk
    obtain ⟨s', l, d, _, _, erun, hc', _, hlk', _⟩ := markDeleted_cat h table t ht rowId c hc hk'
    rw [hrun] at erun
    simp only [SRes.ok.injEq] at erun
    obtain ⟨rfl, rfl⟩ := erun
    obtain ⟨a1, a2⟩ := ih pt (old ++ [⟨c_OpDelete, s.hdr.nextLSN, l.off, rowId, []⟩]) hc'
      (by
        intro r hr hop
        rw [hlk']
        rcases List.mem_append.mp hr with hr | hr
        · exact hk r hr hop
        · simp only [List.mem_singleton] at hr
          subst hr
          exact absurd hop (show ¬ c_OpDelete = c_OpInsert by decide))
    exact ⟨by rw [← List.append_assoc]; exact a1, by omega⟩

end Mkdb.Store
