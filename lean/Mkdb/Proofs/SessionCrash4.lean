import Mkdb.Proofs.SessionCrash3
/-!
Sessions and crashes, part 4: **the databases that are not selected are checkpointed**.

`SessCrash s w` (SessionCrash1) says of every database that it is reached from a checkpoint by accepted row
statements (`DbCrash`); of the databases that are NOT selected it does not say that they ARE checkpointed
(`CkptNS`), so a CREATE TABLE right after USE could not discharge its hypothesis `CkptNS db (w n)` from it.

* `SessCrash' s w`: `SessCrash s w`, and every database that is not selected is `CkptNS`.
* it holds of `{}`, and is kept by everything `SessCrash` is kept by: USE, CREATE DATABASE, statements that
  leave the session as it is, accepted INSERT / UPDATE / DELETE, accepted CREATE TABLE on a checkpointed
  selected database, `restart`, `crashRestart`;
* `use_cases`: what USE does to the session, exactly;
* `use_ckpt`: after an accepted USE every database other than the selected one is `CkptNS` (the one left
  behind: after the flush), and so is the selected one unless it was selected before;
* `createTable_after_use`: CREATE TABLE right after an accepted USE of another database needs no
  `CkptNS` hypothesis.
-/
set_option autoImplicit false
namespace Mkdb.Session
open Mkdb.Engine Mkdb.Sql Mkdb.Tree
open Mkdb.Store hiding Stmt

/-- **The crash invariant with the non-selected databases checkpointed.** -/
structure SessCrash' (s : Sess) (w : String → Spec.SDB) : Prop where
  base : SessCrash s w
  others : ∀ p ∈ s.dbs, s.cur ≠ some p.1 → CkptNS p.2 (w p.1)

theorem sessCrash'_empty (w : String → Spec.SDB) : SessCrash' {} w :=
  ⟨sessCrash_empty w, fun _ hp => absurd hp List.not_mem_nil⟩

/-- with nothing selected: every database is checkpointed -/
theorem SessCrash'.all_ckpt {s : Sess} {w : String → Spec.SDB} (h : SessCrash' s w) (hc : s.cur = none) :
    ∀ p ∈ s.dbs, CkptNS p.2 (w p.1) := fun p hp => h.others p hp (by rw [hc]; intro hx; cases hx)

/-- **A crash between two statements**: as `crashRestart_sessCrash`, for the stronger invariant. -/
theorem crashRestart_sessCrash' {s : Sess} {w : String → Spec.SDB} (h : SessCrash s w) :
    ∃ s', crashRestart s = some s' ∧ SessCrash' s' w ∧ names s' = names s ∧ s'.cur = none ∧
      ∀ p ∈ s'.dbs, CkptNS p.2 (w p.1) := by
  obtain ⟨s', e, h1, h2, h3, h4⟩ := crashRestart_sessCrash h
  exact ⟨s', e, ⟨h1, fun p hp _ => h4 p hp⟩, h2, h3, h4⟩

/-- **`restart`**: as `restart_sessCrash`, for the stronger invariant. -/
theorem restart_sessCrash' {s : Sess} {w : String → Spec.SDB} (h : SessCrash s w) :
    ∃ s', restart s = some s' ∧ SessCrash' s' w ∧ names s' = names s ∧ s'.cur = none ∧
      ∀ p ∈ s'.dbs, CkptNS p.2 (w p.1) := by
  obtain ⟨s', e, h1, h2, h3, h4⟩ := restart_sessCrash h
  exact ⟨s', e, ⟨h1, fun p hp _ => h4 p hp⟩, h2, h3, h4⟩

/-- a statement that leaves the session as it is -/
theorem same_sessCrash' {s : Sess} {w : String → Spec.SDB} (h : SessCrash' s w) (st : Stmt)
    (hs : (exec s st).1 = s) : SessCrash' (exec s st).1 w := by rw [hs]; exact h

/-! ### USE -/

/-- **What USE does**: refused - the session is as before; accepted - the database exists and is selected
now; the session is otherwise as before (nothing or the same database was selected; or - excluded by the
invariant - the selected database is missing or its flush fails), or the database selected before was
flushed and re-opened. -/
theorem use_cases (s : Sess) (name : Bytes) :
    ((exec s (.use name)).1 = s ∧ (exec s (.use name)).2 ≠ Out.ok) ∨
    ((exec s (.use name)).2 = Out.ok ∧ (getDB s (canon name)).isSome = true ∧
      (((exec s (.use name)).1 = { s with cur := some (canon name) } ∧
          (s.cur = none ∨ s.cur = some (canon name) ∨
            ∃ c, s.cur = some c ∧
              (getDB s c = none ∨ ∃ db, getDB s c = some db ∧ ∀ db', flush db [] ≠ .ok () db'))) ∨
       ∃ c db db', s.cur = some c ∧ c ≠ canon name ∧ getDB s c = some db ∧ flush db [] = .ok () db' ∧
          (exec s (.use name)).1 =
            { setDB s c { db' with store := reopen db'.store } with cur := some (canon name) })) := by
  unfold exec
  by_cases hv' : validDbName name = false
  · simp only [hv', Bool.not_false, if_true]; exact .inl ⟨trivial, fun hx => by cases hx⟩
  have hv : validDbName name = true := by simpa using hv'
  simp only [hv, Bool.not_true, Bool.false_eq_true, if_false]
  by_cases hne : name.isEmpty = true
  · simp only [hne, if_true]; exact .inl ⟨trivial, fun hx => by cases hx⟩
  simp only [hne, Bool.false_eq_true, if_false]
  by_cases hex : (getDB s (canon name)).isNone = true
  · simp only [hex, if_true]; exact .inl ⟨trivial, fun hx => by cases hx⟩
  simp only [hex, Bool.false_eq_true, if_false]
  have hsome : (getDB s (canon name)).isSome = true := by
    cases hg : getDB s (canon name) with
    | none => rw [hg] at hex; exact absurd rfl hex
    | some x => rfl
  refine .inr ⟨(by first | rfl | trivial | assumption), hsome, ?_⟩
  cases hc : s.cur with
  | none => exact .inl ⟨(by first | rfl | trivial | assumption), .inl (by first | rfl | trivial | assumption)⟩
  | some c =>
    simp only
    by_cases hcn : c = canon name
    · have hb : (c == canon name) = true := by simp [hcn]
      simp only [hb, if_true]
      exact .inl ⟨(by first | rfl | trivial | assumption), .inr (.inl (by rw [hcn]))⟩
    · have hb : (c == canon name) = false := by simpa using hcn
      simp only [hb, Bool.false_eq_true, if_false]
      cases hg : getDB s c with
      | none => exact .inl ⟨(by first | rfl | trivial | assumption), .inr (.inr ⟨c, (by first | rfl | trivial | assumption), .inl (by first | rfl | trivial | assumption)⟩)⟩
      | some db =>
        simp only
        cases hf : flush db [] with
        | ok u db' => exact .inr ⟨c, db, db', (by first | rfl | trivial | assumption), hcn, (by first | rfl | trivial | assumption), (by first | rfl | trivial | assumption), (by first | rfl | trivial | assumption)⟩
        | err x y => exact .inl ⟨(by first | rfl | trivial | assumption), .inr (.inr ⟨c, (by first | rfl | trivial | assumption), .inr ⟨db, (by first | rfl | trivial | assumption), fun _ hx => by rw [hf] at hx; cases hx⟩⟩)⟩
        | panic x => exact .inl ⟨(by first | rfl | trivial | assumption), .inr (.inr ⟨c, (by first | rfl | trivial | assumption), .inr ⟨db, (by first | rfl | trivial | assumption), fun _ hx => by rw [hf] at hx; cases hx⟩⟩)⟩
        | unmodelled x => exact .inl ⟨(by first | rfl | trivial | assumption), .inr (.inr ⟨c, (by first | rfl | trivial | assumption), .inr ⟨db, (by first | rfl | trivial | assumption), fun _ hx => by rw [hf] at hx; cases hx⟩⟩)⟩
        | fuel => exact .inl ⟨(by first | rfl | trivial | assumption), .inr (.inr ⟨c, rfl, .inr ⟨db, (by first | rfl | trivial | assumption), fun _ hx => by rw [hf] at hx; cases hx⟩⟩)⟩

/-- the two impossible cases of `use_cases` under the invariant -/
theorem use_bad_absurd {s : Sess} {w : String → Spec.SDB} (h : SessCrash s w) {c : String} (hc : s.cur = some c)
    (hbad : getDB s c = none ∨ ∃ db, getDB s c = some db ∧ ∀ db', flush db [] ≠ .ok () db') : False := by
  rcases hbad with hg | ⟨db, hg, hf⟩
  · have := h.abs.cur c hc
    rw [hg] at this
    cases this
  · obtain ⟨db1, e1, _⟩ := (h.crash (c, db) (getDB_mem hg)).flush []
    exact hf db1 e1

/-- the database left behind by USE is checkpointed after its flush -/
theorem flushed_ckpt {s : Sess} {w : String → Spec.SDB} (h : SessCrash s w) {c : String} {db db' : DB}
    (hg : getDB s c = some db) (hf : flush db [] = .ok () db') :
    CkptNS { db' with store := reopen db'.store } (w c) := by
  obtain ⟨db1, e1, _, hk⟩ := (h.crash (c, db) (getDB_mem hg)).flush []
  simp only at e1 hk
  rw [hf] at e1
  simp only [Engine.Res.ok.injEq, true_and] at e1
  subst e1
  exact hk.reopen

/-- **USE keeps the stronger crash invariant.** -/
theorem use_sessCrash' {s : Sess} {w : String → Spec.SDB} (h : SessCrash' s w) (name : Bytes) :
    SessCrash' (exec s (.use name)).1 w := by
  refine ⟨use_sessCrash h.base name, ?_⟩
  rcases use_cases s name with ⟨e, _⟩ | ⟨_, _, ⟨e, hcase⟩ | ⟨c, db, db', hc, hne, hg, hf, e⟩⟩
  · rw [e]; exact h.others
  · rw [e]
    intro p hp hcur
    simp only at hp hcur
    rcases hcase with hn | hn | ⟨c, hc, hbad⟩
    · exact h.others p hp (by rw [hn]; intro hx; cases hx)
    · exact h.others p hp (by rw [hn]; exact hcur)
    · exact (use_bad_absurd h.base hc hbad).elim
  · rw [e]
    intro p hp hcur
    simp only at hp hcur
    rcases mem_setDB hp with rfl | ⟨hp', hpc⟩
    · exact flushed_ckpt h.base hg hf
    · exact h.others p hp' (by rw [hc]; intro hx; exact hpc (Option.some.inj hx).symm)

/-- **After an accepted USE** the named database is selected and exists; every OTHER database is
checkpointed - the one left behind too, after its flush -; and the selected one is checkpointed unless it
was the selected one before. -/
theorem use_ckpt {s : Sess} {w : String → Spec.SDB} (h : SessCrash' s w) (name : Bytes)
    (hok : (exec s (.use name)).2 = Out.ok) :
    (exec s (.use name)).1.cur = some (canon name) ∧
    (∀ p ∈ (exec s (.use name)).1.dbs, p.1 ≠ canon name → CkptNS p.2 (w p.1)) ∧
    ∃ db, getDB (exec s (.use name)).1 (canon name) = some db ∧
      (s.cur ≠ some (canon name) → CkptNS db (w (canon name))) := by
  have h' := use_sessCrash' h name
  have hcur : (exec s (.use name)).1.cur = some (canon name) := by
    rcases use_cases s name with ⟨_, e⟩ | ⟨_, _, ⟨e, _⟩ | ⟨c, db, db', _, _, _, _, e⟩⟩
    · exact absurd hok e
    · rw [e]
    · rw [e]
  refine ⟨hcur, fun p hp hne => h'.others p hp (by rw [hcur]; intro hx; exact hne (Option.some.inj hx).symm), ?_⟩
  have hs := h'.base.abs.cur _ hcur
  cases hg : getDB (exec s (.use name)).1 (canon name) with
  | none => rw [hg] at hs; cases hs
  | some db =>
    refine ⟨db, rfl, fun hsel => ?_⟩
    -- the selected database is a database of the session before, not selected there, and untouched
    rcases use_cases s name with ⟨_, e⟩ | ⟨_, _, ⟨e, _⟩ | ⟨c, db0, db', hc, hcn, hg0, hf, e⟩⟩
    · exact absurd hok e
    · rw [e] at hg
      have hg' : getDB s (canon name) = some db := hg
      exact h.others _ (getDB_mem hg') hsel
    · rw [e] at hg
      have hg' : getDB (setDB s c { db' with store := reopen db'.store }) (canon name) = some db := hg
      rw [getDB_setDB] at hg'
      have hb : (canon name == c) = false := by simpa using fun hx : canon name = c => hcn hx.symm
      simp only [hb, Bool.false_eq_true, if_false] at hg'
      exact h.others _ (getDB_mem hg') hsel

/-! ### CREATE DATABASE -/

/-- the plain databases after CREATE DATABASE: a new empty one if the statement was accepted -/
def cdW (s : Sess) (w : String → Spec.SDB) (name : Bytes) : String → Spec.SDB :=
  match (exec s (.createDatabase name)).2 with
  | .ok => setW w (canon name) []
  | _ => w

theorem cdW_ok {s : Sess} {w : String → Spec.SDB} {name : Bytes} (h : (exec s (.createDatabase name)).2 = Out.ok) :
    cdW s w name = setW w (canon name) [] := by
  unfold cdW; rw [h]

theorem cdW_refused {s : Sess} {w : String → Spec.SDB} {name : Bytes}
    (h : (exec s (.createDatabase name)).2 ≠ Out.ok) : cdW s w name = w := by
  unfold cdW
  cases ho : (exec s (.createDatabase name)).2 with
  | ok => exact absurd ho h
  | err k => rfl
  | panic => rfl
  | rows n => rfl

/-- what CREATE DATABASE does -/
theorem createDatabase_cases (s : Sess) (name : Bytes) :
    ((exec s (.createDatabase name)).1 = s ∧ (exec s (.createDatabase name)).2 ≠ Out.ok) ∨
    ((exec s (.createDatabase name)).2 = Out.ok ∧ getDB s (canon name) = none ∧
      (exec s (.createDatabase name)).1 = setDB s (canon name) newDB) := by
  unfold exec
  by_cases hv' : validDbName name = false
  · simp only [hv', Bool.not_false, if_true]; exact .inl ⟨trivial, fun hx => by cases hx⟩
  have hv : validDbName name = true := by simpa using hv'
  simp only [hv, Bool.not_true, Bool.false_eq_true, if_false]
  by_cases hne : name.isEmpty = true
  · simp only [hne, if_true]; exact .inl ⟨trivial, fun hx => by cases hx⟩
  simp only [hne, Bool.false_eq_true, if_false]
  by_cases hex : (getDB s (canon name)).isSome = true
  · simp only [hex, if_true]; exact .inl ⟨trivial, fun hx => by cases hx⟩
  simp only [hex, Bool.false_eq_true, if_false, createDB_eq]
  have hnone : getDB s (canon name) = none := by
    cases hg : getDB s (canon name) with
    | none => rfl
    | some x => rw [hg] at hex; exact absurd rfl hex
  exact .inr ⟨trivial, hnone, rfl⟩

/-- **CREATE DATABASE keeps the stronger crash invariant**, for the plain databases `cdW`. -/
theorem createDatabase_sessCrash' {s : Sess} {w : String → Spec.SDB} (h : SessCrash' s w) (name : Bytes) :
    SessCrash' (exec s (.createDatabase name)).1 (cdW s w name) := by
  obtain ⟨w', h1, _, h3, h4⟩ := createDatabase_sessCrash h.base name
  rcases createDatabase_cases s name with ⟨e, hno⟩ | ⟨hok, hnone, e⟩
  · rw [cdW_refused hno, e]; exact h
  · rw [cdW_ok hok]
    refine ⟨by rw [← h3 hok]; exact h1, ?_⟩
    rw [e]
    intro p hp hcur
    rcases mem_setDB hp with rfl | ⟨hp', hne'⟩
    · rw [setW_same]; exact ckptNS_newDB
    · rw [setW_other w _ hne']; exact h.others p hp' hcur

/-! ### statements routed to the selected database -/

/-- a statement routed to the selected database leaves the selection and the other databases alone -/
theorem onCurrent_others {α : Type} (s : Sess) (f : DB → Res α) :
    (onCurrent s f).1.cur = s.cur ∧ ∀ p ∈ (onCurrent s f).1.dbs, s.cur ≠ some p.1 → p ∈ s.dbs := by
  unfold onCurrent
  cases hc : s.cur with
  | none => exact ⟨hc, fun p hp _ => hp⟩
  | some n =>
    simp only
    cases hg : getDB s n with
    | none => exact ⟨hc, fun p hp _ => hp⟩
    | some db =>
      simp only
      cases hf : f db with
      | ok a db' =>
        refine ⟨hc, fun p hp hne => ?_⟩
        rcases mem_setDB hp with rfl | ⟨hp', _⟩
        · exact absurd rfl hne
        · exact hp'
      | err a db' =>
        refine ⟨hc, fun p hp hne => ?_⟩
        rcases mem_setDB hp with rfl | ⟨hp', _⟩
        · exact absurd rfl hne
        · exact hp'
      | panic x => exact ⟨hc, fun p hp _ => hp⟩
      | unmodelled x => exact ⟨hc, fun p hp _ => hp⟩
      | fuel => exact ⟨hc, fun p hp _ => hp⟩

/-- a routed statement that keeps `SessCrash` for plain databases changed at the selected name only keeps
the stronger invariant -/
theorem routed_sessCrash' {s : Sess} {w w' : String → Spec.SDB} (h : SessCrash' s w) (st : Stmt)
    (hk : (∃ n c, st = .createTable n c) ∨ (∃ t c r, st = .insert t c r) ∨ (∃ t a c, st = .update t a c) ∨
      (∃ t c, st = .delete t c))
    (hw : ∀ m, s.cur ≠ some m → w' m = w m) (hb : SessCrash (exec s st).1 w') : SessCrash' (exec s st).1 w' := by
  refine ⟨hb, ?_⟩
  rw [exec_routed s st hk]
  obtain ⟨hcur, hmem⟩ := onCurrent_others s fun db => evalStmt db [] st
  intro p hp hne
  rw [hcur] at hne
  rw [hw _ hne]
  exact h.others p (hmem p hp hne) hne

/-- **An accepted INSERT / UPDATE / DELETE keeps the stronger crash invariant.** -/
theorem accepted_sessCrash' {s : Sess} {w : String → Spec.SDB} (h : SessCrash' s w) (n : String)
    (hc : s.cur = some n) (db : DB) (hg : getDB s n = some db) (st : Stmt)
    (hk : (∃ t c r, st = .insert t c r) ∨ (∃ t a c, st = .update t a c) ∨ (∃ t c, st = .delete t c))
    (hroom : ∀ pt sch tbls, DbInv db (w n) pt sch tbls → StmtRoom db pt sch tbls st)
    (sdb' : Spec.SDB) (hspec : Spec.specStmt (w n) st = some sdb') :
    (exec s st).2 = Out.ok ∧ SessCrash' (exec s st).1 (setW w n sdb') := by
  obtain ⟨h1, h2⟩ := accepted_sessCrash h.base n hc db hg st hk hroom sdb' hspec
  refine ⟨h1, routed_sessCrash' h st (.inr hk) (fun m hm => ?_) h2⟩
  exact setW_other w _ (by rw [hc] at hm; intro hx; exact hm (by rw [hx]))

/-- **An accepted CREATE TABLE on a checkpointed selected database keeps the stronger crash invariant**,
and the selected database is checkpointed again. -/
theorem createTable_sessCrash' {s : Sess} {w : String → Spec.SDB} (h : SessCrash' s w) (n : String)
    (hc : s.cur = some n) (db : DB) (hg : getDB s n = some db) (hck : CkptNS db (w n))
    (t : Bytes) (cols : List ColDef)
    (hroom : ∀ pt sch tbls, DbInv db (w n) pt sch tbls → StmtRoom db pt sch tbls (.createTable t cols))
    (sdb' : Spec.SDB) (hspec : Spec.specStmt (w n) (.createTable t cols) = some sdb') :
    (exec s (.createTable t cols)).2 = Out.ok ∧ SessCrash' (exec s (.createTable t cols)).1 (setW w n sdb') ∧
      ∃ db', getDB (exec s (.createTable t cols)).1 n = some db' ∧ CkptNS db' sdb' := by
  obtain ⟨h1, h2, h3⟩ := createTable_sessCrash h.base n hc db hg hck t cols hroom sdb' hspec
  refine ⟨h1, routed_sessCrash' h _ (.inl ⟨t, cols, rfl⟩) (fun m hm => ?_) h2, h3⟩
  exact setW_other w _ (by rw [hc] at hm; intro hx; exact hm (by rw [hx]))

/-- **CREATE TABLE right after an accepted USE of another database** (or after `restart` /
`crashRestart` and a USE: then nothing was selected) needs no `CkptNS` hypothesis: the invariant gives
it. -/
theorem createTable_after_use {s : Sess} {w : String → Spec.SDB} (h : SessCrash' s w) (name : Bytes)
    (hok : (exec s (.use name)).2 = Out.ok) (hsel : s.cur ≠ some (canon name))
    (db : DB) (hg : getDB (exec s (.use name)).1 (canon name) = some db)
    (t : Bytes) (cols : List ColDef)
    (hroom : ∀ pt sch tbls, DbInv db (w (canon name)) pt sch tbls → StmtRoom db pt sch tbls (.createTable t cols))
    (sdb' : Spec.SDB) (hspec : Spec.specStmt (w (canon name)) (.createTable t cols) = some sdb') :
    (exec (exec s (.use name)).1 (.createTable t cols)).2 = Out.ok ∧
    SessCrash' (exec (exec s (.use name)).1 (.createTable t cols)).1 (setW w (canon name) sdb') ∧
    ∃ db', getDB (exec (exec s (.use name)).1 (.createTable t cols)).1 (canon name) = some db' ∧
      CkptNS db' sdb' := by
  obtain ⟨hcur, _, db1, hg1, hck⟩ := use_ckpt h name hok
  rw [hg] at hg1
  cases hg1
  exact createTable_sessCrash' (use_sessCrash' h name) (canon name) hcur db hg (hck hsel) t cols hroom sdb' hspec

end Mkdb.Session
