import Mkdb.Proofs.SpecRefine1
/-!
End-to-end refinement, part 2: INSERT.

* `insert_step`: one valid row (the spec's `rowOf` accepts it) under the abstraction relation: the
  model's `Store.insert` succeeds, the abstraction afterwards is the spec database with that row
  (carrying the next row id) appended to the table.
* `InsRunOK`: the fuel / size side conditions along the run of a statement, as a recursive predicate
  over the successive trees.
* `evalInsert_go_spec`, `evalInsert_refines_spec`: the whole statement.
* `insert_refused_abs`, `evalInsert_refused_spec`: the first row is refused (or the table is unknown):
  the statement fails, the abstraction and the log are unchanged.
* `evalInsert_kth_refused_spec`: a later row is refused: the rows before it stay applied.
-/
set_option autoImplicit false
namespace Mkdb.Store
open Mkdb.Page Mkdb.Tuple Mkdb.Generated Mkdb.Tree

/-! ### small facts -/

theorem setTable_self {tbls : List (Bytes × Levels)} (hnd : (tbls.map (·.1)).Nodup) {table : Bytes} {t : Levels}
    (ht : (table, t) ∈ tbls) : setTable tbls table t = tbls := by
  unfold setTable
  conv => rhs; rw [← List.map_id tbls]
  apply List.map_congr_left
  intro e he
  split
  · rename_i hn
    exact (inj_of_nodup_map (·.1) tbls hnd e he (table, t) ht hn).symm
  · rfl

theorem updRows_id (table : Bytes) (sdb : Spec.SDB) : sdb.map (updRows table (fun r => r ++ [])) = sdb := by
  conv => rhs; rw [← List.map_id sdb]
  apply List.map_congr_left
  intro x _
  unfold updRows
  split
  · simp
  · rfl

theorem mapM_nil_some {α β} (f : α → Option β) (ys : List β) : ([] : List α).mapM f = some ys ↔ ys = [] := by
  simp [eq_comm]

theorem mapM_cons_some {α β} (f : α → Option β) (a : α) (l : List α) (ys : List β) :
    (a :: l).mapM f = some ys ↔ ∃ b bs, f a = some b ∧ l.mapM f = some bs ∧ ys = b :: bs := by
  rw [List.mapM_cons]
  cases hfa : f a with
  | none => simp
  | some b =>
    cases hl : l.mapM f with
    | none => simp
    | some bs => simp [eq_comm]

/-- the catalog invariant looks at the pages, the allocation frontier, the page-table root and an upper
bound of the keys only -/
theorem Cat.of_view {s s' : Store} {pt sch : Levels} {tbls : List (Bytes × Levels)} (h : Cat s pt sch tbls)
    (hv : view s' = view s) (hnf : s'.hdr.nextFree = s.hdr.nextFree) (hpr : s'.hdr.ptRoot = s.hdr.ptRoot)
    (hlk : s.hdr.lastKey ≤ s'.hdr.lastKey) : Cat s' pt sch tbls where
  tree := fun x hx => by
    obtain ⟨a, b, c, d, e⟩ := h.tree x hx
    rw [hnf]
    exact ⟨fun y hy => by rw [hv]; exact a y hy, b, c, d, fun k hk => Nat.le_trans (e k hk) hlk⟩
  disj := h.disj
  root := by rw [hpr]; exact h.root
  dec := h.dec
  names := h.names
  esch := h.esch
  etb := h.etb
  only := h.only
  tnames := h.tnames
  tsys := h.tsys
  tlen := h.tlen

theorem Abs.of_same {s s' : Store} {pt sch : Levels} {tbls : List (Bytes × Levels)} {sdb : Spec.SDB}
    (h : Abs s pt sch tbls sdb) (hs : Same s s') : Abs s' pt sch tbls sdb :=
  ⟨h.cat.of_same hs, h.tabs⟩

/-! ### one valid row -/

/-- **One row of an INSERT statement the spec accepts.**  The model's insert succeeds; the new tree is
the levels insert of the encoded row under the next row id; afterwards the store abstracts to the spec
database with the row - carrying that id - appended to the table. -/
theorem insert_step {s : Store} {pt sch : Levels} {tbls : List (Bytes × Levels)} {sdb : Spec.SDB}
    (h : Abs s pt sch tbls sdb) (table : Bytes) (t : Levels) (ht : (table, t) ∈ tbls)
    (schema : List FieldDef) (hsch : schemaOf sch table = some schema)
    (cols : List Bytes) (vals vs : List Val) (hvalid : ∀ v ∈ vals, ValidVal v)
    (hrow : Spec.rowOf (absTable table schema t) cols vals = some vs)
    (hnames : checkColumns schema (colsOf schema (cols.map Engine.bytesToName)) = none)
    (hside : ∀ buf t' nf',
      encodeTuple schema ((colsOf schema (cols.map Engine.bytesToName)).zip vals).reverse = .ok buf →
      insertAppend t (s.hdr.lastKey + 1) s.hdr.nextLSN buf s.hdr.nextFree = .ok (t', nf') →
      t'.inner.length + 2 ≤ treeFuel ∧ t'.leaves.length ≤ scanFuel ∧ (nf' : Int) ≤ 9223372036854775807) :
    ∃ s' ptF logs buf t' nf',
      insert table (cols.map Engine.bytesToName) vals s = .ok logs s' ∧
      encodeTuple schema ((colsOf schema (cols.map Engine.bytesToName)).zip vals).reverse = .ok buf ∧
      insertAppend t (s.hdr.lastKey + 1) s.hdr.nextLSN buf s.hdr.nextFree = .ok (t', nf') ∧
      Abs s' ptF sch (setTable tbls table t')
        (sdb.map (updRows table (fun r => r ++ [⟨some (s.hdr.lastKey + 1), vs⟩]))) ∧
      s'.hdr.lastKey = s.hdr.lastKey + 1 ∧ s'.hdr.nextFree = nf' ∧
      s'.hdr.nextLSN = (if rootOff t' = rootOff t then s.hdr.nextLSN + 1 else s.hdr.nextLSN + 2) := by
  obtain ⟨hlen, buf, henc, hsz, hvs⟩ := (specRowOf_some_iff _ cols vals vs).mp hrow
  change (colsOf schema (cols.map Engine.bytesToName)).length = vals.length at hlen
  change encodeTuple schema ((colsOf schema (cols.map Engine.bytesToName)).zip vals).reverse = .ok buf at henc
  change vs = schema.map fun fd => get ((colsOf schema (cols.map Engine.bytesToName)).zip vals).reverse fd.name at hvs
  obtain ⟨hHt, hIt, hdt, _, hkt⟩ := h.cat.tree t (Cat.tb_mem ht)
  obtain ⟨⟨t', nf'⟩, hins⟩ := insertAppend_fresh t s.hdr.nextFree (s.hdr.lastKey + 1) s.hdr.nextLSN buf hIt
    (fun a ha => Nat.lt_succ_of_le (hkt a ha)) hsz
  obtain ⟨hd', hl', hbig⟩ := hside buf t' nf' henc hins
  obtain ⟨s', ptF, logs, e, hc, hlk, hnf, hcase⟩ := insert_refines s pt sch tbls h.cat table t ht
    (cols.map Engine.bytesToName) vals schema buf hsch hlen hnames henc hsz t' nf' hins hd' hl' hbig
  refine ⟨s', ptF, logs, buf, t', nf', e, henc, hins, ⟨hc, ?_⟩, hlk, hnf, ?_⟩
  · -- the abstraction
    obtain ⟨schema', hsch', hdec, _⟩ := h.tabs.find h.cat.tnames ht
    rw [hsch] at hsch'
    simp only [Option.some.injEq] at hsch'
    subst hsch'
    have hlive := insert_live t t' _ _ _ nf' buf hins
    obtain ⟨hdnew, hrnew⟩ := rowOf_new schema _
      (fun fd _ => get_zip_valid _ vals hvalid fd.name) buf henc (s.hdr.lastKey + 1) false
    apply h.tabs.setTable h.cat.tnames ht schema hsch t'
    · intro c hc
      rw [hlive] at hc
      rcases List.mem_append.mp hc with hc | hc
      · exact hdec c hc
      · simp only [List.mem_singleton] at hc
        subst hc
        exact hdnew
    · simp only [absTable, hlive, rowsOf, List.filterMap_append, List.filterMap_cons, List.filterMap_nil,
        hrnew, List.map_append, List.map_cons, List.map_nil, hvs]
  · rcases hcase with ⟨hr, _, hl, _⟩ | ⟨hr, hl, _⟩
    · simp only [hr, if_true, hl]
    · simp only [hr, if_false, hl]

/-! ### the whole statement -/

/-- The fuel / size side conditions along the run of an INSERT statement: whenever the levels insert
of the next (encoded) row under the next row id produces a tree, that tree is within the fuel of the
descents and scans and the allocation frontier is an `int64`; recursively for the rest of the rows. -/
def InsRunOK (schema : List FieldDef) (cols : List String) :
    Levels → Nat → Nat → Nat → List (List Val) → Prop
  | _, _, _, _, [] => True
  | t, lk, lsn, nf, r :: rest =>
    ∀ buf t' nf', encodeTuple schema ((colsOf schema cols).zip r).reverse = .ok buf →
      insertAppend t (lk + 1) lsn buf nf = .ok (t', nf') →
      t'.inner.length + 2 ≤ treeFuel ∧ t'.leaves.length ≤ scanFuel ∧ (nf' : Int) ≤ 9223372036854775807 ∧
      InsRunOK schema cols t' (lk + 1) (if rootOff t' = rootOff t then lsn + 1 else lsn + 2) nf' rest

/-- the model's per-row inserts, one after the other (the loop of `evalInsert` without the log) -/
inductive InsApplies (table : Bytes) (cols : List String) :
    List (List Val) → Store → List WalRec → Store → Prop
  | nil (s : Store) : InsApplies table cols [] s [] s
  | cons {r : List Val} {rest : List (List Val)} {s s1 s2 : Store} {logs logs' : List WalRec} :
      insert table cols r s = .ok logs s1 → InsApplies table cols rest s1 logs' s2 →
      InsApplies table cols (r :: rest) s (logs ++ logs') s2

/-- the rows of a spec table built from values and the row ids `k+1, k+2, …` -/
def idRows (k : Nat) : List (List Val) → List Spec.SRow
  | [] => []
  | v :: rest => ⟨some (k + 1), v⟩ :: idRows (k + 1) rest

theorem idRows_vals (k : Nat) (vs : List (List Val)) : (idRows k vs).map (·.vals) = vs := by
  induction vs generalizing k with
  | nil => rfl
  | cons v rest ih => simp only [idRows, List.map_cons, ih]

theorem idRows_ids (k : Nat) (vs : List (List Val)) :
    (idRows k vs).map (·.id) = (List.range' (k + 1) vs.length).map some := by
  induction vs generalizing k with
  | nil => rfl
  | cons v rest ih => simp only [idRows, List.map_cons, ih, List.length_cons, List.range'_succ]

/-- the loop of `evalInsert` over rows the spec accepts -/
theorem evalInsert_go_spec (db : Engine.DB) (table : Bytes) (cols : List Bytes) (sch : Levels)
    (schema : List FieldDef) (hsch : schemaOf sch table = some schema) (tail : List (List Val)) :
    ∀ (rows : List (List Val)) (newRows : List (List Val)) (s : Store) (pt : Levels)
      (tbls : List (Bytes × Levels)) (t : Levels) (sdb : Spec.SDB) (batch : List WalRec) (n : Nat),
      Abs s pt sch tbls sdb → (table, t) ∈ tbls →
      (∀ r ∈ rows, ∀ v ∈ r, ValidVal v) →
      rows.mapM (Spec.rowOf ⟨table, schema, []⟩ cols) = some newRows →
      (rows = [] ∨ checkColumns schema (colsOf schema (cols.map Engine.bytesToName)) = none) →
      InsRunOK schema (cols.map Engine.bytesToName) t s.hdr.lastKey s.hdr.nextLSN s.hdr.nextFree rows →
      ∃ s' ptF t' logs,
        Engine.evalInsert.go db table cols s batch n (rows ++ tail) =
          Engine.evalInsert.go db table cols s' (batch ++ logs) (n + rows.length) tail ∧
        InsApplies table (cols.map Engine.bytesToName) rows s logs s' ∧
        Abs s' ptF sch (setTable tbls table t')
          (sdb.map (updRows table (fun r => r ++ idRows s.hdr.lastKey newRows))) ∧
        s'.hdr.lastKey = s.hdr.lastKey + rows.length := by
  intro rows
  induction rows with
  | nil =>
    intro newRows s pt tbls t sdb batch n h ht _ hrows _ _
    rw [mapM_nil_some] at hrows
    subst hrows
    refine ⟨s, pt, t, [], ?_, .nil s, ?_, rfl⟩
    · simp only [List.nil_append, List.length_nil, Nat.add_zero, List.append_nil]
    · rw [setTable_self h.cat.tnames ht]
      simp only [idRows]
      rw [updRows_id]
      exact h
  | cons r rest ih =>
    intro newRows s pt tbls t sdb batch n h ht hvalid hrows hnames hrun
    obtain ⟨vs, newRest, hr, hrest, rfl⟩ := (mapM_cons_some _ _ _ _).mp hrows
    have hnames' : checkColumns schema (colsOf schema (cols.map Engine.bytesToName)) = none := by
      rcases hnames with h0 | h0
      · cases h0
      · exact h0
    have hstep := insert_step h table t ht schema hsch cols r vs (hvalid r List.mem_cons_self) hr hnames'
      (fun buf t' nf' he hi => by
        obtain ⟨a, b, c, _⟩ := hrun buf t' nf' he hi
        exact ⟨a, b, c⟩)
    obtain ⟨s1, ptF1, logs1, buf, t1, nf1, e1, henc, hins, habs1, hlk1, hnf1, hlsn1⟩ := hstep
    obtain ⟨_, _, _, hrun1⟩ := hrun buf t1 nf1 henc hins
    rw [← hlk1, ← hnf1, ← hlsn1] at hrun1
    obtain ⟨s', ptF, t', logs', ego, happ, habs', hlk'⟩ := ih newRest s1 ptF1 (setTable tbls table t1) t1 _
      (batch ++ logs1) (n + 1) habs1 (mem_setTable_self t1 ht)
      (fun r' hr' => hvalid r' (List.mem_cons_of_mem _ hr')) hrest (.inr hnames') hrun1
    refine ⟨s', ptF, t', logs1 ++ logs', ?_, .cons e1 happ, ?_, ?_⟩
    · simp only [List.cons_append, Engine.evalInsert.go, e1, ego, List.length_cons]
      rw [List.append_assoc, Nat.add_assoc, Nat.add_comm 1]
    · rw [setTable_setTable, updRows_updRows] at habs'
      have hfun : (fun r => (r ++ [(⟨some (s.hdr.lastKey + 1), vs⟩ : Spec.SRow)]) ++ idRows s1.hdr.lastKey newRest) =
          (fun r => r ++ idRows s.hdr.lastKey (vs :: newRest)) := by
        funext r
        rw [hlk1, List.append_assoc]
        rfl
      rw [hfun] at habs'
      exact habs'
    · rw [hlk', hlk1, List.length_cons]; omega

/-- **INSERT refines the spec.**  If the store abstracts to `sdb`, the spec accepts the statement
(`specInsert … = some sdb'`: the table is known and every row is valid), the values are values a Go
program can hold, and the fuel / size side conditions hold along the run, then the model's
`evalInsert` succeeds with the row count, appends the records of all rows to the log, and the store
afterwards abstracts to a spec database `sdb''` that is `sdb'` up to the row ids: `sdb''` is `sdb` with
the rows the spec's `rowOf` computes appended to the table, carrying the ids `lastKey+1 …` (`idRows`),
where the spec says `none`. -/
theorem evalInsert_refines_spec (db : Engine.DB) (pt sch : Levels) (tbls : List (Bytes × Levels))
    (sdb sdb' : Spec.SDB) (h : Abs db.store pt sch tbls sdb)
    (table : Bytes) (t : Levels) (ht : (table, t) ∈ tbls)
    (schema : List FieldDef) (hsch : schemaOf sch table = some schema)
    (cols : List Bytes) (rows : List (List Val)) (hvalid : ∀ r ∈ rows, ∀ v ∈ r, ValidVal v)
    (hspec : Spec.specInsert sdb table cols rows = some sdb')
    (hrun : InsRunOK schema (cols.map Engine.bytesToName) t db.store.hdr.lastKey db.store.hdr.nextLSN
      db.store.hdr.nextFree rows) :
    ∃ db' ptF t' logs newRows sdb'',
      Engine.evalInsert db table cols rows = .ok rows.length db' ∧
      db'.wal = db.wal ++ logs ∧
      InsApplies table (cols.map Engine.bytesToName) rows db.store logs db'.store ∧
      rows.mapM (Spec.rowOf (absTable table schema t) cols) = some newRows ∧
      sdb'' = sdb.map (updRows table (fun r => r ++ idRows db.store.hdr.lastKey newRows)) ∧
      Abs db'.store ptF sch (setTable tbls table t') sdb'' ∧
      valsOf sdb'' = valsOf sdb' ∧
      db'.store.hdr.lastKey = db.store.hdr.lastKey + rows.length := by
  obtain ⟨schema', hsch', _, hfind⟩ := h.tabs.find h.cat.tnames ht
  rw [hsch] at hsch'
  simp only [Option.some.injEq] at hsch'
  subst hsch'
  have hnames : rows = [] ∨ checkColumns schema (colsOf schema (cols.map Engine.bytesToName)) = none := by
    cases rows with
    | nil => exact .inl rfl
    | cons r rest =>
      exact .inr (checkColumns_of_namesOK (absTable table schema t) cols (h.tabs.names_nodup ht hsch)
        (specInsert_namesOK hfind hspec))
  unfold Spec.specInsert at hspec
  rw [hfind] at hspec
  simp only [Option.bind_eq_bind, Option.bind_some] at hspec
  split at hspec
  · cases hspec
  cases hm : rows.mapM (Spec.rowOf (absTable table schema t) cols) with
  | none => rw [hm] at hspec; cases hspec
  | some newRows =>
    rw [hm] at hspec
    simp only [Option.bind_some, Option.pure_def, Option.some.injEq] at hspec
    obtain ⟨s', ptF, t', logs, ego, happ, habs, hlk⟩ := evalInsert_go_spec db table cols sch schema hsch [] rows
      newRows db.store pt tbls t sdb [] 0 h ht hvalid hm hnames hrun
    rw [List.append_nil] at ego
    refine ⟨{ store := s', wal := db.wal ++ ([] ++ logs) }, ptF, t', logs, newRows, _, ?_, ?_, happ, rfl, rfl, habs,
      ?_, hlk⟩
    · unfold Engine.evalInsert
      rw [ego, Nat.zero_add]
      rfl
    · simp only [List.nil_append]
    · rw [← hspec]
      exact valsOf_updRows table (fun r => r ++ idRows db.store.hdr.lastKey newRows)
        (fun r => r ++ newRows.map fun v => ⟨none, v⟩) sdb (fun rs => by
        simp only [List.map_append, idRows_vals, List.map_map]
        congr 1
        conv => lhs; rw [← List.map_id newRows]
        apply List.map_congr_left
        intro v _
        rfl)

end Mkdb.Store
