import Mkdb.Proofs.ConsoleHist1
/-!
Console model, the movement keys: they change nothing but the cursor, and a key sequence with movement
blocks each closed by End hands over what the sequence without them does.
-/
namespace Mkdb.Console

/-- the keys that only move the cursor (or redraw): Left, Right, Home, End, Alt-Left, Alt-Right, ^L -/
def isMove (k : Nat) : Bool :=
  k == keyLeft || k == keyRight || k == keyHome || k == keyEnd || k == keyAltLeft || k == keyAltRight ||
    k == keyClearScreen

/-- a movement key outside paste mode changes the cursor position and nothing else -/
theorem step_move (t : Term) (hpa : t.pasteActive = false) {k : Nat} (hk : isMove k = true) :
    ∃ p, step t k = ({ t with pos := p }, none) := by
  simp only [isMove, Bool.or_eq_true, beq_iff_eq] at hk
  rcases hk with (((((hk | hk) | hk) | hk) | hk) | hk) | hk <;> subst hk
  · exact ⟨t.pos - 1, by
      simp [step, handleKey, hpa, keyEnter, keyBackspace, keyAltLeft, keyAltRight, keyLeft]⟩
  · by_cases h : t.pos = t.line.length
    · have e : step t keyRight = (t, none) := by
        simp [step, handleKey, hpa, keyEnter, keyBackspace, keyAltLeft, keyAltRight, keyLeft, keyRight, h]
      exact ⟨t.pos, by rw [e]⟩
    · exact ⟨t.pos + 1, by
        simp [step, handleKey, hpa, keyEnter, keyBackspace, keyAltLeft, keyAltRight, keyLeft, keyRight, h]⟩
  · exact ⟨0, by
      simp [step, handleKey, hpa, keyEnter, keyBackspace, keyAltLeft, keyAltRight, keyLeft, keyRight, keyHome]⟩
  · exact ⟨t.line.length, by
      simp [step, handleKey, hpa, keyEnter, keyBackspace, keyAltLeft, keyAltRight, keyLeft, keyRight, keyHome,
        keyEnd]⟩
  · exact ⟨t.pos - countToLeftWord t, by
      simp [step, handleKey, hpa, keyEnter, keyBackspace, keyAltLeft]⟩
  · exact ⟨t.pos + countToRightWord t, by
      simp [step, handleKey, hpa, keyEnter, keyBackspace, keyAltLeft, keyAltRight]⟩
  · have e : step t keyClearScreen = (t, none) := by
      simp [step, handleKey, hpa, keyEnter, keyBackspace, keyAltLeft, keyAltRight, keyLeft, keyRight, keyHome,
        keyEnd, keyUp, keyDown, keyDeleteWord, keyDeleteLine, keyCtrlD, keyCtrlU, keyClearScreen]
    exact ⟨t.pos, by rw [e]⟩

theorem step_end (t : Term) (hpa : t.pasteActive = false) :
    step t keyEnd = ({ t with pos := t.line.length }, none) := by
  simp [step, handleKey, hpa, keyEnter, keyBackspace, keyAltLeft, keyAltRight, keyLeft, keyRight, keyHome,
    keyEnd]

/-- a block of movement keys: nothing handed over, only the cursor changed -/
theorem moves : ∀ (ms : List Nat) (t : Term), t.pasteActive = false → (∀ m ∈ ms, isMove m = true) →
    run t ms = [] ∧ ∃ p, final t ms = { t with pos := p }
  | [], t, _, _ => ⟨rfl, t.pos, rfl⟩
  | m :: ms, t, hpa, h => by
    obtain ⟨p, hs⟩ := step_move t hpa (h m List.mem_cons_self)
    obtain ⟨r, q, f⟩ := moves ms { t with pos := p } hpa (fun x hx => h x (List.mem_cons_of_mem _ hx))
    exact ⟨by rw [run_cons_none _ hs]; exact r, q, by rw [final_cons, hs, f]⟩

/-- a block of movement keys closed by End: the cursor is at the end of the line, the rest as before -/
theorem moves_end (ms : List Nat) (t : Term) (hpa : t.pasteActive = false) (h : ∀ m ∈ ms, isMove m = true) :
    run t (ms ++ [keyEnd]) = [] ∧ final t (ms ++ [keyEnd]) = { t with pos := t.line.length } := by
  obtain ⟨r, p, f⟩ := moves ms t hpa h
  have he := step_end (final t ms) (by rw [f]; exact hpa)
  refine ⟨by rw [run_append, r, run_cons_none _ he]; rfl, ?_⟩
  rw [final_append, final_cons, he, final_nil, f]

theorem step_valid_atEnd (t : Term) (h : AtEnd t) {k : Nat}
    (hv : k = 13 ∨ (isPrintable k = true ∧ k ≠ 13)) : AtEnd (step t k).1 := by
  rcases hv with hk | ⟨hp, hk⟩
  · subst hk
    rw [step_enter]
    split
    · unfold AtEnd; simp only [addHistory_line, addHistory_pos]; rfl
    · exact (addKey_atEnd h 32).2
  · rw [step_print t hp hk]; exact (addKey_atEnd h k).2

/-- `Edited noisy clean`: `noisy` is `clean` with, put in anywhere and any number of times, balanced
sequences of printable keys and backspaces (`Noise`) and blocks of movement keys each closed by End
(so the cursor is back at the end of the line before the next key of `clean`); a last movement block
at the very end needs no End. -/
inductive Edited : List Nat → List Nat → Prop where
  | nil : Edited [] []
  | key (k : Nat) {n c : List Nat} : Edited n c → Edited (k :: n) (k :: c)
  | noise {m n c : List Nat} : Noise m → Edited n c → Edited (m ++ n) c
  | move {ms n c : List Nat} : (∀ m ∈ ms, isMove m = true) → Edited n c → Edited (ms ++ keyEnd :: n) c
  | tail {ms : List Nat} : (∀ m ∈ ms, isMove m = true) → Edited ms []

theorem edited_of_correctedN {n c : List Nat} (h : CorrectedN n c) : Edited n c := by
  induction h with
  | nil => exact .nil
  | key k _ ih => exact .key k ih
  | noise hm _ ih => exact .noise hm ih

/-- corrections and closed movement blocks change nothing: the same submissions, from every state
outside paste mode with the cursor at the end of the line -/
theorem run_edited {noisy clean : List Nat} (hc : Edited noisy clean) :
    ∀ (t : Term), t.pasteActive = false → AtEnd t →
      (∀ k ∈ clean, k = 13 ∨ (isPrintable k = true ∧ k ≠ 13)) → run t noisy = run t clean := by
  induction hc with
  | nil => intros; rfl
  | key k _ ih =>
    intro t hpa hend hv
    have hk := hv k List.mem_cons_self
    have ih' := ih (step t k).1 (by rw [step_valid_paste t hk]; exact hpa) (step_valid_atEnd t hend hk)
      (fun x hx => hv x (List.mem_cons_of_mem _ hx))
    cases h : step t k with
    | mk t' o =>
      rw [h] at ih'
      cases o with
      | none => rw [run_cons_none _ h, run_cons_none _ h]; exact ih'
      | some s => rw [run_cons_some _ h, run_cons_some _ h]; exact congrArg _ ih'
  | noise hm _ ih =>
    intro t hpa hend hv
    obtain ⟨r, f⟩ := noise_id hm t hpa (posOK_of_atEnd hend)
    rw [run_append, r, f]
    exact ih t hpa hend hv
  | move hms _ ih =>
    intro t hpa hend hv
    obtain ⟨r, f⟩ := moves_end _ t hpa hms
    have e : ({ t with pos := t.line.length } : Term) = t := by
      unfold AtEnd at hend
      cases t
      simp only at hend
      subst hend; rfl
    rw [e] at f
    rename_i ms n c _
    have : ms ++ keyEnd :: n = (ms ++ [keyEnd]) ++ n := by simp
    rw [this, run_append, r, f]
    exact ih t hpa hend hv
  | tail hms =>
    intro t hpa _ _
    exact (moves _ t hpa hms).1

end Mkdb.Console
