import Mkdb.Proofs.EngineNodes2
import Mkdb.Proofs.PtSelfFree2
/-!
The header counters, part 7 (W16): **the levels model: the allocation frontier of a tree history is
linear in its length**, so the range hypotheses of `C12_every_engine_node_roundtrips` follow from the
length of the history.

* `tree_depth_pow`: a well-formed tree with `d` internal levels has at least `2^d` leaves (every internal
  node has at least two children).
* `runOps_cells_length`: a history of `n` operations adds at most `n` cells.
* **`runOps_frontier`**: from a well-formed tree, a history of `n` operations that keeps the tree below
  `2^32` cells moves the allocation frontier by at most `34 pages × n` (a tree of fewer than `2^32` cells
  has at most 32 internal levels; an insert allocates at most one page per level, one for the leaf and
  one for a new root).
* `Issued k l ops`: the operations are stamped by counters that start at `k` / `l` and advance by at most
  one row id and two LSNs per operation; `issued_inRange`.
-/
set_option autoImplicit false
namespace Mkdb.Tree
open Mkdb.Page Mkdb.Generated Mkdb.Store

/-- every level has at most half as many nodes as the level below -/
theorem linked_pow : ∀ (lvls : List (List (Internal × Bool))) (below : List Nat), linked below lvls →
    (∀ lvl ∈ lvls, ∀ p ∈ lvl, 1 ≤ p.1.cells.length) → 2 ^ lvls.length ≤ below.length
  | [], below, h, _ => by
    simp only [linked] at h
    simp only [List.length_nil, Nat.pow_zero]
    omega
  | lvl :: rest, below, h, hc => by
    simp only [linked] at h
    have ih := linked_pow rest _ h.2 (fun l hl => hc l (List.mem_cons_of_mem _ hl))
    rw [List.length_map] at ih
    have h2 := childOffs_length_ge lvl (hc lvl List.mem_cons_self)
    rw [h.1] at h2
    simp only [List.length_cons, Nat.pow_succ]
    omega

/-- **The depth of a well-formed tree is logarithmic**: `2^(internal levels) ≤ leaves`. -/
theorem tree_depth_pow {t : Levels} {nf : Nat} (hI : Inv t nf) : 2 ^ t.inner.length ≤ t.leaves.length := by
  have := linked_pow t.inner _ hI.link (fun lvl hl p hp => (hI.cap.2 lvl hl p hp).1)
  rw [List.length_map] at this
  exact this

/-- a tree with fewer than `2^32` cells has at most 32 internal levels -/
theorem tree_depth_le {t : Levels} {nf : Nat} (hI : Inv t nf) (hc : (cells t).length < 2 ^ 32) :
    t.inner.length ≤ 32 := by
  have h1 := tree_depth_pow hI
  have h2 := (tree_size hI).1
  have h3 : 2 ^ t.inner.length ≤ 2 ^ 32 := by omega
  exact (Nat.pow_le_pow_iff_right (by decide : 1 < 2)).mp h3

theorem applyOp_cells_length (s : Levels × Nat) (op : TOp) :
    (cells (applyOp s op).1).length ≤ (cells s.1).length + 1 := by
  cases op with
  | ins k lsn v =>
    simp only [applyOp]
    split
    · rename_i r hr
      rw [cells_insertAppend s.1 r.1 k lsn s.2 r.2 v hr, List.length_append]
      exact Nat.le_refl _
    · exact Nat.le_succ _
  | upd k lsn v =>
    simp only [applyOp]
    rw [cells_setVal, List.length_map]
    exact Nat.le_succ _
  | del k lsn =>
    simp only [applyOp]
    rw [cells_setDeleted, List.length_map]
    exact Nat.le_succ _

theorem runOps_cells_length (ops : List TOp) : ∀ (s : Levels × Nat),
    (cells (runOps s ops).1).length ≤ (cells s.1).length + ops.length := by
  induction ops with
  | nil => intro s; exact Nat.le_refl _
  | cons op rest ih =>
    intro s
    have h1 := applyOp_cells_length s op
    have h2 := ih (applyOp s op)
    show (cells (runOps (applyOp s op) rest).1).length ≤ _
    simp only [List.length_cons]
    omega

/-- one operation on a tree of fewer than `2^32` cells: at most 34 pages -/
theorem applyOp_frontier (s : Levels × Nat) (op : TOp) (hI : Inv s.1 s.2) (hc : (cells s.1).length < 2 ^ 32) :
    (applyOp s op).2 ≤ s.2 + 139264 := by
  cases op with
  | ins k lsn v =>
    simp only [applyOp]
    split
    · rename_i r hr
      have hg := (insertAppend_growth (t := s.1) (t' := r.1) (nf' := r.2) hr).2.2
      have hd := tree_depth_le hI hc
      -- (`omega` runs out of recursion depth on `_ + (4096 * _ + 8192)`; not on the flattened sum)
      simp only [Nat.mul_add, Nat.reduceMul, ← Nat.add_assoc] at hg
      omega
    · exact Nat.le_add_right _ _
  | upd k lsn v => exact Nat.le_add_right _ _
  | del k lsn => exact Nat.le_add_right _ _

/-- **The allocation frontier of a tree history is linear in its length** (34 pages per operation), as
long as the tree stays below `2^32` cells. -/
theorem runOps_frontier (ops : List TOp) : ∀ (s : Levels × Nat), Inv s.1 s.2 →
    (cells s.1).length + ops.length ≤ 2 ^ 32 → (runOps s ops).2 ≤ s.2 + 139264 * ops.length := by
  induction ops with
  | nil => intro s _ _; exact Nat.le_refl _
  | cons op rest ih =>
    intro s hI hc
    simp only [List.length_cons] at hc
    have h1 := applyOp_frontier s op hI (by omega)
    have h2 := applyOp_cells_length s op
    have h3 := ih (applyOp s op) (applyOp_inv s op hI) (by omega)
    show (runOps (applyOp s op) rest).2 ≤ _
    simp only [List.length_cons]
    omega

/-- the operations are stamped by counters that start at `k` (row ids) and `l` (LSNs) and advance by at
most one row id and two LSNs per operation (the engine: `lastKey + 1` and `nextLSN`; an insert that moves
the root takes a second LSN for the catalog record); an updated value passed `updateCell`'s size check -/
def Issued : Nat → Nat → List TOp → Prop
  | _, _, [] => True
  | k, l, .ins key lsn _ :: rest => key ≤ k + 1 ∧ lsn < l + 2 ∧ Issued (k + 1) (l + 2) rest
  | k, l, .upd _ lsn v :: rest => lsn < l + 2 ∧ v.length ≤ c_maxValueSize ∧ Issued (k + 1) (l + 2) rest
  | k, l, .del _ lsn :: rest => lsn < l + 2 ∧ Issued (k + 1) (l + 2) rest

instance decIssued : (k l : Nat) → (ops : List TOp) → Decidable (Issued k l ops)
  | _, _, [] => isTrue trivial
  | k, l, .ins key lsn _ :: rest =>
    have := decIssued (k + 1) (l + 2) rest
    inferInstanceAs (Decidable (key ≤ k + 1 ∧ lsn < l + 2 ∧ Issued (k + 1) (l + 2) rest))
  | k, l, .upd _ lsn v :: rest =>
    have := decIssued (k + 1) (l + 2) rest
    inferInstanceAs (Decidable (lsn < l + 2 ∧ v.length ≤ c_maxValueSize ∧ Issued (k + 1) (l + 2) rest))
  | k, l, .del _ lsn :: rest =>
    have := decIssued (k + 1) (l + 2) rest
    inferInstanceAs (Decidable (lsn < l + 2 ∧ Issued (k + 1) (l + 2) rest))

/-- operations issued by counters that do not wrap within the history are in range -/
theorem issued_inRange : ∀ (ops : List TOp) (k l : Nat), Issued k l ops → k + ops.length < 2 ^ 32 →
    l + 2 * ops.length ≤ 2 ^ 64 → ∀ op ∈ ops, OpInRange op
  | [], _, _, _, _, _ => fun _ h => by cases h
  | .ins key lsn v :: rest, k, l, hi, hk, hl => by
    simp only [List.length_cons] at hk hl
    obtain ⟨h1, h2, h3⟩ := hi
    intro op hop
    rcases List.mem_cons.mp hop with rfl | hop
    · exact ⟨by omega, by omega⟩
    · exact issued_inRange rest (k + 1) (l + 2) h3 (by omega) (by omega) op hop
  | .upd key lsn v :: rest, k, l, hi, hk, hl => by
    simp only [List.length_cons] at hk hl
    obtain ⟨h1, h2, h3⟩ := hi
    intro op hop
    rcases List.mem_cons.mp hop with rfl | hop
    · exact ⟨by omega, h2⟩
    · exact issued_inRange rest (k + 1) (l + 2) h3 (by omega) (by omega) op hop
  | .del key lsn :: rest, k, l, hi, hk, hl => by
    simp only [List.length_cons] at hk hl
    obtain ⟨h1, h3⟩ := hi
    intro op hop
    rcases List.mem_cons.mp hop with rfl | hop
    · show lsn < 2 ^ 64; omega
    · exact issued_inRange rest (k + 1) (l + 2) h3 (by omega) (by omega) op hop

/-- **Every page after a history issued by counters that do not wrap is well formed for the codec.** -/
theorem runOps_wf_issued (off nf k l : Nat) (h : off < nf) (ops : List TOp) (hi : Issued k l ops)
    (hk : k + ops.length < 2 ^ 32) (hl : l + 2 * ops.length ≤ 2 ^ 64) (hf : nf + 139264 * ops.length ≤ 2 ^ 64) :
    ∀ e ∈ flatten (runOps (emptyTree off, nf) ops).1, WF e.2.1 := by
  refine runOps_wf off nf h ops (issued_inRange ops k l hi hk hl) ?_
  have := runOps_frontier ops (emptyTree off, nf) (emptyTree_inv off nf h)
    (by show (cells (emptyTree off)).length + ops.length ≤ 2 ^ 32
        have : (cells (emptyTree off)).length = 0 := rfl
        omega)
  exact Nat.le_trans this hf

end Mkdb.Tree
