import Mkdb.Model.Session
import Mkdb.Proofs.CreateCat1
/-!
Database names (storage/file.go `checkDBName`, `makeDBDir`, `dbFilePath`; engine/session.go): the
identity of a database is `strings.ToLower` of its name.  Lemmas about the model of it
(`Session.canon`): the generated table of `unicode.ToLower` as a function (every listed code point has
its listed image, no other is moved, every image is a fixed point), Go's UTF-8 decoding of what Lean's
encoder writes, the bytes of `canon`, ASCII names and ASCII upper-casing.
-/
set_option autoImplicit false
namespace Mkdb.Session
open Mkdb.Generated Mkdb.Store

/-! ### the generated table as a function -/

/-- every pair of the list: the first component is mapped to the second -/
def chkListed : List (Nat × Nat) → Bool
  | [] => true
  | p :: ps => Nat.beq (lowerRune p.1) p.2 && chkListed ps

/-- every pair of the list: the second component is mapped to itself -/
def chkFixed : List (Nat × Nat) → Bool
  | [] => true
  | p :: ps => Nat.beq (lowerRune p.2) p.2 && chkFixed ps

def chkChunks (f : List (Nat × Nat) → Bool) : List (Nat × List (Nat × Nat)) → Bool
  | [] => true
  | c :: cs => f c.2 && chkChunks f cs

theorem chkListed_mem : ∀ {ps : List (Nat × Nat)}, chkListed ps = true → ∀ p ∈ ps, lowerRune p.1 = p.2
  | [], _, p, hp => by cases hp
  | q :: qs, h, p, hp => by
    simp only [chkListed, Bool.and_eq_true] at h
    rcases List.mem_cons.mp hp with rfl | hp
    · exact Nat.eq_of_beq_eq_true h.1
    · exact chkListed_mem h.2 p hp

theorem chkFixed_mem : ∀ {ps : List (Nat × Nat)}, chkFixed ps = true → ∀ p ∈ ps, lowerRune p.2 = p.2
  | [], _, p, hp => by cases hp
  | q :: qs, h, p, hp => by
    simp only [chkFixed, Bool.and_eq_true] at h
    rcases List.mem_cons.mp hp with rfl | hp
    · exact Nat.eq_of_beq_eq_true h.1
    · exact chkFixed_mem h.2 p hp

theorem chkChunks_mem {f : List (Nat × Nat) → Bool} : ∀ {cs : List (Nat × List (Nat × Nat))},
    chkChunks f cs = true → ∀ c ∈ cs, f c.2 = true
  | [], _, c, hc => by cases hc
  | d :: ds, h, c, hc => by
    simp only [chkChunks, Bool.and_eq_true] at h
    rcases List.mem_cons.mp hc with rfl | hc
    · exact h.1
    · exact chkChunks_mem h.2 c hc

/-- the table, evaluated by the kernel: every listed code point is mapped to its listed image -/
theorem table_listed : chkChunks chkListed lowerChunks = true := by decide +kernel

/-- the table, evaluated by the kernel: every listed image is mapped to itself -/
theorem table_fixed : chkChunks chkFixed lowerChunks = true := by decide +kernel

/-- the short lists are the list, cut -/
theorem chunks_flat : lowerChunks.flatMap (·.2) = lowerPairsList := by decide +kernel

theorem mem_pairs_iff (p : Nat × Nat) : p ∈ lowerPairsList ↔ ∃ c ∈ lowerChunks, p ∈ c.2 := by
  rw [← chunks_flat, List.mem_flatMap]

theorem lookPairs_mem (r : Nat) : ∀ ps : List (Nat × Nat), lookPairs r ps = r ∨ (r, lookPairs r ps) ∈ ps
  | [] => Or.inl rfl
  | p :: ps => by
    unfold lookPairs
    split
    · rename_i h
      have : p.1 = r := Nat.eq_of_beq_eq_true h
      right; rw [← this]; exact List.mem_cons_self
    · rcases lookPairs_mem r ps with h | h
      · exact Or.inl h
      · exact Or.inr (List.mem_cons_of_mem _ h)

theorem lookChunks_mem (r : Nat) : ∀ cs : List (Nat × List (Nat × Nat)),
    lookChunks r cs = r ∨ ∃ c ∈ cs, (r, lookChunks r cs) ∈ c.2
  | [] => Or.inl rfl
  | c :: cs => by
    unfold lookChunks
    split
    · rcases lookPairs_mem r c.2 with h | h
      · exact Or.inl h
      · exact Or.inr ⟨c, List.mem_cons_self, h⟩
    · rcases lookChunks_mem r cs with h | ⟨d, hd, h⟩
      · exact Or.inl h
      · exact Or.inr ⟨d, List.mem_cons_of_mem _ hd, h⟩

/-- the model's `unicode.ToLower` maps every code point the generated table lists to the listed image -/
theorem lowerRune_listed (p : Nat × Nat) (h : p ∈ lowerPairsList) : lowerRune p.1 = p.2 := by
  obtain ⟨c, hc, hp⟩ := (mem_pairs_iff p).mp h
  exact chkListed_mem (chkChunks_mem table_listed c hc) p hp

/-- ... and moves no other code point -/
theorem lowerRune_moved (r : Nat) (h : lowerRune r ≠ r) : (r, lowerRune r) ∈ lowerPairsList := by
  rcases lookChunks_mem r lowerChunks with h' | ⟨c, hc, hp⟩
  · exact absurd h' h
  · exact (mem_pairs_iff _).mpr ⟨c, hc, hp⟩

/-- every value of the table is a fixed point: lowering twice is lowering once -/
theorem lowerRune_idem (r : Nat) : lowerRune (lowerRune r) = lowerRune r := by
  rcases lookChunks_mem r lowerChunks with h' | ⟨c, hc, hp⟩
  · show lowerRune (lookChunks r lowerChunks) = lookChunks r lowerChunks
    rw [h']; exact h'
  · exact chkFixed_mem (chkChunks_mem table_fixed c hc) _ hp

theorem lowerChar_idem (c : Char) : lowerChar (lowerChar c) = lowerChar c := by
  unfold lowerChar
  by_cases hv : (lowerRune c.toNat).isValidChar
  · have : (Char.ofNat (lowerRune c.toNat)).toNat = lowerRune c.toNat := by
      unfold Char.ofNat
      rw [dif_pos hv]; rfl
    rw [this, lowerRune_idem]
  · have : Char.ofNat (lowerRune c.toNat) = Char.ofNat 0 := by
      unfold Char.ofNat
      rw [dif_neg hv]; rfl
    rw [this]
    decide +kernel

/-! ### Go's decoder reads what the encoder writes -/

theorem decodeGo_skip : ∀ (pre rest : Bytes), decodeGo pre.length (pre ++ rest) = decodeGo 0 rest
  | [], rest => rfl
  | p :: pre, rest => by
    show decodeGo (pre.length + 1) (p :: (pre ++ rest)) = _
    rw [decodeGo]
    exact decodeGo_skip pre rest

theorem decodeGo_zero_cons (b0 : UInt8) (rest : Bytes) :
    decodeGo 0 (b0 :: rest) = Char.ofNat (decodeRune b0 rest).1 :: decodeGo ((decodeRune b0 rest).2 - 1) rest := by
  rw [decodeGo]

theorem decodeRune_1 (b0 : UInt8) (tl : Bytes) (h : b0.toNat < 0x80) : decodeRune b0 tl = (b0.toNat, 1) := by
  unfold decodeRune
  simp only [h, if_true]

theorem decodeRune_2 (b0 b1 : UInt8) (tl : Bytes) (h0 : 0xC2 ≤ b0.toNat) (h0' : b0.toNat < 0xE0)
    (h1 : 0x80 ≤ b1.toNat) (h1' : b1.toNat ≤ 0xBF) :
    decodeRune b0 (b1 :: tl) = ((b0.toNat - 0xC0) * 64 + (b1.toNat - 0x80), 2) := by
  unfold decodeRune
  have e1 : ¬ b0.toNat < 0x80 := by omega
  have e2 : ¬ b0.toNat < 0xC2 := by omega
  have e3 : inRange b1 0x80 0xBF = true := by simp [inRange, h1, h1']
  simp only [e1, e2, h0', e3, if_true, if_false]

theorem decodeRune_3 (b0 b1 b2 : UInt8) (tl : Bytes) (h0 : 0xE0 ≤ b0.toNat) (h0' : b0.toNat < 0xF0)
    (h1 : (if b0.toNat = 0xE0 then 0xA0 else 0x80) ≤ b1.toNat)
    (h1' : b1.toNat ≤ (if b0.toNat = 0xED then 0x9F else 0xBF))
    (h2 : 0x80 ≤ b2.toNat) (h2' : b2.toNat ≤ 0xBF) :
    decodeRune b0 (b1 :: b2 :: tl) = ((b0.toNat - 0xE0) * 4096 + (b1.toNat - 0x80) * 64 + (b2.toNat - 0x80), 3) := by
  unfold decodeRune
  have e1 : ¬ b0.toNat < 0x80 := by omega
  have e2 : ¬ b0.toNat < 0xC2 := by omega
  have e3 : ¬ b0.toNat < 0xE0 := by omega
  have e4 : inRange b1 (if b0.toNat = 0xE0 then 0xA0 else 0x80) (if b0.toNat = 0xED then 0x9F else 0xBF) = true := by
    simp [inRange, h1, h1']
  have e5 : inRange b2 0x80 0xBF = true := by simp [inRange, h2, h2']
  simp only [e1, e2, e3, h0', e4, e5, Bool.and_self, if_true, if_false]

theorem decodeRune_4 (b0 b1 b2 b3 : UInt8) (tl : Bytes) (h0 : 0xF0 ≤ b0.toNat) (h0' : b0.toNat < 0xF5)
    (h1 : (if b0.toNat = 0xF0 then 0x90 else 0x80) ≤ b1.toNat)
    (h1' : b1.toNat ≤ (if b0.toNat = 0xF4 then 0x8F else 0xBF))
    (h2 : 0x80 ≤ b2.toNat) (h2' : b2.toNat ≤ 0xBF) (h3 : 0x80 ≤ b3.toNat) (h3' : b3.toNat ≤ 0xBF) :
    decodeRune b0 (b1 :: b2 :: b3 :: tl) =
      ((b0.toNat - 0xF0) * 262144 + (b1.toNat - 0x80) * 4096 + (b2.toNat - 0x80) * 64 + (b3.toNat - 0x80), 4) := by
  unfold decodeRune
  have e1 : ¬ b0.toNat < 0x80 := by omega
  have e2 : ¬ b0.toNat < 0xC2 := by omega
  have e3 : ¬ b0.toNat < 0xE0 := by omega
  have e3' : ¬ b0.toNat < 0xF0 := by omega
  have e4 : inRange b1 (if b0.toNat = 0xF0 then 0x90 else 0x80) (if b0.toNat = 0xF4 then 0x8F else 0xBF) = true := by
    simp [inRange, h1, h1']
  have e5 : inRange b2 0x80 0xBF = true := by simp [inRange, h2, h2']
  have e6 : inRange b3 0x80 0xBF = true := by simp [inRange, h3, h3']
  simp only [e1, e2, e3, e3', h0', e4, e5, e6, Bool.and_self, if_true, if_false]

/-- Go's decoder on the encoding of a character followed by anything: the character, then the rest -/
theorem decodeGo_encodeChar (c : Char) (rest : Bytes) :
    decodeGo 0 (String.utf8EncodeChar c ++ rest) = c :: decodeGo 0 rest := by
  have hv : c.toNat < 0xD800 ∨ (0xDFFF < c.toNat ∧ c.toNat < 0x110000) := c.valid
  have hc : Char.ofNat c.toNat = c := Char.ofNat_toNat c
  have hcv : c.val.toNat = c.toNat := rfl
  unfold String.utf8EncodeChar
  simp only [hcv]
  split
  · -- one byte
    rename_i h
    have e0 : (UInt8.ofNat c.toNat).toNat = c.toNat := by rw [UInt8.toNat_ofNat']; omega
    show decodeGo 0 (UInt8.ofNat c.toNat :: rest) = _
    rw [decodeGo_zero_cons, decodeRune_1 _ _ (by omega), e0, hc]
    rfl
  · split
    · rename_i h1 h2
      have e0 : (UInt8.ofNat (c.toNat / 64 % 0x20 + 0xc0)).toNat = c.toNat / 64 + 0xc0 := by
        rw [UInt8.toNat_ofNat']; omega
      have e1 : (UInt8.ofNat (c.toNat % 0x40 + 0x80)).toNat = c.toNat % 64 + 0x80 := by
        rw [UInt8.toNat_ofNat']; omega
      show decodeGo 0 (UInt8.ofNat (c.toNat / 64 % 0x20 + 0xc0) :: UInt8.ofNat (c.toNat % 0x40 + 0x80) :: rest) = _
      rw [decodeGo_zero_cons, decodeRune_2 _ _ _ (by omega) (by omega) (by omega) (by omega), e0, e1]
      have : (c.toNat / 64 + 0xc0 - 0xC0) * 64 + (c.toNat % 64 + 0x80 - 0x80) = c.toNat := by omega
      rw [this, hc]
      exact congrArg _ (decodeGo_skip [_] rest)
    · split
      · rename_i h1 h2 h3
        have e0 : (UInt8.ofNat (c.toNat / 4096 % 0x10 + 0xe0)).toNat = c.toNat / 4096 + 0xe0 := by
          rw [UInt8.toNat_ofNat']; omega
        have e1 : (UInt8.ofNat (c.toNat / 64 % 0x40 + 0x80)).toNat = c.toNat / 64 % 64 + 0x80 := by
          rw [UInt8.toNat_ofNat']; omega
        have e2 : (UInt8.ofNat (c.toNat % 0x40 + 0x80)).toNat = c.toNat % 64 + 0x80 := by
          rw [UInt8.toNat_ofNat']; omega
        show decodeGo 0 (UInt8.ofNat (c.toNat / 4096 % 0x10 + 0xe0) :: UInt8.ofNat (c.toNat / 64 % 0x40 + 0x80) ::
          UInt8.ofNat (c.toNat % 0x40 + 0x80) :: rest) = _
        rw [decodeGo_zero_cons, decodeRune_3 _ _ _ _ (by omega) (by omega) (by rw [e0, e1]; split <;> omega)
          (by rw [e0, e1]; split <;> omega) (by omega) (by omega), e0, e1, e2]
        have : (c.toNat / 4096 + 0xe0 - 0xE0) * 4096 + (c.toNat / 64 % 64 + 0x80 - 0x80) * 64 + (c.toNat % 64 + 0x80 - 0x80)
            = c.toNat := by omega
        rw [this, hc]
        exact congrArg _ (decodeGo_skip [_, _] rest)
      · rename_i h1 h2 h3
        have e0 : (UInt8.ofNat (c.toNat / 262144 % 0x08 + 0xf0)).toNat = c.toNat / 262144 + 0xf0 := by
          rw [UInt8.toNat_ofNat']; omega
        have e1 : (UInt8.ofNat (c.toNat / 4096 % 0x40 + 0x80)).toNat = c.toNat / 4096 % 64 + 0x80 := by
          rw [UInt8.toNat_ofNat']; omega
        have e2 : (UInt8.ofNat (c.toNat / 64 % 0x40 + 0x80)).toNat = c.toNat / 64 % 64 + 0x80 := by
          rw [UInt8.toNat_ofNat']; omega
        have e3 : (UInt8.ofNat (c.toNat % 0x40 + 0x80)).toNat = c.toNat % 64 + 0x80 := by
          rw [UInt8.toNat_ofNat']; omega
        show decodeGo 0 (UInt8.ofNat (c.toNat / 262144 % 0x08 + 0xf0) :: UInt8.ofNat (c.toNat / 4096 % 0x40 + 0x80) ::
          UInt8.ofNat (c.toNat / 64 % 0x40 + 0x80) :: UInt8.ofNat (c.toNat % 0x40 + 0x80) :: rest) = _
        rw [decodeGo_zero_cons, decodeRune_4 _ _ _ _ _ (by omega) (by omega) (by rw [e0, e1]; split <;> omega)
          (by rw [e0, e1]; split <;> omega) (by omega) (by omega) (by omega) (by omega), e0, e1, e2, e3]
        have : (c.toNat / 262144 + 0xf0 - 0xF0) * 262144 + (c.toNat / 4096 % 64 + 0x80 - 0x80) * 4096 +
            (c.toNat / 64 % 64 + 0x80 - 0x80) * 64 + (c.toNat % 64 + 0x80 - 0x80) = c.toNat := by omega
        rw [this, hc]
        exact congrArg _ (decodeGo_skip [_, _, _] rest)

theorem decodeGo_encode : ∀ cs : List Char, decodeGo 0 (cs.flatMap String.utf8EncodeChar) = cs
  | [] => rfl
  | c :: cs => by
    rw [List.flatMap_cons, decodeGo_encodeChar, decodeGo_encode cs]

/-! ### the bytes of the canonical name -/

/-- the bytes of the canonical name - what the driver prints, what Go uses as the directory name -/
theorem toUTF8_canon (b : Bytes) : (canon b).toUTF8.toList = canonBytes b := by
  unfold canon canonBytes
  rw [byteArray_toList_data]
  show (String.ofList (lowered b)).toByteArray.data.toList = _
  rw [String.toByteArray_ofList]
  unfold List.utf8Encode
  rw [List.data_toByteArray]

/-- lowering what was lowered changes nothing: the canonical name is its own canonical name -/
theorem lowered_canonBytes (b : Bytes) : lowered (canonBytes b) = lowered b := by
  unfold canonBytes
  show (decodeGo 0 ((lowered b).flatMap String.utf8EncodeChar)).map lowerChar = _
  rw [decodeGo_encode]
  unfold lowered
  rw [List.map_map]
  apply List.map_congr_left
  intro c _
  exact lowerChar_idem c

theorem canon_canonBytes (b : Bytes) : canon (canonBytes b) = canon b := by
  unfold canon; rw [lowered_canonBytes]

theorem canonBytes_canonBytes (b : Bytes) : canonBytes (canonBytes b) = canonBytes b := by
  show (lowered (canonBytes b)).flatMap String.utf8EncodeChar = _
  rw [lowered_canonBytes]; rfl

theorem canon_idem (b : Bytes) : canon (canon b).toUTF8.toList = canon b := by
  rw [toUTF8_canon, canon_canonBytes]

/-- two names of the same canonical name are both plain directory names or both not -/
theorem validDbName_of_canon_eq {a b : Bytes} (h : canon a = canon b) : validDbName a = validDbName b := by
  have : canonBytes a = canonBytes b := by rw [← toUTF8_canon, ← toUTF8_canon, h]
  unfold validDbName; rw [this]

theorem lowered_eq_nil {b : Bytes} : lowered b = [] ↔ b = [] := by
  constructor
  · intro h
    cases b with
    | nil => rfl
    | cons b0 rest => unfold lowered at h; rw [decodeGo_zero_cons] at h; simp at h
  · rintro rfl; rfl

theorem isEmpty_of_canon_eq {a b : Bytes} (h : canon a = canon b) : a.isEmpty = b.isEmpty := by
  have hl : lowered a = lowered b := by
    have := congrArg String.toList h
    simpa [canon] using this
  have : a = [] ↔ b = [] := by rw [← lowered_eq_nil, ← lowered_eq_nil, hl]
  cases a <;> cases b <;> simp_all

/-! ### ASCII names, ASCII upper-casing -/

/-- the ASCII upper-case spelling of a byte -/
def up8 (c : UInt8) : UInt8 := if 97 ≤ c.toNat ∧ c.toNat ≤ 122 then UInt8.ofNat (c.toNat - 32) else c

/-- the ASCII lower-case spelling of a byte (what the model did before: `String.toLower`) -/
def low8 (c : UInt8) : UInt8 := if 65 ≤ c.toNat ∧ c.toNat ≤ 90 then UInt8.ofNat (c.toNat + 32) else c

theorem up8_of_ge {c : UInt8} (h : 128 ≤ c.toNat) : up8 c = c := by
  unfold up8; rw [if_neg]; omega

theorem up8_lt {c : UInt8} (h : c.toNat < 128) : (up8 c).toNat < 128 := by
  unfold up8; split
  · rw [UInt8.toNat_ofNat']; omega
  · exact h

theorem inRange_of_lt {c : UInt8} {lo hi : Nat} (h : c.toNat < 128) (hlo : 128 ≤ lo) : inRange c lo hi = false := by
  unfold inRange
  have : decide (lo ≤ c.toNat) = false := by simp; omega
  rw [this]; rfl

theorem inRange_up8 (c : UInt8) (lo hi : Nat) (hlo : 128 ≤ lo) : inRange (up8 c) lo hi = inRange c lo hi := by
  by_cases h : 128 ≤ c.toNat
  · rw [up8_of_ge h]
  · have h' : c.toNat < 128 := by omega
    rw [inRange_of_lt (up8_lt h') hlo, inRange_of_lt h' hlo]

theorem inRange_ge {c : UInt8} {lo hi : Nat} (h : inRange c lo hi = true) : lo ≤ c.toNat := by
  unfold inRange at h; simp at h; exact h.1

/-- for a first byte outside ASCII the decoder reads the same from a tail and from its upper-cased
spelling: every byte it accepts is outside ASCII -/
theorem decodeRune_map_up8 (b0 : UInt8) (rest : Bytes) (h : 128 ≤ b0.toNat) :
    decodeRune b0 (rest.map up8) = decodeRune b0 rest := by
  have e1 : ¬ b0.toNat < 0x80 := by omega
  have hlo3 : 128 ≤ (if b0.toNat = 0xE0 then 0xA0 else 0x80) := by split <;> omega
  have hlo4 : 128 ≤ (if b0.toNat = 0xF0 then 0x90 else 0x80) := by split <;> omega
  unfold decodeRune
  simp only [e1, if_false]
  split
  · rfl
  · split
    · -- two bytes
      cases rest with
      | nil => rfl
      | cons b1 tl =>
        simp only [List.map_cons, inRange_up8 _ _ _ (Nat.le_refl 128)]
        split
        · rename_i hr
          rw [up8_of_ge (inRange_ge hr)]
        · rfl
    · split
      · -- three bytes
        rcases rest with _ | ⟨b1, _ | ⟨b2, tl⟩⟩
        · rfl
        · rfl
        · simp only [List.map_cons, inRange_up8 _ _ _ (Nat.le_refl 128), inRange_up8 _ _ _ hlo3]
          generalize (if b0.toNat = 0xE0 then 0xA0 else 0x80) = lo at hlo3 ⊢
          generalize (if b0.toNat = 0xED then 0x9F else 0xBF) = hi
          by_cases hr : (inRange b1 lo hi && inRange b2 128 191) = true
          · rw [if_pos hr, if_pos hr]
            rw [Bool.and_eq_true] at hr
            rw [up8_of_ge (Nat.le_trans hlo3 (inRange_ge hr.1)), up8_of_ge (inRange_ge hr.2)]
          · rw [if_neg hr, if_neg hr]
      · split
        · rcases rest with _ | ⟨b1, _ | ⟨b2, _ | ⟨b3, tl⟩⟩⟩
          · rfl
          · rfl
          · rfl
          · simp only [List.map_cons, inRange_up8 _ _ _ (Nat.le_refl 128), inRange_up8 _ _ _ hlo4]
            generalize (if b0.toNat = 0xF0 then 0x90 else 0x80) = lo at hlo4 ⊢
            generalize (if b0.toNat = 0xF4 then 0x8F else 0xBF) = hi
            by_cases hr : (inRange b1 lo hi && inRange b2 128 191 && inRange b3 128 191) = true
            · rw [if_pos hr, if_pos hr]
              rw [Bool.and_eq_true, Bool.and_eq_true] at hr
              rw [up8_of_ge (Nat.le_trans hlo4 (inRange_ge hr.1.1)), up8_of_ge (inRange_ge hr.1.2),
                up8_of_ge (inRange_ge hr.2)]
            · rw [if_neg hr, if_neg hr]
        · rfl

/-- on ASCII the table folds the 26 letters and nothing else (evaluated by the kernel, 128 code points) -/
theorem ascii_up_low : ∀ n, n < 128 →
    lowerChar (Char.ofNat (up8 (UInt8.ofNat n)).toNat) = lowerChar (Char.ofNat n) := by decide +kernel

theorem ascii_low_bytes : ∀ n, n < 128 →
    String.utf8EncodeChar (lowerChar (Char.ofNat n)) = [low8 (UInt8.ofNat n)] := by decide +kernel

theorem ofNat_toNat8 (c : UInt8) : UInt8.ofNat c.toNat = c := by
  apply UInt8.toNat_inj.mp
  rw [UInt8.toNat_ofNat']
  have := c.toNat_lt
  omega

theorem map_lowerChar_decodeGo_up8 : ∀ (b : Bytes) (k : Nat),
    (decodeGo k (b.map up8)).map lowerChar = (decodeGo k b).map lowerChar
  | [], k => by cases k <;> rfl
  | b0 :: rest, k + 1 => by
    show (decodeGo (k + 1) (up8 b0 :: rest.map up8)).map lowerChar = (decodeGo (k + 1) (b0 :: rest)).map lowerChar
    rw [decodeGo, decodeGo]
    exact map_lowerChar_decodeGo_up8 rest k
  | b0 :: rest, 0 => by
    show (decodeGo 0 (up8 b0 :: rest.map up8)).map lowerChar = (decodeGo 0 (b0 :: rest)).map lowerChar
    rw [decodeGo_zero_cons, decodeGo_zero_cons, List.map_cons, List.map_cons]
    by_cases h : 128 ≤ b0.toNat
    · rw [up8_of_ge h, decodeRune_map_up8 b0 rest h, map_lowerChar_decodeGo_up8 rest _]
    · have h' : b0.toNat < 128 := by omega
      rw [decodeRune_1 _ _ (up8_lt h'), decodeRune_1 _ _ h', map_lowerChar_decodeGo_up8 rest _]
      have := ascii_up_low b0.toNat h'
      rw [ofNat_toNat8] at this
      rw [this]

/-- a name and its ASCII upper-case spelling are lowered to the same characters -/
theorem lowered_map_up8 (b : Bytes) : lowered (b.map up8) = lowered b :=
  map_lowerChar_decodeGo_up8 b 0

theorem canon_map_up8 (b : Bytes) : canon (b.map up8) = canon b := by
  unfold canon; rw [lowered_map_up8]

/-- on a pure-ASCII name the lowered name is the byte-wise ASCII lower-casing (what the model was
before the repair, and the byte-wise path of `strings.ToLower`) -/
theorem canonBytes_ascii : ∀ (b : Bytes), (∀ c ∈ b, c.toNat < 128) → canonBytes b = b.map low8
  | [], _ => rfl
  | b0 :: rest, h => by
    have h0 : b0.toNat < 128 := h b0 List.mem_cons_self
    have ih := canonBytes_ascii rest fun c hc => h c (List.mem_cons_of_mem _ hc)
    unfold canonBytes lowered at ih ⊢
    rw [decodeGo_zero_cons, decodeRune_1 _ _ h0, List.map_cons, List.flatMap_cons, List.map_cons]
    have := ascii_low_bytes b0.toNat h0
    rw [ofNat_toNat8] at this
    rw [this]
    exact congrArg _ ih

end Mkdb.Session
