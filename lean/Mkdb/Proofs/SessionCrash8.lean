import Mkdb.Proofs.SessionCrash7
/-!
Sessions and crashes, part 8: **histories with crashes AND statements the selected database refuses**.

A row statement or CREATE TABLE that the selected database refuses before it changes anything still reads
pages, and every page read is filed in the cache: the session after it is not the session before it, and the
selected database is no longer literally "reached from a checkpoint by accepted row statements" (`DbCrash`).

* `SessCrashL s w`: the crash invariant `SessCrash'` with `DbCrashL` (SessionCrash7: reached by a live run with
  cache-only steps) in the place of `DbCrash`.  `SessCrash'` implies it.
* it is kept by everything `SessCrash'` is kept by - USE, CREATE DATABASE, accepted INSERT / UPDATE / DELETE,
  accepted CREATE TABLE on a checkpointed selected database -, `restart` and `crashRestart` succeed from it
  (and lead back to `SessCrash'`: every database is checkpointed then), AND
* `refused_sessCrashL`: **it is kept, for the same plain databases, by a statement the selected database
  refuses with only its cache grown** (`StmtRefusalC`: every refusal before a change except an INSERT whose
  first row is too large).
* `OkRouted2` / `OkOps2`: `OkRouted` / `OkOps` with that third alternative; `CInvL`; `runOps_cinvL`: **every
  list of operations that meets `OkOps2` runs - no recovery fails - and keeps the invariant** for `worldOps`.
-/
set_option autoImplicit false

namespace Mkdb.Store
open Mkdb.Page Mkdb.Tuple Mkdb.Generated Mkdb.Tree Mkdb.Engine

/-- a checkpointed database stays checkpointed when only its cache grows -/
theorem CkptNS.same {db db' : Engine.DB} {sdb : Spec.SDB} (h : CkptNS db sdb)
    (hs : Same db.store db'.store) (hw : db'.wal = db.wal) (hd : DiskSame db.store db'.store)
    (hf : MemFiled db'.store) : CkptNS db' sdb := by
  obtain ⟨sch, pt, tbls, hk, hns⟩ := h
  obtain ⟨sdb0, habs0, hv⟩ := hk.abs
  refine ⟨sch, pt, tbls, ⟨⟨sdb0, habs0.of_same hs, hv⟩, hk.self, ?_, hf, by rw [hw]; exact hk.log, ?_, ?_, ?_, ?_⟩, hns⟩
  · exact hk.fresh.of_hdr (by rw [hs.2]; exact Nat.le_refl _) (by rw [hs.2]; exact Nat.le_refl _)
  · rw [hw, hs.2]; exact hk.lsn
  · rw [hw, hs.2]; exact hk.keys
  · rw [hd.2.1, hs.2]; exact hk.dhdr
  · intro x hx e he
    rw [hd.1]; exact hk.disk x hx e he

end Mkdb.Store

namespace Mkdb.Session
open Mkdb.Engine Mkdb.Sql Mkdb.Tree
open Mkdb.Store hiding Stmt

/-- **The crash invariant of a session, up to the cache of its databases**: it abstracts to the plain
databases `w`; every database is reached from a checkpoint by a live run (accepted row statements and
cache-only steps); every database that is not selected is checkpointed. -/
structure SessCrashL (s : Sess) (w : String → Spec.SDB) : Prop where
  abs : SessAbs s w
  crash : ∀ p ∈ s.dbs, DbCrashL p.2 (w p.1)
  others : ∀ p ∈ s.dbs, s.cur ≠ some p.1 → CkptNS p.2 (w p.1)

theorem SessCrash'.toL {s : Sess} {w : String → Spec.SDB} (h : SessCrash' s w) : SessCrashL s w :=
  ⟨h.base.abs, fun p hp => (h.base.crash p hp).toL, h.others⟩

theorem SessCrashL.inv {s : Sess} {w : String → Spec.SDB} (h : SessCrashL s w) : SessInv s := ⟨w, h.abs⟩

/-- a session without a selection all of whose databases are checkpointed satisfies `SessCrash'` -/
theorem sessCrash'_of_ckpt {l : List (String × DB)} {w : String → Spec.SDB} (hnd : (l.map (·.1)).Nodup)
    (h : ∀ p ∈ l, CkptNS p.2 (w p.1)) : SessCrash' { dbs := l, cur := none } w :=
  ⟨sessCrash_of_ckpt hnd h, fun p hp _ => h p hp⟩

/-- **A crash between two statements loses nothing**, also after refused statements: `crashRestart`
succeeds, same names, nothing selected, every database checkpointed for the same plain database. -/
theorem crashRestart_sessCrashL {s : Sess} {w : String → Spec.SDB} (h : SessCrashL s w) :
    ∃ s', crashRestart s = some s' ∧ SessCrash' s' w ∧ names s' = names s ∧ s'.cur = none ∧
      ∀ p ∈ s'.dbs, CkptNS p.2 (w p.1) := by
  have hdrop : names (dropCur s) = names s ∧ ∀ p ∈ (dropCur s).dbs, Recoverable p.2 (w p.1) := by
    unfold dropCur
    cases hc : s.cur with
    | none => exact ⟨rfl, fun p hp => (h.crash p hp).recoverable.1⟩
    | some c =>
      cases hg : getDB s c with
      | none => simp only [hg]; exact ⟨trivial, fun p hp => (h.crash p hp).recoverable.1⟩
      | some db =>
        simp only [hg]
        refine ⟨by rw [names_setDB, hg]; rfl, fun p hp => ?_⟩
        rcases mem_setDB hp with rfl | ⟨hp', _⟩
        · exact (h.crash (c, db) (getDB_mem hg)).recoverable.2
        · exact (h.crash p hp').recoverable.1
  obtain ⟨hnames, hall⟩ := hdrop
  obtain ⟨l', e, hn, hl⟩ := recoverEvery_ok w (dropCur s).dbs hall
  have hn' : l'.map (·.1) = names s := by rw [hn]; exact hnames
  refine ⟨{ dbs := l', cur := none }, by rw [crashRestart_eq, e]; rfl, ?_, hn', rfl, hl⟩
  exact sessCrash'_of_ckpt (by rw [hn']; exact h.abs.nodup) hl

/-- **`restart`** likewise. -/
theorem restart_sessCrashL {s : Sess} {w : String → Spec.SDB} (h : SessCrashL s w) :
    ∃ s', restart s = some s' ∧ SessCrash' s' w ∧ names s' = names s ∧ s'.cur = none ∧
      ∀ p ∈ s'.dbs, CkptNS p.2 (w p.1) := by
  have hcl : names (closeCur s) = names s ∧ ∀ p ∈ (closeCur s).dbs, Recoverable p.2 (w p.1) := by
    unfold closeCur
    cases hc : s.cur with
    | none => exact ⟨rfl, fun p hp => (h.crash p hp).recoverable.1⟩
    | some c =>
      cases hg : getDB s c with
      | none => simp only [hg]; exact ⟨trivial, fun p hp => (h.crash p hp).recoverable.1⟩
      | some db =>
        obtain ⟨db1, e, _, hk⟩ := (h.crash (c, db) (getDB_mem hg)).flush []
        simp only at e hk
        simp only [hg, e]
        refine ⟨by rw [names_setDB, hg]; rfl, fun p hp => ?_⟩
        rcases mem_setDB hp with rfl | ⟨hp', _⟩
        · exact hk.dbCrash.recoverable
        · exact (h.crash p hp').recoverable.1
  obtain ⟨hnames, hall⟩ := hcl
  obtain ⟨l', e, hn, hl⟩ := recoverEvery_ok w (closeCur s).dbs hall
  have hn' : l'.map (·.1) = names s := by rw [hn]; exact hnames
  refine ⟨{ dbs := l', cur := none }, by rw [restart_eq, restart_go_eq, e]; rfl, ?_, hn', rfl, hl⟩
  exact sessCrash'_of_ckpt (by rw [hn']; exact h.abs.nodup) hl

/-! ### USE, CREATE DATABASE -/

theorem use_bad_absurdL {s : Sess} {w : String → Spec.SDB} (h : SessCrashL s w) {c : String} (hc : s.cur = some c)
    (hbad : getDB s c = none ∨ ∃ db, getDB s c = some db ∧ ∀ db', flush db [] ≠ .ok () db') : False := by
  rcases hbad with hg | ⟨db, hg, hf⟩
  · have := h.abs.cur c hc
    rw [hg] at this
    cases this
  · obtain ⟨db1, e1, _⟩ := (h.crash (c, db) (getDB_mem hg)).flush []
    exact hf db1 e1

theorem flushed_ckptL {s : Sess} {w : String → Spec.SDB} (h : SessCrashL s w) {c : String} {db db' : DB}
    (hg : getDB s c = some db) (hf : flush db [] = .ok () db') :
    CkptNS { db' with store := reopen db'.store } (w c) := by
  obtain ⟨db1, e1, _, hk⟩ := (h.crash (c, db) (getDB_mem hg)).flush []
  simp only at e1 hk
  rw [hf] at e1
  simp only [Engine.Res.ok.injEq, true_and] at e1
  subst e1
  exact hk.reopen

/-- **USE keeps the invariant** and changes no plain database. -/
theorem use_sessCrashL {s : Sess} {w : String → Spec.SDB} (h : SessCrashL s w) (name : Bytes) :
    SessCrashL (exec s (.use name)).1 w := by
  have habs := (use_sessAbs h.abs name).1
  rcases use_cases s name with ⟨e, _⟩ | ⟨_, _, ⟨e, hcase⟩ | ⟨c, db, db', hc, hne, hg, hf, e⟩⟩
  · rw [e]; exact h
  · refine ⟨habs, ?_, ?_⟩
    · rw [e]; exact h.crash
    · rw [e]
      intro p hp hcur
      simp only at hp hcur
      rcases hcase with hn | hn | ⟨c, hc, hbad⟩
      · exact h.others p hp (by rw [hn]; intro hx; cases hx)
      · exact h.others p hp (by rw [hn]; exact hcur)
      · exact (use_bad_absurdL h hc hbad).elim
  · have hck := flushed_ckptL h hg hf
    refine ⟨habs, ?_, ?_⟩
    · rw [e]
      intro p hp
      simp only at hp
      rcases mem_setDB hp with rfl | ⟨hp', _⟩
      · exact hck.dbCrashL
      · exact h.crash p hp'
    · rw [e]
      intro p hp hcur
      simp only at hp hcur
      rcases mem_setDB hp with rfl | ⟨hp', hpc⟩
      · exact hck
      · exact h.others p hp' (by rw [hc]; intro hx; exact hpc (Option.some.inj hx).symm)

/-- after an accepted USE: the named database is selected; every other database is checkpointed; so is the
selected one unless it was selected before -/
theorem use_ckptL {s : Sess} {w : String → Spec.SDB} (h : SessCrashL s w) (name : Bytes)
    (hok : (exec s (.use name)).2 = Out.ok) :
    (exec s (.use name)).1.cur = some (canon name) ∧
    (∀ p ∈ (exec s (.use name)).1.dbs, p.1 ≠ canon name → CkptNS p.2 (w p.1)) ∧
    ∃ db, getDB (exec s (.use name)).1 (canon name) = some db ∧
      (s.cur ≠ some (canon name) → CkptNS db (w (canon name))) := by
  have h' := use_sessCrashL h name
  have hcur : (exec s (.use name)).1.cur = some (canon name) := by
    rcases use_cases s name with ⟨_, e⟩ | ⟨_, _, ⟨e, _⟩ | ⟨c, db, db', _, _, _, _, e⟩⟩
    · exact absurd hok e
    · rw [e]
    · rw [e]
  refine ⟨hcur, fun p hp hne => h'.others p hp (by rw [hcur]; intro hx; exact hne (Option.some.inj hx).symm), ?_⟩
  have hs := h'.abs.cur _ hcur
  cases hg : getDB (exec s (.use name)).1 (canon name) with
  | none => rw [hg] at hs; cases hs
  | some db =>
    refine ⟨db, rfl, fun hsel => ?_⟩
    rcases use_cases s name with ⟨_, e⟩ | ⟨_, _, ⟨e, _⟩ | ⟨c, db0, db', hc, hcn, hg0, hf, e⟩⟩
    · exact absurd hok e
    · rw [e] at hg
      have hg' : getDB s (canon name) = some db := hg
      exact h.others _ (getDB_mem hg') hsel
    · rw [e] at hg
      have hg' : getDB (setDB s c { db' with store := reopen db'.store }) (canon name) = some db := hg
      rw [getDB_setDB] at hg'
      have hb : (canon name == c) = false := by simpa using fun hx : canon name = c => hcn hx.symm
      simp only [hb, Bool.false_eq_true, if_false] at hg'
      exact h.others _ (getDB_mem hg') hsel

/-- **CREATE DATABASE keeps the invariant**, for the plain databases `cdW`. -/
theorem createDatabase_sessCrashL {s : Sess} {w : String → Spec.SDB} (h : SessCrashL s w) (name : Bytes) :
    SessCrashL (exec s (.createDatabase name)).1 (cdW s w name) := by
  rcases createDatabase_cases s name with ⟨e, hno⟩ | ⟨hok, hnone, e⟩
  · rw [cdW_refused hno, e]; exact h
  · rw [cdW_ok hok, e]
    refine ⟨h.abs.addNew (canon name), fun p hp => ?_, fun p hp hcur => ?_⟩
    · rcases mem_setDB hp with rfl | ⟨hp', hne'⟩
      · rw [setW_same]; exact ckptNS_newDB.dbCrashL
      · rw [setW_other w _ hne']; exact h.crash p hp'
    · rcases mem_setDB hp with rfl | ⟨hp', hne'⟩
      · rw [setW_same]; exact ckptNS_newDB
      · rw [setW_other w _ hne']; exact h.others p hp' hcur

/-! ### statements routed to the selected database -/

/-- the selected database replaced by one that satisfies the invariants, for the plain database `sdb'` -/
theorem setCur_sessCrashL {s : Sess} {w : String → Spec.SDB} (h : SessCrashL s w) {n : String}
    (hc : s.cur = some n) {db' : DB} {sdb' : Spec.SDB} {pt sch : Levels} {tbls : List (Bytes × Levels)}
    (hi : DbInv db' sdb' pt sch tbls) (hcr : DbCrashL db' sdb') : SessCrashL (setDB s n db') (setW w n sdb') := by
  refine ⟨h.abs.setCur hc hi, fun p hp => ?_, fun p hp hcur => ?_⟩
  · rcases mem_setDB hp with rfl | ⟨hp', hne'⟩
    · rw [setW_same]; exact hcr
    · rw [setW_other w _ hne']; exact h.crash p hp'
  · rcases mem_setDB hp with rfl | ⟨hp', hne'⟩
    · exact absurd hc hcur
    · rw [setW_other w _ hne']; exact h.others p hp' hcur

theorem setW_self (w : String → Spec.SDB) (n : String) : setW w n (w n) = w := by
  funext m
  unfold setW
  split
  · rename_i hm; rw [hm]
  · rfl

/-- **An accepted INSERT / UPDATE / DELETE keeps the invariant.** -/
theorem accepted_sessCrashL {s : Sess} {w : String → Spec.SDB} (h : SessCrashL s w) (n : String)
    (hc : s.cur = some n) (db : DB) (hg : getDB s n = some db) (st : Stmt)
    (hk : (∃ t c r, st = .insert t c r) ∨ (∃ t a c, st = .update t a c) ∨ (∃ t c, st = .delete t c))
    (hroom : ∀ pt sch tbls, DbInv db (w n) pt sch tbls → StmtRoom db pt sch tbls st)
    (sdb' : Spec.SDB) (hspec : Spec.specStmt (w n) st = some sdb') :
    (exec s st).2 = Out.ok ∧ SessCrashL (exec s st).1 (setW w n sdb') := by
  obtain ⟨pt, sch, tbls, hi, _⟩ := h.abs.dbs (n, db) (getDB_mem hg)
  obtain ⟨db', pt', sch', tbls', e, hi'⟩ := hi.accepted [] st (hroom pt sch tbls hi) sdb' hspec
  rw [exec_routed s st (.inr hk)]
  unfold onCurrent
  simp only [hc, hg, e]
  refine ⟨trivial, setCur_sessCrashL h hc hi' ?_⟩
  exact (h.crash (n, db) (getDB_mem hg)).step
    (fun sch1 => accepted_specRun hi st hk (hroom pt sch tbls hi) hspec e sch1)

/-- **An accepted CREATE TABLE on a checkpointed selected database keeps the invariant**, and the selected
database is checkpointed again. -/
theorem createTable_sessCrashL {s : Sess} {w : String → Spec.SDB} (h : SessCrashL s w) (n : String)
    (hc : s.cur = some n) (db : DB) (hg : getDB s n = some db) (hck : CkptNS db (w n))
    (t : Bytes) (cols : List ColDef)
    (hroom : ∀ pt sch tbls, DbInv db (w n) pt sch tbls → StmtRoom db pt sch tbls (.createTable t cols))
    (sdb' : Spec.SDB) (hspec : Spec.specStmt (w n) (.createTable t cols) = some sdb') :
    (exec s (.createTable t cols)).2 = Out.ok ∧ SessCrashL (exec s (.createTable t cols)).1 (setW w n sdb') ∧
      ∃ db', getDB (exec s (.createTable t cols)).1 n = some db' ∧ CkptNS db' sdb' := by
  obtain ⟨sch, pt, tbls, hk, hns⟩ := hck
  obtain ⟨hlo, hchk, hpd, hpl, hsd, hsl, hbig⟩ := hroom pt sch tbls (hk.dbFlushed hns).inv
  obtain ⟨hfind, hn1, hn2, hhi, hndc, rfl⟩ := specCreate_some hspec
  obtain ⟨db', pt', sch', tbls', e, _, hk', hns', _⟩ := hk.createTable_ok hns t cols [] hfind hn1 hn2
    (colFields_ok cols hhi hlo hndc) hchk hpd hpl hsd hsl hbig
  have e' : evalStmt db [] (.createTable t cols) = .ok () db' := e
  rw [exec_routed s _ (.inl ⟨t, cols, rfl⟩)]
  unfold onCurrent
  simp only [hc, hg, e']
  have hck' : CkptNS db' (w n ++ [⟨t, cols.map Spec.colField, []⟩]) := ⟨sch', pt', tbls', hk', hns'⟩
  refine ⟨trivial, setCur_sessCrashL h hc (hk'.dbFlushed hns').inv hck'.dbCrashL, db', ?_, hck'⟩
  rw [getDB_setDB]; simp

/-- **A statement the selected database refuses with only its cache grown keeps the invariant, for the same
plain databases.**  `hbad`: the refusal is one of `StmtRefusalC` for the plain database of the selected
database - CREATE TABLE of an existing table / with a duplicate column / an over-long VARCHAR; INSERT into an
unknown table, with an unknown or repeated column, or whose FIRST row has the wrong arity or a value its column
does not accept; UPDATE / DELETE of an unknown table, with a WHERE that cannot be evaluated, an unknown SET
column, a first selected row that cannot be rewritten.  The statement returns an error, the plain model refuses
it too, and if the selected database was checkpointed it still is. -/
theorem refused_sessCrashL {s : Sess} {w : String → Spec.SDB} (h : SessCrashL s w) (n : String)
    (hc : s.cur = some n) (db : DB) (hg : getDB s n = some db) (st : Stmt)
    (hbad : ∀ pt sch tbls, DbInv db (w n) pt sch tbls → StmtRefusalC (w n) pt st) :
    Spec.specStmt (w n) st = none ∧ (∃ k, (exec s st).2 = Out.err k) ∧ SessCrashL (exec s st).1 w ∧
    ∃ db', getDB (exec s st).1 n = some db' ∧ (CkptNS db (w n) → CkptNS db' (w n)) := by
  obtain ⟨pt, sch, tbls, hi, _⟩ := h.abs.dbs (n, db) (getDB_mem hg)
  have hr := hbad pt sch tbls hi
  obtain ⟨hnone, e, db', he, hw, hs, hd, hf⟩ := evalStmt_refused_same db pt sch tbls (w n) hi.rel st hr
  have hk : (∃ n c, st = .createTable n c) ∨ (∃ t c r, st = .insert t c r) ∨ (∃ t a c, st = .update t a c) ∨
      (∃ t c, st = .delete t c) := by
    cases hr with
    | create n cols _ => exact .inl ⟨n, cols, rfl⟩
    | insert t cols r rest _ => exact .inr (.inl ⟨t, cols, _, rfl⟩)
    | update t sets c _ => exact .inr (.inr (.inl ⟨t, sets, c, rfl⟩))
    | delete t c _ _ => exact .inr (.inr (.inr ⟨t, c, rfl⟩))
  rw [exec_routed s st hk]
  unfold onCurrent
  simp only [hc, hg, he]
  have hi' : DbInv db' (w n) pt sch tbls := hi.same hs hd.1 hf hw
  have hcr : DbCrashL db' (w n) := (h.crash (n, db) (getDB_mem hg)).same hs hw hd hf
  have := setCur_sessCrashL h hc hi' hcr
  rw [setW_self] at this
  refine ⟨hnone, ⟨_, rfl⟩, this, db', ?_, fun hck => hck.same hs hw hd hf⟩
  rw [getDB_setDB]; simp

/-! ### lists of operations -/

/-- the side condition of a statement routed to the selected database: `OkRouted` (it leaves the session as it
is and the plain model refuses it; or the plain model accepts it with room), or the selected database refuses
it with only its cache grown (`StmtRefusalC`, for whatever catalog description the database has) -/
def OkRouted2 (s : Sess) (w : String → Spec.SDB) (clean : Bool) (st : Stmt) : Prop :=
  OkRouted s w clean st ∨
  ∃ n db, s.cur = some n ∧ getDB s n = some db ∧
    ∀ pt sch tbls, DbInv db (w n) pt sch tbls → StmtRefusalC (w n) pt st

def OkStmt2 (s : Sess) (w : String → Spec.SDB) (clean : Bool) (st : Stmt) : Prop :=
  isRouted st = true → OkRouted2 s w clean st

/-- the side conditions along a list of operations -/
def OkOps2 : Sess → (String → Spec.SDB) → Bool → List SOp → Prop
  | _, _, _, [] => True
  | s, w, clean, .stmt st :: rest =>
    OkStmt2 s w clean st ∧ OkOps2 (exec s st).1 (worldStep s w st) (cleanStep s w clean st) rest
  | s, w, _, .restart :: rest => ∀ s', restart s = some s' → OkOps2 s' w true rest
  | s, w, _, .crash :: rest => ∀ s', crashRestart s = some s' → OkOps2 s' w true rest

theorem OkOps.toOkOps2 : ∀ (ops : List SOp) (s : Sess) (w : String → Spec.SDB) (clean : Bool),
    OkOps s w clean ops → OkOps2 s w clean ops
  | [], _, _, _, _ => trivial
  | .stmt _ :: rest, _, _, _, h => ⟨fun hr => .inl (h.1 hr), OkOps.toOkOps2 rest _ _ _ h.2⟩
  | .restart :: rest, _, _, _, h => fun s' e => OkOps.toOkOps2 rest _ _ _ (h s' e)
  | .crash :: rest, _, _, _, h => fun s' e => OkOps.toOkOps2 rest _ _ _ (h s' e)

/-- **The invariant along a list of operations**: `SessCrashL`, and while the flag is set every database is
checkpointed. -/
structure CInvL (s : Sess) (w : String → Spec.SDB) (clean : Bool) : Prop where
  inv : SessCrashL s w
  ck : clean = true → ∀ p ∈ s.dbs, CkptNS p.2 (w p.1)

theorem CInv.toL {s : Sess} {w : String → Spec.SDB} {clean : Bool} (h : CInv s w clean) : CInvL s w clean :=
  ⟨h.inv.toL, h.ck⟩

theorem cinvL_empty (w : String → Spec.SDB) (clean : Bool) : CInvL {} w clean := (cinv_empty w clean).toL

theorem createDatabase_cinvL {s : Sess} {w : String → Spec.SDB} {clean : Bool} (h : CInvL s w clean) (name : Bytes) :
    CInvL (exec s (.createDatabase name)).1 (cdW s w name) clean := by
  refine ⟨createDatabase_sessCrashL h.inv name, fun hcl => ?_⟩
  rcases createDatabase_cases s name with ⟨e, hno⟩ | ⟨hok, hnone, e⟩
  · rw [cdW_refused hno, e]; exact h.ck hcl
  · rw [cdW_ok hok, e]
    intro p hp
    rcases mem_setDB hp with rfl | ⟨hp', hne'⟩
    · rw [setW_same]; exact ckptNS_newDB
    · rw [setW_other w _ hne']; exact h.ck hcl p hp'

theorem use_cinvL {s : Sess} {w : String → Spec.SDB} {clean : Bool} (h : CInvL s w clean) (name : Bytes) :
    CInvL (exec s (.use name)).1 w (cleanStep s w clean (.use name)) := by
  refine ⟨use_sessCrashL h.inv name, ?_⟩
  rcases use_cases s name with ⟨e, hno⟩ | ⟨hok, _, hcase⟩
  · have hcs : cleanStep s w clean (.use name) = clean := by
      show (match (exec s (.use name)).2 with | .ok => _ | _ => clean) = clean
      cases ho : (exec s (.use name)).2 with
      | ok => exact absurd ho hno
      | err k => rfl
      | panic => rfl
      | rows n => rfl
    rw [hcs, e]; exact h.ck
  · have hcs : cleanStep s w clean (.use name) = (decide (s.cur ≠ some (canon name)) || clean) := by
      show (match (exec s (.use name)).2 with | .ok => _ | _ => clean) = _
      rw [hok]
    rw [hcs]
    intro hcl p hp
    by_cases hsel : s.cur = some (canon name)
    · have hcl' : clean = true := by simpa [hsel] using hcl
      rcases hcase with ⟨e, _⟩ | ⟨c, db, db', hc, hne, _⟩
      · rw [e] at hp; exact h.ck hcl' p hp
      · rw [hc] at hsel; exact absurd (Option.some.inj hsel) hne
    · obtain ⟨hcur, hoth, db, hg, hck⟩ := use_ckptL h.inv name hok
      by_cases hpn : p.1 = canon name
      · have hnd := (use_sessCrashL h.inv name).abs.nodup
        have hg2 : getDB (exec s (.use name)).1 p.1 = some p.2 := mem_getDB hnd hp
        rw [hpn, hg] at hg2
        cases hg2
        rw [hpn]; exact hck hsel
      · exact hoth p hp hpn

theorem unchanged_cinvL {s : Sess} {w : String → Spec.SDB} {clean : Bool} (h : CInvL s w clean) (st : Stmt)
    (hs : (exec s st).1 = s) (hno : ∀ n, s.cur = some n → Spec.specStmt (w n) st = none) :
    CInvL (exec s st).1 (routedW s w st) (routedClean s w clean st) := by
  have h1 : routedW s w st = w := by
    unfold routedW
    cases hc : s.cur with
    | none => rfl
    | some n => simp only [hno n hc]
  have h2 : routedClean s w clean st = clean := by
    unfold routedClean
    cases hc : s.cur with
    | none => rfl
    | some n => simp only [hno n hc]
  rw [h1, h2, hs]; exact h

/-- a routed statement that the selected database refuses with only its cache grown -/
theorem refused_cinvL {s : Sess} {w : String → Spec.SDB} {clean : Bool} (h : CInvL s w clean) (st : Stmt)
    (n : String) (db : DB) (hc : s.cur = some n) (hg : getDB s n = some db)
    (hbad : ∀ pt sch tbls, DbInv db (w n) pt sch tbls → StmtRefusalC (w n) pt st) :
    CInvL (exec s st).1 (routedW s w st) (routedClean s w clean st) := by
  obtain ⟨hnone, _, hinv, db', hg', hck'⟩ := refused_sessCrashL h.inv n hc db hg st hbad
  have h1 : routedW s w st = w := by unfold routedW; simp only [hc, hnone]
  have h2 : routedClean s w clean st = clean := by unfold routedClean; simp only [hc, hnone]
  rw [h1, h2]
  refine ⟨hinv, fun hcl p hp => ?_⟩
  by_cases hpn : p.1 = n
  · have hg2 : getDB (exec s st).1 p.1 = some p.2 := mem_getDB hinv.abs.nodup hp
    rw [hpn, hg'] at hg2
    cases hg2
    rw [hpn]
    exact hck' (h.ck hcl (n, db) (getDB_mem hg))
  · have hk : (∃ n c, st = .createTable n c) ∨ (∃ t c r, st = .insert t c r) ∨ (∃ t a c, st = .update t a c) ∨
        (∃ t c, st = .delete t c) := by
      obtain ⟨pt, sch, tbls, hi, _⟩ := h.inv.abs.dbs (n, db) (getDB_mem hg)
      cases hbad pt sch tbls hi with
      | create n cols _ => exact .inl ⟨n, cols, rfl⟩
      | insert t cols r rest _ => exact .inr (.inl ⟨t, cols, _, rfl⟩)
      | update t sets c _ => exact .inr (.inr (.inl ⟨t, sets, c, rfl⟩))
      | delete t c _ _ => exact .inr (.inr (.inr ⟨t, c, rfl⟩))
    refine hinv.others p hp ?_
    rw [exec_routed s st hk, (onCurrent_others s _).1, hc]
    intro hx; exact hpn (Option.some.inj hx).symm

/-- a routed statement the plain model accepts -/
theorem accepted_cinvL {s : Sess} {w : String → Spec.SDB} {clean : Bool} (h : CInvL s w clean) (st : Stmt)
    (hr : isRouted st = true) (n : String) (db : DB) (sdb' : Spec.SDB) (hc : s.cur = some n)
    (hg : getDB s n = some db) (hspec : Spec.specStmt (w n) st = some sdb')
    (hroom : ∀ pt sch tbls, DbInv db (w n) pt sch tbls → StmtRoom db pt sch tbls st)
    (hct : isCreateTable st = true → clean = true) :
    (exec s st).2 = Out.ok ∧ CInvL (exec s st).1 (routedW s w st) (routedClean s w clean st) := by
  have h1 : routedW s w st = setW w n sdb' := by
    unfold routedW; simp only [hc, hspec]
  have h2 : routedClean s w clean st = isCreateTable st := by
    unfold routedClean; simp only [hc, hspec]
  rw [h1, h2]
  cases st with
  | createTable t cols =>
    obtain ⟨k1, k2, db', hg', hck'⟩ := createTable_sessCrashL h.inv n hc db hg (h.ck (hct rfl) (n, db) (getDB_mem hg))
      t cols hroom sdb' hspec
    refine ⟨k1, k2, fun _ p hp => ?_⟩
    by_cases hpn : p.1 = n
    · have hg2 : getDB _ p.1 = some p.2 := mem_getDB k2.abs.nodup hp
      rw [hpn, hg'] at hg2
      cases hg2
      rw [hpn, setW_same]; exact hck'
    · refine k2.others p hp ?_
      rw [exec_routed s _ (.inl ⟨t, cols, rfl⟩), (onCurrent_others s _).1, hc]
      intro hx; exact hpn (Option.some.inj hx).symm
  | insert t c r =>
    obtain ⟨k1, k2⟩ := accepted_sessCrashL h.inv n hc db hg _ (.inl ⟨t, c, r, rfl⟩) hroom sdb' hspec
    exact ⟨k1, k2, fun hx => by cases hx⟩
  | update t a c =>
    obtain ⟨k1, k2⟩ := accepted_sessCrashL h.inv n hc db hg _ (.inr (.inl ⟨t, a, c, rfl⟩)) hroom sdb' hspec
    exact ⟨k1, k2, fun hx => by cases hx⟩
  | delete t c =>
    obtain ⟨k1, k2⟩ := accepted_sessCrashL h.inv n hc db hg _ (.inr (.inr ⟨t, c, rfl⟩)) hroom sdb' hspec
    exact ⟨k1, k2, fun hx => by cases hx⟩
  | createDatabase _ => cases hr
  | use _ => cases hr
  | showDatabases => cases hr
  | select _ => cases hr

theorem routed_cinvL {s : Sess} {w : String → Spec.SDB} {clean : Bool} (h : CInvL s w clean) (st : Stmt)
    (hr : isRouted st = true) (hok : OkRouted2 s w clean st) :
    CInvL (exec s st).1 (routedW s w st) (routedClean s w clean st) := by
  rcases hok with (⟨hs, hno⟩ | ⟨n, db, sdb', hc, hg, hspec, hroom, hct⟩) | ⟨n, db, hc, hg, hbad⟩
  · exact unchanged_cinvL h st hs hno
  · exact (accepted_cinvL h st hr n db sdb' hc hg hspec hroom hct).2
  · exact refused_cinvL h st n db hc hg hbad

/-- **One statement keeps the invariant.** -/
theorem step_cinvL {s : Sess} {w : String → Spec.SDB} {clean : Bool} (h : CInvL s w clean) (st : Stmt)
    (hok : OkStmt2 s w clean st) : CInvL (exec s st).1 (worldStep s w st) (cleanStep s w clean st) := by
  cases st with
  | createDatabase name => exact createDatabase_cinvL h name
  | use name => exact use_cinvL h name
  | showDatabases => exact h
  | select q =>
    show CInvL (exec s (.select q)).1 w clean
    rw [exec_select_fst]; exact h
  | createTable t c => exact routed_cinvL h _ rfl (hok rfl)
  | insert t c r => exact routed_cinvL h _ rfl (hok rfl)
  | update t a c => exact routed_cinvL h _ rfl (hok rfl)
  | delete t c => exact routed_cinvL h _ rfl (hok rfl)

/-- **Every list of operations that meets the side conditions `OkOps2` - refused statements included - runs
(no recovery in it fails) and keeps the invariant**, for the plain databases `worldOps` computes. -/
theorem runOps_cinvL : ∀ (ops : List SOp) (s : Sess) (w : String → Spec.SDB) (clean : Bool),
    CInvL s w clean → OkOps2 s w clean ops →
    ∃ s', runOps s ops = some s' ∧ CInvL s' (worldOps s w ops) (cleanOps s w clean ops)
  | [], s, w, clean, h, _ => ⟨s, rfl, h⟩
  | .stmt st :: rest, s, w, clean, h, hok => by
    obtain ⟨s', e, h'⟩ := runOps_cinvL rest _ _ _ (step_cinvL h st hok.1) hok.2
    exact ⟨s', e, h'⟩
  | .restart :: rest, s, w, clean, h, hok => by
    obtain ⟨s1, e1, h1, _, _, hall⟩ := restart_sessCrashL h.inv
    obtain ⟨s', e, h'⟩ := runOps_cinvL rest s1 w true ⟨h1.toL, fun _ => hall⟩ (hok s1 e1)
    refine ⟨s', ?_, ?_⟩
    · simp only [runOps, e1, Option.bind_some, e]
    · simp only [worldOps, cleanOps, e1]; exact h'
  | .crash :: rest, s, w, clean, h, hok => by
    obtain ⟨s1, e1, h1, _, _, hall⟩ := crashRestart_sessCrashL h.inv
    obtain ⟨s', e, h'⟩ := runOps_cinvL rest s1 w true ⟨h1.toL, fun _ => hall⟩ (hok s1 e1)
    refine ⟨s', ?_, ?_⟩
    · simp only [runOps, e1, Option.bind_some, e]
    · simp only [worldOps, cleanOps, e1]; exact h'

/-! ### what a refused statement leaves of the bookkeeping of `OkOps2`, and examples -/

/-- a routed statement the plain model refuses changes neither the plain databases nor the flag -/
theorem refused_step_eqs {s : Sess} {w : String → Spec.SDB} (clean : Bool) {st : Stmt} {n : String}
    (hr : isRouted st = true) (hc : s.cur = some n) (hnone : Spec.specStmt (w n) st = none) :
    worldStep s w st = w ∧ cleanStep s w clean st = clean := by
  have h1 : routedW s w st = w := by unfold routedW; simp only [hc, hnone]
  have h2 : routedClean s w clean st = clean := by unfold routedClean; simp only [hc, hnone]
  cases st with
  | createTable t c => exact ⟨h1, h2⟩
  | insert t c r => exact ⟨h1, h2⟩
  | update t a c => exact ⟨h1, h2⟩
  | delete t c => exact ⟨h1, h2⟩
  | createDatabase _ => cases hr
  | use _ => cases hr
  | showDatabases => cases hr
  | select _ => cases hr

/-- a routed statement leaves the selection alone -/
theorem routed_cur (s : Sess) (st : Stmt) (hr : isRouted st = true) : (exec s st).1.cur = s.cur := by
  have hk : (∃ n c, st = .createTable n c) ∨ (∃ t c r, st = .insert t c r) ∨ (∃ t a c, st = .update t a c) ∨
      (∃ t c, st = .delete t c) := by
    cases st with
    | createTable t c => exact .inl ⟨t, c, rfl⟩
    | insert t c r => exact .inr (.inl ⟨t, c, r, rfl⟩)
    | update t a c => exact .inr (.inr (.inl ⟨t, a, c, rfl⟩))
    | delete t c => exact .inr (.inr (.inr ⟨t, c, rfl⟩))
    | createDatabase _ => cases hr
    | use _ => cases hr
    | showDatabases => cases hr
    | select _ => cases hr
  rw [exec_routed s st hk]
  exact (onCurrent_others s _).1

/-- INSERT INTO u VALUES (1): there is no table `u` -/
def insUnknown : Stmt := .insert uname [] [[.int 1]]
/-- INSERT INTO t VALUES ('x'): the column `a` of `t` is an INT -/
def insBadValue : Stmt := .insert tname [] [[.str [120]]]

theorem refusalC_insUnknown_empty (pt : Levels) : StmtRefusalC [] pt insUnknown :=
  .insert uname [] [.int 1] [] (.inl ⟨rfl, by rw [sysPages_eq]; decide, by rw [sysSchema_eq]; decide⟩)

theorem refusalC_insUnknown (pt : Levels) : StmtRefusalC sdbA0 pt insUnknown :=
  .insert uname [] [.int 1] [] (.inl ⟨rfl, by rw [sysPages_eq]; decide, by rw [sysSchema_eq]; decide⟩)

theorem refusalC_insBadValue (pt : Levels) : StmtRefusalC sdbA0 pt insBadValue :=
  .insert tname [] [.str [120]] [] (.inr ⟨⟨tname, schemaA, []⟩, rfl, .inl (by decide +kernel)⟩)

/-- **Non-vacuity of `refused_sessCrashL` and of `OkOps2` with refused statements**, from the session `sessT`
(CREATE DATABASE d; USE d; CREATE TABLE t (a INT)): INSERT INTO u VALUES (1) - no such table -; INSERT INTO t
VALUES ('x') - wrong type, on the database the first refusal left -; crash; USE d; restart. -/
theorem okOps2_sessT_example : CInvL sessT (fun _ => sdbA0) false ∧ OkOps2 sessT (fun _ => sdbA0) false
    [.stmt insUnknown, .stmt insBadValue, .crash, .stmt (.use [100]), .restart] := by
  have hinv : CInvL sessT (fun _ => sdbA0) false := okOps_sessT_example.1.toL
  have hg : getDB sessT "d" = some tableDB := by simp [getDB, sessT]
  obtain ⟨hnone, _, _, db1, hg1, _⟩ := refused_sessCrashL hinv.inv "d" rfl tableDB hg insUnknown
    (fun pt _ _ _ => refusalC_insUnknown pt)
  have hcur1 : (exec sessT insUnknown).1.cur = some "d" := routed_cur sessT insUnknown rfl
  obtain ⟨hw1, _⟩ := refused_step_eqs (s := sessT) (w := fun _ => sdbA0) false (st := insUnknown) rfl rfl hnone
  refine ⟨hinv, (fun _ => .inr ⟨"d", tableDB, rfl, hg, fun pt _ _ _ => refusalC_insUnknown pt⟩), ?_, ?_⟩
  · intro _
    refine .inr ⟨"d", db1, hcur1, hg1, fun pt _ _ _ => ?_⟩
    rw [hw1]
    exact refusalC_insBadValue pt
  · intro s' _
    exact ⟨(fun hx => by cases hx), fun _ _ => trivial⟩

/-- **Non-vacuity of `OkOps2` from the empty session**: CREATE DATABASE d; USE d; INSERT INTO u VALUES (1) -
refused, the new database has no table -; crash; USE d; restart. -/
theorem okOps2_example : OkOps2 {} (fun _ => []) true
    [.stmt (.createDatabase [100]), .stmt (.use [100]), .stmt insUnknown, .crash, .stmt (.use [100]), .restart] := by
  refine ⟨(fun hx => by cases hx), (fun hx => by cases hx), ?_, ?_⟩
  · intro _
    refine .inr ⟨canon [100], newDB, sess2_cur, sess2_get, fun pt _ _ _ => ?_⟩
    show StmtRefusalC (worldStep {} (fun _ => []) (.createDatabase [100]) (canon [100])) pt insUnknown
    rw [world1, setW_same]
    exact refusalC_insUnknown_empty pt
  · intro s' _
    exact ⟨(fun hx => by cases hx), fun _ _ => trivial⟩

/-- the kind of an outcome: 0 accepted, 1 refused, 2 panic, 3 rows -/
def outCode : Out → Nat
  | .ok => 0
  | .err _ => 1
  | .panic => 2
  | .rows _ => 3

/-- CREATE DATABASE d; USE d; CREATE TABLE t (a INT); INSERT INTO u VALUES (1); INSERT INTO t VALUES ('x');
INSERT INTO t VALUES (5); crash -/
def refusedOps : List SOp :=
  [.stmt (.createDatabase [100]), .stmt (.use [100]), .stmt (.createTable tname acols),
   .stmt insUnknown, .stmt insBadValue, .stmt (.insert tname [] [[.int 5]]), .crash]

set_option maxRecDepth 100000 in
/-- **The computed example**: the two INSERTs are refused (no table `u`; `'x'` is not an INT), the third is
accepted; the process dies with no page flushed since CREATE TABLE; recovery succeeds; afterwards nothing is
selected and a reader of `d.t` sees the row `(5)`. -/
theorem refusedOps_example :
    (outsOps {} refusedOps).map (·.map outCode) = some [0, 0, 0, 1, 1, 0] ∧
    (runOps {} refusedOps).map (fun s' => (s'.cur, rowsOf (exec s' (.use [100])).1 "d")) =
      some (none, some [[.int 5]]) := by
  decide +kernel

/-- CREATE DATABASE d; USE d; CREATE TABLE t (b VARCHAR(5000)); INSERT INTO t VALUES ('xxx…x') - 1100 bytes, more
than a page cell holds: refused INSIDE `btInsert`, after the row-id and LSN counters moved -; INSERT INTO t
VALUES ('x'); crash -/
def oversizedOps : List SOp :=
  [.stmt (.createDatabase [100]), .stmt (.use [100]), .stmt (.createTable tname [⟨[98], .varchar 5000⟩]),
   .stmt (.insert tname [] [[.str (List.replicate 1100 120)]]), .stmt (.insert tname [] [[.str [120]]]), .crash]

set_option maxRecDepth 100000 in
/-- **The refusal `StmtRefusalC` leaves out, computed**: an INSERT whose first row is too large is refused
after the counters moved (before the crash the row-id counter is 12 and the LSN counter 12, the header in
the data file says 10 and 10, the log holds ONE record: LSN 11, row id 12 - LSN 10 and row id 11 were
consumed by the refused row).  The next INSERT is accepted, the crash loses nothing: recovery succeeds, brings
the counters back to 12 and 12, and a reader sees the row `('x')`.  So the crash theorems are NOT false for
this refusal; they are not proved for it (`LiveRunM` has no step for a counter that moves without a log
record). -/
theorem oversizedOps_example :
    (outsOps {} oversizedOps).map (·.map outCode) = some [0, 0, 0, 1, 0] ∧
    (runOps {} oversizedOps.dropLast).map (fun s' => (getDB s' "d").map fun db =>
        [db.store.hdr.lastKey, db.store.hdr.nextLSN, db.store.dhdr.lastKey, db.store.dhdr.nextLSN] ++
          db.wal.flatMap fun r => [r.lsn, r.cell]) = some (some [12, 12, 10, 10, 11, 12]) ∧
    (runOps {} oversizedOps).map (fun s' => ((getDB s' "d").map fun db =>
        (db.store.hdr.lastKey, db.store.hdr.nextLSN), rowsOf (exec s' (.use [100])).1 "d")) =
      some (some (12, 12), some [[.str [120]]]) := by
  decide +kernel

end Mkdb.Session
