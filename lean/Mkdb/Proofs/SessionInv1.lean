import Mkdb.Proofs.SpecRefineB5
import Mkdb.Proofs.ReplayCkpt8
/-!
Session invariant, part 1: **what a row statement does to the store, whatever its outcome** -
accepted, refused before a change, or refused at a later row (the known finding of C14: the rows
before the refused one stay applied in the cache, nothing is logged).

The totality theorems (`evalInsert_total`, `evalUpdate_total`; SpecRefineB2) say that the result is
`.ok` or `.err`; they do not say what the database of that result looks like.  Here the loops of
`evalInsert`, `evalUpdate`, `evalDelete` are followed once more:

* `RowEffect sch db tbls db'`: the store of `db'` is reached from the store of `db` by a live run of
  row operations (`LiveRunM`: the applied rows) followed by a refusal that changes no page of the
  catalog description (counters may advance); the store reached abstracts (`Abs`) to SOME plain
  database; the log grew by exactly the records of the live run (`.ok`) or not at all (`.err`).
* `ResEffect`: the result is `.ok` or `.err` - not a crash - with such a database.
* `evalInsert_effect` (here), `evalUpdate_effect`, `evalDelete_effect` (part 2).
-/
set_option autoImplicit false
namespace Mkdb.Store
open Mkdb.Page Mkdb.Tuple Mkdb.Generated Mkdb.Tree

/-- what a row statement did: a live run of row operations to `s1`, then a refusal that leaves the
catalog description alone -/
def RowEffect (sch : Levels) (db : Engine.DB) (tbls : List (Bytes × Levels)) (db' : Engine.DB) : Prop :=
  ∃ s1 ptN tblsN stmtsM logs sdbN,
    LiveRunM sch db.store tbls stmtsM s1 tblsN logs ∧
    Abs s1 ptN sch tblsN sdbN ∧ Abs db'.store ptN sch tblsN sdbN ∧
    tblsN.map (·.1) = tbls.map (·.1) ∧
    s1.hdr.nextLSN ≤ db'.store.hdr.nextLSN ∧ s1.hdr.lastKey ≤ db'.store.hdr.lastKey ∧
    (db'.wal = db.wal ++ logs ∨ db'.wal = db.wal)

/-- the result is not a crash, and its database is reached by a `RowEffect` -/
def ResEffect {α} (sch : Levels) (db : Engine.DB) (tbls : List (Bytes × Levels)) : Engine.Res α → Prop
  | .ok _ db' => RowEffect sch db tbls db'
  | .err _ db' => RowEffect sch db tbls db'
  | _ => False

/-- nothing applied, nothing logged, the same catalog description -/
theorem RowEffect.refused {sch : Levels} {db db' : Engine.DB} {pt : Levels} {tbls : List (Bytes × Levels)}
    {sdb : Spec.SDB} (h : Abs db.store pt sch tbls sdb) (h' : Abs db'.store pt sch tbls sdb)
    (h1 : db.store.hdr.nextLSN ≤ db'.store.hdr.nextLSN) (h2 : db.store.hdr.lastKey ≤ db'.store.hdr.lastKey)
    (hw : db'.wal = db.wal) : RowEffect sch db tbls db' :=
  ⟨db.store, pt, tbls, [], [], sdb, .nil _ _, h, h', rfl, h1, h2, .inr hw⟩

theorem RowEffect.same {sch : Levels} {db db' : Engine.DB} {pt : Levels} {tbls : List (Bytes × Levels)}
    {sdb : Spec.SDB} (h : Abs db.store pt sch tbls sdb) (hs : Same db.store db'.store)
    (hw : db'.wal = db.wal) : RowEffect sch db tbls db' :=
  RowEffect.refused h (h.of_same hs) (by rw [hs.2]; exact Nat.le_refl _) (by rw [hs.2]; exact Nat.le_refl _) hw

/-! ### INSERT -/

/-- a list splits at its first element that fails `p` -/
theorem split_first_bad {α} (p : α → Prop) : ∀ (l : List α),
    ∃ pre tail, l = pre ++ tail ∧ (∀ a ∈ pre, p a) ∧ (tail = [] ∨ ∃ b post, tail = b :: post ∧ ¬ p b)
  | [] => ⟨[], [], rfl, (fun _ h => by cases h), .inl rfl⟩
  | a :: l => by
    by_cases ha : p a
    · obtain ⟨pre, tail, e, hp, ht⟩ := split_first_bad p l
      refine ⟨a :: pre, tail, by rw [e]; rfl, ?_, ht⟩
      intro x hx
      rcases List.mem_cons.mp hx with rfl | hx
      · exact ha
      · exact hp x hx
    · exact ⟨[], a :: l, rfl, (fun _ h => by cases h), .inr ⟨a, l, rfl, ha⟩⟩

theorem mapM_some_of_ne_none {α β} (f : α → Option β) : ∀ (l : List α), (∀ a ∈ l, f a ≠ none) →
    ∃ ys, l.mapM f = some ys
  | [], _ => ⟨[], rfl⟩
  | a :: l, h => by
    obtain ⟨b, hb⟩ := Option.ne_none_iff_exists'.mp (h a List.mem_cons_self)
    obtain ⟨bs, hbs⟩ := mapM_some_of_ne_none f l (fun x hx => h x (List.mem_cons_of_mem _ hx))
    exact ⟨b :: bs, (mapM_cons_some f a l _).mpr ⟨b, bs, hb, hbs, rfl⟩⟩

/-- the room conditions of a row list hold for every prefix of it -/
theorem InsRunOK.prefix (schema : List FieldDef) (cols : List String) (tail : List (List Val)) :
    ∀ (good : List (List Val)) (t : Levels) (lk lsn nf : Nat),
      InsRunOK schema cols t lk lsn nf (good ++ tail) → InsRunOK schema cols t lk lsn nf good
  | [], _, _, _, _, _ => trivial
  | r :: rest, t, lk, lsn, nf, h => by
    intro buf t' nf' he hi
    obtain ⟨a, b, c, d⟩ := h buf t' nf' he hi
    exact ⟨a, b, c, InsRunOK.prefix schema cols tail rest _ _ _ _ d⟩

/-- **INSERT, whatever its outcome.**  Hypotheses as for `evalInsert_total`: values a Go program can
hold, the room conditions `InsRunOK` for the table if the catalog has it, and an unknown name is not
one of the two catalog tables. -/
theorem evalInsert_effect (db : Engine.DB) (pt sch : Levels) (tbls : List (Bytes × Levels))
    (sdb : Spec.SDB) (h : Abs db.store pt sch tbls sdb) (table : Bytes) (cols : List Bytes)
    (rows : List (List Val)) (hvalid : ∀ r ∈ rows, ∀ v ∈ r, ValidVal v)
    (hsys : table ∉ tbls.map (·.1) → table ≠ sysPages ∧ table ≠ sysSchema)
    (hrun : ∀ t schema, (table, t) ∈ tbls → schemaOf sch table = some schema →
      InsRunOK schema (cols.map Engine.bytesToName) t db.store.hdr.lastKey db.store.hdr.nextLSN
        db.store.hdr.nextFree rows) :
    ResEffect sch db tbls (Engine.evalInsert db table cols rows) := by
  cases rows with
  | nil =>
    show RowEffect sch db tbls { store := db.store, wal := db.wal ++ [] }
    exact RowEffect.same h (Same.refl _) (by simp)
  | cons r0 rest0 =>
  by_cases hn : table ∈ tbls.map (·.1)
  · obtain ⟨e, he, hen⟩ := List.mem_map.mp hn
    obtain ⟨tn, t⟩ := e
    simp only at hen
    subst hen
    have ht : (tn, t) ∈ tbls := he
    obtain ⟨schema, hsch, _, _⟩ := h.tabs.find h.cat.tnames ht
    have hrun' := hrun t schema ht hsch
    cases hcc : checkColumns schema (colsOf schema (cols.map Engine.bytesToName)) with
    | some ec =>
      -- the column list is refused at the first row
      cases hrow : Spec.rowOf (absTable tn schema t) cols r0 with
      | none =>
        obtain ⟨e, s', he, _, habs', _, _, hlk⟩ := insert_refused_abs h tn t ht schema hsch cols r0 hrow
        unfold Engine.evalInsert
        rw [evalInsert_go_err db tn cols r0 rest0 db.store s' [] 0 e he]
        exact RowEffect.refused h habs' ((KeepsDisk.insert tn _ r0).err he).2.2 hlk rfl
      | some vs =>
        have hlen := ((specRowOf_some_iff _ cols r0 vs).mp hrow).1
        obtain ⟨s', he, hs', _⟩ := insert_names_refused_cat h.cat tn t ht schema hsch _ r0 ec hlen hcc
        unfold Engine.evalInsert
        rw [evalInsert_go_err db tn cols r0 rest0 db.store s' [] 0 ec he]
        exact RowEffect.same h hs' rfl
    | none =>
      -- the rows up to the first one the plain model refuses are applied
      obtain ⟨good, tail, hsplit, hgood, htail⟩ := split_first_bad
        (fun r => Spec.rowOf (absTable tn schema t) cols r ≠ none) (r0 :: rest0)
      obtain ⟨goodRows, hm⟩ := mapM_some_of_ne_none _ good hgood
      rw [hsplit] at hrun' hvalid
      obtain ⟨s', ptF, t', logs, ego, hlive, habs', _⟩ := evalInsert_go_live db tn cols sch schema hsch tail good
        goodRows db.store pt tbls t sdb [] 0 h ht (fun r hr => hvalid r (List.mem_append_left _ hr)) hm (.inr hcc)
        (InsRunOK.prefix schema _ tail good _ _ _ _ hrun')
      unfold Engine.evalInsert
      rw [hsplit, ego]
      rcases htail with rfl | ⟨bad, post, rfl, hbad⟩
      · show RowEffect sch db tbls { store := s', wal := db.wal ++ ([] ++ logs) }
        exact ⟨s', ptF, _, _, logs, _, hlive, habs', habs', setTable_names tbls tn t', Nat.le_refl _, Nat.le_refl _,
          .inl (by simp)⟩
      · have hbad' : Spec.rowOf (absTable tn schema t') cols bad = none := Classical.not_not.mp hbad
        obtain ⟨e, s2, he, _, habs2, _, _, hlk⟩ := insert_refused_abs habs' tn t' (mem_setTable_self t' ht) schema hsch
          cols bad hbad'
        rw [evalInsert_go_err db tn cols bad post s' s2 _ _ e he]
        exact ⟨s', ptF, _, _, logs, _, hlive, habs', habs2, setTable_names tbls tn t',
          ((KeepsDisk.insert tn _ bad).err he).2.2, hlk, .inr rfl⟩
  · obtain ⟨h1, h2⟩ := hsys hn
    obtain ⟨s', e, hs, _⟩ := insert_unknown_table db.store pt sch tbls h.cat table (cols.map Engine.bytesToName) r0
      h1 h2 hn
    unfold Engine.evalInsert
    rw [evalInsert_go_err db table cols r0 rest0 db.store s' [] 0 _ e]
    exact RowEffect.same h hs rfl

end Mkdb.Store
