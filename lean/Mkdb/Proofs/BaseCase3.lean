import Mkdb.Proofs.BaseCase0
import Mkdb.Proofs.RefineStmt
import Mkdb.Proofs.Unchanged4
/-!
# The base case, part 4: the hand-written store `emptyCatalog` is not a database

`emptyCatalog` (`Unchanged4`, used by the examples of C14) is "a catalog with no tables: one empty leaf
at 4096 as the page table".  The store `CREATE DATABASE` produces (`newStore`, `BaseCase0`) is different:
its page table has the two rows of `sys_pages` and `sys_schema`, there is a second page (`sys_schema`,
six rows), eight row ids and LSNs are used.  `emptyCatalog` does not satisfy the catalog invariant
`Cat` for any description (`emptyCatalog_not_cat`): its page table does not name `sys_schema`.  The
examples about `emptyCatalog` hold of the real store as well: `newStore_examples`.
-/
set_option autoImplicit false
namespace Mkdb.Store
open Mkdb.Page Mkdb.Tuple Mkdb.Generated Mkdb.Tree

theorem emptyCatalog_ne_new : emptyCatalog ≠ reopen newStore := by
  intro h
  have := congrArg (fun s => s.hdr.nextFree) h
  revert this
  decide

theorem emptyCatalog_view {off : Nat} {n : Node} {d : Bool} (h : view emptyCatalog off = some (n, d)) :
    n = .leaf ⟨4096, 0, false, false, 0, 0, []⟩ := by
  unfold view assocGet at h
  simp only [emptyCatalog, List.find?_nil, Option.map_none, List.find?_cons] at h
  split at h
  · simp only [Option.map_some, Option.some.injEq, Prod.mk.injEq] at h
    exact h.1.symm
  · simp at h

/-- **`emptyCatalog` holds no catalog**, whatever the description: a page table held by it has no rows,
so it does not name `sys_schema`. -/
theorem emptyCatalog_not_cat (pt sch : Levels) (tbls : List (Bytes × Levels)) : ¬ Cat emptyCatalog pt sch tbls := by
  intro h
  obtain ⟨hH, _⟩ := h.tree pt Cat.pt_mem
  have he := h.esch
  unfold ptEntries at he
  obtain ⟨c, hc, _⟩ := List.mem_filterMap.mp he
  unfold live at hc
  have hc' : c ∈ cells pt := (List.mem_filter.mp hc).1
  unfold cells at hc'
  obtain ⟨p, hp, hcp⟩ := List.mem_flatMap.mp hc'
  have hfl : (p.1.off, Node.leaf p.1, p.2) ∈ flatten pt :=
    List.mem_append_left _ (List.mem_map.mpr ⟨p, hp, rfl⟩)
  have := emptyCatalog_view (hH _ hfl)
  simp only [Node.leaf.injEq] at this
  rw [this] at hcp
  cases hcp

/-! ### the examples of C14, on the store `CREATE DATABASE` produces -/

theorem newStore_filed : Filed (reopen newStore) := by
  constructor
  · intro p hp
    simp only [reopen, newStore, List.mem_cons, List.not_mem_nil, or_false] at hp
    rcases hp with rfl | rfl <;> exact ⟨rfl, by decide⟩
  · intro p hp
    cases hp

/-- the outcome is this error -/
def errIs {α} (r : SRes α) (e : SErr) : Bool :=
  match r with
  | .err e' _ => e' == e
  | _ => false

theorem of_errIs {α} {r : SRes α} {e : SErr} (h : errIs r e = true) : ∃ s', r = .err e s' := by
  unfold errIs at h
  split at h
  · rename_i e' s'
    simp only [beq_iff_eq] at h
    subst h
    exact ⟨s', rfl⟩
  · cases h

/-- **The witnesses of C14 on a real database.**  On the store `CREATE DATABASE` leaves: CREATE TABLE
with a 400-byte table name, CREATE TABLE with a 400-byte name in its second column, and INSERT into a
table that does not exist are refused (`rowTooLarge`, `rowTooLarge`, `tableNotExist`), and the store
afterwards is well filed and holds the same data. -/
theorem newStore_examples :
    (∃ s', createTable [] longName [] true (reopen newStore) = .err .rowTooLarge s' ∧
      Filed s' ∧ SameData (reopen newStore) s') ∧
    (∃ s', createTable [⟨"a", .int, 0⟩, ⟨longColumn, .int, 0⟩] [116] [] true (reopen newStore) = .err .rowTooLarge s' ∧
      Filed s' ∧ SameData (reopen newStore) s') ∧
    (∃ s', insert [116] [] [] (reopen newStore) = .err .tableNotExist s' ∧
      Filed s' ∧ SameData (reopen newStore) s') := by
  refine ⟨?_, ?_, ?_⟩
  · obtain ⟨s', heq⟩ := of_errIs (r := createTable [] longName [] true (reopen newStore)) (e := .rowTooLarge)
      (by decide +kernel)
    exact ⟨s', heq, createTable_err _ _ _ _ _ _ _ newStore_filed heq (.inr (.inr (.inl rfl)))⟩
  · obtain ⟨s', heq⟩ := of_errIs
      (r := createTable [⟨"a", .int, 0⟩, ⟨longColumn, .int, 0⟩] [116] [] true (reopen newStore)) (e := .rowTooLarge)
      (by decide +kernel)
    exact ⟨s', heq, createTable_err _ _ _ _ _ _ _ newStore_filed heq (.inr (.inr (.inl rfl)))⟩
  · obtain ⟨s', heq⟩ := of_errIs (r := insert [116] [] [] (reopen newStore)) (e := .tableNotExist)
      (by decide +kernel)
    exact ⟨s', heq, insert_err _ _ _ _ _ _ newStore_filed heq (.inl rfl)⟩

end Mkdb.Store
