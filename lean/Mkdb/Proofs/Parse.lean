import Mkdb.Model.Parse
/-! Helper lemmas for the parser model: panic-freedom of every production (C09). -/
namespace Mkdb.Sql
open Mkdb.Scan Mkdb.Generated

/-- A parser action that never yields `.panic`. -/
structure NoPanic {α} (p : P α) : Prop where
  h : ∀ ts s, p ts ≠ .panic s

theorem NoPanic.pure {α} (a : α) : NoPanic (Pure.pure a : P α) := by
  constructor; intro ts s h; cases h

theorem NoPanic.bind {α β} {m : P α} {f : α → P β} (hm : NoPanic m) (hf : ∀ a, NoPanic (f a)) :
    NoPanic (m >>= f) := by
  constructor
  intro ts s h
  show False
  have : (m >>= f) ts = P.bind m f ts := rfl
  rw [this] at h
  unfold P.bind at h
  cases hmts : m ts with
  | ok a rest => rw [hmts] at h; exact (hf a).h rest s h
  | err e => rw [hmts] at h; cases h
  | panic s' => exact hm.h ts s' hmts
  | fuel => rw [hmts] at h; cases h

theorem NoPanic.fail {α} (e : PErr) : NoPanic (fail e : P α) := by constructor; intro ts s h; cases h
theorem NoPanic.outOfFuel {α} : NoPanic (outOfFuel : P α) := by constructor; intro ts s h; cases h
theorem NoPanic.curTok : NoPanic curTok := by constructor; intro ts s h; cases h
theorem NoPanic.advance : NoPanic advance := by constructor; intro ts s h; cases h
theorem NoPanic.hasNext : NoPanic hasNext := by constructor; intro ts s h; cases h
theorem NoPanic.curIs (tys : List Int) : NoPanic (curIs tys) := by constructor; intro ts s h; cases h

theorem NoPanic.matchTy (tys : List Int) : NoPanic (matchTy tys) := by
  constructor
  intro ts s h
  unfold Sql.matchTy at h
  split at h
  · split at h <;> cases h
  · cases h

theorem NoPanic.ite {α} {c : Prop} [Decidable c] {p q : P α} (hp : NoPanic p) (hq : NoPanic q) :
    NoPanic (if c then p else q) := by
  split <;> assumption

theorem NoPanic.requireMatch (tys : List Int) : NoPanic (requireMatch tys) := by
  unfold Sql.requireMatch
  apply NoPanic.bind (NoPanic.matchTy tys)
  intro a
  cases a with
  | none => exact NoPanic.fail _
  | some t => exact NoPanic.pure t

/-- `requireMatch` only ever returns a token of one of the requested types. -/
theorem requireMatch_ty (tys : List Int) (ts : List Token) (t : Token) (rest : List Token)
    (h : requireMatch tys ts = .ok t rest) : tys.contains t.ty = true := by
  unfold Sql.requireMatch at h
  have h' : P.bind (Sql.matchTy tys) (fun x => match x with | some t => Pure.pure t | none => Sql.fail .unexpected) ts = .ok t rest := h
  unfold P.bind Sql.matchTy at h'
  cases ts with
  | nil => simp [Sql.fail] at h'
  | cons t0 rest0 =>
    simp only at h'
    by_cases hc : tys.contains t0.ty = true
    · simp only [hc, ↓reduceIte] at h'
      have : (Pure.pure t0 : P Token) rest0 = R.ok t0 rest0 := rfl
      rw [this] at h'
      cases h'
      exact hc
    · simp only [hc, Bool.false_eq_true, ↓reduceIte] at h'
      simp [Sql.fail] at h'

theorem tokenVal_int (t : Token) (h : t.ty = t_INT) :
    (∃ i, tokenVal t = .ok (.int i)) ∨ (∃ e, tokenVal t = .error e) := by
  unfold tokenVal
  have h1 : (t.ty == t_STR) = false := by rw [h]; decide
  simp only [h1, Bool.false_eq_true, ↓reduceIte, h, beq_self_eq_true]
  cases atoi t.text with
  | some i => left; exact ⟨i, rfl⟩
  | none => right; exact ⟨_, rfl⟩

theorem NoPanic.requireInt : NoPanic requireInt := by
  constructor
  intro ts s h
  unfold Sql.requireInt at h
  have h' : P.bind (Sql.requireMatch [t_INT]) (fun t => match tokenVal t with
      | .ok (.int i) => Pure.pure i
      | .ok _ => Sql.panic "requireInt: val.(int64)"
      | .error e => Sql.fail e) ts = .panic s := h
  unfold P.bind at h'
  cases hm : Sql.requireMatch [t_INT] ts with
  | ok t rest =>
    rw [hm] at h'
    have hty := requireMatch_ty _ _ _ _ hm
    have hty' : t.ty = t_INT := by simpa using hty
    rcases tokenVal_int t hty' with ⟨i, hi⟩ | ⟨e, he⟩
    · simp only [hi] at h'; cases h'
    · simp only [he] at h'; cases h'
  | err e => rw [hm] at h'; cases h'
  | panic s' => exact (NoPanic.requireMatch _).h ts s' hm
  | fuel => rw [hm] at h'; cases h'

end Mkdb.Sql

namespace Mkdb.Sql
open Mkdb.Scan Mkdb.Generated

/-- Decompose a goal `NoPanic (do …)` along binds, matches and ifs. -/
macro "nopanic_step" : tactic => `(tactic| first
  | exact NoPanic.pure _ | exact NoPanic.fail _ | exact NoPanic.outOfFuel
  | exact NoPanic.matchTy _ | exact NoPanic.requireMatch _ | exact NoPanic.requireInt
  | exact NoPanic.curIs _ | exact NoPanic.curTok | exact NoPanic.advance | exact NoPanic.hasNext
  | assumption
  | apply NoPanic.bind
  | apply NoPanic.ite
  | intro _
  | split)

macro "nopanic" : tactic => `(tactic| repeat' nopanic_step)

theorem NoPanic.columnReference : NoPanic columnReference := by
  unfold Sql.columnReference; nopanic

theorem NoPanic.valueExpression : NoPanic valueExpression := by
  unfold Sql.valueExpression
  have := NoPanic.columnReference
  nopanic

theorem NoPanic.predicate : NoPanic predicate := by
  unfold Sql.predicate
  have := NoPanic.valueExpression
  nopanic

theorem NoPanic.andBoth (f : Nat) : NoPanic (andCond f) ∧ ∀ ret, NoPanic (andLoop f ret) := by
  induction f with
  | zero => exact ⟨by unfold andCond; nopanic, by intro ret; unfold andLoop; nopanic⟩
  | succ f ih =>
    have hp := NoPanic.predicate
    have h1 := ih.1
    have h2 := ih.2
    refine ⟨?_, ?_⟩
    · unfold andCond; nopanic
      all_goals exact h2 _
    · intro ret; unfold andLoop; nopanic
      all_goals exact h2 _

theorem NoPanic.andCond (f : Nat) : NoPanic (andCond f) := (NoPanic.andBoth f).1

theorem NoPanic.orBoth (f : Nat) : NoPanic (orCond f) ∧ ∀ ret, NoPanic (orLoop f ret) := by
  induction f with
  | zero => exact ⟨by unfold orCond; nopanic, by intro ret; unfold orLoop; nopanic⟩
  | succ f ih =>
    have ha := NoPanic.andCond f
    have h1 := ih.1
    have h2 := ih.2
    refine ⟨?_, ?_⟩
    · unfold orCond; nopanic
      all_goals exact h2 _
    · intro ret; unfold orLoop; nopanic
      all_goals exact h2 _

theorem NoPanic.orCond (f : Nat) : NoPanic (orCond f) := (NoPanic.orBoth f).1

theorem NoPanic.commaFollows : NoPanic commaFollows := by
  unfold Sql.commaFollows; nopanic

theorem NoPanic.sepLoop {α} (f : Nat) (body : P (α × Bool)) (hb : NoPanic body) : NoPanic (sepLoop f body) := by
  induction f with
  | zero => unfold Sql.sepLoop; nopanic
  | succ f ih => unfold Sql.sepLoop; nopanic

theorem NoPanic.guardedLoop {α} (f : Nat) (tys : List Int) (body : Token → P (α × Bool))
    (hb : ∀ t, NoPanic (body t)) : NoPanic (guardedLoop f tys body) := by
  induction f with
  | zero => unfold Sql.guardedLoop; nopanic
  | succ f ih => unfold Sql.guardedLoop; nopanic; exact hb _

theorem NoPanic.setFunction : NoPanic setFunction := by
  unfold Sql.setFunction
  have := NoPanic.columnReference
  nopanic

theorem NoPanic.derivedColumn (f : Nat) : NoPanic (derivedColumn f) := by
  unfold Sql.derivedColumn
  have := NoPanic.setFunction
  have := NoPanic.orCond f
  nopanic

theorem NoPanic.selectList (f : Nat) : NoPanic (selectList f) := by
  unfold Sql.selectList
  have := NoPanic.derivedColumn f
  have := NoPanic.commaFollows
  nopanic
  apply NoPanic.sepLoop
  nopanic

theorem NoPanic.tableName : NoPanic tableName := by
  unfold Sql.tableName; nopanic

theorem NoPanic.joinLoop (f : Nat) : ∀ lhs, NoPanic (joinLoop f lhs) := by
  induction f with
  | zero => intro lhs; unfold Sql.joinLoop; nopanic
  | succ f ih =>
    intro lhs
    unfold Sql.joinLoop
    have := NoPanic.tableName
    have := NoPanic.orCond f
    nopanic
    exact ih _

theorem NoPanic.fromClause (f : Nat) : NoPanic (fromClause f) := by
  unfold Sql.fromClause
  have := NoPanic.tableName
  nopanic
  exact NoPanic.joinLoop f _

theorem NoPanic.whereClause (f : Nat) : NoPanic (whereClause f) := by
  unfold Sql.whereClause
  have := NoPanic.orCond f
  nopanic

theorem NoPanic.groupByLoop (f : Nat) : ∀ b, NoPanic (groupByLoop f b) := by
  induction f with
  | zero => intro b; unfold Sql.groupByLoop; nopanic
  | succ f ih =>
    intro b
    unfold Sql.groupByLoop
    have := NoPanic.columnReference
    have := NoPanic.commaFollows
    nopanic
    exact ih _

theorem NoPanic.groupByClause (f : Nat) : NoPanic (groupByClause f) := by
  unfold Sql.groupByClause
  nopanic
  exact NoPanic.groupByLoop f _

theorem NoPanic.sortSpecList (f : Nat) : NoPanic (sortSpecList f) := by
  unfold Sql.sortSpecList
  have := NoPanic.columnReference
  have := NoPanic.commaFollows
  nopanic
  apply NoPanic.sepLoop
  nopanic

theorem NoPanic.limitLoop (f : Nat) : ∀ lc, NoPanic (limitLoop f lc) := by
  induction f with
  | zero => intro lc; unfold Sql.limitLoop; nopanic
  | succ f ih =>
    intro lc
    unfold Sql.limitLoop
    nopanic
    all_goals exact ih _

theorem NoPanic.limitOffsetClause (f : Nat) : NoPanic (limitOffsetClause f) := by
  unfold Sql.limitOffsetClause
  have := NoPanic.limitLoop f
  nopanic
  exact this _

theorem NoPanic.parseSelect (f : Nat) : NoPanic (parseSelect f) := by
  unfold Sql.parseSelect
  have := NoPanic.selectList f
  have := NoPanic.fromClause f
  have := NoPanic.whereClause f
  have := NoPanic.groupByClause f
  have := NoPanic.sortSpecList f
  have := NoPanic.limitOffsetClause f
  nopanic

theorem NoPanic.tableElements (f : Nat) : NoPanic (tableElements f) := by
  unfold Sql.tableElements
  have := NoPanic.commaFollows
  nopanic
  apply NoPanic.guardedLoop
  intro t
  nopanic

theorem NoPanic.parseCreate (f : Nat) : NoPanic (parseCreate f) := by
  unfold Sql.parseCreate
  have := NoPanic.tableElements f
  nopanic

theorem NoPanic.parseInsert (f : Nat) : NoPanic (parseInsert f) := by
  unfold Sql.parseInsert
  have := NoPanic.commaFollows
  nopanic
  · apply NoPanic.guardedLoop; intro t; nopanic
  · apply NoPanic.guardedLoop; intro t; nopanic
    apply NoPanic.guardedLoop; intro t; nopanic

theorem NoPanic.parseUpdate (f : Nat) : NoPanic (parseUpdate f) := by
  unfold Sql.parseUpdate
  have := NoPanic.commaFollows
  have := NoPanic.valueExpression
  have := NoPanic.whereClause f
  nopanic
  apply NoPanic.guardedLoop; intro t; nopanic

theorem NoPanic.parseDelete (f : Nat) : NoPanic (parseDelete f) := by
  unfold Sql.parseDelete
  have := NoPanic.whereClause f
  nopanic

theorem NoPanic.parseShow : NoPanic parseShow := by
  unfold Sql.parseShow; nopanic

theorem NoPanic.parseStmt (f : Nat) : NoPanic (parseStmt f) := by
  unfold Sql.parseStmt
  have := NoPanic.parseCreate f
  have := NoPanic.parseSelect f
  have := NoPanic.parseInsert f
  have := NoPanic.parseUpdate f
  have := NoPanic.parseDelete f
  have := NoPanic.parseShow
  nopanic

end Mkdb.Sql
