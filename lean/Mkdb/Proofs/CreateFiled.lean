import Mkdb.Proofs.CreateFiled1
/-!
`MemFiled` is an invariant of every operation of the page store, part 2: scans, the catalog, the
flush, `createTable` and `insert` (part 1, `CreateFiled1`: `KeepsFiled`, the primitives, the B-tree insert).
-/
set_option autoImplicit false
namespace Mkdb.Store
open Mkdb.Page Mkdb.Tuple Mkdb.Generated Mkdb.Tree

/-! ### scans -/

theorem KeepsFiled.leftmostLeaf : ∀ (fuel off : Nat), KeepsFiled (leftmostLeaf fuel off)
  | 0, _ => KeepsFiled.outOfFuel
  | fuel+1, off => by
    unfold Store.leftmostLeaf
    refine (KeepsFiled.fetch _).bind fun pg => ?_
    cases pg with
    | leaf l => exact KeepsFiled.pure _
    | internal n =>
      simp only
      cases n.cells.head? with
      | none => exact KeepsFiled.panicS _
      | some c => exact KeepsFiled.leftmostLeaf fuel _

theorem KeepsFiled.scanLeaves : ∀ (fuel : Nat) (l : Leaf), KeepsFiled (scanLeaves fuel l)
  | 0, _ => KeepsFiled.outOfFuel
  | fuel+1, l => by
    unfold Store.scanLeaves
    simp only
    refine KeepsFiled.ite ((KeepsFiled.fetch _).bind fun nxt => ?_) (KeepsFiled.pure _)
    cases nxt with
    | leaf r => exact (KeepsFiled.scanLeaves fuel r).bind fun _ => KeepsFiled.pure _
    | internal n => exact KeepsFiled.ite (KeepsFiled.pure _) (KeepsFiled.panicS _)

theorem KeepsFiled.scanRight (root : Nat) : KeepsFiled (scanRight root) := by
  unfold Store.scanRight
  exact (KeepsFiled.leftmostLeaf _ _).bind fun _ => KeepsFiled.scanLeaves _ _

theorem KeepsFiled.findFirstM {α β} {f : α → SM (Option β)} (hf : ∀ a, KeepsFiled (f a)) :
    ∀ l : List α, KeepsFiled (findFirstM f l)
  | [] => KeepsFiled.pure _
  | a :: rest => by
    unfold Store.findFirstM
    refine (hf a).bind fun r => ?_
    cases r with
    | none => exact KeepsFiled.findFirstM hf rest
    | some b => exact KeepsFiled.pure _

theorem KeepsFiled.mapS {α β} {f : α → SM β} (hf : ∀ a, KeepsFiled (f a)) :
    ∀ l : List α, KeepsFiled (mapS f l)
  | [] => KeepsFiled.pure _
  | a :: rest => by
    unfold Store.mapS
    exact (hf a).bind fun _ => (KeepsFiled.mapS hf rest).bind fun _ => KeepsFiled.pure _

/-! ### the catalog -/

theorem KeepsFiled.relationOffset (name : Bytes) : KeepsFiled (relationOffset name) := by
  unfold Store.relationOffset
  refine KeepsFiled.getS.bind fun s => (KeepsFiled.scanRight _).bind fun cells => ?_
  refine KeepsFiled.bind ?_ fun hit => ?_
  · apply KeepsFiled.findFirstM
    intro c
    refine (KeepsFiled.decodeRow _ _).bind fun m => ?_
    repeat kf_step
  · cases hit with
    | some off => exact KeepsFiled.pure _
    | none => exact KeepsFiled.throw _

theorem KeepsFiled.relationSchema (name : Bytes) : KeepsFiled (relationSchema name) := by
  unfold Store.relationSchema
  refine (KeepsFiled.relationOffset _).bind fun off => (KeepsFiled.scanRight _).bind fun cells => ?_
  refine (KeepsFiled.mapS (fun _ => KeepsFiled.decodeRow _ _) _).bind fun rows => ?_
  apply KeepsFiled.mapS
  intro m
  repeat kf_step

theorem KeepsFiled.updateCellAt (off key : Nat) (value : Bytes) (lsn : Nat) :
    KeepsFiled (updateCellAt off key value lsn) := by
  unfold Store.updateCellAt
  refine KeepsFiled.ite (KeepsFiled.throw _) ((KeepsFiled.fetch _).bind fun pg => ?_)
  cases pg with
  | internal i => exact KeepsFiled.panicS _
  | leaf l =>
    exact KeepsFiled.ite (KeepsFiled.throw _)
      ((KeepsFiled.putNode _ _).bind fun _ => KeepsFiled.markDirty _ _)

theorem KeepsFiled.updatePageTable (newRoot : Nat) (name : Bytes) :
    KeepsFiled (updatePageTable newRoot name) := by
  rw [updatePageTable_eq]
  refine KeepsFiled.getS.bind fun s => (KeepsFiled.scanRight _).bind fun cells => ?_
  refine KeepsFiled.bind ?_ fun hit => ?_
  · apply KeepsFiled.findFirstM
    intro c
    unfold ptFind
    refine (KeepsFiled.decodeRow _ _).bind fun m => ?_
    exact KeepsFiled.ite (KeepsFiled.pure _) (KeepsFiled.pure _)
  · cases hit with
    | none => exact KeepsFiled.throw _
    | some cm =>
      obtain ⟨c, m⟩ := cm
      refine (KeepsFiled.encodeRow _ _).bind fun buf => KeepsFiled.getS.bind fun s =>
        (KeepsFiled.updateCellAt _ _ _ _).bind fun _ => KeepsFiled.bind ?_ fun _ => ?_
      · exact KeepsFiled.modifyS fun _ => rfl
      · exact KeepsFiled.pure _

theorem KeepsFiled.insertPageTable (pageOff : Nat) (name : Bytes) :
    KeepsFiled (insertPageTable pageOff name) := by
  unfold Store.insertPageTable
  refine (KeepsFiled.encodeRow _ _).bind fun buf => KeepsFiled.getS.bind fun s =>
    (KeepsFiled.fetch _).bind fun _ => (KeepsFiled.btInsert _ _).bind fun r => ?_
  obtain ⟨bt, k, l⟩ := r
  refine KeepsFiled.getS.bind fun s2 => ?_
  exact KeepsFiled.ite (KeepsFiled.modifyS fun _ => rfl) (KeepsFiled.pure _)

theorem KeepsFiled.insertSchemaRows : ∀ (fields : List FieldDef) (name : Bytes) (root : Nat),
    KeepsFiled (insertSchemaRows fields name root)
  | [], _, _ => KeepsFiled.pure _
  | fd :: rest, name, root => by
    unfold Store.insertSchemaRows
    refine (KeepsFiled.encodeRow _ _).bind fun buf => (KeepsFiled.btInsert _ _).bind fun r => ?_
    obtain ⟨bt, k, l⟩ := r
    exact KeepsFiled.ite
      ((KeepsFiled.updatePageTable _ _).bind fun _ => KeepsFiled.insertSchemaRows rest name _)
      (KeepsFiled.insertSchemaRows rest name root)

/-! ### the flush -/

/-- one page write of the flush: the entry found under `off` is re-filed, clean, under `off` -/
theorem flushStep_memFiled (ord : List Nat) : ∀ (s : Store), MemFiled s →
    MemFiled (ord.foldl (fun (s : Store) off =>
      match assocGet s.mem off with
      | some m => { s with disk := assocSet s.disk (nodeOff m.node) m.node, mem := assocSet s.mem off ⟨m.node, false⟩ }
      | none => s) s) := by
  induction ord with
  | nil => intro s hf; exact hf
  | cons off rest ih =>
    intro s hf
    rw [List.foldl_cons]
    apply ih
    cases e : assocGet s.mem off with
    | none => exact hf
    | some m => exact hf.set (v := ⟨m.node, false⟩) (hf.get (m := m) e) rfl

theorem KeepsFiled.flushPages (order : List Nat) : KeepsFiled (flushPages order) := by
  intro s hf
  unfold Store.flushPages
  exact (flushStep_memFiled _ s hf).of_mem_eq rfl

/-! ### CREATE TABLE and INSERT -/

theorem KeepsFiled.createBody (fields : List FieldDef) (name : Bytes) (order : List Nat) (doFlush : Bool) :
    KeepsFiled (createBody fields name order doFlush) := by
  unfold Store.createBody
  refine (KeepsFiled.appendNode _ _).bind fun pgOff => (KeepsFiled.insertPageTable _ _).bind fun _ =>
    (KeepsFiled.relationOffset _).bind fun schemaRoot => (KeepsFiled.fetch _).bind fun _ =>
    (KeepsFiled.insertSchemaRows _ _ _).bind fun _ => ?_
  split
  · exact KeepsFiled.flushPages _
  · exact KeepsFiled.pure _

theorem KeepsFiled.createTable (fields : List FieldDef) (name : Bytes) (order : List Nat) (doFlush : Bool) :
    KeepsFiled (createTable fields name order doFlush) := by
  intro s hf
  have h := KeepsFiled.relationOffset name s hf
  unfold Store.createTable
  cases e : Store.relationOffset name s with
  | ok a s1 => rw [e] at h; exact h
  | err x s1 =>
    rw [e] at h
    cases x
    case tableNotExist =>
      simp only
      cases checkFieldsFrom [] fields with
      | some e => exact h
      | none =>
        cases checkCatalogRows fields name with
        | some e => exact h
        | none => exact KeepsFiled.createBody fields name order doFlush s1 h
    all_goals exact h
  | panic p => trivial
  | unmodelled w => trivial
  | fuel => trivial

/-- a successful CREATE TABLE leaves every cached page filed under its own offset -/
theorem createTable_memFiled {fields : List FieldDef} {name : Bytes} {order : List Nat} {doFlush : Bool}
    {s s' : Store} (hf : MemFiled s)
    (h : createTable fields name order doFlush s = .ok () s') : MemFiled s' :=
  (KeepsFiled.createTable fields name order doFlush).ok hf h

theorem KeepsFiled.insert (table : Bytes) (cols : List String) (vals : List Val) :
    KeepsFiled (Store.insert table cols vals) := by
  rw [insert_eq]
  refine (KeepsFiled.relationOffset _).bind fun off => (KeepsFiled.fetch _).bind fun _ =>
    (KeepsFiled.relationSchema _).bind fun schema => KeepsFiled.ite (KeepsFiled.throw _) ?_
  cases checkColumns schema (colsOf schema cols) with
  | some e => exact KeepsFiled.throw _
  | none =>
  refine (KeepsFiled.encodeRow _ _).bind fun buf => (KeepsFiled.btInsert _ _).bind fun r => ?_
  exact KeepsFiled.ite ((KeepsFiled.updatePageTable _ _).bind fun _ => KeepsFiled.pure _)
    (KeepsFiled.pure _)

end Mkdb.Store
