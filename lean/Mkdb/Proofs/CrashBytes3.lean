import Mkdb.Proofs.CrashBytes2
/-!
Crash at an arbitrary byte of a statement's log append, part 3: **the byte-level half and the
record-level half of C03, composed.**

* `walFile recs`: the bytes of the log file that holds the records `recs` (`Wal.encodeLog` of their
  `toRec`).
* `walFile_cut`: `Wal.readLog_old_take` / `Wal.append_after_old_cut` on the records of the storage
  model.
* `SpecRun.append`.
* `stmt_wal_wf`: after a history of acknowledged statements and one more statement, every record of
  the log is well formed (under the range hypotheses on the three counters of the final store), and the
  log is the log before the statement plus the statement's batch.
* **`insert_byte_cut`, `delete_byte_cut`, `update_byte_cut`**: for EVERY byte position `n` inside (or
  beyond) what the statement appends, `wal.read` of the cut file returns the acknowledged records and
  the first `k` records of the statement; the truncated file is the file of exactly these records;
  and replaying them recovers a row-prefix state (the conclusions of `insert_crash_rowPrefixState`,
  `delete_crash_rowPrefixState`, `update_crash_rowPrefixState`, verbatim).
-/
set_option autoImplicit false
namespace Mkdb.Store
open Mkdb.Page Mkdb.Tuple Mkdb.Generated Mkdb.Tree Mkdb.Engine

/-- the log file that holds these records -/
def walFile (recs : List WalRec) : Bytes := Wal.encodeLog (recs.map toRec)

theorem walFile_append (a b : List WalRec) : walFile (a ++ b) = walFile a ++ walFile b := by
  unfold walFile
  rw [List.map_append, Wal.encodeLog_append]

/-- **A log file cut at an arbitrary byte of the batch a statement appends** (`old`: the records of
the acknowledged statements; `batch`: the records of the statement; `n`: how many bytes of the batch
reached the file). -/
theorem walFile_cut (old batch : List WalRec) (hold : ∀ r ∈ old, (toRec r).wf)
    (hb : ∀ r ∈ batch, (toRec r).wf) (n : Nat) :
    ∃ k torn, k ≤ batch.length ∧
      Wal.readLog ((walFile (old ++ batch)).take ((walFile old).length + n))
        = .ok ((old ++ batch.take k).map toRec) (walFile (old ++ batch.take k)).length torn ∧
      (walFile (batch.take k)).length ≤ n ∧
      (k < batch.length → n < (walFile (batch.take (k+1))).length) ∧
      (torn = true ↔ (walFile (batch.take k)).length < min n (walFile batch).length) ∧
      Wal.afterRead ((walFile (old ++ batch)).take ((walFile old).length + n))
        = walFile (old ++ batch.take k) ∧
      ∀ more : List Wal.Rec, (∀ r ∈ more, r.wf) →
        Wal.readLog (Wal.afterRead ((walFile (old ++ batch)).take ((walFile old).length + n)) ++
            Wal.encodeLog more)
          = .ok ((old ++ batch.take k).map toRec ++ more)
              (Wal.encodeLog ((old ++ batch.take k).map toRec ++ more)).length false := by
  have hold' : ∀ r ∈ old.map toRec, r.wf := by
    intro r hr
    obtain ⟨x, hx, rfl⟩ := List.mem_map.mp hr
    exact hold x hx
  have hb' : ∀ r ∈ batch.map toRec, r.wf := by
    intro r hr
    obtain ⟨x, hx, rfl⟩ := List.mem_map.mp hr
    exact hb x hx
  obtain ⟨k, torn, hk, hread, hle, hnext, htorn, hafter⟩ :=
    Wal.readLog_old_take (old.map toRec) (batch.map toRec) hold' hb' n
  rw [List.length_map] at hk hnext
  simp only [← List.map_take, ← List.map_append] at hread hle hnext htorn hafter
  refine ⟨k, torn, hk, hread, hle, hnext, htorn, hafter, ?_⟩
  intro more hm
  have := Wal.append_after_old_cut (old.map toRec) (batch.map toRec) more hold' hb' hm n k
    (by simp only [← List.map_take, ← List.map_append]; exact hafter)
  simp only [← List.map_take, ← List.map_append] at this
  exact this

/-- runs compose -/
theorem SpecRun.append {sch : Levels} {db db1 db2 : Engine.DB} {sdb sdb1 sdb2 : Spec.SDB}
    {A B : List EStmt} (h1 : SpecRun sch db sdb A db1 sdb1) (h2 : SpecRun sch db1 sdb1 B db2 sdb2) :
    SpecRun sch db sdb (A ++ B) db2 sdb2 := by
  induction h1 with
  | nil db sdb => exact h2
  | insert table cols rows hvalid hspec hrunok heval _ ih =>
    exact .insert table cols rows hvalid hspec hrunok heval (ih h2)
  | delete table w hspec heval _ ih => exact .delete table w hspec heval (ih h2)
  | update table sets w hvalid hspec heval _ ih => exact .update table sets w hvalid hspec heval (ih h2)

/-- **The log after a history of acknowledged statements and one more statement**: it is the log
before the statement plus the statement's batch, and - when the LSN counter, the allocation frontier
and the row-id counter of the store the statement leaves fit their Go types - every record in it fits
the wire types of `WALEntry`. -/
theorem stmt_wal_wf (sch : Levels) {db0 dbN dbC : Engine.DB} {sdb0 sdbN sdbC : Spec.SDB}
    {stmts : List EStmt} {e : EStmt}
    (run : SpecRun sch db0 sdb0 stmts dbN sdbN) (step : SpecRun sch dbN sdbN [e] dbC sdbC)
    (hwal : db0.wal = [])
    (pt : Levels) (tbls : List (Bytes × Levels)) (hA : AbsV db0.store pt sch tbls sdb0)
    (hlsn : dbC.store.hdr.nextLSN ≤ 2 ^ 64) (hnf : dbC.store.hdr.nextFree ≤ 2 ^ 64)
    (hlk : dbC.store.hdr.lastKey < 2 ^ 32) :
    dbC.wal = dbN.wal ++ dbC.wal.drop dbN.wal.length ∧ ∀ r ∈ dbC.wal, (toRec r).wf := by
  obtain ⟨ptN, tblsN, _, _, _, _, hAN⟩ := spec_run_live sch run pt tbls hA
  obtain ⟨logs, hw, _⟩ := spec_run_recs_in sch step ptN tblsN hAN
  obtain ⟨all, hwall, hrec⟩ := spec_run_recs_in sch (run.append step) pt tbls hA
  rw [hwal, List.nil_append] at hwall
  refine ⟨by rw [hw, List.drop_left], ?_⟩
  intro r hr
  rw [hwall] at hr
  exact toRec_wf (hrec r hr) hlsn hnf hlk

/-- the byte-level facts about the log file of `dbC` cut `n` bytes behind the log file of `dbN`: what
`wal.read` returns, where the cut lies relative to the frames of the batch, what the file is after the
reader truncated it, and that later appends are read back behind the surviving records -/
def ByteCut (oldW allW : List WalRec) (n k : Nat) (torn : Bool) : Prop :=
  k ≤ (allW.drop oldW.length).length ∧
  Wal.readLog ((walFile allW).take ((walFile oldW).length + n))
    = .ok ((oldW ++ (allW.drop oldW.length).take k).map toRec)
        (walFile (oldW ++ (allW.drop oldW.length).take k)).length torn ∧
  (walFile ((allW.drop oldW.length).take k)).length ≤ n ∧
  (k < (allW.drop oldW.length).length → n < (walFile ((allW.drop oldW.length).take (k+1))).length) ∧
  (torn = true ↔
    (walFile ((allW.drop oldW.length).take k)).length < min n (walFile (allW.drop oldW.length)).length) ∧
  Wal.afterRead ((walFile allW).take ((walFile oldW).length + n))
    = walFile (oldW ++ (allW.drop oldW.length).take k) ∧
  ∀ more : List Wal.Rec, (∀ r ∈ more, r.wf) →
    Wal.readLog (Wal.afterRead ((walFile allW).take ((walFile oldW).length + n)) ++ Wal.encodeLog more)
      = .ok ((oldW ++ (allW.drop oldW.length).take k).map toRec ++ more)
          (Wal.encodeLog ((oldW ++ (allW.drop oldW.length).take k).map toRec ++ more)).length false

theorem byteCut_of_wf (oldW allW : List WalRec) (hsplit : allW = oldW ++ allW.drop oldW.length)
    (hwf : ∀ r ∈ allW, (toRec r).wf) (n : Nat) : ∃ k torn, ByteCut oldW allW n k torn := by
  have hold : ∀ r ∈ oldW, (toRec r).wf := fun r hr => hwf r (by rw [hsplit]; exact List.mem_append_left _ hr)
  have hb : ∀ r ∈ allW.drop oldW.length, (toRec r).wf := fun r hr => hwf r (List.mem_of_mem_drop hr)
  obtain ⟨k, torn, h⟩ := walFile_cut oldW (allW.drop oldW.length) hold hb n
  rw [← hsplit] at h
  exact ⟨k, torn, h⟩

/-! ### the three statements -/

/-- **C03, INSERT, every byte.**  Hypotheses of `insert_crash_rowPrefixState`, plus: the three counters
of the store the INSERT leaves in memory fit their Go types.  For every `n`: the log file of `dbC` cut
`n` bytes behind the log file of `dbN` is read as the records of `dbN` plus the first `k` records of
the statement (`ByteCut`), and replaying exactly these records on `db0.store` gives a row-prefix
state. -/
theorem insert_byte_cut (sch : Levels) {db0 dbN : Engine.DB} {sdb0 sdbN : Spec.SDB}
    {stmts : List EStmt} (run : SpecRun sch db0 sdb0 stmts dbN sdbN) (hwal : db0.wal = [])
    (pt : Levels) (tbls : List (Bytes × Levels)) (hA : AbsV db0.store pt sch tbls sdb0)
    (hself : PtSelf pt) (hf : FreshM db0.store tbls)
    (table : Bytes) (cols : List Bytes) (lrows : List (List Sql.Lit))
    (hvalid : ∀ r ∈ lrows.map (fun r => r.map Spec.litVal), ∀ v ∈ r, ValidVal v) (sdbC : Spec.SDB)
    (hspec : Spec.specInsert sdbN table cols (lrows.map fun r => r.map Spec.litVal) = some sdbC)
    (hrunok : ∀ pt tbls t schema, AbsV dbN.store pt sch tbls sdbN → (table, t) ∈ tbls →
      schemaOf sch table = some schema →
      InsRunOK schema (cols.map Engine.bytesToName) t dbN.store.hdr.lastKey dbN.store.hdr.nextLSN
        dbN.store.hdr.nextFree (lrows.map fun r => r.map Spec.litVal))
    (n : Nat) (dbC : Engine.DB)
    (heval : Engine.evalInsert dbN table cols (lrows.map fun r => r.map Spec.litVal) = .ok n dbC)
    (hlsn : dbC.store.hdr.nextLSN ≤ 2 ^ 64) (hnf : dbC.store.hdr.nextFree ≤ 2 ^ 64)
    (hlk : dbC.store.hdr.lastKey < 2 ^ 32) (cut : Nat) :
    (∀ r ∈ dbC.wal, (toRec r).wf) ∧
    ∃ k torn, ByteCut dbN.wal dbC.wal cut k torn ∧
    ∃ rK ptR tblsK sdbK stK j,
      replayAll (dbN.wal ++ (dbC.wal.drop dbN.wal.length).take k) db0.store = (rK, none, false) ∧
      AbsV rK ptR sch tblsK sdbK ∧
      Spec.findTable sdbK table = some stK ∧
      (table, stK.rows.map (·.vals)) ∈ Spec.rowPrefixStates sdbN (.insert table cols lrows) ∧
      (∀ n, n ≠ table → Spec.findTable sdbK n = Spec.findTable sdbN n) ∧
      j ≤ lrows.length ∧ rK.hdr.lastKey = dbN.store.hdr.lastKey + j := by
  obtain ⟨hsplit, hwf⟩ := stmt_wal_wf sch run
    (.insert table cols _ hvalid hspec hrunok heval (.nil dbC sdbC)) hwal pt tbls hA hlsn hnf hlk
  obtain ⟨k, torn, hcut⟩ := byteCut_of_wf dbN.wal dbC.wal hsplit hwf cut
  exact ⟨hwf, k, torn, hcut,
    insert_crash_rowPrefixState sch run hwal pt tbls hA hself hf table cols lrows hvalid sdbC hspec hrunok n dbC heval k⟩

/-- **C03, DELETE, every byte.** -/
theorem delete_byte_cut (sch : Levels) {db0 dbN : Engine.DB} {sdb0 sdbN : Spec.SDB}
    {stmts : List EStmt} (run : SpecRun sch db0 sdb0 stmts dbN sdbN) (hwal : db0.wal = [])
    (pt : Levels) (tbls : List (Bytes × Levels)) (hA : AbsV db0.store pt sch tbls sdb0)
    (hself : PtSelf pt) (hf : FreshM db0.store tbls)
    (table : Bytes) (w : Option Sql.Cond) (sdbC : Spec.SDB)
    (hspec : Spec.specDelete sdbN table w = some sdbC)
    (n : Nat) (dbC : Engine.DB) (heval : Engine.evalDelete dbN table w = .ok n dbC)
    (hlsn : dbC.store.hdr.nextLSN ≤ 2 ^ 64) (hnf : dbC.store.hdr.nextFree ≤ 2 ^ 64)
    (hlk : dbC.store.hdr.lastKey < 2 ^ 32) (cut : Nat) :
    (∀ r ∈ dbC.wal, (toRec r).wf) ∧
    ∃ k torn, ByteCut dbN.wal dbC.wal cut k torn ∧
    ∃ rK ptK tblsK sdbK stK,
      replayAll (dbN.wal ++ (dbC.wal.drop dbN.wal.length).take k) db0.store = (rK, none, false) ∧
      AbsV rK ptK sch tblsK sdbK ∧
      Spec.findTable sdbK table = some stK ∧
      (table, stK.rows.map (·.vals)) ∈ Spec.rowPrefixStates sdbN (.delete table w) ∧
      (∀ n, n ≠ table → Spec.findTable sdbK n = Spec.findTable sdbN n) ∧
      rK.hdr.lastKey = dbN.store.hdr.lastKey ∧ rK.hdr.nextFree = dbN.store.hdr.nextFree := by
  obtain ⟨hsplit, hwf⟩ := stmt_wal_wf sch run
    (.delete table w hspec heval (.nil dbC sdbC)) hwal pt tbls hA hlsn hnf hlk
  obtain ⟨k, torn, hcut⟩ := byteCut_of_wf dbN.wal dbC.wal hsplit hwf cut
  exact ⟨hwf, k, torn, hcut,
    delete_crash_rowPrefixState sch run hwal pt tbls hA hself hf table w sdbC hspec n dbC heval k⟩

/-- **C03, UPDATE, every byte.** -/
theorem update_byte_cut (sch : Levels) {db0 dbN : Engine.DB} {sdb0 sdbN : Spec.SDB}
    {stmts : List EStmt} (run : SpecRun sch db0 sdb0 stmts dbN sdbN) (hwal : db0.wal = [])
    (pt : Levels) (tbls : List (Bytes × Levels)) (hA : AbsV db0.store pt sch tbls sdb0)
    (hself : PtSelf pt) (hf : FreshM db0.store tbls)
    (table : Bytes) (sets : List (Bytes × Sql.VExpr)) (w : Option Sql.Cond)
    (hvalid : ∀ p ∈ sets, ∀ l, p.2 = .lit l → ValidVal (Engine.litToVal l)) (sdbC : Spec.SDB)
    (hspec : Spec.specUpdate sdbN table sets w = some sdbC)
    (dbC : Engine.DB) (heval : Engine.evalUpdate dbN table sets w = .ok () dbC)
    (hlsn : dbC.store.hdr.nextLSN ≤ 2 ^ 64) (hnf : dbC.store.hdr.nextFree ≤ 2 ^ 64)
    (hlk : dbC.store.hdr.lastKey < 2 ^ 32) (cut : Nat) :
    (∀ r ∈ dbC.wal, (toRec r).wf) ∧
    ∃ k torn, ByteCut dbN.wal dbC.wal cut k torn ∧
    ∃ rK ptK tblsK sdbK stK,
      replayAll (dbN.wal ++ (dbC.wal.drop dbN.wal.length).take k) db0.store = (rK, none, false) ∧
      AbsV rK ptK sch tblsK sdbK ∧
      Spec.findTable sdbK table = some stK ∧
      (table, stK.rows.map (·.vals)) ∈ Spec.rowPrefixStates sdbN (.update table sets w) ∧
      (∀ n, n ≠ table → Spec.findTable sdbK n = Spec.findTable sdbN n) ∧
      rK.hdr.lastKey = dbN.store.hdr.lastKey ∧ rK.hdr.nextFree = dbN.store.hdr.nextFree := by
  obtain ⟨hsplit, hwf⟩ := stmt_wal_wf sch run
    (.update table sets w hvalid hspec heval (.nil dbC sdbC)) hwal pt tbls hA hlsn hnf hlk
  obtain ⟨k, torn, hcut⟩ := byteCut_of_wf dbN.wal dbC.wal hsplit hwf cut
  exact ⟨hwf, k, torn, hcut,
    update_crash_rowPrefixState sch run hwal pt tbls hA hself hf table sets w hvalid sdbC hspec dbC heval k⟩

end Mkdb.Store
