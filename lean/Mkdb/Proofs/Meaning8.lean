import Mkdb.Proofs.Meaning7
/-!
`evaluateSelect` against `Spec.meaning` / `Spec.satisfies`, part 8: aggregates and GROUP BY over
any FROM clause (C07 on top of C06).

The nested loops deliver the rows of a join in another order than the relational definition
lists them, so executor and reference meaning group two permutations of one list.  The groups and
the counts do not depend on the order; the *first row* of a group does, which is where the executor
takes a select-list element that is not a COUNT from.  The reference meaning gives such an element
a value only if it is constant on the group (`specAgg_inv`: what a defined meaning says about the
source rows); `GroupConst` is that hypothesis for the executor's side, `groupConst_of_grouped`: it
holds when every other element is a literal or a GROUP BY column.
-/
namespace Mkdb.Exec.MeaningP
open Mkdb.Sql Mkdb.Tuple Mkdb.Spec Mkdb.Exec.SelectP Mkdb.Exec.AggP

/-! ### the grouping part of the meaning as one comprehension over the distinct keys -/

/-- the row of the meaning for the group with key `k` -/
def rowS (sl : List DerivedCol) (fields : List Field) (idxs : List Nat) (src : List Row)
    (k : List Val) : Option Row :=
  sl.mapM fun d => aggVal d.item fields
    (src.filter fun r => keyAt idxs (projRow sl fields r) == k)

theorem specAgg_groups' {q : Select} {fields : List Field} {src : List Row} {idxs : List Nat}
    {ks : List (List Val)}
    (hgi : q.groupBy.mapM (groupIdx q.list) = some idxs)
    (hks : src.mapM (fun r => (idxs.filterMap fun i => q.list[i]?).mapM
      (fun d => itemVal d.item fields r)) = some ks)
    (hz : ¬(q.groupBy = [] ∧ src = [])) :
    specAgg q fields src =
      (distinctKeys (src.map fun r => keyAt idxs (projRow q.list fields r))).mapM
        (rowS q.list fields idxs src) := by
  have hkeys : src.mapM (fun r => (idxs.filterMap fun i => q.list[i]?).mapM
      (fun d => itemVal d.item fields r)) = some (src.map fun r => keyAt idxs (projRow q.list fields r)) := by
    obtain ⟨e, _⟩ := JoinP.mapM_some_eq_map (g := fun r => keyAt idxs (projRow q.list fields r)) hks
      (fun r _ k hk => keyOf_some (mapM_groupIdx_lt hgi) hk)
    rw [hks, e]
  unfold specAgg rowS
  simp only [hgi, Option.bind_eq_bind, Option.bind_some, hkeys]
  cases hg : q.groupBy with
  | cons g gs =>
    simp only [List.isEmpty_cons, Bool.false_eq_true, if_false, zip_map_filterMap_key]
  | nil =>
    have hsrc : src ≠ [] := fun e => hz ⟨hg, e⟩
    rw [hg] at hgi
    simp only [List.mapM_nil, Option.pure_def, Option.some.injEq] at hgi
    subst hgi
    have hk : (fun r => keyAt [] (projRow q.list fields r)) = fun (_ : Row) => ([] : List Val) := rfl
    have hsi : src.isEmpty = false := by
      cases src with
      | nil => exact absurd rfl hsrc
      | cons _ _ => rfl
    have hfs : src.filter (fun r => keyAt [] (projRow q.list fields r) == []) = src :=
      List.filter_eq_self.2 (fun _ _ => rfl)
    simp only [List.isEmpty_nil, if_true, hsi, Bool.false_eq_true, if_false]
    rw [hk]
    unfold distinctKeys
    rw [eraseDups_const [] src hsrc]
    simp only [List.mapM_cons, List.mapM_nil, Option.pure_def, Option.bind_eq_bind]
    rw [hfs]
    cases List.mapM (fun d => aggVal d.item fields src) q.list <;> rfl

theorem specAgg_groups {q : Select} {fields : List Field} {src : List Row} {idxs : List Nat}
    (hgi : q.groupBy.mapM (groupIdx q.list) = some idxs) (hproj : Projects q.list fields src)
    (hz : ¬(q.groupBy = [] ∧ src = [])) :
    specAgg q fields src =
      (distinctKeys (src.map fun r => keyAt idxs (projRow q.list fields r))).mapM
        (rowS q.list fields idxs src) :=
  specAgg_groups' hgi
    (mapM_eq_some_map (fun r hr => keyOf_eq (mapM_groupIdx_lt hgi) (hproj r hr))) hz

/-! ### one aggregate over a permutation of the group -/

/-- an element that is not a COUNT and has one value `w` on all rows of a non-empty group has the
aggregate `w` -/
theorem aggVal_const {sl : List DerivedCol} {fields : List Field} {grp : List Row} {d : DerivedCol}
    {w : Val} (hd : d ∈ sl) (hne : grp ≠ []) (hproj : Projects sl fields grp)
    (hres : ∀ c ∈ itemColumns d.item, ∃ j, findColumn c fields = .ok j)
    (hcnt : ∀ c, d.item ≠ .count c) (hw : ∀ r ∈ grp, pv fields d r = w) :
    aggVal d.item fields grp = some w := by
  obtain ⟨r0, rest, rfl⟩ : ∃ r0 rest, grp = r0 :: rest := by
    cases grp with
    | nil => exact absurd rfl hne
    | cons a l => exact ⟨a, l, rfl⟩
  have h0 := hproj r0 List.mem_cons_self d hd
  rw [hw r0 List.mem_cons_self] at h0
  have hplain : (∀ c, d.item ≠ .avg c) → aggVal d.item fields (r0 :: rest) = some w := by
    intro havg
    rw [aggVal_plain_iff hcnt havg]
    exact ⟨hne, fun r hr => by rw [hproj r hr d hd, hw r hr]⟩
  cases hi : d.item with
  | count c => exact absurd hi (hcnt c)
  | star => rw [← hi]; exact hplain (fun c e => by rw [hi] at e; cases e)
  | expr e => rw [← hi]; exact hplain (fun c e' => by rw [hi] at e'; cases e')
  | avg c =>
    obtain ⟨j, hfc⟩ := hres c (by rw [hi]; exact List.mem_cons_self)
    rw [hi] at h0
    obtain ⟨x0, _, rfl⟩ := itemVal_avg hfc h0
    have hall : ∀ r ∈ r0 :: rest, r[j]? = some (.int x0) := by
      intro r hr
      have hv := hproj r hr d hd
      rw [hi, hw r hr] at hv
      obtain ⟨x, hrj, hx⟩ := itemVal_avg hfc hv
      cases hx
      exact hrj
    simp only [aggVal, hfc]
    have hm : (r0 :: rest).mapM (fun r => match r[j]? with | some (Val.int x) => some x | _ => none) =
        some ((r0 :: rest).map fun _ => x0) :=
      mapM_eq_some_map (fun r hr => by rw [hall r hr])
    simp only [Option.bind_eq_bind]
    refine Eq.trans (congrArg (Option.bind · _) hm) ?_
    simp only [Option.bind_some, Option.some.injEq, Val.int.injEq]
    rw [foldl_add_const, Int.zero_add]
    exact roundDiv_exact x0 (r0 :: rest).length (by simp)

/-- **one aggregate does not depend on the order of the rows of the group**: a COUNT always, any
other element when it is constant on the group -/
theorem aggVal_perm {sl : List DerivedCol} {fields : List Field} {grp grp' : List Row}
    {d : DerivedCol} (hp : grp'.Perm grp) (hd : d ∈ sl) (hne : grp ≠ [])
    (hproj : Projects sl fields grp)
    (hres : ∀ c ∈ itemColumns d.item, ∃ j, findColumn c fields = .ok j)
    (hconst : (∀ c, d.item ≠ .count c) → ∀ r ∈ grp, ∀ r' ∈ grp, pv fields d r = pv fields d r') :
    aggVal d.item fields grp' = aggVal d.item fields grp := by
  by_cases hcnt : ∀ c, d.item ≠ .count c
  · obtain ⟨r0, hr0⟩ : ∃ r0, r0 ∈ grp := by
      cases grp with
      | nil => exact absurd rfl hne
      | cons a l => exact ⟨a, List.mem_cons_self⟩
    have hw : ∀ r ∈ grp, pv fields d r = pv fields d r0 := fun r hr => hconst hcnt r hr r0 hr0
    have hne' : grp' ≠ [] := by
      intro e; rw [e] at hp; exact hne (List.Perm.nil_eq hp).symm
    rw [aggVal_const hd hne hproj hres hcnt hw,
      aggVal_const hd hne' (hproj.sublist (fun r hr => hp.mem_iff.1 hr)) hres hcnt
        (fun r hr => hw r (hp.mem_iff.1 hr))]
  · have : ∃ c, d.item = .count c := by
      apply Classical.byContradiction
      intro hn
      exact hcnt (fun c e => hn ⟨c, e⟩)
    obtain ⟨oc, hi⟩ := this
    rw [hi]
    cases oc with
    | none => simp only [aggVal, hp.length_eq]
    | some c =>
      simp only [aggVal]
      cases findColumn c fields with
      | ok j => simp only [(hp.filter _).length_eq]
      | err e => rfl
      | panic s => rfl

/-! ### the distinct keys of a permutation -/

theorem distinctKeys_nodup (ks : List (List Val)) : (distinctKeys ks).Nodup := by
  have := groups_keys_nodup (fun r => r) ks
  rw [groups_keys_first_occurrence, List.map_id'] at this
  exact this

theorem distinctKeys_perm {ks ks' : List (List Val)} (hp : ks'.Perm ks) :
    (distinctKeys ks').Perm (distinctKeys ks) := by
  rw [List.perm_ext_iff_of_nodup (distinctKeys_nodup _) (distinctKeys_nodup _)]
  intro a
  unfold distinctKeys
  rw [List.mem_eraseDups, List.mem_eraseDups]
  exact hp.mem_iff

theorem mapM_congr {α β : Type} {f g : α → Option β} {l : List α} (h : ∀ a ∈ l, f a = g a) :
    l.mapM f = l.mapM g := by
  induction l with
  | nil => rfl
  | cons a l ih =>
    rw [List.mapM_cons, List.mapM_cons, h a List.mem_cons_self,
      ih (fun a ha => h a (List.mem_cons_of_mem _ ha))]

/-! ### the grouping part of the meaning over a permutation of the source rows -/

/-- **the grouping part of the meaning does not depend on the order of the source rows**, as a
multiset of result rows, when everything but the COUNTs is constant on each group -/
theorem specAgg_perm {q : Select} {fields : List Field} {src src' out' : List Row} {idxs : List Nat}
    (hp : src'.Perm src) (hgi : q.groupBy.mapM (groupIdx q.list) = some idxs)
    (hres : ColumnsResolve q.list fields) (hproj : Projects q.list fields src)
    (hconst : GroupConst q.list fields (keyAt idxs) src)
    (h : specAgg q fields src' = some out') :
    ∃ out, specAgg q fields src = some out ∧ out'.Perm out := by
  by_cases hz : q.groupBy = [] ∧ src = []
  · obtain ⟨_, rfl⟩ := hz
    have : src' = [] := List.Perm.eq_nil hp
    subst this
    exact ⟨out', h, .refl _⟩
  · have hz' : ¬(q.groupBy = [] ∧ src' = []) := by
      rintro ⟨hg, rfl⟩
      exact hz ⟨hg, (List.Perm.nil_eq hp).symm⟩
    have hproj' : Projects q.list fields src' := hproj.sublist (fun r hr => hp.mem_iff.1 hr)
    rw [specAgg_groups hgi hproj' hz'] at h
    rw [specAgg_groups hgi hproj hz]
    -- the rows of the two comprehensions agree key by key
    have hrow : ∀ k ∈ distinctKeys (src'.map fun r => keyAt idxs (projRow q.list fields r)),
        rowS q.list fields idxs src' k = rowS q.list fields idxs src k := by
      intro k hk
      unfold distinctKeys at hk
      rw [List.mem_eraseDups] at hk
      obtain ⟨r, hr, hrk⟩ := List.mem_map.1 hk
      have hr' : r ∈ src := hp.mem_iff.1 hr
      have hne : (src.filter fun r => keyAt idxs (projRow q.list fields r) == k) ≠ [] := by
        intro e
        have : r ∈ src.filter fun r => keyAt idxs (projRow q.list fields r) == k :=
          List.mem_filter.2 ⟨hr', by rw [hrk]; exact beq_self_eq_true _⟩
        rw [e] at this; cases this
      unfold rowS
      apply mapM_congr
      intro d hd
      refine aggVal_perm (hp.filter _) hd hne
        (hproj.sublist (fun r hr => (List.mem_filter.1 hr).1)) (hres d hd) ?_
      intro hcnt r1 hr1 r2 hr2
      obtain ⟨h1, k1⟩ := List.mem_filter.1 hr1
      obtain ⟨h2, k2⟩ := List.mem_filter.1 hr2
      exact hconst d hd hcnt r1 h1 r2 h2 ((beq_iff_eq.1 k1).trans (beq_iff_eq.1 k2).symm)
    rw [mapM_congr hrow] at h
    have hdk := distinctKeys_perm (hp.map fun r => keyAt idxs (projRow q.list fields r))
    obtain ⟨out, hout, hperm⟩ := mapM_perm hdk.symm h
    exact ⟨out, hout, hperm.symm⟩

/-! ### what a defined grouping part of the meaning says about the source rows -/

theorem specAgg_some_keys {q : Select} {fields : List Field} {src out : List Row}
    (h : specAgg q fields src = some out) :
    ∃ idxs ks, q.groupBy.mapM (groupIdx q.list) = some idxs ∧
      src.mapM (fun r => (idxs.filterMap fun i => q.list[i]?).mapM
        (fun d => itemVal d.item fields r)) = some ks := by
  unfold specAgg at h
  cases hgi : q.groupBy.mapM (groupIdx q.list) with
  | none => simp only [hgi, Option.bind_eq_bind, Option.bind_none] at h; cases h
  | some idxs =>
    simp only [hgi, Option.bind_eq_bind, Option.bind_some] at h
    cases hks : src.mapM (fun r => (idxs.filterMap fun i => q.list[i]?).mapM
        (fun d => itemVal d.item fields r)) with
    | none => simp only [hks, Option.bind_none] at h; cases h
    | some ks => exact ⟨idxs, ks, rfl, hks⟩

/-- an aggregate that is defined on a group is computed from values every row of the group has:
the select-list element evaluates on each of them (a `COUNT(col)` on a row that is long enough) -/
theorem itemVal_of_aggVal {fields : List Field} {grp : List Row} {d : DerivedCol} {v : Val} {r : Row}
    (hr : r ∈ grp) (hres : ∀ c ∈ itemColumns d.item, ∃ j, findColumn c fields = .ok j)
    (hlen : r.length = fields.length) (h : aggVal d.item fields grp = some v) :
    ∃ w, itemVal d.item fields r = some w ∧
      ((∀ c, d.item ≠ .count c) → (∀ c, d.item ≠ .avg c) → w = v) := by
  have hplain : (∀ c, d.item ≠ .count c) → (∀ c, d.item ≠ .avg c) →
      ∃ w, itemVal d.item fields r = some w ∧
        ((∀ c, d.item ≠ .count c) → (∀ c, d.item ≠ .avg c) → w = v) := by
    intro h1 h2
    exact ⟨v, ((aggVal_plain_iff h1 h2).1 h).2 r hr, fun _ _ => rfl⟩
  cases hi : d.item with
  | star =>
    rw [← hi]
    exact hplain (fun c e => by rw [hi] at e; cases e) (fun c e => by rw [hi] at e; cases e)
  | expr e =>
    rw [← hi]
    exact hplain (fun c e' => by rw [hi] at e'; cases e') (fun c e' => by rw [hi] at e'; cases e')
  | count oc =>
    cases oc with
    | none => exact ⟨.int 1, rfl, fun h1 => absurd rfl (h1 none)⟩
    | some c =>
      obtain ⟨j, hj⟩ := hres c (by rw [hi]; exact List.mem_cons_self)
      have hlt : j < r.length := by rw [hlen]; exact NoPanicP.findColumn_lt hj
      refine ⟨if r[j] = .null then .int 0 else .int 1, ?_, fun h1 => absurd rfl (h1 (some c))⟩
      rw [itemVal_some_iff]
      simp only [projectItem, hj, bind_ok, List.getElem?_eq_getElem hlt]
      cases r[j] <;> rfl
  | avg c =>
    obtain ⟨j, hj⟩ := hres c (by rw [hi]; exact List.mem_cons_self)
    rw [hi] at h
    simp only [aggVal, hj, Option.bind_eq_bind] at h
    obtain ⟨xs, hxs, _⟩ := option_bind_some.1 h
    obtain ⟨x, hx⟩ := mapM_some_forall hxs r hr
    refine ⟨.int x, ?_, fun _ h2 => absurd rfl (h2 c)⟩
    rw [itemVal_some_iff]
    simp only [projectItem, hj, bind_ok]
    cases hrj : r[j]? with
    | none => simp only [hrj] at hx; cases hx
    | some y =>
      simp only [hrj] at hx
      cases y with
      | int z => simp only [Option.some.injEq] at hx; subst hx; rfl
      | str s => cases hx
      | bool b => cases hx
      | null => cases hx

/-- **a defined grouping part of the meaning**: every select-list element has a value on every
source row (rows as long as the header), and every element that is neither a COUNT nor an AVG is
constant on each group -/
theorem specAgg_inv {q : Select} {fields : List Field} {src out : List Row} {idxs : List Nat}
    (hgi : q.groupBy.mapM (groupIdx q.list) = some idxs) (hz : ¬(q.groupBy = [] ∧ src = []))
    (hres : ColumnsResolve q.list fields) (hlen : ∀ r ∈ src, r.length = fields.length)
    (h : specAgg q fields src = some out) :
    Projects q.list fields src ∧ PlainConst q.list fields (keyAt idxs) src := by
  obtain ⟨idxs', ks, hgi', hks⟩ := specAgg_some_keys h
  rw [hgi] at hgi'
  cases hgi'
  rw [specAgg_groups' hgi hks hz] at h
  have hcell : ∀ r ∈ src, ∀ d ∈ q.list, ∃ v, aggVal d.item fields
      (src.filter fun r' => keyAt idxs (projRow q.list fields r') ==
        keyAt idxs (projRow q.list fields r)) = some v := by
    intro r hr d hd
    have hk : keyAt idxs (projRow q.list fields r) ∈
        distinctKeys (src.map fun r => keyAt idxs (projRow q.list fields r)) := by
      unfold distinctKeys
      rw [List.mem_eraseDups]
      exact List.mem_map.2 ⟨r, hr, rfl⟩
    obtain ⟨row, hrow⟩ := mapM_some_forall h _ hk
    exact mapM_some_forall hrow d hd
  have hself : ∀ r ∈ src, r ∈ src.filter fun r' => keyAt idxs (projRow q.list fields r') ==
      keyAt idxs (projRow q.list fields r) :=
    fun r hr => List.mem_filter.2 ⟨hr, beq_self_eq_true _⟩
  constructor
  · intro r hr d hd
    obtain ⟨v, hv⟩ := hcell r hr d hd
    obtain ⟨w, hw, _⟩ := itemVal_of_aggVal (hself r hr) (hres d hd) (hlen r hr) hv
    simp only [pv, hw, Option.getD_some]
  · intro d hd h1 h2 r hr r' hr' hk
    obtain ⟨v, hv⟩ := hcell r hr d hd
    obtain ⟨w, hw, hwv⟩ := itemVal_of_aggVal (hself r hr) (hres d hd) (hlen r hr) hv
    have hr'g : r' ∈ src.filter fun r'' => keyAt idxs (projRow q.list fields r'') ==
        keyAt idxs (projRow q.list fields r) :=
      List.mem_filter.2 ⟨hr', by rw [hk]; exact beq_self_eq_true _⟩
    obtain ⟨w', hw', hwv'⟩ := itemVal_of_aggVal hr'g (hres d hd) (hlen r' hr') hv
    simp only [pv, hw, hw', Option.getD_some]
    rw [hwv h1 h2, hwv' h1 h2]

/-! ### when is everything but the COUNTs constant on each group? -/

/-- every select-list element is a COUNT, a literal, or the column a GROUP BY reference designates -/
def groupedItems (sl : List DerivedCol) (idxs : List Nat) : Bool :=
  (List.range sl.length).all fun i => match sl[i]? with
    | some d => (match d.item with
        | .count _ => true
        | .expr (.val (.lit _)) => true
        | _ => idxs.contains i)
    | none => true

theorem keyAt_eq_at {idxs : List Nat} {pr pr' : Row} (h : keyAt idxs pr = keyAt idxs pr') {i : Nat}
    (hi : i ∈ idxs) : (pr[i]?).getD .null = (pr'[i]?).getD .null := by
  unfold keyAt at h
  exact List.map_inj_left.1 h i hi

/-- a select list of COUNTs, literals and GROUP BY columns is constant on each group but for the
COUNTs -/
theorem groupConst_of_grouped {sl : List DerivedCol} {idxs : List Nat}
    (h : groupedItems sl idxs = true) (fields : List Field) (src : List Row) :
    GroupConst sl fields (keyAt idxs) src := by
  intro d hd hcnt r _ r' _ hk
  obtain ⟨i, hi, hget⟩ := List.mem_iff_getElem.1 hd
  have hget' : sl[i]? = some d := by rw [List.getElem?_eq_getElem hi, hget]
  unfold groupedItems at h
  rw [List.all_eq_true] at h
  have hdi := h i (List.mem_range.2 hi)
  rw [hget'] at hdi
  dsimp only at hdi
  have hkey : idxs.contains i = true → pv fields d r = pv fields d r' := by
    intro hc
    have hmem : i ∈ idxs := by simpa using hc
    have := keyAt_eq_at hk hmem
    rw [projRow_getElem? hget', projRow_getElem? hget'] at this
    exact this
  cases hitem : d.item with
  | count c => exact absurd hitem (hcnt c)
  | star => rw [hitem] at hdi; exact hkey hdi
  | avg c => rw [hitem] at hdi; exact hkey hdi
  | expr e =>
    rw [hitem] at hdi
    cases e with
    | val w =>
      cases w with
      | lit l => simp only [pv, hitem]; rfl
      | col c => exact hkey hdi
    | pred p => exact hkey hdi
    | and p r => exact hkey hdi
    | or l r => exact hkey hdi

end Mkdb.Exec.MeaningP
