import Mkdb.Proofs.Console
import Mkdb.Proofs.TextStmt3
/-!
# From keystrokes to the parsed statement (C20 and C10 composed), part 1: the two alphabets

The console model (`Model/Console.lean`) works on key codes (`Nat`), the scanner model
(`Model/Scan.lean`) on `Rune`s.  In the program the console hands each submitted statement to
`engine.Session.ExecQuery` as a Go string (`cmd/console/main.go`), the scanner decodes that string
into runes.  For ASCII key codes the decoded rune of the key `c` is `asciiRune c`: `runesOfKeys`.
The composition is for ASCII text, which is what `renderText` writes (literals and names outside ASCII
are covered by C20 and by C10 separately, each in its own alphabet).

Here: a written token (`Piece`) of ASCII runes, read as key codes by the console's quote automaton,
leaves the automaton where it was (outside quotes) and ends no statement, unless it is the `;`
itself - in particular for a string literal `'body'` whose body the SCANNER reads up to the closing
quote (`strBodyOK`, with all the escape handling of `scanString`), the CONSOLE sees the literal end at
the same quote (`scanStr_sim`): the two quote trackers agree on every literal `TextOK` accepts.
-/
namespace Mkdb.Console
open Mkdb.Scan Mkdb.Generated

/-- The runes the scanner reads from a submitted statement of ASCII key codes: the engine gets the
submission as a Go string, the scanner decodes it; the rune of the ASCII key `c` is `asciiRune c`. -/
def runesOfKeys (ks : List Nat) : Input := ks.map asciiRune

/-- The key codes that type a text: one key per rune, the rune's code point. -/
def keysOfRunes (rs : Input) : List Nat := rs.map (·.code)

theorem keysOfRunes_append (a b : Input) : keysOfRunes (a ++ b) = keysOfRunes a ++ keysOfRunes b := by
  simp [keysOfRunes]

/-- the two are inverse on texts of ASCII runes -/
theorem runesOfKeys_keysOfRunes (rs : Input) (h : ∀ r ∈ rs, r = asciiRune r.code) :
    runesOfKeys (keysOfRunes rs) = rs := by
  induction rs with
  | nil => rfl
  | cons r rs ih =>
    simp only [runesOfKeys, keysOfRunes, List.map_cons, List.map_map] at ih ⊢
    rw [ih (fun x hx => h x (List.mem_cons_of_mem _ hx)), ← h r List.mem_cons_self]

theorem keysOfRunes_runesOfKeys (ks : List Nat) : keysOfRunes (runesOfKeys ks) = ks := by
  induction ks with
  | nil => rfl
  | cons k ks ih =>
    simp only [runesOfKeys, keysOfRunes, List.map_cons, List.map_map] at ih ⊢
    rw [ih]; rfl

/-! ## Stretches of keys that leave the quote automaton outside quotes and end no statement -/

/-- scanned from outside quotes, `l` ends no statement and ends outside quotes -/
def Neutral (l : List Nat) : Prop := noEnd .top l = true ∧ qrun .top l = .top

theorem qrun_append (q : Q) (a b : List Nat) : qrun q (a ++ b) = qrun (qrun q a) b := by
  simp only [qrun, List.foldl_append]

theorem noEnd_append : ∀ (a : List Nat) (q : Q) (b : List Nat),
    noEnd q (a ++ b) = (noEnd q a && noEnd (qrun q a) b)
  | [], q, b => by simp [noEnd, qrun]
  | r :: a, q, b => by
    simp only [List.cons_append, noEnd, qrun_cons, noEnd_append a, Bool.and_assoc]

theorem Neutral.nil : Neutral [] := ⟨rfl, rfl⟩

theorem Neutral.append {a b : List Nat} (ha : Neutral a) (hb : Neutral b) : Neutral (a ++ b) := by
  refine ⟨?_, ?_⟩
  · rw [noEnd_append, ha.1, ha.2, hb.1]; rfl
  · rw [qrun_append, ha.2, hb.2]

theorem Neutral.of_blank {w : List Nat} (hw : Blank w) : Neutral w := ⟨noEnd_blank hw, qrun_blank hw⟩

/-- a key that is no quote and no semicolon -/
def plainKey (c : Nat) : Bool := !(c == 39 || c == 34 || c == 96 || c == 59)

theorem qstep_top_plain {c : Nat} (h : plainKey c = true) : qstep .top c = (.top, false) := by
  simp only [plainKey, Bool.not_eq_true', Bool.or_eq_false_iff, beq_eq_false_iff_ne] at h
  simp [qstep, h.1.1.1, h.1.1.2, h.1.2, h.2]

theorem Neutral.of_plain {l : List Nat} (h : ∀ c ∈ l, plainKey c = true) : Neutral l := by
  induction l with
  | nil => exact Neutral.nil
  | cons c l ih =>
    have hc := qstep_top_plain (h c List.mem_cons_self)
    obtain ⟨i1, i2⟩ := ih (fun x hx => h x (List.mem_cons_of_mem _ hx))
    refine ⟨?_, ?_⟩
    · simp only [noEnd, hc, Bool.not_false, Bool.true_and]; exact i1
    · rw [qrun_cons, hc]; exact i2

/-! ## A string literal: the scanner's and the console's quote tracking agree -/

/-- the console's quote state that corresponds to a state of `scanString` inside `'...'` -/
def projQ : SState → Q
  | .normal => .inq 39
  | .afterBackslash => .esc 39
  | .escDigits _ _ => .inq 39

/-- the escape bases `scanEscape` uses are at most 16 (so a quote or backslash is never a digit) -/
def goodS : SState → Prop
  | .escDigits _ b => b ≤ 16
  | _ => True

theorem projQ_ne_top (s : SState) : (qstep (projQ s) c).2 = false := by
  cases s <;> simp only [projQ] <;> first | exact (C20_semicolon_in_quote_aux 39 c).1 | exact (C20_semicolon_in_quote_aux 39 c).2
where
  C20_semicolon_in_quote_aux (q0 r : Nat) : (qstep (.inq q0) r).2 = false ∧ (qstep (.esc q0) r).2 = false := by
    constructor
    · simp only [qstep]; split <;> (try split) <;> rfl
    · rfl

theorem digitVal_quote : digitVal 39 = 16 ∧ digitVal 92 = 16 := by decide

/-- One rune of `scanString`: either it stops at this rune (closing quote, line feed), or it goes on in
a state that corresponds to the console's next quote state. -/
theorem scanStr_step (s : SState) (hs : goodS s) (a : Rune) (rest : Input) :
    (∃ b, scanStringBody 39 s (a :: rest) = (b, a :: rest)) ∨
    (∃ s', scanStringBody 39 s (a :: rest) = scanStringBody 39 s' rest ∧ goodS s' ∧
      projQ s' = (qstep (projQ s) a.code).1) := by
  cases s with
  | normal =>
    simp only [scanStringBody]
    by_cases h1 : (a.code == 39) = true
    · left; exact ⟨true, by simp only [h1, ↓reduceIte]⟩
    · by_cases h2 : (a.code == 10) = true
      · left; exact ⟨false, by simp only [h1, h2, Bool.false_eq_true, ↓reduceIte]⟩
      · by_cases h3 : (a.code == 92) = true
        · right
          refine ⟨.afterBackslash, by simp only [h1, h2, h3, Bool.false_eq_true, ↓reduceIte], trivial, ?_⟩
          have : a.code = 92 := by simpa using h3
          simp [projQ, qstep, this]
        · right
          refine ⟨.normal, by simp only [h1, h2, h3, Bool.false_eq_true, ↓reduceIte], trivial, ?_⟩
          simp only [Bool.not_eq_true] at h1 h3
          simp [projQ, qstep, h1, h3]
  | afterBackslash =>
    have hq : ∀ c, (qstep (.esc 39) c).1 = .inq 39 := fun _ => rfl
    simp only [scanStringBody, projQ, hq]
    split
    · right; exact ⟨.normal, rfl, trivial, rfl⟩
    · rename_i hc
      split
      · right; exact ⟨.escDigits 2 8, rfl, by simp [goodS], rfl⟩
      · split
        · right; exact ⟨.escDigits 2 16, rfl, by simp [goodS], rfl⟩
        · split
          · right; exact ⟨.escDigits 4 16, rfl, by simp [goodS], rfl⟩
          · split
            · right; exact ⟨.escDigits 8 16, rfl, by simp [goodS], rfl⟩
            · split
              · left; exact ⟨true, rfl⟩
              · split
                · left; exact ⟨false, rfl⟩
                · split
                  · rename_i h92
                    exfalso
                    apply hc
                    simp only [Bool.or_eq_true]
                    exact Or.inl (Or.inr h92)
                  · right; exact ⟨.normal, rfl, trivial, rfl⟩
  | escDigits n base =>
    simp only [goodS] at hs
    simp only [scanStringBody]
    split
    · rename_i hd
      right
      refine ⟨.escDigits (n - 1) base, rfl, hs, ?_⟩
      simp only [Bool.and_eq_true, decide_eq_true_eq] at hd
      have h39 : a.code ≠ 39 := by
        intro e; rw [e, digitVal_quote.1] at hd; omega
      have h92 : a.code ≠ 92 := by
        intro e; rw [e, digitVal_quote.2] at hd; omega
      simp [projQ, qstep, h39, h92]
    · by_cases h1 : (a.code == 39) = true
      · left; exact ⟨true, by simp only [h1, ↓reduceIte]⟩
      · by_cases h2 : (a.code == 10) = true
        · left; exact ⟨false, by simp only [h1, h2, Bool.false_eq_true, ↓reduceIte]⟩
        · by_cases h3 : (a.code == 92) = true
          · right
            refine ⟨.afterBackslash, by simp only [h1, h2, h3, Bool.false_eq_true, ↓reduceIte], trivial, ?_⟩
            have : a.code = 92 := by simpa using h3
            simp [projQ, qstep, this]
          · right
            refine ⟨.normal, by simp only [h1, h2, h3, Bool.false_eq_true, ↓reduceIte], trivial, ?_⟩
            simp only [Bool.not_eq_true] at h1 h3
            simp [projQ, qstep, h1, h3]

/-- **The scanner and the console agree on where a literal ends.**  If `scanString`, started in the
state `s` inside a `'...'` literal, reads `body` and stops at the quote `c` written behind it, then
the console's quote automaton, started in the corresponding state, is still inside the literal after
`body` (so that `c` closes it), and ended no statement on the way. -/
theorem scanStr_sim (c : Rune) (hc : c.code = 39) : ∀ (body : Input) (s : SState), goodS s →
    scanStringBody 39 s (body ++ [c]) = (true, [c]) →
    noEnd (projQ s) (keysOfRunes body) = true ∧ qrun (projQ s) (keysOfRunes body) = .inq 39
  | [], s, _, h => by
    cases s with
    | normal => exact ⟨rfl, rfl⟩
    | escDigits n b => exact ⟨rfl, rfl⟩
    | afterBackslash =>
      exfalso
      have h39 : (c.code == 39) = true := by simp [hc]
      simp [scanStringBody, h39] at h
  | a :: body, s, hs, h => by
    rcases scanStr_step s hs a (body ++ [c]) with ⟨b, hb⟩ | ⟨s', hs', hg, hp⟩
    · exfalso
      rw [List.cons_append, hb] at h
      have := congrArg (fun p => p.2.length) h
      simp at this
    · rw [List.cons_append, hs'] at h
      obtain ⟨i1, i2⟩ := scanStr_sim c hc body s' hg h
      have hk : keysOfRunes (a :: body) = a.code :: keysOfRunes body := rfl
      rw [hk]
      refine ⟨?_, ?_⟩
      · simp only [noEnd, projQ_ne_top, Bool.not_false, Bool.true_and]
        rw [← hp]; exact i1
      · rw [qrun_cons, ← hp]; exact i2

/-- a literal `'body'` the scanner accepts is quote-neutral for the console -/
theorem neutral_str (body : Input) (h : strBodyOK body = true) :
    Neutral (39 :: keysOfRunes body ++ [39]) := by
  simp only [strBodyOK, Bool.and_eq_true, decide_eq_true_eq] at h
  obtain ⟨i1, i2⟩ := scanStr_sim (asciiRune 39) rfl body .normal trivial h.1
  have h0 : qstep .top 39 = (.inq 39, false) := by decide
  have h1 : qstep (.inq 39) 39 = (.top, false) := by decide
  have hl : (39 :: keysOfRunes body ++ [39] : List Nat) = [39] ++ (keysOfRunes body ++ [39]) := rfl
  refine ⟨?_, ?_⟩
  · rw [hl, noEnd_append, noEnd_append]
    simp only [noEnd, qrun_cons, h0, Bool.not_false, Bool.true_and, Bool.and_true]
    simp only [qrun, List.foldl_nil]
    change (noEnd (projQ .normal) (keysOfRunes body) && !(qstep (qrun (projQ .normal) (keysOfRunes body)) 39).2) = true
    rw [i1, i2, h1]; rfl
  · rw [hl, qrun_append, qrun_append]
    simp only [qrun_cons, h0]
    simp only [qrun, List.foldl_nil]
    change (qstep (qrun (projQ .normal) (keysOfRunes body)) 39).1 = .top
    rw [i2, h1]

end Mkdb.Console
