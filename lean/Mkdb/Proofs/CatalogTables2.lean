import Mkdb.Proofs.CatalogTables1
import Mkdb.Proofs.PtSelfFree1
import Mkdb.Proofs.BaseCase2
/-!
C18, the two catalog tables, part 2 (W15): **every statement keeps `CatSelf`.**

* `catSelf_new`, `catSelf_tableDB`: the database `CREATE DATABASE` leaves, and the computed database
  `CREATE DATABASE; CREATE TABLE t (a INT)`, satisfy `CatSelf`.
* `live_run_self`: a live run of row operations (INSERT / UPDATE / DELETE on user tables; the page table
  changes only by re-pointing the row of a user table whose root moved) keeps the self-row; `sys_schema` is
  not touched at all.
* `CatSelf.createTable_body`: the body of CREATE TABLE (one new page-table row - which may split the page
  table: the leftmost leaf stays the leftmost leaf - then re-pointings of the `sys_schema` row; new
  `sys_schema` rows under the new table's name only) keeps `CatSelf`.
* `SelfOK db`: `CatSelf` under whatever catalog description the store has (the store determines it:
  `Cat.pt_unique`, `Cat.sch_unique`) - the form that can be carried through theorems that return "some
  catalog description".
* **`evalStmt_keeps_self`**: under the invariant `DbInv` and the side conditions of
  `evalStmt_keeps_inv`, the database a statement returns - accepted or refused - satisfies `SelfOK`.
* `SelfOK.flush`, `SelfOK.reopen`: so do the flushed and the re-opened database.
-/
set_option autoImplicit false
namespace Mkdb.Store
open Mkdb.Page Mkdb.Tuple Mkdb.Generated Mkdb.Tree Mkdb.Engine

/-! ### the base cases -/

theorem sysPages_ne_sysSchema : sysPages ≠ sysSchema := by
  rw [sysPages_eq, sysSchema_eq]; decide

/-- the catalog `CREATE DATABASE` writes describes itself -/
theorem catSelf_new : CatSelf ptNew schNew :=
  ⟨by rw [ptNew_entries]; exact List.mem_cons_self, schNew_describes_catalog.1, schNew_describes_catalog.2⟩

/-- so does the catalog of the computed database `CREATE DATABASE; CREATE TABLE t (a INT)` -/
theorem catSelf_tableDB : CatSelf ptT schT :=
  ⟨by rw [ptT_entries]; exact List.mem_cons_self, by decide +kernel, by decide +kernel⟩

/-! ### row statements -/

theorem repoint_other {name : Bytes} {r : Nat} {e : Bytes × Nat} (h : e.1 ≠ name) : repoint name r e = e := by
  unfold repoint
  rw [if_neg h]

/-- **A live run of row operations keeps the self-row of the page table**: the only change a row
statement makes to the page table is the re-pointing of the row of the user table whose root moved
(`setVal`: same leaves, same offsets, the rows of other names untouched). -/
theorem live_run_self (sch : Levels) {s0 sN : Store} {tbls tblsN : List (Bytes × Levels)} {stmts : List RStmt}
    {logs : List WalRec} (run : LiveRunM sch s0 tbls stmts sN tblsN logs) :
    ∀ (pt : Levels), Cat s0 pt sch tbls → (sysPages, firstLeafOff pt) ∈ ptEntries pt →
      ∃ ptN, Cat sN ptN sch tblsN ∧ (sysPages, firstLeafOff ptN) ∈ ptEntries ptN := by
  induction run with
  | nil s tbls => intro pt h ho; exact ⟨pt, h, ho⟩
  | @same s s1 s2 tbls tbls2 stmts logs hs _ ih => intro pt h ho; exact ih pt (h.of_same hs) ho
  | @ins s s1 s2 tbls tbls2 rest logs logs2 table cols vals t schema buf t' nf' ht hsch hcols hnames henc hlen hins
      hd' hl' hbig hrun _ ih =>
    intro pt h ho
    obtain ⟨s', ptF, logs', erun, hc', _, _, hcase⟩ := insert_refines' s pt sch tbls h table t ht cols vals
      schema buf hsch hcols hnames henc hlen t' nf' hins hd' hl' hbig
    rw [hrun] at erun
    simp only [SRes.ok.injEq] at erun
    obtain ⟨_, rfl⟩ := erun
    refine ih ptF hc' ?_
    rcases hcase with ⟨_, rfl, _⟩ | ⟨_, _, a, p, hal, hpa, _, _, rfl, _⟩
    · exact ho
    · obtain ⟨_, hIpt, _, _, _⟩ := h.tree pt Cat.pt_mem
      obtain ⟨_, hIt, _, _, _⟩ := h.tree t (Cat.tb_mem ht)
      have hIt' : Inv t' nf' := insertAppend_inv t t' _ _ _ nf' buf hIt hins
      have hlt : rootOff t' < nf' := hIt'.offs.2 _ (rootOff_mem_offs t' nf' hIt')
      have hbig' : ((rootOff t' : Nat) : Int) ≤ 9223372036854775807 := by omega
      have hent := (ptEntries_setVal_row pt _ hIpt h.names a hal table (rootOff t) (rootOff t') (s.hdr.nextLSN + 1)
        hpa (h.tlen (table, t) ht) hbig').1
      rw [firstLeafOff_setVal, hent]
      refine List.mem_map.mpr ⟨_, ho, repoint_other ?_⟩
      intro heq
      exact h.tsys.1 (List.mem_map.mpr ⟨(table, t), ht, heq.symm⟩)
  | @upd s s1 s2 tbls tbls2 rest logs logs2 table rowId cols src t schema c m buf ht hsch hc hk hdec henc hlen
      hrun _ ih =>
    intro pt h ho
    obtain ⟨s', l, d, _, _, erun, hc', _⟩ := update_cat h table t ht schema hsch rowId cols src
      (update_ok_names h ht hsch hrun) c hc hk
      m buf hdec henc hlen
    rw [hrun] at erun
    simp only [SRes.ok.injEq] at erun
    obtain ⟨_, rfl⟩ := erun
    exact ih pt hc' ho
  | @updAbsent s s1 s2 tbls tbls2 rest logs logs2 table rowId cols src t schema ht hsch habs hrun _ ih =>
    intro pt h ho
    obtain ⟨s', erun, hs, hc'⟩ := update_cat_absent h table t ht schema hsch rowId cols src
      (update_ok_names h ht hsch hrun) habs
    rw [hrun] at erun
    simp only [SRes.ok.injEq] at erun
    obtain ⟨_, rfl⟩ := erun
    exact ih pt hc' ho
  | @del s s1 s2 tbls tbls2 rest logs logs2 table rowId t c ht hc hk hrun _ ih =>
    intro pt h ho
    obtain ⟨s', l, d, _, _, erun, hc', _⟩ := markDeleted_cat h table t ht rowId c hc hk
    rw [hrun] at erun
    simp only [SRes.ok.injEq] at erun
    obtain ⟨_, rfl⟩ := erun
    exact ih pt hc' ho

/-! ### CREATE TABLE -/

theorem insertAppend_leaves_ne {t t' : Levels} {k lsn nf nf' : Nat} {v : Bytes}
    (h : insertAppend t k lsn v nf = .ok (t', nf')) : t'.leaves ≠ [] := by
  obtain ⟨pre, last, d, _, _, _, hc⟩ := insertAppend_inv_cases h
  rcases hc with ⟨_, rfl, _⟩ | ⟨_, rfl, _⟩ <;> simp

/-- **The body of CREATE TABLE keeps `CatSelf`** (the facts about the new catalog trees are those
`createTable_cat_core` returns): the new row of the page table is appended - if that splits the leftmost
leaf, its left half keeps the offset -, then only the `sys_schema` row is re-pointed; the new rows of
`sys_schema` carry the new table's name. -/
theorem CatSelf.createTable_body {pt sch pt1 pt' sch' : Levels} {k lsn nf nf1 off r : Nat} {v : Bytes} {name : Bytes}
    (h : CatSelf pt sch) (hins : insertAppend pt k lsn v nf = .ok (pt1, nf1)) (hsame : PtSame pt1 pt')
    (hent : ptEntries pt' = (ptEntries pt ++ [(name, off)]).map (repoint sysSchema r))
    (hso : ∀ n, n ≠ name → schemaOf sch' n = schemaOf sch n) (hn1 : name ≠ sysPages) (hn2 : name ≠ sysSchema) :
    CatSelf pt' sch' := by
  refine ⟨?_, by rw [hso _ (Ne.symm hn1)]; exact h.schP, by rw [hso _ (Ne.symm hn2)]; exact h.schS⟩
  rw [firstLeafOff_ptSame hsame (insertAppend_leaves_ne hins), firstLeafOff_insertAppend hins, hent]
  exact List.mem_map.mpr ⟨_, List.mem_append_left _ h.self, repoint_other sysPages_ne_sysSchema⟩

/-! ### the store-level form -/

/-- **The catalog of the database describes itself** - under whatever catalog description the store has
(there is at most one page table and one `sys_schema` tree: `Cat.pt_unique`, `Cat.sch_unique`). -/
def SelfOK (db : Engine.DB) : Prop :=
  ∀ (pt sch : Levels) (tbls : List (Bytes × Levels)), Cat db.store pt sch tbls → CatSelf pt sch

theorem SelfOK.of_cat {db : Engine.DB} {pt sch : Levels} {tbls : List (Bytes × Levels)}
    (hc : Cat db.store pt sch tbls) (hs : CatSelf pt sch) : SelfOK db := by
  intro pt2 sch2 tbls2 h2
  have e1 : pt = pt2 := hc.pt_unique h2
  have e2 : sch = sch2 := hc.sch_unique h2
  subst e1
  subst e2
  exact hs

theorem SelfOK.of_absV {db : Engine.DB} {sdb : Spec.SDB} {pt sch : Levels} {tbls : List (Bytes × Levels)}
    (h : AbsV db.store pt sch tbls sdb) (hs : CatSelf pt sch) : SelfOK db := by
  obtain ⟨_, habs, _⟩ := h
  exact SelfOK.of_cat habs.cat hs

theorem SelfOK.catSelf {db : Engine.DB} {sdb : Spec.SDB} {pt sch : Levels} {tbls : List (Bytes × Levels)}
    (h : SelfOK db) (hi : DbInv db sdb pt sch tbls) : CatSelf pt sch := by
  obtain ⟨_, habs, _⟩ := hi.abs
  exact h pt sch tbls habs.cat

theorem selfOK_newDB : SelfOK newDB := SelfOK.of_cat cat_newDB catSelf_new
theorem selfOK_tableDB : SelfOK tableDB := SelfOK.of_cat cat_tableDB catSelf_tableDB

/-- the flushed database (the session's close) -/
theorem SelfOK.flush {db db' : Engine.DB} {sdb : Spec.SDB} {pt sch : Levels} {tbls : List (Bytes × Levels)}
    (h : SelfOK db) (hi : DbInv db sdb pt sch tbls) {order : List Nat} (e : Engine.flush db order = .ok () db') :
    SelfOK db' := by
  obtain ⟨db1, e1, _, hk⟩ := hi.flush order
  rw [e] at e1
  simp only [Engine.Res.ok.injEq, true_and] at e1
  subst e1
  exact SelfOK.of_absV hk.inv.abs (h.catSelf hi).clean

/-- the re-opened data file of a closed database -/
theorem SelfOK.reopen {db : Engine.DB} {sdb : Spec.SDB} {pt sch : Levels} {tbls : List (Bytes × Levels)}
    (h : SelfOK db) (hk : DbFlushed db sdb pt sch tbls) : SelfOK { db with store := Store.reopen db.store } :=
  SelfOK.of_absV hk.reopen.inv.abs (h.catSelf hk.inv)

/-- start-up recovery of a closed database -/
theorem SelfOK.recover {db db' : Engine.DB} {sdb : Spec.SDB} {pt sch : Levels} {tbls : List (Bytes × Levels)}
    (h : SelfOK db) (hk : DbFlushed db sdb pt sch tbls) {o1 o2 : List Nat} (e : Engine.recover db o1 o2 = .ok db') :
    SelfOK db' := by
  obtain ⟨db1, e1, _, hk'⟩ := hk.recover o1 o2
  rw [e] at e1
  cases e1
  exact SelfOK.of_absV hk'.inv.abs (h.catSelf hk.inv)

/-! ### every statement -/

/-- whatever database the result carries - accepted or refused - satisfies `SelfOK` -/
def KeepsSelf (r : Engine.Res Unit) : Prop :=
  ∀ db', (r = .ok () db' ∨ ∃ e, r = .err e db') → SelfOK db'

theorem KeepsSelf.ok {db0 : Engine.DB} (h : SelfOK db0) : KeepsSelf (.ok () db0) := by
  intro db' hr
  rcases hr with hr | ⟨e, hr⟩
  · cases hr; exact h
  · cases hr

theorem KeepsSelf.err {db0 : Engine.DB} {e0 : Engine.StmtErr} (h : SelfOK db0) : KeepsSelf (.err e0 db0) := by
  intro db' hr
  rcases hr with hr | ⟨e, hr⟩
  · cases hr
  · cases hr; exact h

/-- the database a `RowEffect` ends in -/
theorem RowEffect.selfOK {sch : Levels} {db db' : Engine.DB} {pt : Levels} {tbls : List (Bytes × Levels)}
    (hc : Cat db.store pt sch tbls) (hs : CatSelf pt sch) (he : RowEffect sch db tbls db') : SelfOK db' := by
  obtain ⟨s1, ptN, tblsN, stmtsM, logs, sdbN, hrun, habs1, habs', _⟩ := he
  obtain ⟨ptN', hcN, hself⟩ := live_run_self sch hrun pt hc hs.self
  have e : ptN' = ptN := hcN.pt_unique habs1.cat
  subst e
  exact SelfOK.of_cat habs'.cat ⟨hself, hs.schP, hs.schS⟩

theorem KeepsSelf.of_effect {α} {sch : Levels} {db : Engine.DB} {pt : Levels} {tbls : List (Bytes × Levels)}
    (hc : Cat db.store pt sch tbls) (hs : CatSelf pt sch) {r : Engine.Res α} (he : ResEffect sch db tbls r) :
    KeepsSelf (voidRes r) := by
  cases r with
  | ok a db0 => exact KeepsSelf.ok (RowEffect.selfOK hc hs he)
  | err e db0 => exact KeepsSelf.err (RowEffect.selfOK hc hs he)
  | panic p => exact he.elim
  | unmodelled w => exact he.elim
  | fuel => exact he.elim

/-- **An accepted CREATE TABLE keeps `SelfOK`** (from the abstraction and a filed cache alone). -/
theorem createTable_ok_self_abs {db : Engine.DB} {sdb : Spec.SDB} {pt sch : Levels} {tbls : List (Bytes × Levels)}
    (habsV : AbsV db.store pt sch tbls sdb) (hmf : MemFiled db.store) (hs : CatSelf pt sch) (name : Bytes)
    (cols : List Sql.ColDef) (order : List Nat)
    (hfind : Spec.findTable sdb name = none) (hn1 : name ≠ sysPages) (hn2 : name ≠ sysSchema)
    (hfld : checkFieldsFrom [] (cols.map Engine.colTypeToField) = none)
    (hchk : checkCatalogRows (cols.map Engine.colTypeToField) name = none)
    (hpd : pt.inner.length + 3 ≤ treeFuel) (hpl : pt.leaves.length + 1 ≤ scanFuel)
    (hsd : sch.inner.length + cols.length + 2 ≤ treeFuel) (hsl : sch.leaves.length + cols.length ≤ scanFuel)
    (hbig : db.store.hdr.nextFree + 262144 * cols.length + 262144 ≤ 9223372036854775807) :
    KeepsSelf (Engine.evalCreateTable db name cols order true) := by
  obtain ⟨sdb0, habs0, hv⟩ := habsV
  have hfind0 : Spec.findTable sdb0 name = none := (findTable_none_congr hv name).mpr hfind
  have hn3 : name ∉ tbls.map (·.1) := findTable_none_notin habs0.tabs habs0.cat.tnames hfind0
  have hlen : (cols.map Engine.colTypeToField).length = cols.length := List.length_map _
  obtain ⟨sN, pt1, nf1, ptN, schN, hrun, hcN, hins, hsame, _, hent, _, _, hso2, _⟩ :=
    createTable_cat_core habs0.cat (cols.map Engine.colTypeToField) name order hn1 hn2 hn3 hfld hchk hpd hpl
      (by rw [hlen]; exact hsd) (by rw [hlen]; exact hsl) (by rw [hlen]; exact hbig)
  have hsN : CatSelf ptN schN := hs.createTable_body hins hsame hent hso2 hn1 hn2
  have erun : createTable (cols.map Engine.colTypeToField) name order false db.store = .ok () sN := hrun false
  have hmfN : MemFiled sN := createTable_memFiled hmf erun
  obtain ⟨s', ef, hc', _⟩ := flushPages_cat order hcN hmfN
  have e_t : createTable (cols.map Engine.colTypeToField) name order true db.store = .ok () s' := by
    rw [hrun true]; exact ef
  have heval : Engine.evalCreateTable db name cols order true = .ok () { db with store := s' } := by
    simp only [Engine.evalCreateTable, Engine.liftS, e_t]
  rw [heval]
  exact KeepsSelf.ok (SelfOK.of_cat (db := { db with store := s' }) hc' hsN.clean)

/-- **An accepted CREATE TABLE keeps `SelfOK`** (hypotheses of `DbInv.createTable_ok`). -/
theorem createTable_ok_self {db : Engine.DB} {sdb : Spec.SDB} {pt sch : Levels} {tbls : List (Bytes × Levels)}
    (h : DbInv db sdb pt sch tbls) (hs : CatSelf pt sch) (name : Bytes) (cols : List Sql.ColDef) (order : List Nat)
    (hfind : Spec.findTable sdb name = none) (hn1 : name ≠ sysPages) (hn2 : name ≠ sysSchema)
    (hfld : checkFieldsFrom [] (cols.map Engine.colTypeToField) = none)
    (hchk : checkCatalogRows (cols.map Engine.colTypeToField) name = none)
    (hpd : pt.inner.length + 3 ≤ treeFuel) (hpl : pt.leaves.length + 1 ≤ scanFuel)
    (hsd : sch.inner.length + cols.length + 2 ≤ treeFuel) (hsl : sch.leaves.length + cols.length ≤ scanFuel)
    (hbig : db.store.hdr.nextFree + 262144 * cols.length + 262144 ≤ 9223372036854775807) :
    KeepsSelf (Engine.evalCreateTable db name cols order true) :=
  createTable_ok_self_abs h.abs h.filed hs name cols order hfind hn1 hn2 hfld hchk hpd hpl hsd hsl hbig

/-- **Every statement keeps `SelfOK`, whatever its outcome** (hypotheses of `evalStmt_keeps_inv`): the
database a CREATE TABLE / INSERT / UPDATE / DELETE returns - accepted, refused before a change, or refused
at a later row - has a catalog that describes itself; the other statement kinds change no database. -/
theorem evalStmt_keeps_self (db : Engine.DB) (order : List Nat) (sdb : Spec.SDB) (pt sch : Levels)
    (tbls : List (Bytes × Levels)) (h : DbInv db sdb pt sch tbls) (hs : CatSelf pt sch) (st : Sql.Stmt)
    (hnames : StmtNames pt tbls st) (hroom : StmtRoomT db pt sch tbls st) (hlits : StmtLits st) :
    KeepsSelf (evalStmt db order st) := by
  obtain ⟨sdb0, habs0, hv⟩ := h.abs
  have hkeep : KeepsSelf (.ok () db) := KeepsSelf.ok (SelfOK.of_cat habs0.cat hs)
  cases st with
  | insert t cols rows =>
    exact KeepsSelf.of_effect habs0.cat hs
      (evalInsert_effect db pt sch tbls sdb0 habs0 t cols _ (litRows_valid rows hroom.1) hnames hroom.2)
  | update t sets w =>
    have := KeepsSelf.of_effect habs0.cat hs (evalUpdate_effect db pt sch tbls sdb0 habs0 t sets w hlits hnames)
    rw [voidRes_unit] at this
    exact this
  | delete t w =>
    exact KeepsSelf.of_effect habs0.cat hs (evalDelete_effect db pt sch tbls sdb0 habs0 t w hnames)
  | createDatabase n => exact hkeep
  | select s => exact hkeep
  | use d => exact hkeep
  | showDatabases => exact hkeep
  | createTable n cols =>
    obtain ⟨hpd, hpl, hsd, hsl, hbig⟩ := hroom
    have hrefused : ∀ e db', Engine.evalCreateTable db n cols order true = .err (.store e) db' →
        AbsV db'.store pt sch tbls sdb → KeepsSelf (evalStmt db order (.createTable n cols)) := by
      intro e db' he ha
      show KeepsSelf (Engine.evalCreateTable db n cols order true)
      rw [he]
      exact KeepsSelf.err (SelfOK.of_absV ha hs)
    by_cases hex : (Spec.findTable sdb n).isSome
    · obtain ⟨_, e, db', he, _, _, _, ha⟩ := evalCreateTable_refused_specV db pt sch tbls sdb h.abs n cols order true
        (.exists_ hex)
      exact hrefused e db' he ha
    · have hfind : Spec.findTable sdb n = none := by
        cases hf : Spec.findTable sdb n with
        | none => rfl
        | some x => rw [hf] at hex; exact absurd rfl hex
      by_cases hs2 : n = sysSchema
      · obtain ⟨_, e, db', he, _, _, _, ha⟩ := evalCreateTable_refused_specV db pt sch tbls sdb h.abs n cols order true
          (.sysSchema hs2)
        exact hrefused e db' he ha
      · by_cases hs1 : n = sysPages
        · obtain ⟨off, hoff⟩ := hnames hs1
          obtain ⟨_, e, db', he, _, _, _, ha⟩ := evalCreateTable_refused_specV db pt sch tbls sdb h.abs n cols order
            true (.sysPages off hs1 hoff)
          exact hrefused e db' he ha
        · cases hfld : checkFieldsFrom [] (cols.map Engine.colTypeToField) with
          | some x =>
            obtain ⟨e, db', he, _, _, ha⟩ := evalCreateTable_catalog_refused db pt sch tbls sdb h.abs n cols order true
              hfind hs1 hs2 (.inr (.inl ⟨x, hfld⟩))
            exact hrefused e db' he ha
          | none =>
            cases hchk : checkCatalogRows (cols.map Engine.colTypeToField) n with
            | some x =>
              obtain ⟨e, db', he, _, _, ha⟩ := evalCreateTable_catalog_refused db pt sch tbls sdb h.abs n cols order
                true hfind hs1 hs2 (.inr (.inr ⟨x, hchk⟩))
              exact hrefused e db' he ha
            | none =>
              exact createTable_ok_self h hs n cols order hfind hs1 hs2 hfld hchk hpd hpl hsd hsl hbig

/-- **`evalStmt_keeps_inv` with `CatSelf`**: the database a statement returns satisfies `DbInv` for some
plain database and some catalog description, and THAT description satisfies `CatSelf`. -/
theorem evalStmt_keeps_inv_self (db : Engine.DB) (order : List Nat) (sdb : Spec.SDB) (pt sch : Levels)
    (tbls : List (Bytes × Levels)) (h : DbInv db sdb pt sch tbls) (hs : CatSelf pt sch) (st : Sql.Stmt)
    (hnames : StmtNames pt tbls st) (hroom : StmtRoomT db pt sch tbls st) (hlits : StmtLits st) :
    ∃ db', (evalStmt db order st = .ok () db' ∨ ∃ e, evalStmt db order st = .err e db') ∧
      ∃ sdb' pt' sch' tbls', DbInv db' sdb' pt' sch' tbls' ∧ CatSelf pt' sch' := by
  obtain ⟨db', hres, sdb', pt', sch', tbls', hi'⟩ := evalStmt_keeps_inv db order sdb pt sch tbls h st hnames hroom hlits
  have hk := evalStmt_keeps_self db order sdb pt sch tbls h hs st hnames hroom hlits db' hres
  exact ⟨db', hres, sdb', pt', sch', tbls', hi', hk.catSelf hi'⟩

end Mkdb.Store
