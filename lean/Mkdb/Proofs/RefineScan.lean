import Mkdb.Proofs.Forest
import Mkdb.Proofs.Unchanged1
/-!
Refinement of the read paths: what `scanRight` (SELECT's scan) and `findLeaf` (point lookup) compute
on the heap model (`Mkdb.Store`) is what the levels model (`Mkdb.Tree`) says.

* `Holds s t`: every page of `t` is what the engine sees (`view`) at its offset — node **and** dirty bit
  (the strong variant: a `fetch` of a held page changes no `view` at all, so nothing is lost).
* `fetch_held`: fetching a held page returns that page and leaves `view` unchanged everywhere.
* `leftmost_descent`, `leftmostLeaf_refines`: `leftmostLeaf` from the root reaches the first leaf.
* `scanLeaves_chain`: `scanLeaves` from the first leaf walks the leaves list.
* `scanRight_refines`, `scanRight_live`.
* `findLeaf_descent`, `findLeaf_refines`, `findLeaf_finds`.
* non-vacuity: `sampleStore` holds `sampleTree`; the scan and the lookups evaluate as expected.

`Filed s` is not needed for the refinement itself (a page of `flatten t` carries the offset it is
listed under, which is all `fetch` needs): the `_strong` variants omit it and give `SameView s s'`
(every `view` unchanged).  `scanRight_refines` / `findLeaf_refines` keep the hypothesis for uniformity
with the read-only framework; `scanRight_refines_filed` uses it to add `Filed s' ∧ SameData s s'`.
-/
set_option autoImplicit false
namespace Mkdb.Refine
open Mkdb.Page Mkdb.Generated Mkdb.Store Mkdb.Tree

/-- the heap of `s` holds the tree `t`: every page of `t` is what the engine sees at its offset -/
def Holds (s : Store) (t : Levels) : Prop := ∀ e ∈ flatten t, view s e.1 = some (e.2.1, e.2.2)

/-- the engine sees the same page (or none) at every offset -/
def SameView (s s' : Store) : Prop := ∀ k, view s' k = view s k

theorem SameView.refl (s : Store) : SameView s s := fun _ => rfl

theorem SameView.trans {s1 s2 s3 : Store} (h12 : SameView s1 s2) (h23 : SameView s2 s3) :
    SameView s1 s3 := fun k => (h23 k).trans (h12 k)

theorem Holds.of_sameView {s s' : Store} {t : Levels} (h : Holds s t) (hv : SameView s s') :
    Holds s' t := fun e he => (hv e.1).trans (h e he)

theorem Holds.leaf {s : Store} {t : Levels} (h : Holds s t) {p : Leaf × Bool} (hp : p ∈ t.leaves) :
    view s p.1.off = some (Node.leaf p.1, p.2) :=
  h (p.1.off, Node.leaf p.1, p.2) (List.mem_append_left _ (List.mem_map.mpr ⟨p, hp, rfl⟩))

theorem Holds.internal {s : Store} {t : Levels} (h : Holds s t) {lvl : List (Internal × Bool)}
    (hl : lvl ∈ t.inner) {p : Internal × Bool} (hp : p ∈ lvl) :
    view s p.1.off = some (Node.internal p.1, p.2) :=
  h (p.1.off, Node.internal p.1, p.2)
    (List.mem_append_right _ (List.mem_flatMap.mpr ⟨lvl, hl, List.mem_map.mpr ⟨p, hp, rfl⟩⟩))

/-! ### `fetch` of a page the engine sees -/

/-- Fetching a page the engine sees at `off`, and which carries `off`, returns it and changes no
`view` (a clean copy of the disk image may enter the cache under `off`). -/
theorem fetch_held (s : Store) (off : Nat) (n : Node) (d : Bool)
    (hv : view s off = some (n, d)) (hoff : nodeOff n = off) :
    ∃ s', fetch off s = .ok n s' ∧ SameView s s' := by
  unfold fetch
  unfold view at hv
  cases hm : assocGet s.mem off with
  | some m =>
    rw [hm] at hv
    simp only [Option.some.injEq, Prod.mk.injEq] at hv
    exact ⟨s, by simp only [hv.1], SameView.refl s⟩
  | none =>
    rw [hm] at hv
    cases hd : assocGet s.disk off with
    | none => rw [hd] at hv; cases hv
    | some n0 =>
      rw [hd] at hv
      simp only [Option.map_some, Option.some.injEq, Prod.mk.injEq] at hv
      obtain ⟨rfl, rfl⟩ := hv
      simp only [Option.getD_some]
      rw [hoff, assocSet_of_none _ hm]
      refine ⟨_, rfl, ?_⟩
      intro k
      show (match assocGet (s.mem ++ [(off, (⟨n0, false⟩ : MNode))]) k with
            | some m => some (m.node, m.dirty)
            | none => (assocGet s.disk k).map fun n => (n, false)) = view s k
      rw [assocGet_append_single]
      cases hk : assocGet s.mem k with
      | some x => simp only [view, hk]
      | none =>
        by_cases hko : off = k
        · subst hko
          simp only [if_true, view, hm, hd, Option.map_some]
        · simp only [hko, if_false, view, hk]

theorem fetch_leaf {s : Store} {l : Leaf} {d : Bool} (hv : view s l.off = some (Node.leaf l, d)) :
    ∃ s', fetch l.off s = .ok (Node.leaf l) s' ∧ SameView s s' :=
  fetch_held s l.off _ d hv rfl

theorem fetch_internal {s : Store} {n : Internal} {d : Bool}
    (hv : view s n.off = some (Node.internal n, d)) :
    ∃ s', fetch n.off s = .ok (Node.internal n) s' ∧ SameView s s' :=
  fetch_held s n.off _ d hv rfl

/-! ### descending the internal levels -/

/-- every internal node of a stack of levels is what the engine sees at its offset -/
def HeldInner (s : Store) (lvls : List (List (Internal × Bool))) : Prop :=
  ∀ lvl ∈ lvls, ∀ p ∈ lvl, view s p.1.off = some (Node.internal p.1, p.2)

theorem HeldInner.of_sameView {s s' : Store} {lvls : List (List (Internal × Bool))}
    (h : HeldInner s lvls) (hv : SameView s s') : HeldInner s' lvls :=
  fun lvl hl p hp => (hv p.1.off).trans (h lvl hl p hp)

theorem HeldInner.tail {s : Store} {lvl : List (Internal × Bool)} {rest : List (List (Internal × Bool))}
    (h : HeldInner s (lvl :: rest)) : HeldInner s rest :=
  fun l hl p hp => h l (List.mem_cons_of_mem _ hl) p hp

theorem Holds.heldInner {s : Store} {t : Levels} (h : Holds s t) : HeldInner s t.inner :=
  fun _ hl _ hp => h.internal hl hp

/-- one step of `leftmostLeaf` at a held internal node with a first cell -/
theorem leftmostLeaf_step {s : Store} {n : Internal} {d : Bool} {c : ICell} {cs : List ICell}
    (hv : view s n.off = some (Node.internal n, d)) (hc : n.cells = c :: cs) (f : Nat) :
    ∃ s', SameView s s' ∧ leftmostLeaf (f + 1) n.off s = leftmostLeaf f c.child s' := by
  obtain ⟨s', hf, hsv⟩ := fetch_internal hv
  refine ⟨s', hsv, ?_⟩
  rw [leftmostLeaf, bind_ok hf]
  simp only [hc, List.head?_cons]

/-- one step of `leftmostLeaf` at a held leaf -/
theorem leftmostLeaf_leaf {s : Store} {l : Leaf} {d : Bool}
    (hv : view s l.off = some (Node.leaf l, d)) (f : Nat) :
    ∃ s', SameView s s' ∧ leftmostLeaf (f + 1) l.off s = .ok l s' := by
  obtain ⟨s', hf, hsv⟩ := fetch_leaf hv
  refine ⟨s', hsv, ?_⟩
  rw [leftmostLeaf, bind_ok hf]
  rfl

/-- `leftmostLeaf` from the top of a stack of held levels reaches the first offset of the bottom row,
using one unit of fuel per level. -/
theorem leftmost_descent : ∀ (lvls : List (List (Internal × Bool))) (below : List Nat) (s : Store) (f : Nat),
    linked below lvls → (∀ lvl ∈ lvls, ∀ p ∈ lvl, 1 ≤ p.1.cells.length) → HeldInner s lvls →
    ∃ s', SameView s s' ∧
      leftmostLeaf (lvls.length + f) (Lookup.rootOf below lvls) s = leftmostLeaf f (below.head?.getD 0) s'
  | [], below, s, f, _, _, _ => ⟨s, SameView.refl s, by simp only [List.length_nil, Nat.zero_add]; rfl⟩
  | lvl :: rest, below, s, f, hl, hcap, hh => by
    obtain ⟨hl1, hl2⟩ := hl
    obtain ⟨s1, hsv1, e1⟩ := leftmost_descent rest (lvl.map (·.1.off)) s (f + 1) hl2
      (fun l hl p hp => hcap l (List.mem_cons_of_mem _ hl) p hp) hh.tail
    have hne := linked_below_ne rest _ hl2
    match lvl, hne, hl1, hcap, hh with
    | p :: ps, _, hl1, hcap, hh =>
      have hc := hcap (p :: ps) List.mem_cons_self p List.mem_cons_self
      match hcs : p.1.cells, hc with
      | c :: cs, _ =>
        have hv : view s1 p.1.off = some (Node.internal p.1, p.2) :=
          (hsv1 _).trans (hh (p :: ps) List.mem_cons_self p List.mem_cons_self)
        obtain ⟨s2, hsv2, e2⟩ := leftmostLeaf_step hv hcs f
        refine ⟨s2, hsv1.trans hsv2, ?_⟩
        have hfuel : ((p :: ps) :: rest).length + f = rest.length + (f + 1) := by
          simp only [List.length_cons]; omega
        have hb : below.head?.getD 0 = c.child := by
          rw [← hl1, childOffs_cons, hcs]; rfl
        rw [hfuel, Lookup.rootOf, e1, hb]
        exact e2

/-! ### walking the leaf chain -/

/-- the live cells of a leaf, each with the offset of the leaf (what `scanRight` collects there) -/
def liveAt (l : Leaf) : List (LeafCell × Nat) := (l.cells.filter fun c => !c.deleted).map fun c => (c, l.off)

theorem scanLeaves_last (fuel : Nat) (l : Leaf) (s : Store) (hR : l.hasR = false) :
    scanLeaves (fuel + 1) l s = .ok (liveAt l) s := by
  rw [scanLeaves]
  simp only [hR]
  rfl

theorem scanLeaves_next (fuel : Nat) (l r : Leaf) (s s1 s2 : Store) (rest : List (LeafCell × Nat))
    (hR : l.hasR = true) (hf : fetch l.rSib s = .ok (Node.leaf r) s1)
    (hrec : scanLeaves fuel r s1 = .ok rest s2) :
    scanLeaves (fuel + 1) l s = .ok (liveAt l ++ rest) s2 := by
  rw [scanLeaves]
  simp only [hR, if_true]
  rw [bind_ok hf]
  simp only
  rw [bind_ok hrec]
  rfl

/-- `scanLeaves` from the head of a held chain of leaves collects the live cells of the whole chain -/
theorem scanLeaves_chain : ∀ (ls : List (Leaf × Bool)) (p : Leaf × Bool) (prev : Option Nat) (fuel : Nat)
    (s : Store),
    chainFrom prev ((p :: ls).map (·.1)) →
    (∀ q ∈ p :: ls, view s q.1.off = some (Node.leaf q.1, q.2)) →
    ls.length + 1 ≤ fuel →
    ∃ s', scanLeaves fuel p.1 s = .ok ((p :: ls).flatMap fun q => liveAt q.1) s' ∧ SameView s s'
  | [], p, prev, fuel, s, hch, _, hfuel => by
    obtain ⟨f, rfl⟩ : ∃ f, fuel = f + 1 := ⟨fuel - 1, by simp only [List.length_nil] at hfuel; omega⟩
    have hR : p.1.hasR = false := hch.2.1
    exact ⟨s, by rw [scanLeaves_last f p.1 s hR]; simp, SameView.refl s⟩
  | q :: ls, p, prev, fuel, s, hch, hheld, hfuel => by
    obtain ⟨f, rfl⟩ : ∃ f, fuel = f + 1 := ⟨fuel - 1, by simp only [List.length_cons] at hfuel; omega⟩
    obtain ⟨_, ⟨hR, hsib⟩, hch'⟩ := hch
    have hq : view s q.1.off = some (Node.leaf q.1, q.2) := hheld q (by simp)
    obtain ⟨s1, hf, hsv1⟩ := fetch_leaf hq
    obtain ⟨s2, hrec, hsv2⟩ := scanLeaves_chain ls q (some p.1.off) f s1 hch'
      (fun x hx => (hsv1 _).trans (hheld x (List.mem_cons_of_mem _ hx)))
      (by simp only [List.length_cons] at hfuel; omega)
    refine ⟨s2, ?_, hsv1.trans hsv2⟩
    rw [← hsib] at hf
    rw [scanLeaves_next f p.1 q.1 s s1 s2 _ hR hf hrec]
    simp only [List.flatMap_cons]

/-! ### `scanRight` -/

/-- `leftmostLeaf` from the root of a held tree returns the first leaf -/
theorem leftmostLeaf_refines (s : Store) (t : Levels) (nf : Nat) (hH : Holds s t) (hI : Inv t nf)
    (hdepth : t.inner.length + 1 ≤ treeFuel) :
    ∃ p ps s', t.leaves = p :: ps ∧ leftmostLeaf treeFuel (rootOff t) s = .ok p.1 s' ∧ SameView s s' := by
  have hlink : linked (t.leaves.map (·.1.off)) t.inner := hI.link
  have hne := linked_below_ne _ _ hlink
  match hlv : t.leaves, hne with
  | p :: ps, _ =>
    rw [hlv] at hlink
    obtain ⟨f, hf⟩ : ∃ f, treeFuel = t.inner.length + (f + 1) :=
      ⟨treeFuel - t.inner.length - 1, by omega⟩
    obtain ⟨s1, hsv1, e1⟩ := leftmost_descent t.inner _ s (f + 1) hlink
      (fun lvl hl q hq => (hI.cap.2 lvl hl q hq).1) hH.heldInner
    have hp : view s1 p.1.off = some (Node.leaf p.1, p.2) :=
      (hsv1 _).trans (hH.leaf (by rw [hlv]; exact List.mem_cons_self))
    obtain ⟨s2, hsv2, e2⟩ := leftmostLeaf_leaf hp f
    refine ⟨p, ps, s2, rfl, ?_, hsv1.trans hsv2⟩
    rw [Lookup.rootOff_eq, hlv, hf, e1]
    exact e2

/-- **The scan refines the levels model** (no well-filedness needed; every `view` is unchanged). -/
theorem scanRight_refines_strong (s : Store) (t : Levels) (nf : Nat) (hH : Holds s t) (hI : Inv t nf)
    (hdepth : t.inner.length + 1 ≤ treeFuel) (hlen : t.leaves.length ≤ scanFuel) :
    ∃ s', scanRight (rootOff t) s =
        .ok (t.leaves.flatMap fun p => (p.1.cells.filter fun c => !c.deleted).map fun c => (c, p.1.off)) s' ∧
      SameView s s' := by
  obtain ⟨p, ps, s1, hlv, e1, hsv1⟩ := leftmostLeaf_refines s t nf hH hI hdepth
  have hch : chainFrom none ((p :: ps).map (·.1)) := by rw [← hlv]; exact hI.chain
  obtain ⟨s2, e2, hsv2⟩ := scanLeaves_chain ps p none scanFuel s1 hch
    (fun q hq => (hsv1 _).trans (hH.leaf (by rw [hlv]; exact hq)))
    (by rw [hlv] at hlen; simpa using hlen)
  refine ⟨s2, ?_, hsv1.trans hsv2⟩
  rw [scanRight, bind_ok e1, e2, hlv]
  rfl

/-- **1.** `scanRight` on a heap holding the tree `t` returns exactly the live cells of `t` in tree
order, each with the offset of its leaf; it does not panic or run out of fuel, and the heap still holds `t`. -/
theorem scanRight_refines (s : Store) (t : Levels) (nf : Nat) (hH : Holds s t) (hI : Inv t nf)
    (_hF : Filed s) (hdepth : t.inner.length + 1 ≤ treeFuel) (hlen : t.leaves.length ≤ scanFuel) :
    ∃ s', scanRight (rootOff t) s =
        .ok (t.leaves.flatMap fun p => (p.1.cells.filter fun c => !c.deleted).map fun c => (c, p.1.off)) s' ∧
      Holds s' t := by
  obtain ⟨s', e, hsv⟩ := scanRight_refines_strong s t nf hH hI hdepth hlen
  exact ⟨s', e, hH.of_sameView hsv⟩

/-- …and, in a well-filed store, the end state is well filed with the same data (read-only framework). -/
theorem scanRight_refines_filed (s : Store) (t : Levels) (nf : Nat) (hH : Holds s t) (hI : Inv t nf)
    (hF : Filed s) (hdepth : t.inner.length + 1 ≤ treeFuel) (hlen : t.leaves.length ≤ scanFuel) :
    ∃ s', scanRight (rootOff t) s =
        .ok (t.leaves.flatMap fun p => (p.1.cells.filter fun c => !c.deleted).map fun c => (c, p.1.off)) s' ∧
      Holds s' t ∧ Filed s' ∧ SameData s s' := by
  obtain ⟨s', e, hH'⟩ := scanRight_refines s t nf hH hI hF hdepth hlen
  obtain ⟨hF', hD⟩ := (ReadOnly.scanRight (rootOff t)).ok hF e
  exact ⟨s', e, hH', hF', hD⟩

theorem map_fst_liveAt (ls : List (Leaf × Bool)) :
    (ls.flatMap fun p => (p.1.cells.filter fun c => !c.deleted).map fun c => (c, p.1.off)).map (·.1) =
      (ls.flatMap (·.1.cells)).filter fun c => !c.deleted := by
  induction ls with
  | nil => rfl
  | cons p ps ih =>
    simp only [List.flatMap_cons, List.map_append, List.filter_append, ih, List.map_map]
    congr 1
    exact List.map_id' _

/-- **1 (corollary).** The cells the scan hands to its callback are `live t`. -/
theorem scanRight_live (s : Store) (t : Levels) (nf : Nat) (hH : Holds s t) (hI : Inv t nf)
    (hF : Filed s) (hdepth : t.inner.length + 1 ≤ treeFuel) (hlen : t.leaves.length ≤ scanFuel) :
    ∃ res s', scanRight (rootOff t) s = .ok res s' ∧ res.map (·.1) = live t ∧ Holds s' t := by
  obtain ⟨s', e, hH'⟩ := scanRight_refines s t nf hH hI hF hdepth hlen
  exact ⟨_, s', e, map_fst_liveAt t.leaves, hH'⟩

/-! ### `findLeaf` -/

theorem routeChild_mem (n : Internal) (key : Nat) :
    routeChild n key ∈ n.cells.map (·.child) ++ [n.right] := by
  unfold routeChild
  cases h : n.cells.find? (fun c => key < c.key) with
  | none => simp
  | some c =>
    exact List.mem_append_left _ (List.mem_map.mpr ⟨c, List.mem_of_find?_eq_some h, rfl⟩)

/-- one step of `findLeaf` at a held internal node -/
theorem findLeaf_step {s : Store} {n : Internal} {d : Bool}
    (hv : view s n.off = some (Node.internal n, d)) (key f : Nat) :
    ∃ s', SameView s s' ∧ findLeaf (f + 1) n.off key s = findLeaf f (routeChild n key) key s' := by
  obtain ⟨s', hf, hsv⟩ := fetch_internal hv
  refine ⟨s', hsv, ?_⟩
  rw [findLeaf, bind_ok hf]
  rfl

theorem findLeaf_leaf {s : Store} {l : Leaf} {d : Bool}
    (hv : view s l.off = some (Node.leaf l, d)) (key f : Nat) :
    ∃ s', SameView s s' ∧ findLeaf (f + 1) l.off key s = .ok l s' := by
  obtain ⟨s', hf, hsv⟩ := fetch_leaf hv
  refine ⟨s', hsv, ?_⟩
  rw [findLeaf, bind_ok hf]
  rfl

/-- `findLeaf` from the top of a stack of held levels follows the levels routing (`Lookup.step`, the
body of `routeOff`) down to an offset of the bottom row, using one unit of fuel per level. -/
theorem findLeaf_descent (key : Nat) : ∀ (lvls : List (List (Internal × Bool))) (below : List Nat)
    (s : Store) (f : Nat), linked below lvls → HeldInner s lvls →
    ∃ s', SameView s s' ∧
      findLeaf (lvls.length + f) (Lookup.rootOf below lvls) key s =
        findLeaf f (lvls.foldr (fun lvl off => Lookup.step key off lvl) (Lookup.rootOf below lvls)) key s' ∧
      lvls.foldr (fun lvl off => Lookup.step key off lvl) (Lookup.rootOf below lvls) ∈ below
  | [], below, s, f, hl, _ => by
    refine ⟨s, SameView.refl s, by simp only [List.length_nil, Nat.zero_add]; rfl, ?_⟩
    simp only [linked] at hl
    match below, hl with
    | [x], _ => simp [Lookup.rootOf]
  | lvl :: rest, below, s, f, hl, hh => by
    obtain ⟨hl1, hl2⟩ := hl
    obtain ⟨s1, hsv1, e1, hm1⟩ := findLeaf_descent key rest (lvl.map (·.1.off)) s (f + 1) hl2 hh.tail
    have hfuel : (lvl :: rest).length + f = rest.length + (f + 1) := by
      simp only [List.length_cons]; omega
    rw [hfuel, List.foldr_cons, Lookup.rootOf, e1]
    generalize rest.foldr (fun lvl off => Lookup.step key off lvl)
      (Lookup.rootOf (lvl.map (·.1.off)) rest) = tgt at hm1 ⊢
    obtain ⟨p, hp, hpo⟩ := List.mem_map.mp hm1
    cases hfind : lvl.find? (fun q => q.1.off == tgt) with
    | none =>
      have := List.find?_eq_none.mp hfind p hp
      simp [hpo] at this
    | some q =>
      have hq : q ∈ lvl := List.mem_of_find?_eq_some hfind
      have hqo : q.1.off = tgt := by simpa using List.find?_some hfind
      have hstep : Lookup.step key tgt lvl = routeChild q.1 key := by
        unfold Lookup.step; rw [hfind]
      have hv : view s1 q.1.off = some (Node.internal q.1, q.2) :=
        (hsv1 _).trans (hh lvl List.mem_cons_self q hq)
      obtain ⟨s2, hsv2, e2⟩ := findLeaf_step hv key f
      refine ⟨s2, hsv1.trans hsv2, ?_, ?_⟩
      · rw [hstep, ← hqo]; exact e2
      · rw [hstep, ← hl1]
        exact List.mem_flatMap.mpr ⟨q, hq, routeChild_mem q.1 key⟩

/-- **Point lookup routing refines the levels model** (no well-filedness needed). -/
theorem findLeaf_refines_strong (s : Store) (t : Levels) (nf : Nat) (hH : Holds s t) (hI : Inv t nf)
    (hdepth : t.inner.length + 1 ≤ treeFuel) (key : Nat) :
    ∃ s' l, findLeaf treeFuel (rootOff t) key s = .ok l s' ∧ l.off = routeOff t key ∧
      (∃ d, (l, d) ∈ t.leaves) ∧ SameView s s' := by
  have hlink : linked (t.leaves.map (·.1.off)) t.inner := hI.link
  obtain ⟨f, hf⟩ : ∃ f, treeFuel = t.inner.length + (f + 1) :=
    ⟨treeFuel - t.inner.length - 1, by omega⟩
  obtain ⟨s1, hsv1, e1, hm1⟩ := findLeaf_descent key t.inner _ s (f + 1) hlink hH.heldInner
  rw [← Lookup.rootOff_eq, ← Lookup.routeOff_eq] at e1 hm1
  obtain ⟨p, hp, hpo⟩ := List.mem_map.mp hm1
  have hv : view s1 p.1.off = some (Node.leaf p.1, p.2) := (hsv1 _).trans (hH.leaf hp)
  obtain ⟨s2, hsv2, e2⟩ := findLeaf_leaf hv key f
  refine ⟨s2, p.1, ?_, hpo, ⟨p.2, hp⟩, hsv1.trans hsv2⟩
  rw [hf, e1, ← hpo]
  exact e2

/-- **2.** `findLeaf` on a heap holding `t` reaches the leaf the levels routing names. -/
theorem findLeaf_refines (s : Store) (t : Levels) (nf : Nat) (hH : Holds s t) (hI : Inv t nf)
    (_hF : Filed s) (hdepth : t.inner.length + 1 ≤ treeFuel) (key : Nat) :
    ∃ s' l, findLeaf treeFuel (rootOff t) key s = .ok l s' ∧ l.off = routeOff t key ∧
      (∃ d, (l, d) ∈ t.leaves) ∧ Holds s' t := by
  obtain ⟨s', l, e, ho, hm, hsv⟩ := findLeaf_refines_strong s t nf hH hI hdepth key
  exact ⟨s', l, e, ho, hm, hH.of_sameView hsv⟩

/-- **2 (corollary).** For every cell of the tree, `findLeaf` under the cell's key returns the leaf of
`t` that contains the cell, and searching that leaf by key (what `findCell` / `MarkDeleted` do next)
finds exactly this cell. -/
theorem findLeaf_finds (s : Store) (t : Levels) (nf : Nat) (hH : Holds s t) (hI : Inv t nf)
    (hF : Filed s) (hdepth : t.inner.length + 1 ≤ treeFuel) (c : LeafCell) (hc : c ∈ cells t) :
    ∃ s' l, findLeaf treeFuel (rootOff t) c.key s = .ok l s' ∧ (∃ d, (l, d) ∈ t.leaves) ∧
      c ∈ l.cells ∧ l.cells.find? (fun x => x.key == c.key) = some c ∧ Holds s' t := by
  obtain ⟨s', l, e, ho, ⟨d, hm⟩, hH'⟩ := findLeaf_refines s t nf hH hI hF hdepth c.key
  have hlk := lookup_finds t nf hI c hc
  obtain ⟨hndl, _⟩ := Lookup.offs_split t nf hI.offs
  obtain ⟨i, hi, hli⟩ := List.mem_iff_getElem.mp hm
  have hfind := Lookup.find_by_key (fun p : Leaf × Bool => p.1.off) t.leaves hndl i hi
  simp only [hli, ho] at hfind
  unfold lookup at hlk
  rw [hfind] at hlk
  exact ⟨s', l, e, ⟨d, hm⟩, List.mem_of_find?_eq_some hlk, hlk, hH'⟩

/-! ### non-vacuity: `sampleTree` laid out in a data file -/

/-- `Mkdb.Tree.sampleTree` (two leaves under one internal node; the cell 4 is a tombstone) as a data
file of three pages, the root already resident in the cache -/
def sampleStore : Store :=
  { hdr := { nextFree := 16384 }, dhdr := { nextFree := 16384 },
    mem := [(12288, ⟨.internal ⟨12288, 0, 8192, [⟨3, 4096⟩]⟩, false⟩)],
    disk := [(4096, .leaf ⟨4096, 0, false, true, 0, 8192, [⟨1, false, []⟩, ⟨2, false, []⟩]⟩),
             (8192, .leaf ⟨8192, 0, true, false, 4096, 0, [⟨3, false, []⟩, ⟨4, true, []⟩]⟩),
             (12288, .internal ⟨12288, 0, 8192, [⟨3, 4096⟩]⟩)] }

theorem sample_holds : Holds sampleStore sampleTree := by
  unfold Holds; decide

theorem sample_inv : Inv sampleTree 16384 := by
  refine ⟨?_, ?_, ?_, ?_, ?_, ?_, ?_⟩
  · unfold CapOK sampleTree; decide
  · unfold KeysAsc keys cells sampleTree; decide
  · unfold LeavesNonempty sampleTree; decide
  · simp [ChainOK, chainFrom, sampleTree]
  · simp [LinkOK, linked, childOffs, sampleTree]
  · simp [SepsOK, sepsAll, sepsOK, sampleTree]
  · unfold OffsOK offs flatten sampleTree; decide

theorem sample_filed : Filed sampleStore := by
  unfold Filed; decide

/-- the scan of the sample evaluates to the three live cells (the tombstone 4 is skipped), each with
the offset of its leaf -/
theorem sample_scan : ∃ s', scanRight (rootOff sampleTree) sampleStore =
    .ok [(⟨1, false, []⟩, 4096), (⟨2, false, []⟩, 4096), (⟨3, false, []⟩, 8192)] s' := ⟨_, rfl⟩

/-- …which is what the theorem says (`live sampleTree`), here obtained from `scanRight_live` -/
theorem sample_scan_live : ∃ res s', scanRight (rootOff sampleTree) sampleStore = .ok res s' ∧
    res.map (·.1) = [⟨1, false, []⟩, ⟨2, false, []⟩, ⟨3, false, []⟩] ∧ Holds s' sampleTree :=
  scanRight_live sampleStore sampleTree 16384 sample_holds sample_inv sample_filed (by decide) (by decide)

/-- the point lookup of key 4 evaluates to the second leaf (where the tombstone lives), of key 2 to the first -/
theorem sample_find : (∃ s', findLeaf treeFuel (rootOff sampleTree) 4 sampleStore =
      .ok ⟨8192, 0, true, false, 4096, 0, [⟨3, false, []⟩, ⟨4, true, []⟩]⟩ s') ∧
    (∃ s', findLeaf treeFuel (rootOff sampleTree) 2 sampleStore =
      .ok ⟨4096, 0, false, true, 0, 8192, [⟨1, false, []⟩, ⟨2, false, []⟩]⟩ s') := ⟨⟨_, rfl⟩, ⟨_, rfl⟩⟩

end Mkdb.Refine
