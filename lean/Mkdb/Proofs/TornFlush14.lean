import Mkdb.Proofs.TornFlush13
/-!
Torn flush without page allocation, part 14: **several statement boundaries.**

* `appP`, `Hist.append`: histories compose.
* `SpecRunsNA`: a chain of `SpecRun`s with its boundary databases, none of which has a higher allocation
  frontier than the first.
* `spec_runs_hist`: such a chain is ONE history of page-local steps over the skeleton of the first
  description; every boundary database holds the catalog with the leaf pages of some moment `j` of it;
  the log of the last database is the log of the first followed by the records of the history, all
  applied on the final description.
-/
set_option autoImplicit false
namespace Mkdb.Store
open Mkdb.Page Mkdb.Tuple Mkdb.Generated Mkdb.Tree Mkdb.Engine

/-- two histories, the second starting where the first (of `n` records) ends -/
def appP (cA : Nat → Pages) (n : Nat) (cB : Nat → Pages) : Nat → Pages :=
  fun j => if j ≤ n then cA j else cB (j - n)

theorem appP_le {cA cB : Nat → Pages} {n j : Nat} (h : j ≤ n) : appP cA n cB j = cA j := by simp [appP, h]

theorem appP_add {cA cB : Nat → Pages} {n : Nat} (hc : cB 0 = cA n) (m : Nat) : appP cA n cB (n + m) = cB m := by
  unfold appP
  by_cases h : n + m ≤ n
  · have : m = 0 := by omega
    subst this
    simp [hc]
  · simp [h]

section
variable {pt sch : Levels} {D0 : List (Bytes × Levels)} {nf K : Nat}

theorem Hist.append {logA logB : List WalRec} {cA cB : Nat → Pages} (HA : Hist pt sch D0 nf K logA cA)
    (HB : Hist pt sch D0 nf K logB cB) (hc : cB 0 = cA logA.length) :
    Hist pt sch D0 nf K (logA ++ logB) (appP cA logA.length cB) where
  names := HA.names
  disj := HA.disj
  lnd := HA.lnd
  pos := HA.pos
  filed := fun j hj => by
    rw [List.length_append] at hj
    by_cases h : j ≤ logA.length
    · rw [appP_le h]; exact HA.filed j h
    · obtain ⟨m, rfl⟩ := Nat.exists_eq_add_of_le (Nat.le_of_lt (Nat.lt_of_not_le h))
      rw [appP_add hc]; exact HB.filed m (by omega)
  snap := fun j hj => by
    rw [List.length_append] at hj
    by_cases h : j ≤ logA.length
    · rw [appP_le h]; exact HA.snap j h
    · obtain ⟨m, rfl⟩ := Nat.exists_eq_add_of_le (Nat.le_of_lt (Nat.lt_of_not_le h))
      rw [appP_add hc]; exact HB.snap m (by omega)
  step := fun j hj => by
    have hj' := hj
    rw [List.length_append] at hj'
    by_cases h : j < logA.length
    · rw [List.getElem_append_left h, appP_le (Nat.le_of_lt h), appP_le (show j + 1 ≤ logA.length from h)]
      exact HA.step j h
    · have hge : logA.length ≤ j := Nat.le_of_not_lt h
      obtain ⟨m, rfl⟩ := Nat.exists_eq_add_of_le hge
      rw [List.getElem_append_right hge, appP_add hc, Nat.add_assoc, appP_add hc]
      have hm : m < logB.length := by omega
      have := HB.step m hm
      simp only [Nat.add_sub_cancel_left]
      exact this

end

/-- **A chain of runs with its boundary databases, no page allocated**: each segment is a `SpecRun`; the
allocation frontier at every boundary is the one of the start. -/
inductive SpecRunsNA (sch : Levels) : Engine.DB → Spec.SDB → List Engine.DB → Engine.DB → Spec.SDB → Prop
  | nil (db : Engine.DB) (sdb : Spec.SDB) : SpecRunsNA sch db sdb [] db sdb
  | cons {db db1 dbN : Engine.DB} {sdb sdb1 sdbN : Spec.SDB} {stmts : List EStmt} {mids : List Engine.DB}
      (run : SpecRun sch db sdb stmts db1 sdb1) (hnf : db1.store.hdr.nextFree = db.store.hdr.nextFree)
      (rest : SpecRunsNA sch db1 sdb1 mids dbN sdbN) : SpecRunsNA sch db sdb (db1 :: mids) dbN sdbN

/-- **A chain of runs without allocation is one history**; the boundary databases hold moments of it. -/
theorem spec_runs_hist (sch : Levels) {db dbN : Engine.DB} {sdb sdbN : Spec.SDB} {mids : List Engine.DB}
    (runs : SpecRunsNA sch db sdb mids dbN sdbN) :
    ∀ (pt : Levels) (D0 : List (Bytes × Levels)) (c0 : Pages) (tbls : List (Bytes × Levels)),
      tbls = fillT c0 D0 → (∀ e ∈ D0, PFiled c0 e.2) →
      (D0.map (·.1)).Nodup → D0.Pairwise (fun a b => ∀ o ∈ offs a.2, o ∉ offs b.2) →
      (∀ e ∈ D0, (leafOffs e.2).Nodup) → (∀ e ∈ D0, 0 < rootOff e.2) →
      AbsV db.store pt sch tbls sdb → FreshM db.store tbls →
      (∀ r ∈ db.wal, AppliedC pt sch tbls r) → (∀ r ∈ db.wal, r.lsn < db.store.hdr.nextLSN) →
      ∃ (c : Nat → Pages) (logs : List WalRec) (tblsN : List (Bytes × Levels)), c 0 = c0 ∧
        Hist pt sch D0 db.store.hdr.nextFree dbN.store.hdr.lastKey logs c ∧ dbN.wal = db.wal ++ logs ∧
        tblsN = fillT (c logs.length) D0 ∧ AbsV dbN.store pt sch tblsN sdbN ∧ FreshM dbN.store tblsN ∧
        (dbN.store.hdr.lastKey = db.store.hdr.lastKey ∨
          ∃ r ∈ logs, r.op = c_OpInsert ∧ r.cell = dbN.store.hdr.lastKey) ∧
        db.store.hdr.lastKey ≤ dbN.store.hdr.lastKey ∧
        (∀ dbm ∈ db :: mids, ∃ j, j ≤ logs.length ∧ Cat dbm.store pt sch (fillT (c j) D0)) ∧
        (∀ r ∈ dbN.wal, AppliedC pt sch tblsN r) ∧ (∀ r ∈ dbN.wal, r.lsn < dbN.store.hdr.nextLSN) ∧
        (dbN.store.hdr.nextLSN = db.store.hdr.nextLSN ∨ ∃ r ∈ logs, dbN.store.hdr.nextLSN = r.lsn + 1) ∧
        dbN.store.hdr.nextFree = db.store.hdr.nextFree := by
  induction runs with
  | nil db sdb =>
    intro pt D0 c0 tbls htb hf0 hnm hdj hln hps hA hf hlog hlsn
    obtain ⟨sdb0, habs, hv⟩ := hA
    subst htb
    refine ⟨fun _ => c0, [], _, rfl, Hist.nil hnm hdj hln hps hf0 ⟨db.store, habs.cat, rfl, Nat.le_refl _⟩, by simp, rfl,
      ⟨sdb0, habs, hv⟩, hf, .inl rfl, Nat.le_refl _, ?_, hlog, hlsn, .inl rfl, rfl⟩
    intro dbm hm
    simp only [List.mem_singleton] at hm
    subst hm
    exact ⟨0, Nat.le_refl _, habs.cat⟩
  | @cons db db1 dbN sdb sdb1 sdbN stmts mids run hnf1 _ ih =>
    intro pt D0 c0 tbls htb hf0 hnm hdj hln hps hA hf hlog hlsn
    obtain ⟨ptN, tbls1, stmtsM, logsA, hrunA, hwA, hA1⟩ := spec_run_live sch run pt tbls hA
    obtain ⟨sdb0, habs, hv⟩ := hA
    obtain ⟨cA, a0, HA, htb1, hcat1, hfr1, hlk1, hle1⟩ := live_run_hist_gen sch hrunA pt D0 c0 htb hf0 hnm hdj hln hps
      habs.cat hf hnf1
    obtain ⟨ptA, hcatA, hlog1, hlsn1, hnx1⟩ := live_run_applied sch hrunA pt db.wal habs.cat hlog hlsn
    have eptA : ptA = pt := hcatA.pt_unique hcat1
    subst eptA
    have ept : ptN = ptA := by
      obtain ⟨_, h1, _⟩ := hA1
      exact h1.cat.pt_unique hcat1
    subst ept
    rw [← hwA] at hlog1 hlsn1
    obtain ⟨cB, logsB, tblsN, b0, HB, hwB, htbN, hAN, hfrN, hlkN, hleN, hbd, hlogN, hlsnN, hnxN, hnfN⟩ :=
      ih ptN D0 (cA logsA.length) tbls1 htb1 (HA.filed _ (Nat.le_refl _)) hnm hdj hln hps hA1 hfr1 hlog1 hlsn1
    rw [hnf1] at HB
    have HAB := (HA.mono_K hleN).append HB b0
    refine ⟨appP cA logsA.length cB, logsA ++ logsB, tblsN, ?_, HAB, ?_, ?_, hAN, hfrN, ?_, by omega, ?_, hlogN, hlsnN,
      ?_, by rw [hnfN, hnf1]⟩
    · rw [appP_le (Nat.zero_le _)]; exact a0
    · rw [hwB, hwA, List.append_assoc]
    · rw [htbN, List.length_append, appP_add b0]
    · rcases hlkN with e | ⟨r, hr, hop, hcell⟩
      · rcases hlk1 with e1 | ⟨r, hr, hop, hcell⟩
        · left; rw [e, e1]
        · exact .inr ⟨r, List.mem_append_left _ hr, hop, by rw [e]; exact hcell⟩
      · exact .inr ⟨r, List.mem_append_right _ hr, hop, hcell⟩
    · intro dbm hm
      rcases List.mem_cons.mp hm with rfl | hm
      · refine ⟨0, Nat.zero_le _, ?_⟩
        rw [appP_le (Nat.zero_le _), a0, ← htb]
        exact habs.cat
      · obtain ⟨j, hj, hc⟩ := hbd dbm hm
        refine ⟨logsA.length + j, by rw [List.length_append]; omega, ?_⟩
        rw [appP_add b0]
        exact hc
    · rcases hnxN with e | ⟨r, hr, e⟩
      · rcases hnx1 with e1 | ⟨r, hr, e1⟩
        · left; rw [e, e1]
        · exact .inr ⟨r, List.mem_append_left _ hr, by rw [e]; exact e1⟩
      · exact .inr ⟨r, List.mem_append_right _ hr, e⟩

end Mkdb.Store
