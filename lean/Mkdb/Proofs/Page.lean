import Mkdb.Model.Page
import Mkdb.Proofs.Bin
namespace Mkdb.Page
open Mkdb.Bin Mkdb.Generated

@[simp] theorem decU8_enc (n : Nat) (rest : Bytes) (h : n < 2 ^ 8) : decU8 (encU8 n ++ rest) = some (n, rest) := by
  simp only [decU8, encU8, decLE_encLE]; rw [Nat.mod_eq_of_lt (by simpa using h)]
@[simp] theorem decU16_enc (n : Nat) (rest : Bytes) (h : n < 2 ^ 16) : decU16 (encU16 n ++ rest) = some (n, rest) := by
  simp only [decU16, encU16, decLE_encLE]; rw [Nat.mod_eq_of_lt (by simpa using h)]
@[simp] theorem decU32_enc (n : Nat) (rest : Bytes) (h : n < 2 ^ 32) : decU32 (encU32 n ++ rest) = some (n, rest) := by
  simp only [decU32, encU32, decLE_encLE]; rw [Nat.mod_eq_of_lt (by simpa using h)]
@[simp] theorem decU64_enc (n : Nat) (rest : Bytes) (h : n < 2 ^ 64) : decU64 (encU64 n ++ rest) = some (n, rest) := by
  simp only [decU64, encU64, decLE_encLE]; rw [Nat.mod_eq_of_lt (by simpa using h)]
@[simp] theorem decBool_enc (b : Bool) (rest : Bytes) : decBool (encBool b ++ rest) = some (b, rest) := by
  cases b <;> simp [decBool, encBool]

theorem readN_append (v rest : Bytes) : readN v.length (v ++ rest) = some (v, rest) := by
  unfold readN
  cases v with
  | nil => simp
  | cons a t => simp

theorem skipN_replicate (n : Nat) (rest : Bytes) : skipN n (List.replicate n 0 ++ rest) = rest := by
  simp [skipN]

theorem decOffsets_enc (l : List Nat) (hl : ∀ o ∈ l, o < 2 ^ 16) (rest : Bytes) :
    decOffsets l.length (l.flatMap encU16 ++ rest) = some (l, rest) := by
  induction l with
  | nil => simp [decOffsets]
  | cons o t ih =>
    have ho := hl o List.mem_cons_self
    have ht := ih (fun x hx => hl x (List.mem_cons_of_mem _ hx))
    simp only [List.length_cons, List.flatMap_cons, List.append_assoc, decOffsets, decU16_enc _ _ ho, ht]

theorem decOffsets_range (n : Nat) (hn : n ≤ 2 ^ 16) (rest : Bytes) :
    decOffsets n (encOffsets n ++ rest) = some (List.range n, rest) := by
  have := decOffsets_enc (List.range n) (fun o ho => by
    have := List.mem_range.mp ho; omega) rest
  simpa [encOffsets] using this

theorem decLeafCell_enc (c : LeafCell) (hc : WFLeafCell c) (rest : Bytes) :
    decLeafCell (encLeafCell c ++ rest) = some (c, rest) := by
  obtain ⟨hk, hv⟩ := hc
  have hv' : c.val.length < 2 ^ 32 := by
    have : c_maxValueSize = 400 := rfl
    omega
  simp only [decLeafCell, encLeafCell, List.append_assoc, decU32_enc _ _ hk, decBool_enc,
    decU32_enc _ _ hv', readN_append]

theorem decLeafCells_enc (cs : List LeafCell) (h : ∀ c ∈ cs, WFLeafCell c) (rest : Bytes) :
    decLeafCells cs.length (cs.flatMap encLeafCell ++ rest) = some (cs, rest) := by
  induction cs with
  | nil => simp [decLeafCells]
  | cons c t ih =>
    have hc := h c List.mem_cons_self
    have ht := ih (fun x hx => h x (List.mem_cons_of_mem _ hx))
    simp only [List.length_cons, List.flatMap_cons, List.append_assoc, decLeafCells,
      decLeafCell_enc c hc, ht]

theorem decICell_enc (c : ICell) (hc : WFICell c) (rest : Bytes) :
    decICell (encICell c ++ rest) = some (c, rest) := by
  obtain ⟨hk, hv⟩ := hc
  simp only [decICell, encICell, List.append_assoc, decU32_enc _ _ hk, decU64_enc _ _ hv]

theorem decICells_enc (cs : List ICell) (h : ∀ c ∈ cs, WFICell c) (rest : Bytes) :
    decICells cs.length (cs.flatMap encICell ++ rest) = some (cs, rest) := by
  induction cs with
  | nil => simp [decICells]
  | cons c t ih =>
    have hc := h c List.mem_cons_self
    have ht := ih (fun x hx => h x (List.mem_cons_of_mem _ hx))
    simp only [List.length_cons, List.flatMap_cons, List.append_assoc, decICells,
      decICell_enc c hc, ht]

theorem place_range {α : Type} (cs : List α) : place (List.range cs.length) cs = some cs := by
  simp [place]

theorem encOffsets_length (n : Nat) : (encOffsets n).length = 2 * n := by
  induction n with
  | zero => simp [encOffsets]
  | succ n ih =>
    simp only [encOffsets, List.range_succ, List.flatMap_append, List.length_append] at ih ⊢
    simp [ih, encU16, encLE_length]; omega

theorem leafFooter_length_le (cs : List LeafCell) (h : ∀ c ∈ cs, WFLeafCell c) :
    (cs.flatMap encLeafCell).length ≤ cs.length * c_leafNodeCellSize := by
  induction cs with
  | nil => simp
  | cons c t ih =>
    have hc := (h c List.mem_cons_self).2
    have ht := ih (fun x hx => h x (List.mem_cons_of_mem _ hx))
    have h1 : c_maxValueSize = 400 := rfl
    have h2 : c_leafNodeCellSize = 409 := rfl
    simp only [List.flatMap_cons, List.length_append, List.length_cons, encLeafCell, encU32, encBool,
      encLE_length, List.length_nil] at ht ⊢
    rw [Nat.succ_mul]
    omega

theorem internalFooter_length (cs : List ICell) :
    (cs.flatMap encICell).length = cs.length * c_nodeCellSize := by
  induction cs with
  | nil => simp
  | cons c t ih =>
    have h2 : c_nodeCellSize = 12 := rfl
    simp only [List.flatMap_cons, List.length_append, List.length_cons, encICell, encU32, encU64,
      encLE_length] at ih ⊢
    rw [Nat.succ_mul]
    omega

theorem leafHeader_length (l : Leaf) : (leafHeader l).length = 39 + 2 * l.cells.length := by
  simp only [leafHeader, List.length_append, encU8, encU64, encU32, encBool, encLE_length,
    encOffsets_length, List.length_cons, List.length_nil]

theorem internalHeader_length (n : Internal) : (internalHeader n).length = 29 + 2 * n.cells.length := by
  simp only [internalHeader, List.length_append, encU8, encU64, encU32, encLE_length,
    encOffsets_length]

end Mkdb.Page
