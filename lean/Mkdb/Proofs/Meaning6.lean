import Mkdb.Proofs.Meaning5
/-!
`evaluateSelect` against `Spec.meaning` / `Spec.satisfies`, part 6: aggregates and GROUP BY (C07),
`aggregateRows` on the projected rows against the grouping part of `Spec.meaning` on the source
rows (`aggregate_agree`), and the single-table aggregate SELECT.
-/
namespace Mkdb.Exec.MeaningP
open Mkdb.Sql Mkdb.Tuple Mkdb.Spec Mkdb.Exec.SelectP Mkdb.Exec.AggP

/-- the grouping part of `Spec.meaning` (the text of the specification, verbatim) -/
def specAgg (q : Select) (fields : List Field) (src : List Row) : Option (List Row) := do
  let gidx ← q.groupBy.mapM (groupIdx q.list)
  let gitems := gidx.filterMap fun i => q.list[i]?
  let keyOf (r : Row) : Option (List Val) := gitems.mapM fun d => itemVal d.item fields r
  let keys ← src.mapM keyOf
  if q.groupBy.isEmpty then
    (do let row ← q.list.mapM fun d =>
          if src.isEmpty then (if isAgg d.item then some (.int 0) else itemVal d.item [] [])
          else aggVal d.item fields src
        pure [row])
  else
    (distinctKeys keys).mapM fun k =>
      let grp := (src.zip keys).filterMap fun (r, k') => if k' == k then some r else none
      q.list.mapM fun d => aggVal d.item fields grp

/-- `specTail` on a select list that does not start with `*`: the columns resolve, then either
the plain projection or the grouping -/
theorem specTail_nostar_iff {q : Select} {fields : List Field} {src w : List Row}
    (hs : isStar q.list = false) :
    specTail q fields src = some w ↔
      ColumnsResolve q.list fields ∧
      (if !hasAggr q.list && q.groupBy.isEmpty then
          src.mapM (fun r => q.list.mapM fun d => itemVal d.item fields r) = some w
        else specAgg q fields src = some w) := by
  unfold specTail specAgg
  simp only [hs, Bool.false_eq_true, if_false, any_isAgg_eq_hasAggr, Option.bind_eq_bind]
  rw [bind_const_some]
  constructor
  · rintro ⟨hr, h⟩
    refine ⟨lookupsS_some_iff.1 hr, ?_⟩
    split <;> rename_i hc <;> simp only [hc, if_true, if_false, Bool.false_eq_true] at h <;> exact h
  · rintro ⟨hres, h⟩
    refine ⟨lookupsS_some_iff.2 hres, ?_⟩
    split <;> rename_i hc <;> simp only [hc, if_true, if_false, Bool.false_eq_true] at h <;> exact h

/-- a select list that starts with `*` has no meaning in a query that groups (an aggregate in the
list or a GROUP BY) -/
theorem specTail_groups_nostar {q : Select} {fields : List Field} {src w : List Row}
    (hg : (!hasAggr q.list && q.groupBy.isEmpty) = false) (h : specTail q fields src = some w) :
    isStar q.list = false := by
  cases hs : isStar q.list with
  | false => rfl
  | true =>
    unfold specTail at h
    rw [Bool.and_comm] at hg
    simp only [hs, if_true, any_isAgg_eq_hasAggr, hg, Bool.false_eq_true, if_false] at h
    cases h

/-! ### the GROUP BY positions -/

theorem groupIdx_lt {sl : List DerivedCol} {g : ColRef} {i : Nat} (h : groupIdx sl g = some i) :
    i < sl.length := by
  unfold groupIdx at h
  exact List.mem_range.1 (List.mem_of_find?_eq_some h)

/-- the executor resolves the GROUP BY references as the specification does -/
theorem groupIdxs_iff {sl : List DerivedCol} {gb : List ColRef} {idxs : List Nat} :
    NoPanicP.groupIdxs sl gb = .ok idxs ↔ gb.mapM (groupIdx sl) = some idxs := by
  unfold NoPanicP.groupIdxs
  apply mapX_ok_iff_mapM
  intro g _ i
  cases groupIdx sl g with
  | none => simp
  | some j => simp

theorem mapM_groupIdx_lt {sl : List DerivedCol} {gb : List ColRef} {idxs : List Nat}
    (h : gb.mapM (groupIdx sl) = some idxs) : ∀ i ∈ idxs, i < sl.length := by
  induction gb generalizing idxs with
  | nil =>
    simp only [List.mapM_nil, Option.pure_def, Option.some.injEq] at h; subst h
    intro i hi; cases hi
  | cons g gb ih =>
    obtain ⟨j, js, hj, hjs, rfl⟩ := mapM_cons_some.1 h
    intro i hi
    rcases List.mem_cons.1 hi with rfl | hi
    · exact groupIdx_lt hj
    · exact ih hjs i hi

/-- the key the executor groups by, on a projected row -/
def keyAt (idxs : List Nat) (pr : Row) : List Val := idxs.map fun i => (pr[i]?).getD .null

/-- the grouping key of the specification on a source row is the executor's key on the projected
row -/
theorem keyOf_eq {sl : List DerivedCol} {fields : List Field} {idxs : List Nat} {r : Row}
    (hlt : ∀ i ∈ idxs, i < sl.length) (hproj : ∀ d ∈ sl, itemVal d.item fields r = some (pv fields d r)) :
    (idxs.filterMap fun i => sl[i]?).mapM (fun d => itemVal d.item fields r) =
      some (keyAt idxs (projRow sl fields r)) := by
  induction idxs with
  | nil => rfl
  | cons i rest ih =>
    have hi : i < sl.length := hlt i List.mem_cons_self
    have hget : sl[i]? = some sl[i] := List.getElem?_eq_getElem hi
    rw [List.filterMap_cons_some hget]
    refine mapM_cons_some.2 ⟨pv fields sl[i] r, keyAt rest (projRow sl fields r),
      hproj _ (List.getElem_mem hi), ih (fun j hj => hlt j (List.mem_cons_of_mem _ hj)), ?_⟩
    unfold keyAt
    rw [List.map_cons, projRow_getElem? hget]
    rfl

/-- conversely: whenever the grouping key of the specification is defined on a source row, it is
the executor's key on the projected row -/
theorem keyOf_some {sl : List DerivedCol} {fields : List Field} {idxs : List Nat} {r : Row}
    {k : List Val} (hlt : ∀ i ∈ idxs, i < sl.length)
    (h : (idxs.filterMap fun i => sl[i]?).mapM (fun d => itemVal d.item fields r) = some k) :
    k = keyAt idxs (projRow sl fields r) := by
  induction idxs generalizing k with
  | nil =>
    simp only [List.filterMap_nil, List.mapM_nil, Option.pure_def, Option.some.injEq] at h
    subst h; rfl
  | cons i rest ih =>
    have hi : i < sl.length := hlt i List.mem_cons_self
    have hget : sl[i]? = some sl[i] := List.getElem?_eq_getElem hi
    rw [List.filterMap_cons_some hget] at h
    obtain ⟨v, vs, hv, hvs, rfl⟩ := mapM_cons_some.1 h
    rw [ih (fun j hj => hlt j (List.mem_cons_of_mem _ hj)) hvs]
    unfold keyAt
    rw [List.map_cons, projRow_getElem? hget]
    simp only [pv, hv, Option.getD_some]

/-! ### the empty input without GROUP BY -/

theorem findColumn_nil (c : ColRef) (i : Nat) : findColumn c [] ≠ .ok i := by
  unfold findColumn lookupFieldIdx lookupColIdxByID
  split <;> simp

/-- one row of zeros: the cells of the executor and of the specification -/
theorem zero_cell_iff (d : DerivedCol) (v : Val) :
    (match d.item with
      | .count _ => (pure (Val.int 0) : X Val)
      | .avg _ => pure (Val.int 0)
      | .expr c => evaluate c [] []
      | .star => X.err .nothingToEvaluate) = .ok v ↔
    (if isAgg d.item then some (Val.int 0) else itemVal d.item [] []) = some v := by
  cases d.item with
  | count c => simp [isAgg]
  | avg c => simp [isAgg]
  | star => simp [isAgg, itemVal, projectItem]
  | expr e =>
    simp only [isAgg, Bool.false_eq_true, if_false, itemVal_some_iff]
    cases e with
    | val w =>
      cases w with
      | lit l => exact Iff.rfl
      | col c =>
        simp only [evaluate, projectItem]
        constructor
        · intro h; cases h
        · intro h
          obtain ⟨i, hi, _⟩ := bind_eq_ok.1 h
          exact absurd hi (findColumn_nil c i)
    | pred p => exact Iff.rfl
    | and p r => exact Iff.rfl
    | or l r => exact Iff.rfl

theorem eraseDups_const {α : Type} (c : List Val) (l : List α) (h : l ≠ []) :
    (l.map fun _ => c).eraseDups = [c] := by
  cases l with
  | nil => exact absurd rfl h
  | cons a t =>
    rw [List.map_cons, List.eraseDups_cons]
    have : (List.filter (fun b => !b == c) (t.map fun _ => c)) = [] := by
      rw [List.filter_eq_nil_iff]
      intro b hb
      obtain ⟨_, _, rfl⟩ := List.mem_map.1 hb
      simp
    rw [this]
    rfl

/-! ### `aggregateRows`, unfolded -/

/-- the cells of the one row of zeros -/
def zeroCell (d : DerivedCol) : X Val :=
  match d.item with
  | .count _ => pure (Val.int 0)
  | .avg _ => pure (Val.int 0)
  | .expr c => evaluate c [] []
  | .star => X.err .nothingToEvaluate

theorem aggregateRows_zero {sl : List DerivedCol} {gb : List ColRef}
    (hnp : (!hasAggr sl && gb.isEmpty) = false) (hgb : gb = []) :
    aggregateRows sl gb [] = (mapX zeroCell sl >>= fun r => pure [r]) := by
  subst hgb
  simp only [List.isEmpty_nil] at hnp
  unfold aggregateRows
  simp only [List.isEmpty_nil, hnp, Bool.and_self, Bool.false_eq_true, if_false, if_true]
  rfl

/-- (after a select list that starts with `*` the rows are not projected and `aggregateStar` runs
instead: the same on no rows) -/
theorem aggregateRows_grouped {sl : List DerivedCol} {gb : List ColRef} {rows : List Row}
    (hnp : (!hasAggr sl && gb.isEmpty) = false) (hne : (gb.isEmpty && rows.isEmpty) = false)
    (hs : isStar sl = false ∨ rows = []) :
    aggregateRows sl gb rows = (NoPanicP.groupIdxs sl gb >>= fun idxs =>
      mapX (fun g => mapX (fun (p : Nat × DerivedCol) => aggCell p.2.item p.1 g)
        ((List.range sl.length).zip sl)) (groupsOf (keyAt idxs) rows)) := by
  unfold aggregateRows
  simp only [hnp, hne, Bool.false_eq_true, if_false]
  rcases hs with hs | rfl
  · simp only [hs, Bool.false_eq_true, if_false]
    rfl
  · refine congrArg (NoPanicP.groupIdxs sl gb >>= ·) (funext fun idxs => ?_)
    cases isStar sl <;> rfl

/-- a select list that starts with `*` has no value on any row: `Projects` of it is of no rows -/
theorem projects_star_nil {sl : List DerivedCol} {fields : List Field} {src : List Row}
    (hproj : Projects sl fields src) : isStar sl = false ∨ src = [] := by
  cases hs : isStar sl with
  | false => exact .inl rfl
  | true =>
    right
    cases src with
    | nil => rfl
    | cons r rs =>
      exfalso
      cases sl with
      | nil => cases hs
      | cons d rest =>
        have hd : d.item = SelItem.star := by simpa [isStar] using hs
        have h := hproj r (List.mem_cons_self ..) d (List.mem_cons_self ..)
        rw [hd] at h
        cases h

/-! ### `aggregateRows` = the grouping part of the meaning -/

/-- **GROUP BY / aggregates, executor = specification**: on the projected rows of `src`,
`aggregateRows` answers `out` exactly when the grouping part of the meaning of the query on `src`
is `out` - same groups in the same (first-occurrence) order, same counts, same representative for
the non-aggregate elements, the one row of zeros for an empty input without GROUP BY.  (Hypotheses:
the select list or the GROUP BY asks for grouping, `hnp`; every select-list element has a value on
every row, `hproj`; everything but the COUNTs is constant on each group, `hconst`: the reference
meaning demands it of the non-aggregate elements, and for an `AVG` it is the case in which the
code's cumulative average is the mean.) -/
theorem aggregate_agree {q : Select} {fields : List Field} {src out : List Row}
    (hnp : (!hasAggr q.list && q.groupBy.isEmpty) = false)
    (hres : ColumnsResolve q.list fields) (hproj : Projects q.list fields src)
    (hconst : ∀ idxs, q.groupBy.mapM (groupIdx q.list) = some idxs →
      GroupConst q.list fields (keyAt idxs) src) :
    aggregateRows q.list q.groupBy (src.map (projRow q.list fields)) = .ok out ↔
      specAgg q fields src = some out := by
  by_cases hz : q.groupBy = [] ∧ src = []
  · obtain ⟨hgb, rfl⟩ := hz
    rw [List.map_nil, aggregateRows_zero hnp hgb]
    unfold specAgg
    simp only [hgb, List.mapM_nil, Option.pure_def, Option.bind_eq_bind, Option.bind_some,
      List.isEmpty_nil, if_true]
    have hrow : ∀ row, mapX zeroCell q.list = .ok row ↔
        q.list.mapM (fun d => if isAgg d.item then some (Val.int 0) else itemVal d.item [] []) = some row :=
      fun row => mapX_ok_iff_mapM (fun d _ v => zero_cell_iff d v)
    rw [bind_eq_ok, option_bind_some]
    constructor
    · rintro ⟨r, hr, h⟩
      simp only [pure_eq_ok, X.ok.injEq] at h
      exact ⟨r, (hrow r).1 hr, by rw [h]⟩
    · rintro ⟨r, hr, h⟩
      simp only [Option.some.injEq] at h
      exact ⟨r, (hrow r).2 hr, by rw [h]; rfl⟩
  · have hne : (q.groupBy.isEmpty && (src.map (projRow q.list fields)).isEmpty) = false := by
      cases hg : q.groupBy with
      | cons g gs => rfl
      | nil =>
        cases hsrc : src with
        | nil => exact absurd ⟨hg, hsrc⟩ hz
        | cons r rs => rfl
    rw [aggregateRows_grouped hnp hne ((projects_star_nil hproj).imp id (fun e => by rw [e]; rfl))]
    cases hgi : q.groupBy.mapM (groupIdx q.list) with
    | none =>
      constructor
      · intro h
        obtain ⟨idxs, hi, _⟩ := bind_eq_ok.1 h
        rw [groupIdxs_iff.1 hi] at hgi
        cases hgi
      · intro h
        unfold specAgg at h
        simp only [hgi, Option.bind_eq_bind, Option.bind_none] at h
        cases h
    | some idxs =>
      have hX := groupIdxs_iff.2 hgi
      have hkeys : src.mapM (fun r => (idxs.filterMap fun i => q.list[i]?).mapM
          (fun d => itemVal d.item fields r)) = some (src.map fun r => keyAt idxs (projRow q.list fields r)) :=
        mapM_eq_some_map (fun r hr => keyOf_eq (mapM_groupIdx_lt hgi) (hproj r hr))
      unfold specAgg
      simp only [hX, bind_ok, hgi, Option.bind_eq_bind, Option.bind_some, hkeys]
      obtain ⟨out0, hM, hS⟩ := groups_agree (keyAt idxs) hproj hres (hconst idxs hgi)
      rw [hM]
      have hR : (if q.groupBy.isEmpty = true then
          (List.mapM (fun d => if src.isEmpty = true then
              (if isAgg d.item = true then some (Val.int 0) else itemVal d.item [] [])
              else aggVal d.item fields src) q.list).bind fun row => pure [row]
          else List.mapM (fun k => List.mapM (fun d => aggVal d.item fields
                (List.filterMap (fun x => if (x.snd == k) = true then some x.fst else none)
                  (src.zip (List.map (fun r => keyAt idxs (projRow q.list fields r)) src)))) q.list)
            (distinctKeys (List.map (fun r => keyAt idxs (projRow q.list fields r)) src))) = some out0 := by
        cases hg : q.groupBy with
        | cons g gs =>
          simp only [List.isEmpty_cons, Bool.false_eq_true, if_false, zip_map_filterMap_key]
          exact hS
        | nil =>
          have hsrc : src ≠ [] := fun e => hz ⟨hg, e⟩
          rw [hg] at hgi
          simp only [List.mapM_nil, Option.pure_def, Option.some.injEq] at hgi
          subst hgi
          have hk : (fun r => keyAt [] (projRow q.list fields r)) = fun (_ : Row) => ([] : List Val) := rfl
          rw [hk] at hS
          unfold distinctKeys at hS
          rw [eraseDups_const [] src hsrc] at hS
          have hsi : src.isEmpty = false := by
            cases src with
            | nil => exact absurd rfl hsrc
            | cons _ _ => rfl
          simp only [List.isEmpty_nil, if_true, hsi, Bool.false_eq_true, if_false]
          obtain ⟨row, rows, hrow, hrows, rfl⟩ := mapM_cons_some.1 hS
          simp only [List.mapM_nil, Option.pure_def, Option.some.injEq] at hrows
          subst hrows
          have hfs : src.filter (fun r => keyAt [] (projRow q.list fields r) == []) = src :=
            List.filter_eq_self.2 (fun _ _ => rfl)
          rw [hfs] at hrow
          rw [hrow]
          rfl
      rw [hR]
      simp only [X.ok.injEq, Option.some.injEq]

end Mkdb.Exec.MeaningP
