import Mkdb.Proofs.CreateDefs
/-!
`MemFiled` ("every cached page object is filed under the offset it carries") is an invariant of
every operation of the page store, up to and including `createTable` and `insert`.

The cache is only ever written through `assocSet mem (nodeOff n) ⟨n, _⟩` (`fetch`, `putNode`),
`assocSet mem off ⟨setLSN m.node lsn, true⟩` where `m` was found under `off` (`markDirty`),
`assocSet mem off ⟨setOff n off, d⟩` (`appendNode`) and `assocSet mem off ⟨m.node, false⟩` where
`m` was found under `off` (`flushPages`).  `KeepsFiled m` is the closure predicate, in the style of
`Keeps` (RefineStmt3).
-/
set_option autoImplicit false
namespace Mkdb.Store
open Mkdb.Page Mkdb.Tuple Mkdb.Generated Mkdb.Tree

/-! ### association lists and offsets -/

/-- every element of `assocSet l k v` is an element of `l` or is the new binding -/
theorem mem_assocSet {β} {l : List (Nat × β)} {k : Nat} {v : β} {p : Nat × β}
    (h : p ∈ assocSet l k v) : p ∈ l ∨ p = (k, v) := by
  unfold assocSet at h
  split at h
  · rw [List.mem_map] at h
    obtain ⟨q, hq, e⟩ := h
    split at e
    · exact .inr e.symm
    · exact .inl (e ▸ hq)
  · rw [List.mem_append, List.mem_singleton] at h
    exact h

/-- what `assocGet` finds under `k` is bound to `k` in the list -/
theorem assocGet_mem {β} {l : List (Nat × β)} {k : Nat} {m : β} (h : assocGet l k = some m) :
    (k, m) ∈ l := by
  unfold assocGet at h
  rw [Option.map_eq_some_iff] at h
  obtain ⟨p, hp, e⟩ := h
  have h1 := List.find?_some hp
  have h2 := List.mem_of_find?_eq_some hp
  simp only [beq_iff_eq] at h1
  have : p = (k, m) := by rw [← h1, ← e]
  rw [← this]
  exact h2

theorem nodeOff_setLSN (n : Node) (lsn : Nat) : nodeOff (setLSN n lsn) = nodeOff n := by
  cases n <;> rfl

theorem nodeOff_setOff (n : Node) (off : Nat) : nodeOff (setOff n off) = off := by
  cases n <;> rfl

/-- `MemFiled` only looks at the cache -/
theorem MemFiled.of_mem_eq {s s' : Store} (hf : MemFiled s) (h : s'.mem = s.mem) : MemFiled s' := by
  intro p hp
  rw [h] at hp
  exact hf p hp

/-- filing a page object under the offset it carries keeps the cache filed -/
theorem MemFiled.set {s s' : Store} (hf : MemFiled s) {k : Nat} {v : MNode}
    (hv : nodeOff v.node = k) (h : s'.mem = assocSet s.mem k v) : MemFiled s' := by
  intro p hp
  rw [h] at hp
  rcases mem_assocSet hp with h1 | h1
  · exact hf p h1
  · rw [h1]; exact hv

/-- the page object found under `off` carries `off` -/
theorem MemFiled.get {s : Store} (hf : MemFiled s) {off : Nat} {m : MNode}
    (h : assocGet s.mem off = some m) : nodeOff m.node = off :=
  hf (off, m) (assocGet_mem h)

/-! ### the closure predicate -/

/-- `m` keeps every cached page filed under its own offset -/
def KeepsFiled {α} (m : SM α) : Prop :=
  ∀ s, MemFiled s → match m s with
    | .ok _ s' => MemFiled s'
    | .err _ s' => MemFiled s'
    | _ => True

theorem KeepsFiled.ok {α} {m : SM α} (h : KeepsFiled m) {s s' : Store} {a : α} (hf : MemFiled s)
    (e : m s = .ok a s') : MemFiled s' := by have := h s hf; rw [e] at this; exact this

theorem KeepsFiled.err {α} {m : SM α} (h : KeepsFiled m) {s s' : Store} {x : SErr} (hf : MemFiled s)
    (e : m s = .err x s') : MemFiled s' := by have := h s hf; rw [e] at this; exact this

theorem KeepsFiled.pure {α} (a : α) : KeepsFiled (pure a : SM α) := fun _ hf => hf
theorem KeepsFiled.throw {α} (e : SErr) : KeepsFiled (throw e : SM α) := fun _ hf => hf
theorem KeepsFiled.panicS {α} (w : String) : KeepsFiled (panicS w : SM α) := fun _ _ => trivial
theorem KeepsFiled.unmodelledS {α} (w : String) : KeepsFiled (unmodelledS w : SM α) := fun _ _ => trivial
theorem KeepsFiled.outOfFuel {α} : KeepsFiled (outOfFuel : SM α) := fun _ _ => trivial
theorem KeepsFiled.getS : KeepsFiled getS := fun _ hf => hf

/-- a state update that leaves the cache alone -/
theorem KeepsFiled.modifyS {f : Store → Store} (h : ∀ s, (f s).mem = s.mem) : KeepsFiled (modifyS f) :=
  fun s hf => hf.of_mem_eq (h s)

theorem KeepsFiled.bind {α β} {m : SM α} {f : α → SM β} (hm : KeepsFiled m) (hf : ∀ a, KeepsFiled (f a)) :
    KeepsFiled (m >>= f) := by
  intro s hs
  rw [bind_def]
  cases e : m s with
  | ok a s1 => exact hf a s1 (hm.ok hs e)
  | err x s1 => exact hm.err hs e
  | panic p => trivial
  | unmodelled w => trivial
  | fuel => trivial

theorem KeepsFiled.ite {α} {c : Prop} [Decidable c] {a b : SM α} (ha : KeepsFiled a) (hb : KeepsFiled b) :
    KeepsFiled (if c then a else b) := by
  split
  · exact ha
  · exact hb

/-! ### the primitives -/

theorem KeepsFiled.fetch (off : Nat) : KeepsFiled (fetch off) := by
  intro s hf
  unfold Store.fetch
  cases assocGet s.mem off with
  | some m => exact hf
  | none => exact hf.set (v := ⟨_, false⟩) rfl rfl

theorem KeepsFiled.putNode (n : Node) (d : Option Bool) : KeepsFiled (putNode n d) := by
  intro s hf
  unfold Store.putNode
  exact hf.set (v := ⟨n, _⟩) rfl rfl

theorem KeepsFiled.markDirty (off lsn : Nat) : KeepsFiled (markDirty off lsn) := by
  intro s hf
  unfold Store.markDirty
  cases e : assocGet s.mem off with
  | none => trivial
  | some m =>
    exact hf.set (v := ⟨setLSN m.node lsn, true⟩) ((nodeOff_setLSN _ _).trans (hf.get e)) rfl

theorem KeepsFiled.appendNode (n : Node) (d : Bool) : KeepsFiled (appendNode n d) := by
  intro s hf
  unfold Store.appendNode
  exact hf.set (v := ⟨setOff n s.hdr.nextFree, d⟩) (nodeOff_setOff _ _) rfl

theorem KeepsFiled.decodeRow (sch : List FieldDef) (bs : Bytes) : KeepsFiled (decodeRow sch bs) := by
  intro s hf
  unfold Store.decodeRow
  cases decodeTuple sch bs [] <;> exact hf

theorem KeepsFiled.encodeRow (sch : List FieldDef) (m : Vals) : KeepsFiled (encodeRow sch m) := by
  intro s hf
  unfold Store.encodeRow
  cases encodeTuple sch m with
  | ok b => exact hf
  | error e => cases e <;> exact hf

/-- one structural step of a `KeepsFiled` proof -/
macro "kf_step" : tactic =>
  `(tactic| first
    | exact KeepsFiled.pure _
    | exact KeepsFiled.getS
    | exact KeepsFiled.fetch _
    | exact KeepsFiled.putNode _ _
    | exact KeepsFiled.appendNode _ _
    | exact KeepsFiled.markDirty _ _
    | exact KeepsFiled.throw _
    | exact KeepsFiled.panicS _
    | exact KeepsFiled.unmodelledS _
    | exact KeepsFiled.outOfFuel
    | exact KeepsFiled.decodeRow _ _
    | exact KeepsFiled.encodeRow _ _
    | assumption
    | refine KeepsFiled.bind ?_ (fun _ => ?_)
    | split)

/-! ### the B-tree insert -/

theorem KeepsFiled.leafSplitUp (parent : Option Nat) (curOff newOff newKey lsn root : Nat) :
    KeepsFiled (leafSplitUp parent curOff newOff newKey lsn root) := by
  unfold Store.leafSplitUp
  cases parent with
  | none =>
    exact (KeepsFiled.appendNode _ _).bind fun _ => (KeepsFiled.markDirty _ _).bind fun _ =>
      (KeepsFiled.markDirty _ _).bind fun _ => (KeepsFiled.markDirty _ _).bind fun _ => KeepsFiled.pure _
  | some pOff =>
    refine (KeepsFiled.fetch _).bind fun p => ?_
    cases p with
    | leaf l => exact KeepsFiled.panicS _
    | internal pn =>
      simp only
      cases pn.cells.getLast? with
      | none => exact KeepsFiled.panicS _
      | some last =>
        simp only
        exact KeepsFiled.ite ((KeepsFiled.putNode _ _).bind fun _ => (KeepsFiled.markDirty _ _).bind fun _ =>
          (KeepsFiled.markDirty _ _).bind fun _ => (KeepsFiled.markDirty _ _).bind fun _ => KeepsFiled.pure _)
          (KeepsFiled.unmodelledS _)

theorem KeepsFiled.leafSplit (parent : Option Nat) (cur1 : Leaf) (lsn root : Nat) :
    KeepsFiled (leafSplit parent cur1 lsn root) := by
  unfold Store.leafSplit
  exact (KeepsFiled.appendNode _ _).bind fun _ => (KeepsFiled.putNode _ _).bind fun _ =>
    (KeepsFiled.putNode _ _).bind fun _ => KeepsFiled.leafSplitUp _ _ _ _ _ _

theorem KeepsFiled.insertLeaf (parent : Option Nat) (cur : Leaf) (key lsn : Nat) (value : Bytes) (root : Nat) :
    KeepsFiled (insertLeaf parent cur key lsn value root) := by
  rw [insertLeaf_eq]
  exact KeepsFiled.ite (KeepsFiled.throw _) (KeepsFiled.ite (KeepsFiled.throw _)
    (KeepsFiled.ite (KeepsFiled.unmodelledS _) (KeepsFiled.ite (KeepsFiled.unmodelledS _)
    ((KeepsFiled.putNode _ _).bind fun _ => KeepsFiled.ite (KeepsFiled.pure _) (KeepsFiled.leafSplit _ _ _ _)))))

theorem KeepsFiled.intSplitUp (parent : Option Nat) (curOff newOff midKey lsn root1 : Nat) :
    KeepsFiled (intSplitUp parent curOff newOff midKey lsn root1) := by
  unfold Store.intSplitUp
  cases parent with
  | none =>
    exact (KeepsFiled.appendNode _ _).bind fun _ => (KeepsFiled.markDirty _ _).bind fun _ =>
      (KeepsFiled.markDirty _ _).bind fun _ => KeepsFiled.pure _
  | some pOff =>
    refine (KeepsFiled.fetch _).bind fun p => ?_
    cases p with
    | leaf l => exact KeepsFiled.panicS _
    | internal pn =>
      exact (KeepsFiled.putNode _ _).bind fun _ => (KeepsFiled.markDirty _ _).bind fun _ =>
        (KeepsFiled.markDirty _ _).bind fun _ => KeepsFiled.pure _

theorem KeepsFiled.afterChild (parent : Option Nat) (curOff lsn root1 : Nat) :
    KeepsFiled (afterChild parent curOff lsn root1) := by
  unfold Store.afterChild
  refine (KeepsFiled.fetch _).bind fun me => ?_
  cases me with
  | leaf l => exact KeepsFiled.panicS _
  | internal c1 =>
    exact KeepsFiled.ite (KeepsFiled.pure _) ((KeepsFiled.appendNode _ _).bind fun _ =>
      (KeepsFiled.putNode _ _).bind fun _ => KeepsFiled.intSplitUp _ _ _ _ _ _)

theorem KeepsFiled.insertInternal : ∀ (fuel : Nat) (parent : Option Nat) (cur : Internal) (key lsn : Nat)
    (value : Bytes) (root : Nat), KeepsFiled (insertInternal fuel parent cur key lsn value root)
  | 0, _, _, _, _, _, _ => KeepsFiled.outOfFuel
  | fuel+1, parent, cur, key, lsn, value, root => by
    rw [insertInternal_eq]
    refine KeepsFiled.ite (KeepsFiled.throw _) ((KeepsFiled.fetch _).bind fun child => ?_)
    cases child with
    | leaf l => exact (KeepsFiled.insertLeaf _ _ _ _ _ _).bind fun _ => KeepsFiled.afterChild _ _ _ _
    | internal i =>
      exact (KeepsFiled.insertInternal fuel _ _ _ _ _ _).bind fun _ => KeepsFiled.afterChild _ _ _ _

theorem KeepsFiled.insertKeyHeap (bt : BT) (key lsn : Nat) (value : Bytes) :
    KeepsFiled (Store.insertKeyHeap bt key lsn value) := by
  have hkh : Store.insertKeyHeap bt key lsn value =
      (Store.fetch bt.root >>= fun pg =>
        match pg with
        | .leaf l => Store.insertLeaf none l key lsn value bt.root >>= fun r => Pure.pure (⟨r⟩ : BT)
        | .internal i => Store.insertInternal treeFuel none i key lsn value bt.root >>= fun r => Pure.pure (⟨r⟩ : BT)) := rfl
  rw [hkh]
  refine (KeepsFiled.fetch _).bind fun pg => ?_
  cases pg with
  | leaf l => exact (KeepsFiled.insertLeaf _ _ _ _ _ _).bind fun _ => KeepsFiled.pure _
  | internal i => exact (KeepsFiled.insertInternal _ _ _ _ _ _ _).bind fun _ => KeepsFiled.pure _

/-- the `ghost` counter is not the cache -/
theorem KeepsFiled.insertKey (bt : BT) (key lsn : Nat) (value : Bytes) :
    KeepsFiled (Store.insertKey bt key lsn value) := by
  intro s hf
  have h := KeepsFiled.insertKeyHeap bt key lsn value s hf
  unfold Store.insertKey
  simp only
  cases e : Store.insertKeyHeap bt key lsn value s with
  | ok a s1 =>
    rw [e] at h
    by_cases hg : ghostAgrees s bt key lsn value (.ok a s1) = true
    · rw [if_pos hg]; exact h
    · rw [if_neg hg]; exact h.of_mem_eq rfl
  | err x s1 =>
    rw [e] at h
    by_cases hg : ghostAgrees s bt key lsn value (.err x s1) = true
    · rw [if_pos hg]; exact h
    · rw [if_neg hg]; exact h.of_mem_eq rfl
  | panic p =>
    by_cases hg : ghostAgrees s bt key lsn value (.panic p) = true
    · rw [if_pos hg]; trivial
    · rw [if_neg hg]; trivial
  | unmodelled w =>
    by_cases hg : ghostAgrees s bt key lsn value (.unmodelled w) = true
    · rw [if_pos hg]; trivial
    · rw [if_neg hg]; trivial
  | fuel =>
    by_cases hg : ghostAgrees s bt key lsn value .fuel = true
    · rw [if_pos hg]; trivial
    · rw [if_neg hg]; trivial

/-- the counter bump touches only the header -/
theorem KeepsFiled.btInsert (bt : BT) (value : Bytes) : KeepsFiled (Store.btInsert bt value) := by
  intro s hf
  have h := KeepsFiled.insertKey bt (s.hdr.lastKey + 1) s.hdr.nextLSN value s hf
  unfold Store.btInsert
  simp only
  cases e : Store.insertKey bt (s.hdr.lastKey + 1) s.hdr.nextLSN value s with
  | ok a s1 => rw [e] at h; exact h.of_mem_eq rfl
  | err x s1 => rw [e] at h; exact h.of_mem_eq rfl
  | panic p => trivial
  | unmodelled w => trivial
  | fuel => trivial

end Mkdb.Store
