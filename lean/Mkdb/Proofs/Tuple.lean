import Mkdb.Model.Tuple
import Mkdb.Proofs.Page
namespace Mkdb.Tuple
open Mkdb.Bin Mkdb.Page

theorem decI4_encI4 (i : Int) (rest : Bytes) (h1 : -2147483648 ≤ i) (h2 : i ≤ 2147483647) :
    decI 4 (encI 4 i ++ rest) = some (i, rest) := by
  have hp : (256 : Nat) ^ 4 = 4294967296 := by decide
  simp only [decI, encI, decLE_encLE, hp]
  congr 2
  have : ((i % ((4294967296 : Nat) : Int)).toNat % 4294967296 : Nat) = (i % 4294967296).toNat := by
    apply Nat.mod_eq_of_lt; omega
  simp only [this]
  split <;> omega

theorem decI8_encI8 (i : Int) (rest : Bytes) (h1 : -9223372036854775808 ≤ i) (h2 : i ≤ 9223372036854775807) :
    decI 8 (encI 8 i ++ rest) = some (i, rest) := by
  have hp : (256 : Nat) ^ 8 = 18446744073709551616 := by decide
  simp only [decI, encI, decLE_encLE, hp]
  congr 2
  have : ((i % ((18446744073709551616 : Nat) : Int)).toNat % 18446744073709551616 : Nat) = (i % 18446744073709551616).toNat := by
    apply Nat.mod_eq_of_lt; omega
  simp only [this]
  split <;> omega

/-- Decoding the encoding of one column gives the value back (`none` for NULL). -/
theorem decField_encField (fd : FieldDef) (v : Val) (hv : ValidVal v) (b rest : Bytes)
    (h : encField fd v = .ok b) :
    decField fd (b ++ rest) = .ok ((if v = .null then none else some v), rest) := by
  cases v with
  | null =>
    simp only [encField] at h
    cases h
    simp [decField, encBool, decBool]
  | int i =>
    simp only [encField, validate] at h
    cases hty : fd.ty <;> simp only [hty] at h
    · -- int
      by_cases hr : i > 2147483647 ∨ i < -2147483648
      · simp [hr] at h
      · simp only [hr, ↓reduceIte] at h
        cases h
        have hr' : -2147483648 ≤ i ∧ i ≤ 2147483647 := by omega
        simp [decField, encBool, decBool, hty, decI4_encI4 i rest hr'.1 hr'.2]
    · cases h
    · cases h
    · cases h
      simp only [ValidVal] at hv
      simp [decField, encBool, decBool, hty, decI8_encI8 i rest hv.1 hv.2]
  | str s =>
    simp only [encField, validate] at h
    cases hty : fd.ty <;> simp only [hty] at h
    · cases h
    · cases h
      simp only [ValidVal] at hv
      simp [decField, encBool, decBool, hty, List.append_assoc, decU32_enc _ _ hv, readN_append]
    · cases h
    · cases h
  | bool bb =>
    simp only [encField, validate] at h
    cases hty : fd.ty <;> simp only [hty] at h
    · cases h
    · cases h
    · cases h
      cases bb <;> simp [decField, encBool, decBool, hty]
    · cases h

theorem encField_ok_iff (fd : FieldDef) (v : Val) :
    (∃ b, encField fd v = .ok b) ↔ v = .null ∨ validate fd v = .ok () := by
  cases v with
  | null => simp [encField]
  | int i =>
    cases hty : fd.ty
    · by_cases hc : i > 2147483647 ∨ i < -2147483648 <;> simp [encField, validate, hty, hc]
    all_goals simp [encField, validate, hty]
  | str s => cases hty : fd.ty <;> simp [encField, validate, hty]
  | bool b => cases hty : fd.ty <;> simp [encField, validate, hty]

theorem get_cons_ne (m : Vals) (k k' : String) (v : Val) (h : k' ≠ k) :
    get ((k', v) :: m) k = get m k := by
  simp [get, h]

theorem get_cons_eq (m : Vals) (k : String) (v : Val) : get ((k, v) :: m) k = v := by
  simp [get]

/-- Round trip, generalised over the map accumulated so far and trailing bytes. -/
theorem decode_encode_aux (sch : List FieldDef) (vals : Vals) (hvals : ∀ k, ValidVal (get vals k))
    (hnd : (sch.map (·.name)).Nodup) (bs rest : Bytes) (m0 : Vals)
    (hfresh : ∀ fd ∈ sch, get m0 fd.name = .null)
    (h : encodeTuple sch vals = .ok bs) :
    ∃ m, decodeTuple sch (bs ++ rest) m0 = .ok m ∧
      (∀ fd ∈ sch, get m fd.name = get vals fd.name) ∧
      (∀ k, k ∉ sch.map (·.name) → get m k = get m0 k) := by
  induction sch generalizing bs m0 with
  | nil =>
    simp only [encodeTuple] at h
    cases h
    exact ⟨m0, rfl, by simp, by simp⟩
  | cons fd t ih =>
    simp only [encodeTuple] at h
    cases hb : encField fd (get vals fd.name) with
    | error e => simp [hb] at h
    | ok b =>
      simp only [hb] at h
      cases ht : encodeTuple t vals with
      | error e => simp [ht] at h
      | ok bt =>
        simp only [ht] at h
        cases h
        simp only [List.map_cons, List.nodup_cons] at hnd
        have hdec := decField_encField fd (get vals fd.name) (hvals fd.name) b (bt ++ rest) hb
        simp only [decodeTuple, List.append_assoc, hdec]
        by_cases hnull : get vals fd.name = .null
        · simp only [hnull, ↓reduceIte]
          obtain ⟨m, hm1, hm2, hm3⟩ := ih hnd.2 bt m0
            (fun fd' h' => hfresh fd' (List.mem_cons_of_mem _ h')) ht
          refine ⟨m, hm1, ?_, ?_⟩
          · intro fd' hfd'
            rcases List.mem_cons.mp hfd' with rfl | h'
            · rw [hm3 _ hnd.1, hfresh _ List.mem_cons_self, hnull]
            · exact hm2 fd' h'
          · intro k hk
            simp only [List.map_cons, List.mem_cons, not_or] at hk
            exact hm3 k hk.2
        · simp only [hnull, ↓reduceIte]
          have hfresh' : ∀ fd' ∈ t, get ((fd.name, get vals fd.name) :: m0) fd'.name = .null := by
            intro fd' h'
            have hne : fd.name ≠ fd'.name := by
              intro heq; apply hnd.1; rw [heq]; exact List.mem_map_of_mem h'
            rw [get_cons_ne _ _ _ _ hne]
            exact hfresh fd' (List.mem_cons_of_mem _ h')
          obtain ⟨m, hm1, hm2, hm3⟩ := ih hnd.2 bt ((fd.name, get vals fd.name) :: m0) hfresh' ht
          refine ⟨m, hm1, ?_, ?_⟩
          · intro fd' hfd'
            rcases List.mem_cons.mp hfd' with rfl | h'
            · rw [hm3 _ hnd.1, get_cons_eq]
            · exact hm2 fd' h'
          · intro k hk
            simp only [List.map_cons, List.mem_cons, not_or] at hk
            rw [hm3 k hk.2, get_cons_ne _ _ _ _ (Ne.symm hk.1)]

end Mkdb.Tuple
