import Mkdb.Proofs.RefineStmtB
import Mkdb.Proofs.ColumnNames
import Mkdb.Proofs.Tuple
import Mkdb.Spec.Tables
import Mkdb.Model.Engine
/-!
End-to-end refinement, part 1: the abstraction from a store under the catalog invariant `Cat` to the
plain in-memory specification `Mkdb.Spec.SDB` (`absTable`, `Abs`, `valsOf`), the bridge between the
spec's helper functions and the model's (`nameStr`/`nameOfBytes`, `litVal`/`litToVal`, the column
list of an INSERT), the row codec round trip without any hypothesis on the column names
(`decode_encode_any`), and the agreement of the spec's `rowOf` with the model's encoder
(`specRowOf_some_iff`, `specRowOf_none_iff`, `rowOf_new`).
-/
set_option autoImplicit false
namespace Mkdb.Store
open Mkdb.Page Mkdb.Tuple Mkdb.Generated Mkdb.Tree

/-! ### the helper functions of the spec are the model's -/

theorem nameStr_eq (b : Bytes) : Spec.nameStr b = nameOfBytes b := rfl
theorem nameStr_eq' (b : Bytes) : Spec.nameStr b = Engine.bytesToName b := rfl
theorem litVal_eq (l : Sql.Lit) : Spec.litVal l = Engine.litToVal l := by cases l <;> rfl

/-- the column list the spec uses for an INSERT is the model's `colsOf` -/
theorem specCols_eq (schema : List FieldDef) (cols : List Bytes) :
    (if cols.isEmpty then schema.map (·.name) else cols.map Spec.nameStr) =
      colsOf schema (cols.map Engine.bytesToName) := by
  unfold colsOf
  rw [List.isEmpty_map]
  rfl

/-- **INSERT, plain model ⇒ model.**  A column list the plain model accepts passes the model's
`checkColumns`; with no column list the model checks the relation's own column names, which are
distinct. -/
theorem checkColumns_of_namesOK (st : Spec.STable) (cols : List Bytes)
    (hnd : (st.cols.map (·.name)).Nodup)
    (h : Spec.namesOK st (cols.map Spec.nameStr) = true) :
    checkColumns st.cols (colsOf st.cols (cols.map Engine.bytesToName)) = none := by
  unfold colsOf
  rw [List.isEmpty_map]
  split
  · exact (checkColumns_self st.cols).mpr hnd
  · exact (namesOK_iff_checkColumns st _).mp h

/-- what the name test of `specInsert` leaves of a statement with at least one row -/
theorem specInsert_namesOK {sdb sdb' : Spec.SDB} {table : Bytes} {cols : List Bytes} {st : Spec.STable}
    {r : List Val} {rest : List (List Val)} (hfind : Spec.findTable sdb table = some st)
    (h : Spec.specInsert sdb table cols (r :: rest) = some sdb') :
    Spec.namesOK st (cols.map Spec.nameStr) = true := by
  unfold Spec.specInsert at h
  rw [hfind] at h
  simp only [Option.bind_eq_bind, Option.bind_some, List.isEmpty_cons, Bool.not_false, Bool.true_and] at h
  cases hn : Spec.namesOK st (cols.map Spec.nameStr) with
  | true => rfl
  | false => rw [hn] at h; simp at h

/-! ### `get` -/

theorem get_valid (m : Vals) (h : ∀ p ∈ m, ValidVal p.2) (k : String) : ValidVal (get m k) := by
  unfold Tuple.get
  split
  · rename_i a v hf
    exact h _ (List.mem_of_find?_eq_some hf)
  · trivial

theorem get_zip_valid (cs : List String) (vals : List Val) (h : ∀ v ∈ vals, ValidVal v) (k : String) :
    ValidVal (get (cs.zip vals).reverse k) := by
  apply get_valid
  intro p hp
  rw [List.mem_reverse] at hp
  exact h _ (List.of_mem_zip (a := p.1) (b := p.2) hp).2

theorem encodeTuple_congr (sch : List FieldDef) (m1 m2 : Vals)
    (h : ∀ fd ∈ sch, get m1 fd.name = get m2 fd.name) : encodeTuple sch m1 = encodeTuple sch m2 := by
  induction sch with
  | nil => rfl
  | cons fd t ih =>
    simp only [encodeTuple]
    rw [h fd List.mem_cons_self, ih (fun fd' h' => h fd' (List.mem_cons_of_mem _ h'))]

/-! ### the codec round trip, whatever the column names -/

/-- Round trip, generalised over the map accumulated so far and trailing bytes; column names may
repeat (columns of one name hold the one value the map has for that name). -/
theorem decode_encode_any (sch : List FieldDef) (vals : Vals)
    (hvals : ∀ fd ∈ sch, ValidVal (get vals fd.name)) (bs rest : Bytes) (m0 : Vals)
    (h : encodeTuple sch vals = .ok bs) :
    ∃ m, decodeTuple sch (bs ++ rest) m0 = .ok m ∧
      ∀ k, get m k = if (∃ fd ∈ sch, fd.name = k) ∧ get vals k ≠ .null then get vals k else get m0 k := by
  induction sch generalizing bs m0 with
  | nil =>
    simp only [encodeTuple] at h
    cases h
    exact ⟨m0, rfl, by simp⟩
  | cons fd t ih =>
    simp only [encodeTuple] at h
    cases hb : encField fd (get vals fd.name) with
    | error e => simp [hb] at h
    | ok b =>
      simp only [hb] at h
      cases ht : encodeTuple t vals with
      | error e => simp [ht] at h
      | ok bt =>
        simp only [ht] at h
        cases h
        have hdec := decField_encField fd (get vals fd.name) (hvals fd List.mem_cons_self) b (bt ++ rest) hb
        have hvt : ∀ fd' ∈ t, ValidVal (get vals fd'.name) := fun fd' h' => hvals fd' (List.mem_cons_of_mem _ h')
        simp only [decodeTuple, List.append_assoc, hdec]
        by_cases hnull : get vals fd.name = .null
        · simp only [hnull, ↓reduceIte]
          obtain ⟨m, hm1, hm2⟩ := ih hvt bt m0 ht
          refine ⟨m, hm1, ?_⟩
          intro k
          rw [hm2 k]
          by_cases hk : fd.name = k
          · subst hk
            simp [hnull]
          · simp [hk]
        · simp only [hnull, ↓reduceIte]
          obtain ⟨m, hm1, hm2⟩ := ih hvt bt ((fd.name, get vals fd.name) :: m0) ht
          refine ⟨m, hm1, ?_⟩
          intro k
          rw [hm2 k]
          by_cases hk : fd.name = k
          · subst hk
            simp [hnull, get_cons_eq]
          · simp [hk, get_cons_ne _ _ _ _ hk]

/-- **Round trip.**  Whatever `Tuple.Encode` accepts, `Tuple.Decode` returns column by column. -/
theorem roundtrip_any (sch : List FieldDef) (vals : Vals) (hvals : ∀ fd ∈ sch, ValidVal (get vals fd.name))
    (bs : Bytes) (h : encodeTuple sch vals = .ok bs) :
    ∃ m, decodeTuple sch bs [] = .ok m ∧ ∀ fd ∈ sch, get m fd.name = get vals fd.name := by
  obtain ⟨m, h1, h2⟩ := decode_encode_any sch vals hvals bs [] [] h
  rw [List.append_nil] at h1
  refine ⟨m, h1, ?_⟩
  intro fd hfd
  rw [h2 fd.name]
  split
  · rfl
  · rename_i hn
    have : get vals fd.name = .null := by
      apply Classical.byContradiction
      intro hne
      exact hn ⟨⟨fd, hfd, rfl⟩, hne⟩
    rw [this]
    rfl

/-- the row `RelationService.Fetch` builds from a freshly encoded cell -/
theorem rowOf_new (schema : List FieldDef) (m : Vals) (hvals : ∀ fd ∈ schema, ValidVal (get m fd.name))
    (buf : Bytes) (henc : encodeTuple schema m = .ok buf) (k : Nat) (del : Bool) :
    (∃ m', decodeTuple schema buf [] = .ok m') ∧
      rowOf schema ⟨k, del, buf⟩ = some (k, schema.map fun fd => get m fd.name) := by
  obtain ⟨m', h1, h2⟩ := roundtrip_any schema m hvals buf henc
  refine ⟨⟨m', h1⟩, ?_⟩
  unfold rowOf
  rw [decRow_of_decode h1]
  simp only [Option.map_some, Option.some.injEq, Prod.mk.injEq, true_and]
  apply List.map_congr_left
  intro fd hfd
  exact h2 fd hfd

/-! ### the spec's `rowOf` against the model's encoder -/

/-- the spec's `rowOf` looks at the columns of the table only -/
theorem specRowOf_some_iff (st : Spec.STable) (cols : List Bytes) (vals vs : List Val) :
    Spec.rowOf st cols vals = some vs ↔
      (colsOf st.cols (cols.map Engine.bytesToName)).length = vals.length ∧
      ∃ buf, encodeTuple st.cols ((colsOf st.cols (cols.map Engine.bytesToName)).zip vals).reverse = .ok buf ∧
        buf.length ≤ c_maxValueSize ∧
        vs = st.cols.map fun fd => get ((colsOf st.cols (cols.map Engine.bytesToName)).zip vals).reverse fd.name := by
  unfold Spec.rowOf
  simp only [specCols_eq]
  by_cases hlen : (colsOf st.cols (cols.map Engine.bytesToName)).length = vals.length
  · have hb : ((colsOf st.cols (cols.map Engine.bytesToName)).length != vals.length) = false := by simp [hlen]
    simp only [hb, Bool.false_eq_true, if_false]
    simp only [hlen, true_and]
    cases henc : encodeTuple st.cols ((colsOf st.cols (cols.map Engine.bytesToName)).zip vals).reverse with
    | error e => simp
    | ok buf =>
      simp only [Except.ok.injEq, exists_eq_left']
      by_cases hsz : buf.length > c_maxValueSize
      · simp only [hsz, if_true]
        constructor
        · intro h; cases h
        · intro h; omega
      · simp only [hsz, if_false, Option.some.injEq]
        constructor
        · intro h; exact ⟨by omega, h.symm⟩
        · intro h; exact h.2.symm
  · have hb : ((colsOf st.cols (cols.map Engine.bytesToName)).length != vals.length) = true := by simp [hlen]
    simp only [hb, if_true]
    simp only [hlen, false_and]
    constructor
    · intro h; cases h
    · intro h; exact h.elim

theorem specRowOf_none_iff (st : Spec.STable) (cols : List Bytes) (vals : List Val) :
    Spec.rowOf st cols vals = none ↔
      (colsOf st.cols (cols.map Engine.bytesToName)).length ≠ vals.length ∨
      (∃ e, encodeTuple st.cols ((colsOf st.cols (cols.map Engine.bytesToName)).zip vals).reverse = .error e) ∨
      ∃ buf, encodeTuple st.cols ((colsOf st.cols (cols.map Engine.bytesToName)).zip vals).reverse = .ok buf ∧
        buf.length > c_maxValueSize := by
  unfold Spec.rowOf
  simp only [specCols_eq]
  by_cases hlen : (colsOf st.cols (cols.map Engine.bytesToName)).length = vals.length
  · have hb : ((colsOf st.cols (cols.map Engine.bytesToName)).length != vals.length) = false := by simp [hlen]
    simp only [hb, Bool.false_eq_true, if_false]
    simp only [hlen, ne_eq, not_true_eq_false, false_or]
    cases henc : encodeTuple st.cols ((colsOf st.cols (cols.map Engine.bytesToName)).zip vals).reverse with
    | error e => simp
    | ok buf =>
      by_cases hsz : buf.length > c_maxValueSize
      · simp [hsz]
      · simp [hsz]
  · have hb : ((colsOf st.cols (cols.map Engine.bytesToName)).length != vals.length) = true := by simp [hlen]
    simp [hb, hlen]

/-! ### the abstraction -/

/-- the spec table a tree holds: the rows that decode, in key order, with their row ids -/
def absTable (name : Bytes) (schema : List FieldDef) (t : Levels) : Spec.STable :=
  ⟨name, schema, (rowsOf schema (live t)).map fun r => ⟨some r.1, r.2⟩⟩

/-- one user table against one spec table: the catalog gives the schema, no two columns of which have
one name (CREATE TABLE refuses a repeated column name), every live cell decodes with it, and the spec
table is the abstraction of the tree -/
def TblAbs (sch : Levels) (e : Bytes × Levels) (st : Spec.STable) : Prop :=
  ∃ schema, schemaOf sch e.1 = some schema ∧ (schema.map (·.name)).Nodup ∧
    (∀ c ∈ live e.2, ∃ m, decodeTuple schema c.val [] = .ok m) ∧ st = absTable e.1 schema e.2

/-- the spec database is the list of the abstractions of the user tables, in order -/
inductive AbsTables (sch : Levels) : List (Bytes × Levels) → Spec.SDB → Prop
  | nil : AbsTables sch [] []
  | cons {e : Bytes × Levels} {st : Spec.STable} {tbls : List (Bytes × Levels)} {sdb : Spec.SDB} :
      TblAbs sch e st → AbsTables sch tbls sdb → AbsTables sch (e :: tbls) (st :: sdb)

/-- **The abstraction relation**: the store holds the catalog `pt`, `sch`, `tbls`, and the spec
database `sdb` is what its user tables hold. -/
structure Abs (s : Store) (pt sch : Levels) (tbls : List (Bytes × Levels)) (sdb : Spec.SDB) : Prop where
  cat : Cat s pt sch tbls
  tabs : AbsTables sch tbls sdb

/-- a spec database without the row ids -/
def valsOf (sdb : Spec.SDB) : List (Bytes × List FieldDef × List (List Val)) :=
  sdb.map fun t => (t.name, t.cols, t.rows.map (·.vals))

theorem TblAbs.name {sch : Levels} {e : Bytes × Levels} {st : Spec.STable} (h : TblAbs sch e st) :
    st.name = e.1 := by
  obtain ⟨schema, _, _, _, rfl⟩ := h
  rfl

theorem AbsTables.map {sch : Levels} (f : Bytes × Levels → Bytes × Levels) (g : Spec.STable → Spec.STable)
    {tbls : List (Bytes × Levels)} {sdb : Spec.SDB} (h : AbsTables sch tbls sdb)
    (hfg : ∀ e st, e ∈ tbls → TblAbs sch e st → TblAbs sch (f e) (g st)) :
    AbsTables sch (tbls.map f) (sdb.map g) := by
  induction h with
  | nil => exact .nil
  | cons hx _ ih =>
    exact .cons (hfg _ _ List.mem_cons_self hx) (ih (fun e st he => hfg e st (List.mem_cons_of_mem _ he)))

theorem AbsTables.names {sch : Levels} {tbls : List (Bytes × Levels)} {sdb : Spec.SDB}
    (h : AbsTables sch tbls sdb) : sdb.map (·.name) = tbls.map (·.1) := by
  induction h with
  | nil => rfl
  | cons hx _ ih => simp only [List.map_cons, ih, hx.name]

/-- the spec finds the abstraction of the table the catalog has under that name -/
theorem AbsTables.find {sch : Levels} {tbls : List (Bytes × Levels)} {sdb : Spec.SDB}
    (h : AbsTables sch tbls sdb) (hnd : (tbls.map (·.1)).Nodup) {table : Bytes} {t : Levels}
    (ht : (table, t) ∈ tbls) :
    ∃ schema, schemaOf sch table = some schema ∧
      (∀ c ∈ live t, ∃ m, decodeTuple schema c.val [] = .ok m) ∧
      Spec.findTable sdb table = some (absTable table schema t) := by
  induction h with
  | nil => cases ht
  | cons hx hrest ih =>
    rename_i e st tbls' sdb'
    simp only [List.map_cons, List.nodup_cons] at hnd
    unfold Spec.findTable
    rcases List.mem_cons.mp ht with rfl | ht'
    · obtain ⟨schema, h1, _, h2, rfl⟩ := hx
      refine ⟨schema, h1, h2, ?_⟩
      simp [absTable]
    · have hne : st.name ≠ table := by
        rw [hx.name]
        intro heq
        exact hnd.1 (heq ▸ List.mem_map.mpr ⟨(table, t), ht', rfl⟩)
      obtain ⟨schema, h1, h2, h3⟩ := ih hnd.2 ht'
      refine ⟨schema, h1, h2, ?_⟩
      have hb : (st.name == table) = false := by simpa using hne
      simp only [List.find?_cons, hb]
      exact h3

/-- the columns of a user table have distinct names -/
theorem AbsTables.names_nodup {sch : Levels} {tbls : List (Bytes × Levels)} {sdb : Spec.SDB}
    (h : AbsTables sch tbls sdb) {table : Bytes} {t : Levels} (ht : (table, t) ∈ tbls)
    {schema : List FieldDef} (hsch : schemaOf sch table = some schema) : (schema.map (·.name)).Nodup := by
  induction h with
  | nil => cases ht
  | cons hx hrest ih =>
    rcases List.mem_cons.mp ht with rfl | ht'
    · obtain ⟨schema', h1, hnd, _, _⟩ := hx
      simp only at h1
      rw [hsch] at h1
      cases h1
      exact hnd
    · exact ih ht'

/-- a name the catalog does not have is unknown to the spec -/
theorem AbsTables.find_none {sch : Levels} {tbls : List (Bytes × Levels)} {sdb : Spec.SDB}
    (h : AbsTables sch tbls sdb) {table : Bytes} (hn : table ∉ tbls.map (·.1)) :
    Spec.findTable sdb table = none := by
  unfold Spec.findTable
  rw [List.find?_eq_none]
  intro st hst hb
  have : st.name ∈ sdb.map (·.name) := List.mem_map.mpr ⟨st, hst, rfl⟩
  rw [h.names] at this
  simp only [beq_iff_eq] at hb
  exact hn (hb ▸ this)

/-- a table the spec knows is a table of the catalog -/
theorem AbsTables.find_some {sch : Levels} {tbls : List (Bytes × Levels)} {sdb : Spec.SDB}
    (h : AbsTables sch tbls sdb) {table : Bytes} {st : Spec.STable}
    (hf : Spec.findTable sdb table = some st) : ∃ t, (table, t) ∈ tbls := by
  apply Classical.byContradiction
  intro hno
  have : table ∉ tbls.map (·.1) := by
    intro hm
    obtain ⟨e, he, hen⟩ := List.mem_map.mp hm
    exact hno ⟨e.2, by rw [← hen]; exact he⟩
  rw [h.find_none this] at hf
  cases hf

/-- the spec's update of the rows of one table -/
def updRows (table : Bytes) (F : List Spec.SRow → List Spec.SRow) (x : Spec.STable) : Spec.STable :=
  if x.name == table then { x with rows := F x.rows } else x

/-- **The abstraction after a change of one user table**: if the rows the new tree holds are `F` of
the rows the old tree held, the new table list abstracts to the spec database with `F` applied to
the rows of that table. -/
theorem AbsTables.setTable {sch : Levels} {tbls : List (Bytes × Levels)} {sdb : Spec.SDB}
    (h : AbsTables sch tbls sdb) (hnd : (tbls.map (·.1)).Nodup) {table : Bytes} {t : Levels}
    (ht : (table, t) ∈ tbls) (schema : List FieldDef) (hsch : schemaOf sch table = some schema) (t' : Levels)
    (hdec' : ∀ c ∈ live t', ∃ m, decodeTuple schema c.val [] = .ok m)
    (F : List Spec.SRow → List Spec.SRow)
    (hF : (absTable table schema t').rows = F (absTable table schema t).rows) :
    AbsTables sch (setTable tbls table t') (sdb.map (updRows table F)) := by
  unfold Store.setTable
  apply h.map
  intro e st he hx
  by_cases hn : e.1 = table
  · have heq : e = (table, t) := inj_of_nodup_map (·.1) tbls hnd e he (table, t) ht hn
    subst heq
    obtain ⟨schema', h1, hnd', _, rfl⟩ := hx
    simp only at h1
    rw [hsch] at h1
    simp only [Option.some.injEq] at h1
    subst h1
    simp only [if_true]
    refine ⟨schema, hsch, hnd', hdec', ?_⟩
    unfold updRows
    have hb : ((absTable table schema t).name == table) = true := by simp [absTable]
    simp only [hb, if_true]
    rw [← hF]
    rfl
  · simp only [hn, if_false]
    unfold updRows
    have hb : (st.name == table) = false := by rw [hx.name]; simpa using hn
    simp only [hb, Bool.false_eq_true, if_false]
    exact hx

theorem setTable_setTable (tbls : List (Bytes × Levels)) (table : Bytes) (t1 t2 : Levels) :
    setTable (setTable tbls table t1) table t2 = setTable tbls table t2 := by
  unfold setTable
  rw [List.map_map]
  apply List.map_congr_left
  intro e _
  simp only [Function.comp]
  by_cases hn : e.1 = table
  · simp [hn]
  · simp [hn]

theorem mem_setTable_self {tbls : List (Bytes × Levels)} {table : Bytes} {t : Levels} (t' : Levels)
    (ht : (table, t) ∈ tbls) : (table, t') ∈ setTable tbls table t' := by
  unfold setTable
  exact List.mem_map.mpr ⟨(table, t), ht, by simp⟩

theorem updRows_updRows (table : Bytes) (F G : List Spec.SRow → List Spec.SRow) (sdb : Spec.SDB) :
    (sdb.map (updRows table F)).map (updRows table G) = sdb.map (updRows table (fun r => G (F r))) := by
  rw [List.map_map]
  apply List.map_congr_left
  intro x _
  simp only [Function.comp, updRows]
  by_cases hb : (x.name == table) = true
  · simp [hb]
  · simp [hb]

/-- two updates of a table that agree on the values agree modulo row ids -/
theorem valsOf_updRows (table : Bytes) (F G : List Spec.SRow → List Spec.SRow) (sdb : Spec.SDB)
    (h : ∀ rs, (F rs).map (·.vals) = (G rs).map (·.vals)) :
    valsOf (sdb.map (updRows table F)) = valsOf (sdb.map (updRows table G)) := by
  unfold valsOf
  rw [List.map_map, List.map_map]
  apply List.map_congr_left
  intro x _
  simp only [Function.comp, updRows]
  by_cases hb : (x.name == table) = true
  · simp [hb, h]
  · simp [hb]

end Mkdb.Store
