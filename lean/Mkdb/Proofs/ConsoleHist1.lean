import Mkdb.Proofs.ConsoleEdit
/-!
Console model, editing keys continued: nested corrections (blocks of printable keys erased again by as
many backspaces, nested and repeated), and a line wiped by ^U.
-/
namespace Mkdb.Console

theorem final_append (a b : List Nat) (t : Term) : final t (a ++ b) = final (final t a) b := by
  unfold final; rw [List.foldl_append]

theorem final_nil (t : Term) : final t [] = t := rfl

/-! ## nested corrections -/

/-- `Noise m`: `m` is a balanced sequence of printable keys and backspaces - every backspace erases a
printable key typed before it inside `m`, and every key typed is erased: the empty sequence, a printable
key and a backspace around such a sequence, two such sequences one after the other. -/
inductive Noise : List Nat → Prop where
  | nil : Noise []
  | wrap (w : Nat) {m : List Nat} : isPrintable w = true → Noise m → Noise (w :: (m ++ [keyBackspace]))
  | append {a b : List Nat} : Noise a → Noise b → Noise (a ++ b)

theorem posOK_addKey (t : Term) (h : PosOK t) (k : Nat) : PosOK (addKeyToLine t k) := by
  unfold PosOK at *; simp [addKeyToLine]; omega

/-- a balanced sequence hands over nothing and leaves the state as it was -/
theorem noise_id {m : List Nat} (h : Noise m) :
    ∀ t : Term, t.pasteActive = false → PosOK t → run t m = [] ∧ final t m = t := by
  induction h with
  | nil => intros; exact ⟨rfl, rfl⟩
  | wrap w hw _ ih =>
    intro t hpa hpos
    have h1 := step_print t hw (printable_ne_enter hw)
    have hpa' : (addKeyToLine t w).pasteActive = false := hpa
    obtain ⟨r, f⟩ := ih _ hpa' (posOK_addKey t hpos w)
    have h2 := type_backspace t hpa hpos hw
    rw [h1] at h2
    constructor
    · rw [run_cons_none _ h1, run_append, r, f, run_cons_none _ h2]; rfl
    · rw [final_cons, h1, final_append, f, final_cons, h2]; rfl
  | append _ _ iha ihb =>
    intro t hpa hpos
    obtain ⟨ra, fa⟩ := iha t hpa hpos
    obtain ⟨rb, fb⟩ := ihb t hpa hpos
    constructor
    · rw [run_append, ra, fa, rb]; rfl
    · rw [final_append, fa, fb]

/-- `n` printable keys followed by `n` backspaces are balanced -/
theorem noise_block : ∀ ws : List Nat, (∀ w ∈ ws, isPrintable w = true) →
    Noise (ws ++ List.replicate ws.length keyBackspace)
  | [], _ => Noise.nil
  | w :: ws, h => by
    have ih := noise_block ws (fun x hx => h x (List.mem_cons_of_mem _ hx))
    have e : (w :: ws) ++ List.replicate (w :: ws).length keyBackspace =
        w :: ((ws ++ List.replicate ws.length keyBackspace) ++ [keyBackspace]) := by
      rw [List.length_cons, List.replicate_succ', List.cons_append, List.append_assoc]
    rw [e]
    exact Noise.wrap w (h w List.mem_cons_self) ih

/-- `CorrectedN noisy clean`: `noisy` is `clean` with any number of balanced sequences of printable
keys and backspaces (`Noise`) put in anywhere. -/
inductive CorrectedN : List Nat → List Nat → Prop where
  | nil : CorrectedN [] []
  | key (k : Nat) {n c : List Nat} : CorrectedN n c → CorrectedN (k :: n) (k :: c)
  | noise {m n c : List Nat} : Noise m → CorrectedN n c → CorrectedN (m ++ n) c

/-- the pairs of `Corrected` are a special case -/
theorem correctedN_of_corrected {n c : List Nat} (h : Corrected n c) : CorrectedN n c := by
  induction h with
  | nil => exact .nil
  | key k _ ih => exact .key k ih
  | fix w hw _ ih => exact .noise (m := [w, keyBackspace]) (Noise.wrap w hw Noise.nil) ih

/-- nested corrections change nothing: the same submissions and the same state afterwards, from every
state outside paste mode with the cursor inside the line -/
theorem run_correctedN {noisy clean : List Nat} (hc : CorrectedN noisy clean) :
    ∀ (t : Term), t.pasteActive = false → PosOK t →
      (∀ k ∈ clean, k = 13 ∨ (isPrintable k = true ∧ k ≠ 13)) →
      run t noisy = run t clean ∧ final t noisy = final t clean := by
  induction hc with
  | nil => intros; exact ⟨rfl, rfl⟩
  | key k _ ih =>
    intro t hpa hpos hv
    have hk := hv k List.mem_cons_self
    have ih' := ih (step t k).1 (by rw [step_valid_paste t hk]; exact hpa) (step_valid_posOK t hpos hk)
      (fun x hx => hv x (List.mem_cons_of_mem _ hx))
    refine ⟨?_, by rw [final_cons, final_cons]; exact ih'.2⟩
    cases h : step t k with
    | mk t' o =>
      rw [h] at ih'
      cases o with
      | none => rw [run_cons_none _ h, run_cons_none _ h]; exact ih'.1
      | some s => rw [run_cons_some _ h, run_cons_some _ h]; exact congrArg _ ih'.1
  | noise hm _ ih =>
    intro t hpa hpos hv
    obtain ⟨r, f⟩ := noise_id hm t hpa hpos
    rw [run_append, final_append, r, f]
    exact ih t hpa hpos hv

/-! ## printable keys typed at the cursor, and ^U -/

theorem take_insert_succ {l : List Nat} {p : Nat} (h : p ≤ l.length) (k : Nat) :
    (l.take p ++ k :: l.drop p).take (p + 1) = l.take p ++ [k] := by
  have : l.take p ++ k :: l.drop p = (l.take p ++ [k]) ++ l.drop p := by simp
  rw [this]
  exact List.take_left' (by rw [List.length_append, List.length_take]; simp; omega)

/-- printable keys go into the line at the cursor, in order; nothing is handed over -/
theorem type_printables : ∀ (ws : List Nat) (t : Term), PosOK t → (∀ w ∈ ws, isPrintable w = true) →
    run t ws = [] ∧
    final t ws = { t with line := t.line.take t.pos ++ ws ++ t.line.drop t.pos, pos := t.pos + ws.length }
  | [], t, _, _ => by
    refine ⟨rfl, ?_⟩
    cases t
    simp [final]
  | w :: ws, t, hpos, h => by
    have hw := h w List.mem_cons_self
    have h1 := step_print t hw (printable_ne_enter hw)
    obtain ⟨r, f⟩ := type_printables ws (addKeyToLine t w) (posOK_addKey t hpos w)
      (fun x hx => h x (List.mem_cons_of_mem _ hx))
    refine ⟨by rw [run_cons_none _ h1]; exact r, ?_⟩
    rw [final_cons, h1, f]
    unfold PosOK at hpos
    cases t with
    | mk line pos pa hist hi hp =>
      simp only [addKeyToLine] at hpos ⊢
      rw [take_insert_succ hpos, drop_insert hpos]
      simp only [List.length_cons, List.append_assoc, List.cons_append, List.nil_append, Term.mk.injEq,
        true_and, and_true]
      omega

/-- whatever printable keys were typed just before ^U are gone with it -/
theorem typed_then_ctrlU (ws : List Nat) (t : Term) (hpa : t.pasteActive = false) (hpos : PosOK t)
    (h : ∀ w ∈ ws, isPrintable w = true) :
    run t (ws ++ [keyCtrlU]) = [] ∧ final t (ws ++ [keyCtrlU]) = { t with line := t.line.drop t.pos, pos := 0 } := by
  obtain ⟨r, f⟩ := type_printables ws t hpos h
  have hpa' : (final t ws).pasteActive = false := by rw [f]; exact hpa
  have hu := step_ctrlU (final t ws) hpa'
  refine ⟨by rw [run_append, r, run_cons_none _ hu]; rfl, ?_⟩
  rw [final_append, final_cons, hu, final_nil, f]
  unfold PosOK at hpos
  cases t with
  | mk line pos pa hist hi hp =>
    simp only at hpos ⊢
    have : (List.take pos line ++ ws ++ List.drop pos line).drop (pos + ws.length) = List.drop pos line :=
      List.drop_left' (by rw [List.length_append, List.length_take]; omega)
    rw [this]

/-- with the cursor at the beginning of the line (so: on an empty line) the state is as before -/
theorem typed_then_ctrlU_id (ws : List Nat) (t : Term) (hpa : t.pasteActive = false) (hpos : t.pos = 0)
    (h : ∀ w ∈ ws, isPrintable w = true) :
    run t (ws ++ [keyCtrlU]) = [] ∧ final t (ws ++ [keyCtrlU]) = t := by
  obtain ⟨r, f⟩ := typed_then_ctrlU ws t hpa (by unfold PosOK; omega) h
  refine ⟨r, ?_⟩
  rw [f]
  cases t with
  | mk line pos pa hist hi hp =>
    simp only at hpos
    subst hpos
    rfl

/-- printable keys and Enter do not change paste mode -/
theorem final_valid_paste : ∀ (keys : List Nat) (t : Term),
    (∀ k ∈ keys, k = 13 ∨ (isPrintable k = true ∧ k ≠ 13)) → (final t keys).pasteActive = t.pasteActive
  | [], _, _ => rfl
  | k :: keys, t, hv => by
    rw [final_cons, final_valid_paste keys _ (fun x hx => hv x (List.mem_cons_of_mem _ hx)),
      step_valid_paste t (hv k List.mem_cons_self)]

/-- after printable keys and Enters that leave the line empty, printable keys wiped by ^U are as if
never typed -/
theorem run_wiped (pre junk keys : List Nat)
    (hpre : ∀ k ∈ pre, k = 13 ∨ (isPrintable k = true ∧ k ≠ 13))
    (hempty : (final {} pre).line = []) (hjunk : ∀ w ∈ junk, isPrintable w = true) :
    run {} (pre ++ junk ++ keyCtrlU :: keys) = run {} (pre ++ keys) := by
  have hpa : (final {} pre).pasteActive = false := final_valid_paste pre {} hpre
  have hpos : (final {} pre).pos = 0 := by
    have := posOK_final pre {} (Nat.le_refl _)
    unfold PosOK at this
    rw [hempty] at this
    simpa using this
  obtain ⟨r, f⟩ := typed_then_ctrlU_id junk (final {} pre) hpa hpos hjunk
  have e : pre ++ junk ++ keyCtrlU :: keys = pre ++ ((junk ++ [keyCtrlU]) ++ keys) := by simp
  rw [e, run_append, run_append (junk ++ [keyCtrlU]), r, f, List.nil_append, ← run_append]

end Mkdb.Console
