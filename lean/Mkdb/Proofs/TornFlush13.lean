import Mkdb.Proofs.TornFlush12
/-!
Torn flush without page allocation, part 13: the run of the two-table example and the torn flushes.

`INSERT INTO t VALUES (5)`; `INSERT INTO u VALUES (8)` from `tableDB2`: two log records, two dirty pages
(12288, the leaf of `t`; 16384, the leaf of `u`), no allocation.  **`torn_example2`**: all hypotheses of
`Ckpt.torn_flush_round` hold; for every write order and every interruption point - in particular
`order = [12288, 16384]`, `j = 1` (the leaf of `t` written, the leaf of `u` not) and `order = [16384, 12288]`,
`j = 1` (the other way round: the page of the LATER record is in the data file, the page of the earlier one is
not) - recovery succeeds and ends checkpointed for the plain database with the row `(5)` in `t` and `(8)` in `u`.
-/
set_option autoImplicit false
namespace Mkdb.Store
open Mkdb.Page Mkdb.Tuple Mkdb.Generated Mkdb.Tree Mkdb.Engine

def sdbU1 : Spec.SDB := [⟨tname, schemaA, [⟨none, [.int 5]⟩]⟩, ⟨uname, schemaB, []⟩]
def sdbU2 : Spec.SDB := [⟨tname, schemaA, [⟨none, [.int 5]⟩]⟩, ⟨uname, schemaB, [⟨none, [.int 8]⟩]⟩]

theorem specU1 : Spec.specInsert sdbU0 tname [] [[.int 5]] = some sdbU1 := rfl
theorem specU2 : Spec.specInsert sdbU1 uname [] [[.int 8]] = some sdbU2 := rfl

theorem valid5 : ∀ r ∈ [[Val.int 5]], ∀ v ∈ r, ValidVal v := by
  intro r hr v hv
  simp only [List.mem_singleton] at hr
  subst hr
  simp only [List.mem_singleton] at hv
  subst hv
  exact ⟨by decide, by decide⟩

theorem valid8 : ∀ r ∈ [[Val.int 8]], ∀ v ∈ r, ValidVal v := by
  intro r hr v hv
  simp only [List.mem_singleton] at hr
  subst hr
  simp only [List.mem_singleton] at hv
  subst hv
  exact ⟨by decide, by decide⟩

/-- the table `t` after the insert -/
def tU1 : Levels := ⟨[(⟨12288, 12, false, false, 0, 0, [⟨13, false, [0, 5, 0, 0, 0]⟩]⟩, true)], []⟩
/-- the table `u` after the insert -/
def uU1 : Levels := ⟨[(⟨16384, 13, false, false, 0, 0, [⟨14, false, [0, 8, 0, 0, 0]⟩]⟩, true)], []⟩

theorem runU1 : InsRunOK schemaA ([].map Engine.bytesToName) tT 12 12 20480 [[.int 5]] := by
  intro buf t' nf' he hi
  have e1 : encodeTuple schemaA ((colsOf schemaA ([].map Engine.bytesToName)).zip [Val.int 5]).reverse =
      .ok [0, 5, 0, 0, 0] := rfl
  rw [e1] at he
  cases he
  have i1 : insertAppend tT (12 + 1) 12 [0, 5, 0, 0, 0] 20480 = .ok (tU1, 20480) := rfl
  rw [i1] at hi
  cases hi
  exact ⟨by decide, by decide, by decide, trivial⟩

theorem runU2 : InsRunOK schemaB ([].map Engine.bytesToName) uT 13 13 20480 [[.int 8]] := by
  intro buf t' nf' he hi
  have e1 : encodeTuple schemaB ((colsOf schemaB ([].map Engine.bytesToName)).zip [Val.int 8]).reverse =
      .ok [0, 8, 0, 0, 0] := rfl
  rw [e1] at he
  cases he
  have i1 : insertAppend uT (13 + 1) 13 [0, 8, 0, 0, 0] 20480 = .ok (uU1, 20480) := rfl
  rw [i1] at hi
  cases hi
  exact ⟨by decide, by decide, by decide, trivial⟩

/-- the header after the first statement (kernel evaluation of the model) -/
theorem torn_example2_hdr1 :
    (match Engine.evalInsert tableDB2 tname [] [[.int 5]] with
     | .ok _ d1 => decide (d1.store.hdr = { lastKey := 13, ptRoot := 4096, nextFree := 20480, nextLSN := 13 })
     | _ => false) = true := by decide +kernel

/-- after both statements: no allocation, two log records, two dirty pages (kernel evaluation) -/
theorem torn_example2_end :
    (match Engine.evalInsert tableDB2 tname [] [[.int 5]] with
     | .ok _ d1 =>
       (match Engine.evalInsert d1 uname [] [[.int 8]] with
        | .ok _ d2 => d2.store.hdr.nextFree == 20480 && d2.wal.length == 2 &&
            ((d2.store.mem.filter fun p => p.2.dirty).map (·.1)) == [12288, 16384]
        | _ => false)
     | _ => false) = true := by decide +kernel

/-- **Non-vacuity of `Ckpt.torn_flush_round` with a flush torn between two dirty pages.** -/
theorem torn_example2 : ∃ db2,
    SpecRun schU tableDB2 sdbU0 [.insert tname [] [[.int 5]], .insert uname [] [[.int 8]]] db2 sdbU2 ∧
    db2.store.hdr.nextFree = tableDB2.store.hdr.nextFree ∧ db2.wal.length = 2 ∧
    (db2.store.mem.filter fun p => p.2.dirty).map (·.1) = [12288, 16384] ∧
    ∀ order j, ∃ dbR tblsR, Engine.recover { store := tornFlush db2.store order j, wal := db2.wal } [] [] = .ok dbR ∧
      dbR.wal = db2.wal ∧ Ckpt schU dbR sdbU2 (clean ptU) (cleanT tblsR) := by
  have hk0 := ckpt_tableDB2
  have hmemT : (tname, tT) ∈ [(tname, tT), (uname, uT)] := List.mem_cons_self
  have hmemU : (uname, uT) ∈ [(tname, tT), (uname, uT)] := List.mem_cons_of_mem _ List.mem_cons_self
  obtain ⟨db1, ptF1, t1', logs1, e1, _, _, hA1, _⟩ := evalInsert_refines_specV tableDB2 ptU schU _ sdbU0
    sdbU1 hk0.abs tname tT hmemT schemaA schU_t [] [[.int 5]] valid5 specU1 runU1
  have hh1 := torn_example2_hdr1
  rw [e1] at hh1
  simp only [decide_eq_true_eq] at hh1
  have hmemU' : (uname, uT) ∈ setTable [(tname, tT), (uname, uT)] tname t1' :=
    mem_setTable_of_ne hmemU uname_ne
  obtain ⟨db2, _, _, _, e2, _⟩ := evalInsert_refines_specV db1 ptF1 schU _ sdbU1 sdbU2 hA1 uname uT hmemU' schemaB
    schU_u [] [[.int 8]] valid8 specU2 (by rw [hh1]; exact runU2)
  have run : SpecRun schU tableDB2 sdbU0 [.insert tname [] [[.int 5]], .insert uname [] [[.int 8]]] db2 sdbU2 :=
    .insert tname [] [[.int 5]] valid5 specU1
      (by
        intro pt tbls t schema hA ht hs
        obtain ⟨_, habs, _⟩ := hA
        have ht0 : t = tT := habs.cat.tree_unique cat_tableDB2 ht hmemT
        subst ht0
        rw [schU_t] at hs
        simp only [Option.some.injEq] at hs
        subst hs
        exact runU1)
      e1
      (.insert uname [] [[.int 8]] valid8 specU2
        (by
          intro pt tbls t schema hA ht hs
          obtain ⟨_, habs, _⟩ := hA
          obtain ⟨_, habs1, _⟩ := hA1
          have ht0 : t = uT := habs.cat.tree_unique habs1.cat ht hmemU'
          subst ht0
          rw [schU_u] at hs
          simp only [Option.some.injEq] at hs
          subst hs
          rw [hh1]
          exact runU2)
        e2 (.nil db2 sdbU2))
  have hcomp := torn_example2_end
  rw [e1] at hcomp
  simp only at hcomp
  rw [e2] at hcomp
  simp only [Bool.and_eq_true, beq_iff_eq] at hcomp
  obtain ⟨⟨hnf, hlen⟩, hdirty⟩ := hcomp
  have hnf' : db2.store.hdr.nextFree = tableDB2.store.hdr.nextFree := hnf
  refine ⟨db2, run, hnf', hlen, hdirty, ?_⟩
  intro order j
  obtain ⟨dbR, tblsR, e, hw, _, hk, _⟩ := hk0.torn_flush_round run hnf' order j [] []
  exact ⟨dbR, tblsR, e, hw, hk⟩

end Mkdb.Store
