import Mkdb.Proofs.Counters6
import Mkdb.Proofs.SessionInv9
/-!
The header counters, part 8 (W16): **the session model.**  Every database of every session state that
`Session.exec` (CREATE DATABASE, USE - which closes, i.e. flushes and re-opens, the database selected
before -, the four DML / DDL statements on the selected database, accepted or refused) and
`Session.restart` (close, start-up recovery of every database, re-open) reach from the empty session is
reached from `newDB` by a history `Hist`; and the row ids its history put at stake are at most the rows of
the INSERT statements plus the catalog rows of the CREATE TABLE statements the SESSION was given - whatever
database they went to, whether they were accepted, refused, or given with no database selected.

* `stmtRows`, `SessRows s B`, `exec_sessRows`, `restart_sessRows`, `runAll_sessRows`.
* **`session_row_ids_fit`**: after any list of statements from the empty session, the row-id counter of every
  database is below `2^32` if the statements carry at most `2^32 - 9` rows (catalog rows included).
-/
set_option autoImplicit false
namespace Mkdb.Session
open Mkdb.Engine Mkdb.Store Mkdb.Sql Mkdb.Tree

/-- the row ids a statement can put at stake: the rows of an INSERT, the catalog rows of a CREATE TABLE -/
def stmtRows : Sql.Stmt → Nat
  | .insert _ _ rows => rows.length
  | .createTable _ cols => cols.length + 1
  | _ => 0

/-- every database of the session is reached from `newDB` by a history that put at most `B` row ids at
stake -/
def SessRows (s : Sess) (B : Nat) : Prop := ∀ p ∈ s.dbs, ∃ w, Hist newDB w p.2 ∧ w.rows ≤ B

theorem SessRows.mono {s : Sess} {B B' : Nat} (h : SessRows s B) (hb : B ≤ B') : SessRows s B' :=
  fun p hp => by obtain ⟨w, hw, hr⟩ := h p hp; exact ⟨w, hw, Nat.le_trans hr hb⟩

theorem SessRows.setDB {s : Sess} {B : Nat} (h : SessRows s B) (n : String) {db : Engine.DB} {w : Work}
    (hw : Hist newDB w db) (hr : w.rows ≤ B) : SessRows (setDB s n db) B := by
  intro p hp
  rcases mem_setDB hp with rfl | h1
  · exact ⟨w, hw, hr⟩
  · exact h p h1.1

theorem SessRows.cur {s : Sess} {B : Nat} (h : SessRows s B) (c : Option String) : SessRows { s with cur := c } B := h

/-- a statement on the selected database -/
theorem onCurrent_sessRows {α} {s : Sess} {B k : Nat} (h : SessRows s B) (f : Engine.DB → Engine.Res α)
    (hf : ∀ db w, Hist newDB w db → ∀ db', resDB (f db) = some db' → ∃ w', Hist newDB w' db' ∧ w'.rows ≤ w.rows + k) :
    SessRows (onCurrent s f).1 (B + k) := by
  unfold onCurrent
  split
  · exact h.mono (Nat.le_add_right _ _)
  · rename_i n _
    split
    · exact h.mono (Nat.le_add_right _ _)
    · rename_i db hg
      obtain ⟨w, hw, hr⟩ := h (n, db) (getDB_mem hg)
      split
      · rename_i a db' e
        obtain ⟨w', hw', hr'⟩ := hf db w hw db' (by rw [e]; rfl)
        exact (h.mono (Nat.le_add_right _ _)).setDB n hw' (by omega)
      · rename_i x db' e
        obtain ⟨w', hw', hr'⟩ := hf db w hw db' (by rw [e]; rfl)
        exact (h.mono (Nat.le_add_right _ _)).setDB n hw' (by omega)
      · exact h.mono (Nat.le_add_right _ _)

/-- closing a database (flush, then the next open reads the data file) -/
theorem closed_hist {db db' : Engine.DB} {w : Work} (hw : Hist newDB w db) (hfl : Engine.flush db [] = .ok () db') :
    Hist newDB w { db' with store := reopen db'.store } :=
  (hw.flush [] (by rw [hfl]; rfl)).reopen

/-- **One statement of the session.** -/
theorem exec_sessRows {s : Sess} {B : Nat} (h : SessRows s B) (st : Sql.Stmt) :
    SessRows (exec s st).1 (B + stmtRows st) := by
  cases st with
  | createDatabase name =>
    show SessRows (exec s (.createDatabase name)).1 (B + 0)
    unfold exec
    simp only [createDB_eq]
    split
    · exact h
    · split
      · exact h
      · split
        · exact h
        · exact h.setDB _ (w := {}) .nil (Nat.zero_le _)
  | use name =>
    show SessRows (exec s (.use name)).1 (B + 0)
    unfold exec
    simp only
    split
    · exact h
    · split
      · exact h
      · split
        · exact h
        · refine SessRows.cur ?_ _
          split
          · rename_i c _
            split
            · exact h
            · split
              · rename_i db hg
                obtain ⟨w, hw, hr⟩ := h (c, db) (getDB_mem hg)
                split
                · rename_i u db' e
                  exact h.setDB c (closed_hist hw e) hr
                · exact h
              · exact h
          · exact h
  | showDatabases => exact h
  | select q =>
    show SessRows (exec s (.select q)).1 (B + 0)
    unfold exec
    simp only
    split
    · exact h
    · split
      · exact h
      · split <;> exact h
  | createTable name cols =>
    exact onCurrent_sessRows h _ fun db w hw db' hr =>
      ⟨_, hw.createTable name cols [] true hr, Nat.le_refl _⟩
  | insert t cols rows =>
    refine onCurrent_sessRows (k := rows.length) h _ fun db w hw db' hr => ?_
    have := hw.insert t cols (rows.map fun r => r.map litToVal) hr
    rw [List.length_map] at this
    exact ⟨_, this, Nat.le_refl _⟩
  | update t sets wh =>
    exact onCurrent_sessRows (k := 0) h _ fun db w hw db' hr => ⟨_, hw.update t sets wh hr, Nat.le_refl _⟩
  | delete t wh =>
    exact onCurrent_sessRows (k := 0) h _ fun db w hw db' hr => ⟨_, hw.delete t wh hr, Nat.le_refl _⟩

/-- **A history run by the session** (it goes on after every error). -/
theorem runAll_sessRows : ∀ (sts : List Sql.Stmt) {s : Sess} {B : Nat}, SessRows s B →
    SessRows (runAll s sts).1 (B + (sts.map stmtRows).sum)
  | [], _, _, h => h
  | st :: rest, s, B, h => by
    have := runAll_sessRows rest (exec_sessRows h st)
    simp only [runAll, List.map_cons, List.sum_cons]
    rw [← Nat.add_assoc]
    exact this

theorem restart_go_sessRows {B : Nat} : ∀ (l out : List (String × Engine.DB)),
    (∀ p ∈ l, ∃ w, Hist newDB w p.2 ∧ w.rows ≤ B) → Session.restart.go l = some out →
    ∀ p ∈ out, ∃ w, Hist newDB w p.2 ∧ w.rows ≤ B
  | [], out, _, hgo => by
    simp only [Session.restart.go, Option.some.injEq] at hgo
    subst hgo
    intro p hp; cases hp
  | (n, db) :: rest, out, h, hgo => by
    simp only [Session.restart.go] at hgo
    cases e : Engine.recover db [] [] with
    | ok db' =>
      rw [e] at hgo
      cases e2 : Session.restart.go rest with
      | none => rw [e2] at hgo; cases hgo
      | some tl =>
        rw [e2] at hgo
        simp only [Option.map_some, Option.some.injEq] at hgo
        subst hgo
        obtain ⟨w, hw, hr⟩ := h (n, db) List.mem_cons_self
        intro p hp
        rcases List.mem_cons.mp hp with rfl | hp
        · exact ⟨_, (hw.recover [] [] (by rw [e]; rfl)).reopen, hr⟩
        · exact restart_go_sessRows rest tl (fun q hq => h q (List.mem_cons_of_mem _ hq)) e2 p hp
    | err m d => rw [e] at hgo; cases hgo
    | panic p => rw [e] at hgo; cases hgo
    | unmodelled u => rw [e] at hgo; cases hgo
    | fuel => rw [e] at hgo; cases hgo

theorem closeCur_sessRows' {s : Sess} {B : Nat} (h : SessRows s B) : SessRows (closeCur s) B := by
  unfold closeCur
  split
  · rename_i c _
    split
    · rename_i db hg
      obtain ⟨w, hw, hr⟩ := h (c, db) (getDB_mem hg)
      split
      · rename_i u db' e
        exact h.setDB c (hw.flush [] (by rw [e]; rfl)) hr
      · exact h
    · exact h
  · exact h

/-- **A restart of the session**: close, recover every database, re-open. -/
theorem restart_sessRows {s s' : Sess} {B : Nat} (h : SessRows s B) (hr : restart s = some s') : SessRows s' B := by
  rw [restart_eq] at hr
  cases e : Session.restart.go (closeCur s).dbs with
  | none => rw [e] at hr; cases hr
  | some out =>
    rw [e] at hr
    simp only [Option.map_some, Option.some.injEq] at hr
    subst hr
    exact restart_go_sessRows _ out (closeCur_sessRows' h) e

/-- the empty session -/
theorem sessRows_empty : SessRows {} 0 := fun p hp => by cases hp

/-- **The row ids of a session fit.**  After any list of statements run from the empty session, every
database of the session is reached from `newDB` by a history `Hist` whose row-id work is at most the rows of
the INSERT statements plus the catalog rows of the CREATE TABLE statements in the list; so its row-id
counter is at most 8 plus that, and below `2^32` if the list carries at most `2^32 - 9` such rows. -/
theorem session_row_ids_fit (sts : List Sql.Stmt) :
    ∀ p ∈ (runAll {} sts).1.dbs, (∃ w, Hist newDB w p.2 ∧ w.rows ≤ (sts.map stmtRows).sum) ∧
      p.2.store.hdr.lastKey ≤ 8 + (sts.map stmtRows).sum ∧
      ((sts.map stmtRows).sum ≤ maxRows → p.2.store.hdr.lastKey < 2 ^ 32) := by
  intro p hp
  have h := runAll_sessRows sts sessRows_empty p hp
  rw [Nat.zero_add] at h
  obtain ⟨w, hw, hr⟩ := h
  have h1 := (hist_from_create_database hw).1
  refine ⟨⟨w, hw, hr⟩, by omega, fun hN => ?_⟩
  have p32 : (2 : Nat) ^ 32 = 4294967296 := by decide
  unfold maxRows at hN
  omega

end Mkdb.Session
