import Mkdb.Model.Engine
import Mkdb.Model.Redo
import Mkdb.Proofs.Redo
import Mkdb.Proofs.RefineScan
import Mkdb.Proofs.RefineInsert1
/-!
The concrete replay of UPDATE and DELETE records (`Mkdb.Engine.replayOne`, `replayAll`) **is** the
abstract redo rule (`Mkdb.Redo.redo`, `replay`) under the abstraction `absPages`: the page the engine
sees at an offset (`view`), with the LSN the node carries.  Hence the abstract theorems
(`Redo.replay_image`, ...) speak about the concrete recovery model for such logs.
-/
set_option autoImplicit false
namespace Mkdb.RedoLink
open Mkdb.Page Mkdb.Generated Mkdb.Store Mkdb.Engine Mkdb.Refine

/-! ### the abstraction -/

/-- what the engine sees at every offset, as abstract pages: LSN = the LSN the node carries -/
def absPages (s : Store) : Redo.Pages (Option Node) := fun off =>
  match view s off with
  | some (n, _) => ⟨nodeLSN n, some n⟩
  | none => ⟨0, none⟩

/-- the leaf after `updateCell` + `markDirty(lsn)` -/
def updLeaf (lsn cell : Nat) (val : Bytes) (l : Leaf) : Leaf :=
  { l with cells := l.cells.map (fun c => if c.key == cell then { c with val := val } else c), lsn := lsn }

/-- the leaf after the tombstone of `cell` was set, + `markDirty(lsn)` -/
def delLeaf (lsn cell : Nat) (l : Leaf) : Leaf :=
  { l with cells := l.cells.map (fun c => if c.key == cell then { c with deleted := true } else c), lsn := lsn }

/-- page-local change of an UPDATE record (the node's own `lsn` field is stamped too, so that the
abstract page LSN stays the LSN of the content) -/
def updF (lsn cell : Nat) (val : Bytes) : Option Node → Option Node
  | some (.leaf l) => some (.leaf (updLeaf lsn cell val l))
  | some (.internal i) => some (.internal { i with lsn := lsn })
  | none => none

/-- page-local change of a DELETE record -/
def delF (lsn cell : Nat) : Option Node → Option Node
  | some (.leaf l) => some (.leaf (delLeaf lsn cell l))
  | some (.internal i) => some (.internal { i with lsn := lsn })
  | none => none

/-- the abstract record of a concrete UPDATE / DELETE record -/
def toAbs (r : WalRec) : Redo.Rec (Option Node) :=
  ⟨r.lsn, r.page, if r.op = c_OpUpdate then updF r.lsn r.cell r.val else delF r.lsn r.cell⟩

/-- the header after a record was looked at: `nextLSN` raised to at least the record's LSN -/
def bumpHdr (h : Header) (lsn : Nat) : Header := { h with nextLSN := max h.nextLSN lsn }

/-! ### fetch of a present page -/

theorem fetch_frame (s s' : Store) (off : Nat) (n : Node) (h : fetch off s = .ok n s') :
    s' = { s with mem := s'.mem } := by
  unfold fetch at h
  split at h
  · injection h with _ h2; subst h2; rfl
  · injection h with _ h2; subst h2; rfl

/-- Fetching a page the engine sees under the offset it carries returns it, changes only the
cache, and changes no `view`. -/
theorem fetch_present (s : Store) (off : Nat) (n : Node) (d : Bool)
    (hv : view s off = some (n, d)) (hoff : nodeOff n = off) :
    ∃ mem1, fetch off s = .ok n { s with mem := mem1 } ∧
      ∀ k, view { s with mem := mem1 } k = view s k := by
  obtain ⟨s', hf, hsv⟩ := fetch_held s off n d hv hoff
  have hfr := fetch_frame s s' off n hf
  refine ⟨s'.mem, ?_, ?_⟩
  · rw [← hfr]; exact hf
  · intro k; rw [← hfr]; exact hsv k

theorem view_setMem (s : Store) (h : Header) (mem1 : List (Nat × MNode)) (k : Nat) (m : MNode) (o : Nat) :
    view { s with hdr := h, mem := assocSet mem1 k m } o =
      if o = k then some (m.node, m.dirty) else view { s with mem := mem1 } o := by
  simp only [view, assocGet_assocSet]
  by_cases ho : o = k
  · simp [ho]
  · simp [ho]

/-! ### one record -/

/-- `replayOne` on an UPDATE record whose page is a present leaf holding the cell, computed -/
theorem replayOne_update_eq (r : WalRec) (s : Store) (l : Leaf) (d : Bool)
    (hop : r.op = c_OpUpdate) (hv : view s r.page = some (.leaf l, d)) (hoff : l.off = r.page)
    (hlen : r.val.length ≤ c_maxValueSize) (hcell : l.cells.any (fun c => c.key == r.cell) = true) :
    ∃ mem1, (∀ k, view { s with mem := mem1 } k = view s k) ∧
      replayOne r s =
        (if r.lsn ≤ l.lsn then { s with hdr := bumpHdr s.hdr r.lsn, mem := mem1 }
         else { s with hdr := bumpHdr s.hdr r.lsn,
                       mem := assocSet mem1 l.off ⟨.leaf (updLeaf r.lsn r.cell r.val l), true⟩ },
         none, false) := by
  obtain ⟨mem1, hf, hsv⟩ := fetch_present
    { s with hdr := { s.hdr with nextLSN := max s.hdr.nextLSN r.lsn } } r.page (.leaf l) d hv hoff
  refine ⟨mem1, fun k => hsv k, ?_⟩
  have hop1 : (r.op == c_OpInsert) = false := by rw [hop]; decide
  have hop2 : (r.op == c_OpUpdate) = true := by rw [hop]; decide
  unfold replayOne
  simp only [hop1, Bool.false_eq_true, if_false]
  rw [hf]
  have hlen' : ¬ r.val.length > c_maxValueSize := by omega
  simp only [nodeLSN, hop2, hcell, hlen', updLeaf, bumpHdr, Bool.false_eq_true, if_false, if_true,
    decide_false, Bool.not_true, Bool.or_false]
  split <;> rfl

/-- `replayOne` on a DELETE record whose page is a present leaf holding the cell, computed -/
theorem replayOne_delete_eq (r : WalRec) (s : Store) (l : Leaf) (d : Bool)
    (hop : r.op = c_OpDelete) (hv : view s r.page = some (.leaf l, d)) (hoff : l.off = r.page)
    (hcell : l.cells.any (fun c => c.key == r.cell) = true) :
    ∃ mem1, (∀ k, view { s with mem := mem1 } k = view s k) ∧
      replayOne r s =
        (if r.lsn ≤ l.lsn then { s with hdr := bumpHdr s.hdr r.lsn, mem := mem1 }
         else { s with hdr := bumpHdr s.hdr r.lsn,
                       mem := assocSet mem1 l.off ⟨.leaf (delLeaf r.lsn r.cell l), true⟩ },
         none, false) := by
  obtain ⟨mem1, hf, hsv⟩ := fetch_present
    { s with hdr := { s.hdr with nextLSN := max s.hdr.nextLSN r.lsn } } r.page (.leaf l) d hv hoff
  refine ⟨mem1, fun k => hsv k, ?_⟩
  have hop1 : (r.op == c_OpInsert) = false := by rw [hop]; decide
  have hop2 : (r.op == c_OpUpdate) = false := by rw [hop]; decide
  have hop3 : (r.op == c_OpDelete) = true := by rw [hop]; decide
  unfold replayOne
  simp only [hop1, Bool.false_eq_true, if_false]
  rw [hf]
  simp only [nodeLSN, hop2, hop3, hcell, delLeaf, bumpHdr, Bool.false_eq_true, if_false, if_true,
    Bool.not_true]
  split <;> rfl

theorem view_hdr_irrel (s : Store) (h : Header) (mem1 : List (Nat × MNode)) (o : Nat) :
    view { s with hdr := h, mem := mem1 } o = view { s with mem := mem1 } o := rfl

theorem absPages_present (s : Store) (off : Nat) (n : Node) (d : Bool) (hv : view s off = some (n, d)) :
    absPages s off = ⟨nodeLSN n, some n⟩ := by
  simp only [absPages, hv]

/-- the two outcomes of a record on a present leaf (skip / change and stamp), abstracted -/
theorem abs_of_step (r : WalRec) (s : Store) (l l' : Leaf) (d : Bool) (mem1 : List (Nat × MNode))
    (f : Option Node → Option Node)
    (hv : view s r.page = some (.leaf l, d)) (hoff : l.off = r.page)
    (hsv : ∀ k, view { s with mem := mem1 } k = view s k)
    (hl' : l'.lsn = r.lsn) (hf : f (some (.leaf l)) = some (.leaf l')) :
    absPages (if r.lsn ≤ l.lsn then { s with hdr := bumpHdr s.hdr r.lsn, mem := mem1 }
              else { s with hdr := bumpHdr s.hdr r.lsn, mem := assocSet mem1 l.off ⟨.leaf l', true⟩ }) =
      Redo.redo ⟨r.lsn, r.page, f⟩ (absPages s) := by
  have hp : absPages s r.page = ⟨l.lsn, some (.leaf l)⟩ := absPages_present s r.page _ d hv
  funext o
  unfold Redo.redo
  simp only [hp]
  by_cases hle : r.lsn ≤ l.lsn
  · simp only [hle, if_true]
    simp only [absPages, view_hdr_irrel, hsv]
  · simp only [hle, if_false]
    by_cases ho : o = r.page
    · subst ho
      rw [Redo.apply_same]
      simp only [hp, hf]
      simp only [absPages, view_setMem, hoff, if_true, nodeLSN, hl']
    · rw [Redo.apply_other _ _ _ ho]
      simp only [absPages, view_setMem, hoff, ho, if_false, hsv]

/-- the part of the store a record of this kind leaves alone -/
def Frame (r : WalRec) (s s' : Store) : Prop :=
  s'.disk = s.disk ∧ s'.dhdr = s.dhdr ∧ s'.ghost = s.ghost ∧ s'.hdr = bumpHdr s.hdr r.lsn

theorem frame_of_step (r : WalRec) (s : Store) (c : Prop) [Decidable c] (m1 m2 : List (Nat × MNode)) :
    Frame r s (if c then { s with hdr := bumpHdr s.hdr r.lsn, mem := m1 }
               else { s with hdr := bumpHdr s.hdr r.lsn, mem := m2 }) := by
  split <;> exact ⟨rfl, rfl, rfl, rfl⟩

/-- **Replay of an UPDATE record is the abstract redo step** (the skip case included): no error,
no silent abort, the abstract pages change by `Redo.redo`, and data file, file header and the
other header fields stay (`nextLSN` is raised to at least the record's LSN). -/
theorem replayOne_update_is_redo (r : WalRec) (s : Store) (l : Leaf) (d : Bool)
    (hop : r.op = c_OpUpdate) (hv : view s r.page = some (.leaf l, d)) (hoff : l.off = r.page)
    (hlen : r.val.length ≤ c_maxValueSize) (hcell : l.cells.any (fun c => c.key == r.cell) = true) :
    (replayOne r s).2 = (none, false) ∧
    absPages (replayOne r s).1 = Redo.redo ⟨r.lsn, r.page, updF r.lsn r.cell r.val⟩ (absPages s) ∧
    (replayOne r s).1.disk = s.disk ∧ (replayOne r s).1.dhdr = s.dhdr ∧
    (replayOne r s).1.ghost = s.ghost ∧
    (replayOne r s).1.hdr = { s.hdr with nextLSN := max s.hdr.nextLSN r.lsn } := by
  obtain ⟨mem1, hsv, he⟩ := replayOne_update_eq r s l d hop hv hoff hlen hcell
  rw [he]
  exact ⟨rfl, abs_of_step r s l _ d mem1 _ hv hoff hsv rfl rfl, frame_of_step r s _ _ _⟩

/-- **Replay of a DELETE record is the abstract redo step** (the skip case included). -/
theorem replayOne_delete_is_redo (r : WalRec) (s : Store) (l : Leaf) (d : Bool)
    (hop : r.op = c_OpDelete) (hv : view s r.page = some (.leaf l, d)) (hoff : l.off = r.page)
    (hcell : l.cells.any (fun c => c.key == r.cell) = true) :
    (replayOne r s).2 = (none, false) ∧
    absPages (replayOne r s).1 = Redo.redo ⟨r.lsn, r.page, delF r.lsn r.cell⟩ (absPages s) ∧
    (replayOne r s).1.disk = s.disk ∧ (replayOne r s).1.dhdr = s.dhdr ∧
    (replayOne r s).1.ghost = s.ghost ∧
    (replayOne r s).1.hdr = { s.hdr with nextLSN := max s.hdr.nextLSN r.lsn } := by
  obtain ⟨mem1, hsv, he⟩ := replayOne_delete_eq r s l d hop hv hoff hcell
  rw [he]
  exact ⟨rfl, abs_of_step r s l _ d mem1 _ hv hoff hsv rfl rfl, frame_of_step r s _ _ _⟩
/-! ### a whole log -/

/-- the side conditions of one record: UPDATE or DELETE, its page is a present leaf filed under
its own offset and holding the cell, and (UPDATE) the value fits a cell -/
def RecFits (r : WalRec) (s : Store) : Prop :=
  (r.op = c_OpUpdate ∨ r.op = c_OpDelete) ∧
  ∃ l d, view s r.page = some (.leaf l, d) ∧ l.off = r.page ∧
    l.cells.any (fun c => c.key == r.cell) = true ∧ (r.op = c_OpUpdate → r.val.length ≤ c_maxValueSize)

/-- the side conditions hold for every record at the moment the concrete replay reaches it -/
def LogFits : List WalRec → Store → Prop
  | [], _ => True
  | r :: rest, s => RecFits r s ∧ LogFits rest (replayOne r s).1

/-- one record of either kind -/
theorem replayOne_is_redo (r : WalRec) (s : Store) (h : RecFits r s) :
    (replayOne r s).2 = (none, false) ∧
    absPages (replayOne r s).1 = Redo.redo (toAbs r) (absPages s) ∧
    (replayOne r s).1.disk = s.disk ∧ (replayOne r s).1.dhdr = s.dhdr ∧
    (replayOne r s).1.ghost = s.ghost ∧
    (replayOne r s).1.hdr = { s.hdr with nextLSN := max s.hdr.nextLSN r.lsn } := by
  obtain ⟨hop, l, d, hv, hoff, hcell, hlen⟩ := h
  rcases hop with hop | hop
  · have := replayOne_update_is_redo r s l d hop hv hoff (hlen hop) hcell
    simpa only [toAbs, hop, if_true] using this
  · have hne : ¬ r.op = c_OpUpdate := by rw [hop]; decide
    have := replayOne_delete_is_redo r s l d hop hv hoff hcell
    simpa only [toAbs, hne, if_false] using this

theorem replayAll_cons_ok (r : WalRec) (rest : List WalRec) (s : Store)
    (h : (replayOne r s).2 = (none, false)) :
    replayAll (r :: rest) s = replayAll rest (replayOne r s).1 := by
  have e : replayOne r s = ((replayOne r s).1, none, false) := by
    rw [← h]
  rw [replayAll, e]

/-- **The concrete replay of a log of UPDATE / DELETE records is the abstract replay**: it runs to
the end without error or silent abort, and what the engine sees afterwards is `Redo.replay` of the
abstracted log over what it saw before. -/
theorem replayAll_is_replay (log : List WalRec) (s : Store) (h : LogFits log s) :
    (replayAll log s).2 = (none, false) ∧
    absPages (replayAll log s).1 = Redo.replay (log.map toAbs) (absPages s) := by
  induction log generalizing s with
  | nil => exact ⟨rfl, rfl⟩
  | cons r rest ih =>
    obtain ⟨hr, hrest⟩ := h
    obtain ⟨hflag, habs, _⟩ := replayOne_is_redo r s hr
    rw [replayAll_cons_ok r rest s hflag, List.map_cons, Redo.replay_cons, ← habs]
    exact ih _ hrest

/-- what else the replay of such a log does to the store: nothing to the data file and the file
header, and `nextLSN` ends at least as high as every record's LSN -/
theorem replayAll_frame (log : List WalRec) (s : Store) (h : LogFits log s) :
    (replayAll log s).1.disk = s.disk ∧ (replayAll log s).1.dhdr = s.dhdr ∧
    (replayAll log s).1.ghost = s.ghost ∧
    (replayAll log s).1.hdr =
      { s.hdr with nextLSN := log.foldl (fun m r => max m r.lsn) s.hdr.nextLSN } := by
  induction log generalizing s with
  | nil => exact ⟨rfl, rfl, rfl, rfl⟩
  | cons r rest ih =>
    obtain ⟨hr, hrest⟩ := h
    obtain ⟨hflag, _, hd, hdh, hg, hh⟩ := replayOne_is_redo r s hr
    rw [replayAll_cons_ok r rest s hflag]
    obtain ⟨i1, i2, i3, i4⟩ := ih _ hrest
    refine ⟨i1.trans hd, i2.trans hdh, i3.trans hg, ?_⟩
    rw [i4, hh, List.foldl_cons]

/-! ### side conditions checked on the crashed store only

UPDATE and DELETE keep a page a leaf, keep its offset and keep its keys, so it is enough that
every record fits the store the replay starts from. -/

theorem any_key_map (cells : List LeafCell) (g : LeafCell → LeafCell) (hg : ∀ c, (g c).key = c.key)
    (k : Nat) : (cells.map g).any (fun c => c.key == k) = cells.any (fun c => c.key == k) := by
  rw [List.any_map]
  congr 1
  funext c
  simp only [Function.comp, hg]

theorem updLeaf_any (lsn cell : Nat) (val : Bytes) (l : Leaf) (k : Nat) :
    (updLeaf lsn cell val l).cells.any (fun c => c.key == k) = l.cells.any (fun c => c.key == k) := by
  unfold updLeaf
  exact any_key_map l.cells _ (fun c => by split <;> rfl) k

theorem delLeaf_any (lsn cell : Nat) (l : Leaf) (k : Nat) :
    (delLeaf lsn cell l).cells.any (fun c => c.key == k) = l.cells.any (fun c => c.key == k) := by
  unfold delLeaf
  exact any_key_map l.cells _ (fun c => by split <;> rfl) k

/-- a record that fits keeps fitting after another fitting record was replayed -/
theorem recFits_step (r r' : WalRec) (s : Store) (h : RecFits r s) (h' : RecFits r' s) :
    RecFits r' (replayOne r s).1 := by
  obtain ⟨_, habs, _⟩ := replayOne_is_redo r s h
  obtain ⟨hop, l, d, hv, hoff, hcell, hlen⟩ := h
  obtain ⟨hop', l1, d1, hv1, hoff1, hcell1, hlen1⟩ := h'
  refine ⟨hop', ?_⟩
  -- read the new page off the abstract step
  have hnew := congrFun habs r'.page
  have hp : absPages s r.page = ⟨l.lsn, some (.leaf l)⟩ := absPages_present s r.page _ d hv
  have hp1 : absPages s r'.page = ⟨l1.lsn, some (.leaf l1)⟩ := absPages_present s r'.page _ d1 hv1
  -- whatever the engine sees at `r'.page` afterwards, as an abstract page
  have hview : ∀ (l2 : Leaf), (absPages (replayOne r s).1 r'.page).val = some (.leaf l2) →
      ∃ d2, view (replayOne r s).1 r'.page = some (.leaf l2, d2) := by
    intro l2
    unfold absPages
    cases hvv : view (replayOne r s).1 r'.page with
    | none => intro hc; cases hc
    | some x =>
      obtain ⟨n, d2⟩ := x
      intro hc
      simp only [Option.some.injEq] at hc
      exact ⟨d2, by rw [hc]⟩
  unfold Redo.redo at hnew
  by_cases hle : (toAbs r).lsn ≤ (absPages s (toAbs r).page).lsn
  · rw [if_pos hle, hp1] at hnew
    obtain ⟨d2, hv2⟩ := hview l1 (by rw [hnew])
    exact ⟨l1, d2, hv2, hoff1, hcell1, hlen1⟩
  · rw [if_neg hle] at hnew
    by_cases hpg : r'.page = r.page
    · have hl : l1 = l := by
        rw [hpg, hv] at hv1
        simp only [Option.some.injEq, Prod.mk.injEq, Node.leaf.injEq] at hv1
        exact hv1.1.symm
      subst hl
      rw [show r'.page = (toAbs r).page from hpg, Redo.apply_same] at hnew
      rw [show (toAbs r).page = r.page from rfl, hp] at hnew
      rcases hop with hop | hop
      · have hf : (toAbs r).f = updF r.lsn r.cell r.val := by simp only [toAbs, hop, if_true]
        rw [hf] at hnew
        obtain ⟨d2, hv2⟩ := hview (updLeaf r.lsn r.cell r.val l1) (by rw [hpg, hnew]; rfl)
        exact ⟨_, d2, hv2, hoff1, by rw [updLeaf_any]; exact hcell1, hlen1⟩
      · have hne : ¬ r.op = c_OpUpdate := by rw [hop]; decide
        have hf : (toAbs r).f = delF r.lsn r.cell := by simp only [toAbs, hne, if_false]
        rw [hf] at hnew
        obtain ⟨d2, hv2⟩ := hview (delLeaf r.lsn r.cell l1) (by rw [hpg, hnew]; rfl)
        exact ⟨_, d2, hv2, hoff1, by rw [delLeaf_any]; exact hcell1, hlen1⟩
    · rw [Redo.apply_other _ _ _ (show r'.page ≠ (toAbs r).page from hpg), hp1] at hnew
      obtain ⟨d2, hv2⟩ := hview l1 (by rw [hnew])
      exact ⟨l1, d2, hv2, hoff1, hcell1, hlen1⟩

/-- every record fits the store the replay starts from -/
def StaticFits (log : List WalRec) (s : Store) : Prop := ∀ r ∈ log, RecFits r s

theorem logFits_of_static (log : List WalRec) (s : Store) (h : StaticFits log s) : LogFits log s := by
  induction log generalizing s with
  | nil => trivial
  | cons r rest ih =>
    have hr : RecFits r s := h r (List.mem_cons_self ..)
    refine ⟨hr, ih _ ?_⟩
    intro r' hr'
    exact recFits_step r r' s hr (h r' (List.mem_cons_of_mem _ hr'))

/-! ### the abstract theorems, about the concrete replay -/

/-- **Concrete recovery reconstructs the state the statements built.**  If what the engine sees of
the crashed store is an image of the history (`Redo.Image`: every page is the cached page as of
*some* earlier moment `k p`, i.e. any flush schedule, any torn flush) and LSNs increase
(`Redo.LogOK`), then `replayAll` runs through and every page afterwards is the page the
statements had built. -/
theorem concrete_recovery_reconstructs (log : List WalRec) (s : Store)
    (init : Redo.Pages (Option Node)) (k : Nat → Nat)
    (hfit : LogFits log s)
    (himg : absPages s = Redo.Image (log.map toAbs) init k)
    (hok : Redo.LogOK (log.map toAbs) init) :
    (replayAll log s).2 = (none, false) ∧
    ∀ p, absPages (replayAll log s).1 p = Redo.run (log.map toAbs) init p := by
  obtain ⟨hflag, habs⟩ := replayAll_is_replay log s hfit
  refine ⟨hflag, fun p => ?_⟩
  rw [habs, himg]
  exact Redo.replay_image (log.map toAbs) init k hok p

/-- the same with the side conditions checked on the crashed store only -/
theorem concrete_recovery_reconstructs_static (log : List WalRec) (s : Store)
    (init : Redo.Pages (Option Node)) (k : Nat → Nat)
    (hfit : StaticFits log s)
    (himg : absPages s = Redo.Image (log.map toAbs) init k)
    (hok : Redo.LogOK (log.map toAbs) init) :
    (replayAll log s).2 = (none, false) ∧
    ∀ p, absPages (replayAll log s).1 p = Redo.run (log.map toAbs) init p :=
  concrete_recovery_reconstructs log s init k (logFits_of_static log s hfit) himg hok

/-- fitting records keep fitting across the replay of a log that fits statically -/
theorem recFits_replayAll (log : List WalRec) (s : Store) (h : StaticFits log s) (r' : WalRec)
    (h' : RecFits r' s) : RecFits r' (replayAll log s).1 := by
  induction log generalizing s with
  | nil => exact h'
  | cons r rest ih =>
    have hr : RecFits r s := h r (List.mem_cons_self ..)
    rw [replayAll_cons_ok r rest s (replayOne_is_redo r s hr).1]
    refine ih _ ?_ (recFits_step r r' s hr h')
    intro r'' hr''
    exact recFits_step r r'' s hr (h r'' (List.mem_cons_of_mem _ hr''))

/-- **Running the concrete recovery a second time changes no page.** -/
theorem concrete_recovery_idempotent (log : List WalRec) (s : Store)
    (init : Redo.Pages (Option Node)) (k : Nat → Nat)
    (hfit : StaticFits log s)
    (himg : absPages s = Redo.Image (log.map toAbs) init k)
    (hok : Redo.LogOK (log.map toAbs) init) :
    (replayAll log (replayAll log s).1).2 = (none, false) ∧
    ∀ p, absPages (replayAll log (replayAll log s).1).1 p = absPages (replayAll log s).1 p := by
  have hfit2 : StaticFits log (replayAll log s).1 := fun r hr => recFits_replayAll log s hfit r (hfit r hr)
  obtain ⟨_, habs1⟩ := replayAll_is_replay log s (logFits_of_static log s hfit)
  obtain ⟨hflag2, habs2⟩ := replayAll_is_replay log _ (logFits_of_static log _ hfit2)
  refine ⟨hflag2, fun p => ?_⟩
  rw [habs2, habs1, himg]
  exact Redo.replay_idempotent (log.map toAbs) init k hok p

/-! ### non-vacuity -/

/-- one leaf page with two cells in the data file, nothing cached -/
def exLeaf : Leaf := ⟨4096, 5, false, false, 0, 0, [⟨1, false, [1]⟩, ⟨2, false, [2]⟩]⟩
def exStore : Store := { disk := [(4096, .leaf exLeaf)] }

/-- an UPDATE of cell 1 and a DELETE of cell 2 -/
def exLog : List WalRec := [⟨c_OpUpdate, 6, 4096, 1, [9]⟩, ⟨c_OpDelete, 7, 4096, 2, []⟩]

/-- the data file after a flush between the two statements -/
def exStore1 : Store :=
  { disk := [(4096, .leaf ⟨4096, 6, false, false, 0, 0, [⟨1, false, [9]⟩, ⟨2, false, [2]⟩]⟩)] }

/-- what both statements built -/
def exFinal : Leaf := ⟨4096, 7, false, false, 0, 0, [⟨1, false, [9]⟩, ⟨2, true, [2]⟩]⟩

theorem ex_static : StaticFits exLog exStore := by
  intro r hr
  simp only [exLog, List.mem_cons, List.not_mem_nil, or_false] at hr
  rcases hr with rfl | rfl
  · exact ⟨Or.inl rfl, exLeaf, false, rfl, rfl, by decide, fun _ => by decide⟩
  · exact ⟨Or.inr rfl, exLeaf, false, rfl, rfl, by decide, fun _ => by decide⟩

theorem ex_static1 : StaticFits exLog exStore1 := by
  intro r hr
  simp only [exLog, List.mem_cons, List.not_mem_nil, or_false] at hr
  rcases hr with rfl | rfl
  · exact ⟨Or.inl rfl, _, false, rfl, rfl, by decide, fun _ => by decide⟩
  · exact ⟨Or.inr rfl, _, false, rfl, rfl, by decide, fun _ => by decide⟩

/-- the concrete replay, evaluated: both records redone over the unflushed file … -/
example : (replayAll exLog exStore).2 = (none, false) ∧
    view (replayAll exLog exStore).1 4096 = some (.leaf exFinal, true) := by decide

/-- … and only the second over the file flushed in between (the first is skipped: LSN 6 ≤ 6) -/
example : (replayAll exLog exStore1).2 = (none, false) ∧
    view (replayAll exLog exStore1).1 4096 = some (.leaf exFinal, true) := by decide

/-- the abstract side of the same computation -/
example : Redo.run (exLog.map toAbs) (absPages exStore) 4096 = ⟨7, some (.leaf exFinal)⟩ := rfl

theorem absPages_oneDisk (off : Nat) (n : Node) (p : Nat) :
    absPages { disk := [(off, n)] } p = if p = off then ⟨nodeLSN n, some n⟩ else ⟨0, none⟩ := by
  by_cases hp : p = off
  · subst hp
    simp [absPages, view, assocGet]
  · have : ¬ off = p := fun h => hp h.symm
    simp [absPages, view, assocGet, hp, this]

theorem ex_logOK : Redo.LogOK (exLog.map toAbs) (absPages exStore) := by
  refine ⟨by decide, ?_⟩
  intro r hr p
  have hle : (absPages exStore p).lsn ≤ 5 := by
    rw [exStore, absPages_oneDisk]
    split
    · exact Nat.le_refl 5
    · exact Nat.zero_le 5
  simp only [exLog, List.map_cons, List.map_nil, List.mem_cons, List.not_mem_nil, or_false] at hr
  rcases hr with rfl | rfl
  · exact Nat.lt_of_le_of_lt hle (by decide)
  · exact Nat.lt_of_le_of_lt hle (by decide)

/-- the unflushed file is the image "no page ever written" … -/
theorem ex_image0 : absPages exStore = Redo.Image (exLog.map toAbs) (absPages exStore) (fun _ => 0) := rfl

/-- … and the file flushed in between is the image "page written after the first record" -/
theorem ex_image1 : absPages exStore1 = Redo.Image (exLog.map toAbs) (absPages exStore) (fun _ => 1) := by
  funext p
  by_cases hp : p = 4096
  · subst hp; rfl
  · show _ = Redo.apply _ _ p
    rw [Redo.apply_other _ _ _ (by exact hp), exStore1, exStore, absPages_oneDisk, absPages_oneDisk,
      if_neg hp, if_neg hp]

/-- the hypotheses of `concrete_recovery_reconstructs_static` are satisfiable, for both images -/
example : (replayAll exLog exStore).2 = (none, false) ∧
    ∀ p, absPages (replayAll exLog exStore).1 p = Redo.run (exLog.map toAbs) (absPages exStore) p :=
  concrete_recovery_reconstructs_static exLog exStore _ _ ex_static ex_image0 ex_logOK

example : (replayAll exLog exStore1).2 = (none, false) ∧
    ∀ p, absPages (replayAll exLog exStore1).1 p = Redo.run (exLog.map toAbs) (absPages exStore) p :=
  concrete_recovery_reconstructs_static exLog exStore1 _ _ ex_static1 ex_image1 ex_logOK

end Mkdb.RedoLink
