import Mkdb.Proofs.RefineInsert3
/-!
Refinement of the heap insert by the levels insert, part 4: what the shape invariant says about
the rightmost spine (separators below the new key, right pointers to the last node of the level
below), used by the descent of `insertInternal`.
-/
set_option autoImplicit false
namespace Mkdb.Tree
open Mkdb.Page Mkdb.Generated

/-! ### separators are lowest keys of leaves -/

theorem sepsOK_mem : ∀ (lvl : List (Internal × Bool)) (los : List Nat), sepsOK los lvl →
    ∀ p ∈ lvl, ∀ c ∈ p.1.cells, c.key ∈ los
  | [], _, _ => by intro p hp; cases hp
  | q :: rest, los, h => by
    obtain ⟨_, h2, h3⟩ := h
    intro p hp c hc
    rcases List.mem_cons.mp hp with rfl | hp
    · have : c.key ∈ (los.take (p.1.cells.length + 1)).tail := by
        rw [h2]; exact List.mem_map.mpr ⟨c, hc, rfl⟩
      exact List.mem_of_mem_take (List.mem_of_mem_tail this)
    · exact List.mem_of_mem_drop (sepsOK_mem rest _ h3 p hp c hc)

theorem sepsAll_mem : ∀ (inner : List (List (Internal × Bool))) (los : List Nat), sepsAll los inner →
    ∀ lvl ∈ inner, ∀ p ∈ lvl, ∀ c ∈ p.1.cells, c.key ∈ los
  | [], _, _ => by intro lvl hl; cases hl
  | l :: rest, los, h => by
    obtain ⟨h1, h2⟩ := h
    intro lvl hl p hp c hc
    rcases List.mem_cons.mp hl with rfl | hl
    · exact sepsOK_mem lvl los h1 p hp c hc
    · exact (Lookup.levelLos_sublist l los h1).subset (sepsAll_mem rest _ h2 lvl hl p hp c hc)

/-- in a tree with an internal level, every separator is the first key of a leaf before the last
one, or the first key of the last leaf -/
theorem sep_cases {t : Levels} {nf : Nat} (hinv : Inv t nf) {lpre : List (Leaf × Bool)} {last : Leaf}
    {d : Bool} (hpre : t.leaves = lpre ++ [(last, d)]) (hin : t.inner ≠ [])
    {lvl} (hl : lvl ∈ t.inner) {p} (hp : p ∈ lvl) {c : ICell} (hc : c ∈ p.1.cells) :
    last.cells ≠ [] ∧
    (c.key ∈ (lpre.flatMap (·.1.cells)).map (·.key) ∨ some c.key = last.cells.head?.map (·.key)) := by
  have h2 : 2 ≤ t.leaves.length := by
    cases hlp : lpre with
    | nil =>
      exfalso
      exact hin (inner_nil_of_single t hinv.cap hinv.link (by simp [hpre, hlp]))
    | cons x xs => simp [hpre, hlp]
  have hne := hinv.ne h2
  have hlast : last.cells ≠ [] := hne (last, d) (by simp [hpre])
  refine ⟨hlast, ?_⟩
  have hm := sepsAll_mem t.inner _ hinv.seps lvl hl p hp c hc
  rw [hpre, List.map_append, List.mem_append] at hm
  rcases hm with hm | hm
  · left
    obtain ⟨q, hq, hqk⟩ := List.mem_map.mp hm
    have hqne : q.1.cells ≠ [] := hne q (by simp [hpre, hq])
    cases hqc : q.1.cells with
    | nil => exact absurd hqc hqne
    | cons x xs =>
      rw [hqc] at hqk
      simp only [List.head?_cons, Option.map_some, Option.getD_some] at hqk
      rw [← hqk]
      exact List.mem_map.mpr ⟨x, List.mem_flatMap.mpr ⟨q, hq, by simp [hqc]⟩, rfl⟩
  · right
    simp only [List.map_cons, List.map_nil, List.mem_singleton] at hm
    cases hlc : last.cells with
    | nil => exact absurd hlc hlast
    | cons x xs =>
      rw [hlc] at hm
      simpa using hm

theorem keys_snoc {t : Levels} {lpre : List (Leaf × Bool)} {last : Leaf} {d : Bool}
    (hpre : t.leaves = lpre ++ [(last, d)]) :
    keys t = (lpre.flatMap (·.1.cells)).map (·.key) ++ last.cells.map (·.key) := by
  simp [keys, cells, hpre, List.flatMap_append]

/-- every separator is below a key that is above all keys of the tree -/
theorem seps_lt_key {t : Levels} {nf : Nat} (hinv : Inv t nf) {lpre : List (Leaf × Bool)} {last : Leaf}
    {d : Bool} (hpre : t.leaves = lpre ++ [(last, d)]) {key : Nat} (hk : ∀ a ∈ keys t, a < key)
    {lvl} (hl : lvl ∈ t.inner) {p} (hp : p ∈ lvl) {c : ICell} (hc : c ∈ p.1.cells) : c.key < key := by
  have hin : t.inner ≠ [] := by intro h; rw [h] at hl; cases hl
  obtain ⟨hlast, hcase⟩ := sep_cases hinv hpre hin hl hp hc
  apply hk
  rw [keys_snoc hpre, List.mem_append]
  rcases hcase with h | h
  · exact .inl h
  · right
    cases hlc : last.cells with
    | nil => exact absurd hlc hlast
    | cons x xs =>
      rw [hlc] at h
      simp only [List.head?_cons, Option.map_some, Option.some.injEq] at h
      simp [h]

/-- every separator is below the separator a split of the last leaf pushes up -/
theorem seps_lt_newsep {t : Levels} {nf : Nat} (hinv : Inv t nf) {lpre : List (Leaf × Bool)} {last : Leaf}
    {d : Bool} (hpre : t.leaves = lpre ++ [(last, d)]) {key lsn : Nat} {value : Bytes}
    (hk : ∀ a ∈ keys t, a < key) (hfull : ¬ (leafApp last key lsn value).cells.length < c_maxLeafNodeCells)
    {lvl} (hl : lvl ∈ t.inner) {p} (hp : p ∈ lvl) {c : ICell} (hc : c ∈ p.1.cells) (nf1 : Nat) :
    c.key < ((leafR (leafApp last key lsn value) lsn nf1).cells.head?.map (·.key)).getD 0 := by
  have hin : t.inner ≠ [] := by intro h; rw [h] at hl; cases hl
  obtain ⟨hlast, hcase⟩ := sep_cases hinv hpre hin hl hp hc
  have hlen : (leafApp last key lsn value).cells.length = last.cells.length + 1 := by simp [leafApp]
  have h9 : c_maxLeafNodeCells = 9 := rfl
  -- the new separator is a key of the over-full leaf, not its first one
  have hmid : (leafApp last key lsn value).cells.length / 2 < (leafApp last key lsn value).cells.length := by
    omega
  have hsep : ((leafR (leafApp last key lsn value) lsn nf1).cells.head?.map (·.key)).getD 0 =
      ((leafApp last key lsn value).cells[(leafApp last key lsn value).cells.length / 2]'hmid).key := by
    simp only [leafR, List.head?_drop, List.getElem?_eq_getElem hmid, Option.map_some, Option.getD_some]
  rw [hsep]
  have hasc : ((lpre.flatMap (·.1.cells)).map (·.key) ++
      (leafApp last key lsn value).cells.map (·.key)).Pairwise (· < ·) := by
    have h1 : (keys t ++ [key]).Pairwise (· < ·) := by
      rw [List.pairwise_append]
      exact ⟨hinv.asc, List.pairwise_singleton _ _, fun a ha b hb => by
        simp only [List.mem_singleton] at hb; subst hb; exact hk a ha⟩
    rw [keys_snoc hpre, List.append_assoc] at h1
    simpa [leafApp] using h1
  have hmem : ((leafApp last key lsn value).cells[(leafApp last key lsn value).cells.length / 2]'hmid).key ∈
      (leafApp last key lsn value).cells.map (·.key) :=
    List.mem_map.mpr ⟨_, List.getElem_mem hmid, rfl⟩
  rcases hcase with h | h
  · exact (List.pairwise_append.mp hasc).2.2 _ h _ hmem
  · -- the first key of the last leaf is below every later key of the leaf
    have hasc2 := (List.pairwise_append.mp hasc).2.1
    cases hlc : last.cells with
    | nil => exact absurd hlc hlast
    | cons x xs =>
      rw [hlc] at h
      simp only [List.head?_cons, Option.map_some, Option.some.injEq] at h
      have hcells : (leafApp last key lsn value).cells = x :: (xs ++ [⟨key, false, value⟩]) := by
        simp [leafApp, hlc]
      have hpw : ((x :: (xs ++ [⟨key, false, value⟩])).map (·.key)).Pairwise (· < ·) := by
        rw [← hcells]; exact hasc2
      rw [List.map_cons] at hpw
      have hx := fun a ha => List.rel_of_pairwise_cons hpw (a' := a) ha
      rw [h]
      apply hx
      have hlen2 : (x :: (xs ++ [⟨key, false, value⟩] : List LeafCell)).length = last.cells.length + 1 := by
        rw [← hcells]; exact hlen
      have hge : 1 ≤ (leafApp last key lsn value).cells.length / 2 := by omega
      have : ((leafApp last key lsn value).cells[(leafApp last key lsn value).cells.length / 2]'hmid) ∈
          xs ++ [⟨key, false, value⟩] := by
        have hh : ∀ (l : List LeafCell) (i : Nat) (hi : i < l.length), l = x :: (xs ++ [⟨key, false, value⟩]) →
            1 ≤ i → l[i] ∈ xs ++ [⟨key, false, value⟩] := by
          intro l i hi hl h1
          subst hl
          match i, h1 with
          | j+1, _ => simp only [List.getElem_cons_succ]; exact List.getElem_mem _
        exact hh _ _ hmid hcells hge
      exact List.mem_map.mpr ⟨_, this, rfl⟩

/-! ### right pointers along the spine -/

theorem childOffs_snoc_last (ipre : List (Internal × Bool)) (c : Internal) (d : Bool) :
    (childOffs (ipre ++ [(c, d)])).getLast? = some c.right := by
  rw [childOffs_append, childOffs_cons, childOffs_nil, List.append_nil, ← List.append_assoc]
  exact List.getLast?_concat

/-- the right pointer of the last node of the lowest internal level is the last leaf -/
theorem right_leaf {t : Levels} (hl : LinkOK t) {lpre : List (Leaf × Bool)} {last : Leaf} {d : Bool}
    (hpre : t.leaves = lpre ++ [(last, d)]) {ipre} {c : Internal} {dc : Bool} {hi}
    (hin : t.inner = (ipre ++ [(c, dc)]) :: hi) : c.right = last.off := by
  unfold LinkOK at hl
  rw [hin, hpre] at hl
  have h1 := congrArg List.getLast? hl.1
  rw [childOffs_snoc_last] at h1
  simpa using h1

/-- the right pointer of the last node of a higher level is the last node of the level below -/
theorem right_int {t : Levels} (hl : LinkOK t) {lo jpre} {c : Internal} {dcc : Bool} {ipre} {cur : Internal}
    {dc : Bool} {hi} (hin : t.inner = (lo ++ [jpre ++ [(c, dcc)]]) ++ (ipre ++ [(cur, dc)]) :: hi) :
    cur.right = c.off := by
  unfold LinkOK at hl
  rw [hin] at hl
  have h0 := linked_mid _ _ _ _ hl
  rw [topRow_snoc] at h0
  have h1 := congrArg List.getLast? h0
  rw [childOffs_snoc_last] at h1
  simpa using h1

/-- the root of a tree with internal levels is the first node of the top level -/
theorem rootOff_snoc (leaves : List (Leaf × Bool)) (low : List (List (Internal × Bool))) (top) :
    rootOff ⟨leaves, low ++ [top]⟩ = (top.head?.map (·.1.off)).getD 0 := by
  simp [rootOff]

end Mkdb.Tree
