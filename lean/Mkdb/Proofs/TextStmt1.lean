import Mkdb.Proofs.ScanText7
import Mkdb.Proofs.RoundtripStmt6
/-!
# Statements as SQL text, part 1: `TextOK` and the tokens of a rendered statement

`stmtTextOK` / `TextOK s`: the identifiers and string literals of `s` can be written in plain SQL text.
`renderStmt_tokOK`: then every token of `renderStmt o s` (standard literal tokens, any optional
spellings, any keyword texts) and of the closing semicolons is a token the text level covers (`TokOK`).
-/
namespace Mkdb.Sql
open Mkdb.Scan Mkdb.Generated

/-- the token types of the keyword table (reserved words, operators, punctuation) -/
def kwTys : List Int := kwTable.map (·.2)

/-- a keyword / operator / punctuation token is covered whatever its text -/
theorem TokOK_kw (x : Int) (b : Bytes) (h : kwTys.contains x = true) : TokOK ⟨x, b⟩ = true := by
  have hmem : x ∈ kwTys := by simpa using h
  simp only [kwTys, List.mem_map] at hmem
  obtain ⟨e, he, rfl⟩ := hmem
  have h1 := kwTable_ty_ne_ident _ he
  have h23 : ∀ e ∈ kwTable, e.2 ≠ t_INT ∧ e.2 ≠ t_STR := by decide
  obtain ⟨h2, h3⟩ := h23 _ he
  simp only [TokOK, beq_iff_eq, h1, h2, h3, ↓reduceIte, List.any_eq_true]
  exact ⟨e, he, rfl⟩

theorem TokOK_K (o : ROpts) (x : Int) (h : kwTys.contains x = true) : TokOK (K o x) = true :=
  TokOK_kw x _ h

/-! ## Integer literals: `natDigits` is a non-empty string of decimal digits -/

theorem digitByte_decimal (d : Nat) (h : d < 10) : isDecimal (digitByte d).toNat = true := by
  simp only [digitByte, UInt8.toNat_ofNat', isDecimal, Bool.and_eq_true, decide_eq_true_eq]
  omega

theorem natDigitsF_ok (f : Nat) : ∀ n, natDigitsF f n ≠ [] ∧ ∀ b ∈ natDigitsF f n, isDecimal b.toNat = true := by
  induction f with
  | zero =>
    intro n
    simp only [natDigitsF, ne_eq, List.cons_ne_self, not_false_eq_true, List.mem_singleton, forall_eq, true_and]
    exact digitByte_decimal _ (Nat.mod_lt _ (by decide))
  | succ f ih =>
    intro n
    unfold natDigitsF
    split
    · rename_i h
      simp only [ne_eq, List.cons_ne_self, not_false_eq_true, List.mem_singleton, forall_eq, true_and]
      exact digitByte_decimal _ h
    · refine ⟨by simp, ?_⟩
      intro b hb
      simp only [List.mem_append, List.mem_singleton] at hb
      rcases hb with hb | rfl
      · exact (ih _).2 b hb
      · exact digitByte_decimal _ (Nat.mod_lt _ (by decide))

/-- the INT token of any integer literal is covered -/
theorem TokOK_int (n : Nat) : TokOK ⟨t_INT, natDigits n⟩ = true := by
  obtain ⟨hne, hall⟩ := natDigitsF_ok n n
  have e1 : (t_INT == t_IDENT) = false := by decide
  simp only [TokOK, e1, beq_self_eq_true, Bool.false_eq_true, ↓reduceIte, Bool.and_eq_true, Bool.not_eq_true',
    List.isEmpty_eq_false_iff, List.all_eq_true]
  exact ⟨hne, hall⟩

/-! ## `SHOW databases` in any case -/

theorem lowerByte_spec (c d : UInt8)
    (h : (if 65 ≤ c.toNat ∧ c.toNat ≤ 90 then c + 32 else c) = d) (hd : 97 ≤ d.toNat ∧ d.toNat ≤ 122) :
    isIdentStart c.toNat = true ∧ isIdentPart c.toNat = true ∧ asciiUpper c.toNat = d.toNat - 32 := by
  have hlet : asciiLetter c.toNat = true ∧ asciiUpper c.toNat = d.toNat - 32 := by
    split at h
    · rename_i hc
      have hd' : d.toNat = c.toNat + 32 := by
        rw [← h, UInt8.toNat_add]
        have : (32 : UInt8).toNat = 32 := rfl
        rw [this]; omega
      refine ⟨?_, ?_⟩
      · simp only [asciiLetter, Bool.or_eq_true, Bool.and_eq_true, decide_eq_true_eq]; omega
      · have : ¬(97 ≤ c.toNat ∧ c.toNat ≤ 122) := by omega
        simp only [asciiUpper, this, ↓reduceIte]; omega
    · subst h
      refine ⟨?_, ?_⟩
      · simp only [asciiLetter, Bool.or_eq_true, Bool.and_eq_true, decide_eq_true_eq]; omega
      · simp only [asciiUpper, hd, and_self, ↓reduceIte]
  simp only [isIdentStart, isIdentPart, hlet.1, Bool.or_true, Bool.true_or, true_and]
  exact hlet.2

/-- every spelling of `databases` (any letter case) is an identifier the text level covers -/
theorem TokOK_databases (b : Bytes) (h : asciiLower b = databasesBytes) : TokOK (I b) = true := by
  unfold asciiLower databasesBytes at h
  simp only [List.map_eq_cons_iff, List.map_eq_nil_iff] at h
  obtain ⟨c1, _, rfl, h1, c2, _, rfl, h2, c3, _, rfl, h3, c4, _, rfl, h4, c5, _, rfl, h5, c6, _, rfl, h6,
    c7, _, rfl, h7, c8, _, rfl, h8, c9, _, rfl, h9, rfl⟩ := h
  obtain ⟨a1, -, u1⟩ := lowerByte_spec c1 _ h1 (by decide)
  obtain ⟨-, a2, u2⟩ := lowerByte_spec c2 _ h2 (by decide)
  obtain ⟨-, a3, u3⟩ := lowerByte_spec c3 _ h3 (by decide)
  obtain ⟨-, a4, u4⟩ := lowerByte_spec c4 _ h4 (by decide)
  obtain ⟨-, a5, u5⟩ := lowerByte_spec c5 _ h5 (by decide)
  obtain ⟨-, a6, u6⟩ := lowerByte_spec c6 _ h6 (by decide)
  obtain ⟨-, a7, u7⟩ := lowerByte_spec c7 _ h7 (by decide)
  obtain ⟨-, a8, u8⟩ := lowerByte_spec c8 _ h8 (by decide)
  obtain ⟨-, a9, u9⟩ := lowerByte_spec c9 _ h9 (by decide)
  simp only [TokOK, beq_self_eq_true, ↓reduceIte, a1, List.all_cons, a2, a3, a4, a5, a6, a7, a8, a9, List.all_nil,
    Bool.and_self, List.map_cons, u1, u2, u3, u4, u5, u6, u7, u8, u9, List.map_nil, Bool.true_and]
  decide

end Mkdb.Sql
