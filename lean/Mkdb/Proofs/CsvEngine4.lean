import Mkdb.Proofs.CsvEngine3
import Mkdb.Proofs.SessionInv9
/-!
CSV import on the engine model, part 4: **the import theorem in full, its corollaries, and the computed
example.**

* `import_on_engine`: `importOnDb_spec` with the table of the plain database afterwards, the other tables,
  and what a reader sees, durably.
* `bad_record_harmless_on_engine`, `accepted_in_input_order`.
* `exCfgT`, `recs3`: table `t (a INT)` of `tableDB`, the records `5`, `2147483648`, `7` - the second is
  converted by `csvToSql` (it is an int64) and refused BY THE ENGINE (INT out of range).
-/
set_option autoImplicit false
namespace Mkdb.Csv
open Mkdb.Tuple Mkdb.Generated Mkdb.Store Mkdb.Tree Mkdb.Page

theorem map_vals_none (l : List (List Val)) : (l.map fun v => (⟨none, v⟩ : Spec.SRow)).map (·.vals) = l := by
  induction l with
  | nil => rfl
  | cons a l ih => simp only [List.map_cons, List.cons.injEq, true_and]; exact ih

/-- `C19_import` (the Props file cannot be imported here) -/
theorem importAll_eq (cfg : Cfg) (types : List DataType) (table : List (List Val))
    (recs : List (Option (List Bytes))) :
    importAll cfg types table recs = table ++ recs.filterMap (importRecord cfg types) := by
  induction recs generalizing table with
  | nil => simp [importAll]
  | cons r rest ih =>
    simp only [importAll, List.filterMap_cons]
    cases h : importRecord cfg types r with
    | none => simp only [ih]
    | some row => simp only [ih, List.append_assoc, List.cons_append, List.nil_append]

/-- **The import on a database in use** (see `C19_import_on_the_engine`). -/
theorem import_on_engine (cfg : Cfg) (types : List DataType) (table : Bytes) (recs : List (Option (List Bytes)))
    (db : Engine.DB) (sdb : Spec.SDB) (pt sch : Levels) (tbls : List (Bytes × Levels)) (tb : Spec.STable)
    (h : DbInv db sdb pt sch tbls) (hfind : Spec.findTable sdb table = some tb) (hcols : tb.cols = cfg.schema)
    (hne : cfg.dstCols ≠ []) (hfit : FieldsFit recs) (hroom : ImportRoom cfg types table db recs) :
    ∃ db' pt' tbls',
      importOnDb cfg types table db recs = some (db', recs.map fun r => (importRecord cfg types r).isNone) ∧
      DbInv db' (addRows sdb table (recs.filterMap (importRecord cfg types))) pt' sch tbls' ∧
      Spec.findTable (addRows sdb table (recs.filterMap (importRecord cfg types))) table =
        some { tb with rows := tb.rows ++ (recs.filterMap (importRecord cfg types)).map fun v => ⟨none, v⟩ } ∧
      (∀ t, t ≠ table → Spec.findTable (addRows sdb table (recs.filterMap (importRecord cfg types))) t =
        Spec.findTable sdb t) ∧
      ReadsDurably db' table cfg.schema (importAll cfg types (tb.rows.map (·.vals)) recs) ∧
      (∀ t tb', t ≠ table → Spec.findTable sdb t = some tb' →
        ReadsDurably db' t tb'.cols (tb'.rows.map (·.vals))) := by
  obtain ⟨db', pt', tbls', e, hi⟩ := importOnDb_spec cfg types table hne recs db sdb pt sch tbls tb h hfind hcols
    hfit hroom
  have hf' := findTable_addRows hfind (recs.filterMap (importRecord cfg types))
  refine ⟨db', pt', tbls', e, hi, hf', fun t ht => findTable_addRows_other sdb ht _, ?_, ?_⟩
  · have := hi.reads_durably hf'
    simp only [List.map_append, map_vals_none] at this
    rw [importAll_eq, ← hcols]
    exact this
  · intro t tb' ht hft
    exact hi.reads_durably (by rw [findTable_addRows_other sdb ht]; exact hft)

/-- the error events of a run -/
theorem errs_append (cfg : Cfg) (types : List DataType) (l1 l2 : List (Option (List Bytes))) :
    ((l1 ++ l2).map fun r => (importRecord cfg types r).isNone) =
      (l1.map fun r => (importRecord cfg types r).isNone) ++ l2.map fun r => (importRecord cfg types r).isNone :=
  List.map_append

/-- **A bad record is harmless, on the database** (see `C19_bad_record_harmless_on_the_engine`). -/
theorem bad_record_harmless_on_engine (cfg : Cfg) (types : List DataType) (table : Bytes)
    (before after : List (Option (List Bytes))) (bad : Option (List Bytes))
    (db : Engine.DB) (sdb : Spec.SDB) (pt sch : Levels) (tbls : List (Bytes × Levels)) (tb : Spec.STable)
    (h : DbInv db sdb pt sch tbls) (hfind : Spec.findTable sdb table = some tb) (hcols : tb.cols = cfg.schema)
    (hne : cfg.dstCols ≠ []) (hfit : FieldsFit (before ++ bad :: after))
    (hroom1 : ImportRoom cfg types table db (before ++ bad :: after))
    (hroom2 : ImportRoom cfg types table db (before ++ after))
    (hbad : importRecord cfg types bad = none) :
    ∃ db1 pt1 tbls1 db2 pt2 tbls2 sdb' errsB errsA rows,
      importOnDb cfg types table db (before ++ bad :: after) = some (db1, errsB ++ true :: errsA) ∧
      importOnDb cfg types table db (before ++ after) = some (db2, errsB ++ errsA) ∧
      errsB.length = before.length ∧
      DbInv db1 sdb' pt1 sch tbls1 ∧ DbInv db2 sdb' pt2 sch tbls2 ∧
      ReadsDurably db1 table cfg.schema rows ∧ ReadsDurably db2 table cfg.schema rows ∧
      rows = tb.rows.map (·.vals) ++ (before ++ after).filterMap (importRecord cfg types) := by
  have hfit2 : FieldsFit (before ++ after) := by
    intro rec hm
    apply hfit rec
    rcases List.mem_append.mp hm with hm | hm
    · exact List.mem_append_left _ hm
    · exact List.mem_append_right _ (List.mem_cons_of_mem _ hm)
  obtain ⟨db1, pt1, tbls1, e1, hi1, _, _, hr1, _⟩ := import_on_engine cfg types table _ db sdb pt sch tbls tb h hfind
    hcols hne hfit hroom1
  obtain ⟨db2, pt2, tbls2, e2, hi2, _, _, hr2, _⟩ := import_on_engine cfg types table _ db sdb pt sch tbls tb h hfind
    hcols hne hfit2 hroom2
  have hsame : (before ++ bad :: after).filterMap (importRecord cfg types) =
      (before ++ after).filterMap (importRecord cfg types) := by
    simp only [List.filterMap_append, List.filterMap_cons, hbad]
  rw [hsame] at hi1
  rw [importAll_eq, hsame] at hr1
  rw [importAll_eq] at hr2
  refine ⟨db1, pt1, tbls1, db2, pt2, tbls2, _, before.map fun r => (importRecord cfg types r).isNone,
    after.map fun r => (importRecord cfg types r).isNone, _, ?_, ?_, List.length_map _, hi1, hi2, hr1, hr2, rfl⟩
  · rw [e1, errs_append, List.map_cons, hbad]
    rfl
  · rw [e2, errs_append]

theorem filterMap_length_eq_filter (cfg : Cfg) (types : List DataType) (l : List (Option (List Bytes))) :
    (l.filterMap (importRecord cfg types)).length = (l.filter fun r => (importRecord cfg types r).isSome).length := by
  induction l with
  | nil => rfl
  | cons r rest ih =>
    simp only [List.filterMap_cons, List.filter_cons]
    cases h : importRecord cfg types r with
    | none => simpa using ih
    | some row => simpa using ih

/-- the row of an accepted record sits, among the new rows, after the rows of the accepted records before
it and before those of the accepted records after it -/
theorem accepted_position (cfg : Cfg) (types : List DataType) (old : List (List Val))
    (l1 l2 : List (Option (List Bytes))) (r : Option (List Bytes)) (row : List Val)
    (hr : importRecord cfg types r = some row) :
    (old ++ (l1 ++ r :: l2).filterMap (importRecord cfg types))[old.length +
      (l1.filter fun r => (importRecord cfg types r).isSome).length]? = some row := by
  rw [List.getElem?_append_right (Nat.le_add_right _ _), Nat.add_sub_cancel_left, List.filterMap_append,
    ← filterMap_length_eq_filter, List.getElem?_append_right (Nat.le_refl _), Nat.sub_self, List.filterMap_cons, hr]
  rfl

/-- **Accepted records appear in input order, on the database** (see `C19_accepted_records_in_input_order`). -/
theorem accepted_in_input_order (cfg : Cfg) (types : List DataType) (table : Bytes)
    (recs : List (Option (List Bytes)))
    (db : Engine.DB) (sdb : Spec.SDB) (pt sch : Levels) (tbls : List (Bytes × Levels)) (tb : Spec.STable)
    (h : DbInv db sdb pt sch tbls) (hfind : Spec.findTable sdb table = some tb) (hcols : tb.cols = cfg.schema)
    (hne : cfg.dstCols ≠ []) (hfit : FieldsFit recs) (hroom : ImportRoom cfg types table db recs) :
    ∃ db' rows,
      importOnDb cfg types table db recs = some (db', recs.map fun r => (importRecord cfg types r).isNone) ∧
      ReadsDurably db' table cfg.schema rows ∧
      rows.length = tb.rows.length + (recs.filter fun r => (importRecord cfg types r).isSome).length ∧
      (∀ (k : Nat) (row : List Val), (tb.rows.map (·.vals))[k]? = some row → rows[k]? = some row) ∧
      ∀ (l1 l2 : List (Option (List Bytes))) (r : Option (List Bytes)) (row : List Val),
        recs = l1 ++ r :: l2 → importRecord cfg types r = some row →
        rows[tb.rows.length + (l1.filter fun r => (importRecord cfg types r).isSome).length]? = some row := by
  obtain ⟨db', pt', tbls', e, _, _, _, hr, _⟩ := import_on_engine cfg types table recs db sdb pt sch tbls tb h hfind
    hcols hne hfit hroom
  rw [importAll_eq] at hr
  refine ⟨db', _, e, hr, ?_, ?_, ?_⟩
  · rw [List.length_append, List.length_map, filterMap_length_eq_filter]
  · intro k row hk
    have hlt : k < (tb.rows.map (·.vals)).length := (List.getElem?_eq_some_iff.mp hk).1
    rw [List.getElem?_append_left hlt]
    exact hk
  · intro l1 l2 r row hrecs hrow
    subst hrecs
    have := accepted_position cfg types (tb.rows.map (·.vals)) l1 l2 r row hrow
    rw [List.length_map] at this
    exact this

/-! ### the computed example -/

/-- table `t (a INT)` (the table of `tableDB`), destination column `a` fed from field 0 -/
def exCfgT : Cfg := ⟨schemaA, ["a"], [0]⟩

/-- the records `5`, `2147483648`, `7` -/
def recs3 : List (Option (List Bytes)) :=
  [some [[53]], some [[50, 49, 52, 55, 52, 56, 51, 54, 52, 56]], some [[55]]]

/-- `csvToSql` converts all three (the second is an int64); `Csv.insertRow` refuses the second -/
theorem recs3_vals : recs3.map (recordVals exCfgT [.int]) =
    [some [.int 5], some [.int 2147483648], some [.int 7]] := by decide

theorem recs3_rows : recs3.map (importRecord exCfgT [.int]) = [some [.int 5], none, some [.int 7]] := by decide

theorem recs3_fit : FieldsFit recs3 := by
  intro rec hm f hf
  simp only [recs3, List.mem_cons, Option.some.injEq, List.not_mem_nil, or_false] at hm
  rcases hm with rfl | rfl | rfl <;>
    (simp only [List.mem_singleton] at hf; subst hf; decide)

theorem roomFor_tableDB : RoomFor tableDB tname 3 :=
  ⟨sdbA0, ptT, schT, [(tname, tT)], tT, abs_tableDB, List.mem_singleton.mpr rfl, by decide, by decide, by decide⟩

/-- every hypothesis of `import_on_engine` holds for the three records on `tableDB` -/
theorem recs3_room : ImportRoom exCfgT [.int] tname tableDB recs3 :=
  importRoom_of_sizes exCfgT [.int] tname recs3 tableDB recs3_fit roomFor_tableDB

/-- what the loop on `tableDB` returns and what `Fetch` then reads, as a Boolean test the kernel evaluates -/
def recs3Check : Bool :=
  match importOnDb exCfgT [.int] tname tableDB recs3 with
  | some (db', errs) =>
    errs == [false, true, false] &&
    (match fetchTable tname db'.store with
     | .ok (rows, cols) _ => rows.map (·.2) == [[Val.int 5], [Val.int 7]] && cols == schemaA
     | _ => false) &&
    db'.wal.length == 2
  | none => false

/-- the second record on `tableDB`: the engine's answer is `ErrIntOutOfRange` -/
def recs3ErrCheck : Bool :=
  match Engine.evalInsert tableDB tname (exCfgT.dstCols.map colBytes) [[.int 2147483648]] with
  | .err (.store .intOutOfRange) _ => true
  | _ => false

theorem recs3_check : recs3Check = true ∧ recs3ErrCheck = true := ⟨by decide +kernel, by decide +kernel⟩

/-- **The theorem applied to the three records on `tableDB`.** -/
theorem recs3_import : ∃ db',
    importOnDb exCfgT [.int] tname tableDB recs3 = some (db', [false, true, false]) ∧
    ReadsDurably db' tname schemaA [[.int 5], [.int 7]] := by
  obtain ⟨db', _, _, e, _, _, _, hr, _⟩ := import_on_engine exCfgT [.int] tname recs3 tableDB sdbA0 ptT schT
    [(tname, tT)] ⟨tname, schemaA, []⟩ dbFlushed_tableDB.inv rfl rfl (by decide) recs3_fit recs3_room
  have e1 : (recs3.map fun r => (importRecord exCfgT [.int] r).isNone) = [false, true, false] := by decide
  have e2 : importAll exCfgT [.int] (([] : List Spec.SRow).map (·.vals)) recs3 = [[.int 5], [.int 7]] := by decide
  rw [e1] at e
  rw [e2] at hr
  exact ⟨db', e, hr⟩

end Mkdb.Csv
