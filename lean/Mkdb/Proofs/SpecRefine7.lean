import Mkdb.Proofs.SpecRefine6
/-!
End-to-end refinement, part 7: the simulation modulo row ids.

The spec's INSERT gives new rows the id `none` ("not yet observed"), the store gives them the next
row ids; so after an INSERT the store abstracts (`Abs`) to a database that equals the spec's only up
to the ids (`valsOf`).  For statements to chain, the relation between store and spec database must
be closed under the statements: `AbsV s … sdb` = the store abstracts to some `sdb0` with
`valsOf sdb0 = valsOf sdb`.

* `specInsert_congr`, `specDelete_congr`, `specUpdate_congr`: the spec's statements do not look at
  the ids: on databases equal up to ids they succeed together, with results equal up to ids.
* `evalInsert_refines_specV`, `evalDelete_refines_specV`, `evalUpdate_refines_specV`: the model's
  statements preserve `AbsV` along the spec's statements.
-/
set_option autoImplicit false
namespace Mkdb.Store
open Mkdb.Page Mkdb.Tuple Mkdb.Generated Mkdb.Tree

/-- a spec table without the row ids -/
def tv (t : Spec.STable) : Bytes × List FieldDef × List (List Val) := (t.name, t.cols, t.rows.map (·.vals))

theorem valsOf_eq_map (sdb : Spec.SDB) : valsOf sdb = sdb.map tv := rfl

/-- **The abstraction relation modulo row ids.** -/
def AbsV (s : Store) (pt sch : Levels) (tbls : List (Bytes × Levels)) (sdb : Spec.SDB) : Prop :=
  ∃ sdb0, Abs s pt sch tbls sdb0 ∧ valsOf sdb0 = valsOf sdb

theorem Abs.toV {s : Store} {pt sch : Levels} {tbls : List (Bytes × Levels)} {sdb : Spec.SDB}
    (h : Abs s pt sch tbls sdb) : AbsV s pt sch tbls sdb := ⟨sdb, h, rfl⟩

/-! ### the spec's lookups do not look at the ids -/

theorem findTable_congr : ∀ (sdb0 sdb : Spec.SDB), valsOf sdb0 = valsOf sdb → ∀ (n : Bytes),
    (Spec.findTable sdb0 n).map tv = (Spec.findTable sdb n).map tv
  | [], [], _, _ => rfl
  | [], _ :: _, h, _ => by simp [valsOf] at h
  | _ :: _, [], h, _ => by simp [valsOf] at h
  | a :: l0, b :: l, h, n => by
    simp only [valsOf, List.map_cons, List.cons.injEq] at h
    obtain ⟨hab, hl⟩ := h
    have hn : a.name = b.name := by
      have := congrArg Prod.fst hab
      exact this
    unfold Spec.findTable
    simp only [List.find?_cons, hn]
    by_cases hb : (b.name == n) = true
    · simp only [hb, Option.map_some]
      exact congrArg some hab
    · simp only [hb]
      exact findTable_congr l0 l hl n

theorem findTable_congr_some {sdb0 sdb : Spec.SDB} (hv : valsOf sdb0 = valsOf sdb) {n : Bytes} {t : Spec.STable}
    (h : Spec.findTable sdb n = some t) : ∃ t0, Spec.findTable sdb0 n = some t0 ∧ tv t0 = tv t := by
  have := findTable_congr sdb0 sdb hv n
  rw [h, Option.map_some] at this
  obtain ⟨t0, h0, ht⟩ := Option.map_eq_some_iff.mp this
  exact ⟨t0, h0, ht⟩

theorem tv_cols {t0 t : Spec.STable} (h : tv t0 = tv t) : t0.cols = t.cols := by
  have := congrArg (fun x => x.2.1) h
  exact this

theorem tv_rows {t0 t : Spec.STable} (h : tv t0 = tv t) : t0.rows.map (·.vals) = t.rows.map (·.vals) := by
  have := congrArg (fun x => x.2.2) h
  exact this

theorem rowOf_congr {t0 t : Spec.STable} (h : t0.cols = t.cols) (cols : List Bytes) (vals : List Val) :
    Spec.rowOf t0 cols vals = Spec.rowOf t cols vals := by
  unfold Spec.rowOf
  rw [h]

theorem namesOK_congr {t0 t : Spec.STable} (h : t0.cols = t.cols) (names : List String) :
    Spec.namesOK t0 names = Spec.namesOK t names := by
  unfold Spec.namesOK
  rw [h]

theorem mapM_congr_vals {β} (G : Spec.SRow → Option β) (hG : ∀ r r', r.vals = r'.vals → G r = G r') :
    ∀ (l0 l : List Spec.SRow), l0.map (·.vals) = l.map (·.vals) → l0.mapM G = l.mapM G
  | [], [], _ => rfl
  | [], _ :: _, h => by simp at h
  | _ :: _, [], h => by simp at h
  | a :: l0, b :: l, h => by
    simp only [List.map_cons, List.cons.injEq] at h
    rw [List.mapM_cons, List.mapM_cons, hG a b h.1, mapM_congr_vals G hG l0 l h.2]

theorem selects_congr {t0 t : Spec.STable} (h : tv t0 = tv t) (w : Option Sql.Cond) :
    Spec.selects t0 w = Spec.selects t w := by
  have hc := tv_cols h
  have hr := tv_rows h
  cases w with
  | none =>
    simp only [Spec.selects, Option.some.injEq]
    have e : ∀ l : List Spec.SRow, (l.map fun _ => true) = (l.map (·.vals)).map fun _ => true := by
      intro l; rw [List.map_map]; rfl
    rw [e t0.rows, e t.rows, hr]
  | some c =>
    simp only [Spec.selects]
    have hf : Spec.fieldsOfTable t0 = Spec.fieldsOfTable t := by
      unfold Spec.fieldsOfTable; rw [hc]
    rw [hf]
    apply mapM_congr_vals _ ?_ _ _ hr
    intro r r' hrr
    simp only [hrr]

/-- updating the rows of one table in databases equal up to ids, by functions that respect the values -/
theorem valsOf_map_congr (table : Bytes) (F0 F : List Spec.SRow → List Spec.SRow) :
    ∀ (sdb0 sdb : Spec.SDB), valsOf sdb0 = valsOf sdb →
    (∀ rs0 rs, rs0.map (·.vals) = rs.map (·.vals) → (F0 rs0).map (·.vals) = (F rs).map (·.vals)) →
    valsOf (sdb0.map (updRows table F0)) = valsOf (sdb.map (updRows table F))
  | [], [], _, _ => rfl
  | [], _ :: _, h, _ => by simp [valsOf] at h
  | _ :: _, [], h, _ => by simp [valsOf] at h
  | a :: l0, b :: l, h, hF => by
    simp only [valsOf, List.map_cons, List.cons.injEq] at h
    obtain ⟨hab, hl⟩ := h
    have ih := valsOf_map_congr table F0 F l0 l hl hF
    simp only [valsOf, List.map_cons, List.cons.injEq] at ih ⊢
    refine ⟨?_, ih⟩
    have hn : a.name = b.name := congrArg Prod.fst hab
    have hc : a.cols = b.cols := congrArg (fun x => x.2.1) hab
    have hr : a.rows.map (·.vals) = b.rows.map (·.vals) := congrArg (fun x => x.2.2) hab
    unfold updRows
    rw [hn]
    by_cases hb : (b.name == table) = true
    · simp only [hb, if_true, hc, hF _ _ hr]
    · simp only [hb]
      exact hab

/-! ### the spec's statements do not look at the ids -/

theorem specInsert_congr {sdb0 sdb sdb' : Spec.SDB} (hv : valsOf sdb0 = valsOf sdb) (table : Bytes)
    (cols : List Bytes) (rows : List (List Val)) (h : Spec.specInsert sdb table cols rows = some sdb') :
    ∃ sdb0', Spec.specInsert sdb0 table cols rows = some sdb0' ∧ valsOf sdb0' = valsOf sdb' := by
  unfold Spec.specInsert at h ⊢
  cases hfind : Spec.findTable sdb table with
  | none => rw [hfind] at h; cases h
  | some t =>
    obtain ⟨t0, hfind0, htv⟩ := findTable_congr_some hv hfind
    rw [hfind] at h
    rw [hfind0]
    simp only [Option.bind_eq_bind, Option.bind_some] at h ⊢
    have hrow : Spec.rowOf t0 cols = Spec.rowOf t cols := funext fun vals => rowOf_congr (tv_cols htv) cols vals
    rw [hrow, namesOK_congr (tv_cols htv)]
    split at h
    · cases h
    rename_i hnm
    rw [if_neg hnm]
    cases hm : rows.mapM (Spec.rowOf t cols) with
    | none => rw [hm] at h; cases h
    | some newRows =>
      rw [hm] at h
      simp only [Option.bind_some, Option.pure_def, Option.some.injEq] at h ⊢
      refine ⟨_, rfl, ?_⟩
      rw [← h]
      exact valsOf_map_congr table (fun r => r ++ newRows.map fun v => ⟨none, v⟩)
        (fun r => r ++ newRows.map fun v => ⟨none, v⟩) sdb0 sdb hv
        (fun rs0 rs hrs => by simp only [List.map_append, hrs])

theorem zip_filterMap_vals : ∀ (rows : List Spec.SRow) (sel : List Bool),
    ((rows.zip sel).filterMap fun (r, s) => if s then none else some r).map (·.vals) =
      ((rows.map (·.vals)).zip sel).filterMap fun (v, s) => if s then none else some v
  | [], _ => by simp
  | _ :: _, [] => by simp
  | r :: rows, b :: sel => by
    have ih := zip_filterMap_vals rows sel
    cases b
    · simp only [List.zip_cons_cons, List.filterMap_cons, Bool.false_eq_true, if_false, List.map_cons, ih]
    · simp only [List.zip_cons_cons, List.filterMap_cons, if_true, List.map_cons, ih]

theorem specDelete_congr {sdb0 sdb sdb' : Spec.SDB} (hv : valsOf sdb0 = valsOf sdb) (table : Bytes)
    (w : Option Sql.Cond) (h : Spec.specDelete sdb table w = some sdb') :
    ∃ sdb0', Spec.specDelete sdb0 table w = some sdb0' ∧ valsOf sdb0' = valsOf sdb' := by
  unfold Spec.specDelete at h ⊢
  cases hfind : Spec.findTable sdb table with
  | none => rw [hfind] at h; cases h
  | some t =>
    obtain ⟨t0, hfind0, htv⟩ := findTable_congr_some hv hfind
    rw [hfind] at h
    rw [hfind0]
    simp only [Option.bind_eq_bind, Option.bind_some] at h ⊢
    rw [selects_congr htv w]
    cases hsel : Spec.selects t w with
    | none => rw [hsel] at h; cases h
    | some sel =>
      rw [hsel] at h
      simp only [Option.bind_some, Option.pure_def, Option.some.injEq] at h ⊢
      refine ⟨_, rfl, ?_⟩
      rw [← h]
      exact valsOf_map_congr table
        (fun _ => (t0.rows.zip sel).filterMap fun (r, s) => if s then none else some r)
        (fun _ => (t.rows.zip sel).filterMap fun (r, s) => if s then none else some r) sdb0 sdb hv
        (fun _ _ _ => by
          simp only [zip_filterMap_vals, tv_rows htv])

theorem specUpdRows_congr (cols : List FieldDef) (sets : List (Bytes × Sql.VExpr)) :
    ∀ (rows0 rows : List Spec.SRow) (sel : List Bool) (rows' : List Spec.SRow),
      rows0.map (·.vals) = rows.map (·.vals) →
      (rows.zip sel).mapM (specUpdRow cols sets) = some rows' →
      ∃ rows0', (rows0.zip sel).mapM (specUpdRow cols sets) = some rows0' ∧
        rows0'.map (·.vals) = rows'.map (·.vals)
  | [], [], sel, rows', _, h => ⟨rows', h, rfl⟩
  | [], _ :: _, _, _, hv, _ => by simp at hv
  | _ :: _, [], _, _, hv, _ => by simp at hv
  | a :: rows0, b :: rows, [], rows', _, h => by
    simp only [List.zip_nil_right] at h ⊢
    exact ⟨rows', h, rfl⟩
  | a :: rows0, b :: rows, s :: sel, rows', hv, h => by
    simp only [List.map_cons, List.cons.injEq] at hv
    obtain ⟨hab, hrest⟩ := hv
    rw [List.zip_cons_cons, mapM_cons_some] at h
    obtain ⟨r', rs', hr', hrs', rfl⟩ := h
    obtain ⟨rs0', hrs0', hvrs⟩ := specUpdRows_congr cols sets rows0 rows sel rs' hrest hrs'
    rw [List.zip_cons_cons]
    cases s
    · simp only [specUpdRow, Bool.false_eq_true, if_false, Option.some.injEq] at hr'
      subst hr'
      refine ⟨a :: rs0', (mapM_cons_some _ _ _ _).mpr ⟨a, rs0', by simp [specUpdRow], hrs0', rfl⟩, ?_⟩
      simp only [List.map_cons, hab, hvrs]
    · simp only [specUpdRow, if_true] at hr'
      obtain ⟨v, hv', hr'⟩ := Option.map_eq_some_iff.mp hr'
      subst hr'
      refine ⟨{ a with vals := v } :: rs0', (mapM_cons_some _ _ _ _).mpr
        ⟨{ a with vals := v }, rs0', by simp [specUpdRow, hab, hv'], hrs0', rfl⟩, ?_⟩
      simp only [List.map_cons, hvrs]

theorem specUpdate_congr {sdb0 sdb sdb' : Spec.SDB} (hv : valsOf sdb0 = valsOf sdb) (table : Bytes)
    (sets : List (Bytes × Sql.VExpr)) (w : Option Sql.Cond) (h : Spec.specUpdate sdb table sets w = some sdb') :
    ∃ sdb0', Spec.specUpdate sdb0 table sets w = some sdb0' ∧ valsOf sdb0' = valsOf sdb' := by
  rw [specUpdate_eq] at h ⊢
  cases hfind : Spec.findTable sdb table with
  | none => rw [hfind] at h; cases h
  | some t =>
    obtain ⟨t0, hfind0, htv⟩ := findTable_congr_some hv hfind
    rw [hfind] at h
    rw [hfind0]
    simp only [Option.bind_some] at h ⊢
    split at h
    · cases h
    · rename_i hany
      rw [if_neg hany]
      rw [selects_congr htv w, tv_cols htv, namesOK_congr (tv_cols htv)]
      split at h
      · cases h
      rename_i hnm
      rw [if_neg hnm]
      cases hsel : Spec.selects t w with
      | none => rw [hsel] at h; cases h
      | some sel =>
        rw [hsel] at h
        simp only [Option.bind_some] at h ⊢
        cases hrows : (t.rows.zip sel).mapM (specUpdRow t.cols sets) with
        | none => rw [hrows] at h; cases h
        | some rows' =>
          rw [hrows] at h
          simp only [Option.bind_some, Option.some.injEq] at h
          obtain ⟨rows0', hrows0, hvr⟩ := specUpdRows_congr t.cols sets t0.rows t.rows sel rows' (tv_rows htv) hrows
          rw [hrows0]
          simp only [Option.bind_some, Option.some.injEq]
          refine ⟨_, rfl, ?_⟩
          rw [← h]
          exact valsOf_map_congr table (fun _ => rows0') (fun _ => rows') sdb0 sdb hv (fun _ _ _ => hvr)

/-! ### the model's statements preserve the relation -/

/-- **INSERT, modulo row ids.** -/
theorem evalInsert_refines_specV (db : Engine.DB) (pt sch : Levels) (tbls : List (Bytes × Levels))
    (sdb sdb' : Spec.SDB) (h : AbsV db.store pt sch tbls sdb)
    (table : Bytes) (t : Levels) (ht : (table, t) ∈ tbls)
    (schema : List FieldDef) (hsch : schemaOf sch table = some schema)
    (cols : List Bytes) (rows : List (List Val)) (hvalid : ∀ r ∈ rows, ∀ v ∈ r, ValidVal v)
    (hspec : Spec.specInsert sdb table cols rows = some sdb')
    (hrun : InsRunOK schema (cols.map Engine.bytesToName) t db.store.hdr.lastKey db.store.hdr.nextLSN
      db.store.hdr.nextFree rows) :
    ∃ db' ptF t' logs,
      Engine.evalInsert db table cols rows = .ok rows.length db' ∧
      db'.wal = db.wal ++ logs ∧
      InsApplies table (cols.map Engine.bytesToName) rows db.store logs db'.store ∧
      AbsV db'.store ptF sch (setTable tbls table t') sdb' ∧
      db'.store.hdr.lastKey = db.store.hdr.lastKey + rows.length := by
  obtain ⟨sdb0, habs, hv⟩ := h
  obtain ⟨sdb0', hspec0, hv'⟩ := specInsert_congr hv table cols rows hspec
  obtain ⟨db', ptF, t', logs, _, sdb'', e, hw, happ, _, _, habs', hv'', hlk⟩ := evalInsert_refines_spec db pt sch tbls
    sdb0 sdb0' habs table t ht schema hsch cols rows hvalid hspec0 hrun
  exact ⟨db', ptF, t', logs, e, hw, happ, ⟨sdb'', habs', hv''.trans hv'⟩, hlk⟩

/-- **INSERT refused at the first row, modulo row ids**: the relation and the log are unchanged. -/
theorem evalInsert_refused_specV (db : Engine.DB) (pt sch : Levels) (tbls : List (Bytes × Levels))
    (sdb : Spec.SDB) (h : AbsV db.store pt sch tbls sdb) (table : Bytes) (cols : List Bytes)
    (r : List Val) (rest : List (List Val))
    (hbad : (Spec.findTable sdb table = none ∧ table ≠ sysPages ∧ table ≠ sysSchema) ∨
      ∃ st, Spec.findTable sdb table = some st ∧
        (Spec.rowOf st cols r = none ∨ Spec.namesOK st (cols.map Spec.nameStr) = false)) :
    Spec.specInsert sdb table cols (r :: rest) = none ∧
    ∃ e db', Engine.evalInsert db table cols (r :: rest) = .err (.store e) db' ∧
      (e = .tableNotExist ∨ RowRefusal e) ∧ db'.wal = db.wal ∧ AbsV db'.store pt sch tbls sdb := by
  obtain ⟨sdb0, habs, hv⟩ := h
  have hbad0 : (Spec.findTable sdb0 table = none ∧ table ≠ sysPages ∧ table ≠ sysSchema) ∨
      ∃ st, Spec.findTable sdb0 table = some st ∧
        (Spec.rowOf st cols r = none ∨ Spec.namesOK st (cols.map Spec.nameStr) = false) := by
    rcases hbad with ⟨hn, h1, h2⟩ | ⟨st, hf, hr⟩
    · left
      refine ⟨?_, h1, h2⟩
      have := findTable_congr sdb0 sdb hv table
      rw [hn] at this
      cases hf0 : Spec.findTable sdb0 table with
      | none => rfl
      | some x => rw [hf0] at this; cases this
    · right
      obtain ⟨st0, hf0, htv⟩ := findTable_congr_some hv hf
      refine ⟨st0, hf0, ?_⟩
      rcases hr with hr | hr
      · exact .inl (by rw [rowOf_congr (tv_cols htv)]; exact hr)
      · exact .inr (by rw [namesOK_congr (tv_cols htv)]; exact hr)
  have hnone : Spec.specInsert sdb table cols (r :: rest) = none := by
    rcases hbad with ⟨hn, _, _⟩ | ⟨st, hf, hr | hr⟩
    · unfold Spec.specInsert
      rw [hn]
      rfl
    · exact specInsert_none_of_bad_row sdb table cols _ st hf ⟨r, List.mem_cons_self, hr⟩
    · exact specInsert_none_of_bad_names sdb table cols r rest st hf hr
  obtain ⟨_, e, db', he, hre, hw, habs'⟩ := evalInsert_refused_spec db pt sch tbls sdb0 habs table cols r rest hbad0
  exact ⟨hnone, e, db', he, hre, hw, ⟨sdb0, habs', hv⟩⟩

/-- **DELETE, modulo row ids.** -/
theorem evalDelete_refines_specV (db : Engine.DB) (pt sch : Levels) (tbls : List (Bytes × Levels))
    (sdb sdb' : Spec.SDB) (h : AbsV db.store pt sch tbls sdb) (table : Bytes) (w : Option Sql.Cond)
    (hspec : Spec.specDelete sdb table w = some sdb') :
    ∃ n db' t' logs,
      Engine.evalDelete db table w = .ok n db' ∧ db'.wal = db.wal ++ logs ∧ logs.length = n ∧
      AbsV db'.store pt sch (setTable tbls table t') sdb' ∧
      db'.store.hdr.lastKey = db.store.hdr.lastKey ∧
      (∀ st sel, Spec.findTable sdb table = some st → Spec.selects st w = some sel →
        n = (sel.filter id).length) := by
  obtain ⟨sdb0, habs, hv⟩ := h
  obtain ⟨sdb0', hspec0, hv'⟩ := specDelete_congr hv table w hspec
  obtain ⟨n, db', t', logs, e, hw, hl, habs', hlk, hn⟩ := evalDelete_refines_spec db pt sch tbls sdb0 sdb0' habs
    table w hspec0
  refine ⟨n, db', t', logs, e, hw, hl, ⟨sdb0', habs', hv'⟩, hlk, ?_⟩
  intro st sel hf hs
  obtain ⟨st0, hf0, htv⟩ := findTable_congr_some hv hf
  exact hn st0 sel hf0 (by rw [selects_congr htv w]; exact hs)

/-- **UPDATE, modulo row ids.** -/
theorem evalUpdate_refines_specV (db : Engine.DB) (pt sch : Levels) (tbls : List (Bytes × Levels))
    (sdb sdb' : Spec.SDB) (h : AbsV db.store pt sch tbls sdb) (table : Bytes)
    (sets : List (Bytes × Sql.VExpr)) (w : Option Sql.Cond)
    (hvalid : ∀ p ∈ sets, ∀ l, p.2 = .lit l → ValidVal (Engine.litToVal l))
    (hutf : ∀ p ∈ sets, (Spec.nameStr p.1).toUTF8.toList = p.1)
    (hspec : Spec.specUpdate sdb table sets w = some sdb') :
    ∃ db' t' logs,
      Engine.evalUpdate db table sets w = .ok () db' ∧ db'.wal = db.wal ++ logs ∧
      AbsV db'.store pt sch (setTable tbls table t') sdb' ∧
      db'.store.hdr.lastKey = db.store.hdr.lastKey := by
  obtain ⟨sdb0, habs, hv⟩ := h
  obtain ⟨sdb0', hspec0, hv'⟩ := specUpdate_congr hv table sets w hspec
  obtain ⟨db', t', logs, e, hw, habs', hlk⟩ := evalUpdate_refines_spec db pt sch tbls sdb0 sdb0' habs table sets w
    hvalid hutf hspec0
  exact ⟨db', t', logs, e, hw, ⟨sdb0', habs', hv'⟩, hlk⟩

end Mkdb.Store
